(* PrinterProofs.v - parse o print = identity for the WHOLE language (C12/C13):
   every printable tree (Spec/Printer.v), at any nesting, is mapped by the
   printer to a token list that the parser (Model/Parser.v) maps back to
   exactly that tree. *)
From Coq Require Import Floats Lia.
From EF Require Import Model.Base Gen.Tables Model.Lexer Model.Ast Model.Parser
                       Spec.LexSpec Spec.Grammar Spec.Printer Proofs.ParserProofs.
Open Scope N_scope.

(* ------------------------------------------------------------------ *)
(* an induction principle for the nested mutual syntax                 *)
(* ------------------------------------------------------------------ *)

Section Ind.
Variables (P : expr -> Prop) (Q : stmt -> Prop).
Definition optQ (alt : option (list stmt)) : Prop :=
  match alt with Some a => Forall Q a | None => True end.
Hypotheses
  (HInt : forall t v, P (EInt t v)) (HFloat : forall t v, P (EFloat t v))
  (HStr : forall s, P (EStr s)) (HBool : forall b, P (EBool b))
  (HRegexp : forall v fl, P (ERegexp v fl)) (HIdent : forall n, P (EIdent n))
  (HPrefix : forall op r, P r -> P (EPrefix op r))
  (HInfix : forall op l r, P l -> P r -> P (EInfix op l r))
  (HPostfix : forall n op, P (EPostfix n op))
  (HTernary : forall c t f, P c -> P t -> P f -> P (ETernary c t f))
  (HArray : forall l, Forall P l -> P (EArray l))
  (HHash : forall l, Forall (fun kv => P (fst kv) /\ P (snd kv)) l -> P (EHash l))
  (HIndex : forall l i, P l -> P i -> P (EIndex l i))
  (HCall : forall f args, P f -> Forall P args -> P (ECall f args))
  (HAssign : forall n v, P v -> P (EAssign n v))
  (HLocal : forall n, P (ELocal n))
  (HIf : forall c cns alt, P c -> Forall Q cns -> optQ alt -> P (EIf c cns alt))
  (HWhile : forall c b, P c -> Forall Q b -> P (EWhile c b))
  (HForeach : forall idx id v b, P v -> Forall Q b -> P (EForeach idx id v b))
  (HFunction : forall name ps b, Forall Q b -> P (EFunction name ps b))
  (HSwitch : forall v cs, P v ->
         Forall (fun c : bool * list expr * list stmt => Forall P (snd (fst c)) /\ Forall Q (snd c)) cs ->
         P (ESwitch v cs))
  (HReturn : forall e, P e -> Q (SReturn e)) (HExpr : forall e, P e -> Q (SExpr e)).

Fixpoint expr_ind2 (e : expr) : P e :=
  let le := fix go (l : list expr) : Forall P l :=
    match l with [] => Forall_nil _ | x :: l' => Forall_cons _ (expr_ind2 x) (go l') end in
  let ls := fix go (l : list stmt) : Forall Q l :=
    match l with [] => Forall_nil _ | x :: l' => Forall_cons _ (stmt_ind2 x) (go l') end in
  match e with
  | EInt t v => HInt t v
  | EFloat t v => HFloat t v
  | EStr s => HStr s
  | EBool b => HBool b
  | ERegexp v fl => HRegexp v fl
  | EIdent n => HIdent n
  | EPrefix op r => HPrefix op r (expr_ind2 r)
  | EInfix op l r => HInfix op l r (expr_ind2 l) (expr_ind2 r)
  | EPostfix n op => HPostfix n op
  | ETernary c t f => HTernary c t f (expr_ind2 c) (expr_ind2 t) (expr_ind2 f)
  | EArray l => HArray l (le l)
  | EHash l => HHash l
      ((fix go (l : list (expr * expr)) : Forall (fun kv => P (fst kv) /\ P (snd kv)) l :=
          match l with
          | [] => Forall_nil _
          | kv :: l' => Forall_cons _ (conj (expr_ind2 (fst kv)) (expr_ind2 (snd kv))) (go l')
          end) l)
  | EIndex l i => HIndex l i (expr_ind2 l) (expr_ind2 i)
  | ECall f args => HCall f args (expr_ind2 f) (le args)
  | EAssign n v => HAssign n v (expr_ind2 v)
  | ELocal n => HLocal n
  | EIf c cns alt => HIf c cns alt (expr_ind2 c) (ls cns)
      (match alt as o return optQ o with Some a => ls a | None => I end)
  | EWhile c b => HWhile c b (expr_ind2 c) (ls b)
  | EForeach idx id v b => HForeach idx id v b (expr_ind2 v) (ls b)
  | EFunction name ps b => HFunction name ps b (ls b)
  | ESwitch v cs => HSwitch v cs (expr_ind2 v)
      ((fix go (l : list (bool * list expr * list stmt))
          : Forall (fun c : bool * list expr * list stmt => Forall P (snd (fst c)) /\ Forall Q (snd c)) l :=
          match l with
          | [] => Forall_nil _
          | c :: l' => Forall_cons _ (conj (le (snd (fst c))) (ls (snd c))) (go l')
          end) cs)
  end
with stmt_ind2 (s : stmt) : Q s :=
  match s with
  | SReturn e => HReturn e (expr_ind2 e)
  | SExpr e => HExpr e (expr_ind2 e)
  end.
End Ind.

(* ------------------------------------------------------------------ *)
(* small facts about parser states                                     *)
(* ------------------------------------------------------------------ *)

Lemma tern_next : forall s, tern (next s) = tern s. Proof. reflexivity. Qed.
Lemma infn_next : forall s, infn (next s) = infn s. Proof. reflexivity. Qed.
Lemma depth_next : forall s, depth (next s) = depth s. Proof. reflexivity. Qed.
Lemma tern_sd : forall s d, tern (set_depth s d) = tern s. Proof. reflexivity. Qed.
Lemma infn_sd : forall s d, infn (set_depth s d) = infn s. Proof. reflexivity. Qed.
Lemma depth_sd : forall s d, depth (set_depth s d) = d. Proof. reflexivity. Qed.
Lemma tern_st : forall s b, tern (set_tern s b) = b. Proof. reflexivity. Qed.
Lemma infn_st : forall s b, infn (set_tern s b) = infn s. Proof. reflexivity. Qed.
Lemma depth_st : forall s b, depth (set_tern s b) = depth s. Proof. reflexivity. Qed.
Lemma tern_si : forall s b, tern (set_infn s b) = tern s. Proof. reflexivity. Qed.
Lemma infn_si : forall s b, infn (set_infn s b) = b. Proof. reflexivity. Qed.
Lemma depth_si : forall s b, depth (set_infn s b) = depth s. Proof. reflexivity. Qed.
Lemma curT_sd : forall s d, curT (set_depth s d) = curT s. Proof. reflexivity. Qed.
Lemma curT_st : forall s b, curT (set_tern s b) = curT s. Proof. reflexivity. Qed.
Lemma curT_si : forall s b, curT (set_infn s b) = curT s. Proof. reflexivity. Qed.
Lemma prevT_next : forall s, prevT (next s) = curT s. Proof. reflexivity. Qed.
Lemma prevT_sd : forall s d, prevT (set_depth s d) = prevT s. Proof. reflexivity. Qed.
#[local] Hint Rewrite tern_next infn_next depth_next tern_sd infn_sd depth_sd tern_st infn_st depth_st
  tern_si infn_si depth_si curT_sd curT_st curT_si prevT_next prevT_sd : st.

Lemma before_st : forall rest s b, before rest s -> before rest (set_tern s b).
Proof. intros rest s b H. exact H. Qed.
Lemma before_si : forall rest s b, before rest s -> before rest (set_infn s b).
Proof. intros rest s b H. exact H. Qed.
Lemma pos_st : forall toks s b, pos toks s -> pos toks (set_tern s b).
Proof. intros toks s b H. exact H. Qed.
Lemma pos_si : forall toks s b, pos toks s -> pos toks (set_infn s b).
Proof. intros toks s b H. exact H. Qed.

(* the state after consuming one more token *)
Lemma before_step : forall t rest s, before (t :: rest) s -> curT (next s) = t /\ before rest (next s).
Proof. intros t rest s H. apply before_next in H. apply pos_cons in H. exact H. Qed.

Lemma tty_tk : forall t, tty (tk t) = t.
Proof. reflexivity. Qed.

Lemma expect_ok : forall s t rest ty, before (t :: rest) s -> tty t = ty ->
  expect_peek s ty = POk tt (next s).
Proof.
  intros s t rest ty [Hp _] Ht. unfold expect_peek, peek_is. cbn [hd] in Hp. rewrite Hp, Ht.
  replace (tokty_beq ty ty) with true; [reflexivity|].
  symmetry. apply internal_tokty_dec_lb. reflexivity.
Qed.

(* tokens that can begin a printed expression *)
Definition sprefix (ty : tokty) : bool :=
  match ty with
  | TIdent | TInt | TFloat | TString | TTrue | TFalse | TRegexp | TBang | TMinus | TSqrt
  | TLParen | TLSquare | TLBrace | TIf | TWhile | TForeach | TFunction | TLocal | TSwitch => true
  | _ => false
  end.
Definition begins (toks : list token) : Prop :=
  exists t r, toks = t :: r /\ sprefix (tty t) = true.

Lemma begins_cons : forall t r, sprefix (tty t) = true -> begins (t :: r).
Proof. intros t r H. exists t, r. split; [reflexivity|exact H]. Qed.
Lemma begins_app : forall a b, begins a -> begins (a ++ b).
Proof. intros a b (t & r & E & H). subst a. exists t, (r ++ b). split; [reflexivity|exact H]. Qed.
Lemma begins_len : forall a, begins a -> (1 <= List.length a)%nat.
Proof. intros a (t & r & E & H). subst a. cbn. lia. Qed.
Lemma begins_cur : forall a rest s, begins a -> pos (a ++ rest) s -> sprefix (tty (curT s)) = true.
Proof. intros a rest s (t & r & E & H) Hp. subst a. apply pos_cons in Hp. destruct Hp as [Hc _]. rewrite Hc. exact H. Qed.
Lemma begins_hd : forall a rest, begins a -> sprefix (tty (hd eof_tok (a ++ rest))) = true.
Proof. intros a rest (t & r & E & H). subst a. exact H. Qed.

Lemma sprefix_facts : forall ty, sprefix ty = true ->
  has_prefix ty = true /\ has_postfix ty = false /\
  tokty_beq ty TRParen = false /\ tokty_beq ty TRSquare = false /\ tokty_beq ty TRBrace = false /\
  tokty_beq ty TEOF = false /\ tokty_beq ty TIllegal = false /\ tokty_beq ty TReturn = false /\
  tokty_beq ty TSemicolon = false /\ tokty_beq ty TCase = false /\ tokty_beq ty TDefault = false.
Proof. intros ty H. destruct ty; try discriminate H; repeat split. Qed.

(* tokens that can follow a printed expression in a delimited position *)
Definition closer (ty : tokty) : bool :=
  match ty with
  | TRParen | TRSquare | TRBrace | TComma | TColon | TLBrace | TSemicolon | TPlusPlus | TMinusMinus => true
  | _ => false
  end.
Definition closes (rest : list token) : Prop := closer (tty (hd eof_tok rest)) = true.

Lemma closes_cons : forall t rest, closer (tty t) = true -> closes (t :: rest).
Proof. intros t rest H. exact H. Qed.

Lemma closes_stop : forall p rest, closes rest -> 1 <= p -> stop p rest.
Proof.
  unfold closes, stop. intros p rest H Hp.
  destruct (tty (hd eof_tok rest)); try discriminate H; try reflexivity;
    cbn [tokty_beq negb andb prec_of]; apply N.ltb_ge; exact Hp.
Qed.

Lemma closes_not_else : forall rest s, closes rest -> before rest s -> peek_is s TElse = false.
Proof.
  unfold closes, peek_is. intros rest s H [Hp _]. rewrite Hp.
  destruct (tty (hd eof_tok rest)); try discriminate H; reflexivity.
Qed.

Ltac len := repeat first [ rewrite app_length in * | progress cbn [List.length] in * ].

Section PP.
Variable pf : str -> option (option float).
Variable md : N.

(* ------------------------------------------------------------------ *)
(* depth budget                                                        *)
(* ------------------------------------------------------------------ *)

Definition fits (d n : N) : Prop := md = 0 \/ d + n <= md.

Lemma fits_le : forall d n m, fits d n -> m <= n -> fits d m.
Proof. intros d n m [H|H] Hm; [left; exact H|right; lia]. Qed.
Lemma fits_sub : forall d n k m, fits d n -> k + m <= n -> fits (d + k) m.
Proof. intros d n k m [H|H] Hm; [left; exact H|right; lia]. Qed.

Lemma deeper_fits : forall s n, fits (depth s) n -> 1 <= n ->
  deeper md s = POk tt (set_depth s (depth s + 1)).
Proof.
  intros s n H Hn. apply deeper_ok. destruct H as [H|H]; [left; exact H|right; lia].
Qed.

(* ------------------------------------------------------------------ *)
(* one-step unfoldings                                                 *)
(* ------------------------------------------------------------------ *)

Lemma parse_prefix_S : forall f s,
  parse_prefix pf md (S f) s =
  let lit := tlit (curT s) in
  match tty (curT s) with
  | TIdent => POk (EIdent lit) s
  | TInt => match parse_int lit with Some v => POk (EInt lit v) s | None => PErr end
  | TFloat => match pf lit with
              | None => PNeed
              | Some None => PErr
              | Some (Some v) => POk (EFloat lit v) s
              end
  | TString => POk (EStr lit) s
  | TTrue => POk (EBool true) s
  | TFalse => POk (EBool false) s
  | TRegexp => let '(v, fl) := regexp_parts lit in POk (ERegexp v fl) s
  | TBang | TMinus | TSqrt =>
      pbind (parse_expression pf md f PREFIX (next s)) (fun r s1 =>
      POk (EPrefix (tty (curT s)) r) s1)
  | TLParen =>
      pbind (parse_expression pf md f LOWEST (next s)) (fun e s1 =>
      pbind (expect_peek s1 TRParen) (fun _ s2 => POk e s2))
  | TLSquare =>
      pbind (parse_expr_list pf md f TRSquare s) (fun l s1 => POk (EArray l) s1)
  | TLBrace =>
      pbind (parse_hash_loop pf md f [] s) (fun l s1 => POk (EHash l) s1)
  | TIf => parse_if pf md f s
  | TWhile | TFor =>
      pbind (expect_peek s TLParen) (fun _ s1 =>
      pbind (parse_expression pf md f LOWEST (next s1)) (fun c s2 =>
      pbind (expect_peek s2 TRParen) (fun _ s3 =>
      pbind (expect_peek s3 TLBrace) (fun _ s4 =>
      pbind (parse_block pf md f s4) (fun b s5 =>
      POk (EWhile c b) s5)))))
  | TForeach =>
      let s1 := next s in
      if negb (cur_is s1 TIdent) then PErr else
      let id1 := tlit (curT s1) in
      pbind (if peek_is s1 TComma then
               let s1' := next s1 in
               if negb (peek_is s1' TIdent) then PErr
               else let s1'' := next s1' in POk (id1, tlit (curT s1'')) s1''
             else POk ([], id1) s1) (fun names s2 =>
      pbind (expect_peek s2 TIn) (fun _ s3 =>
      pbind (parse_expression pf md f LOWEST (next s3)) (fun v s4 =>
      pbind (expect_peek s4 TLBrace) (fun _ s5 =>
      pbind (parse_block pf md f s5) (fun b s6 =>
      POk (EForeach (fst names) (snd names) v b) s6)))))
  | TFunction =>
      let s1 := next (set_infn s true) in
      if negb (cur_is s1 TIdent) then PErr else
      let name := tlit (curT s1) in
      pbind (expect_peek s1 TLParen) (fun _ s2 =>
      pbind (parse_params (S f) s2) (fun ps s3 =>
      pbind (expect_peek s3 TLBrace) (fun _ s4 =>
      pbind (parse_block pf md f s4) (fun b s5 =>
      POk (EFunction name ps b) (set_infn s5 false)))))
  | TLocal =>
      if negb (infn s) then PErr else
      let s1 := next s in
      if negb (cur_is s1 TIdent) then PErr else POk (ELocal (tlit (curT s1))) s1
  | TSwitch =>
      pbind (expect_peek s TLParen) (fun _ s1 =>
      pbind (parse_expression pf md f LOWEST (next s1)) (fun v s2 =>
      pbind (expect_peek s2 TRParen) (fun _ s3 =>
      pbind (expect_peek s3 TLBrace) (fun _ s4 =>
      pbind (parse_switch_loop pf md f [] (next s4)) (fun cs s5 =>
      if Nat.ltb 1 (count_defaults cs) then PErr else POk (ESwitch v cs) s5)))))
  | TEOF => PErr
  | TIllegal => PErr
  | _ => PNeed
  end.
Proof. reflexivity. Qed.

Lemma parse_infix_S : forall f lhs s,
  parse_infix pf md (S f) lhs s =
  let op := tty (curT s) in
  if infix_plain op then
    pbind (parse_expression pf md f (prec_of op) (next s)) (fun r s1 =>
    POk (EInfix op lhs r) s1)
  else match op with
  | TAssign =>
      match lhs with
      | EIdent name =>
          pbind (parse_expression pf md f LOWEST (next s)) (fun v s1 => POk (EAssign name v) s1)
      | _ => PErr
      end
  | TLParen =>
      pbind (parse_expr_list pf md f TRParen s) (fun args s1 => POk (ECall lhs args) s1)
  | TLSquare =>
      pbind (parse_expression pf md f LOWEST (next s)) (fun i s1 =>
      pbind (expect_peek s1 TRSquare) (fun _ s2 => POk (EIndex lhs i) s2))
  | TQuestion =>
      if tern s then PErr else
      unset_tern (
        pbind (parse_expression pf md f LOWEST (next (set_tern s true))) (fun t s1 =>
        pbind (expect_peek s1 TColon) (fun _ s2 =>
        pbind (parse_expression pf md f LOWEST (next s2)) (fun e s3 =>
        POk (ETernary lhs t e) s3))))
  | _ => PNeed
  end.
Proof. reflexivity. Qed.

Lemma parse_expr_list_S : forall f close s,
  parse_expr_list pf md (S f) close s =
  if peek_is s close then POk [] (next s)
  else pbind (parse_expression pf md f LOWEST (next s)) (fun e s1 =>
       parse_list_tail pf md f close [e] s1).
Proof. reflexivity. Qed.

Lemma parse_list_tail_S : forall f close acc s,
  parse_list_tail pf md (S f) close acc s =
  if peek_is s TComma then
    pbind (parse_expression pf md f LOWEST (next (next s))) (fun e s1 =>
    parse_list_tail pf md f close (e :: acc) s1)
  else pbind (expect_peek s close) (fun _ s1 => POk (rev acc) s1).
Proof. reflexivity. Qed.

Lemma parse_hash_loop_S : forall f acc s,
  parse_hash_loop pf md (S f) acc s =
  if peek_is s TRBrace then POk (rev acc) (next s)
  else
    pbind (parse_expression pf md f LOWEST (next s)) (fun k s1 =>
    pbind (expect_peek s1 TColon) (fun _ s2 =>
    pbind (parse_expression pf md f LOWEST (next s2)) (fun v s3 =>
    if peek_is s3 TRBrace then parse_hash_loop pf md f ((k, v) :: acc) s3
    else pbind (expect_peek s3 TComma) (fun _ s4 => parse_hash_loop pf md f ((k, v) :: acc) s4)))).
Proof. reflexivity. Qed.

Lemma parse_if_S : forall f s0,
  parse_if pf md (S f) s0 =
  restore (depth s0) (
    pbind (deeper md s0) (fun _ s =>
    pbind (expect_peek s TLParen) (fun _ s1 =>
    pbind (parse_expression pf md f LOWEST (next s1)) (fun c s2 =>
    pbind (expect_peek s2 TRParen) (fun _ s3 =>
    pbind (expect_peek s3 TLBrace) (fun _ s4 =>
    pbind (parse_block pf md f s4) (fun cns s5 =>
    if peek_is s5 TElse then
      let s6 := next s5 in
      if peek_is s6 TIf then
        pbind (parse_if pf md f (next s6)) (fun e s7 => POk (EIf c cns (Some [SExpr e])) s7)
      else
        pbind (expect_peek s6 TLBrace) (fun _ s7 =>
        pbind (parse_block pf md f s7) (fun alt s8 => POk (EIf c cns (Some alt)) s8))
    else POk (EIf c cns None) s5))))))).
Proof. reflexivity. Qed.

Lemma parse_block_S : forall f s,
  parse_block pf md (S f) s = parse_block_loop pf md f [] (next s).
Proof. reflexivity. Qed.

Lemma parse_switch_loop_S : forall f acc s,
  parse_switch_loop pf md (S f) acc s =
  if cur_is s TRBrace then POk (rev acc) s
  else if cur_is s TEOF then PErr
  else
    pbind (if cur_is s TDefault then POk (true, []) s
           else if cur_is s TCase then
             let s' := next s in
             if cur_is s' TDefault then POk (true, []) s'
             else
               pbind (parse_expression pf md f LOWEST s') (fun e s'' =>
               pbind (parse_case_tail pf md f [e] s'') (fun es s3 => POk (false, es) s3))
           else PErr) (fun hd s1 =>
    pbind (expect_peek s1 TLBrace) (fun _ s2 =>
    pbind (parse_block pf md f s2) (fun b s3 =>
    parse_switch_loop pf md f ((fst hd, snd hd, b) :: acc) (next s3)))).
Proof. reflexivity. Qed.

Lemma parse_case_tail_S : forall f acc s,
  parse_case_tail pf md (S f) acc s =
  if peek_is s TComma then
    pbind (parse_expression pf md f LOWEST (next (next s))) (fun e s1 =>
    parse_case_tail pf md f (e :: acc) s1)
  else POk (rev acc) s.
Proof. reflexivity. Qed.

Lemma parse_params_loop_S : forall f acc s,
  parse_params_loop (S f) acc s =
  if cur_is s TRParen then POk (rev acc) s
  else if cur_is s TEOF then PErr
  else if negb (cur_is s TIdent) then PErr
  else
    let s1 := next s in
    let s2 := if cur_is s1 TComma then next s1 else s1 in
    parse_params_loop f (tlit (curT s) :: acc) s2.
Proof. reflexivity. Qed.


(* ------------------------------------------------------------------ *)
(* the invariants                                                      *)
(* ------------------------------------------------------------------ *)

(* the state after a construct: positioned on its last token, flags as the
   parser leaves them (hf: a function definition has been seen) *)
Definition post (s s' : pst) (rest : list token) (hf : bool) : Prop :=
  before rest s' /\ tern s' = tern s /\ depth s' = depth s /\ infn s' = infn s && negb hf.

(* toks, read by parse_prefix, give e (whatever follows) *)
Definition PrefOK (toks : list token) (e : expr) (tn fn : bool) (dn : N) (hf : bool) : Prop :=
  begins toks /\
  forall rest f s, pos (toks ++ rest) s -> tern s = tn -> infn s = fn -> fits (depth s) dn ->
    (2 * List.length toks <= S f)%nat ->
    exists s', parse_prefix pf md f s = POk e s' /\ post s s' rest hf.

(* toks, read by parse_expression at any level, give e when a closing token follows *)
Definition OpndOK (toks : list token) (e : expr) (tn fn : bool) (dn : N) (hf : bool) : Prop :=
  begins toks /\
  forall p rest f s, 1 <= p -> closes rest -> pos (toks ++ rest) s -> tern s = tn -> infn s = fn ->
    fits (depth s) dn -> (2 * List.length toks <= f)%nat ->
    exists s', parse_expression pf md f p s = POk e s' /\ post s s' rest hf.

(* the same at the lowest level only *)
Definition InnerOK (toks : list token) (e : expr) (tn fn : bool) (dn : N) (hf : bool) : Prop :=
  begins toks /\
  forall rest f s, closes rest -> pos (toks ++ rest) s -> tern s = tn -> infn s = fn ->
    fits (depth s) dn -> (2 * List.length toks <= f)%nat ->
    exists s', parse_expression pf md f LOWEST s = POk e s' /\ post s s' rest hf.

Ltac post_tac :=
  unfold post in *; autorewrite with st in *; (split; [|split; [|split]]);
  try assumption; try (apply before_set_depth; assumption); try congruence.

Lemma inner_of_opnd : forall toks e tn fn dn hf, OpndOK toks e tn fn dn hf -> InnerOK toks e tn fn dn hf.
Proof.
  intros toks e tn fn dn hf [Hb H]. split; [exact Hb|].
  intros rest f s Hcl Hpos Htn Hfn Hfit Hf. apply H; try assumption. apply N.le_refl.
Qed.

Lemma inner_weaken : forall toks e tn fn dn dn' hf hf', InnerOK toks e tn fn dn hf ->
  dn <= dn' -> hf = hf' -> InnerOK toks e tn fn dn' hf'.
Proof.
  intros toks e tn fn dn dn' hf hf' [Hb H] Hd <-. split; [exact Hb|].
  intros rest f s Hcl Hpos Htn Hfn Hfit Hf. apply H; try assumption. eapply fits_le; eassumption.
Qed.

Lemma pref_weaken : forall toks e tn fn dn dn' hf hf', PrefOK toks e tn fn dn hf ->
  dn <= dn' -> hf = hf' -> PrefOK toks e tn fn dn' hf'.
Proof.
  intros toks e tn fn dn dn' hf hf' [Hb H] Hd <-. split; [exact Hb|].
  intros rest f s Hpos Htn Hfn Hfit Hf. apply H; try assumption. eapply fits_le; eassumption.
Qed.

Lemma pe_enter : forall f p s n, sprefix (tty (curT s)) = true -> fits (depth s) n -> 1 <= n ->
  parse_expression pf md (S f) p s =
  restore (depth s) (pbind (parse_prefix pf md f (set_depth s (depth s + 1)))
                           (fun lhs s1 => infix_loop pf md f p lhs s1)).
Proof.
  intros f p s n Hsp Hfit Hn. rewrite parse_expression_S, (deeper_fits _ _ Hfit Hn). cbn [pbind].
  rewrite curT_sd. destruct (sprefix_facts _ Hsp) as (Hp & Hq & _). rewrite Hp, Hq. reflexivity.
Qed.

Lemma loop_end : forall f p lhs s rest,
  before rest s -> stop p rest -> infix_loop pf md (S f) p lhs s = POk lhs s.
Proof.
  intros f p lhs s rest [Hp _] Hs. rewrite infix_loop_S. unfold peek_is. rewrite Hp.
  unfold stop in Hs. rewrite Hs. reflexivity.
Qed.

Lemma loop_enter : forall f p lhs s t toks n,
  before (t :: toks) s -> tokty_beq (tty t) TSemicolon = false -> p < prec_of (tty t) ->
  has_infix (tty t) = true -> fits (depth s) n -> 1 <= n ->
  infix_loop pf md (S f) p lhs s =
    pbind (parse_infix pf md f lhs (set_depth (next s) (depth s + 1)))
          (fun lhs2 s3 => infix_loop pf md f p lhs2 s3).
Proof.
  intros f p lhs s t toks n [Hp _] Hsemi Hlt Hinf Hfit Hn. rewrite infix_loop_S. unfold peek_is.
  cbn [hd] in Hp. rewrite Hp, Hsemi, Hinf. cbn [negb andb].
  replace (p <? prec_of (tty t)) with true by (symmetry; apply N.ltb_lt; assumption).
  rewrite (deeper_fits (next s) n); [reflexivity|rewrite depth_next; assumption|assumption].
Qed.

Lemma opnd_of_pref : forall toks e tn fn dn hf,
  PrefOK toks e tn fn dn hf -> OpndOK toks e tn fn (1 + dn) hf.
Proof.
  intros toks e tn fn dn hf [Hb H]. split; [exact Hb|].
  intros p rest f s Hp Hcl Hpos Htn Hfn Hfit Hf.
  pose proof (begins_len _ Hb) as Hlen.
  destruct f as [|f]; [lia|].
  rewrite (pe_enter f p s (1 + dn)); [|eapply begins_cur; eassumption|exact Hfit|lia].
  destruct (H rest f (set_depth s (depth s + 1))) as (s1 & E1 & Hb1 & Ht1 & Hd1 & Hi1).
  - apply pos_set_depth; exact Hpos.
  - exact Htn.
  - exact Hfn.
  - rewrite depth_sd. eapply fits_sub; [exact Hfit|lia].
  - lia.
  - rewrite E1. cbn [pbind]. destruct f as [|f]; [lia|].
    rewrite (loop_end f p e s1 rest Hb1 (closes_stop _ _ Hcl Hp)). cbn [restore].
    eexists; split; [reflexivity|]. post_tac.
Qed.

Lemma pref_paren : forall toks e tn fn dn hf, InnerOK toks e tn fn dn hf ->
  PrefOK (tk TLParen :: toks ++ [tk TRParen]) e tn fn dn hf.
Proof.
  intros toks e tn fn dn hf [Hb H]. split; [apply begins_cons; reflexivity|].
  intros rest f s Hpos Htn Hfn Hfit Hf.
  cbn [app] in Hpos. rewrite <- app_assoc in Hpos. cbn [app] in Hpos.
  apply pos_cons in Hpos. destruct Hpos as [Hcur Hbef].
  len. destruct f as [|f]; [lia|].
  rewrite parse_prefix_S, Hcur. cbn [tty tk tlit].
  destruct (H (tk TRParen :: rest) f (next s)) as (s1 & E1 & Hb1 & Ht1 & Hd1 & Hi1).
  - reflexivity.
  - apply before_next; exact Hbef.
  - exact Htn.
  - exact Hfn.
  - exact Hfit.
  - lia.
  - rewrite E1. cbn [pbind]. rewrite (expect_ok s1 _ _ TRParen Hb1 eq_refl). cbn [pbind].
    destruct (before_step _ _ _ Hb1) as [_ Hb2].
    eexists; split; [reflexivity|]. post_tac.
Qed.

(* ------------------------------------------------------------------ *)
(* literals and names                                                  *)
(* ------------------------------------------------------------------ *)

Lemma pref_atom : forall t e tn fn,
  sprefix (tty t) = true ->
  (forall f s, curT s = t -> parse_prefix pf md (S f) s = POk e s) ->
  PrefOK [t] e tn fn 0 false.
Proof.
  intros t e tn fn Hsp Heq. split; [apply begins_cons; exact Hsp|].
  intros rest f s Hpos Htn Hfn Hfit Hf. cbn [app] in Hpos. apply pos_cons in Hpos.
  destruct Hpos as [Hcur Hbef]. cbn [List.length] in Hf. destruct f as [|f]; [lia|].
  exists s. split; [apply Heq; exact Hcur|]. unfold post. rewrite andb_true_r.
  repeat split; try reflexivity; apply Hbef.
Qed.

Lemma pref_ident : forall n tn fn, PrefOK [mkTok TIdent n] (EIdent n) tn fn 0 false.
Proof.
  intros. apply pref_atom; [reflexivity|]. intros f s H. rewrite parse_prefix_S, H. reflexivity.
Qed.

Lemma pref_int : forall t v tn fn, parse_int t = Some v -> PrefOK [mkTok TInt t] (EInt t v) tn fn 0 false.
Proof.
  intros t v tn fn Hv. apply pref_atom; [reflexivity|]. intros f s H.
  rewrite parse_prefix_S, H. cbn [tty tlit]. rewrite Hv. reflexivity.
Qed.

Lemma pref_float : forall t v tn fn, pf t = Some (Some v) -> PrefOK [mkTok TFloat t] (EFloat t v) tn fn 0 false.
Proof.
  intros t v tn fn Hv. apply pref_atom; [reflexivity|]. intros f s H.
  rewrite parse_prefix_S, H. cbn [tty tlit]. rewrite Hv. reflexivity.
Qed.

Lemma pref_str : forall t tn fn, PrefOK [mkTok TString t] (EStr t) tn fn 0 false.
Proof.
  intros. apply pref_atom; [reflexivity|]. intros f s H. rewrite parse_prefix_S, H. reflexivity.
Qed.

Lemma pref_bool : forall (b : bool) tn fn, PrefOK [tk (if b then TTrue else TFalse)] (EBool b) tn fn 0 false.
Proof.
  intros. apply pref_atom; [destruct b; reflexivity|]. intros f s H. rewrite parse_prefix_S, H.
  destruct b; reflexivity.
Qed.

Lemma regexp_parts_flags : forall x,
  regexp_parts (40 :: 63 :: x) =
  if memN 41 x then let '(fl, body) := split_flags x [] in (body, fl) else (x, x).
Proof. reflexivity. Qed.

Lemma regexp_parts_other : forall lit, is_prefix [40; 63] lit = false -> regexp_parts lit = (lit, []).
Proof.
  intros lit H. destruct lit as [|a [|b r]]; try reflexivity.
  - destruct a as [|p]; try reflexivity. repeat (destruct p as [p|p|]; try reflexivity).
  - destruct a as [|p]; try reflexivity. repeat (destruct p as [p|p|]; try reflexivity).
    destruct b as [|p]; try reflexivity. repeat (destruct p as [p|p|]; try reflexivity).
    cbn in H. discriminate H.
Qed.

Lemma split_flags_app : forall fl v acc, memN 41 fl = false ->
  split_flags (fl ++ 41 :: v) acc = (rev acc ++ fl, v).
Proof.
  induction fl as [|c fl IH]; intros v acc H.
  - cbn [app split_flags]. rewrite N.eqb_refl, app_nil_r. reflexivity.
  - cbn [memN] in H. apply orb_false_iff in H. destruct H as [Hc Hm].
    cbn [app split_flags]. rewrite N.eqb_sym, Hc. rewrite (IH v (c :: acc) Hm).
    cbn [rev]. rewrite <- app_assoc. reflexivity.
Qed.

Lemma memN_app_41 : forall fl v, memN 41 (fl ++ 41 :: v) = true.
Proof.
  induction fl as [|c fl IH]; intros v; cbn [app memN].
  - rewrite N.eqb_refl. reflexivity.
  - rewrite IH. apply orb_true_r.
Qed.

Lemma regexp_roundtrip : forall v fl, regexp_ok v fl = true -> regexp_parts (regexp_lit v fl) = (v, fl).
Proof.
  intros v fl H. unfold regexp_ok in H.
  destruct fl as [|c fl].
  - cbn [regexp_lit]. apply regexp_parts_other. apply negb_true_iff. exact H.
  - apply andb_true_iff in H. destruct H as [H _]. apply negb_true_iff in H.
    unfold regexp_lit. rewrite regexp_parts_flags, memN_app_41, (split_flags_app _ _ _ H). reflexivity.
Qed.

Lemma pref_regexp : forall v fl tn fn, regexp_ok v fl = true ->
  PrefOK [mkTok TRegexp (regexp_lit v fl)] (ERegexp v fl) tn fn 0 false.
Proof.
  intros v fl tn fn Hv. apply pref_atom; [reflexivity|]. intros f s H.
  rewrite parse_prefix_S, H. cbn [tty tlit]. rewrite (regexp_roundtrip _ _ Hv). reflexivity.
Qed.

Lemma int_ok_parse : forall t v, int_ok t v = true -> parse_int t = Some v.
Proof.
  intros t v H. unfold int_ok in H. apply andb_true_iff in H. destruct H as [_ H].
  destruct (parse_int t) as [z|]; [|discriminate H]. apply Z.eqb_eq in H. subst z. reflexivity.
Qed.

(* ------------------------------------------------------------------ *)
(* prefix operators                                                    *)
(* ------------------------------------------------------------------ *)

Lemma inner_prefix : forall op R r tn fn dn hf, prefix_op op = true ->
  OpndOK R r tn fn dn hf -> InnerOK (tk op :: R) (EPrefix op r) tn fn (1 + dn) hf.
Proof.
  intros op R r tn fn dn hf Hop [HbR HR].
  assert (Hsp : sprefix op = true) by (destruct op; try discriminate Hop; reflexivity).
  split; [apply begins_cons; exact Hsp|].
  intros rest f s Hcl Hpos Htn Hfn Hfit Hf. cbn [app] in Hpos.
  pose proof Hpos as Hpos0. apply pos_cons in Hpos. destruct Hpos as [Hcur Hbef].
  len. destruct f as [|f]; [lia|].
  rewrite (pe_enter f LOWEST s (1 + dn)); [|rewrite Hcur; exact Hsp|exact Hfit|lia].
  destruct f as [|f]; [lia|].
  set (s1 := set_depth s (depth s + 1)).
  assert (Hcur1 : curT s1 = tk op) by exact Hcur.
  destruct (HR PREFIX rest f (next s1)) as (s2 & E2 & Hb2 & Ht2 & Hd2 & Hi2).
  - discriminate.
  - exact Hcl.
  - apply before_next. exact Hbef.
  - exact Htn.
  - exact Hfn.
  - subst s1. rewrite depth_next, depth_sd. eapply fits_sub; [exact Hfit|lia].
  - lia.
  - assert (Epre : parse_prefix pf md (S f) s1 = POk (EPrefix op r) s2).
    { rewrite parse_prefix_S, Hcur1. cbn [tty tk tlit].
      destruct op; try discriminate Hop; rewrite E2; reflexivity. }
    rewrite Epre. cbn [pbind]. destruct f as [|f]; [pose proof (begins_len _ HbR); lia|].
    rewrite (loop_end _ LOWEST _ s2 rest Hb2 (closes_stop _ _ Hcl (N.le_refl _))). cbn [restore].
    eexists; split; [reflexivity|]. subst s1. post_tac.
Qed.

(* ------------------------------------------------------------------ *)
(* forms that begin with an operand: the first pass of the loop        *)
(* ------------------------------------------------------------------ *)

(* parse_expression on Lt ++ t :: ..., where t is an infix token: the operand is
   read, the loop is entered, parse_infix is called on t *)
Lemma led_start : forall Lt l tn fn dl hl t toks f s n,
  PrefOK Lt l tn fn dl hl ->
  tokty_beq (tty t) TSemicolon = false -> LOWEST < prec_of (tty t) -> has_infix (tty t) = true ->
  pos (Lt ++ t :: toks) s -> tern s = tn -> infn s = fn ->
  fits (depth s) n -> 1 + dl <= n -> 2 <= n -> (2 * List.length Lt <= S f)%nat ->
  exists sB,
    parse_expression pf md (S (S f)) LOWEST s =
      restore (depth s) (pbind (parse_infix pf md f l sB)
                               (fun lhs2 s3 => infix_loop pf md f LOWEST lhs2 s3)) /\
    curT sB = t /\ before toks sB /\ tern sB = tn /\ infn sB = fn && negb hl /\ depth sB = depth s + 2.
Proof.
  intros Lt l tn fn dl hl t toks f s n [HbL HL] Hsemi Hprec Hinf Hpos Htn Hfn Hfit Hdl Hn Hf.
  rewrite (pe_enter (S f) LOWEST s n); [|eapply begins_cur; eassumption|exact Hfit|lia].
  destruct (HL (t :: toks) (S f) (set_depth s (depth s + 1))) as (sA & EA & HbA & HtA & HdA & HiA).
  - apply pos_set_depth; exact Hpos.
  - exact Htn.
  - exact Hfn.
  - rewrite depth_sd. eapply fits_sub; [exact Hfit|lia].
  - lia.
  - rewrite EA. cbn [pbind]. autorewrite with st in *.
    rewrite (loop_enter f LOWEST l sA t toks (n - 1) HbA Hsemi Hprec Hinf);
      [|rewrite HdA; eapply fits_sub; [exact Hfit|lia]|lia].
    destruct (before_step _ _ _ HbA) as [Hc Hb].
    exists (set_depth (next sA) (depth sA + 1)). split; [reflexivity|].
    autorewrite with st. repeat split; try assumption; try congruence.
    + apply Hb.
    + apply Hb.
    + rewrite HdA. lia.
Qed.

(* ... and the way out: the loop stops on a closing token *)
Lemma led_finish : forall f e s3 rest d,
  before rest s3 -> closes rest ->
  restore d (infix_loop pf md (S f) LOWEST e s3) = POk e (set_depth s3 d).
Proof.
  intros f e s3 rest d Hb Hcl.
  rewrite (loop_end f LOWEST e s3 rest Hb (closes_stop _ _ Hcl (N.le_refl _))). reflexivity.
Qed.

Lemma andb_negb_orb : forall a x y, a && negb x && negb y = a && negb (x || y).
Proof. intros [] [] []; reflexivity. Qed.

Lemma binop_facts : forall op, binop op = true ->
  infix_plain op = true /\ op <> TPeriod /\ has_infix op = true /\ LOWEST < prec_of op /\
  tokty_beq op TSemicolon = false /\ 1 <= prec_of op.
Proof. intros op H. destruct op; try discriminate H; repeat split; discriminate. Qed.

Lemma inner_infix : forall op Lt l Rt r tn fn dl dr hl hr, binop op = true ->
  PrefOK Lt l tn fn dl hl -> OpndOK Rt r tn (fn && negb hl) dr hr ->
  InnerOK (Lt ++ tk op :: Rt) (EInfix op l r) tn fn (N.max (1 + dl) (2 + dr)) (hl || hr).
Proof.
  intros op Lt l Rt r tn fn dl dr hl hr Hop HL [HbR HR].
  destruct (binop_facts op Hop) as (Hplain & Hnp & Hinf & Hprec & Hsemi & Hp1).
  split; [apply begins_app; apply HL|].
  intros rest f s Hcl Hpos Htn Hfn Hfit Hf.
  rewrite <- app_assoc in Hpos. cbn [app] in Hpos. len.
  pose proof (begins_len _ (proj1 HL)) as HlenL. pose proof (begins_len _ HbR) as HlenR.
  destruct f as [|[|f]]; try lia.
  destruct (led_start Lt l tn fn dl hl (tk op) (Rt ++ rest) f s _ HL Hsemi Hprec Hinf Hpos Htn Hfn Hfit)
    as (sB & E & HcB & HbB & HtB & HiB & HdB); try lia.
  rewrite E. destruct f as [|f]; [lia|].
  rewrite parse_infix_plain; rewrite HcB; try assumption. rewrite tty_tk.
  destruct (HR (prec_of op) rest f (next sB)) as (sC & EC & HbC & HtC & HdC & HiC); try assumption.
  - apply before_next; exact HbB.
  - autorewrite with st. rewrite HdB. eapply fits_sub; [exact Hfit|lia].
  - lia.
  - rewrite EC. cbn [pbind]. rewrite (led_finish f _ sC rest _ HbC Hcl).
    eexists; split; [reflexivity|]. post_tac.
    rewrite HiC, HiB, Hfn. apply andb_negb_orb.
Qed.

Lemma estr_ident : forall n, estr 64 (EIdent n) = Some n.
Proof. reflexivity. Qed.

Lemma inner_period : forall Lt l name tn fn dl hl,
  PrefOK Lt l tn fn dl hl ->
  InnerOK (Lt ++ [tk TPeriod; mkTok TIdent name]) (EInfix TPeriod l (EIdent name)) tn fn (N.max (1 + dl) 3) hl.
Proof.
  intros Lt l name tn fn dl hl HL.
  split; [apply begins_app; apply HL|].
  intros rest f s Hcl Hpos Htn Hfn Hfit Hf.
  rewrite <- app_assoc in Hpos. cbn [app] in Hpos. len.
  pose proof (begins_len _ (proj1 HL)) as HlenL.
  destruct f as [|[|f]]; try lia.
  destruct (led_start Lt l tn fn dl hl (tk TPeriod) (mkTok TIdent name :: rest) f s _ HL
              eq_refl eq_refl eq_refl Hpos Htn Hfn Hfit)
    as (sB & E & HcB & HbB & HtB & HiB & HdB); try lia.
  rewrite E. destruct f as [|f]; [lia|].
  destruct (opnd_of_pref _ _ tn (fn && negb hl) _ _ (pref_ident name tn (fn && negb hl))) as [_ HR].
  destruct (HR P_INDEX rest f (next sB)) as (sC & EC & HbC & HtC & HdC & HiC); try assumption.
  - discriminate.
  - apply before_next; exact HbB.
  - autorewrite with st. rewrite HdB. eapply fits_sub; [exact Hfit|lia].
  - cbn [List.length]. lia.
  - rewrite parse_infix_S, HcB. cbn [tty tk infix_plain prec_of]. rewrite EC. cbn [pbind].
    rewrite (led_finish f _ sC rest _ HbC Hcl).
    eexists; split; [reflexivity|]. post_tac.
    rewrite HiC, HiB, Hfn. rewrite andb_true_r. reflexivity.
Qed.

Lemma inner_index : forall Lt l It i tn fn dl di hl hi,
  PrefOK Lt l tn fn dl hl -> InnerOK It i tn (fn && negb hl) di hi ->
  InnerOK (Lt ++ tk TLSquare :: It ++ [tk TRSquare]) (EIndex l i) tn fn (N.max (1 + dl) (2 + di)) (hl || hi).
Proof.
  intros Lt l It i tn fn dl di hl hi HL [HbI HI].
  split; [apply begins_app; apply HL|].
  intros rest f s Hcl Hpos Htn Hfn Hfit Hf.
  rewrite <- app_assoc in Hpos. cbn [app] in Hpos. rewrite <- app_assoc in Hpos. cbn [app] in Hpos. len.
  pose proof (begins_len _ (proj1 HL)) as HlenL. pose proof (begins_len _ HbI) as HlenI.
  destruct f as [|[|f]]; try lia.
  destruct (led_start Lt l tn fn dl hl (tk TLSquare) (It ++ tk TRSquare :: rest) f s _ HL
              eq_refl eq_refl eq_refl Hpos Htn Hfn Hfit)
    as (sB & E & HcB & HbB & HtB & HiB & HdB); try lia.
  rewrite E. destruct f as [|f]; [lia|].
  destruct (HI (tk TRSquare :: rest) f (next sB)) as (sC & EC & HbC & HtC & HdC & HiC); try assumption.
  - reflexivity.
  - apply before_next; exact HbB.
  - autorewrite with st. rewrite HdB. eapply fits_sub; [exact Hfit|lia].
  - lia.
  - rewrite parse_infix_S, HcB. cbn [tty tk infix_plain]. rewrite EC. cbn [pbind].
    rewrite (expect_ok sC _ _ TRSquare HbC eq_refl). cbn [pbind].
    destruct (before_step _ _ _ HbC) as [_ HbD].
    rewrite (led_finish f _ (next sC) rest _ HbD Hcl).
    eexists; split; [reflexivity|]. post_tac.
    rewrite HiC, HiB, Hfn. apply andb_negb_orb.
Qed.

Lemma inner_ternary : forall Ct c Tt t Et e fn dc dt de hc ht he,
  PrefOK Ct c false fn dc hc -> InnerOK Tt t true (fn && negb hc) dt ht ->
  InnerOK Et e true (fn && negb hc && negb ht) de he ->
  InnerOK (Ct ++ tk TQuestion :: Tt ++ tk TColon :: Et) (ETernary c t e) false fn
          (N.max (1 + dc) (2 + N.max dt de)) (hc || ht || he).
Proof.
  intros Ct c Tt t Et e fn dc dt de hc ht he HC [HbT HT] [HbE HE].
  split; [apply begins_app; apply HC|].
  intros rest f s Hcl Hpos Htn Hfn Hfit Hf.
  rewrite <- app_assoc in Hpos. cbn [app] in Hpos. rewrite <- app_assoc in Hpos. cbn [app] in Hpos. len.
  pose proof (begins_len _ (proj1 HC)) as HlenC. pose proof (begins_len _ HbT) as HlenT.
  pose proof (begins_len _ HbE) as HlenE.
  destruct f as [|[|f]]; try lia.
  destruct (led_start Ct c false fn dc hc (tk TQuestion) (Tt ++ tk TColon :: Et ++ rest) f s _ HC
              eq_refl eq_refl eq_refl Hpos Htn Hfn Hfit)
    as (sB & E & HcB & HbB & HtB & HiB & HdB); try lia.
  rewrite E. destruct f as [|f]; [lia|].
  destruct (HT (tk TColon :: Et ++ rest) f (next (set_tern sB true))) as (sC & EC & HbC & HtC & HdC & HiC).
  - reflexivity.
  - apply before_next. apply before_st. exact HbB.
  - reflexivity.
  - autorewrite with st. exact HiB.
  - autorewrite with st. rewrite HdB. eapply fits_sub; [exact Hfit|lia].
  - lia.
  - destruct (before_step _ _ _ HbC) as [_ HbD]. autorewrite with st in *.
    destruct (HE rest f (next (next sC))) as (sE & EE & HbE' & HtE & HdE & HiE).
    + exact Hcl.
    + apply before_next; exact HbD.
    + autorewrite with st. exact HtC.
    + autorewrite with st. rewrite HiC, HiB. reflexivity.
    + autorewrite with st. rewrite HdC, HdB. eapply fits_sub; [exact Hfit|lia].
    + lia.
    + rewrite parse_infix_S, HcB. cbn [tty tk infix_plain]. rewrite HtB.
      rewrite EC. cbn [pbind]. rewrite (expect_ok sC _ _ TColon HbC eq_refl). cbn [pbind].
      rewrite EE. cbn [pbind unset_tern].
      rewrite (led_finish f _ (set_tern sE false) rest _ (before_st _ _ _ HbE') Hcl).
      eexists; split; [reflexivity|]. autorewrite with st in *. post_tac.
      rewrite HiE, HiC, HiB, Hfn. destruct fn, hc, ht, he; reflexivity.
Qed.

Lemma inner_assign : forall n Vt v tn fn dv hv,
  InnerOK Vt v tn fn dv hv ->
  InnerOK (mkTok TIdent n :: tk TAssign :: Vt) (EAssign n v) tn fn (2 + dv) hv.
Proof.
  intros n Vt v tn fn dv hv [HbV HV].
  split; [apply begins_cons; reflexivity|].
  intros rest f s Hcl Hpos Htn Hfn Hfit Hf.
  change (mkTok TIdent n :: tk TAssign :: Vt) with ([mkTok TIdent n] ++ tk TAssign :: Vt) in Hpos.
  rewrite <- app_assoc in Hpos. len. pose proof (begins_len _ HbV) as HlenV.
  destruct f as [|[|f]]; try lia.
  destruct (led_start _ _ tn fn _ _ (tk TAssign) (Vt ++ rest) f s _ (pref_ident n tn fn)
              eq_refl eq_refl eq_refl Hpos Htn Hfn Hfit)
    as (sB & E & HcB & HbB & HtB & HiB & HdB); try (cbn [List.length]; lia).
  rewrite E. destruct f as [|f]; [lia|].
  destruct (HV rest f (next sB)) as (sC & EC & HbC & HtC & HdC & HiC); try assumption.
  - apply before_next; exact HbB.
  - autorewrite with st. rewrite HiB, andb_true_r. reflexivity.
  - autorewrite with st. rewrite HdB. eapply fits_sub; [exact Hfit|lia].
  - lia.
  - rewrite parse_infix_S, HcB. cbn [tty tk infix_plain]. rewrite EC. cbn [pbind].
    rewrite (led_finish f _ sC rest _ HbC Hcl).
    eexists; split; [reflexivity|]. post_tac.
    rewrite HiC, HiB, Hfn, andb_true_r. reflexivity.
Qed.

Lemma pref_local : forall n tn, PrefOK [tk TLocal; mkTok TIdent n] (ELocal n) tn true 0 false.
Proof.
  intros n tn. split; [apply begins_cons; reflexivity|].
  intros rest f s Hpos Htn Hfn Hfit Hf. cbn [app] in Hpos. apply pos_cons in Hpos.
  destruct Hpos as [Hcur Hbef]. len. destruct f as [|f]; [lia|].
  destruct (before_step _ _ _ Hbef) as [Hc1 Hb1].
  rewrite parse_prefix_S, Hcur. cbn [tty tk tlit]. rewrite Hfn. cbn [negb].
  unfold cur_is. rewrite Hc1. cbn [tty tlit tokty_beq negb].
  eexists; split; [reflexivity|]. post_tac. rewrite andb_true_r. reflexivity.
Qed.

(* ------------------------------------------------------------------ *)
(* comma separated lists                                               *)
(* ------------------------------------------------------------------ *)

Inductive ElemsOK (tn : bool) : bool -> list (list token) -> list expr -> N -> bool -> Prop :=
| EO_nil : forall fn, ElemsOK tn fn [] [] 0 false
| EO_cons : forall fn X x dx hx Xs xs dn hf,
    InnerOK X x tn fn dx hx -> ElemsOK tn (fn && negb hx) Xs xs dn hf ->
    ElemsOK tn fn (X :: Xs) (x :: xs) (N.max dx dn) (hx || hf).

Lemma closes_sep_tail : forall Xs t rest, closer (tty t) = true -> closes (sep_tail Xs ++ t :: rest).
Proof. intros [|X Xs] t rest H; [exact H|reflexivity]. Qed.

Lemma tokty_beq_refl : forall t, tokty_beq t t = true.
Proof. intros t. apply internal_tokty_dec_lb. reflexivity. Qed.

Lemma peek_is_hd : forall s t rest ty, before (t :: rest) s -> peek_is s ty = tokty_beq (tty t) ty.
Proof. intros s t rest ty [Hp _]. unfold peek_is. rewrite Hp. reflexivity. Qed.

Lemma peek_is_begins : forall s X rest ty, begins X -> before (X ++ rest) s ->
  peek_is s ty = tokty_beq (tty (hd eof_tok (X ++ rest))) ty.
Proof. intros s X rest ty _ [Hp _]. unfold peek_is. rewrite Hp. reflexivity. Qed.

Lemma list_tail_ok : forall close, close = TRParen \/ close = TRSquare ->
  forall tn fn Xs xs dn hf, ElemsOK tn fn Xs xs dn hf ->
  forall acc rest f s, before (sep_tail Xs ++ tk close :: rest) s -> tern s = tn -> infn s = fn ->
    fits (depth s) dn -> (2 * List.length (sep_tail Xs) + 1 <= f)%nat ->
    exists s', parse_list_tail pf md f close acc s = POk (rev acc ++ xs) s' /\ post s s' rest hf.
Proof.
  intros close HC tn fn Xs xs dn hf H.
  induction H as [fn|fn X x dx hx Xs xs dn hf [HbX HX] HXs IH]; intros acc rest f s Hbef Htn Hfn Hfit Hf.
  - cbn [sep_tail app] in *. destruct f as [|f]; [lia|].
    rewrite parse_list_tail_S, (peek_is_hd _ _ _ _ Hbef), tty_tk.
    replace (tokty_beq close TComma) with false by (destruct HC; subst close; reflexivity).
    rewrite (expect_ok s _ _ close Hbef (tty_tk close)). cbn [pbind].
    destruct (before_step _ _ _ Hbef) as [_ Hb1].
    rewrite app_nil_r. eexists; split; [reflexivity|]. post_tac. rewrite andb_true_r. reflexivity.
  - cbn [sep_tail] in *. rewrite <- app_comm_cons in Hbef. rewrite <- app_assoc in Hbef. len.
    destruct f as [|f]; [lia|].
    rewrite parse_list_tail_S, (peek_is_hd _ _ _ _ Hbef). cbn [tty tk tokty_beq].
    destruct (before_step _ _ _ Hbef) as [_ Hb1].
    destruct (HX (sep_tail Xs ++ tk close :: rest) f (next (next s))) as (s1 & E1 & Hb2 & Ht2 & Hd2 & Hi2).
    + apply closes_sep_tail. destruct HC; subst close; reflexivity.
    + apply before_next. exact Hb1.
    + exact Htn.
    + exact Hfn.
    + autorewrite with st. eapply fits_le; [exact Hfit|lia].
    + lia.
    + rewrite E1. cbn [pbind]. autorewrite with st in *.
      destruct (IH (x :: acc) rest f s1 Hb2) as (s2 & E2 & Hb3 & Ht3 & Hd3 & Hi3).
      * congruence.
      * rewrite Hi2, Hfn. reflexivity.
      * rewrite Hd2. eapply fits_le; [exact Hfit|lia].
      * lia.
      * rewrite E2. cbn [rev]. rewrite <- app_assoc. cbn [app].
        eexists; split; [reflexivity|]. post_tac.
        rewrite Hi3, Hi2. apply andb_negb_orb.
Qed.

Lemma expr_list_ok : forall close, close = TRParen \/ close = TRSquare ->
  forall tn fn Xs xs dn hf, ElemsOK tn fn Xs xs dn hf ->
  forall rest f s, before (commas Xs ++ tk close :: rest) s -> tern s = tn -> infn s = fn ->
    fits (depth s) dn -> (2 * List.length (commas Xs) + 2 <= f)%nat ->
    exists s', parse_expr_list pf md f close s = POk xs s' /\ post s s' rest hf.
Proof.
  intros close HC tn fn Xs xs dn hf H rest f s Hbef Htn Hfn Hfit Hf.
  destruct H as [fn|fn X x dx hx Xs xs dn hf [HbX HX] HXs].
  - cbn [commas app] in *. destruct f as [|f]; [lia|].
    rewrite parse_expr_list_S, (peek_is_hd _ _ _ _ Hbef), tty_tk, tokty_beq_refl.
    destruct (before_step _ _ _ Hbef) as [_ Hb1].
    eexists; split; [reflexivity|]. post_tac. rewrite andb_true_r. reflexivity.
  - cbn [commas] in *. rewrite <- app_assoc in Hbef. len. destruct f as [|f]; [lia|].
    rewrite parse_expr_list_S, (peek_is_begins _ _ _ _ HbX Hbef).
    pose proof (begins_hd X (sep_tail Xs ++ tk close :: rest) HbX) as Hsp.
    destruct (sprefix_facts _ Hsp) as (_ & _ & Hrp & Hrs & _).
    replace (tokty_beq (tty (hd eof_tok (X ++ sep_tail Xs ++ tk close :: rest))) close) with false
      by (destruct HC; subst close; symmetry; assumption).
    destruct (HX (sep_tail Xs ++ tk close :: rest) f (next s)) as (s1 & E1 & Hb2 & Ht2 & Hd2 & Hi2).
    + apply closes_sep_tail. destruct HC; subst close; reflexivity.
    + apply before_next. exact Hbef.
    + exact Htn.
    + exact Hfn.
    + autorewrite with st. eapply fits_le; [exact Hfit|lia].
    + lia.
    + rewrite E1. cbn [pbind]. autorewrite with st in *.
      destruct (list_tail_ok close HC tn _ Xs xs dn hf HXs [x] rest f s1 Hb2) as (s2 & E2 & Hb3 & Ht3 & Hd3 & Hi3).
      * congruence.
      * rewrite Hi2, Hfn. reflexivity.
      * rewrite Hd2. eapply fits_le; [exact Hfit|lia].
      * lia.
      * rewrite E2. cbn [rev app].
        eexists; split; [reflexivity|]. post_tac.
        rewrite Hi3, Hi2. apply andb_negb_orb.
Qed.

Lemma pref_array : forall tn fn Xs xs dn hf, ElemsOK tn fn Xs xs dn hf ->
  PrefOK (tk TLSquare :: commas Xs ++ [tk TRSquare]) (EArray xs) tn fn dn hf.
Proof.
  intros tn fn Xs xs dn hf H. split; [apply begins_cons; reflexivity|].
  intros rest f s Hpos Htn Hfn Hfit Hf.
  cbn [app] in Hpos. rewrite <- app_assoc in Hpos. cbn [app] in Hpos.
  apply pos_cons in Hpos. destruct Hpos as [Hcur Hbef]. len. destruct f as [|f]; [lia|].
  rewrite parse_prefix_S, Hcur. cbn [tty tk tlit].
  destruct (expr_list_ok TRSquare (or_intror eq_refl) tn fn Xs xs dn hf H rest f s Hbef Htn Hfn Hfit)
    as (s1 & E1 & HP); [lia|].
  rewrite E1. cbn [pbind]. eexists; split; [reflexivity|exact HP].
Qed.

Lemma inner_call : forall Lt l tn fn dl hl Xs xs dn hf,
  PrefOK Lt l tn fn dl hl -> ElemsOK tn (fn && negb hl) Xs xs dn hf ->
  InnerOK (Lt ++ tk TLParen :: commas Xs ++ [tk TRParen]) (ECall l xs) tn fn
          (N.max (1 + dl) (2 + dn)) (hl || hf).
Proof.
  intros Lt l tn fn dl hl Xs xs dn hf HL HX.
  split; [apply begins_app; apply HL|].
  intros rest f s Hcl Hpos Htn Hfn Hfit Hf.
  rewrite <- app_assoc in Hpos. cbn [app] in Hpos. rewrite <- app_assoc in Hpos. cbn [app] in Hpos. len.
  pose proof (begins_len _ (proj1 HL)) as HlenL.
  destruct f as [|[|f]]; try lia.
  destruct (led_start Lt l tn fn dl hl (tk TLParen) (commas Xs ++ tk TRParen :: rest) f s _ HL
              eq_refl eq_refl eq_refl Hpos Htn Hfn Hfit)
    as (sB & E & HcB & HbB & HtB & HiB & HdB); try lia.
  rewrite E. destruct f as [|f]; [lia|].
  destruct (expr_list_ok TRParen (or_introl eq_refl) tn _ Xs xs dn hf HX rest f sB HbB HtB HiB)
    as (sC & EC & HbC & HtC & HdC & HiC).
  - rewrite HdB. eapply fits_sub; [exact Hfit|lia].
  - lia.
  - rewrite parse_infix_S, HcB. cbn [tty tk infix_plain]. rewrite EC. cbn [pbind].
    rewrite (led_finish f _ sC rest _ HbC Hcl).
    eexists; split; [reflexivity|]. post_tac.
    rewrite HiC, HiB, Hfn. apply andb_negb_orb.
Qed.

(* ------------------------------------------------------------------ *)
(* hash literals                                                       *)
(* ------------------------------------------------------------------ *)

Inductive PairsOK (tn : bool) : bool -> list (list token) -> list (expr * expr) -> N -> bool -> Prop :=
| PO_nil : forall fn, PairsOK tn fn [] [] 0 false
| PO_cons : forall fn K k dk hk V v dv hv Xs xs dn hf,
    InnerOK K k tn fn dk hk -> InnerOK V v tn (fn && negb hk) dv hv ->
    PairsOK tn (fn && negb (hk || hv)) Xs xs dn hf ->
    PairsOK tn fn ((K ++ tk TColon :: V) :: Xs) ((k, v) :: xs) (N.max (N.max dk dv) dn) ((hk || hv) || hf).

Lemma hash_loop_ok : forall tn fn Xs xs dn hf, PairsOK tn fn Xs xs dn hf ->
  forall acc rest f s, before (commas Xs ++ tk TRBrace :: rest) s -> tern s = tn -> infn s = fn ->
    fits (depth s) dn -> (2 * List.length (commas Xs) + 2 <= f)%nat ->
    exists s', parse_hash_loop pf md f acc s = POk (rev acc ++ xs) s' /\ post s s' rest hf.
Proof.
  intros tn fn Xs xs dn hf H.
  induction H as [fn|fn K k dk hk V v dv hv Xs xs dn hf [HbK HK] [HbV HV] HXs IH];
    intros acc rest f s Hbef Htn Hfn Hfit Hf.
  - cbn [commas app] in *. destruct f as [|f]; [lia|].
    rewrite parse_hash_loop_S, (peek_is_hd _ _ _ _ Hbef). cbn [tty tk tokty_beq].
    destruct (before_step _ _ _ Hbef) as [_ Hb1]. rewrite app_nil_r.
    eexists; split; [reflexivity|]. post_tac. rewrite andb_true_r. reflexivity.
  - cbn [commas] in Hbef, Hf.
    rewrite <- !app_assoc in Hbef. cbn [app] in Hbef. len.
    pose proof (begins_len _ HbK) as HlenK. pose proof (begins_len _ HbV) as HlenV.
    destruct f as [|f]; [lia|].
    rewrite parse_hash_loop_S, (peek_is_begins _ _ _ _ HbK Hbef).
    pose proof (begins_hd K (tk TColon :: V ++ sep_tail Xs ++ tk TRBrace :: rest) HbK) as Hsp.
    destruct (sprefix_facts _ Hsp) as (_ & _ & _ & _ & Hrb & _). rewrite Hrb.
    destruct (HK (tk TColon :: V ++ sep_tail Xs ++ tk TRBrace :: rest) f (next s))
      as (s1 & E1 & Hb1 & Ht1 & Hd1 & Hi1).
    + reflexivity.
    + apply before_next. exact Hbef.
    + exact Htn.
    + exact Hfn.
    + autorewrite with st. eapply fits_le; [exact Hfit|lia].
    + lia.
    + rewrite E1. cbn [pbind]. rewrite (expect_ok s1 _ _ TColon Hb1 eq_refl). cbn [pbind].
      destruct (before_step _ _ _ Hb1) as [_ Hb2]. autorewrite with st in *.
      destruct (HV (sep_tail Xs ++ tk TRBrace :: rest) f (next (next s1)))
        as (s3 & E3 & Hb3 & Ht3 & Hd3 & Hi3).
      * apply closes_sep_tail. reflexivity.
      * apply before_next. exact Hb2.
      * autorewrite with st. congruence.
      * autorewrite with st. rewrite Hi1, Hfn. reflexivity.
      * autorewrite with st. rewrite Hd1. eapply fits_le; [exact Hfit|lia].
      * lia.
      * rewrite E3. cbn [pbind]. autorewrite with st in *.
        assert (Hfn3 : infn s3 = fn && negb (hk || hv))
          by (rewrite Hi3, Hi1, Hfn; apply andb_negb_orb).
        destruct Xs as [|X' Xs'].
        -- cbn [sep_tail app] in Hb3. rewrite (peek_is_hd _ _ _ _ Hb3). cbn [tty tk tokty_beq].
           destruct (IH ((k, v) :: acc) rest f s3) as (s4 & E4 & Hb4 & Ht4 & Hd4 & Hi4).
           ++ exact Hb3.
           ++ congruence.
           ++ exact Hfn3.
           ++ rewrite Hd3, Hd1. eapply fits_le; [exact Hfit|lia].
           ++ cbn [commas List.length]. lia.
           ++ rewrite E4. cbn [rev]. rewrite <- app_assoc. cbn [app].
              eexists; split; [reflexivity|]. post_tac.
              rewrite Hi4, Hfn3, Hfn. apply andb_negb_orb.
        -- cbn [sep_tail] in Hb3. rewrite <- app_comm_cons in Hb3.
           rewrite (peek_is_hd _ _ _ _ Hb3). cbn [tty tk tokty_beq].
           rewrite (expect_ok s3 _ _ TComma Hb3 eq_refl). cbn [pbind].
           destruct (before_step _ _ _ Hb3) as [_ Hb4]. rewrite <- app_assoc in Hb4.
           cbn [sep_tail] in Hf. len.
           destruct (IH ((k, v) :: acc) rest f (next s3)) as (s5 & E5 & Hb5 & Ht5 & Hd5 & Hi5).
           ++ cbn [commas]. rewrite <- app_assoc. exact Hb4.
           ++ autorewrite with st. congruence.
           ++ autorewrite with st. exact Hfn3.
           ++ autorewrite with st. rewrite Hd3, Hd1. eapply fits_le; [exact Hfit|lia].
           ++ cbn [commas]. len. lia.
           ++ rewrite E5. cbn [rev]. rewrite <- app_assoc. cbn [app]. autorewrite with st in *.
              eexists; split; [reflexivity|]. post_tac.
              rewrite Hi5, Hfn3, Hfn. apply andb_negb_orb.
Qed.

Lemma pref_hash : forall tn fn Xs xs dn hf, PairsOK tn fn Xs xs dn hf ->
  PrefOK (braces (commas Xs)) (EHash xs) tn fn dn hf.
Proof.
  intros tn fn Xs xs dn hf H. split; [apply begins_cons; reflexivity|].
  intros rest f s Hpos Htn Hfn Hfit Hf. unfold braces in *.
  cbn [app] in Hpos. rewrite <- app_assoc in Hpos. cbn [app] in Hpos.
  apply pos_cons in Hpos. destruct Hpos as [Hcur Hbef]. len. destruct f as [|f]; [lia|].
  rewrite parse_prefix_S, Hcur. cbn [tty tk tlit].
  destruct (hash_loop_ok tn fn Xs xs dn hf H [] rest f s Hbef Htn Hfn Hfit) as (s1 & E1 & HP); [lia|].
  rewrite E1. cbn [pbind rev app]. eexists; split; [reflexivity|exact HP].
Qed.

(* ------------------------------------------------------------------ *)
(* forms read by parse_prefix that need a closing token after them     *)
(* ------------------------------------------------------------------ *)

Definition PrefcOK (toks : list token) (e : expr) (tn fn : bool) (dn : N) (hf : bool) : Prop :=
  begins toks /\
  forall rest f s, closes rest -> pos (toks ++ rest) s -> tern s = tn -> infn s = fn -> fits (depth s) dn ->
    (2 * List.length toks <= S f)%nat ->
    exists s', parse_prefix pf md f s = POk e s' /\ post s s' rest hf.

Lemma inner_of_prefc : forall toks e tn fn dn hf,
  PrefcOK toks e tn fn dn hf -> InnerOK toks e tn fn (1 + dn) hf.
Proof.
  intros toks e tn fn dn hf [Hb H]. split; [exact Hb|].
  intros rest f s Hcl Hpos Htn Hfn Hfit Hf.
  pose proof (begins_len _ Hb) as Hlen.
  destruct f as [|f]; [lia|].
  rewrite (pe_enter f LOWEST s (1 + dn)); [|eapply begins_cur; eassumption|exact Hfit|lia].
  destruct (H rest f (set_depth s (depth s + 1))) as (s1 & E1 & Hb1 & Ht1 & Hd1 & Hi1).
  - exact Hcl.
  - apply pos_set_depth; exact Hpos.
  - exact Htn.
  - exact Hfn.
  - rewrite depth_sd. eapply fits_sub; [exact Hfit|lia].
  - lia.
  - rewrite E1. cbn [pbind]. destruct f as [|f]; [lia|].
    rewrite (loop_end f LOWEST e s1 rest Hb1 (closes_stop _ _ Hcl (N.le_refl _))). cbn [restore].
    eexists; split; [reflexivity|]. post_tac.
Qed.

(* ------------------------------------------------------------------ *)
(* statements                                                          *)
(* ------------------------------------------------------------------ *)

Definition sstart (ty : tokty) : bool := sprefix ty || tokty_beq ty TReturn.
Definition sbegins (toks : list token) : Prop :=
  exists t r, toks = t :: r /\ sstart (tty t) = true.

Lemma sstart_facts : forall ty, sstart ty = true ->
  tokty_beq ty TSemicolon = false /\ tokty_beq ty TRBrace = false /\
  tokty_beq ty TEOF = false /\ tokty_beq ty TIllegal = false.
Proof. intros ty H. destruct ty; try discriminate H; repeat split. Qed.

Lemma sbegins_app : forall a b, sbegins a -> sbegins (a ++ b).
Proof. intros a b (t & r & E & H). subst a. exists t, (r ++ b). split; [reflexivity|exact H]. Qed.
Lemma sbegins_of_begins : forall a, begins a -> sbegins a.
Proof. intros a (t & r & E & H). exists t, r. split; [exact E|]. unfold sstart. rewrite H. reflexivity. Qed.
Lemma sbegins_len : forall a, sbegins a -> (1 <= List.length a)%nat.
Proof. intros a (t & r & E & H). subst a. cbn. lia. Qed.

Definition nosemi (rest : list token) : Prop := tokty_beq (tty (hd eof_tok rest)) TSemicolon = false.

Definition StmtOK (toks : list token) (st : stmt) (tn fn : bool) (dn : N) (hf : bool) : Prop :=
  sbegins toks /\
  forall rest f s, nosemi rest -> pos (toks ++ rest) s -> tern s = tn -> infn s = fn -> fits (depth s) dn ->
    (2 * List.length toks <= f)%nat ->
    exists s', parse_statement pf md f s = POk st s' /\ post s s' rest hf.

Lemma stmt_expr : forall X e tn fn dn hf, InnerOK X e tn fn dn hf ->
  StmtOK (X ++ [tk TSemicolon]) (SExpr e) tn fn dn hf.
Proof.
  intros X e tn fn dn hf [HbX HX]. split; [apply sbegins_app; apply sbegins_of_begins; exact HbX|].
  intros rest f s Hns Hpos Htn Hfn Hfit Hf.
  rewrite <- app_assoc in Hpos. cbn [app] in Hpos. len. pose proof (begins_len _ HbX) as HlenX.
  destruct f as [|f]; [lia|].
  rewrite parse_statement_S. unfold cur_is.
  destruct (sprefix_facts _ (begins_cur _ _ _ HbX Hpos)) as (_ & _ & _ & _ & _ & _ & _ & Hret & _).
  rewrite Hret.
  destruct (HX (tk TSemicolon :: rest) f s) as (s1 & E1 & Hb1 & Ht1 & Hd1 & Hi1); try assumption.
  - reflexivity.
  - lia.
  - rewrite E1. cbn [pbind]. destruct f as [|[|f]]; try lia.
    rewrite skip_semis_S, (peek_is_hd _ _ _ _ Hb1). cbn [tty tk tokty_beq].
    destruct (before_step _ _ _ Hb1) as [_ Hb2].
    rewrite skip_semis_S. unfold peek_is. rewrite (proj1 Hb2). unfold nosemi in Hns. rewrite Hns.
    eexists; split; [reflexivity|]. post_tac.
Qed.

Lemma stmt_return : forall X e tn fn dn hf, InnerOK X e tn fn dn hf ->
  StmtOK (tk TReturn :: X ++ [tk TSemicolon]) (SReturn e) tn fn dn hf.
Proof.
  intros X e tn fn dn hf [HbX HX]. split; [eexists _, _; split; reflexivity|].
  intros rest f s Hns Hpos Htn Hfn Hfit Hf.
  cbn [app] in Hpos. rewrite <- app_assoc in Hpos. cbn [app] in Hpos. len.
  apply pos_cons in Hpos. destruct Hpos as [Hcur Hbef].
  destruct f as [|f]; [lia|].
  rewrite parse_statement_S. unfold cur_is. rewrite Hcur. cbn [tty tk tokty_beq].
  destruct (HX (tk TSemicolon :: rest) f (next s)) as (s1 & E1 & Hb1 & Ht1 & Hd1 & Hi1); try assumption.
  - reflexivity.
  - apply before_next. exact Hbef.
  - lia.
  - rewrite E1. cbn [pbind]. destruct (before_step _ _ _ Hb1) as [Hc2 Hb2].
    unfold cur_is. rewrite Hc2. cbn [tty tk tokty_beq].
    eexists; split; [reflexivity|]. post_tac.
Qed.

(* `x` of `x ++ ;` *)
Lemma stmt_bare_ident : forall n rest f s,
  closes rest -> nosemi rest -> pos (mkTok TIdent n :: rest) s -> fits (depth s) 1 ->
  exists s', parse_statement pf md (S (S (S f))) s = POk (SExpr (EIdent n)) s' /\
    curT s' = mkTok TIdent n /\ post s s' rest false.
Proof.
  intros n rest f s Hcl Hns Hpos Hfit. pose proof Hpos as Hpos0.
  apply pos_cons in Hpos. destruct Hpos as [Hcur Hbef].
  rewrite parse_statement_S. unfold cur_is. rewrite Hcur. cbn [tty tokty_beq].
  rewrite (pe_enter _ LOWEST s 1); [|rewrite Hcur; reflexivity|exact Hfit|lia].
  rewrite parse_prefix_S, curT_sd, Hcur. cbn [tty tlit pbind].
  rewrite (loop_end f LOWEST _ _ rest (before_set_depth _ _ _ Hbef) (closes_stop _ _ Hcl (N.le_refl _))).
  cbn [restore pbind]. rewrite skip_semis_S. unfold peek_is. cbn [set_depth peekT].
  rewrite (proj1 Hbef). unfold nosemi in Hns. rewrite Hns.
  eexists; split; [reflexivity|]. split; [exact Hcur|]. post_tac. rewrite andb_true_r. reflexivity.
Qed.

(* `++ ;` *)
Lemma stmt_postfix : forall op rest f s,
  postfix_op op = true -> nosemi rest -> pos (tk op :: tk TSemicolon :: rest) s -> fits (depth s) 1 ->
  exists s', parse_statement pf md (S (S (S f))) s = POk (SExpr (EPostfix (tlit (prevT s)) op)) s' /\
    post s s' rest false.
Proof.
  intros op rest f s Hop Hns Hpos Hfit. apply pos_cons in Hpos. destruct Hpos as [Hcur Hbef].
  rewrite parse_statement_S. unfold cur_is. rewrite Hcur, tty_tk.
  replace (tokty_beq op TReturn) with false by (destruct op; try discriminate Hop; reflexivity).
  rewrite parse_expression_S, (deeper_fits _ _ Hfit (N.le_refl _)). cbn [pbind].
  rewrite curT_sd, Hcur, tty_tk.
  replace (has_postfix op) with true by (destruct op; try discriminate Hop; reflexivity).
  cbn [restore pbind]. rewrite prevT_sd.
  rewrite skip_semis_S. unfold peek_is. cbn [set_depth peekT]. rewrite (proj1 Hbef). cbn [hd tty tk tokty_beq].
  destruct (before_step _ _ _ Hbef) as [_ Hb2].
  rewrite skip_semis_S. unfold peek_is. cbn [set_depth next peekT restT].
  destruct Hbef as [Hp Hr]. rewrite Hr. cbn [tl].
  unfold nosemi in Hns.
  replace (tty (match rest with [] => eof_tok | t :: _ => t end)) with (tty (hd eof_tok rest))
    by (destruct rest; reflexivity).
  rewrite Hns.
  eexists; split; [reflexivity|]. unfold post. rewrite andb_true_r.
  split; [|repeat split]. unfold before. cbn [peekT restT next set_depth]. rewrite Hr. cbn [tl].
  destruct rest; split; reflexivity.
Qed.

(* ------------------------------------------------------------------ *)
(* statement lists                                                     *)
(* ------------------------------------------------------------------ *)

Inductive StmtsOK (tn : bool) : bool -> list token -> list stmt -> N -> bool -> Prop :=
| SO_nil : forall fn, StmtsOK tn fn [] [] 0 false
| SO_cons : forall fn X st dx hx Xs sts dn hf,
    is_postfix_stmt st = false ->      (* a ++ / -- statement only comes in through SO_pair *)
    StmtOK X st tn fn dx hx -> StmtsOK tn (fn && negb hx) Xs sts dn hf ->
    StmtsOK tn fn (X ++ Xs) (st :: sts) (N.max dx dn) (hx || hf)
| SO_pair : forall fn n op Xs sts dn hf, postfix_op op = true ->
    StmtsOK tn fn Xs sts dn hf ->
    StmtsOK tn fn (mkTok TIdent n :: tk op :: tk TSemicolon :: Xs)
            (SExpr (EIdent n) :: SExpr (EPostfix n op) :: sts) (N.max 1 (N.max 1 dn)) hf.

Lemma stmts_head : forall tn fn Xs sts dn hf, StmtsOK tn fn Xs sts dn hf -> Xs = [] \/ sbegins Xs.
Proof.
  intros tn fn Xs sts dn hf H. destruct H as [fn|fn X st dx hx Xs sts dn hf _ [HbX _] _|fn n op Xs sts dn hf _ _].
  - left; reflexivity.
  - right. apply sbegins_app. exact HbX.
  - right. eexists _, _; split; reflexivity.
Qed.

(* the token after a statement inside a list: another statement, or the end *)
Lemma stmts_next : forall tn fn Xs sts dn hf t rest, StmtsOK tn fn Xs sts dn hf ->
  tokty_beq (tty t) TSemicolon = false -> tokty_beq (tty t) TIllegal = false ->
  (tokty_beq (tty t) TRBrace = true \/ tokty_beq (tty t) TEOF = true) ->
  let ty := tty (hd eof_tok (Xs ++ t :: rest)) in
  tokty_beq ty TSemicolon = false /\ tokty_beq ty TIllegal = false /\
  (Xs = [] \/ (tokty_beq ty TRBrace = false /\ tokty_beq ty TEOF = false)).
Proof.
  intros tn fn Xs sts dn hf t rest H H1 H2 H3.
  destruct (stmts_head _ _ _ _ _ _ H) as [E|(t0 & r & E & Hs)]; subst Xs; cbn [app hd].
  - repeat split; try assumption. left; reflexivity.
  - destruct (sstart_facts _ Hs) as (A & B & C & D). repeat split; try assumption. right; split; assumption.
Qed.

Lemma block_loop_ok : forall tn fn Xs sts dn hf, StmtsOK tn fn Xs sts dn hf ->
  forall acc rest f s, pos (Xs ++ tk TRBrace :: rest) s -> tern s = tn -> infn s = fn ->
    fits (depth s) dn -> (2 * List.length Xs + 1 <= f)%nat ->
    exists s', parse_block_loop pf md f acc s = POk (rev acc ++ sts) s' /\ post s s' rest hf.
Proof.
  intros tn fn Xs sts dn hf H.
  induction H as [fn|fn X st dx hx Xs sts dn hf Hnp [HbX HX] HXs IH|fn n op Xs sts dn hf Hop HXs IH];
    intros acc rest f s Hpos Htn Hfn Hfit Hf.
  - cbn [app] in Hpos. apply pos_cons in Hpos. destruct Hpos as [Hcur Hbef].
    destruct f as [|f]; [lia|]. rewrite parse_block_loop_S. unfold cur_is. rewrite Hcur.
    cbn [tty tk tokty_beq]. rewrite app_nil_r.
    eexists; split; [reflexivity|]. post_tac. rewrite andb_true_r. reflexivity.
  - rewrite <- app_assoc in Hpos. len. pose proof (sbegins_len _ HbX) as HlenX.
    destruct f as [|f]; [lia|]. rewrite parse_block_loop_S. unfold cur_is.
    destruct HbX as (t0 & r0 & E0 & Hs0).
    assert (Hcur : curT s = t0) by (subst X; apply Hpos).
    destruct (sstart_facts _ Hs0) as (_ & Hrb & _). rewrite Hcur, Hrb.
    destruct (stmts_next _ _ _ _ _ _ (tk TRBrace) rest HXs eq_refl eq_refl (or_introl eq_refl))
      as (Hn1 & Hn2 & Hn3).
    destruct (HX (Xs ++ tk TRBrace :: rest) f s) as (s1 & E1 & Hb1 & Ht1 & Hd1 & Hi1); try assumption.
    + eapply fits_le; [exact Hfit|lia].
    + lia.
    + rewrite E1. cbn [pbind].
      assert (Hc2 : curT (next s1) = hd eof_tok (Xs ++ tk TRBrace :: rest))
        by (apply before_next in Hb1; apply Hb1).
      unfold cur_is. rewrite Hc2.
      assert (Heof : tokty_beq (tty (hd eof_tok (Xs ++ tk TRBrace :: rest))) TEOF = false).
      { destruct Hn3 as [E|[_ E]]; [subst Xs; reflexivity|exact E]. }
      rewrite Heof, Hn2. cbn [orb]. rewrite (bind_postfix_not_postfix acc st Hnp).
      destruct (IH (st :: acc) rest f (next s1)) as (s2 & E2 & Hb2 & Ht2 & Hd2 & Hi2).
      * apply before_next. exact Hb1.
      * autorewrite with st. congruence.
      * autorewrite with st. rewrite Hi1, Hfn. reflexivity.
      * autorewrite with st. rewrite Hd1. eapply fits_le; [exact Hfit|lia].
      * lia.
      * rewrite E2. cbn [rev]. rewrite <- app_assoc. cbn [app]. autorewrite with st in *.
        eexists; split; [reflexivity|]. post_tac. rewrite Hi2, Hi1. apply andb_negb_orb.
  - len. destruct f as [|[|[|[|[|f]]]]]; try lia.
    rewrite parse_block_loop_S. unfold cur_is. rewrite (proj1 Hpos). cbn [app hd tty tokty_beq].
    assert (Hcl1 : closes (tk op :: tk TSemicolon :: Xs ++ tk TRBrace :: rest))
      by (unfold closes; cbn [hd]; rewrite tty_tk; destruct op; try discriminate Hop; reflexivity).
    assert (Hns1 : nosemi (tk op :: tk TSemicolon :: Xs ++ tk TRBrace :: rest))
      by (unfold nosemi; cbn [hd]; rewrite tty_tk; destruct op; try discriminate Hop; reflexivity).
    destruct (stmt_bare_ident n _ (S f) s Hcl1 Hns1 Hpos) as (s1 & E1 & Hc1 & Hb1 & Ht1 & Hd1 & Hi1).
    { eapply fits_le; [exact Hfit|lia]. }
    rewrite E1. cbn [pbind bind_postfix].
    destruct (before_step _ _ _ Hb1) as [Hc2 Hb2].
    unfold cur_is. rewrite Hc2, tty_tk.
    replace (tokty_beq op TEOF || tokty_beq op TIllegal) with false
      by (destruct op; try discriminate Hop; reflexivity).
    rewrite parse_block_loop_S. unfold cur_is. rewrite Hc2, tty_tk.
    replace (tokty_beq op TRBrace) with false by (destruct op; try discriminate Hop; reflexivity).
    destruct (stmts_next _ _ _ _ _ _ (tk TRBrace) rest HXs eq_refl eq_refl (or_introl eq_refl))
      as (Hn1 & Hn2 & Hn3).
    destruct (stmt_postfix op (Xs ++ tk TRBrace :: rest) f (next s1) Hop Hn1) as (s3 & E3 & Hb3 & Ht3 & Hd3 & Hi3).
    { split; [exact Hc2|exact Hb2]. }
    { autorewrite with st. rewrite Hd1. eapply fits_le; [exact Hfit|lia]. }
    rewrite E3. cbn [pbind bind_postfix].
    assert (Hc4 : curT (next s3) = hd eof_tok (Xs ++ tk TRBrace :: rest))
      by (apply before_next in Hb3; apply Hb3).
    unfold cur_is. rewrite Hc4.
    assert (Heof : tokty_beq (tty (hd eof_tok (Xs ++ tk TRBrace :: rest))) TEOF = false).
    { destruct Hn3 as [E|[_ E]]; [subst Xs; reflexivity|exact E]. }
    rewrite Heof, Hn2. cbn [orb]. autorewrite with st in *.
    destruct (IH (SExpr (EPostfix n op) :: SExpr (EIdent n) :: acc) rest (S (S (S f))) (next s3))
      as (s4 & E4 & Hb4 & Ht4 & Hd4 & Hi4).
    + apply before_next. exact Hb3.
    + autorewrite with st. congruence.
    + autorewrite with st. rewrite Hi3, Hi1, Hfn, !andb_true_r. reflexivity.
    + autorewrite with st. rewrite Hd3, Hd1. eapply fits_le; [exact Hfit|lia].
    + lia.
    + rewrite E4. cbn [rev]. rewrite <- !app_assoc. cbn [app]. autorewrite with st in *.
      eexists; split; [reflexivity|]. post_tac.
      rewrite Hi4, Hi3, Hi1, !andb_true_r. reflexivity.
Qed.

Lemma block_ok : forall tn fn Xs sts dn hf, StmtsOK tn fn Xs sts dn hf ->
  forall rest f s, before (Xs ++ tk TRBrace :: rest) s -> tern s = tn -> infn s = fn ->
    fits (depth s) dn -> (2 * List.length Xs + 2 <= f)%nat ->
    exists s', parse_block pf md f s = POk sts s' /\ post s s' rest hf.
Proof.
  intros tn fn Xs sts dn hf H rest f s Hbef Htn Hfn Hfit Hf.
  destruct f as [|f]; [lia|]. rewrite parse_block_S.
  destruct (block_loop_ok _ _ _ _ _ _ H [] rest f (next s)) as (s1 & E1 & HP).
  - apply before_next. exact Hbef.
  - exact Htn.
  - exact Hfn.
  - exact Hfit.
  - lia.
  - rewrite E1. cbn [rev app]. eexists; split; [reflexivity|]. exact HP.
Qed.

Lemma program_loop_ok : forall tn fn Xs sts dn hf, StmtsOK tn fn Xs sts dn hf ->
  forall acc f s, pos (Xs ++ [eof]) s -> tern s = tn -> infn s = fn ->
    fits (depth s) dn -> (2 * List.length Xs + 1 <= f)%nat ->
    exists s', parse_program_loop pf md f acc s = POk (rev acc ++ sts) s'.
Proof.
  intros tn fn Xs sts dn hf H.
  induction H as [fn|fn X st dx hx Xs sts dn hf Hnp [HbX HX] HXs IH|fn n op Xs sts dn hf Hop HXs IH];
    intros acc f s Hpos Htn Hfn Hfit Hf.
  - cbn [app] in Hpos. apply pos_cons in Hpos. destruct Hpos as [Hcur Hbef].
    destruct f as [|f]; [lia|]. rewrite parse_program_loop_S. unfold cur_is. rewrite Hcur.
    cbn [tty eof tokty_beq]. rewrite app_nil_r. eexists; reflexivity.
  - rewrite <- app_assoc in Hpos. len. pose proof (sbegins_len _ HbX) as HlenX.
    destruct f as [|f]; [lia|]. rewrite parse_program_loop_S. unfold cur_is.
    destruct HbX as (t0 & r0 & E0 & Hs0).
    assert (Hcur : curT s = t0) by (subst X; apply Hpos).
    destruct (sstart_facts _ Hs0) as (_ & _ & Heof0 & Hill0). rewrite Hcur, Heof0, Hill0.
    destruct (stmts_next _ _ _ _ _ _ eof [] HXs eq_refl eq_refl (or_intror eq_refl))
      as (Hn1 & Hn2 & Hn3).
    destruct (HX (Xs ++ [eof]) (S f) s) as (s1 & E1 & Hb1 & Ht1 & Hd1 & Hi1); try assumption.
    + eapply fits_le; [exact Hfit|lia].
    + lia.
    + rewrite E1. cbn [pbind]. rewrite (bind_postfix_not_postfix acc st Hnp).
      destruct (IH (st :: acc) f (next s1)) as (s2 & E2).
      * apply before_next. exact Hb1.
      * autorewrite with st. congruence.
      * autorewrite with st. rewrite Hi1, Hfn. reflexivity.
      * autorewrite with st. rewrite Hd1. eapply fits_le; [exact Hfit|lia].
      * lia.
      * rewrite E2. cbn [rev]. rewrite <- app_assoc. cbn [app]. eexists; reflexivity.
  - len. destruct f as [|[|[|[|f]]]]; try lia.
    rewrite parse_program_loop_S. unfold cur_is. rewrite (proj1 Hpos). cbn [app hd tty tokty_beq].
    assert (Hcl1 : closes (tk op :: tk TSemicolon :: Xs ++ [eof]))
      by (unfold closes; cbn [hd]; rewrite tty_tk; destruct op; try discriminate Hop; reflexivity).
    assert (Hns1 : nosemi (tk op :: tk TSemicolon :: Xs ++ [eof]))
      by (unfold nosemi; cbn [hd]; rewrite tty_tk; destruct op; try discriminate Hop; reflexivity).
    destruct (stmt_bare_ident n _ (S f) s Hcl1 Hns1 Hpos) as (s1 & E1 & Hc1 & Hb1 & Ht1 & Hd1 & Hi1).
    { eapply fits_le; [exact Hfit|lia]. }
    rewrite E1. cbn [pbind bind_postfix].
    destruct (before_step _ _ _ Hb1) as [Hc2 Hb2].
    rewrite parse_program_loop_S. unfold cur_is. rewrite Hc2, tty_tk.
    replace (tokty_beq op TEOF) with false by (destruct op; try discriminate Hop; reflexivity).
    replace (tokty_beq op TIllegal) with false by (destruct op; try discriminate Hop; reflexivity).
    destruct (stmts_next _ _ _ _ _ _ eof [] HXs eq_refl eq_refl (or_intror eq_refl))
      as (Hn1 & Hn2 & Hn3).
    destruct (stmt_postfix op (Xs ++ [eof]) f (next s1) Hop Hn1) as (s3 & E3 & Hb3 & Ht3 & Hd3 & Hi3).
    { split; [exact Hc2|exact Hb2]. }
    { autorewrite with st. rewrite Hd1. eapply fits_le; [exact Hfit|lia]. }
    rewrite E3. cbn [pbind bind_postfix]. autorewrite with st in *.
    destruct (IH (SExpr (EPostfix n op) :: SExpr (EIdent n) :: acc) (S (S f)) (next s3)) as (s4 & E4).
    + apply before_next. exact Hb3.
    + autorewrite with st. congruence.
    + autorewrite with st. rewrite Hi3, Hi1, Hfn, !andb_true_r. reflexivity.
    + autorewrite with st. rewrite Hd3, Hd1. eapply fits_le; [exact Hfit|lia].
    + lia.
    + rewrite E4. cbn [rev]. rewrite <- !app_assoc. cbn [app]. eexists; reflexivity.
Qed.

(* ------------------------------------------------------------------ *)
(* ( condition )   and   { block }                                     *)
(* ------------------------------------------------------------------ *)

Lemma cond_ok : forall C c tn fn dc hc, InnerOK C c tn fn dc hc -> forall rest f s,
  before (tk TLParen :: C ++ tk TRParen :: rest) s -> tern s = tn -> infn s = fn ->
  fits (depth s) dc -> (2 * List.length C <= f)%nat ->
  exists s2, expect_peek s TLParen = POk tt (next s) /\
    parse_expression pf md f LOWEST (next (next s)) = POk c s2 /\
    expect_peek s2 TRParen = POk tt (next s2) /\ post s (next s2) rest hc.
Proof.
  intros C c tn fn dc hc [HbC HC] rest f s Hbef Htn Hfn Hfit Hf.
  destruct (before_step _ _ _ Hbef) as [_ Hb1].
  destruct (HC (tk TRParen :: rest) f (next (next s))) as (s2 & E2 & Hb2 & Ht2 & Hd2 & Hi2); try assumption.
  - reflexivity.
  - apply before_next. exact Hb1.
  - exists s2. split; [exact (expect_ok s _ _ TLParen Hbef eq_refl)|]. split; [exact E2|].
    split; [exact (expect_ok s2 _ _ TRParen Hb2 eq_refl)|].
    destruct (before_step _ _ _ Hb2) as [_ Hb3]. autorewrite with st in *. post_tac.
Qed.

Lemma braces_app : forall B rest, braces B ++ rest = tk TLBrace :: B ++ tk TRBrace :: rest.
Proof. intros. unfold braces. cbn [app]. rewrite <- app_assoc. reflexivity. Qed.

Lemma braces_len : forall B, List.length (braces B) = (List.length B + 2)%nat.
Proof. intros. unfold braces. len. lia. Qed.

Lemma braces_ok : forall tn fn B sts db hb, StmtsOK tn fn B sts db hb -> forall rest f s,
  before (braces B ++ rest) s -> tern s = tn -> infn s = fn -> fits (depth s) db ->
  (2 * List.length B + 2 <= f)%nat ->
  exists s2, expect_peek s TLBrace = POk tt (next s) /\
    parse_block pf md f (next s) = POk sts s2 /\ post s s2 rest hb.
Proof.
  intros tn fn B sts db hb H rest f s Hbef Htn Hfn Hfit Hf. rewrite braces_app in Hbef.
  destruct (before_step _ _ _ Hbef) as [_ Hb1].
  destruct (block_ok _ _ _ _ _ _ H rest f (next s) Hb1) as (s2 & E2 & HP); try assumption.
  exists s2. split; [exact (expect_ok s _ _ TLBrace Hbef eq_refl)|]. split; [exact E2|]. exact HP.
Qed.

Lemma closes_braces : forall B rest, closes (braces B ++ rest).
Proof. intros. reflexivity. Qed.

(* ------------------------------------------------------------------ *)
(* if / else if / else                                                 *)
(* ------------------------------------------------------------------ *)

(* toks begin with `if` and, read by parse_if (on entry cur = `if`), give e when a
   closing token follows *)
Definition IfOK' (toks : list token) (e : expr) (tn fn : bool) (dn : N) (hf : bool) : Prop :=
  (exists r, toks = tk TIf :: r) /\
  forall rest f s, closes rest -> pos (toks ++ rest) s -> tern s = tn -> infn s = fn -> fits (depth s) dn ->
    (2 * List.length toks <= S (S f))%nat ->
    exists s', parse_if pf md f s = POk e s' /\ post s s' rest hf.

Lemma prefc_of_if : forall toks e tn fn dn hf, IfOK' toks e tn fn dn hf -> PrefcOK toks e tn fn dn hf.
Proof.
  intros toks e tn fn dn hf [[r E] H]. split; [subst toks; apply begins_cons; reflexivity|].
  intros rest f s Hcl Hpos Htn Hfn Hfit Hf.
  destruct f as [|f]; [subst toks; cbn [List.length] in Hf; lia|].
  assert (Hcur : curT s = tk TIf) by (subst toks; apply Hpos).
  destruct (H rest f s Hcl Hpos Htn Hfn Hfit Hf) as (s' & E' & HP).
  exists s'. split; [|exact HP]. rewrite parse_prefix_S, Hcur. exact E'.
Qed.

(* if ( c ) { block } : the part common to the three forms *)
Definition if_tail (f : nat) (c : expr) (cns : list stmt) (s5 : pst) : pr expr :=
  if peek_is s5 TElse then
    let s6 := next s5 in
    if peek_is s6 TIf then
      pbind (parse_if pf md f (next s6)) (fun e s7 => POk (EIf c cns (Some [SExpr e])) s7)
    else
      pbind (expect_peek s6 TLBrace) (fun _ s7 =>
      pbind (parse_block pf md f s7) (fun alt s8 => POk (EIf c cns (Some alt)) s8))
  else POk (EIf c cns None) s5.

Lemma if_head : forall C c tn fn dc hc B1 cns d1 h1,
  InnerOK C c tn fn dc hc -> StmtsOK tn (fn && negb hc) B1 cns d1 h1 ->
  forall rest f s, curT s = tk TIf -> before (tk TLParen :: C ++ tk TRParen :: braces B1 ++ rest) s ->
    tern s = tn -> infn s = fn -> fits (depth s) (1 + N.max dc d1) ->
    (2 * List.length C <= f)%nat -> (2 * List.length B1 + 2 <= f)%nat ->
    exists s5,
      parse_if pf md (S f) s = restore (depth s) (if_tail f c cns s5) /\
      before rest s5 /\ tern s5 = tn /\ depth s5 = depth s + 1 /\ infn s5 = fn && negb hc && negb h1.
Proof.
  intros C c tn fn dc hc B1 cns d1 h1 HC HB rest f s Hcur Hbef Htn Hfn Hfit HfC HfB.
  rewrite parse_if_S, (deeper_fits s _ Hfit) by lia. cbn [pbind].
  destruct (cond_ok _ _ _ _ _ _ HC (braces B1 ++ rest) f (set_depth s (depth s + 1)))
    as (s2 & E1 & E2 & E3 & Hb3 & Ht3 & Hd3 & Hi3); try assumption.
  { rewrite depth_sd. eapply fits_sub; [exact Hfit|lia]. }
  rewrite E1. cbn [pbind]. rewrite E2. cbn [pbind]. rewrite E3. cbn [pbind].
  autorewrite with st in *.
  destruct (braces_ok _ _ _ _ _ _ HB rest f (next s2) Hb3) as (s5 & E4 & E5 & Hb5 & Ht5 & Hd5 & Hi5).
  { autorewrite with st; congruence. }
  { autorewrite with st; rewrite Hi3, Hfn. reflexivity. }
  { autorewrite with st; rewrite Hd3. eapply fits_sub; [exact Hfit|lia]. }
  { exact HfB. }
  rewrite E4. cbn [pbind]. rewrite E5. cbn [pbind].
  exists s5. split; [reflexivity|]. autorewrite with st in *.
  split; [exact Hb5|]. split; [congruence|]. split; [congruence|]. rewrite Hi5, Hi3, Hfn. reflexivity.
Qed.

Lemma if_none : forall C c tn fn dc hc B1 cns d1 h1,
  InnerOK C c tn fn dc hc -> StmtsOK tn (fn && negb hc) B1 cns d1 h1 ->
  IfOK' (tk TIf :: tk TLParen :: C ++ tk TRParen :: braces B1) (EIf c cns None) tn fn
        (1 + N.max dc d1) (hc || h1).
Proof.
  intros C c tn fn dc hc B1 cns d1 h1 HC HB. split; [eexists; reflexivity|].
  intros rest f s Hcl Hpos Htn Hfn Hfit Hf.
  cbn [app] in Hpos. rewrite <- app_assoc in Hpos. cbn [app] in Hpos.
  apply pos_cons in Hpos. destruct Hpos as [Hcur Hbef].
  len. rewrite braces_len in Hf. destruct f as [|f]; try lia.
  destruct (if_head _ _ _ _ _ _ _ _ _ _ HC HB rest f s Hcur Hbef Htn Hfn Hfit) as (s5 & E & Hb5 & Ht5 & Hd5 & Hi5);
    try lia.
  rewrite E. unfold if_tail. rewrite (closes_not_else rest s5 Hcl Hb5). cbn [restore].
  eexists; split; [reflexivity|]. post_tac.
  rewrite Hi5, Hfn. apply andb_negb_orb.
Qed.

Lemma if_block : forall C c tn fn dc hc B1 cns d1 h1 B2 alt d2 h2,
  InnerOK C c tn fn dc hc -> StmtsOK tn (fn && negb hc) B1 cns d1 h1 ->
  StmtsOK tn (fn && negb hc && negb h1) B2 alt d2 h2 ->
  IfOK' (tk TIf :: tk TLParen :: C ++ tk TRParen :: braces B1 ++ tk TElse :: braces B2)
        (EIf c cns (Some alt)) tn fn (1 + N.max dc (N.max d1 d2)) (hc || h1 || h2).
Proof.
  intros C c tn fn dc hc B1 cns d1 h1 B2 alt d2 h2 HC HB1 HB2. split; [eexists; reflexivity|].
  intros rest f s Hcl Hpos Htn Hfn Hfit Hf.
  cbn [app] in Hpos. rewrite <- app_assoc in Hpos. cbn [app] in Hpos.
  rewrite <- app_assoc in Hpos. cbn [app] in Hpos.
  apply pos_cons in Hpos. destruct Hpos as [Hcur Hbef].
  len. rewrite !braces_len in Hf. destruct f as [|f]; try lia.
  destruct (if_head _ _ _ _ _ _ _ _ _ _ HC HB1 (tk TElse :: braces B2 ++ rest) f s Hcur Hbef Htn Hfn)
    as (s5 & E & Hb5 & Ht5 & Hd5 & Hi5); try lia; [eapply fits_le; [exact Hfit|lia]|].
  rewrite E. unfold if_tail. rewrite (peek_is_hd _ _ _ _ Hb5). cbn [tty tk tokty_beq].
  destruct (before_step _ _ _ Hb5) as [_ Hb6].
  assert (Hpk : peek_is (next s5) TIf = false).
  { unfold peek_is. rewrite (proj1 Hb6). reflexivity. }
  rewrite Hpk.
  destruct (braces_ok _ _ _ _ _ _ HB2 rest f (next s5) Hb6) as (s8 & E7 & E8 & Hb8 & Ht8 & Hd8 & Hi8).
  { autorewrite with st. congruence. }
  { autorewrite with st. exact Hi5. }
  { autorewrite with st. rewrite Hd5. eapply fits_sub; [exact Hfit|lia]. }
  { lia. }
  rewrite E7. cbn [pbind]. rewrite E8. cbn [pbind restore].
  eexists; split; [reflexivity|]. autorewrite with st in *. post_tac.
  rewrite Hi8, Hi5, Hfn. destruct fn, hc, h1, h2; reflexivity.
Qed.

Lemma if_elif : forall C c tn fn dc hc B1 cns d1 h1 E2 e2 d2 h2,
  InnerOK C c tn fn dc hc -> StmtsOK tn (fn && negb hc) B1 cns d1 h1 ->
  IfOK' E2 e2 tn (fn && negb hc && negb h1) d2 h2 ->
  IfOK' (tk TIf :: tk TLParen :: C ++ tk TRParen :: braces B1 ++ tk TElse :: E2)
        (EIf c cns (Some [SExpr e2])) tn fn (1 + N.max dc (N.max d1 d2)) (hc || h1 || h2).
Proof.
  intros C c tn fn dc hc B1 cns d1 h1 E2 e2 d2 h2 HC HB1 [[r2 EE2] HE2]. split; [eexists; reflexivity|].
  intros rest f s Hcl Hpos Htn Hfn Hfit Hf.
  cbn [app] in Hpos. rewrite <- app_assoc in Hpos. cbn [app] in Hpos.
  rewrite <- app_assoc in Hpos. cbn [app] in Hpos.
  apply pos_cons in Hpos. destruct Hpos as [Hcur Hbef].
  len. rewrite !braces_len in Hf.
  assert (HlenE : (1 <= List.length E2)%nat) by (subst E2; cbn [List.length]; lia).
  destruct f as [|f]; try lia.
  destruct (if_head _ _ _ _ _ _ _ _ _ _ HC HB1 (tk TElse :: E2 ++ rest) f s Hcur Hbef Htn Hfn)
    as (s5 & E & Hb5 & Ht5 & Hd5 & Hi5); try lia; [eapply fits_le; [exact Hfit|lia]|].
  rewrite E. unfold if_tail. rewrite (peek_is_hd _ _ _ _ Hb5). cbn [tty tk tokty_beq].
  destruct (before_step _ _ _ Hb5) as [_ Hb6].
  assert (Hpk : peek_is (next s5) TIf = true).
  { unfold peek_is. rewrite (proj1 Hb6). subst E2. reflexivity. }
  rewrite Hpk.
  destruct (HE2 rest f (next (next s5))) as (s7 & E7 & Hb7 & Ht7 & Hd7 & Hi7).
  { exact Hcl. }
  { apply before_next. exact Hb6. }
  { autorewrite with st. congruence. }
  { autorewrite with st. exact Hi5. }
  { autorewrite with st. rewrite Hd5. eapply fits_sub; [exact Hfit|lia]. }
  { lia. }
  rewrite E7. cbn [pbind restore].
  eexists; split; [reflexivity|]. autorewrite with st in *. post_tac.
  rewrite Hi7, Hi5, Hfn. destruct fn, hc, h1, h2; reflexivity.
Qed.

(* ------------------------------------------------------------------ *)
(* while                                                               *)
(* ------------------------------------------------------------------ *)

Lemma prefc_while : forall C c tn fn dc hc B b db hb,
  InnerOK C c tn fn dc hc -> StmtsOK tn (fn && negb hc) B b db hb ->
  PrefcOK (tk TWhile :: tk TLParen :: C ++ tk TRParen :: braces B) (EWhile c b) tn fn
          (N.max dc db) (hc || hb).
Proof.
  intros C c tn fn dc hc B b db hb HC HB. split; [apply begins_cons; reflexivity|].
  intros rest f s Hcl Hpos Htn Hfn Hfit Hf.
  cbn [app] in Hpos. rewrite <- app_assoc in Hpos. cbn [app] in Hpos.
  apply pos_cons in Hpos. destruct Hpos as [Hcur Hbef].
  len. rewrite braces_len in Hf. destruct f as [|f]; try lia.
  rewrite parse_prefix_S, Hcur. cbn [tty tk tlit].
  destruct (cond_ok _ _ _ _ _ _ HC (braces B ++ rest) f s)
    as (s2 & E1 & E2 & E3 & Hb3 & Ht3 & Hd3 & Hi3); try assumption.
  { eapply fits_le; [exact Hfit|lia]. }
  { lia. }
  rewrite E1. cbn [pbind]. rewrite E2. cbn [pbind]. rewrite E3. cbn [pbind].
  autorewrite with st in *.
  destruct (braces_ok _ _ _ _ _ _ HB rest f (next s2) Hb3) as (s5 & E4 & E5 & Hb5 & Ht5 & Hd5 & Hi5).
  { autorewrite with st; congruence. }
  { autorewrite with st; rewrite Hi3, Hfn. reflexivity. }
  { autorewrite with st; rewrite Hd3. eapply fits_le; [exact Hfit|lia]. }
  { lia. }
  rewrite E4. cbn [pbind]. rewrite E5. cbn [pbind].
  eexists; split; [reflexivity|]. autorewrite with st in *. post_tac.
  rewrite Hi5, Hi3. apply andb_negb_orb.
Qed.

(* ------------------------------------------------------------------ *)
(* foreach                                                             *)
(* ------------------------------------------------------------------ *)

Lemma foreach_tail : forall V v tn fn dv hv B b db hb idx id,
  InnerOK V v tn fn dv hv -> StmtsOK tn (fn && negb hv) B b db hb ->
  forall rest f s, before (tk TIn :: V ++ braces B ++ rest) s -> tern s = tn -> infn s = fn ->
    fits (depth s) (N.max dv db) -> (2 * List.length V + 2 * List.length B + 2 <= f)%nat ->
    exists s',
      pbind (expect_peek s TIn) (fun _ s3 =>
      pbind (parse_expression pf md f LOWEST (next s3)) (fun v s4 =>
      pbind (expect_peek s4 TLBrace) (fun _ s5 =>
      pbind (parse_block pf md f s5) (fun b s6 =>
      POk (EForeach idx id v b) s6)))) = POk (EForeach idx id v b) s' /\ post s s' rest (hv || hb).
Proof.
  intros V v tn fn dv hv B b db hb idx id [HbV HV] HB rest f s Hbef Htn Hfn Hfit Hf.
  rewrite (expect_ok s _ _ TIn Hbef eq_refl). cbn [pbind].
  destruct (before_step _ _ _ Hbef) as [_ Hb1].
  destruct (HV (braces B ++ rest) f (next (next s))) as (s4 & E4 & Hb4 & Ht4 & Hd4 & Hi4); try assumption.
  - apply closes_braces.
  - apply before_next. exact Hb1.
  - autorewrite with st. eapply fits_le; [exact Hfit|lia].
  - lia.
  - rewrite E4. cbn [pbind]. autorewrite with st in *.
    destruct (braces_ok _ _ _ _ _ _ HB rest f s4 Hb4) as (s6 & E5 & E6 & Hb6 & Ht6 & Hd6 & Hi6).
    { autorewrite with st; congruence. }
    { autorewrite with st; rewrite Hi4, Hfn. reflexivity. }
    { autorewrite with st; rewrite Hd4. eapply fits_le; [exact Hfit|lia]. }
    { lia. }
    rewrite E5. cbn [pbind]. rewrite E6. cbn [pbind].
    eexists; split; [reflexivity|]. post_tac.
    rewrite Hi6, Hi4. apply andb_negb_orb.
Qed.

Lemma prefc_foreach1 : forall id V v tn fn dv hv B b db hb,
  InnerOK V v tn fn dv hv -> StmtsOK tn (fn && negb hv) B b db hb ->
  PrefcOK (tk TForeach :: mkTok TIdent id :: tk TIn :: V ++ braces B) (EForeach [] id v b) tn fn
          (N.max dv db) (hv || hb).
Proof.
  intros id V v tn fn dv hv B b db hb HV HB. split; [apply begins_cons; reflexivity|].
  intros rest f s Hcl Hpos Htn Hfn Hfit Hf.
  cbn [app] in Hpos. rewrite <- app_assoc in Hpos.
  apply pos_cons in Hpos. destruct Hpos as [Hcur Hbef].
  len. rewrite braces_len in Hf. destruct f as [|f]; try lia.
  rewrite parse_prefix_S, Hcur. cbn [tty tk tlit].
  destruct (before_step _ _ _ Hbef) as [Hc1 Hb1].
  unfold cur_is. rewrite Hc1. cbn [tty tlit tokty_beq negb].
  rewrite (peek_is_hd _ _ _ _ Hb1). cbn [tty tk tokty_beq pbind fst snd].
  destruct (foreach_tail _ _ _ _ _ _ _ _ _ _ [] id HV HB rest f (next s) Hb1) as (s' & E & HP); try assumption.
  { lia. }
  cbn [fst snd]. rewrite E. eexists; split; [reflexivity|]. autorewrite with st in *. exact HP.
Qed.

Lemma prefc_foreach2 : forall idx id V v tn fn dv hv B b db hb,
  InnerOK V v tn fn dv hv -> StmtsOK tn (fn && negb hv) B b db hb ->
  PrefcOK (tk TForeach :: mkTok TIdent idx :: tk TComma :: mkTok TIdent id :: tk TIn :: V ++ braces B)
          (EForeach idx id v b) tn fn (N.max dv db) (hv || hb).
Proof.
  intros idx id V v tn fn dv hv B b db hb HV HB. split; [apply begins_cons; reflexivity|].
  intros rest f s Hcl Hpos Htn Hfn Hfit Hf.
  cbn [app] in Hpos. rewrite <- app_assoc in Hpos.
  apply pos_cons in Hpos. destruct Hpos as [Hcur Hbef].
  len. rewrite braces_len in Hf. destruct f as [|f]; try lia.
  rewrite parse_prefix_S, Hcur. cbn [tty tk tlit].
  destruct (before_step _ _ _ Hbef) as [Hc1 Hb1].
  unfold cur_is. rewrite Hc1. cbn [tty tlit tokty_beq negb].
  rewrite (peek_is_hd _ _ _ _ Hb1). cbn [tty tk tokty_beq].
  destruct (before_step _ _ _ Hb1) as [Hc2 Hb2].
  rewrite (peek_is_hd _ _ _ _ Hb2). cbn [tty tokty_beq negb pbind].
  destruct (before_step _ _ _ Hb2) as [Hc3 Hb3]. rewrite Hc3. cbn [tlit fst snd].
  destruct (foreach_tail _ _ _ _ _ _ _ _ _ _ idx id HV HB rest f (next (next (next s))) Hb3)
    as (s' & E & HP); try assumption.
  { lia. }
  rewrite E. eexists; split; [reflexivity|]. autorewrite with st in *. exact HP.
Qed.

(* ------------------------------------------------------------------ *)
(* function definitions                                                *)
(* ------------------------------------------------------------------ *)

Definition ptoks (ps : list str) : list (list token) := map (fun p => [mkTok TIdent p]) ps.

Lemma params_loop_ok : forall ps acc rest f s,
  pos (commas (ptoks ps) ++ tk TRParen :: rest) s -> (List.length ps + 1 <= f)%nat ->
  exists s', parse_params_loop f acc s = POk (rev acc ++ ps) s' /\ before rest s' /\
    tern s' = tern s /\ depth s' = depth s /\ infn s' = infn s.
Proof.
  induction ps as [|p ps IH]; intros acc rest f s Hpos Hf.
  - cbn [ptoks map commas app] in Hpos. apply pos_cons in Hpos. destruct Hpos as [Hcur Hbef].
    destruct f as [|f]; [cbn in Hf; lia|]. rewrite parse_params_loop_S. unfold cur_is. rewrite Hcur.
    cbn [tty tk tokty_beq]. rewrite app_nil_r. eexists; split; [reflexivity|]. repeat split; apply Hbef.
  - cbn [ptoks map commas app] in Hpos. apply pos_cons in Hpos. destruct Hpos as [Hcur Hbef].
    cbn [List.length] in Hf. destruct f as [|f]; [lia|].
    rewrite parse_params_loop_S. unfold cur_is. rewrite Hcur. cbn [tty tlit tokty_beq negb].
    destruct ps as [|p' ps'].
    + cbn [map sep_tail app] in Hbef. destruct (before_step _ _ _ Hbef) as [Hc1 Hb1].
      rewrite Hc1. cbn [tty tk tokty_beq].
      destruct (IH (p :: acc) rest f (next s)) as (s' & E & Hb' & Ht' & Hd' & Hi').
      * split; [exact Hc1|exact Hb1].
      * cbn [List.length] in *. lia.
      * rewrite E. cbn [rev]. rewrite <- app_assoc. cbn [app].
        eexists; split; [reflexivity|]. autorewrite with st in *. repeat split; try assumption; apply Hb'.
    + cbn [map sep_tail app] in Hbef. destruct (before_step _ _ _ Hbef) as [Hc1 Hb1].
      rewrite Hc1. cbn [tty tk tokty_beq].
      destruct (IH (p :: acc) rest f (next (next s))) as (s' & E & Hb' & Ht' & Hd' & Hi').
      * apply before_next. exact Hb1.
      * cbn [List.length] in *. lia.
      * rewrite E. cbn [rev]. rewrite <- app_assoc. cbn [app].
        eexists; split; [reflexivity|]. autorewrite with st in *. repeat split; try assumption; apply Hb'.
Qed.

Lemma params_ok : forall ps rest f s,
  before (commas (ptoks ps) ++ tk TRParen :: rest) s -> (List.length ps + 1 <= f)%nat ->
  exists s', parse_params f s = POk ps s' /\ before rest s' /\
    tern s' = tern s /\ depth s' = depth s /\ infn s' = infn s.
Proof.
  intros ps rest f s Hbef Hf. unfold parse_params. destruct ps as [|p ps].
  - cbn [ptoks map commas app] in Hbef. rewrite (peek_is_hd _ _ _ _ Hbef). cbn [tty tk tokty_beq].
    destruct (before_step _ _ _ Hbef) as [_ Hb1].
    eexists; split; [reflexivity|]. autorewrite with st. repeat split; apply Hb1.
  - pose proof Hbef as Hbef0. cbn [ptoks map commas app] in Hbef. rewrite (peek_is_hd _ _ _ _ Hbef).
    cbn [tty tokty_beq].
    destruct (params_loop_ok (p :: ps) [] rest f (next s)) as (s' & E & HP).
    + apply before_next. exact Hbef0.
    + exact Hf.
    + rewrite E. cbn [rev app]. eexists; split; [reflexivity|]. autorewrite with st in HP. exact HP.
Qed.

Lemma ptoks_len : forall ps, (List.length (commas (ptoks ps)) <= 2 * List.length ps)%nat /\
                             (List.length ps <= S (List.length (commas (ptoks ps))))%nat.
Proof.
  intros [|p ps]; [cbn; lia|]. cbn [ptoks map commas]. len.
  induction ps as [|q ps IH]; cbn [map sep_tail]; len; lia.
Qed.

Lemma prefc_function : forall name ps tn fn B b db hb,
  StmtsOK tn true B b db hb ->
  PrefcOK (tk TFunction :: mkTok TIdent name :: tk TLParen :: commas (ptoks ps) ++ tk TRParen :: braces B)
          (EFunction name ps b) tn fn db true.
Proof.
  intros name ps tn fn B b db hb HB. split; [apply begins_cons; reflexivity|].
  intros rest f s Hcl Hpos Htn Hfn Hfit Hf.
  cbn [app] in Hpos. rewrite <- app_assoc in Hpos. cbn [app] in Hpos.
  apply pos_cons in Hpos. destruct Hpos as [Hcur Hbef].
  len. rewrite braces_len in Hf. pose proof (ptoks_len ps) as [Hl1 Hl2].
  destruct f as [|f]; try lia.
  rewrite parse_prefix_S, Hcur. cbn [tty tk tlit].
  apply (before_si _ _ true) in Hbef.
  destruct (before_step _ _ _ Hbef) as [Hc1 Hb1].
  unfold cur_is. rewrite Hc1. cbn [tty tlit tokty_beq negb].
  rewrite (expect_ok _ _ _ TLParen Hb1 eq_refl). cbn [pbind].
  destruct (before_step _ _ _ Hb1) as [_ Hb2].
  destruct (params_ok ps (braces B ++ rest) (S f) _ Hb2) as (s3 & E3 & Hb3 & Ht3 & Hd3 & Hi3); [lia|].
  rewrite E3. cbn [pbind]. autorewrite with st in *.
  destruct (braces_ok _ _ _ _ _ _ HB rest f s3 Hb3) as (s5 & E4 & E5 & Hb5 & Ht5 & Hd5 & Hi5).
  { autorewrite with st; congruence. }
  { autorewrite with st; exact Hi3. }
  { autorewrite with st; rewrite Hd3. exact Hfit. }
  { lia. }
  rewrite E4. cbn [pbind]. rewrite E5. cbn [pbind].
  eexists; split; [reflexivity|]. unfold post. autorewrite with st.
  split; [apply before_si; exact Hb5|]. split; [congruence|]. split; [congruence|].
  rewrite andb_false_r. reflexivity.
Qed.

(* ------------------------------------------------------------------ *)
(* switch                                                              *)
(* ------------------------------------------------------------------ *)

Lemma case_tail_ok : forall tn fn Xs xs dn hf, ElemsOK tn fn Xs xs dn hf ->
  forall acc t rest f s, tty t = TLBrace -> before (sep_tail Xs ++ t :: rest) s -> tern s = tn -> infn s = fn ->
    fits (depth s) dn -> (2 * List.length (sep_tail Xs) + 1 <= f)%nat ->
    exists s', parse_case_tail pf md f acc s = POk (rev acc ++ xs) s' /\ post s s' (t :: rest) hf.
Proof.
  intros tn fn Xs xs dn hf H.
  induction H as [fn|fn X x dx hx Xs xs dn hf [HbX HX] HXs IH]; intros acc t rest f s Ht Hbef Htn Hfn Hfit Hf.
  - cbn [sep_tail app] in *. destruct f as [|f]; [lia|].
    rewrite parse_case_tail_S, (peek_is_hd _ _ _ _ Hbef), Ht. cbn [tokty_beq].
    rewrite app_nil_r. eexists; split; [reflexivity|]. post_tac. rewrite andb_true_r. reflexivity.
  - cbn [sep_tail] in *. rewrite <- app_comm_cons in Hbef. rewrite <- app_assoc in Hbef. len.
    destruct f as [|f]; [lia|].
    rewrite parse_case_tail_S, (peek_is_hd _ _ _ _ Hbef). cbn [tty tk tokty_beq].
    destruct (before_step _ _ _ Hbef) as [_ Hb1].
    destruct (HX (sep_tail Xs ++ t :: rest) f (next (next s))) as (s1 & E1 & Hb2 & Ht2 & Hd2 & Hi2).
    + apply closes_sep_tail. rewrite Ht. reflexivity.
    + apply before_next. exact Hb1.
    + exact Htn.
    + exact Hfn.
    + autorewrite with st. eapply fits_le; [exact Hfit|lia].
    + lia.
    + rewrite E1. cbn [pbind]. autorewrite with st in *.
      destruct (IH (x :: acc) t rest f s1 Ht Hb2) as (s2 & E2 & Hb3 & Ht3 & Hd3 & Hi3).
      * congruence.
      * rewrite Hi2, Hfn. reflexivity.
      * rewrite Hd2. eapply fits_le; [exact Hfit|lia].
      * lia.
      * rewrite E2. cbn [rev]. rewrite <- app_assoc. cbn [app].
        eexists; split; [reflexivity|]. post_tac.
        rewrite Hi3, Hi2. apply andb_negb_orb.
Qed.

Inductive ChoicesOK (tn : bool) : bool -> list token -> list (bool * list expr * list stmt) -> N -> bool -> Prop :=
| CO_nil : forall fn, ChoicesOK tn fn [] [] 0 false
| CO_default : forall fn B sts db hb Xs cs dn hf,
    StmtsOK tn fn B sts db hb -> ChoicesOK tn (fn && negb hb) Xs cs dn hf ->
    ChoicesOK tn fn ((tk TDefault :: braces B) ++ Xs) ((true, [], sts) :: cs) (N.max (N.max 0 db) dn) (hb || hf)
| CO_case : forall fn X x dx hx E es de he B sts db hb Xs cs dn hf,
    InnerOK X x tn fn dx hx -> ElemsOK tn (fn && negb hx) E es de he ->
    StmtsOK tn (fn && negb (hx || he)) B sts db hb ->
    ChoicesOK tn (fn && negb ((hx || he) || hb)) Xs cs dn hf ->
    ChoicesOK tn fn ((tk TCase :: (X ++ sep_tail E) ++ braces B) ++ Xs) ((false, x :: es, sts) :: cs)
              (N.max (N.max (N.max dx de) db) dn) (((hx || he) || hb) || hf).

Lemma switch_loop_ok : forall tn fn Xs cs dn hf, ChoicesOK tn fn Xs cs dn hf ->
  forall acc rest f s, pos (Xs ++ tk TRBrace :: rest) s -> tern s = tn -> infn s = fn ->
    fits (depth s) dn -> (2 * List.length Xs + 1 <= f)%nat ->
    exists s', parse_switch_loop pf md f acc s = POk (rev acc ++ cs) s' /\ post s s' rest hf.
Proof.
  intros tn fn Xs cs dn hf H.
  induction H as [fn|fn B sts db hb Xs cs dn hf HB HXs IH
                 |fn X x dx hx E es de he B sts db hb Xs cs dn hf [HbX HX] HE HB HXs IH];
    intros acc rest f s Hpos Htn Hfn Hfit Hf.
  - cbn [app] in Hpos. apply pos_cons in Hpos. destruct Hpos as [Hcur Hbef].
    destruct f as [|f]; [lia|]. rewrite parse_switch_loop_S. unfold cur_is. rewrite Hcur.
    cbn [tty tk tokty_beq]. rewrite app_nil_r.
    eexists; split; [reflexivity|]. post_tac. rewrite andb_true_r. reflexivity.
  - cbn [app] in Hpos. rewrite <- app_assoc in Hpos.
    apply pos_cons in Hpos. destruct Hpos as [Hcur Hbef]. len. rewrite braces_len in Hf.
    destruct f as [|f]; [lia|]. rewrite parse_switch_loop_S. unfold cur_is. rewrite Hcur.
    cbn [tty tk tokty_beq pbind fst snd].
    destruct (braces_ok _ _ _ _ _ _ HB (Xs ++ tk TRBrace :: rest) f s Hbef) as (s3 & E1 & E2 & Hb3 & Ht3 & Hd3 & Hi3);
      try assumption.
    { eapply fits_le; [exact Hfit|lia]. }
    { lia. }
    rewrite E1. cbn [pbind]. rewrite E2. cbn [pbind].
    destruct (IH ((true, [], sts) :: acc) rest f (next s3)) as (s4 & E4 & Hb4 & Ht4 & Hd4 & Hi4).
    + apply before_next. exact Hb3.
    + autorewrite with st. congruence.
    + autorewrite with st. rewrite Hi3, Hfn. reflexivity.
    + autorewrite with st. rewrite Hd3. eapply fits_le; [exact Hfit|lia].
    + lia.
    + rewrite E4. cbn [rev]. rewrite <- app_assoc. cbn [app]. autorewrite with st in *.
      eexists; split; [reflexivity|]. post_tac. rewrite Hi4, Hi3. apply andb_negb_orb.
  - cbn [app] in Hpos. rewrite <- !app_assoc in Hpos.
    apply pos_cons in Hpos. destruct Hpos as [Hcur Hbef]. len. rewrite braces_len in Hf.
    pose proof (begins_len _ HbX) as HlenX.
    destruct f as [|f]; [lia|]. rewrite parse_switch_loop_S. unfold cur_is. rewrite Hcur.
    cbn [tty tk tokty_beq].
    assert (Hc1 : curT (next s) = hd eof_tok (X ++ sep_tail E ++ braces B ++ Xs ++ tk TRBrace :: rest))
      by (apply before_next in Hbef; apply Hbef).
    rewrite Hc1.
    destruct (sprefix_facts _ (begins_hd X (sep_tail E ++ braces B ++ Xs ++ tk TRBrace :: rest) HbX))
      as (_ & _ & _ & _ & _ & _ & _ & _ & _ & _ & Hdef).
    rewrite Hdef.
    destruct (HX (sep_tail E ++ braces B ++ Xs ++ tk TRBrace :: rest) f (next s))
      as (s1 & E1 & Hb1 & Ht1 & Hd1 & Hi1); try assumption.
    { apply closes_sep_tail. reflexivity. }
    { apply before_next. exact Hbef. }
    { autorewrite with st. eapply fits_le; [exact Hfit|lia]. }
    { lia. }
    rewrite E1. cbn [pbind]. autorewrite with st in *.
    rewrite braces_app in Hb1.
    destruct (case_tail_ok _ _ _ _ _ _ HE [x] (tk TLBrace) (B ++ tk TRBrace :: Xs ++ tk TRBrace :: rest) f s1 eq_refl Hb1)
      as (s2 & E2 & Hb2 & Ht2 & Hd2 & Hi2).
    { congruence. }
    { rewrite Hi1, Hfn. reflexivity. }
    { rewrite Hd1. eapply fits_le; [exact Hfit|lia]. }
    { lia. }
    rewrite E2. cbn [pbind rev app fst snd].
    rewrite <- braces_app in Hb2.
    destruct (braces_ok _ _ _ _ _ _ HB (Xs ++ tk TRBrace :: rest) f s2 Hb2) as (s3 & E3 & E4 & Hb3 & Ht3 & Hd3 & Hi3).
    { congruence. }
    { rewrite Hi2, Hi1, Hfn. apply andb_negb_orb. }
    { rewrite Hd2, Hd1. eapply fits_le; [exact Hfit|lia]. }
    { lia. }
    rewrite E3. cbn [pbind]. rewrite E4. cbn [pbind].
    destruct (IH ((false, x :: es, sts) :: acc) rest f (next s3)) as (s4 & E5 & Hb4 & Ht4 & Hd4 & Hi4).
    + apply before_next. exact Hb3.
    + autorewrite with st. congruence.
    + autorewrite with st. rewrite Hi3, Hi2, Hi1, Hfn. destruct fn, hx, he, hb; reflexivity.
    + autorewrite with st. rewrite Hd3, Hd2, Hd1. eapply fits_le; [exact Hfit|lia].
    + lia.
    + rewrite E5. cbn [rev]. rewrite <- app_assoc. cbn [app]. autorewrite with st in *.
      eexists; split; [reflexivity|]. post_tac.
      rewrite Hi4, Hi3, Hi2, Hi1. destruct (infn s), hx, he, hb, hf; reflexivity.
Qed.

Lemma prefc_switch : forall V v tn fn dv hv Xs cs dn hf,
  InnerOK V v tn fn dv hv -> ChoicesOK tn (fn && negb hv) Xs cs dn hf ->
  Nat.ltb 1 (count_defaults cs) = false ->
  PrefcOK (tk TSwitch :: tk TLParen :: V ++ tk TRParen :: braces Xs) (ESwitch v cs) tn fn
          (N.max dv dn) (hv || hf).
Proof.
  intros V v tn fn dv hv Xs cs dn hf HV HX Hcd. split; [apply begins_cons; reflexivity|].
  intros rest f s Hcl Hpos Htn Hfn Hfit Hf.
  cbn [app] in Hpos. rewrite <- app_assoc in Hpos. cbn [app] in Hpos.
  apply pos_cons in Hpos. destruct Hpos as [Hcur Hbef].
  len. rewrite braces_len in Hf. destruct f as [|f]; try lia.
  rewrite parse_prefix_S, Hcur. cbn [tty tk tlit].
  destruct (cond_ok _ _ _ _ _ _ HV (braces Xs ++ rest) f s)
    as (s2 & E1 & E2 & E3 & Hb3 & Ht3 & Hd3 & Hi3); try assumption.
  { eapply fits_le; [exact Hfit|lia]. }
  { lia. }
  rewrite E1. cbn [pbind]. rewrite E2. cbn [pbind]. rewrite E3. cbn [pbind].
  autorewrite with st in *. rewrite braces_app in Hb3.
  rewrite (expect_ok _ _ _ TLBrace Hb3 eq_refl). cbn [pbind].
  destruct (before_step _ _ _ Hb3) as [_ Hb4].
  destruct (switch_loop_ok _ _ _ _ _ _ HX [] rest f (next (next (next s2)))) as (s5 & E5 & Hb5 & Ht5 & Hd5 & Hi5).
  { apply before_next. exact Hb4. }
  { autorewrite with st; congruence. }
  { autorewrite with st; rewrite Hi3, Hfn; reflexivity. }
  { autorewrite with st; rewrite Hd3. eapply fits_le; [exact Hfit|lia]. }
  { lia. }
  rewrite E5. cbn [pbind rev app]. rewrite Hcd.
  eexists; split; [reflexivity|]. autorewrite with st in *. post_tac.
  rewrite Hi5, Hi3. apply andb_negb_orb.
Qed.

(* ------------------------------------------------------------------ *)
(* from the printable trees to the invariants                          *)
(* ------------------------------------------------------------------ *)

Definition is_if (e : expr) : bool := match e with EIf _ _ _ => true | _ => false end.

Definition Pe (x : expr) : Prop := forall tn fn, pe tn fn x = true -> flk pf x ->
  (InnerOK (show_inner x) x tn fn (din x) (hasfn x) /\ PrefOK (show_expr x) x tn fn (dop x) (hasfn x)) /\
  (is_if x = true -> IfOK' (show_inner x) x tn fn (din x - 1) (hasfn x)).

Definition is_post (st : stmt) : bool := match st with SExpr (EPostfix _ _) => true | _ => false end.
Definition is_id (st : stmt) : option str := match st with SExpr (EIdent n) => Some n | _ => None end.

Definition Qs (st : stmt) : Prop :=
  (forall tn fn, is_post st = false -> ps tn fn st = true -> flk_s pf st ->
     StmtOK (show_stmt st) st tn fn (din_s st) (hasfn_s st)) /\
  Pe (match st with SReturn e => e | SExpr e => e end).

Lemma both_simple : forall e tn fn d hf, simple e = true -> din e = 1 + d ->
  PrefOK (show_inner e) e tn fn d hf ->
  InnerOK (show_inner e) e tn fn (din e) hf /\ PrefOK (show_expr e) e tn fn (dop e) hf.
Proof.
  intros e tn fn d hf Hs Hd H. unfold show_expr, wrap, dop. rewrite Hs, Hd. split.
  - apply inner_of_opnd, opnd_of_pref. exact H.
  - replace (1 + d - 1) with d by lia. exact H.
Qed.

Lemma both_compound : forall e tn fn hf, simple e = false ->
  InnerOK (show_inner e) e tn fn (din e) hf ->
  InnerOK (show_inner e) e tn fn (din e) hf /\ PrefOK (show_expr e) e tn fn (dop e) hf.
Proof.
  intros e tn fn hf Hs H. unfold show_expr, wrap, dop. rewrite Hs. split; [exact H|].
  apply pref_paren. exact H.
Qed.

Lemma elems_ok : forall tn l, Forall Pe l -> forall fn,
  thread (pe tn) hasfn fn l = true -> all_p (flk pf) l ->
  ElemsOK tn fn (map show_inner l) l (maxl (map din l)) (existsb hasfn l).
Proof.
  intros tn l H. induction H as [|x l Hx Hl IH]; intros fn Ht Hf.
  - constructor.
  - cbn [thread] in Ht. apply andb_true_iff in Ht. destruct Ht as [Ht1 Ht2].
    cbn [all_p] in Hf. destruct Hf as [Hf1 Hf2].
    cbn [map maxl fold_right existsb]. constructor.
    + apply (proj1 (proj1 (Hx tn fn Ht1 Hf1))).
    + apply IH; assumption.
Qed.

Lemma pairs_ok : forall tn l, Forall (fun kv : expr * expr => Pe (fst kv) /\ Pe (snd kv)) l -> forall fn,
  thread (fun fn kv => pe tn fn (fst kv) && pe tn (fn && negb (hasfn (fst kv))) (snd kv))
         (fun kv => hasfn (fst kv) || hasfn (snd kv)) fn l = true ->
  all_p (fun kv => flk pf (fst kv) /\ flk pf (snd kv)) l ->
  PairsOK tn fn (map (fun kv => show_inner (fst kv) ++ tk TColon :: show_inner (snd kv)) l) l
          (maxl (map (fun kv => N.max (din (fst kv)) (din (snd kv))) l))
          (existsb (fun kv => hasfn (fst kv) || hasfn (snd kv)) l).
Proof.
  intros tn l H. induction H as [|[k v] l [Hk Hv] Hl IH]; intros fn Ht Hf.
  - constructor.
  - cbn [thread fst snd] in Ht. apply andb_true_iff in Ht. destruct Ht as [Ht1 Ht2].
    apply andb_true_iff in Ht1. destruct Ht1 as [Htk Htv].
    cbn [all_p fst snd] in Hf. destruct Hf as [[Hfk Hfv] Hf2]. cbn [fst snd] in *.
    cbn [map maxl fold_right existsb fst snd]. constructor.
    + apply (proj1 (proj1 (Hk tn fn Htk Hfk))).
    + apply (proj1 (proj1 (Hv tn _ Htv Hfv))).
    + apply IH; assumption.
Qed.

Lemma str_eqb_eq : forall a b, str_eqb a b = true -> a = b.
Proof.
  induction a as [|x a IH]; intros [|y b] H; try discriminate H; [reflexivity|].
  cbn [str_eqb] in H. apply andb_true_iff in H. destruct H as [H1 H2].
  apply N.eqb_eq in H1. subst y. rewrite (IH b H2). reflexivity.
Qed.

Lemma glue_step : forall sh s l,
  glue sh (s :: l) =
  (match is_id s, l with
   | Some n, s2 :: _ => if is_post s2 then [mkTok TIdent n] else sh s
   | _, _ => sh s
   end) ++ glue sh l.
Proof.
  intros sh s l. destruct s as [e|e]; [reflexivity|]. destruct e; try reflexivity.
  destruct l as [|s2 l]; [reflexivity|]. destruct s2 as [e2|e2]; [reflexivity|]. destruct e2; reflexivity.
Qed.

Lemma is_id_some : forall s n, is_id s = Some n -> s = SExpr (EIdent n).
Proof. intros s n H. destruct s as [e|e]; [discriminate H|]. destruct e; try discriminate H. inversion H. reflexivity. Qed.
Lemma is_post_true : forall s, is_post s = true -> exists m op, s = SExpr (EPostfix m op).
Proof. intros s H. destruct s as [e|e]; [discriminate H|]. destruct e; try discriminate H. eexists _, _; reflexivity. Qed.

Lemma paired_step : forall prev s l, paired prev (s :: l) =
  (match s with
   | SExpr (EPostfix m _) => match prev with Some n => str_eqb n m | None => false end
   | _ => true
   end) && paired (is_id s) l.
Proof. reflexivity. Qed.

Lemma paired_head : forall s l, paired None (s :: l) = true -> is_post s = false.
Proof.
  intros s l H. rewrite paired_step in H. destruct s as [e|e]; [reflexivity|]. destruct e; try reflexivity.
  discriminate H.
Qed.

Lemma stmts_ok_gen : forall tn k l, (List.length l <= k)%nat -> Forall Qs l -> forall prev fn,
  thread (ps tn) hasfn_s fn l = true -> paired prev l = true ->
  match l with s :: _ => is_post s = false | [] => True end ->
  all_p (flk_s pf) l ->
  StmtsOK tn fn (glue show_stmt l) l (maxl (map din_s l)) (existsb hasfn_s l).
Proof.
  intros tn k. induction k as [|k IH]; intros l Hlen HQ prev fn Ht Hpa Hhd Hf.
  - destruct l; [constructor|cbn in Hlen; lia].
  - destruct l as [|s l]; [constructor|].
    cbn [List.length] in Hlen. inversion HQ as [|? ? HQs HQl]; subst.
    cbn [thread] in Ht. apply andb_true_iff in Ht. destruct Ht as [Ht1 Ht2].
    rewrite paired_step in Hpa. apply andb_true_iff in Hpa. destruct Hpa as [_ Hpa].
    cbn [all_p] in Hf. destruct Hf as [Hf1 Hf2].
    rewrite glue_step.
    destruct (is_id s) as [n|] eqn:Eid.
    + destruct l as [|s2 l2].
      * cbn [map maxl fold_right existsb]. apply SO_cons; [exact Hhd| |constructor].
        apply (proj1 HQs tn fn Hhd Ht1 Hf1).
      * destruct (is_post s2) eqn:Ep2.
        -- apply is_id_some in Eid. subst s. destruct (is_post_true _ Ep2) as (m & op & ->).
           rewrite paired_step in Hpa. apply andb_true_iff in Hpa. destruct Hpa as [Hnm Hpa2].
           apply str_eqb_eq in Hnm. subst m.
           cbn [thread hasfn_s hasfn negb] in Ht2. apply andb_true_iff in Ht2. destruct Ht2 as [Hop Ht3].
           cbn [ps] in Hop. rewrite !andb_true_r in Ht3.
           cbn [all_p] in Hf2. destruct Hf2 as [_ Hf3].
           inversion HQl as [|? ? _ HQl2]; subst.
           rewrite glue_step. cbn [is_id show_stmt show_inner app].
           cbn [map maxl fold_right existsb din_s din hasfn_s hasfn orb].
           apply SO_pair; [exact Hop|].
           apply (IH l2) with (prev := None); try assumption.
           ++ cbn [List.length] in Hlen. lia.
           ++ destruct l2 as [|s3 l3]; [exact I|]. cbn [is_id] in Hpa2. apply (paired_head _ _ Hpa2).
        -- cbn [map maxl fold_right existsb]. apply SO_cons.
           ++ exact Hhd.
           ++ apply (proj1 HQs tn fn Hhd Ht1 Hf1).
           ++ apply (IH (s2 :: l2)) with (prev := Some n); try assumption.
              ** lia.
    + cbn [map maxl fold_right existsb]. apply SO_cons.
      * exact Hhd.
      * replace (match l with [] => show_stmt s | _ :: _ => show_stmt s end) with (show_stmt s)
          by (destruct l; reflexivity).
        apply (proj1 HQs tn fn Hhd Ht1 Hf1).
      * apply (IH l) with (prev := None); try assumption.
        -- lia.
        -- destruct l as [|s2 l2]; [exact I|]. apply (paired_head _ _ Hpa).
Qed.

Lemma stmts_ok : forall tn l, Forall Qs l -> forall fn,
  thread (ps tn) hasfn_s fn l = true -> paired None l = true -> all_p (flk_s pf) l ->
  StmtsOK tn fn (glue show_stmt l) l (maxl (map din_s l)) (existsb hasfn_s l).
Proof.
  intros tn l HQ fn Ht Hpa Hf. apply (stmts_ok_gen tn (List.length l) l (le_n _) HQ None fn Ht Hpa); [|exact Hf].
  destruct l as [|s l]; [exact I|]. apply (paired_head _ _ Hpa).
Qed.

Definition show_choice (c : bool * list expr * list stmt) : list token :=
  let '(d, es, b) := c in
  (if d : bool then [tk TDefault] else tk TCase :: commas (map show_inner es)) ++ braces (glue show_stmt b).
Definition d_choice (c : bool * list expr * list stmt) : N :=
  N.max (maxl (map din (snd (fst c)))) (maxl (map din_s (snd c))).
Definition h_choice (c : bool * list expr * list stmt) : bool :=
  existsb hasfn (snd (fst c)) || existsb hasfn_s (snd c).
Definition chk_choice (tn fn : bool) (c : bool * list expr * list stmt) : bool :=
  (if fst (fst c) then match snd (fst c) with [] => true | _ => false end
   else nonempty_l (snd (fst c))) &&
  thread (pe tn) hasfn fn (snd (fst c)) &&
  thread (ps tn) hasfn_s (fn && negb (existsb hasfn (snd (fst c)))) (snd c) &&
  paired None (snd c).

Lemma choices_ok : forall tn cs,
  Forall (fun c : bool * list expr * list stmt => Forall Pe (snd (fst c)) /\ Forall Qs (snd c)) cs ->
  forall fn, thread (chk_choice tn) h_choice fn cs = true ->
  all_p (fun c : bool * list expr * list stmt => all_p (flk pf) (snd (fst c)) /\ all_p (flk_s pf) (snd c)) cs ->
  ChoicesOK tn fn (List.concat (map show_choice cs)) cs (maxl (map d_choice cs)) (existsb h_choice cs).
Proof.
  intros tn cs H. induction H as [|[[d es] b] cs [HPe HQ] Hcs IH]; intros fn Ht Hf.
  - constructor.
  - cbn [thread] in Ht. apply andb_true_iff in Ht. destruct Ht as [Hc Ht2].
    unfold chk_choice in Hc. cbn [fst snd] in *.
    apply andb_true_iff in Hc. destruct Hc as [Hc Hpa].
    apply andb_true_iff in Hc. destruct Hc as [Hc Hts].
    apply andb_true_iff in Hc. destruct Hc as [Hshape Hte].
    cbn [all_p fst snd] in Hf. destruct Hf as [[Hfe Hfb] Hf2].
    cbn [map List.concat maxl fold_right existsb].
    unfold d_choice at 1, h_choice at 1. unfold h_choice at 1 in Ht2. cbn [fst snd] in *.
    destruct d.
    + destruct es as [|x es]; [|discriminate Hshape].
      cbn [existsb negb orb] in *. rewrite andb_true_r in Hts.
      cbn [show_choice app map maxl fold_right].
      apply CO_default.
      * apply stmts_ok; assumption.
      * apply IH; assumption.
    + destruct es as [|x es]; [discriminate Hshape|].
      inversion HPe as [|? ? HPx HPes]; subst.
      cbn [thread] in Hte. apply andb_true_iff in Hte. destruct Hte as [Htx Htes].
      cbn [all_p] in Hfe. destruct Hfe as [Hfx Hfes].
      cbn [existsb map maxl fold_right] in *.
      cbn [show_choice map commas].
      apply CO_case.
      * apply (proj1 (proj1 (HPx tn fn Htx Hfx))).
      * apply elems_ok; assumption.
      * apply stmts_ok; assumption.
      * apply IH; assumption.
Qed.

Lemma count_def_eq : forall cs, count_def cs = count_defaults cs.
Proof.
  induction cs as [|[[d es] b] cs IH]; [reflexivity|]. cbn [count_def count_defaults fst]. rewrite IH. reflexivity.
Qed.

(* ---- the cases ---- *)

Lemma case_int : forall t v, Pe (EInt t v).
Proof.
  intros t v tn fn Hp Hf. split; [|intros Hif; discriminate Hif]. apply (both_simple (EInt t v) tn fn 0); [reflexivity|reflexivity|].
  apply pref_int. apply int_ok_parse. exact Hp.
Qed.
Lemma case_float : forall t v, Pe (EFloat t v).
Proof.
  intros t v tn fn Hp Hf. split; [|intros Hif; discriminate Hif]. apply (both_simple (EFloat t v) tn fn 0); [reflexivity|reflexivity|].
  apply pref_float. exact Hf.
Qed.
Lemma case_str : forall s, Pe (EStr s).
Proof. intros s tn fn Hp Hf. split; [|intros Hif; discriminate Hif]. apply (both_simple (EStr s) tn fn 0); [reflexivity|reflexivity|]. apply pref_str. Qed.
Lemma case_bool : forall b, Pe (EBool b).
Proof. intros b tn fn Hp Hf. split; [|intros Hif; discriminate Hif]. apply (both_simple (EBool b) tn fn 0); [reflexivity|reflexivity|]. apply pref_bool. Qed.
Lemma case_regexp : forall v fl, Pe (ERegexp v fl).
Proof.
  intros v fl tn fn Hp Hf. split; [|intros Hif; discriminate Hif]. apply (both_simple (ERegexp v fl) tn fn 0); [reflexivity|reflexivity|].
  apply pref_regexp. exact Hp.
Qed.
Lemma case_ident : forall n, Pe (EIdent n).
Proof. intros n tn fn Hp Hf. split; [|intros Hif; discriminate Hif]. apply (both_simple (EIdent n) tn fn 0); [reflexivity|reflexivity|]. apply pref_ident. Qed.

Lemma case_prefix : forall op r, Pe r -> Pe (EPrefix op r).
Proof.
  intros op r IH tn fn Hp Hf. cbn [pe] in Hp. apply andb_true_iff in Hp. destruct Hp as [Hop Hr].
  cbn [flk] in Hf. destruct (IH tn fn Hr Hf) as [[_ HPr] _].
  split; [|intros Hif; discriminate Hif]. apply both_compound; [reflexivity|].
  apply (inner_weaken _ _ _ _ (1 + (1 + dop r)) _ (hasfn r)); [|cbn [din]; fold (dop r); lia|reflexivity].
  apply (inner_prefix op (show_expr r) r tn fn (1 + dop r) (hasfn r) Hop).
  apply opnd_of_pref. exact HPr.
Qed.

Lemma show_infix_other : forall op l r, op <> TPeriod ->
  show_inner (EInfix op l r) = show_expr l ++ tk op :: show_expr r.
Proof. intros op l r H. destruct op; try reflexivity. exfalso; apply H; reflexivity. Qed.
Lemma din_infix_other : forall op l r, op <> TPeriod ->
  din (EInfix op l r) = N.max (1 + dop l) (3 + dop r).
Proof. intros op l r H. destruct op; try reflexivity. exfalso; apply H; reflexivity. Qed.

Lemma ident_ok_nonempty : forall n, ident_ok n = true -> n <> [].
Proof. intros n H E. subst n. discriminate H. Qed.

Lemma case_infix : forall op l r, Pe l -> Pe r -> Pe (EInfix op l r).
Proof.
  intros op l r IHl IHr tn fn Hp Hf. cbn [pe] in Hp. apply andb_true_iff in Hp. destruct Hp as [Hl Hp].
  cbn [flk] in Hf. destruct Hf as [Hfl Hfr]. destruct (IHl tn fn Hl Hfl) as [[_ HPl] _].
  split; [|intros Hif; discriminate Hif]. apply both_compound; [reflexivity|].
  destruct (tokty_beq op TPeriod) eqn:Eop.
  - apply internal_tokty_dec_bl in Eop. subst op.
    destruct r; try discriminate Hp.
    apply (inner_weaken _ _ _ _ (N.max (1 + dop l) 3) _ (hasfn l)).
    + apply inner_period. exact HPl.
    + cbn [din]. fold (dop l). lia.
    + cbn [hasfn]. rewrite orb_false_r. reflexivity.
  - assert (Hne : op <> TPeriod) by (intros E; subst op; discriminate Eop).
    apply andb_true_iff in Hp. destruct Hp as [Hop Hr].
    destruct (IHr tn _ Hr Hfr) as [[_ HPr] _].
    rewrite (show_infix_other _ _ _ Hne), (din_infix_other _ _ _ Hne).
    apply (inner_weaken _ _ _ _ (N.max (1 + dop l) (2 + (1 + dop r))) _ (hasfn l || hasfn r)); [|lia|reflexivity].
    apply (inner_infix op _ l _ r tn fn _ _ _ _ Hop HPl). apply opnd_of_pref. exact HPr.
Qed.

Lemma case_postfix : forall n op, Pe (EPostfix n op).
Proof. intros n op tn fn Hp Hf. discriminate Hp. Qed.

Lemma case_ternary : forall c t f, Pe c -> Pe t -> Pe f -> Pe (ETernary c t f).
Proof.
  intros c t f IHc IHt IHf tn fn Hp Hf. cbn [pe] in Hp.
  apply andb_true_iff in Hp. destruct Hp as [Hp Hpf].
  apply andb_true_iff in Hp. destruct Hp as [Hp Hpt].
  apply andb_true_iff in Hp. destruct Hp as [Htn Hpc].
  apply negb_true_iff in Htn. subst tn.
  cbn [flk] in Hf. destruct Hf as (Hfc & Hft & Hff).
  destruct (IHc _ _ Hpc Hfc) as [[_ HPc] _]. destruct (IHt _ _ Hpt Hft) as [[HIt _] _].
  destruct (IHf _ _ Hpf Hff) as [[HIf _] _].
  split; [|intros Hif; discriminate Hif]. apply both_compound; [reflexivity|].
  apply (inner_ternary _ c _ t _ f fn _ _ _ _ _ _ HPc HIt HIf).
Qed.

Lemma Forall_fst : forall l, Forall Pe l -> Forall Pe l.
Proof. intros l H; exact H. Qed.

Lemma case_array : forall l, Forall Pe l -> Pe (EArray l).
Proof.
  intros l IH tn fn Hp Hf. cbn [pe] in Hp. cbn [flk] in Hf.
  split; [|intros Hif; discriminate Hif]. apply (both_simple (EArray l) tn fn (maxl (map din l))); [reflexivity|reflexivity|].
  apply (pref_array tn fn _ l _ _ (elems_ok tn l IH fn Hp Hf)).
Qed.

Lemma case_hash : forall l, Forall (fun kv : expr * expr => Pe (fst kv) /\ Pe (snd kv)) l -> Pe (EHash l).
Proof.
  intros l IH tn fn Hp Hf. cbn [pe] in Hp. cbn [flk] in Hf.
  split; [|intros Hif; discriminate Hif]. apply (both_simple (EHash l) tn fn (maxl (map (fun kv => N.max (din (fst kv)) (din (snd kv))) l)));
    [reflexivity|reflexivity|].
  apply (pref_hash tn fn _ l _ _ (pairs_ok tn l IH fn Hp Hf)).
Qed.

Lemma case_index : forall l i, Pe l -> Pe i -> Pe (EIndex l i).
Proof.
  intros l i IHl IHi tn fn Hp Hf. cbn [pe] in Hp. apply andb_true_iff in Hp. destruct Hp as [Hl Hi].
  cbn [flk] in Hf. destruct Hf as [Hfl Hfi].
  destruct (IHl _ _ Hl Hfl) as [[_ HPl] _]. destruct (IHi _ _ Hi Hfi) as [[HIi _] _].
  split; [|intros Hif; discriminate Hif]. apply both_compound; [reflexivity|].
  apply (inner_index _ l _ i tn fn _ _ _ _ HPl HIi).
Qed.

Lemma case_call : forall f args, Pe f -> Forall Pe args -> Pe (ECall f args).
Proof.
  intros f args IHf IHa tn fn Hp Hf. cbn [pe] in Hp. apply andb_true_iff in Hp. destruct Hp as [Hpf Hpa].
  cbn [flk] in Hf. destruct Hf as [Hff Hfa].
  destruct (IHf _ _ Hpf Hff) as [[_ HPf] _].
  split; [|intros Hif; discriminate Hif]. apply both_compound; [reflexivity|].
  apply (inner_call _ f tn fn _ _ _ args _ _ HPf (elems_ok tn args IHa _ Hpa Hfa)).
Qed.

Lemma case_assign : forall n v, Pe v -> Pe (EAssign n v).
Proof.
  intros n v IHv tn fn Hp Hf. cbn [pe] in Hp. apply andb_true_iff in Hp. destruct Hp as [_ Hv].
  cbn [flk] in Hf. destruct (IHv _ _ Hv Hf) as [[HIv _] _].
  split; [|intros Hif; discriminate Hif]. apply both_compound; [reflexivity|].
  apply (inner_assign n _ v tn fn _ _ HIv).
Qed.

Lemma case_local : forall n, Pe (ELocal n).
Proof.
  intros n tn fn Hp Hf. cbn [pe] in Hp. apply andb_true_iff in Hp. destruct Hp as [Hfn _]. subst fn.
  split; [|intros Hif; discriminate Hif]. apply both_compound; [reflexivity|].
  apply inner_of_opnd. apply (opnd_of_pref _ _ _ _ _ _ (pref_local n tn)).
Qed.

Lemma show_if_none : forall c cns,
  show_inner (EIf c cns None) =
  tk TIf :: tk TLParen :: show_inner c ++ tk TRParen :: braces (glue show_stmt cns).
Proof. intros. cbn [show_inner]. rewrite app_nil_r. reflexivity. Qed.

Definition elif_of (a : list stmt) : option expr :=
  match a with [SExpr (EIf c b x)] => Some (EIf c b x) | _ => None end.

Lemma show_if_some : forall c cns a,
  show_inner (EIf c cns (Some a)) =
  tk TIf :: tk TLParen :: show_inner c ++ tk TRParen :: braces (glue show_stmt cns) ++ tk TElse ::
  match elif_of a with Some e2 => show_inner e2 | None => braces (glue show_stmt a) end.
Proof.
  intros c cns a. destruct a as [|[e|e] [|s2 a]]; try reflexivity; destruct e; reflexivity.
Qed.

Lemma din_if_some : forall c cns a,
  din (EIf c cns (Some a)) =
  2 + N.max (din c) (N.max (maxl (map din_s cns))
                           (match elif_of a with Some e2 => din e2 - 1 | None => maxl (map din_s a) end)).
Proof.
  intros c cns a. destruct a as [|[e|e] [|s2 a]]; try reflexivity; destruct e; reflexivity.
Qed.

Lemma elif_some : forall a e2, elif_of a = Some e2 -> a = [SExpr e2] /\ is_if e2 = true.
Proof.
  intros a e2 H. destruct a as [|[e|e] [|s2 a]]; try discriminate H;
    destruct e; try discriminate H. inversion H. split; reflexivity.
Qed.

Lemma if_triple : forall e tn fn D hf, simple e = false -> din e = 1 + D ->
  IfOK' (show_inner e) e tn fn D hf ->
  (InnerOK (show_inner e) e tn fn (din e) hf /\ PrefOK (show_expr e) e tn fn (dop e) hf) /\
  (is_if e = true -> IfOK' (show_inner e) e tn fn (din e - 1) hf).
Proof.
  intros e tn fn D hf Hs Hd HIF. split.
  - apply both_compound; [exact Hs|]. rewrite Hd. apply inner_of_prefc. apply prefc_of_if. exact HIF.
  - intros _. rewrite Hd. replace (1 + D - 1) with D by lia. exact HIF.
Qed.

Lemma case_if : forall c cns alt, Pe c -> Forall Qs cns -> optQ Qs alt -> Pe (EIf c cns alt).
Proof.
  intros c cns alt IHc IHcns IHalt tn fn Hp Hf. cbn [pe] in Hp.
  apply andb_true_iff in Hp. destruct Hp as [Hp Halt].
  apply andb_true_iff in Hp. destruct Hp as [Hp Hpa1].
  apply andb_true_iff in Hp. destruct Hp as [Hpc Ht1].
  cbn [flk] in Hf. destruct Hf as (Hfc & Hf1 & Hf2).
  destruct (IHc _ _ Hpc Hfc) as [[HIc _] _].
  pose proof (stmts_ok tn cns IHcns _ Ht1 Hpa1 Hf1) as HS1.
  destruct alt as [a|].
  - apply andb_true_iff in Halt. destruct Halt as [Ht2 Hpa2]. cbn [optQ] in IHalt.
    destruct (elif_of a) as [e2|] eqn:Eel.
    + destruct (elif_some _ _ Eel) as [-> Hif2].
      inversion IHalt as [|? ? [_ HPe2] _]; subst. cbn [thread] in Ht2. rewrite andb_true_r in Ht2.
      assert (Hpe2 : pe tn (fn && negb (hasfn c) && negb (existsb hasfn_s cns)) e2 = true)
        by (destruct e2; try discriminate Hif2; exact Ht2).
      cbn [all_p flk_s] in Hf2. destruct Hf2 as [Hfl2 _].
      destruct (HPe2 _ _ Hpe2 Hfl2) as [_ HIF2]. specialize (HIF2 Hif2).
      apply (if_triple _ tn fn (1 + N.max (din c) (N.max (maxl (map din_s cns)) (din e2 - 1)))).
      * reflexivity.
      * rewrite din_if_some, Eel. lia.
      * rewrite show_if_some, Eel.
        replace (hasfn (EIf c cns (Some [SExpr e2]))) with (hasfn c || existsb hasfn_s cns || hasfn e2)
          by (cbn [hasfn existsb hasfn_s]; rewrite orb_false_r; reflexivity).
        apply (if_elif _ c tn fn _ _ _ cns _ _ _ e2 _ _ HIc HS1 HIF2).
    + pose proof (stmts_ok tn a IHalt _ Ht2 Hpa2 Hf2) as HS2.
      apply (if_triple _ tn fn (1 + N.max (din c) (N.max (maxl (map din_s cns)) (maxl (map din_s a))))).
      * reflexivity.
      * rewrite din_if_some, Eel. lia.
      * rewrite show_if_some, Eel.
        apply (if_block _ c tn fn _ _ _ cns _ _ _ a _ _ HIc HS1 HS2).
  - apply (if_triple _ tn fn (1 + N.max (din c) (maxl (map din_s cns)))).
    + reflexivity.
    + cbn [din]. lia.
    + rewrite show_if_none.
      replace (hasfn (EIf c cns None)) with (hasfn c || existsb hasfn_s cns)
        by (cbn [hasfn]; rewrite orb_false_r; reflexivity).
      apply (if_none _ c tn fn _ _ _ cns _ _ HIc HS1).
Qed.

Lemma case_while : forall c b, Pe c -> Forall Qs b -> Pe (EWhile c b).
Proof.
  intros c b IHc IHb tn fn Hp Hf. cbn [pe] in Hp.
  apply andb_true_iff in Hp. destruct Hp as [Hp Hpa].
  apply andb_true_iff in Hp. destruct Hp as [Hpc Ht].
  cbn [flk] in Hf. destruct Hf as (Hfc & Hfb).
  destruct (IHc _ _ Hpc Hfc) as [[HIc _] _].
  pose proof (stmts_ok tn b IHb _ Ht Hpa Hfb) as HS.
  split; [|intros Hif; discriminate Hif]. apply both_compound; [reflexivity|].
  apply inner_of_prefc. apply (prefc_while _ c tn fn _ _ _ b _ _ HIc HS).
Qed.

Lemma case_foreach : forall idx id v b, Pe v -> Forall Qs b -> Pe (EForeach idx id v b).
Proof.
  intros idx id v b IHv IHb tn fn Hp Hf. cbn [pe] in Hp.
  apply andb_true_iff in Hp. destruct Hp as [Hp Hpa].
  apply andb_true_iff in Hp. destruct Hp as [Hp Ht].
  apply andb_true_iff in Hp. destruct Hp as [_ Hpv].
  cbn [flk] in Hf. destruct Hf as (Hfv & Hfb).
  destruct (IHv _ _ Hpv Hfv) as [[HIv _] _].
  pose proof (stmts_ok tn b IHb _ Ht Hpa Hfb) as HS.
  split; [|intros Hif; discriminate Hif]. apply both_compound; [reflexivity|].
  apply inner_of_prefc. destruct idx as [|ch idx].
  - apply (prefc_foreach1 id _ v tn fn _ _ _ b _ _ HIv HS).
  - apply (prefc_foreach2 (ch :: idx) id _ v tn fn _ _ _ b _ _ HIv HS).
Qed.

Lemma case_function : forall name ps b, Forall Qs b -> Pe (EFunction name ps b).
Proof.
  intros name prs b IHb tn fn Hp Hf. cbn [pe] in Hp.
  apply andb_true_iff in Hp. destruct Hp as [Hp Hpa].
  apply andb_true_iff in Hp. destruct Hp as [_ Ht].
  cbn [flk] in Hf.
  pose proof (stmts_ok tn b IHb _ Ht Hpa Hf) as HS.
  split; [|intros Hif; discriminate Hif]. apply both_compound; [reflexivity|].
  apply inner_of_prefc. apply (prefc_function name prs tn fn _ b _ _ HS).
Qed.

Lemma case_switch : forall v cs, Pe v ->
  Forall (fun c : bool * list expr * list stmt => Forall Pe (snd (fst c)) /\ Forall Qs (snd c)) cs ->
  Pe (ESwitch v cs).
Proof.
  intros v cs IHv IHcs tn fn Hp Hf. cbn [pe] in Hp.
  apply andb_true_iff in Hp. destruct Hp as [Hp Hcount].
  apply andb_true_iff in Hp. destruct Hp as [Hpv Ht].
  cbn [flk] in Hf. destruct Hf as (Hfv & Hfc).
  destruct (IHv _ _ Hpv Hfv) as [[HIv _] _].
  pose proof (choices_ok tn cs IHcs _ Ht Hfc) as HC.
  split; [|intros Hif; discriminate Hif]. apply both_compound; [reflexivity|].
  apply inner_of_prefc.
  apply (prefc_switch _ v tn fn _ _ _ cs _ _ HIv HC).
  rewrite <- count_def_eq. apply Nat.leb_le in Hcount. apply Nat.ltb_ge. exact Hcount.
Qed.

Lemma case_return : forall e, Pe e -> Qs (SReturn e).
Proof.
  intros e IH. split; [|exact IH]. intros tn fn _ Hp Hf. cbn [ps] in Hp. cbn [flk_s] in Hf.
  destruct (IH _ _ Hp Hf) as [[HI _] _]. apply (stmt_return _ e tn fn _ _ HI).
Qed.

Lemma case_expr : forall e, Pe e -> Qs (SExpr e).
Proof.
  intros e IH. split; [|exact IH]. intros tn fn Hnp Hp Hf. cbn [flk_s] in Hf.
  assert (Hpe : pe tn fn e = true) by (destruct e; try exact Hp; discriminate Hnp).
  destruct (IH _ _ Hpe Hf) as [[HI _] _]. apply (stmt_expr _ e tn fn _ _ HI).
Qed.

Lemma Pe_all : forall e, Pe e.
Proof.
  apply (expr_ind2 Pe Qs); [apply case_int|apply case_float|apply case_str|apply case_bool|apply case_regexp
    |apply case_ident|apply case_prefix|apply case_infix|apply case_postfix|apply case_ternary|apply case_array
    |apply case_hash|apply case_index|apply case_call|apply case_assign|apply case_local|apply case_if
    |apply case_while|apply case_foreach|apply case_function|apply case_switch|apply case_return|apply case_expr].
Qed.

Lemma Qs_all : forall s, Qs s.
Proof. intros [e|e]; [apply case_return|apply case_expr]; apply Pe_all. Qed.

Lemma Forall_all : forall {A} (P : A -> Prop) (l : list A), (forall x, P x) -> Forall P l.
Proof. intros A P l H. induction l; constructor; auto. Qed.

(* ------------------------------------------------------------------ *)
(* the theorems                                                        *)
(* ------------------------------------------------------------------ *)

Theorem parse_show_program_md : forall p : program,
  printable p = true -> floats_known pf p -> md = 0 \/ prog_depth p <= md ->
  parse_tokens pf md (show_program p ++ [eof]) = ParseOk p.
Proof.
  intros p Hp Hf Hd. unfold printable in Hp. apply andb_true_iff in Hp. destruct Hp as [Ht Hpa].
  pose proof (stmts_ok false p (Forall_all Qs p Qs_all) false Ht Hpa Hf) as HS.
  unfold parse_tokens.
  destruct (program_loop_ok _ _ _ _ _ _ HS [] (2 * List.length (show_program p ++ [eof]) + 20)%nat
              (init_pst (show_program p ++ [eof]))) as (s' & E).
  - apply pos_init.
  - reflexivity.
  - reflexivity.
  - unfold fits. destruct Hd as [Hd|Hd]; [left; exact Hd|right]. exact Hd.
  - unfold show_program, show_stmts. len. lia.
  - rewrite E. reflexivity.
Qed.
End PP.

(* ------------------------------------------------------------------ *)
(* C12/C13: parse o print = identity on the whole language             *)
(* ------------------------------------------------------------------ *)

(* no depth limit (the convention of parse_print_min) *)
Theorem parse_show_program : forall (pf : str -> option (option float)) (p : program),
  printable p = true -> floats_known pf p ->
  parse_tokens pf 0 (show_program p ++ [eof]) = ParseOk p.
Proof. intros pf p Hp Hf. apply parse_show_program_md; [exact Hp|exact Hf|left; reflexivity]. Qed.

(* any limit that is at least the nesting depth of the program *)
Theorem parse_show_program_limit : forall (pf : str -> option (option float)) (md : N) (p : program),
  printable p = true -> floats_known pf p -> prog_depth p <= md ->
  parse_tokens pf md (show_program p ++ [eof]) = ParseOk p.
Proof. intros pf md p Hp Hf Hd. apply parse_show_program_md; [exact Hp|exact Hf|right; exact Hd]. Qed.

(* the limit of the implementation (parser.MaxDepth) *)
Theorem parse_show_program_max : forall (pf : str -> option (option float)) (p : program),
  printable p = true -> floats_known pf p -> (prog_depth p <=? max_depth) = true ->
  parse_tokens pf max_depth (show_program p ++ [eof]) = ParseOk p.
Proof. intros pf p Hp Hf Hd. apply parse_show_program_limit; [exact Hp|exact Hf|apply N.leb_le; exact Hd]. Qed.

(* Stage 1: one expression statement *)
Theorem parse_show_expr : forall (pf : str -> option (option float)) (e : expr),
  printable [SExpr e] = true -> flk pf e ->
  parse_tokens pf 0 (show_inner e ++ [semi; eof]) = ParseOk [SExpr e].
Proof.
  intros pf e Hp Hf.
  pose proof (parse_show_program pf [SExpr e] Hp (conj Hf I)) as H.
  replace (show_program [SExpr e]) with (show_inner e ++ [tk TSemicolon]) in H
    by (unfold show_program, show_stmts; cbn [glue]; destruct e; cbn [show_stmt]; rewrite app_nil_r; reflexivity).
  rewrite <- app_assoc in H. exact H.
Qed.


(* ------------------------------------------------------------------ *)
(* non-vacuity: a program that uses every construct                    *)
(* ------------------------------------------------------------------ *)

Module Demo.
Definition I (s : string) := EIdent (L s).
Definition num (s : string) (v : Z) := EInt (L s) v.
Definition demo : program :=
  [ SExpr (EFunction (L "f") [L "a"; L "b"]
      [ SExpr (ELocal (L "t"));
        SExpr (EAssign (L "t") (EInfix TPlus (I "a") (I "b")));
        SReturn (EInfix TAsterisk (I "t") (num "2" 2)) ]);
    SExpr (EAssign (L "x") (num "1" 1));
    SExpr (EInfix TPlusEq (I "x") (num "2" 2));
    SExpr (I "x"); SExpr (EPostfix (L "x") TPlusPlus);
    SExpr (EAssign (L "y") (EArray [num "1" 1; EStr (L "s"); EBool true; EPrefix TMinus (I "x");
                                    EPrefix TBang (EBool false); EPrefix TSqrt (num "4" 4)]));
    SExpr (EAssign (L "h") (EHash [(EStr (L "k"), num "1" 1); (num "2" 2, EArray [num "3" 3])]));
    SExpr (EAssign (L "z") (EInfix TPlus (EIndex (I "y") (num "0" 0))
                                         (ECall (I "f") [num "1" 1; EInfix TPow (num "2" 2) (num "2" 2)])));
    SExpr (EIf (EInfix TLt (I "x") (num "3" 3)) [SExpr (I "x"); SExpr (EPostfix (L "x") TMinusMinus)]
             (Some [SExpr (EIf (EInfix TEq (I "x") (num "3" 3)) [SExpr (EAssign (L "x") (num "0" 0))]
                               (Some [SExpr (EAssign (L "x") (num "1" 1))]))]));
    SExpr (EWhile (EInfix TLt (I "x") (num "10" 10)) [SExpr (I "x"); SExpr (EPostfix (L "x") TPlusPlus)]);
    SExpr (EForeach (L "i") (L "v") (I "y") [SExpr (ECall (I "print") [I "v"])]);
    SExpr (EForeach [] (L "v") (EInfix TDotDot (num "1" 1) (num "3" 3)) [SExpr (ECall (I "print") [I "v"])]);
    SExpr (ESwitch (I "x") [(false, [num "1" 1; num "2" 2], [SExpr (I "a")]); (true, [], [SExpr (I "b")])]);
    SExpr (EAssign (L "r") (EInfix TContains (I "x") (ERegexp (L "ab") (L "i"))));
    SExpr (EAssign (L "t") (ETernary (EInfix TGt (I "x") (num "1" 1)) (EStr (L "a")) (EStr (L "b"))));
    SExpr (EInfix TPeriod (I "o") (I "name"));
    SExpr (EFloat (L "3.5") 3.5%float);
    SReturn (I "x") ].

(* the oracle: one float literal *)
Definition pf0 (s : str) : option (option float) :=
  if str_eqb s (L "3.5") then Some (Some 3.5%float) else None.

Example demo_printable : printable demo = true.
Proof. vm_compute. reflexivity. Qed.

Example demo_floats : floats_known pf0 demo.
Proof. cbv [floats_known all_p demo flk_s flk I num]. repeat split. Qed.

Example demo_depth : prog_depth demo = 10.
Proof. vm_compute. reflexivity. Qed.

(* by the theorem ... *)
Example demo_roundtrip : parse_tokens pf0 max_depth (show_program demo ++ [eof]) = ParseOk demo.
Proof. apply parse_show_program_max; [exact demo_printable|exact demo_floats|vm_compute; reflexivity]. Qed.

(* ... and by running the parser; the depth function is exact here: 10 passes, 9 does not *)
Example demo_roundtrip_run : parse_tokens pf0 10 (show_program demo ++ [eof]) = ParseOk demo.
Proof. vm_compute. reflexivity. Qed.
Example demo_depth_tight : parse_tokens pf0 9 (show_program demo ++ [eof]) = ParseReject.
Proof. vm_compute. reflexivity. Qed.

(* ---- shapes outside `printable`, and why ---- *)
Definition toks (l : list tokty) : list token := map tk l.
Definition id (s : string) := mkTok TIdent (L s).
Definition run (ts : list token) := parse_tokens (fun _ => None) 0 (ts ++ [eof]).

(* compound assignment binds like + - (resp. * /), not like `=`:  x += a + b  is  (x += a) + b *)
Example compound_assign_binds_tight :
  run [id "x"; tk TPlusEq; id "a"; tk TPlus; id "b"; tk TSemicolon] =
  ParseOk [SExpr (EInfix TPlus (EInfix TPlusEq (I "x") (I "a")) (I "b"))].
Proof. vm_compute. reflexivity. Qed.

(* the in-function flag is cleared at the end of EVERY definition: `local` after a nested
   definition is rejected although it is inside a function body *)
Example local_after_nested_function :
  run ([tk TFunction; id "f"; tk TLParen; tk TRParen; tk TLBrace;
        tk TFunction; id "g"; tk TLParen; tk TRParen; tk TLBrace; tk TRBrace; tk TSemicolon;
        tk TLocal; id "x"; tk TSemicolon; tk TRBrace; tk TSemicolon]) = ParseReject
  /\ printable [SExpr (EFunction (L "f") [] [SExpr (EFunction (L "g") [] []); SExpr (ELocal (L "x"))])] = false
  /\ printable [SExpr (EFunction (L "f") [] [SExpr (ELocal (L "x")); SExpr (EFunction (L "g") [] [])])] = true.
Proof. vm_compute. repeat split. Qed.

(* a ternary anywhere inside an arm is rejected, parentheses or not *)
Example nested_ternary :
  run [id "a"; tk TQuestion; tk TLParen; id "b"; tk TQuestion; id "c"; tk TColon; id "d"; tk TRParen;
       tk TColon; id "e"; tk TSemicolon] = ParseReject
  /\ printable [SExpr (ETernary (I "a") (ETernary (I "b") (I "c") (I "d")) (I "e"))] = false
  /\ printable [SExpr (ETernary (ETernary (I "b") (I "c") (I "d")) (I "a") (I "e"))] = true.
Proof. vm_compute. repeat split. Qed.

(* other spellings of printable trees *)
Example for_is_while :
  run [tk TFor; tk TLParen; id "c"; tk TRParen; tk TLBrace; tk TRBrace; tk TSemicolon] =
  ParseOk [SExpr (EWhile (I "c") [])].
Proof. vm_compute. reflexivity. Qed.
(* the printer writes `else if`; the spelling `else { if ... ; }` gives the same tree *)
Example else_if_printed :
  show_program [SExpr (EIf (I "a") [] (Some [SExpr (EIf (I "b") [] None)]))] =
  [tk TIf; tk TLParen; id "a"; tk TRParen; tk TLBrace; tk TRBrace; tk TElse;
   tk TIf; tk TLParen; id "b"; tk TRParen; tk TLBrace; tk TRBrace; tk TSemicolon].
Proof. vm_compute. reflexivity. Qed.
Example else_block_same_tree :
  run [tk TIf; tk TLParen; id "a"; tk TRParen; tk TLBrace; tk TRBrace; tk TElse; tk TLBrace;
       tk TIf; tk TLParen; id "b"; tk TRParen; tk TLBrace; tk TRBrace; tk TSemicolon; tk TRBrace; tk TSemicolon] =
  ParseOk [SExpr (EIf (I "a") [] (Some [SExpr (EIf (I "b") [] None)]))].
Proof. vm_compute. reflexivity. Qed.

(* ++ / -- remember the text of whatever token precedes them; only the form `name ++ ;` is printable *)
Example postfix_remembers_any_token :
  run [tk TLParen; tk TPlusPlus; tk TRParen; tk TSemicolon] = ParseOk [SExpr (EPostfix (L "(") TPlusPlus)].
Proof. vm_compute. reflexivity. Qed.

(* `case default` is `default` *)
Example case_default :
  run [tk TSwitch; tk TLParen; id "x"; tk TRParen; tk TLBrace; tk TCase; tk TDefault; tk TLBrace; tk TRBrace;
       tk TRBrace; tk TSemicolon] = ParseOk [SExpr (ESwitch (I "x") [(true, [], [])])].
Proof. vm_compute. reflexivity. Qed.

(* `a.1` and `a."b"` also parse (the operand is kept as written; the compiler takes its printed form as
   the member name); only names are printable *)
Example period_other_operands :
  run [id "a"; tk TPeriod; mkTok TInt (L "1"); tk TSemicolon] = ParseOk [SExpr (EInfix TPeriod (I "a") (num "1" 1))]
  /\ printable [SExpr (EInfix TPeriod (I "a") (num "1" 1))] = false
  /\ run [id "a"; tk TPeriod; mkTok TString (L "b"); tk TSemicolon] = ParseOk [SExpr (EInfix TPeriod (I "a") (EStr (L "b")))]
  /\ printable [SExpr (EInfix TPeriod (I "a") (EStr (L "b")))] = false.
Proof. vm_compute. repeat split; reflexivity. Qed.

(* the right operand of `.` comes out as it was written: a name stays a name (before the repair of D39 the
   parser replaced it by a string literal, and this example was stated with `EStr (L "name")`) *)
Example period_makes_string :
  run [id "o"; tk TPeriod; id "name"; tk TSemicolon] = ParseOk [SExpr (EInfix TPeriod (I "o") (I "name"))].
Proof. vm_compute. reflexivity. Qed.
End Demo.

(* ------------------------------------------------------------------ *)
(* Stage 3: minimal parentheses for index / call / `.` / prefix        *)
(* ------------------------------------------------------------------ *)

Section XInd.
Variable P : xtree -> Prop.
Hypotheses
  (XHId : forall n, P (XId n)) (XHInt : forall t v, P (XInt t v))
  (XHBin : forall op l r, P l -> P r -> P (XBin op l r))
  (XHPre : forall op r, P r -> P (XPre op r))
  (XHIdx : forall l i, P l -> P i -> P (XIdx l i))
  (XHDot : forall l n, P l -> P (XDot l n))
  (XHCall : forall f args, P f -> Forall P args -> P (XCall f args)).
Fixpoint xtree_ind2 (t : xtree) : P t :=
  match t with
  | XId n => XHId n
  | XInt s v => XHInt s v
  | XBin op l r => XHBin op l r (xtree_ind2 l) (xtree_ind2 r)
  | XPre op r => XHPre op r (xtree_ind2 r)
  | XIdx l i => XHIdx l i (xtree_ind2 l) (xtree_ind2 i)
  | XDot l n => XHDot l n (xtree_ind2 l)
  | XCall f args => XHCall f args (xtree_ind2 f)
      ((fix go (l : list xtree) : Forall P l :=
          match l with [] => Forall_nil _ | x :: l' => Forall_cons _ (xtree_ind2 x) (go l') end) args)
  end.
End XInd.

Section Min.
Variable pf : str -> option (option float).

Definition keep (s s1 : pst) : Prop := tern s1 = tern s /\ infn s1 = infn s.

(* the loop has consumed toks and built e (cf. GOK of ParserProofs): p < lo is what the
   tree needs from its context, hi what it needs from the token that follows *)
Definition XG (toks : list token) (e : expr) (lo hi : N) : Prop :=
  forall p rest f s, p < lo -> stop hi rest -> pos (toks ++ rest) s -> (2 * List.length toks <= S f)%nat ->
    exists k s1, (2 * k + 1 <= List.length toks)%nat /\ before rest s1 /\ keep s s1 /\
      body pf f p s = infix_loop pf 0 (f - k) p e s1.

Definition XE (toks : list token) (e : expr) (lo : N) : Prop :=
  forall p rest f s, p < lo -> stop p rest -> pos (toks ++ rest) s -> (2 * List.length toks <= f)%nat ->
    exists s', parse_expression pf 0 f p s = POk e s' /\ before rest s' /\ keep s s' /\ depth s' = depth s.

Lemma fits0 : forall d n, fits 0 d n.
Proof. intros. left. reflexivity. Qed.

Lemma xg_to_xe : forall toks e lo hi, begins toks -> XG toks e lo hi -> lo <= hi + 1 -> XE toks e lo.
Proof.
  intros toks e lo hi Hb HG Hlh p rest f s Hp Hstop Hpos Hf.
  pose proof (begins_len _ Hb) as Hlen. destruct f as [|f0]; [lia|].
  pose proof (begins_cur _ _ _ Hb Hpos) as Hsp. destruct (sprefix_facts _ Hsp) as (Hpr & Hpo & _).
  destruct (HG p rest f0 (set_depth s (depth s + 1)) Hp) as (k & s1 & Hk & Hbef & [Ht Hi] & Hbody).
  - apply (stop_mono p hi); [lia|exact Hstop].
  - apply pos_set_depth; exact Hpos.
  - lia.
  - rewrite (pe_from_body _ _ _ _ Hpo Hpr), Hbody.
    assert (Hfk : (f0 - k = S (f0 - k - 1))%nat) by lia. rewrite Hfk.
    rewrite (loop_stop _ _ _ _ _ _ Hbef Hstop). cbn [restore].
    eexists; split; [reflexivity|]. autorewrite with st in *.
    split; [apply before_set_depth; exact Hbef|]. split; [split; assumption|reflexivity].
Qed.

Lemma xe_paren : forall toks e lo, XE toks e lo -> 1 < lo ->
  forall lo' hi', XG (tk TLParen :: toks ++ [tk TRParen]) e lo' hi'.
Proof.
  intros toks e lo HE Hlo lo' hi' p rest f s _ _ Hpos Hf.
  cbn [app] in Hpos. rewrite <- app_assoc in Hpos. cbn [app] in Hpos.
  apply pos_cons in Hpos. destruct Hpos as [Hcur Hbef]. len. destruct f as [|f1]; [lia|].
  destruct (HE LOWEST (tk TRParen :: rest) f1 (next s)) as (s' & Hpe & Hbef' & [Ht Hi] & Hd).
  - exact Hlo.
  - apply stop_prec. apply N.le_refl.
  - apply before_next. exact Hbef.
  - lia.
  - exists 0%nat, (next s'). split; [len; lia|].
    destruct (before_step _ _ _ Hbef') as [_ Hb2]. split; [exact Hb2|].
    split; [split; autorewrite with st in *; assumption|].
    unfold body. rewrite parse_prefix_S, Hcur. cbn [tty tk tlit]. rewrite Hpe. cbn [pbind].
    rewrite (expect_ok s' _ _ TRParen Hbef' eq_refl). cbn [pbind]. rewrite Nat.sub_0_r. reflexivity.
Qed.

Lemma xg_ident : forall n lo hi, XG [mkTok TIdent n] (EIdent n) lo hi.
Proof.
  intros n lo hi p rest f s _ _ Hpos Hf. cbn [app] in Hpos. apply pos_cons in Hpos.
  destruct Hpos as [Hcur Hbef]. len. destruct f as [|f]; [lia|].
  exists 0%nat, s. split; [len; lia|]. split; [exact Hbef|]. split; [split; reflexivity|].
  unfold body. rewrite parse_prefix_S, Hcur. cbn [tty tlit pbind]. rewrite Nat.sub_0_r. reflexivity.
Qed.

Lemma xg_int : forall t v lo hi, parse_int t = Some v -> XG [mkTok TInt t] (EInt t v) lo hi.
Proof.
  intros t v lo hi Hv p rest f s _ _ Hpos Hf. cbn [app] in Hpos. apply pos_cons in Hpos.
  destruct Hpos as [Hcur Hbef]. len. destruct f as [|f]; [lia|].
  exists 0%nat, s. split; [len; lia|]. split; [exact Hbef|]. split; [split; reflexivity|].
  unfold body. rewrite parse_prefix_S, Hcur. cbn [tty tlit]. rewrite Hv. cbn [pbind].
  rewrite Nat.sub_0_r. reflexivity.
Qed.

Lemma xg_bin : forall op q Lt el ll hl Rt er lr, doc_prec op = Some q ->
  XG Lt el ll hl -> q <= hl -> q <= ll -> XE Rt er lr -> q < lr -> (1 <= List.length Rt)%nat ->
  XG (Lt ++ tk op :: Rt) (EInfix op el er) q q.
Proof.
  intros op q Lt el ll hl Rt er lr Hd HL Hhl Hll HR Hlr HlenR p rest f s Hp Hstop Hpos Hf.
  destruct (doc_prec_facts op q Hd) as (Hprec & Hplain & Hinf & Hnp & Hns & _).
  rewrite <- app_assoc in Hpos. cbn [app] in Hpos. len.
  destruct (HL p (tk op :: Rt ++ rest) f s) as (kl & sl & Hkl & Hbl & [Htl Hil] & Hbody).
  - lia.
  - apply stop_prec. rewrite tty_tk, Hprec. exact Hhl.
  - exact Hpos.
  - lia.
  - assert (Hfk : (f - kl = S (S (f - kl - 2)))%nat) by lia. rewrite Hfk in Hbody.
    rewrite (loop_enter pf 0 _ p el sl (tk op) (Rt ++ rest) 1 Hbl) in Hbody;
      [|rewrite tty_tk; apply tokty_beq_neq; exact Hns|rewrite tty_tk, Hprec; exact Hp
       |rewrite tty_tk; exact Hinf|apply fits0|apply N.le_refl].
    destruct (before_step _ _ _ Hbl) as [Hc Hb].
    set (sB := set_depth (next sl) (depth sl + 1)) in *.
    assert (HcB : curT sB = tk op) by exact Hc.
    rewrite parse_infix_plain in Hbody; rewrite HcB, ?tty_tk in *; try assumption.
    destruct (HR (prec_of op) rest (f - kl - 2)%nat (next sB)) as (sC & EC & HbC & [HtC HiC] & HdC).
    + rewrite Hprec. exact Hlr.
    + rewrite Hprec. exact Hstop.
    + apply before_next. exact Hb.
    + lia.
    + rewrite EC in Hbody. cbn [pbind] in Hbody.
      exists (S kl), sC. split; [len; lia|]. split; [exact HbC|].
      split; [split; subst sB; autorewrite with st in *; congruence|].
      rewrite Hbody. f_equal. lia.
Qed.

Lemma xg_pre : forall op Rt er lr, prefix_op op = true -> XE Rt er lr -> 12 < lr ->
  forall lo, XG (tk op :: Rt) (EPrefix op er) lo 12.
Proof.
  intros op Rt er lr Hop HR Hlr lo p rest f s _ Hstop Hpos Hf.
  cbn [app] in Hpos. apply pos_cons in Hpos. destruct Hpos as [Hcur Hbef]. len.
  destruct f as [|f1]; [lia|].
  destruct (HR PREFIX rest f1 (next s)) as (sC & EC & HbC & [HtC HiC] & HdC).
  - exact Hlr.
  - exact Hstop.
  - apply before_next. exact Hbef.
  - lia.
  - exists 0%nat, sC. split; [len; lia|]. split; [exact HbC|].
    split; [split; autorewrite with st in *; assumption|].
    unfold body. rewrite parse_prefix_S, Hcur. cbn [tty tk tlit].
    rewrite Nat.sub_0_r. destruct op; try discriminate Hop; rewrite EC; reflexivity.
Qed.

(* the first pass of the loop over `[`, `(` or `.` after the left operand *)
Lemma xg_led : forall Lt el ll hl t toks p rest f s,
  XG Lt el ll hl -> prec_of (tty t) <= hl -> p < ll -> p < prec_of (tty t) ->
  tokty_beq (tty t) TSemicolon = false -> has_infix (tty t) = true ->
  pos (Lt ++ t :: toks ++ rest) s -> (2 * List.length Lt + 4 <= S f)%nat ->
  exists kl sB f2, (2 * kl + 1 <= List.length Lt)%nat /\ (f - kl = S (S f2))%nat /\
    curT sB = t /\ before (toks ++ rest) sB /\ keep s sB /\
    body pf f p s = pbind (parse_infix pf 0 (S f2) el sB) (fun lhs2 s3 => infix_loop pf 0 (S f2) p lhs2 s3).
Proof.
  intros Lt el ll hl t toks p rest f s HL Hhl Hpl Hpt Hns Hinf Hpos Hf.
  destruct (HL p (t :: toks ++ rest) f s) as (kl & sl & Hkl & Hbl & [Htl Hil] & Hbody).
  - exact Hpl.
  - apply stop_prec. exact Hhl.
  - exact Hpos.
  - lia.
  - exists kl, (set_depth (next sl) (depth sl + 1)), (f - kl - 2)%nat.
    split; [exact Hkl|]. split; [lia|].
    destruct (before_step _ _ _ Hbl) as [Hc Hb].
    split; [exact Hc|]. split; [exact Hb|].
    split; [split; autorewrite with st; assumption|].
    assert (Hfk : (f - kl = S (S (f - kl - 2)))%nat) by lia. rewrite Hfk in Hbody.
    rewrite (loop_enter pf 0 _ p el sl t (toks ++ rest) 1 Hbl Hns Hpt Hinf (fits0 _ _) (N.le_refl _)) in Hbody.
    exact Hbody.
Qed.

Lemma xg_idx : forall Lt el ll hl It ei li, XG Lt el ll hl -> 14 <= hl -> 13 <= ll ->
  XE It ei li -> 1 < li -> (1 <= List.length It)%nat ->
  forall hi, XG (Lt ++ tk TLSquare :: It ++ [tk TRSquare]) (EIndex el ei) 13 hi.
Proof.
  intros Lt el ll hl It ei li HL Hhl Hll HI Hli HlenI hi p rest f s Hp _ Hpos Hf.
  rewrite <- app_assoc in Hpos. cbn [app] in Hpos. len.
  destruct (xg_led Lt el ll hl (tk TLSquare) (It ++ [tk TRSquare]) p rest f s HL) as
    (kl & sB & f2 & Hkl & Hfk & HcB & HbB & [HtB HiB] & Hbody); try reflexivity.
  - exact Hhl.
  - lia.
  - cbn [tty tk prec_of]. unfold P_INDEX. lia.
  - exact Hpos.
  - lia.
  - rewrite <- app_assoc in HbB. cbn [app] in HbB.
    destruct (HI LOWEST (tk TRSquare :: rest) f2 (next sB)) as (sC & EC & HbC & [HtC HiC] & HdC).
    + exact Hli.
    + apply stop_prec. apply N.le_refl.
    + apply before_next. exact HbB.
    + lia.
    + rewrite parse_infix_S, HcB in Hbody. cbn [tty tk infix_plain] in Hbody.
      rewrite EC in Hbody. cbn [pbind] in Hbody.
      rewrite (expect_ok sC _ _ TRSquare HbC eq_refl) in Hbody. cbn [pbind] in Hbody.
      destruct (before_step _ _ _ HbC) as [_ HbD].
      exists (S kl), (next sC). split; [len; lia|]. split; [exact HbD|].
      split; [split; autorewrite with st in *; congruence|].
      rewrite Hbody. f_equal. lia.
Qed.

Lemma stop_14 : forall rest, stop 14 rest.
Proof. intros rest. unfold stop. destruct (tty (hd eof_tok rest)); reflexivity. Qed.

Lemma xg_dot : forall Lt el ll hl name, XG Lt el ll hl -> 14 <= hl -> 13 <= ll ->
  forall hi, XG (Lt ++ [tk TPeriod; mkTok TIdent name]) (EInfix TPeriod el (EIdent name)) 13 hi.
Proof.
  intros Lt el ll hl name HL Hhl Hll hi p rest f s Hp _ Hpos Hf.
  rewrite <- app_assoc in Hpos. cbn [app] in Hpos. len.
  destruct (xg_led Lt el ll hl (tk TPeriod) [mkTok TIdent name] p rest f s HL) as
    (kl & sB & f2 & Hkl & Hfk & HcB & HbB & [HtB HiB] & Hbody); try reflexivity.
  - exact Hhl.
  - lia.
  - cbn [tty tk prec_of]. unfold P_INDEX. lia.
  - exact Hpos.
  - lia.
  - cbn [app] in HbB.
    assert (HEid : XE [mkTok TIdent name] (EIdent name) 100).
    { apply (xg_to_xe _ _ 100 100); [apply begins_cons; reflexivity|apply xg_ident|lia]. }
    destruct (HEid P_INDEX rest f2 (next sB)) as (sC & EC & HbC & [HtC HiC] & HdC).
    + reflexivity.
    + apply stop_14.
    + apply before_next. exact HbB.
    + cbn [List.length]. lia.
    + rewrite parse_infix_S, HcB in Hbody. cbn [tty tk infix_plain prec_of] in Hbody.
      rewrite EC in Hbody. cbn [pbind] in Hbody.
      exists (S kl), sC. split; [len; lia|]. split; [exact HbC|].
      split; [split; autorewrite with st in *; congruence|].
      rewrite Hbody. f_equal. lia.
Qed.

Lemma closes_stop1 : forall rest, closes rest -> stop LOWEST rest.
Proof. intros rest H. apply closes_stop; [exact H|apply N.le_refl]. Qed.

Lemma xe_inner : forall toks e lo, begins toks -> XE toks e lo -> 1 < lo ->
  forall tn fn dn, InnerOK pf 0 toks e tn fn dn false.
Proof.
  intros toks e lo Hb HE Hlo tn fn dn. split; [exact Hb|].
  intros rest f s Hcl Hpos Htn Hfn _ Hf.
  destruct (HE LOWEST rest f s Hlo (closes_stop1 _ Hcl) Hpos Hf) as (s' & E & Hb' & [Ht Hi] & Hd).
  exists s'. split; [exact E|]. unfold post. rewrite andb_true_r. repeat split; try assumption; apply Hb'.
Qed.

Lemma xg_call : forall Lt el ll hl Xs xs, XG Lt el ll hl -> 13 <= hl -> 13 <= ll ->
  (forall tn fn, exists dn, ElemsOK pf 0 tn fn Xs xs dn false) ->
  forall hi, XG (Lt ++ tk TLParen :: commas Xs ++ [tk TRParen]) (ECall el xs) 13 hi.
Proof.
  intros Lt el ll hl Xs xs HL Hhl Hll HX hi p rest f s Hp _ Hpos Hf.
  rewrite <- app_assoc in Hpos. cbn [app] in Hpos. len.
  destruct (xg_led Lt el ll hl (tk TLParen) (commas Xs ++ [tk TRParen]) p rest f s HL) as
    (kl & sB & f2 & Hkl & Hfk & HcB & HbB & [HtB HiB] & Hbody); try reflexivity.
  - exact Hhl.
  - lia.
  - exact Hp.
  - exact Hpos.
  - lia.
  - rewrite <- app_assoc in HbB. cbn [app] in HbB.
    destruct (HX (tern sB) (infn sB)) as (dn & HE).
    destruct (expr_list_ok pf 0 TRParen (or_introl eq_refl) _ _ Xs xs dn false HE rest f2 sB HbB eq_refl eq_refl
                (fits0 _ _)) as (sC & EC & HbC & HtC & HdC & HiC).
    + lia.
    + rewrite parse_infix_S, HcB in Hbody. cbn [tty tk infix_plain] in Hbody.
      rewrite EC in Hbody. cbn [pbind] in Hbody. rewrite andb_true_r in HiC.
      exists (S kl), sC. split; [len; lia|]. split; [exact HbC|].
      split; [split; congruence|].
      rewrite Hbody. f_equal. lia.
Qed.

(* ---- the trees ---- *)

Lemma begins_par : forall b toks, begins toks -> begins (par b toks).
Proof. intros [|] toks H; [apply begins_cons; reflexivity|exact H]. Qed.

Lemma par_len : forall b toks, (List.length toks <= List.length (par b toks))%nat.
Proof. intros [|] toks; unfold par; len; lia. Qed.

Lemma xlo_min : forall t, N.min (xhi t) 13 <= xlo t.
Proof. intros t. destruct t; cbn [xhi xlo]; try (destruct (doc_prec op)); lia. Qed.

Lemma xlo_hi : forall t, xlo t <= xhi t + 1.
Proof. intros t. destruct t; cbn [xhi xlo]; try (destruct (doc_prec op)); lia. Qed.

Lemma xwf_bin : forall op l r, xwf (XBin op l r) = true ->
  exists q, doc_prec op = Some q /\ 3 <= q <= 11 /\ xwf l = true /\ xwf r = true.
Proof.
  intros op l r H. cbn [xwf] in H. apply andb_true_iff in H. destruct H as [H Hr].
  apply andb_true_iff in H. destruct H as [H Hl].
  destruct (doc_prec op) as [q|] eqn:E; [|discriminate H]. exists q.
  destruct (doc_prec_facts op q E) as (_ & _ & _ & _ & _ & H3 & H11). repeat split; assumption.
Qed.

Lemma xlo_wf : forall t, xwf t = true -> 3 <= xlo t /\ 3 <= xhi t.
Proof.
  intros t H. destruct t; cbn [xlo xhi]; try lia.
  destruct (xwf_bin _ _ _ H) as (q & E & Hq & _). rewrite E. lia.
Qed.

Definition XP (t : xtree) : Prop := xwf t = true ->
  begins (show_x t) /\ XG (show_x t) (x_expr t) (xlo t) (xhi t).

Lemma xp_xe : forall t, XP t -> xwf t = true -> XE (show_x t) (x_expr t) (xlo t).
Proof. intros t H Hw. destruct (H Hw) as [Hb HG]. apply (xg_to_xe _ _ _ _ Hb HG (xlo_hi t)). Qed.

(* a child on the left of an operator token of strength q *)
Lemma xp_left : forall t q, XP t -> xwf t = true -> q <= 14 ->
  begins (par (xhi t <? q) (show_x t)) /\
  exists ll hl, XG (par (xhi t <? q) (show_x t)) (x_expr t) ll hl /\ q <= hl /\ N.min q 13 <= ll.
Proof.
  intros t q H Hw Hq. destruct (H Hw) as [Hb HG]. split; [apply begins_par; exact Hb|].
  destruct (xhi t <? q) eqn:E.
  - exists 100, 100. split; [|lia]. unfold par.
    apply (xe_paren _ _ (xlo t) (xp_xe t H Hw)). pose proof (xlo_wf t Hw). lia.
  - apply N.ltb_ge in E. exists (xlo t), (xhi t). split; [exact HG|]. split; [exact E|].
    pose proof (xlo_min t). lia.
Qed.

(* a child on the right of an operator of strength q, or under a prefix operator (q = 12) *)
Lemma xp_right : forall t q, XP t -> xwf t = true ->
  begins (par (xlo t <=? q) (show_x t)) /\
  exists lr, XE (par (xlo t <=? q) (show_x t)) (x_expr t) lr /\ q < lr.
Proof.
  intros t q H Hw. destruct (H Hw) as [Hb HG]. split; [apply begins_par; exact Hb|].
  destruct (xlo t <=? q) eqn:E.
  - exists (q + 1). split; [|lia]. unfold par.
    apply (xg_to_xe _ _ _ (q + 1)); [apply begins_cons; reflexivity| |lia].
    apply (xe_paren _ _ (xlo t) (xp_xe t H Hw)). pose proof (xlo_wf t Hw). lia.
  - apply N.leb_gt in E. exists (xlo t). split; [apply xp_xe; assumption|exact E].
Qed.

Lemma xp_id : forall n, XP (XId n).
Proof. intros n _. split; [apply begins_cons; reflexivity|apply xg_ident]. Qed.
Lemma xp_int : forall t v, XP (XInt t v).
Proof.
  intros t v H. split; [apply begins_cons; reflexivity|]. apply xg_int. apply int_ok_parse. exact H.
Qed.

Lemma xp_bin : forall op l r, XP l -> XP r -> XP (XBin op l r).
Proof.
  intros op l r IHl IHr H. destruct (xwf_bin _ _ _ H) as (q & Hd & Hq & Hl & Hr).
  cbn [show_x x_expr xlo xhi]. rewrite Hd.
  destruct (xp_left l q IHl Hl) as (HbL & ll & hl & HGL & Hhl & Hll); [lia|].
  destruct (xp_right r q IHr Hr) as (HbR & lr & HER & Hlr).
  split; [apply begins_app; exact HbL|].
  apply (xg_bin op q _ _ ll hl _ _ lr Hd HGL Hhl); [lia|exact HER|exact Hlr|apply begins_len; exact HbR].
Qed.

Lemma xp_pre : forall op r, XP r -> XP (XPre op r).
Proof.
  intros op r IHr H. cbn [xwf] in H. apply andb_true_iff in H. destruct H as [Hop Hr].
  cbn [show_x x_expr xlo xhi].
  destruct (xp_right r 12 IHr Hr) as (HbR & lr & HER & Hlr).
  split; [apply begins_cons; destruct op; try discriminate Hop; reflexivity|].
  apply (xg_pre op _ _ lr Hop HER Hlr).
Qed.

Lemma xp_idx : forall l i, XP l -> XP i -> XP (XIdx l i).
Proof.
  intros l i IHl IHi H. cbn [xwf] in H. apply andb_true_iff in H. destruct H as [Hl Hi].
  cbn [show_x x_expr xlo xhi].
  destruct (xp_left l 14 IHl Hl) as (HbL & ll & hl & HGL & Hhl & Hll); [lia|].
  destruct (IHi Hi) as [HbI _]. pose proof (xlo_wf i Hi) as [Hlo _].
  split; [apply begins_app; exact HbL|].
  apply (xg_idx _ _ ll hl _ _ (xlo i) HGL Hhl); [lia|apply xp_xe; assumption|lia|apply begins_len; exact HbI].
Qed.

Lemma xp_dot : forall l n, XP l -> XP (XDot l n).
Proof.
  intros l n IHl H. cbn [xwf] in H. apply andb_true_iff in H. destruct H as [Hl Hn].
  cbn [show_x x_expr xlo xhi].
  destruct (xp_left l 14 IHl Hl) as (HbL & ll & hl & HGL & Hhl & Hll); [lia|].
  split; [apply begins_app; exact HbL|].
  apply (xg_dot _ _ ll hl n HGL Hhl). lia.
Qed.

Lemma xelems : forall args, Forall XP args -> forallb xwf args = true ->
  forall tn fn, exists dn, ElemsOK pf 0 tn fn (map show_x args) (map x_expr args) dn false.
Proof.
  intros args H. induction H as [|x args Hx Hargs IH]; intros Hw tn fn.
  - exists 0. constructor.
  - cbn [forallb] in Hw. apply andb_true_iff in Hw. destruct Hw as [Hwx Hwa].
    destruct (IH Hwa tn (fn && negb false)) as (dn & HE).
    destruct (Hx Hwx) as [Hb _]. pose proof (xlo_wf x Hwx) as [Hlo _].
    exists (N.max 0 dn). cbn [map].
    apply (EO_cons pf 0 tn fn (show_x x) (x_expr x) 0 false _ _ dn false); [|exact HE].
    apply (xe_inner _ _ (xlo x) Hb (xp_xe x Hx Hwx)). lia.
Qed.

Lemma xp_call : forall f args, XP f -> Forall XP args -> XP (XCall f args).
Proof.
  intros f args IHf IHa H. cbn [xwf] in H. apply andb_true_iff in H. destruct H as [Hf Ha].
  cbn [show_x x_expr xlo xhi].
  destruct (xp_left f 13 IHf Hf) as (HbL & ll & hl & HGL & Hhl & Hll); [lia|].
  split; [apply begins_app; exact HbL|].
  apply (xg_call _ _ ll hl _ _ HGL Hhl); [lia|]. apply xelems; assumption.
Qed.

Lemma XP_all : forall t, XP t.
Proof.
  apply xtree_ind2; [apply xp_id|apply xp_int|apply xp_bin|apply xp_pre|apply xp_idx|apply xp_dot|apply xp_call].
Qed.

Theorem parse_show_min_ext : forall t : xtree, xwf t = true ->
  parse_tokens pf 0 (show_x t ++ [semi; eof]) = ParseOk [SExpr (x_expr t)].
Proof.
  intros t Hw. destruct (XP_all t Hw) as [Hb _]. pose proof (xlo_wf t Hw) as [Hlo _].
  assert (HI : InnerOK pf 0 (show_x t) (x_expr t) false false 0 false).
  { apply (xe_inner _ _ (xlo t) Hb (xp_xe t (XP_all t) Hw)). lia. }
  pose proof (stmt_expr pf 0 _ _ _ _ _ _ HI) as HS.
  assert (HSS : StmtsOK pf 0 false false ((show_x t ++ [tk TSemicolon]) ++ []) [SExpr (x_expr t)]
                  (N.max 0 0) (false || false)).
  { apply SO_cons; [destruct t; reflexivity|exact HS|constructor]. }
  rewrite app_nil_r in HSS.
  unfold parse_tokens.
  destruct (program_loop_ok pf 0 _ _ _ _ _ _ HSS [] (2 * List.length (show_x t ++ [semi; eof]) + 20)%nat
              (init_pst (show_x t ++ [semi; eof]))) as (s' & E).
  - replace (show_x t ++ [semi; eof]) with ((show_x t ++ [tk TSemicolon]) ++ [eof])
      by (rewrite <- app_assoc; reflexivity).
    apply pos_init.
  - reflexivity.
  - reflexivity.
  - apply fits0.
  - len. lia.
  - rewrite E. reflexivity.
Qed.
End Min.

Module DemoMin.
Definition a := XId (L "a"). Definition b := XId (L "b"). Definition c := XId (L "c").
Definition f := XId (L "f"). Definition n0 := XInt (L "0") 0.
Definition lits (ts : list token) : list str := map tlit ts.

(* -a[0] is -(a[0]);  (-a)[0] needs its parentheses *)
Example neg_index : lits (show_x (XPre TMinus (XIdx a n0))) = [L "-"; L "a"; L "["; L "0"; L "]"]
  /\ lits (show_x (XIdx (XPre TMinus a) n0)) = [L "("; L "-"; L "a"; L ")"; L "["; L "0"; L "]"].
Proof. vm_compute. split; reflexivity. Qed.
(* !f(a) && b *)
Example not_call_and : lits (show_x (XBin TAnd (XPre TBang (XCall f [a])) b)) =
  [L "!"; L "f"; L "("; L "a"; L ")"; L "&&"; L "b"].
Proof. vm_compute. reflexivity. Qed.
(* a.b[0](0, a + b)   and   -(a + b) * c   and   0 ** -a *)
Example chain : lits (show_x (XCall (XIdx (XDot a (L "b")) n0) [n0; XBin TPlus a b])) =
  [L "a"; L "."; L "b"; L "["; L "0"; L "]"; L "("; L "0"; L ","; L "a"; L "+"; L "b"; L ")"].
Proof. vm_compute. reflexivity. Qed.
Example neg_sum_times : lits (show_x (XBin TAsterisk (XPre TMinus (XBin TPlus a b)) c)) =
  [L "-"; L "("; L "a"; L "+"; L "b"; L ")"; L "*"; L "c"].
Proof. vm_compute. reflexivity. Qed.

Definition tests : list xtree :=
  [ XPre TMinus (XIdx a n0); XIdx (XPre TMinus a) n0; XBin TAnd (XPre TBang (XCall f [a])) b;
    XCall (XIdx (XDot a (L "b")) n0) [n0; XBin TPlus a b]; XPre TMinus (XPre TBang a);
    XBin TAsterisk (XPre TMinus (XBin TPlus a b)) c; XBin TPow n0 (XPre TMinus a);
    XCall (XBin TPlus a b) [c]; XBin TMod (XPre TSqrt a) (XIdx b (XBin TMinus c n0));
    XDot (XCall f []) (L "x"); XIdx (XBin TPlus a b) c; XPre TBang (XBin TEq a b);
    XBin TMinus (XBin TMinus a b) (XBin TMinus c a); XCall (XPre TMinus f) [];
    XDot (XPre TMinus a) (L "b"); XBin TPlus (XPre TMinus a) (XPre TMinus b) ].
Example tests_wf : forallb xwf tests = true.
Proof. vm_compute. reflexivity. Qed.
(* by running the parser (the theorem says the same for every well-formed tree) *)
Example tests_run : map (fun t => parse_tokens (fun _ => None) 0 (show_x t ++ [semi; eof])) tests =
                    map (fun t => ParseOk [SExpr (x_expr t)]) tests.
Proof. vm_compute. reflexivity. Qed.
Example tests_thm : Forall (fun t => parse_tokens (fun _ => None) 0 (show_x t ++ [semi; eof]) =
                                     ParseOk [SExpr (x_expr t)]) tests.
Proof.
  apply Forall_forall. intros t Hin. apply parse_show_min_ext.
  pose proof tests_wf as H. rewrite forallb_forall in H. apply H. exact Hin.
Qed.
End DemoMin.

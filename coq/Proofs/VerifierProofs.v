(* VerifierProofs.v - the byte-code verifier (C18): what acceptance means, and
   soundness of the verifier with respect to the machine model for call-free
   bodies.  Complete proofs only; no axioms. *)
From Coq Require Import Floats Lia.
From EF Require Import Model.Base Gen.Tables Model.Lexer Model.Ast Model.Parser Model.Code Model.Value Model.Env
                       Model.Reflect Model.Builtins Model.Compiler Model.Optimizer Model.VM Model.Verifier Spec.Moded.
From EF Require Proofs.PollProofs.
Open Scope N_scope.

(* ------------------------------------------------------------------ *)
(* lists *)

Lemma lenN_cons : forall {A} (x : A) l, lenN (x :: l) = N.succ (lenN l).
Proof. intros. unfold lenN. cbn [List.length]. lia. Qed.

Lemma lenN_app : forall {A} (l r : list A), lenN (l ++ r) = lenN l + lenN r.
Proof. intros. unfold lenN. rewrite app_length. lia. Qed.

Lemma nthN_app : forall {A} (pre l : list A) k, nthN (pre ++ l) (lenN pre + k) = nthN l k.
Proof.
  induction pre as [|a pre IH]; intros l k.
  - unfold lenN. cbn [List.length N.of_nat app]. rewrite N.add_0_l. reflexivity.
  - cbn [app nthN]. rewrite lenN_cons.
    destruct (N.eqb_spec (N.succ (lenN pre) + k) 0) as [E|E]; [lia|].
    replace (N.pred (N.succ (lenN pre) + k)) with (lenN pre + k) by lia.
    apply IH.
Qed.

Lemma nthN_lt : forall {A} (l : list A) i, i < lenN l -> exists v, nthN l i = Some v.
Proof.
  induction l as [|a l IH]; intros i H.
  - unfold lenN in H. cbn in H. lia.
  - cbn [nthN]. destruct (N.eqb_spec i 0) as [E|E]; [eexists; reflexivity|].
    apply IH. rewrite lenN_cons in H. lia.
Qed.

(* ------------------------------------------------------------------ *)
(* decoding *)

Fixpoint chain (code : list N) (ip : N) (is : list instr) : Prop :=
  match is with
  | [] => ip = lenN code
  | i :: rest =>
      iip i = ip /\ ip < lenN code /\ memN (iop i) known_ops = true /\
      byte_at code ip = Some (iop i) /\ ilen i = op_len (iop i) /\
      (if 1 <? ilen i then operand_at code ip else Some 0) = Some (iarg i) /\
      chain code (ip + ilen i) rest
  end.

Lemma known_lens : forallb (fun op => (op_len op =? 1) || (op_len op =? 3)) known_ops = true.
Proof. vm_compute. reflexivity. Qed.

Lemma known_len : forall op, memN op known_ops = true -> op_len op = 1 \/ op_len op = 3.
Proof.
  intros op H. pose proof known_lens as K. rewrite forallb_forall in K.
  assert (Hin : In op known_ops).
  { revert H. generalize known_ops. induction l as [|x l IH]; cbn [memN]; intro H; [discriminate|].
    apply orb_true_iff in H. destruct H as [H|H]; [left; apply N.eqb_eq in H; congruence|right; auto]. }
  apply K in Hin. apply orb_true_iff in Hin. destruct Hin as [E|E]; apply N.eqb_eq in E; auto.
Qed.

Lemma decode_chain : forall code fuel rest ip acc pre r is,
  code = pre ++ rest -> lenN pre = ip -> (List.length rest < fuel)%nat ->
  decode fuel rest ip acc = (r, is) ->
  r = VOk -> exists tl, is = rev acc ++ tl /\ chain code ip tl.
Proof.
  intros code. induction fuel as [|f IH]; intros rest ip acc pre r is Hc Hl Hf H Hr; [lia|].
  cbn [decode] in H. destruct rest as [|op rest1].
  - injection H as _ <-. exists []. rewrite app_nil_r. split; [reflexivity|].
    cbn [chain]. subst code ip. rewrite app_nil_r. reflexivity.
  - destruct (memN op known_ops) eqn:Hk; cbn [negb] in H; [|injection H as <- _; discriminate].
    assert (Hb : byte_at code ip = Some op).
    { unfold byte_at. subst code ip. rewrite <- (N.add_0_r (lenN pre)), nthN_app. reflexivity. }
    assert (Hlt : ip < lenN code).
    { subst code ip. rewrite lenN_app, lenN_cons. lia. }
    destruct (N.eqb_spec (op_len op) 3) as [E3|E3].
    + destruct rest1 as [|h [|l rest']]; try (injection H as <- _; discriminate).
      apply (IH _ _ _ (pre ++ [op; h; l])) in H; auto.
      * destruct H as (tl & -> & Hch). exists (mkI ip op (h * 256 + l) 3 :: tl). split.
        -- cbn [rev]. rewrite <- app_assoc. reflexivity.
        -- cbn [chain iip iop iarg ilen]. repeat split; auto.
           unfold operand_at. subst code ip.
           rewrite !nthN_app. reflexivity.
      * rewrite <- app_assoc. exact Hc.
      * rewrite lenN_app. subst ip. unfold lenN at 2. cbn. lia.
      * cbn [List.length] in Hf. lia.
    + cbn [skipn] in H.
      apply (IH _ _ _ (pre ++ [op])) in H; auto.
      * destruct H as (tl & -> & Hch). exists (mkI ip op 0 1 :: tl). split.
        -- cbn [rev]. rewrite <- app_assoc. reflexivity.
        -- cbn [chain iip iop iarg ilen]. destruct (known_len op Hk) as [E1|E1]; [|contradiction].
           repeat split; auto.
      * rewrite <- app_assoc. exact Hc.
      * rewrite lenN_app. subst ip. unfold lenN at 2. cbn. lia.
      * cbn [List.length] in Hf. lia.
Qed.

Lemma decode_ok_chain : forall code is,
  decode (S (List.length code)) code 0 [] = (VOk, is) -> chain code 0 is.
Proof.
  intros code is H.
  destruct (decode_chain code _ _ _ _ [] _ _ eq_refl eq_refl (Nat.lt_succ_diag_r _) H eq_refl) as (tl & -> & Hc).
  exact Hc.
Qed.

Lemma chain_split : forall code pre ip i rest,
  chain code ip (pre ++ i :: rest) -> chain code (iip i) (i :: rest).
Proof.
  intros code. induction pre as [|x pre IH]; intros ip i rest H.
  - cbn [app chain] in H. destruct H as (E & H). subst ip. cbn [chain]. split; [reflexivity|]. exact H.
  - cbn [app chain] in H. destruct H as (_ & _ & _ & _ & _ & _ & H). eapply IH. exact H.
Qed.

Lemma chain_known : forall code is ip, chain code ip is -> Forall (fun i => memN (iop i) known_ops = true) is.
Proof.
  intros code. induction is as [|i is IH]; intros ip H; constructor.
  - apply H.
  - destruct H as (_ & _ & _ & _ & _ & _ & H). eapply IH. exact H.
Qed.

(* ------------------------------------------------------------------ *)
(* the final check *)

Definition struct_ok (consts : list value) (all : list instr) (len : N) (i : instr) : Prop :=
  ((iop i = OpJump \/ iop i = OpJumpIfFalse) -> is_start all (iarg i) = true /\ iarg i < len) /\
  (iop i = OpConstant -> iarg i < lenN consts) /\
  ((iop i = OpLookup \/ iop i = OpInc \/ iop i = OpDec) -> exists s, nthN consts (iarg i) = Some (VStr s)).

Definition edge_ok (a : ann) (len : N) (e : N * N) : Prop :=
  match ann_get a (fst e) with Some b => b <= snd e | None => len <= fst e end.

Definition flow_ok (a : ann) (len : N) (i : instr) (next : option instr) : Prop :=
  forall d, ann_get a (iip i) = Some d ->
    pops i <= d /\ exists es, edges i next d = Some es /\ Forall (edge_ok a len) es.

Definition nexti (rest : list instr) : option instr := match rest with j :: _ => Some j | [] => None end.

Lemma check_cons : forall consts i rest all len a,
  check consts (i :: rest) all len a = VOk ->
  struct_ok consts all len i /\ flow_ok a len i (nexti rest) /\ check consts rest all len a = VOk.
Proof.
  intros consts i rest all len a H. cbn [check] in H.
  destruct (((iop i =? OpJump) || (iop i =? OpJumpIfFalse)) && negb (is_start all (iarg i) && (iarg i <? len))) eqn:C1;
    [discriminate|].
  destruct ((iop i =? OpConstant) && negb (iarg i <? lenN consts)) eqn:C2; [discriminate|].
  destruct (((iop i =? OpLookup) || (iop i =? OpInc) || (iop i =? OpDec)) &&
            negb (match nthN consts (iarg i) with Some (VStr _) => true | _ => false end)) eqn:C3.
  { destruct (nthN consts (iarg i)); discriminate. }
  assert (S : struct_ok consts all len i).
  { repeat split.
    - destruct H0 as [E|E]; rewrite E in C1; cbn in C1; apply negb_false_iff in C1;
        apply andb_true_iff in C1; apply C1.
    - destruct H0 as [E|E]; rewrite E in C1; cbn in C1; apply negb_false_iff in C1;
        apply andb_true_iff in C1; apply N.ltb_lt; apply C1.
    - intro E. rewrite E in C2. cbn in C2. apply negb_false_iff in C2. apply N.ltb_lt. exact C2.
    - intro E. assert (X : ((iop i =? OpLookup) || (iop i =? OpInc) || (iop i =? OpDec)) = true).
      { destruct E as [E|[E|E]]; rewrite E; reflexivity. }
      rewrite X in C3. cbn in C3. apply negb_false_iff in C3.
      destruct (nthN consts (iarg i)) as [[]|]; try discriminate. eexists; reflexivity. }
  split; [exact S|]. clear C1 C2 C3.
  destruct (ann_get a (iip i)) as [d|] eqn:Ha.
  - destruct (d <? pops i) eqn:Hp; [discriminate|]. apply N.ltb_ge in Hp.
    fold (nexti rest) in H.
    destruct (edges i (nexti rest) d) as [es|] eqn:He; [|discriminate].
    match type of H with (if ?c then _ else _) = _ => destruct c eqn:Hf; [|discriminate] end.
    split; [|exact H].
    intros d' Hd'. rewrite Ha in Hd'. injection Hd' as <-. split; [exact Hp|]. exists es. split; [exact He|].
    apply Forall_forall. intros e He'. rewrite forallb_forall in Hf. specialize (Hf e He').
    unfold edge_ok. destruct (ann_get a (fst e)); [apply N.leb_le|apply N.leb_le]; exact Hf.
  - split; [|exact H]. intros d' Hd'. rewrite Ha in Hd'. discriminate.
Qed.

Lemma check_spec : forall consts all len a is0,
  check consts is0 all len a = VOk ->
  forall pre i rest, is0 = pre ++ i :: rest ->
    struct_ok consts all len i /\ flow_ok a len i (nexti rest).
Proof.
  intros consts all len a. induction is0 as [|x is0 IH]; intros H pre i rest E.
  - destruct pre; discriminate.
  - apply check_cons in H. destruct H as (S & F & H).
    destruct pre as [|y pre]; cbn [app] in E; injection E as -> ->.
    + split; assumption.
    + eapply IH; [exact H|reflexivity].
Qed.

Lemma check_struct : forall consts all len a is0,
  check consts is0 all len a = VOk -> Forall (struct_ok consts all len) is0.
Proof.
  intros consts all len a. induction is0 as [|x is0 IH]; intros H; constructor.
  - apply check_cons in H. apply H.
  - apply check_cons in H. apply IH, H.
Qed.

(* ------------------------------------------------------------------ *)
(* verify_body *)

Lemma verify_body_inv : forall consts isf code,
  verify_body consts isf code = VOk ->
  exists is, decode (S (List.length code)) code 0 [] = (VOk, is) /\
    ((is = [] /\ isf = false) \/
     (is <> [] /\
      (isf = true -> exists i, last_instr is = Some i /\ (iop i = OpReturn \/ iop i = OpJump)) /\
      exists a, flow (S (S (4 * List.length is))) is [(0, 0)] = Some a /\
                check consts is is (lenN code) a = VOk)).
Proof.
  intros consts isf code H. unfold verify_body in H.
  destruct (decode (S (List.length code)) code 0 []) as [r is] eqn:D.
  destruct r as [|r]; [|discriminate]. exists is. split; [reflexivity|].
  destruct is as [|i0 is'].
  - left. destruct isf; [discriminate|]. split; reflexivity.
  - right. split; [discriminate|].
    set (is := i0 :: is') in *.
    destruct (isf && negb (match last_instr is with
                            | Some i => (iop i =? OpReturn) || (iop i =? OpJump)
                            | None => false end)) eqn:Hl; [discriminate|].
    split.
    + intros ->. cbn [andb] in Hl. apply negb_false_iff in Hl.
      destruct (last_instr is) as [i|]; [|discriminate]. exists i. split; [reflexivity|].
      apply orb_true_iff in Hl. destruct Hl as [E|E]; apply N.eqb_eq in E; auto.
    + destruct (flow (S (S (4 * List.length is))) is [(0, 0)]) as [a|]; [|discriminate].
      exists a. split; [reflexivity|exact H].
Qed.

Lemma verified_decodes : forall consts isf code,
  verify_body consts isf code = VOk -> exists is, decode (S (List.length code)) code 0 [] = (VOk, is).
Proof.
  intros consts isf code H. destruct (verify_body_inv _ _ _ H) as (is & D & _). exists is. exact D.
Qed.

Lemma verified_structure : forall consts isf code is,
  verify_body consts isf code = VOk -> decode (S (List.length code)) code 0 [] = (VOk, is) ->
  Forall (fun i =>
     memN (iop i) known_ops = true /\
     ((iop i = OpJump \/ iop i = OpJumpIfFalse) -> is_start is (iarg i) = true /\ iarg i < lenN code) /\
     (iop i = OpConstant -> iarg i < lenN consts) /\
     ((iop i = OpLookup \/ iop i = OpInc \/ iop i = OpDec) -> exists s, nthN consts (iarg i) = Some (VStr s))) is.
Proof.
  intros consts isf code is H D. destruct (verify_body_inv _ _ _ H) as (is' & D' & R).
  rewrite D in D'. injection D' as <-.
  destruct R as [[-> _]|(_ & _ & a & _ & C)]; [constructor|].
  pose proof (chain_known _ _ _ (decode_ok_chain _ _ D)) as K.
  pose proof (check_struct _ _ _ _ _ C) as S.
  rewrite Forall_forall in *. intros i Hi. split; [apply K, Hi|]. apply (S i Hi).
Qed.

Lemma function_bodies_end : forall consts code is,
  verify_body consts true code = VOk -> decode (S (List.length code)) code 0 [] = (VOk, is) ->
  exists i, last_instr is = Some i /\ (iop i = OpReturn \/ iop i = OpJump).
Proof.
  intros consts code is H D. destruct (verify_body_inv _ _ _ H) as (is' & D' & R).
  rewrite D in D'. injection D' as <-.
  destruct R as [[_ X]|(_ & L & _)]; [discriminate|]. apply L. reflexivity.
Qed.

(* ------------------------------------------------------------------ *)
(* D19: an accepted script whose code the verifier rejects *)

Definition valueless_ast : program :=
  [SExpr (EAssign (L "a") (EAssign (L "b") (EInt (L "3") 3)))].

Definition valueless_tokens : list token :=
  [mkTok TIdent (L "a"); mkTok TAssign (L "="); mkTok TIdent (L "b"); mkTok TAssign (L "=");
   mkTok TInt (L "3"); mkTok TSemicolon (L ";"); mkTok TEOF []].

Lemma valueless_refuted :
  exists (ts : list token) (p : program_code),
    parse_tokens (fun _ => None) 0 ts = ParseOk valueless_ast /\
    well_moded valueless_ast = false /\
    compile_program 100 valueless_ast = CompOk p /\
    verify_program p <> VOk.
Proof.
  exists valueless_tokens. eexists. split; [vm_compute; reflexivity|].
  split; [vm_compute; reflexivity|]. split; [vm_compute; reflexivity|].
  vm_compute. intro H. discriminate.
Qed.

(* ------------------------------------------------------------------ *)
(* non-vacuity: a representative well-moded program is accepted, compiled and optimised *)

Definition example_ast : program :=
  [SExpr (EAssign (L "x") (EInt (L "1") 1));
   SExpr (EIf (EInfix TGt (EIdent (L "x")) (EInt (L "0") 0))
              [SExpr (EAssign (L "y") (EInt (L "2") 2))]
              (Some [SExpr (EAssign (L "y") (EInt (L "3") 3))]));
   SExpr (EWhile (EInfix TLt (EIdent (L "x")) (EInt (L "5") 5))
              [SExpr (EAssign (L "x") (EInfix TPlus (EIdent (L "x")) (EInt (L "1") 1)))]);
   SExpr (EForeach (L "i") (L "v") (EArray [EInt (L "1") 1; EInt (L "2") 2; EInt (L "3") 3])
              [SExpr (EAssign (L "y") (EInfix TPlus (EIdent (L "y")) (EIdent (L "v"))))]);
   SExpr (ESwitch (EIdent (L "x"))
              [(false, [EInt (L "1") 1; EInt (L "2") 2], [SExpr (EAssign (L "y") (EInt (L "0") 0))]);
               (true, [], [SExpr (EAssign (L "y") (EInt (L "9") 9))])]);
   SExpr (EAssign (L "z") (ETernary (EInfix TGt (EIdent (L "x")) (EInt (L "3") 3)) (EInt (L "1") 1) (EInt (L "2") 2)));
   SReturn (EInfix TEq (EIdent (L "z")) (EInt (L "1") 1))].

Definition vok (r : vresult) : bool := match r with VOk => true | VBad _ => false end.

Definition example_verifies : bool :=
  well_moded example_ast &&
  match compile_program 200 example_ast with
  | CompOk p =>
      vok (verify_program p) &&
      match optimize_program p with
      | Some p' => vok (verify_program p')
      | None => false
      end
  | _ => false
  end.

Lemma example_verifies_true : example_verifies = true.
Proof. vm_compute. reflexivity. Qed.

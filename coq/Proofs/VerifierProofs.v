(* VerifierProofs.v - the byte-code verifier (C18): what acceptance means, and
   soundness of the verifier with respect to the machine model for call-free
   bodies.  Complete proofs only; no axioms. *)
From Coq Require Import Floats Lia.
From EF Require Import Model.Base Gen.Tables Model.Lexer Model.Ast Model.Parser Model.Code Model.Value Model.Env
                       Model.Reflect Model.Builtins Model.Compiler Model.Optimizer Model.VM Model.Verifier Spec.Moded.
From EF Require Proofs.PollProofs.
From EF Require Model.Api.
Open Scope N_scope.

(* ------------------------------------------------------------------ *)
(* lists *)

Lemma lenN_cons : forall {A} (x : A) l, lenN (x :: l) = N.succ (lenN l).
Proof. intros. unfold lenN. cbn [List.length]. lia. Qed.

Lemma lenN_app : forall {A} (l r : list A), lenN (l ++ r) = lenN l + lenN r.
Proof. intros. unfold lenN. rewrite app_length. lia. Qed.

Lemma nthN_app : forall {A} (pre l : list A) k, nthN (pre ++ l) (lenN pre + k) = nthN l k.
Proof.
  induction pre as [|a pre IH]; intros l k.
  - unfold lenN. cbn [List.length N.of_nat app]. rewrite N.add_0_l. reflexivity.
  - cbn [app nthN]. rewrite lenN_cons.
    destruct (N.eqb_spec (N.succ (lenN pre) + k) 0) as [E|E]; [lia|].
    replace (N.pred (N.succ (lenN pre) + k)) with (lenN pre + k) by lia.
    apply IH.
Qed.

Lemma nthN_lt : forall {A} (l : list A) i, i < lenN l -> exists v, nthN l i = Some v.
Proof.
  induction l as [|a l IH]; intros i H.
  - unfold lenN in H. cbn in H. lia.
  - cbn [nthN]. destruct (N.eqb_spec i 0) as [E|E]; [eexists; reflexivity|].
    apply IH. rewrite lenN_cons in H. lia.
Qed.

(* ------------------------------------------------------------------ *)
(* decoding *)

Fixpoint chain (code : list N) (ip : N) (is : list instr) : Prop :=
  match is with
  | [] => ip = lenN code
  | i :: rest =>
      iip i = ip /\ ip < lenN code /\ memN (iop i) known_ops = true /\
      byte_at code ip = Some (iop i) /\ ilen i = op_len (iop i) /\
      (if 1 <? ilen i then operand_at code ip else Some 0) = Some (iarg i) /\
      chain code (ip + ilen i) rest
  end.

Lemma known_lens : forallb (fun op => (op_len op =? 1) || (op_len op =? 3)) known_ops = true.
Proof. vm_compute. reflexivity. Qed.

Lemma known_len : forall op, memN op known_ops = true -> op_len op = 1 \/ op_len op = 3.
Proof.
  intros op H. pose proof known_lens as K. rewrite forallb_forall in K.
  assert (Hin : In op known_ops).
  { revert H. generalize known_ops. induction l as [|x l IH]; cbn [memN]; intro H; [discriminate|].
    apply orb_true_iff in H. destruct H as [H|H]; [left; apply N.eqb_eq in H; congruence|right; auto]. }
  apply K in Hin. apply orb_true_iff in Hin. destruct Hin as [E|E]; apply N.eqb_eq in E; auto.
Qed.

Lemma decode_chain : forall code fuel rest ip acc pre r is,
  code = pre ++ rest -> lenN pre = ip -> (List.length rest < fuel)%nat ->
  decode fuel rest ip acc = (r, is) ->
  r = VOk -> exists tl, is = rev acc ++ tl /\ chain code ip tl.
Proof.
  intros code. induction fuel as [|f IH]; intros rest ip acc pre r is Hc Hl Hf H Hr; [lia|].
  cbn [decode] in H. destruct rest as [|op rest1].
  - injection H as _ <-. exists []. rewrite app_nil_r. split; [reflexivity|].
    cbn [chain]. subst code ip. rewrite app_nil_r. reflexivity.
  - destruct (memN op known_ops) eqn:Hk; cbn [negb] in H; [|injection H as <- _; discriminate].
    assert (Hb : byte_at code ip = Some op).
    { unfold byte_at. subst code ip. rewrite <- (N.add_0_r (lenN pre)), nthN_app. reflexivity. }
    assert (Hlt : ip < lenN code).
    { subst code ip. rewrite lenN_app, lenN_cons. lia. }
    destruct (N.eqb_spec (op_len op) 3) as [E3|E3].
    + destruct rest1 as [|h [|l rest']]; try (injection H as <- _; discriminate).
      apply (IH _ _ _ (pre ++ [op; h; l])) in H; auto.
      * destruct H as (tl & -> & Hch). exists (mkI ip op (h * 256 + l) 3 :: tl). split.
        -- cbn [rev]. rewrite <- app_assoc. reflexivity.
        -- cbn [chain iip iop iarg ilen]. repeat split; auto.
           unfold operand_at. subst code ip.
           rewrite !nthN_app. reflexivity.
      * rewrite <- app_assoc. exact Hc.
      * rewrite lenN_app. subst ip. unfold lenN at 2. cbn. lia.
      * cbn [List.length] in Hf. lia.
    + cbn [skipn] in H.
      apply (IH _ _ _ (pre ++ [op])) in H; auto.
      * destruct H as (tl & -> & Hch). exists (mkI ip op 0 1 :: tl). split.
        -- cbn [rev]. rewrite <- app_assoc. reflexivity.
        -- cbn [chain iip iop iarg ilen]. destruct (known_len op Hk) as [E1|E1]; [|contradiction].
           repeat split; auto.
      * rewrite <- app_assoc. exact Hc.
      * rewrite lenN_app. subst ip. unfold lenN at 2. cbn. lia.
      * cbn [List.length] in Hf. lia.
Qed.

Lemma decode_ok_chain : forall code is,
  decode (S (List.length code)) code 0 [] = (VOk, is) -> chain code 0 is.
Proof.
  intros code is H.
  destruct (decode_chain code _ _ _ _ [] _ _ eq_refl eq_refl (Nat.lt_succ_diag_r _) H eq_refl) as (tl & -> & Hc).
  exact Hc.
Qed.

Lemma chain_split : forall code pre ip i rest,
  chain code ip (pre ++ i :: rest) -> chain code (iip i) (i :: rest).
Proof.
  intros code. induction pre as [|x pre IH]; intros ip i rest H.
  - cbn [app chain] in H. destruct H as (E & H). subst ip. cbn [chain]. split; [reflexivity|]. exact H.
  - cbn [app chain] in H. destruct H as (_ & _ & _ & _ & _ & _ & H). eapply IH. exact H.
Qed.

Lemma chain_known : forall code is ip, chain code ip is -> Forall (fun i => memN (iop i) known_ops = true) is.
Proof.
  intros code. induction is as [|i is IH]; intros ip H; constructor.
  - apply H.
  - destruct H as (_ & _ & _ & _ & _ & _ & H). eapply IH. exact H.
Qed.

(* ------------------------------------------------------------------ *)
(* the final check *)

Definition struct_ok (consts : list value) (all : list instr) (len : N) (i : instr) : Prop :=
  ((iop i = OpJump \/ iop i = OpJumpIfFalse) -> is_start all (iarg i) = true /\ iarg i < len) /\
  (iop i = OpConstant -> iarg i < lenN consts) /\
  ((iop i = OpLookup \/ iop i = OpInc \/ iop i = OpDec) -> exists s, nthN consts (iarg i) = Some (VStr s)).

Definition edge_ok (a : ann) (len : N) (e : N * astate) : Prop :=
  match ann_get a (fst e) with Some b => state_le b (snd e) = true | None => len <= fst e end.

Definition flow_ok (a : ann) (len : N) (i : instr) (next : option instr) : Prop :=
  forall st, ann_get a (iip i) = Some st ->
    pops i <= fst st /\ exists es, edges i next st = Some es /\ Forall (edge_ok a len) es.

Definition nexti (rest : list instr) : option instr := match rest with j :: _ => Some j | [] => None end.

Lemma check_cons : forall consts i rest all len a,
  check consts (i :: rest) all len a = VOk ->
  struct_ok consts all len i /\ flow_ok a len i (nexti rest) /\ check consts rest all len a = VOk.
Proof.
  intros consts i rest all len a H. cbn [check] in H.
  destruct (((iop i =? OpJump) || (iop i =? OpJumpIfFalse)) && negb (is_start all (iarg i) && (iarg i <? len))) eqn:C1;
    [discriminate|].
  destruct ((iop i =? OpConstant) && negb (iarg i <? lenN consts)) eqn:C2; [discriminate|].
  destruct (((iop i =? OpLookup) || (iop i =? OpInc) || (iop i =? OpDec)) &&
            negb (match nthN consts (iarg i) with Some (VStr _) => true | _ => false end)) eqn:C3.
  { destruct (nthN consts (iarg i)); discriminate. }
  assert (S : struct_ok consts all len i).
  { repeat split.
    - destruct H0 as [E|E]; rewrite E in C1; cbn in C1; apply negb_false_iff in C1;
        apply andb_true_iff in C1; apply C1.
    - destruct H0 as [E|E]; rewrite E in C1; cbn in C1; apply negb_false_iff in C1;
        apply andb_true_iff in C1; apply N.ltb_lt; apply C1.
    - intro E. rewrite E in C2. cbn in C2. apply negb_false_iff in C2. apply N.ltb_lt. exact C2.
    - intro E. assert (X : ((iop i =? OpLookup) || (iop i =? OpInc) || (iop i =? OpDec)) = true).
      { destruct E as [E|[E|E]]; rewrite E; reflexivity. }
      rewrite X in C3. cbn in C3. apply negb_false_iff in C3.
      destruct (nthN consts (iarg i)) as [[]|]; try discriminate. eexists; reflexivity. }
  split; [exact S|]. clear C1 C2 C3.
  destruct (ann_get a (iip i)) as [d|] eqn:Ha.
  - destruct (fst d <? pops i) eqn:Hp; [discriminate|]. apply N.ltb_ge in Hp.
    fold (nexti rest) in H.
    destruct (edges i (nexti rest) d) as [es|] eqn:He; [|discriminate].
    match type of H with (if ?c then _ else _) = _ => destruct c eqn:Hf; [|discriminate] end.
    split; [|exact H].
    intros d' Hd'. rewrite Ha in Hd'. injection Hd' as <-. split; [exact Hp|]. exists es. split; [exact He|].
    apply Forall_forall. intros e He'. rewrite forallb_forall in Hf. specialize (Hf e He').
    unfold edge_ok. destruct (ann_get a (fst e)); [exact Hf|apply N.leb_le; exact Hf].
  - split; [|exact H]. intros d' Hd'. rewrite Ha in Hd'. discriminate.
Qed.

Lemma check_spec : forall consts all len a is0,
  check consts is0 all len a = VOk ->
  forall pre i rest, is0 = pre ++ i :: rest ->
    struct_ok consts all len i /\ flow_ok a len i (nexti rest).
Proof.
  intros consts all len a. induction is0 as [|x is0 IH]; intros H pre i rest E.
  - destruct pre; discriminate.
  - apply check_cons in H. destruct H as (S & F & H).
    destruct pre as [|y pre]; cbn [app] in E; injection E as -> ->.
    + split; assumption.
    + eapply IH; [exact H|reflexivity].
Qed.

Lemma check_struct : forall consts all len a is0,
  check consts is0 all len a = VOk -> Forall (struct_ok consts all len) is0.
Proof.
  intros consts all len a. induction is0 as [|x is0 IH]; intros H; constructor.
  - apply check_cons in H. apply H.
  - apply check_cons in H. apply IH, H.
Qed.

(* ------------------------------------------------------------------ *)
(* verify_body *)

Lemma verify_body_inv : forall consts isf code,
  verify_body consts isf code = VOk ->
  exists is, decode (S (List.length code)) code 0 [] = (VOk, is) /\
    ((is = [] /\ isf = false) \/
     (is <> [] /\
      (isf = true -> exists i, last_instr is = Some i /\ (iop i = OpReturn \/ iop i = OpJump)) /\
      exists a, flow (S (S (4 * List.length is))) is [(0, (0, []))] = Some a /\
                check consts is is (lenN code) a = VOk)).
Proof.
  intros consts isf code H. unfold verify_body in H.
  destruct (decode (S (List.length code)) code 0 []) as [r is] eqn:D.
  destruct r as [|r]; [|discriminate]. exists is. split; [reflexivity|].
  destruct is as [|i0 is'].
  - left. destruct isf; [discriminate|]. split; reflexivity.
  - right. split; [discriminate|].
    set (is := i0 :: is') in *.
    destruct (isf && negb (match last_instr is with
                            | Some i => (iop i =? OpReturn) || (iop i =? OpJump)
                            | None => false end)) eqn:Hl; [discriminate|].
    split.
    + intros ->. cbn [andb] in Hl. apply negb_false_iff in Hl.
      destruct (last_instr is) as [i|]; [|discriminate]. exists i. split; [reflexivity|].
      apply orb_true_iff in Hl. destruct Hl as [E|E]; apply N.eqb_eq in E; auto.
    + destruct (flow (S (S (4 * List.length is))) is [(0, (0, []))]) as [a|]; [|discriminate].
      exists a. split; [reflexivity|exact H].
Qed.

Lemma verified_decodes : forall consts isf code,
  verify_body consts isf code = VOk -> exists is, decode (S (List.length code)) code 0 [] = (VOk, is).
Proof.
  intros consts isf code H. destruct (verify_body_inv _ _ _ H) as (is & D & _). exists is. exact D.
Qed.

Lemma verified_structure : forall consts isf code is,
  verify_body consts isf code = VOk -> decode (S (List.length code)) code 0 [] = (VOk, is) ->
  Forall (fun i =>
     memN (iop i) known_ops = true /\
     ((iop i = OpJump \/ iop i = OpJumpIfFalse) -> is_start is (iarg i) = true /\ iarg i < lenN code) /\
     (iop i = OpConstant -> iarg i < lenN consts) /\
     ((iop i = OpLookup \/ iop i = OpInc \/ iop i = OpDec) -> exists s, nthN consts (iarg i) = Some (VStr s))) is.
Proof.
  intros consts isf code is H D. destruct (verify_body_inv _ _ _ H) as (is' & D' & R).
  rewrite D in D'. injection D' as <-.
  destruct R as [[-> _]|(_ & _ & a & _ & C)]; [constructor|].
  pose proof (chain_known _ _ _ (decode_ok_chain _ _ D)) as K.
  pose proof (check_struct _ _ _ _ _ C) as S.
  rewrite Forall_forall in *. intros i Hi. split; [apply K, Hi|]. apply (S i Hi).
Qed.

Lemma function_bodies_end : forall consts code is,
  verify_body consts true code = VOk -> decode (S (List.length code)) code 0 [] = (VOk, is) ->
  exists i, last_instr is = Some i /\ (iop i = OpReturn \/ iop i = OpJump).
Proof.
  intros consts code is H D. destruct (verify_body_inv _ _ _ H) as (is' & D' & R).
  rewrite D in D'. injection D' as <-.
  destruct R as [[_ X]|(_ & L & _)]; [discriminate|]. apply L. reflexivity.
Qed.

(* ------------------------------------------------------------------ *)
(* D19: an accepted script whose code the verifier rejects *)

Definition valueless_ast : program :=
  [SExpr (EAssign (L "a") (EAssign (L "b") (EInt (L "3") 3)))].

Definition valueless_tokens : list token :=
  [mkTok TIdent (L "a"); mkTok TAssign (L "="); mkTok TIdent (L "b"); mkTok TAssign (L "=");
   mkTok TInt (L "3"); mkTok TSemicolon (L ";"); mkTok TEOF []].

Lemma valueless_refuted :
  exists (ts : list token) (p : program_code),
    parse_tokens (fun _ => None) 0 ts = ParseOk valueless_ast /\
    well_moded valueless_ast = false /\
    compile_program 100 valueless_ast = CompOk p /\
    verify_program p <> VOk.
Proof.
  exists valueless_tokens. eexists. split; [vm_compute; reflexivity|].
  split; [vm_compute; reflexivity|]. split; [vm_compute; reflexivity|].
  vm_compute. intro H. discriminate.
Qed.

(* ... and, since the repair of D19, Prepare refuses that script: the TEXT `a = b = 3;` parses to the
   tree above and compiles, but the assignment `b = 3` stands where a value is needed *)
Definition stub_stdlib : stdlib :=
  mkStdlib (fun _ => None) (fun _ => None) (fun _ _ => None) (fun _ _ => None) (fun _ _ _ => None)
           (fun _ => None) (fun _ => None) (fun _ => None) (fun _ _ => None) (fun _ => None) (fun _ => None).

Definition valueless_script : str := L "a = b = 3;".

Lemma valueless_rejected_by_prepare :
  exists pc,
    parse_script (parse_float stub_stdlib) max_depth valueless_script = ParseOk valueless_ast /\
    compile_program (4 * List.length valueless_script + 40) valueless_ast = CompOk pc /\
    well_moded valueless_ast = false /\
    forall flag, Api.prepare stub_stdlib (Api.new_eval valueless_script) flag
                 = (Api.PrepReject, Api.new_eval valueless_script).
Proof.
  eexists. split; [vm_compute; reflexivity|]. split; [vm_compute; reflexivity|].
  split; [vm_compute; reflexivity|]. intros [|]; vm_compute; reflexivity.
Qed.

(* ------------------------------------------------------------------ *)
(* non-vacuity: a representative well-moded program is accepted, compiled and optimised *)

Definition example_ast : program :=
  [SExpr (EAssign (L "x") (EInt (L "1") 1));
   SExpr (EIf (EInfix TGt (EIdent (L "x")) (EInt (L "0") 0))
              [SExpr (EAssign (L "y") (EInt (L "2") 2))]
              (Some [SExpr (EAssign (L "y") (EInt (L "3") 3))]));
   SExpr (EWhile (EInfix TLt (EIdent (L "x")) (EInt (L "5") 5))
              [SExpr (EAssign (L "x") (EInfix TPlus (EIdent (L "x")) (EInt (L "1") 1)))]);
   SExpr (EForeach (L "i") (L "v") (EArray [EInt (L "1") 1; EInt (L "2") 2; EInt (L "3") 3])
              [SExpr (EAssign (L "y") (EInfix TPlus (EIdent (L "y")) (EIdent (L "v"))))]);
   SExpr (ESwitch (EIdent (L "x"))
              [(false, [EInt (L "1") 1; EInt (L "2") 2], [SExpr (EAssign (L "y") (EInt (L "0") 0))]);
               (true, [], [SExpr (EAssign (L "y") (EInt (L "9") 9))])]);
   SExpr (EAssign (L "z") (ETernary (EInfix TGt (EIdent (L "x")) (EInt (L "3") 3)) (EInt (L "1") 1) (EInt (L "2") 2)));
   SReturn (EInfix TEq (EIdent (L "z")) (EInt (L "1") 1))].

Definition vok (r : vresult) : bool := match r with VOk => true | VBad _ => false end.

Definition example_verifies : bool :=
  well_moded example_ast &&
  match compile_program 200 example_ast with
  | CompOk p =>
      vok (verify_program p) &&
      match optimize_program p with
      | Some p' => vok (verify_program p')
      | None => false
      end
  | _ => false
  end.

Lemma example_verifies_true : example_verifies = true.
Proof. vm_compute. reflexivity. Qed.

(* ------------------------------------------------------------------ *)
(* the data-flow iteration never touches the entry point *)

Lemma ann_get_set : forall a k v k', ann_get (ann_set a k v) k' = if k =? k' then Some v else ann_get a k'.
Proof.
  induction a as [|[k0 v0] a IH]; intros k v k'.
  - cbn [ann_set ann_get]. reflexivity.
  - cbn [ann_set]. destruct (N.eqb_spec k0 k) as [E|E].
    + subst k0. cbn [ann_get]. destruct (k =? k'); reflexivity.
    + cbn [ann_get]. destruct (N.eqb_spec k0 k') as [E'|E'].
      * subst k0. destruct (N.eqb_spec k k'); [congruence|reflexivity].
      * apply IH.
Qed.

Definition entry0 (a : ann) : Prop := ann_get a 0 = Some (0, []).

Lemma state_le_entry : forall st, state_le (0, []) (state_meet (0, []) st) = true.
Proof.
  intros [n ms]. unfold state_meet, state_le. cbn [fst snd List.length].
  destruct n; destruct ms as [|x ms]; reflexivity.
Qed.

Lemma fold_entry0 : forall es acc,
  entry0 (fst acc) ->
  entry0 (fst (fold_left (fun (acc : ann * bool) (e : N * astate) =>
                  let '(a0, c0) := acc in
                  match ann_get a0 (fst e) with
                  | Some old => if state_le old (snd e) then (a0, c0)
                                else let nw := state_meet old (snd e) in
                                     if state_le old nw then (a0, c0)
                                     else (ann_set a0 (fst e) nw, true)
                  | None => (ann_set a0 (fst e) (snd e), true)
                  end) es acc)).
Proof.
  induction es as [|e es IH]; intros [a0 c0] H; cbn [fold_left]; [exact H|].
  apply IH. cbn [fst] in *. unfold entry0 in *.
  destruct (ann_get a0 (fst e)) as [old|] eqn:G.
  - destruct (state_le old (snd e)) eqn:L; cbn [fst]; [exact H|]. cbv zeta.
    destruct (state_le old (state_meet old (snd e))) eqn:L2; cbn [fst]; [exact H|].
    rewrite ann_get_set. destruct (N.eqb_spec (fst e) 0) as [E|E]; [|exact H].
    rewrite E, H in G. injection G as <-. rewrite state_le_entry in L2. discriminate.
  - cbn [fst]. rewrite ann_get_set. destruct (N.eqb_spec (fst e) 0) as [E|E]; [|exact H].
    rewrite E, H in G. discriminate.
Qed.

Lemma flow_pass_entry0 : forall is a ch, entry0 a -> entry0 (fst (flow_pass is a ch)).
Proof.
  induction is as [|i rest IH]; intros a ch H; cbn [flow_pass]; [exact H|].
  destruct (ann_get a (iip i)) as [d|]; [|apply IH, H].
  destruct (fst d <? pops i); [apply IH, H|].
  destruct (edges i _ d) as [es|]; [|apply IH, H].
  match goal with |- context [fold_left ?f es (a, ch)] =>
    pose proof (fold_entry0 es (a, ch) H) as F; destruct (fold_left f es (a, ch)) as [a' ch'] end.
  apply IH. exact F.
Qed.

Lemma flow_entry0 : forall fuel is a a', entry0 a -> flow fuel is a = Some a' -> entry0 a'.
Proof.
  induction fuel as [|f IH]; intros is a a' H F; [discriminate|].
  cbn [flow] in F. pose proof (flow_pass_entry0 is a false H) as P.
  destruct (flow_pass is a false) as [a1 ch]. cbn [fst] in P.
  destruct ch; [eapply IH; eassumption|]. injection F as <-. exact P.
Qed.

(* ------------------------------------------------------------------ *)
(* which errors the operations can raise *)

Ltac ni_tac :=
  repeat match goal with
         | |- context [match ?x with _ => _ end] => destruct x
         end; try discriminate.

Section NI.
Variable o : stdlib.

Lemma of_bres_ni : forall r, of_bres r = Err EInternal -> False.
Proof. intros [v| |]; discriminate. Qed.

Lemma name_of_ni : forall v, name_of o v = Err EInternal -> False.
Proof. intros v. unfold name_of. ni_tac. Qed.

Lemma lookup_ni : forall obj e n, lookup o obj e n = Err EInternal -> False.
Proof. intros obj e n. unfold lookup. ni_tac. Qed.

Lemma lookup1_ni : forall obj e c, (do name <- name_of o c; lookup o obj e name) = Err EInternal -> False.
Proof.
  intros obj e c. unfold bind. destruct (name_of o c) eqn:E; [apply lookup_ni|].
  intro H. injection H as ->. eapply name_of_ni, E.
Qed.

Lemma lookup2_ni : forall obj e c,
  (do name <- name_of o c; do v <- lookup o obj e name; Ok (name, v)) = Err EInternal -> False.
Proof.
  intros obj e c. unfold bind. destruct (name_of o c) eqn:E.
  - destruct (lookup o obj e a) eqn:E2; [discriminate|]. intro H. injection H as ->. eapply lookup_ni, E2.
  - intro H. injection H as ->. eapply name_of_ni, E.
Qed.

Lemma int_binop_ni : forall op a b, int_binop op a b = Err EInternal -> False.
Proof. intros op a b. unfold int_binop, int_pow. destruct op; ni_tac. Qed.

Lemma float_binop_ni : forall op a b, float_binop o op a b = Err EInternal -> False.
Proof. intros op a b. unfold float_binop. destruct op; ni_tac. Qed.

Lemma string_binop_ni : forall op a b, string_binop op a b = Err EInternal -> False.
Proof. intros op a b. unfold string_binop. destruct op; ni_tac. Qed.

Lemma vm_binop_ni : forall op l r, vm_binop o op l r = Err EInternal -> False.
Proof.
  intros op l r H. unfold vm_binop in H.
  destruct op; try discriminate;
    destruct l; try discriminate; destruct r; try discriminate;
    try (apply int_binop_ni in H; exact H);
    try (apply float_binop_ni in H; exact H);
    try (apply string_binop_ni in H; exact H);
    try (unfold bind, of_bres in H; destruct (match_m o _); discriminate);
    repeat match type of H with
           | context [match ?x with _ => _ end] => destruct x; try discriminate
           end.
Qed.

Lemma vm_case_ni : forall v c, vm_case o v c = Err EInternal -> False.
Proof. intros v c. unfold vm_case, of_bres. ni_tac. Qed.

Lemma vm_index_ni : forall l i, vm_index o l i = Err EInternal -> False.
Proof. intros l i. unfold vm_index. ni_tac. Qed.

Lemma vm_minus_ni : forall v, vm_minus v = Err EInternal -> False.
Proof. intros v. unfold vm_minus. ni_tac. Qed.

Lemma vm_sqrt_ni : forall v, vm_sqrt v = Err EInternal -> False.
Proof. intros v. unfold vm_sqrt. ni_tac. Qed.

Lemma vm_range_ni : forall a b, vm_range a b = Err EInternal -> False.
Proof. intros a b. unfold vm_range. ni_tac. Qed.

Lemma iter_next_ni : forall v off, iter_next o v off = Err EInternal -> False.
Proof. intros v off. unfold iter_next. ni_tac. Qed.

Lemma build_hash_ok : forall n s acc,
  (2 * n <= List.length s)%nat ->
  match build_hash o n s acc with
  | Ok (ps, s') => (List.length s' + 2 * n = List.length s)%nat
  | Err e => e <> EInternal
  end.
Proof.
  induction n as [|n IH]; intros s acc H; cbn [build_hash]; [lia|].
  destruct s as [|v [|k s']]; cbn [List.length] in H; try lia.
  destruct (hash_key o k) as [[hk|]|]; try discriminate.
  destruct (hash_put o acc hk k v) as [acc'|]; try discriminate.
  specialize (IH s' acc'). destruct (build_hash o n s' acc') as [[ps s'']|e].
  - cbn [List.length]. assert (2 * n <= List.length s')%nat by lia. specialize (IH H0). lia.
  - apply IH. lia.
Qed.

Lemma pop_n_ok : forall n s acc,
  (n <= List.length s)%nat ->
  exists elems s', pop_n n s acc = Some (elems, s') /\ (List.length s' + n = List.length s)%nat.
Proof.
  induction n as [|n IH]; intros s acc H; cbn [pop_n].
  - eexists _, _. split; [reflexivity|lia].
  - destruct s as [|v s]; cbn [List.length] in H; [lia|].
    destruct (IH s (v :: acc)) as (el & s' & E & L); [lia|].
    exists el, s'. split; [exact E|]. cbn [List.length]. lia.
Qed.

End NI.

(* ------------------------------------------------------------------ *)
(* the scopes of the environment: which are frames, which are loops *)

Definition kinds (e : env) : list skind := map fst (scopes e).

Lemma local_update_kinds : forall n v ss, map fst (local_update n v ss) = map fst ss.
Proof.
  intros n v. induction ss as [|[k s] ss IH]; [reflexivity|].
  cbn [local_update]. destruct (assoc_get n s); [reflexivity|].
  destruct (is_frame k); cbn [map fst]; [reflexivity|]. rewrite IH. reflexivity.
Qed.

Lemma kinds_env_set : forall e n v, kinds (env_set e n v) = kinds e.
Proof.
  intros e n v. unfold kinds, env_set. destruct (local_get n (scopes e)); cbn [scopes]; [|reflexivity].
  apply local_update_kinds.
Qed.

Lemma kinds_env_declare : forall e n v, kinds (env_declare e n v) = kinds e.
Proof.
  intros e n v. unfold kinds, env_declare. destruct (scopes e) as [|[k s] ss] eqn:E; [rewrite E; reflexivity|].
  reflexivity.
Qed.

Lemma kinds_declare2 : forall e (idx : str) n v,
  kinds (match idx with [] => e | _ :: _ => env_declare e n v end) = kinds e.
Proof. intros e idx n v. destruct idx; [reflexivity|apply kinds_env_declare]. Qed.

Lemma kinds_env_push : forall e k, kinds (env_push e k) = SLoop k :: kinds e.
Proof. reflexivity. Qed.

Lemma kinds_env_pop : forall e e1 x K, env_pop e = Some e1 -> kinds e = x :: K -> kinds e1 = K.
Proof.
  intros e e1 x K H E. unfold env_pop in H. unfold kinds in *. destruct (scopes e) as [|y ss]; [discriminate|].
  injection H as <-. cbn [map scopes] in *. congruence.
Qed.

Lemma kinds_env_mark : forall e k K, kinds e = SLoop k :: K -> env_mark e = Some k.
Proof.
  intros e k K E. unfold env_mark, kinds in *. destruct (scopes e) as [|[y s] ss]; [discriminate|].
  cbn [map fst] in E. injection E as -> _. reflexivity.
Qed.

(* the loops of the running body sit on top of `base`, and have remembered at least the heights `bs` *)
Fixpoint marks_ok (base : list skind) (bs : list N) (K : list skind) : Prop :=
  match bs with
  | [] => K = base
  | b :: bs' => match K with SLoop k :: K' => b <= k /\ marks_ok base bs' K' | _ => False end
  end.

Definition over (base K : list skind) : Prop := exists ks, K = map SLoop ks ++ base.

Lemma marks_ok_over : forall base bs K, marks_ok base bs K -> over base K.
Proof.
  intros base. induction bs as [|b bs IH]; intros K H.
  - exists []. exact H.
  - cbn [marks_ok] in H. destruct K as [|[|k] K']; try contradiction. destruct H as (_ & H).
    destruct (IH _ H) as (ks & ->). exists (k :: ks). reflexivity.
Qed.

Lemma marks_ok_le : forall base bs' bs K, marks_le bs' bs = true -> marks_ok base bs K -> marks_ok base bs' K.
Proof.
  intros base. induction bs' as [|b' bs' IH]; intros bs K L H.
  - destruct bs; [exact H|discriminate].
  - destruct bs as [|b bs]; [discriminate|]. cbn [marks_le] in L. apply andb_true_iff in L. destruct L as (L1 & L2).
    apply N.leb_le in L1. cbn [marks_ok] in *. destruct K as [|[|k] K']; try contradiction.
    destruct H as (H1 & H2). split; [lia|eapply IH; eassumption].
Qed.

Lemma keep_bottom_len : forall k (s : list value), lenN (keep_bottom k s) = N.min (lenN s) k.
Proof. intros k s. unfold keep_bottom, lenN. rewrite skipn_length. lia. Qed.

(* ------------------------------------------------------------------ *)
(* soundness for call-free bodies *)

Lemma Forall_1 : forall {A} (P : A -> Prop) x, Forall P [x] -> P x.
Proof. intros A P x H. inversion H. assumption. Qed.
Lemma Forall_2 : forall {A} (P : A -> Prop) x y, Forall P [x; y] -> P x /\ P y.
Proof. intros A P x y H. inversion H as [|? ? H1 H2]. inversion H2. split; assumption. Qed.

Section Sound.
Variables (o : stdlib) (consts : list value) (funcs : list (str * ufunc)) (fns : fnmap) (obj : hostval).
Variables (code : list N) (is : list instr) (a : ann).
(* the scopes that were open when the body was entered *)
Variable base : list skind.
Hypothesis Hchain : chain code 0 is.
Hypothesis Hcheck : check consts is is (lenN code) a = VOk.
Hypothesis Hnocall : Forall (fun i => iop i <> OpCall) is.

Definition startish (t : N) : Prop :=
  lenN code <= t \/ exists pre i rest, is = pre ++ i :: rest /\ iip i = t.
(* at t, with n values on the stack and the scopes K, the annotation holds *)
Definition good (t n : N) (K : list skind) : Prop :=
  (lenN code <= t /\ over base K) \/
  exists pre i rest d bs, is = pre ++ i :: rest /\ iip i = t /\ ann_get a t = Some (d, bs) /\ d <= n /\
                          marks_ok base bs K.
(* an edge of the control-flow graph covers every concrete state its abstract state describes *)
Definition egood (e : N * astate) : Prop :=
  forall n K, fst (snd e) <= n -> marks_ok base (snd (snd e)) K -> good (fst e) n K.
Definition mid (t : N) (s : list value) (K : list skind) : Prop :=
  exists pre j rest b s', is = pre ++ j :: rest /\ iip j = t /\ iop j = OpJumpIfFalse /\
     s = VBool b :: s' /\ good (if b then t + 3 else iarg j) (lenN s') K.
Definition Inv (t : N) (m : mstate) : Prop :=
  good t (lenN (stk m)) (kinds (menv m)) \/ mid t (stk m) (kinds (menv m)).

Lemma good_mono : forall t n n' K, good t n K -> n <= n' -> good t n' K.
Proof.
  intros t n n' K [H|(pre & i & rest & d & bs & E & Hi & Ha & Hd & Hm)] L; [left; exact H|].
  right. exists pre, i, rest, d, bs. repeat split; auto. lia.
Qed.

Lemma good_over : forall t n K, good t n K -> over base K.
Proof.
  intros t n K [[_ H]|(pre & i & rest & d & bs & _ & _ & _ & _ & Hm)]; [exact H|].
  eapply marks_ok_over. exact Hm.
Qed.

Lemma Inv_over : forall t m, Inv t m -> over base (kinds (menv m)).
Proof.
  intros t m [H|(pre & j & rest & b & s' & _ & _ & _ & _ & H)]; eapply good_over; exact H.
Qed.

Lemma at_chain : forall pre i rest, is = pre ++ i :: rest -> chain code (iip i) (i :: rest).
Proof. intros pre i rest E. apply (chain_split code pre 0). rewrite <- E. exact Hchain. Qed.

Lemma start_split : forall t, is_start is t = true -> exists pre i rest, is = pre ++ i :: rest /\ iip i = t.
Proof.
  intros t H. unfold is_start in H. apply existsb_exists in H. destruct H as (i & Hin & E).
  apply N.eqb_eq in E. apply in_split in Hin. destruct Hin as (pre & rest & ->).
  exists pre, i, rest. split; [reflexivity|exact E].
Qed.

Lemma next_startish : forall pre i rest, is = pre ++ i :: rest -> startish (iip i + ilen i).
Proof.
  intros pre i rest E. pose proof (at_chain _ _ _ E) as C. cbn [chain] in C.
  destruct C as (_ & _ & _ & _ & _ & _ & C). destruct rest as [|j rest'].
  - left. cbn [chain] in C. lia.
  - right. cbn [chain] in C. destruct C as (Hj & _). exists (pre ++ [i]), j, rest'. split; [|exact Hj].
    rewrite <- app_assoc. exact E.
Qed.

Lemma edge_good : forall e, edge_ok a (lenN code) e -> startish (fst e) -> egood e.
Proof.
  intros [t [n ms]] He Hs n' K Hn Hm. unfold edge_ok in He. cbn [fst snd] in *.
  destruct Hs as [Hs|(pre & i & rest & E & Hi)].
  { left. split; [exact Hs|eapply marks_ok_over; exact Hm]. }
  destruct (ann_get a t) as [[b bs]|] eqn:Ha.
  - unfold state_le in He. cbn [fst snd] in He. apply andb_true_iff in He. destruct He as (L1 & L2).
    apply N.leb_le in L1.
    right. exists pre, i, rest, b, bs. repeat split; auto; [lia|eapply marks_ok_le; eassumption].
  - left. split; [exact He|eapply marks_ok_over; exact Hm].
Qed.

Lemma op_len_jif : op_len OpJumpIfFalse = 3.
Proof. vm_compute. reflexivity. Qed.

Lemma flow_good : forall pre i rest st,
  is = pre ++ i :: rest -> ann_get a (iip i) = Some st ->
  pops i <= fst st /\ exists es, edges i (nexti rest) st = Some es /\ Forall egood es.
Proof.
  intros pre i rest st E Ha.
  destruct (check_spec _ _ _ _ _ Hcheck pre i rest E) as (S & F).
  destruct (F st Ha) as (Hp & es & He & Hes). split; [exact Hp|]. exists es. split; [exact He|].
  assert (T : Forall (fun e => startish (fst e)) es).
  { destruct S as (S1 & _ & _).
    pose proof (next_startish _ _ _ E) as Nx.
    pose proof (at_chain _ _ _ E) as C. cbn [chain] in C. destruct C as (_ & _ & _ & _ & Hl & _ & C).
    destruct st as [d ms]. unfold edges in He.
    destruct (N.eqb_spec (iop i) OpReturn) as [E1|E1]; [injection He as <-; constructor|].
    destruct (N.eqb_spec (iop i) OpJump) as [E2|E2].
    { injection He as <-. constructor; [|constructor]. cbn [fst]. right. apply start_split, S1. auto. }
    destruct (N.eqb_spec (iop i) OpJumpIfFalse) as [E3|E3].
    { injection He as <-. constructor; [|constructor; [|constructor]]; cbn [fst].
      - rewrite E3, op_len_jif in Hl. rewrite <- Hl. exact Nx.
      - right. apply start_split, S1. auto. }
    destruct (N.eqb_spec (iop i) OpIterationReset) as [E6|E6].
    { injection He as <-. constructor; [|constructor]. cbn [fst]. exact Nx. }
    destruct (N.eqb_spec (iop i) OpIterationNext) as [E4|E4].
    { destruct rest as [|j rest']; cbn [nexti] in He; [discriminate|].
      destruct ms as [|k ms0]; [discriminate|].
      destruct (N.eqb_spec (iop j) OpJumpIfFalse) as [E5|E5]; [|discriminate].
      cbv zeta in He. destruct (N.min (d - 2) k =? 0); [discriminate|].
      injection He as <-.
      assert (Ej : is = (pre ++ [i]) ++ j :: rest') by (rewrite <- app_assoc; exact E).
      destruct (check_spec _ _ _ _ _ Hcheck _ j rest' Ej) as ((Sj & _ & _) & _).
      pose proof (next_startish _ _ _ Ej) as Nj.
      pose proof (at_chain _ _ _ Ej) as Cj. cbn [chain] in Cj. destruct Cj as (_ & _ & _ & _ & Hlj & _).
      rewrite E5, op_len_jif in Hlj. rewrite Hlj in Nj.
      constructor; [|constructor; [|constructor]]; cbn [fst]; [exact Nj|]. right. apply start_split, Sj. auto. }
    injection He as <-. constructor; [|constructor]. cbn [fst]. exact Nx. }
  rewrite Forall_forall in *. intros e Hin.
  apply edge_good; [apply (Hes _ Hin)|apply (T _ Hin)].
Qed.

Section Step.
Variable rec : list N -> N -> mstate -> outcome * mstate.

Inductive res_ok : outcome * mstate -> Prop :=
| RStop : forall out m', out <> OErr EInternal -> res_ok (out, m')
| RCont : forall ip' m', Inv ip' m' -> res_ok (rec code ip' m').

Ltac ev_goal :=
  repeat (match goal with
          | |- context [binop_of_opcode ?x] =>
              let v := eval vm_compute in (binop_of_opcode x) in
              match v with Some _ => idtac | None => idtac end; change (binop_of_opcode x) with v
          | |- context [if ?c then _ else _] =>
              let v := eval vm_compute in c in
              match v with true => idtac | false => idtac end; change c with v
          end; cbv beta iota zeta).

Ltac ev_in H :=
  repeat (match type of H with
          | context [if ?c then _ else _] =>
              let v := eval vm_compute in c in
              match v with true => idtac | false => idtac end; change c with v in H
          end; cbv beta iota zeta in H).

Hint Resolve name_of_ni lookup_ni lookup1_ni lookup2_ni vm_binop_ni vm_case_ni vm_index_ni vm_minus_ni
             vm_sqrt_ni vm_range_ni iter_next_ni of_bres_ni : ni.

Ltac ni :=
  first [ discriminate
        | let X := fresh in intro X; injection X as ->; exfalso; eauto with ni ].

Ltac lens := unfold lenN in *; cbn [List.length] in *; lia.

Ltac crunch_res :=
  repeat (cbv beta iota zeta;
          match goal with
          | |- res_ok (match ?x with _ => _ end) => destruct x eqn:?
          end);
  cbv beta iota zeta.

(* the scopes of the new environment are those the edge expects *)
Ltac kinds_tac :=
  cbn [menv]; rewrite ?kinds_declare2, ?kinds_env_declare, ?kinds_env_set, ?kinds_env_push;
  cbn [marks_ok];
  first [ assumption | split; [lens|assumption] ].

Ltac use_edge G := apply G; [lens|kinds_tac].

Ltac leaf :=
  lazymatch goal with
  | |- res_ok (rec code ?t ?m') =>
      apply RCont; left; unfold push, set_stk, set_env; cbn [stk menv];
      match goal with
      | G : egood (t, _) |- _ => unfold egood in G; cbn [fst snd] in G; use_edge G
      end
  | |- res_ok (fail _ _) => unfold fail; apply RStop; ni
  | |- res_ok (_, _) => apply RStop; ni
  end.

Lemma step_iter : forall pre i rest d bs m,
  is = pre ++ i :: rest -> iop i = OpIterationNext -> ann_get a (iip i) = Some (d, bs) -> d <= lenN (stk m) ->
  marks_ok base bs (kinds (menv m)) ->
  res_ok (PollProofs.instr o consts funcs fns obj rec code (iip i) m).
Proof.
  intros pre i rest d bs m E Ei Ha Hd Hm.
  pose proof (at_chain _ _ _ E) as C. cbn [chain] in C. destruct C as (_ & Hlt & Hk & Hb & Hl & Hop & Hnext).
  destruct (flow_good _ _ _ _ E Ha) as (Hp & es & He & Hg). cbn [fst] in Hp.
  unfold PollProofs.instr. rewrite Hb. cbv beta iota zeta. rewrite <- Hl. rewrite Hop. cbv beta iota.
  destruct i as [ip0 op arg ln]. destruct m as [st en tr po].
  cbn [iip iop iarg ilen stk menv trace polls] in *. subst op.
  vm_compute in Hl; subst ln.
  cbv [edges pops pushes iip iop iarg ilen] in He, Hp; ev_in He; ev_in Hp.
  ev_goal.
  (* IterationNext; JumpIfFalse *)
  destruct rest as [|j rest']; cbn [nexti] in He; [discriminate|].
  destruct bs as [|k ms0]; [discriminate|].
  destruct j as [jip jop jarg jlen]. cbv beta iota in He.
  destruct (N.eqb_spec jop OpJumpIfFalse) as [Ej|Ej]; [|discriminate]. subst jop.
  destruct (N.eqb_spec (N.min (d - 2) k) 0) as [Eb|Eb]; [discriminate|].
  injection He as <-. apply Forall_2 in Hg. destruct Hg as [Hg Hg2].
  cbn [chain iip] in Hnext. destruct Hnext as (Hj & _). subst jip.
  set (j := mkI (ip0 + 1) OpJumpIfFalse jarg jlen) in *.
  assert (Es : is = (pre ++ [mkI ip0 OpIterationNext arg 1]) ++ j :: rest')
    by (rewrite <- app_assoc; exact E).
  cbn [marks_ok] in Hm. destruct (kinds en) as [|[|kr] K'] eqn:EK; try contradiction.
  destruct Hm as (Hkr & Hm).
  destruct st as [|v1 [|v2 rest0]]; try (exfalso; lens).
  unfold drop_residue. rewrite (kinds_env_mark _ _ _ EK).
  pose proof (keep_bottom_len kr rest0) as KL.
  set (bb := N.min (d - 2) k) in *.
  assert (Hbb : bb <= lenN (keep_bottom kr rest0)).
  { rewrite KL. unfold bb. rewrite lenN_cons, lenN_cons in Hd. lia. }
  clearbody bb. clear KL.
  destruct (keep_bottom kr rest0) as [|it s] eqn:Ek; [exfalso; lens|].
  unfold egood in Hg, Hg2. cbn [fst snd] in Hg, Hg2.
  crunch_res;
  lazymatch goal with
  | |- res_ok (rec code _ {| stk := VBool true :: ?s0; menv := _; trace := _; polls := _ |}) =>
      apply RCont; right; exists (pre ++ [mkI ip0 OpIterationNext arg 1]), j, rest', true, s0;
      cbn [stk menv]; repeat split; [exact Es|];
      cbv beta iota; apply Hg; [lens|];
      rewrite ?kinds_declare2, ?kinds_env_declare, EK; cbn [marks_ok]; split; assumption
  | |- res_ok (rec code _ {| stk := VBool false :: ?s0; menv := ?e1; trace := _; polls := _ |}) =>
      apply RCont; right; exists (pre ++ [mkI ip0 OpIterationNext arg 1]), j, rest', false, s0;
      cbn [stk menv]; repeat split; [exact Es|];
      cbv beta iota; apply Hg2; [lens|];
      match goal with P : env_pop en = Some _ |- _ => rewrite (kinds_env_pop _ _ _ _ P EK) end; exact Hm
  | _ => leaf
  end.
Qed.

Lemma step_good : forall pre i rest d bs m,
  is = pre ++ i :: rest -> ann_get a (iip i) = Some (d, bs) -> d <= lenN (stk m) ->
  marks_ok base bs (kinds (menv m)) ->
  res_ok (PollProofs.instr o consts funcs fns obj rec code (iip i) m).
Proof.
  intros pre i rest d bs m E Ha Hd Hm.
  pose proof (at_chain _ _ _ E) as C. cbn [chain] in C. destruct C as (_ & Hlt & Hk & Hb & Hl & Hop & Hnext).
  destruct (check_spec _ _ _ _ _ Hcheck pre i rest E) as ((S1 & S2 & S3) & _).
  destruct (flow_good _ _ _ _ E Ha) as (Hp & es & He & Hg). cbn [fst] in Hp.
  destruct (N.eq_dec (iop i) OpIterationNext) as [Ei|Ei]; [eapply step_iter; eassumption|].
  assert (Hnc : iop i <> OpCall).
  { rewrite Forall_forall in Hnocall. apply Hnocall. rewrite E. apply in_elt. }
  unfold PollProofs.instr. rewrite Hb. cbv beta iota zeta. rewrite <- Hl. rewrite Hop. cbv beta iota.
  destruct i as [ip0 op arg ln]. destruct m as [st en tr po].
  cbn [iip iop iarg ilen stk menv trace polls] in *.
  unfold known_ops, memN in Hk.
  repeat (apply orb_true_iff in Hk; destruct Hk as [Hk|Hk]; [apply N.eqb_eq in Hk; subst op|]);
    [..|discriminate].
  all: try (exfalso; apply Hnc; reflexivity).
  all: try (exfalso; apply Ei; reflexivity).
  all: vm_compute in Hl; subst ln.
  all: cbv [edges pops pushes iip iop iarg ilen] in He, Hp; ev_in He; ev_in Hp.
  all: ev_goal.
  all: try (pose proof (S1 (or_introl eq_refl)) as [_ Sj]; apply N.leb_gt in Sj; rewrite Sj).
  all: try (pose proof (S1 (or_intror eq_refl)) as [_ Sj]; apply N.leb_gt in Sj; rewrite Sj).
  all: try (destruct (nthN_lt _ _ (S2 eq_refl)) as [cv Hcv]; rewrite Hcv).
  all: try (destruct (S3 (or_introl eq_refl)) as [sv Hsv]; rewrite Hsv).
  all: try (destruct (S3 (or_intror (or_introl eq_refl))) as [sv Hsv]; rewrite Hsv).
  all: try (destruct (S3 (or_intror (or_intror eq_refl))) as [sv Hsv]; rewrite Hsv).
  all: clear S1 S2 S3.
  all: lazymatch type of Hb with
       | _ = Some OpArray =>
           injection He as <-; apply Forall_1 in Hg;
           let el := fresh "el" in let s' := fresh "s'" in let Ep := fresh "Ep" in let L := fresh "L" in
           destruct (pop_n_ok (N.to_nat arg) st []) as (el & s' & Ep & L); [lens|];
           rewrite Ep; cbv beta iota zeta; leaf
       | _ = Some OpHash =>
           let q := fresh "q" in let q2 := fresh "q2" in let Hq := fresh "Hq" in let Hq2 := fresh "Hq2" in
           remember ((arg + 1) / 2) as q eqn:Hq; clear Hq;
           remember (2 * q) as q2 eqn:Hq2;
           assert (Hq2' : N.to_nat q2 = (2 * N.to_nat q)%nat) by lia; clear Hq2;
           injection He as <-; apply Forall_1 in Hg;
           let B := fresh "B" in
           assert (B : (2 * N.to_nat q <= List.length st)%nat) by lens;
           apply (build_hash_ok o _ _ []) in B;
           destruct (build_hash o (N.to_nat q) st []) as [[ps s']|e];
           cbv beta iota zeta; [leaf|unfold fail; apply RStop; congruence]
       | _ =>
           injection He as <-;
           try (apply Forall_1 in Hg);
           try (apply Forall_2 in Hg; destruct Hg as [Hg Hg2]);
           destruct st as [|v1 [|v2 [|v3 s]]];
           try (exfalso; lens);
           crunch_res; leaf
       end.
Qed.

Lemma step_mid : forall t m, mid t (stk m) (kinds (menv m)) ->
  res_ok (PollProofs.instr o consts funcs fns obj rec code t m).
Proof.
  intros t m (pre & j & rest & b & s' & E & Hj & Eop & Hs & Hgd). subst t.
  pose proof (at_chain _ _ _ E) as C. cbn [chain] in C. destruct C as (_ & Hlt & Hk & Hb & Hl & Hop & _).
  destruct (check_spec _ _ _ _ _ Hcheck pre j rest E) as ((S1 & _ & _) & _).
  destruct (S1 (or_intror Eop)) as [_ Sj]. apply N.leb_gt in Sj.
  unfold PollProofs.instr. rewrite Hb. cbv beta iota zeta. rewrite <- Hl. rewrite Hop. cbv beta iota.
  destruct j as [ip0 op arg ln]. destruct m as [st en tr po].
  cbn [iip iop iarg ilen stk menv trace polls] in *. subst op st.
  vm_compute in Hl; subst ln. ev_goal. cbn [truthy]. rewrite Sj.
  destruct b; apply RCont; left; unfold set_stk; cbn [stk menv]; exact Hgd.
Qed.

End Step.

Notation ex := (exec o consts funcs fns obj).

Lemma sound_gen : forall fuel ip m out m',
  Inv ip m -> ex fuel code ip m = (out, m') -> out <> OErr EInternal.
Proof.
  induction fuel as [|f IH]; intros ip m out m' HI H.
  - cbn [exec] in H. unfold fail in H. injection H as <- _. discriminate.
  - rewrite PollProofs.exec_S in H. destruct (lenN code <=? ip) eqn:L.
    { injection H as <- _. discriminate. }
    apply N.leb_gt in L.
    assert (Hstep : forall m1, stk m1 = stk m -> menv m1 = menv m ->
              res_ok (ex f) (PollProofs.instr o consts funcs fns obj (ex f) code ip m1)).
    { intros m1 Es Ee. destruct HI as [[[Hl _]|(pre & i & rest & d & bs & E & Hi & Ha & Hd & Hm)]|Hm].
      - lia.
      - subst ip. eapply step_good; eauto; [rewrite Es; exact Hd|rewrite Ee; exact Hm].
      - apply step_mid. rewrite Es, Ee. exact Hm. }
    assert (Hfin : forall m1, stk m1 = stk m -> menv m1 = menv m ->
              PollProofs.instr o consts funcs fns obj (ex f) code ip m1 = (out, m') -> out <> OErr EInternal).
    { intros m1 Es Ee Hr. specialize (Hstep m1 Es Ee).
      inversion Hstep as [out0 m0 Hne Heq|ip' m'' Hinv Heq]; rewrite <- Heq in Hr.
      - injection Hr as <- _. exact Hne.
      - eapply IH; eassumption. }
    destruct (polls m) as [[|p]|].
    + injection H as <- _. discriminate.
    + eapply Hfin; [| |exact H]; reflexivity.
    + eapply Hfin; [| |exact H]; reflexivity.
Qed.

End Sound.

Theorem verifier_sound_callfree : forall o consts funcs fns obj isf code,
  verify_body consts isf code = VOk ->
  (forall is, decode (S (List.length code)) code 0 [] = (VOk, is) -> Forall (fun i => iop i <> OpCall) is) ->
  forall fuel m out m', stk m = [] ->
  exec o consts funcs fns obj fuel code 0 m = (out, m') -> out <> OErr EInternal.
Proof.
  intros o consts funcs fns obj isf code Hv Hcf fuel m out m' Hs H.
  destruct (verify_body_inv _ _ _ Hv) as (is & D & R).
  pose proof (decode_ok_chain _ _ D) as Hc. specialize (Hcf is D).
  destruct R as [[-> _]|(Hne & _ & a & Hf & Hck)].
  - cbn [chain] in Hc. destruct fuel as [|f].
    + cbn [exec] in H. unfold fail in H. injection H as <- _. discriminate.
    + rewrite PollProofs.exec_S in H. rewrite <- Hc in H. cbn in H. injection H as <- _. discriminate.
  - eapply (sound_gen o consts funcs fns obj code is a (kinds (menv m)) Hc Hck Hcf); [|exact H].
    left. right. destruct is as [|i0 is']; [congruence|].
    exists [], i0, is', 0, []. cbn [chain] in Hc. destruct Hc as (H0 & _).
    repeat split; auto.
    + apply (flow_entry0 _ _ _ _ (eq_refl : entry0 [(0, (0, []))]) Hf).
    + lia.
Qed.

(* ModedProofs.v - the stack discipline of compiled code, for ALL well-moded
   scripts (Spec/Moded.v): every body the compiler produces for a well-moded
   syntax tree (the main body and every function in the table) carries an
   annotation - at every instruction start a lower bound on the stack depth
   and, for every foreach loop open there, a lower bound on the stack height
   that loop remembered; (0, []) at the entry - that the byte-code verifier's
   final `check` accepts.
   Consequences: a compiled call-free body never ends in the machine's
   internal error (through VerifierProofs.sound_gen); with calls, the same
   holds for every run in which each executed call pushed a value
   (`calls_push`), which is the verifier's stated assumption about calls.
   Complete proofs only; no axioms.

   Structure: (1) annotated segments `aseg`: a code fragment, the abstract
   state at its entry, a lower bound of the state at its fall-through exit,
   and the states carried to other exits; composition; (2) the instructions;
   (3) the control constructs at the level of code; (4) the same at the level
   of compiler states (emission / back-patching as in StructProofs.v);
   (5) induction on the compiler's fuel; (6) from segments to `check`;
   (7) the theorems. *)
From Coq Require Import Floats Lia Permutation.
From EF Require Import Model.Base Gen.Tables Model.Lexer Model.Ast Model.Code Model.Value Model.Env
                       Model.Reflect Model.Builtins
                       Model.Compiler Model.VM Model.Verifier Spec.Eval Spec.Moded.
From EF Require Import Proofs.ExprProofs Proofs.StmtProofs Proofs.StructProofs.
From EF Require Proofs.ContainerProofs Proofs.VerifierProofs Proofs.PollProofs Proofs.OptSafeProofs.
Open Scope N_scope.

Module VP := EF.Proofs.VerifierProofs.

Local Ltac lenN_norm := repeat (progress (rewrite ?lenN_app, ?lenN_cons, ?lenN_nil in *)).
Local Ltac pos := lenN_norm; lia.
Local Ltac leq := repeat (progress (rewrite <- ?app_assoc; cbn [app])); reflexivity.

(* ------------------------------------------------------------------ *)
(* PART 0: the order on abstract states *)

Definition sle (s t : astate) : Prop := state_le s t = true.

Lemma marks_le_refl : forall ms, marks_le ms ms = true.
Proof. induction ms as [|m ms IH]; [reflexivity|]. cbn [marks_le]. rewrite N.leb_refl, IH. reflexivity. Qed.

Lemma marks_le_trans : forall a b c, marks_le a b = true -> marks_le b c = true -> marks_le a c = true.
Proof.
  induction a as [|x a IH]; intros [|y b] [|z c] H1 H2; try discriminate; [reflexivity|].
  cbn [marks_le] in *. apply andb_true_iff in H1. apply andb_true_iff in H2.
  destruct H1 as (A1 & B1). destruct H2 as (A2 & B2). apply N.leb_le in A1. apply N.leb_le in A2.
  apply andb_true_iff. split; [apply N.leb_le; lia|eapply IH; eassumption].
Qed.

Lemma sle_refl : forall s, sle s s.
Proof. intros [d ms]. unfold sle, state_le. cbn [fst snd]. rewrite N.leb_refl, marks_le_refl. reflexivity. Qed.

Lemma sle_trans : forall a b c, sle a b -> sle b c -> sle a c.
Proof.
  intros [d1 m1] [d2 m2] [d3 m3]. unfold sle, state_le. cbn [fst snd]. intros H1 H2.
  apply andb_true_iff in H1. apply andb_true_iff in H2. destruct H1 as (A1 & B1). destruct H2 as (A2 & B2).
  apply N.leb_le in A1. apply N.leb_le in A2.
  apply andb_true_iff. split; [apply N.leb_le; lia|eapply marks_le_trans; eassumption].
Qed.

Lemma sle_pair : forall d d' ms, d <= d' -> sle (d, ms) (d', ms).
Proof.
  intros d d' ms H. unfold sle, state_le. cbn [fst snd]. apply N.leb_le in H. rewrite H, marks_le_refl. reflexivity.
Qed.

Lemma sle_depth : forall d d' ms ms', sle (d, ms) (d', ms') -> d <= d'.
Proof.
  intros d d' ms ms' H. unfold sle, state_le in H. cbn [fst snd] in H. apply andb_true_iff in H.
  apply N.leb_le. apply H.
Qed.

Local Ltac sl := first [ assumption | apply sle_refl | apply sle_pair; lia ].

(* ------------------------------------------------------------------ *)
(* PART 1: annotated segments *)

Definition epred := N -> astate -> Prop.       (* target, abstract state carried to it *)
Definition noX : epred := fun _ _ => False.

(* annotations are partial: the JumpIfFalse that follows an IterationNext has none *)
Definition pann := N -> option astate.
Definition fle (f : pann) (t : N) (n : astate) : Prop := exists s, f t = Some s /\ sle s n.

Lemma fle_trans : forall f t n n', fle f t n -> sle n n' -> fle f t n'.
Proof. intros f t n n' (s & E & L) H. exists s. split; [exact E|eapply sle_trans; eassumption]. Qed.

Definition iflow (f : pann) (P : epred) (i : instr) (next : option instr) : Prop :=
  match f (iip i) with
  | None => True
  | Some s =>
      pops i <= fst s /\
      exists es, edges i next s = Some es /\ Forall (fun e => P (fst e) (snd e)) es
  end.

Fixpoint flows (f : pann) (P : epred) (is : list instr) : Prop :=
  match is with
  | [] => True
  | i :: rest => iflow f P i (VP.nexti rest) /\ flows f P rest
  end.

Lemma edges_next : forall i nx d es, edges i None d = Some es -> edges i nx d = Some es.
Proof.
  intros i nx [d ms] es. unfold edges.
  destruct (iop i =? OpReturn); [auto|]. destruct (iop i =? OpJump); [auto|].
  destruct (iop i =? OpJumpIfFalse); [auto|]. destruct (iop i =? OpIterationReset); [auto|].
  destruct (iop i =? OpIterationNext); [discriminate|auto].
Qed.

Lemma iflow_next : forall f P i rest b, iflow f P i (VP.nexti rest) -> iflow f P i (VP.nexti (rest ++ b)).
Proof.
  intros f P i rest b H. destruct rest as [|j rest]; [|exact H].
  unfold iflow in *. destruct (f (iip i)) as [s|]; [|exact I].
  destruct H as (Hp & es & He & Hf). split; [exact Hp|]. exists es. split; [|exact Hf].
  apply edges_next. exact He.
Qed.

Lemma flows_app : forall f P a b, flows f P a -> flows f P b -> flows f P (a ++ b).
Proof.
  intros f P a b. induction a as [|i a IH]; intros Ha Hb; [exact Hb|].
  cbn [app flows] in *. destruct Ha as (Hi & Ha). split; [apply iflow_next; exact Hi|apply IH; assumption].
Qed.

Lemma flows_weaken : forall f g (P Q : epred) is,
  (forall i, In i is -> f (iip i) = g (iip i)) -> (forall t n, P t n -> Q t n) ->
  flows f P is -> flows g Q is.
Proof.
  intros f g P Q is. induction is as [|i is IH]; intros Hfg HPQ H; [exact I|].
  cbn [flows] in *. destruct H as (Hi & H). split.
  - unfold iflow in *. rewrite <- (Hfg i (or_introl eq_refl)). destruct (f (iip i)) as [s|]; [|exact I].
    destruct Hi as (Hp & es & He & Hf). split; [exact Hp|]. exists es. split; [exact He|].
    eapply Forall_impl; [|exact Hf]. intros e. apply HPQ.
  - apply IH; [intros j Hj; apply Hfg; right; exact Hj|exact HPQ|exact H].
Qed.

(* where control may go from inside a segment: an instruction start of the segment
   (bounded by its annotation), the fall-through exit, or another permitted exit *)
Definition segP (f : pann) (is : list instr) (hi : N) (dout : astate) (X : epred) : epred :=
  fun t n => (st is t /\ fle f t n) \/ (t = hi /\ sle dout n) \/ X t n.

Definition entry (f : pann) (is : list instr) (base : N) (d dout : astate) : Prop :=
  match is with [] => sle dout d | _ :: _ => fle f base d end.

(* the fragment `ch` placed at `base`, entered in a state above d, falls through in a state above dout,
   and satisfies X on every other edge that leaves it *)
Definition aseg (base : N) (ch : list N) (d dout : astate) (X : epred) : Prop :=
  exists is f, dec ch base is /\ entry f is base d dout /\
               flows f (segP f is (base + lenN ch) dout X) is.

Lemma dec_nil_inv : forall ch base, dec ch base [] -> ch = [].
Proof. intros ch base H. inversion H. reflexivity. Qed.

Lemma dec_nonempty : forall ch base is, dec ch base is -> ch <> [] -> is <> [].
Proof. intros ch base is H Hne E. subst is. apply dec_nil_inv in H. contradiction. Qed.

Lemma aseg_at : forall base base' ch d dout X, aseg base ch d dout X -> base = base' -> aseg base' ch d dout X.
Proof. intros. subst. assumption. Qed.

Lemma aseg_nil : forall base d dout X, sle dout d -> aseg base [] d dout X.
Proof.
  intros base d dout X H. exists [], (fun _ => None). split; [apply dec_nil|split; [exact H|exact I]].
Qed.

Lemma aseg_weaken : forall base ch d d' dout dout' (X X' : epred),
  aseg base ch d dout X -> sle d d' -> sle dout' dout -> (forall t n, X t n -> X' t n) ->
  aseg base ch d' dout' X'.
Proof.
  intros base ch d d' dout dout' X X' (is & f & D & En & F) Hd Ho HX.
  exists is, f. split; [exact D|split].
  - destruct is; cbn [entry] in *; [eapply sle_trans; [exact Ho|eapply sle_trans; eassumption]|
                                     eapply fle_trans; eassumption].
  - eapply flows_weaken; [reflexivity| |exact F].
    intros t n [H|[[H1 H2]|H]]; [left; exact H|right; left; split; [exact H1|eapply sle_trans; eassumption]|
                                 right; right; apply HX; exact H].
Qed.

Lemma aseg_app : forall base A B d d1 d2 (X1 X2 X : epred),
  aseg base A d d1 X1 -> aseg (base + lenN A) B d1 d2 X2 ->
  (forall t n, X1 t n -> X t n \/ (t = base + lenN A /\ sle d1 n)) ->
  (forall t n, X2 t n -> X t n) ->
  aseg base (A ++ B) d d2 X.
Proof.
  intros base A B d d1 d2 X1 X2 X (is1 & f1 & D1 & En1 & F1) (is2 & f2 & D2 & En2 & F2) HX1 HX2.
  set (mid := base + lenN A) in *.
  set (f := fun t => if t <? mid then f1 t else f2 t).
  assert (Hhi : base + lenN (A ++ B) = mid + lenN B) by (unfold mid; pos).
  assert (R1 : forall i, In i is1 -> iip i < mid).
  { intros i Hi. apply (dec_range _ _ _ D1) in Hi. unfold mid. lia. }
  assert (R2 : forall i, In i is2 -> mid <= iip i).
  { intros i Hi. apply (dec_range _ _ _ D2) in Hi. lia. }
  assert (A1 : forall i, In i is1 -> f1 (iip i) = f (iip i)).
  { intros i Hi. unfold f. apply R1 in Hi. apply N.ltb_lt in Hi. rewrite Hi. reflexivity. }
  assert (A2 : forall i, In i is2 -> f2 (iip i) = f (iip i)).
  { intros i Hi. unfold f. apply R2 in Hi. apply N.ltb_ge in Hi. rewrite Hi. reflexivity. }
  assert (A1' : forall t n, st is1 t -> fle f1 t n -> fle f t n).
  { intros t n (i & Hi & Ei) H. unfold fle in *. rewrite <- Ei, <- (A1 i Hi), Ei. exact H. }
  assert (A2' : forall t n, st is2 t -> fle f2 t n -> fle f t n).
  { intros t n (i & Hi & Ei) H. unfold fle in *. rewrite <- Ei, <- (A2 i Hi), Ei. exact H. }
  set (P := segP f (is1 ++ is2) (base + lenN (A ++ B)) d2 X).
  assert (K : forall n, sle d1 n -> P mid n).
  { intros n Hn. unfold P, segP. destruct is2 as [|j is2'].
    - apply dec_nil_inv in D2. subst B. cbn [entry] in En2. right; left.
      split; [rewrite Hhi, lenN_nil; lia|eapply sle_trans; eassumption].
    - cbn [entry] in En2. left.
      assert (Hs : st (j :: is2') mid) by (destruct (dec_base _ _ _ D2) as [Hs|[_ E]]; [exact Hs|discriminate]).
      split.
      + apply st_app_iff. right. exact Hs.
      + apply A2'; [exact Hs|]. eapply fle_trans; eassumption. }
  assert (I1 : forall t n, segP f1 is1 mid d1 X1 t n -> P t n).
  { intros t n [[Hs Hle]|[[Et Hle]|HX]].
    - left. split; [apply st_app_iff; left; exact Hs|]. apply A1'; assumption.
    - subst t. apply K. exact Hle.
    - destruct (HX1 t n HX) as [H|[Et Hle]]; [right; right; exact H|subst t; apply K; exact Hle]. }
  assert (I2 : forall t n, segP f2 is2 (mid + lenN B) d2 X2 t n -> P t n).
  { intros t n [[Hs Hle]|[[Et Hle]|HX]].
    - left. split; [apply st_app_iff; right; exact Hs|]. apply A2'; assumption.
    - right; left. split; [rewrite Hhi; exact Et|exact Hle].
    - right; right. apply HX2. exact HX. }
  exists (is1 ++ is2), f. split; [eapply dec_app'; [exact D1|exact D2|reflexivity]|split].
  - destruct is1 as [|i is1'].
    + apply dec_nil_inv in D1. subst A. cbn [app entry] in *.
      assert (Em : mid = base) by (unfold mid; rewrite lenN_nil; lia).
      destruct is2 as [|j is2']; cbn [entry] in *; [eapply sle_trans; eassumption|].
      assert (Hs : st (j :: is2') mid) by (destruct (dec_base _ _ _ D2) as [Hs|[_ E]]; [exact Hs|discriminate]).
      rewrite <- Em. apply A2'; [exact Hs|]. eapply fle_trans; eassumption.
    + cbn [app entry] in *.
      assert (Hs : st (i :: is1') base) by (destruct (dec_base _ _ _ D1) as [Hs|[_ E]]; [exact Hs|discriminate]).
      apply A1'; assumption.
  - apply flows_app.
    + eapply flows_weaken; [exact A1|exact I1|exact F1].
    + eapply flows_weaken; [exact A2|exact I2|exact F2].
Qed.

(* edges back to the entry of a (non-empty) segment are internal *)
Lemma aseg_close : forall base ch d dout (X : epred), ch <> [] ->
  aseg base ch d dout (fun t n => X t n \/ (t = base /\ sle d n)) -> aseg base ch d dout X.
Proof.
  intros base ch d dout X Hne (is & f & D & En & F).
  pose proof (dec_nonempty _ _ _ D Hne) as Hi.
  exists is, f. split; [exact D|split; [exact En|]].
  eapply flows_weaken; [reflexivity| |exact F].
  intros t n [H|[H|[H|[Et Hle]]]]; [left; exact H|right; left; exact H|right; right; exact H|].
  left. subst t. split.
  - destruct (dec_base _ _ _ D) as [Hs|[_ E]]; [exact Hs|contradiction].
  - destruct is; [contradiction|]. cbn [entry] in En. eapply fle_trans; eassumption.
Qed.

(* an exit to the end of the segment is its fall-through exit *)
Lemma aseg_absorb : forall base ch d dout (X : epred),
  aseg base ch d dout (fun t n => X t n \/ (t = base + lenN ch /\ sle dout n)) -> aseg base ch d dout X.
Proof.
  intros base ch d dout X (is & f & D & En & F).
  exists is, f. split; [exact D|split; [exact En|]].
  eapply flows_weaken; [reflexivity| |exact F].
  intros t n [H|[H|[H|H]]]; [left; exact H|right; left; exact H|right; right; exact H|right; left; exact H].
Qed.

(* ------------------------------------------------------------------ *)
(* PART 2: the instructions *)

(* the instructions with more than the one plain edge, or that open a loop *)
Definition ctl (op : N) : bool := memN op [OpReturn; OpJump; OpJumpIfFalse; OpIterationNext; OpIterationReset].

Lemma edges_plain : forall i nx d ms, ctl (iop i) = false ->
  edges i nx (d, ms) = Some [(iip i + ilen i, (d - pops i + pushes i, ms))].
Proof.
  intros i nx d ms H. unfold ctl in H. cbn [memN] in H.
  apply orb_false_iff in H. destruct H as (H1 & H).
  apply orb_false_iff in H. destruct H as (H2 & H).
  apply orb_false_iff in H. destruct H as (H3 & H).
  apply orb_false_iff in H. destruct H as (H4 & H).
  apply orb_false_iff in H. destruct H as (H5 & _).
  unfold edges. rewrite H1, H2, H3, H4, H5. reflexivity.
Qed.

(* a segment of one annotated instruction *)
Lemma aseg_one : forall base ch i (s dout : astate) (X : epred) es,
  dec ch base [i] -> iip i = base -> pops i <= fst s -> edges i None s = Some es ->
  Forall (fun e => (fst e = base + lenN ch /\ sle dout (snd e)) \/ X (fst e) (snd e)) es ->
  aseg base ch s dout X.
Proof.
  intros base ch i s dout X es D Hip Hp He Hes.
  exists [i], (fun _ => Some s). split; [exact D|split].
  - cbn [entry]. exists s. split; [reflexivity|apply sle_refl].
  - cbn [flows]. split; [|exact I]. unfold iflow. split; [exact Hp|].
    exists es. split; [exact He|]. eapply Forall_impl; [|exact Hes].
    intros e [H|H]; [right; left; exact H|right; right; exact H].
Qed.

Lemma aseg_instr : forall ms base ch i d dout (X : epred),
  dec ch base [i] -> iip i = base -> base + ilen i = base + lenN ch ->
  ctl (iop i) = false -> pops i <= d -> dout <= d - pops i + pushes i ->
  aseg base ch (d, ms) (dout, ms) X.
Proof.
  intros ms base ch i d dout X D Hip Hl Hc Hp Ho.
  eapply aseg_one; [exact D|exact Hip|exact Hp|apply edges_plain; exact Hc|].
  constructor; [|constructor]. cbn [fst snd]. left. split; [rewrite Hip; exact Hl|apply sle_pair; exact Ho].
Qed.

Lemma aseg_op1 : forall ms base op d dout p q (X : epred),
  memN op known_ops = true -> op_len op = 1 -> ctl op = false ->
  pops (mkI 0 op 0 1) = p -> pushes (mkI 0 op 0 1) = q -> p <= d -> dout <= d - p + q ->
  aseg base [op] (d, ms) (dout, ms) X.
Proof.
  intros ms base op d dout p q X Hk Hl Hc Hp Hq Hle Ho.
  apply (aseg_instr ms base [op] (mkI base op 0 1)); try assumption.
  - apply dec_one1; assumption.
  - reflexivity.
  - reflexivity.
  - change (pops (mkI base op 0 1)) with (pops (mkI 0 op 0 1)). lia.
  - change (pops (mkI base op 0 1)) with (pops (mkI 0 op 0 1)).
    change (pushes (mkI base op 0 1)) with (pushes (mkI 0 op 0 1)). lia.
Qed.

Lemma aseg_op3 : forall ms base op h l d dout p q (X : epred),
  memN op known_ops = true -> op_len op = 3 -> ctl op = false ->
  pops (mkI 0 op (h * 256 + l) 3) = p -> pushes (mkI 0 op 0 1) = q -> p <= d -> dout <= d - p + q ->
  aseg base [op; h; l] (d, ms) (dout, ms) X.
Proof.
  intros ms base op h l d dout p q X Hk Hl Hc Hp Hq Hle Ho.
  apply (aseg_instr ms base [op; h; l] (mkI base op (h * 256 + l) 3)); try assumption.
  - apply dec_one3; assumption.
  - reflexivity.
  - reflexivity.
  - change (pops (mkI base op (h * 256 + l) 3)) with (pops (mkI 0 op (h * 256 + l) 3)). lia.
  - change (pops (mkI base op (h * 256 + l) 3)) with (pops (mkI 0 op (h * 256 + l) 3)).
    change (pushes (mkI base op (h * 256 + l) 3)) with (pushes (mkI 0 op 0 1)). lia.
Qed.

Lemma aseg_jump : forall ms base T d dout (X : epred), T < 65536 -> X T (d, ms) ->
  aseg base [OpJump; hi_byte T; lo_byte T] (d, ms) dout X.
Proof.
  intros ms base T d dout X HT HX.
  eapply (aseg_one base _ (mkI base OpJump (hi_byte T * 256 + lo_byte T) 3));
    [apply dec_one3; reflexivity|reflexivity|change (0 <= d); lia|reflexivity|].
  constructor; [|constructor].
  change (pops (mkI base OpJump (hi_byte T * 256 + lo_byte T) 3)) with 0.
  change (pushes (mkI base OpJump (hi_byte T * 256 + lo_byte T) 3)) with 0.
  cbn [fst snd iarg]. rewrite hi_lo by exact HT. right.
  replace (d - 0 + 0) with d by lia. exact HX.
Qed.

Lemma aseg_jif : forall ms base T d dout (X : epred), T < 65536 -> 1 <= d -> dout <= d - 1 -> X T (d - 1, ms) ->
  aseg base [OpJumpIfFalse; hi_byte T; lo_byte T] (d, ms) (dout, ms) X.
Proof.
  intros ms base T d dout X HT Hd Ho HX.
  eapply (aseg_one base _ (mkI base OpJumpIfFalse (hi_byte T * 256 + lo_byte T) 3));
    [apply dec_one3; reflexivity|reflexivity|change (1 <= d); exact Hd|reflexivity|].
  change (pops (mkI base OpJumpIfFalse (hi_byte T * 256 + lo_byte T) 3)) with 1.
  change (pushes (mkI base OpJumpIfFalse (hi_byte T * 256 + lo_byte T) 3)) with 0.
  replace (d - 1 + 0) with (d - 1) by lia.
  constructor; [|constructor; [|constructor]]; cbn [fst snd iarg iip].
  - left. split; [pos|apply sle_pair; exact Ho].
  - rewrite hi_lo by exact HT. right. exact HX.
Qed.

Lemma aseg_return : forall ms base d dout (X : epred), 1 <= d -> aseg base [OpReturn] (d, ms) dout X.
Proof.
  intros ms base d dout X Hd.
  eapply (aseg_one base _ (mkI base OpReturn 0 1));
    [apply dec_one1; reflexivity|reflexivity|change (1 <= d); exact Hd|reflexivity|constructor].
Qed.

(* IterationReset: the iterable becomes an iterator; a loop is opened that remembers this height *)
Lemma aseg_reset : forall ms base d (X : epred), 1 <= d ->
  aseg base [OpIterationReset] (d, ms) (d, d :: ms) X.
Proof.
  intros ms base d X Hd.
  eapply (aseg_one base _ (mkI base OpIterationReset 0 1));
    [apply dec_one1; reflexivity|reflexivity|change (1 <= d); exact Hd|reflexivity|].
  change (pops (mkI base OpIterationReset 0 1)) with 1.
  change (pushes (mkI base OpIterationReset 0 1)) with 1.
  replace (d - 1 + 1) with d by lia.
  constructor; [|constructor]. cbn [fst snd iip ilen]. left. split; [pos|apply sle_refl].
Qed.

(* IterationNext; JumpIfFalse T: the stack is cut back to the height the loop remembered; the loop
   continues with the iterator on the stack, or is left (and closed) without it.  The JumpIfFalse
   has no annotation of its own. *)
Lemma aseg_iter : forall ms base T d k dout (X : epred), T < 65536 -> 3 <= d ->
  N.min (d - 2) k <> 0 -> dout <= N.min (d - 2) k -> X T (N.min (d - 2) k - 1, ms) ->
  aseg base [OpIterationNext; OpJumpIfFalse; hi_byte T; lo_byte T] (d, k :: ms) (dout, k :: ms) X.
Proof.
  intros ms base T d k dout X HT Hd Hb Ho HX.
  exists [mkI base OpIterationNext 0 1; mkI (base + 1) OpJumpIfFalse (hi_byte T * 256 + lo_byte T) 3],
         (fun t => if t =? base then Some (d, k :: ms) else None).
  split; [apply dec_1; [reflexivity|reflexivity|apply dec_one3; reflexivity]|split].
  - cbn [entry]. exists (d, k :: ms). rewrite N.eqb_refl. split; [reflexivity|apply sle_refl].
  - cbn [flows VP.nexti]. split; [|split; [|exact I]].
    + unfold iflow. cbn [iip]. rewrite N.eqb_refl. split; [change (3 <= d); exact Hd|].
      unfold edges. cbn [iop iip iarg].
      change (OpIterationNext =? OpReturn) with false. change (OpIterationNext =? OpJump) with false.
      change (OpIterationNext =? OpJumpIfFalse) with false. change (OpIterationNext =? OpIterationReset) with false.
      change (OpIterationNext =? OpIterationNext) with true. change (OpJumpIfFalse =? OpJumpIfFalse) with true.
      cbv beta iota zeta.
      destruct (N.eqb_spec (N.min (d - 2) k) 0) as [E|_]; [contradiction|].
      eexists. split; [reflexivity|].
      constructor; [|constructor; [|constructor]]; cbn [fst snd].
      * right; left. split; [pos|apply sle_pair; exact Ho].
      * rewrite hi_lo by exact HT. right; right. exact HX.
    + unfold iflow. cbn [iip]. destruct (N.eqb_spec (base + 1) base) as [E|_]; [lia|exact I].
Qed.

(* ------------------------------------------------------------------ *)
(* PART 3: the control constructs, at the level of code *)

Definition toX (T : N) (d : astate) : epred := fun t n => t = T /\ sle d n.

Lemma aseg_eq : forall base ch ch' d dout X, aseg base ch d dout X -> ch = ch' -> aseg base ch' d dout X.
Proof. intros. subst. assumption. Qed.

Local Ltac xl := let H := fresh in intros ? ? H; left; exact H.
Local Ltac xid := let H := fresh in intros ? ? H; exact H.
Local Ltac xno := let H := fresh in intros ? ? H; destruct H.

Lemma aseg_ph : forall ms base d X, aseg base [OpPlaceholder] (d, ms) (d, ms) X.
Proof. intros. apply (aseg_op1 ms base OpPlaceholder d d 0 0); try reflexivity; lia. Qed.

(* A; JumpIfFalse T; B; T: Placeholder *)
Lemma aseg_if : forall ms base A B T d d1,
  aseg base A (d, ms) (d + 1, ms) noX -> aseg (base + lenN A + 3) B (d, ms) (d1, ms) noX -> d <= d1 ->
  T = base + lenN A + 3 + lenN B -> T < 65536 ->
  aseg base (A ++ [OpJumpIfFalse; hi_byte T; lo_byte T] ++ B ++ [OpPlaceholder]) (d, ms) (d, ms) noX.
Proof.
  intros ms base A B T d d1 SA SB Hd HT Hlt.
  set (s := (d, ms)).
  eapply aseg_eq; [eapply (aseg_app base (A ++ [OpJumpIfFalse; hi_byte T; lo_byte T] ++ B) [OpPlaceholder]
                                     s s s (toX T s) noX noX)|leq].
  - eapply (aseg_app base A _ s (d + 1, ms) s (toX T s) (toX T s) (toX T s)).
    + eapply aseg_weaken; [exact SA|sl|sl|xno].
    + eapply (aseg_app _ _ B (d + 1, ms) s s (toX T s) (toX T s) (toX T s)).
      * apply aseg_jif; [exact Hlt|lia|lia|split; [reflexivity|unfold s; sl]].
      * eapply aseg_at; [eapply aseg_weaken; [exact SB|sl|unfold s; sl|xno]|pos].
      * xl.
      * xid.
    + xl.
    + xid.
  - apply aseg_ph.
  - intros t n (Et & Hn). right. split; [subst t; pos|exact Hn].
  - xid.
Qed.

(* A; JumpIfFalse T1; B; Jump T2; T1: C; T2: Placeholder (if/else and the ternary) *)
Lemma aseg_if_else : forall ms base A B C T1 T2 d d1 d2 dj,
  aseg base A (d, ms) (d + 1, ms) noX -> aseg (base + lenN A + 3) B (d, ms) (d1, ms) noX ->
  aseg T1 C (d, ms) (d2, ms) noX ->
  dj <= d1 -> dj <= d2 ->
  T1 = base + lenN A + 3 + lenN B + 3 -> T2 = T1 + lenN C -> T2 < 65536 ->
  aseg base (A ++ [OpJumpIfFalse; hi_byte T1; lo_byte T1] ++ B ++
             [OpJump; hi_byte T2; lo_byte T2] ++ C ++ [OpPlaceholder]) (d, ms) (dj, ms) noX.
Proof.
  intros ms base A B C T1 T2 d d1 d2 dj SA SB SC H1 H2 HT1 HT2 Hlt.
  set (s := (d, ms)). set (sj := (dj, ms)).
  set (X12 := fun t n => (t = T1 /\ sle s n) \/ (t = T2 /\ sle sj n)).
  set (P1 := A ++ [OpJumpIfFalse; hi_byte T1; lo_byte T1] ++ B ++ [OpJump; hi_byte T2; lo_byte T2]).
  assert (L1 : base + lenN P1 = T1) by (unfold P1; pos).
  assert (S1 : aseg base P1 s s X12).
  { unfold P1. eapply (aseg_app base A _ s (d + 1, ms) s X12 X12 X12).
    - eapply aseg_weaken; [exact SA|sl|sl|xno].
    - eapply (aseg_app _ _ _ (d + 1, ms) s s X12 X12 X12).
      + apply aseg_jif; [lia|lia|lia|left; split; [reflexivity|unfold s; sl]].
      + eapply (aseg_app _ B _ s (d1, ms) s X12 X12 X12).
        * eapply aseg_at; [eapply aseg_weaken; [exact SB|sl|sl|xno]|pos].
        * apply aseg_jump; [exact Hlt|right; split; [reflexivity|unfold sj; sl]].
        * xl.
        * xid.
      + xl.
      + xid.
    - xl.
    - xid. }
  assert (S2 : aseg base (P1 ++ C) s sj (toX T2 sj)).
  { eapply (aseg_app base P1 C s s sj X12 noX (toX T2 sj)).
    - exact S1.
    - eapply aseg_at; [eapply aseg_weaken; [exact SC|sl|unfold sj; sl|xid]|lia].
    - intros t n [(Et & Hn)|(Et & Hn)]; [right; split; [lia|exact Hn]|left; split; assumption].
    - xno. }
  eapply aseg_eq; [eapply (aseg_app base (P1 ++ C) [OpPlaceholder] s sj sj (toX T2 sj) noX noX)|unfold P1; leq].
  - exact S2.
  - apply aseg_ph.
  - intros t n (Et & Hn). right. split; [subst t; pos|exact Hn].
  - xid.
Qed.

(* base: H (head, leaves to T in the state (de, me)); B; Jump base; T: Placeholder.
   For `while`, mh = me; for `foreach` the head and the body are inside the loop (mh = k :: me). *)
Lemma aseg_loop : forall mh me base H B T dh db de d1,
  aseg base H (dh, mh) (db, mh) (toX T (de, me)) -> aseg (base + lenN H) B (db, mh) (d1, mh) noX -> dh <= d1 ->
  T = base + lenN H + lenN B + 3 -> T < 65536 -> H <> [] ->
  aseg base (H ++ B ++ [OpJump; hi_byte base; lo_byte base] ++ [OpPlaceholder]) (dh, mh) (de, me) noX.
Proof.
  intros mh me base H B T dh db de d1 SH SB Hd HT Hlt Hne.
  set (sh := (dh, mh)). set (se := (de, me)).
  set (XL := fun t n => toX T se t n \/ (t = base /\ sle sh n)).
  set (P1 := H ++ B ++ [OpJump; hi_byte base; lo_byte base]).
  assert (S1 : aseg base P1 sh se XL).
  { unfold P1. eapply (aseg_app base H _ sh (db, mh) se XL XL XL).
    - eapply aseg_weaken; [exact SH|sl|sl|xl].
    - eapply (aseg_app _ B _ (db, mh) (d1, mh) se XL XL XL).
      + eapply aseg_weaken; [exact SB|sl|sl|xno].
      + apply aseg_jump; [lia|right; split; [reflexivity|unfold sh; sl]].
      + xl.
      + xid.
    - xl.
    - xid. }
  apply aseg_close.
  { destruct H; [contradiction|discriminate]. }
  eapply aseg_eq; [eapply (aseg_app base P1 [OpPlaceholder] sh se se XL noX)|unfold P1; leq].
  - exact S1.
  - apply aseg_ph.
  - intros t n [(Et & Hn)|Hb]; [right; split; [subst t; unfold P1; pos|exact Hn]|left; right; exact Hb].
  - xno.
Qed.

(* one arm of a switch: V; X; Case; JumpIfFalse Ln; Blk; Jump E; Ln: *)
Lemma aseg_case_head : forall ms base V Xc Blk Ln E d d1,
  aseg base V (d, ms) (d + 1, ms) noX -> aseg (base + lenN V) Xc (d + 1, ms) (d + 1 + 1, ms) noX ->
  aseg (base + lenN V + lenN Xc + 4) Blk (d, ms) (d1, ms) noX -> d <= d1 ->
  Ln = base + lenN V + lenN Xc + 4 + lenN Blk + 3 -> Ln < 65536 -> E < 65536 ->
  aseg base (V ++ Xc ++ [OpCase] ++ [OpJumpIfFalse; hi_byte Ln; lo_byte Ln] ++ Blk ++
             [OpJump; hi_byte E; lo_byte E]) (d, ms) (d, ms) (toX E (d, ms)).
Proof.
  intros ms base V Xc Blk Ln E d d1 SV SX SB Hd HLn Hlt HE.
  apply aseg_absorb.
  set (s := (d, ms)).
  set (XA := fun t n => toX E s t n \/
     (t = base + lenN (V ++ Xc ++ [OpCase] ++ [OpJumpIfFalse; hi_byte Ln; lo_byte Ln] ++ Blk ++
                       [OpJump; hi_byte E; lo_byte E]) /\ sle s n)).
  eapply (aseg_app base V _ s (d + 1, ms) s XA XA XA).
  - eapply aseg_weaken; [exact SV|sl|sl|xno].
  - eapply (aseg_app _ Xc _ (d + 1, ms) (d + 1 + 1, ms) s XA XA XA).
    + eapply aseg_weaken; [exact SX|sl|sl|xno].
    + eapply (aseg_app _ [OpCase] _ (d + 1 + 1, ms) (d + 1, ms) s XA XA XA).
      * apply (aseg_op1 ms _ OpCase (d + 1 + 1) (d + 1) 2 1); try reflexivity; lia.
      * eapply (aseg_app _ _ _ (d + 1, ms) s s XA XA XA).
        -- apply aseg_jif; [exact Hlt|lia|lia|]. right. split; [pos|unfold s; sl].
        -- eapply (aseg_app _ Blk _ s (d1, ms) s XA XA XA).
           ++ eapply aseg_at; [eapply aseg_weaken; [exact SB|sl|sl|xno]|pos].
           ++ apply aseg_jump; [exact HE|left; split; [reflexivity|unfold s; sl]].
           ++ xl.
           ++ xid.
        -- xl.
        -- xid.
      * xl.
      * xid.
    + xl.
    + xid.
  - xl.
  - xid.
Qed.

(* the arms g; the default blocks D; E: Placeholder *)
Lemma aseg_switch : forall ms base g D E d d1,
  aseg base g (d, ms) (d, ms) (toX E (d, ms)) -> aseg (base + lenN g) D (d, ms) (d1, ms) noX -> d <= d1 ->
  E = base + lenN g + lenN D ->
  aseg base (g ++ D ++ [OpPlaceholder]) (d, ms) (d, ms) noX.
Proof.
  intros ms base g D E d d1 Sg SD Hd HE.
  set (s := (d, ms)).
  eapply aseg_eq; [eapply (aseg_app base (g ++ D) [OpPlaceholder] s s s (toX E s) noX noX)|leq].
  - eapply (aseg_app base g D s s s (toX E s) (toX E s) (toX E s)).
    + exact Sg.
    + eapply aseg_weaken; [exact SD|sl|unfold s; sl|xno].
    + xl.
    + xid.
  - apply aseg_ph.
  - intros t n (Et & Hn). right. split; [subst t; pos|exact Hn].
  - xid.
Qed.

(* a function body that does not end in Return gets `Void; Return` appended *)
Lemma aseg_fn_tail : forall A dout, aseg 0 A (0, []) (dout, []) noX ->
  aseg 0 (A ++ [OpVoid; OpReturn]) (0, []) (0, []) noX.
Proof.
  intros A dout SA.
  eapply (aseg_app 0 A [OpVoid; OpReturn] (0, []) (dout, []) (0, []) noX noX noX).
  - exact SA.
  - change [OpVoid; OpReturn] with ([OpVoid] ++ [OpReturn]).
    eapply (aseg_app _ [OpVoid] [OpReturn] (dout, []) (dout + 1, []) (0, []) noX noX noX).
    + apply (aseg_op1 [] _ OpVoid dout (dout + 1) 0 1); try reflexivity; lia.
    + apply aseg_return. lia.
    + xl.
    + xid.
  - xl.
  - xid.
Qed.
(* ------------------------------------------------------------------ *)
(* PART 4: compiler states *)

(* a body with an annotation: entered with an empty stack *)
Definition body_ann (code : list N) : Prop := exists dout, aseg 0 code (0, []) (dout, []) noX.

Definition FA (fs : list (str * ufunc)) : Prop :=
  Forall (fun nf => lenN (fcode (snd nf)) <= 65535 -> body_ann (fcode (snd nf))) fs.

Lemma FA_set_func : forall name fn fs,
  (lenN (fcode fn) <= 65535 -> body_ann (fcode fn)) -> FA fs -> FA (set_func name fn fs).
Proof.
  intros name fn fs Hfn. induction fs as [|[n g] fs IH]; intro H.
  - cbn [set_func]. constructor; [exact Hfn|constructor].
  - cbn [set_func]. inversion H as [|x l Hx Hl]; subst. destruct (str_eqb n name).
    + constructor; [exact Hfn|exact Hl].
    + constructor; [exact Hx|apply IH; exact Hl].
Qed.

Definition fpa (c c' : cstate) : Prop := FA (funcs c) -> FA (funcs c').

Lemma fpa_refl : forall c, fpa c c.
Proof. intros c H. exact H. Qed.
Lemma fpa_trans : forall a b c, fpa a b -> fpa b c -> fpa a c.
Proof. intros a b c H1 H2 H. auto. Qed.
Lemma fpa_emit0' : forall c c1 op, fpa c c1 -> fpa c (emit0 op c1).
Proof. intros c c1 op H. exact H. Qed.
Lemma fpa_emit1' : forall c c1 op v, fpa c c1 -> fpa c (emit1' op v c1).
Proof. intros c c1 op v H. exact H. Qed.
Lemma fpa_patch' : forall c c1 p v, fpa c c1 -> fpa c (patch p v c1).
Proof. intros c c1 p v H. exact H. Qed.
Lemma fpa_patch_all' : forall ps c c1 v, fpa c c1 -> fpa c (patch_all ps v c1).
Proof.
  induction ps as [|p ps IH]; intros c c1 v H; cbn [patch_all]; [exact H|].
  apply IH. apply fpa_patch'. exact H.
Qed.
Lemma fpa_add' : forall c c1 c2 op v i, add_const v c1 = (i, c2) -> fpa c c1 -> fpa c (emit1' op i c2).
Proof.
  intros c c1 c2 op v i H F K. apply add_const_facts in H. destruct H as (_ & _ & Hf & _ & _).
  cbn [emit1' emit1 snd funcs]. rewrite Hf. apply F. exact K.
Qed.
Lemma fpa_const' : forall c c1 v, fpa c c1 -> fpa c (emit_const v c1).
Proof.
  intros c c1 v F. unfold emit_const. destruct (add_const v c1) as [i c2] eqn:E.
  eapply fpa_add'; eassumption.
Qed.

Local Ltac fp :=
  repeat first
    [ assumption
    | apply fpa_refl
    | apply fpa_emit0'
    | apply fpa_emit1'
    | apply fpa_patch'
    | apply fpa_patch_all'
    | apply fpa_const'
    | match goal with H : fpa ?a ?b |- fpa _ ?b => apply (fpa_trans _ a b); [|exact H] end ].

Definition sml (c : cstate) : Prop := clen c <= 65535.

Lemma sml_back : forall c c' ch, cstate_ok c -> emits c c' ch -> sml c' -> sml c.
Proof. intros c c' ch Hc E S. pose proof (emits_len _ _ _ Hc E) as L. unfold sml in *. lia. Qed.

(* compiling from c to c' appended a fragment that takes depth d to depth >= dout, whatever loops
   are open around it (and leaves them open) *)
Definition Mx (d dout : N) (c c' : cstate) : Prop :=
  exists ch, emits c c' ch /\ fpa c c' /\ (sml c' -> forall ms, aseg (clen c) ch (d, ms) (dout, ms) noX).
(* the same for a fragment that is entered with the loops k open and closes them *)
Definition Mxl (k : list N) (d dout : N) (c c' : cstate) : Prop :=
  exists ch, emits c c' ch /\ fpa c c' /\ (sml c' -> forall ms, aseg (clen c) ch (d, k ++ ms) (dout, ms) noX).

Lemma Mx_ok : forall d e c c', Mx d e c c' -> cstate_ok c'.
Proof. intros d e c c' (ch & E & _). apply E. Qed.

Lemma Mx_refl : forall d c, cstate_ok c -> Mx d d c c.
Proof.
  intros d c Hc. exists []. split; [apply emits_refl; exact Hc|split; [apply fpa_refl|]].
  intros _ ms. apply aseg_nil. sl.
Qed.

Lemma Mx_trans : forall d d1 d2 c c1 c2, cstate_ok c -> Mx d d1 c c1 -> Mx d1 d2 c1 c2 -> Mx d d2 c c2.
Proof.
  intros d d1 d2 c c1 c2 Hc (A & E1 & F1 & S1) (B & E2 & F2 & S2).
  assert (Hc1 : cstate_ok c1) by apply E1.
  pose proof (emits_len _ _ _ Hc E1) as L1.
  exists (A ++ B). split; [eapply emits_trans; eassumption|split; [eapply fpa_trans; eassumption|]].
  intros sm2 ms. pose proof (sml_back _ _ _ Hc1 E2 sm2) as sm1.
  eapply (aseg_app (clen c) A B (d, ms) (d1, ms) (d2, ms) noX noX noX).
  - exact (S1 sm1 ms).
  - eapply aseg_at; [exact (S2 sm2 ms)|lia].
  - intros t n [].
  - intros t n [].
Qed.

Lemma Mx_weaken : forall d dout dout' c c', Mx d dout c c' -> dout' <= dout -> Mx d dout' c c'.
Proof.
  intros d dout dout' c c' (ch & E & F & S) H. exists ch. split; [exact E|split; [exact F|]].
  intros sm ms. eapply aseg_weaken; [exact (S sm ms)|sl|sl|auto].
Qed.

Lemma Mx_emit0 : forall op c d p q, cstate_ok c ->
  memN op known_ops = true -> op_len op = 1 -> ctl op = false ->
  pops (mkI 0 op 0 1) = p -> pushes (mkI 0 op 0 1) = q -> p <= d ->
  Mx d (d - p + q) c (emit0 op c).
Proof.
  intros op c d p q Hc Hk Hl Hct Hp Hq Hle. exists [op].
  split; [apply emits_emit0; exact Hc|split; [fp|]].
  intros _ ms. apply (aseg_op1 ms _ op d _ p q); try assumption. lia.
Qed.

Lemma Mx_emit1 : forall op v c d p q, cstate_ok c ->
  memN op known_ops = true -> op_len op = 3 -> ctl op = false ->
  pops (mkI 0 op (hi_byte v * 256 + lo_byte v) 3) = p -> pushes (mkI 0 op 0 1) = q -> p <= d ->
  Mx d (d - p + q) c (emit1' op v c).
Proof.
  intros op v c d p q Hc Hk Hl Hct Hp Hq Hle. exists [op; hi_byte v; lo_byte v].
  split; [apply emits_emit1; exact Hc|split; [fp|]].
  intros _ ms. apply (aseg_op3 ms _ op _ _ d _ p q); try assumption. lia.
Qed.

Lemma Mx_add : forall op v c i c1 d p q, cstate_ok c -> add_const v c = (i, c1) ->
  memN op known_ops = true -> op_len op = 3 -> ctl op = false ->
  pops (mkI 0 op (hi_byte i * 256 + lo_byte i) 3) = p -> pushes (mkI 0 op 0 1) = q -> p <= d ->
  Mx d (d - p + q) c (emit1' op i c1).
Proof.
  intros op v c i c1 d p q Hc H Hk Hl Hct Hp Hq Hle. exists [op; hi_byte i; lo_byte i].
  split; [eapply emits_add'; eassumption|split; [eapply fpa_add'; [exact H|fp]|]].
  intros _ ms. apply (aseg_op3 ms _ op _ _ d _ p q); try assumption. lia.
Qed.

Lemma Mx_const : forall v c d, cstate_ok c -> Mx d (d + 1) c (emit_const v c).
Proof.
  intros v c d Hc. unfold emit_const. destruct (add_const v c) as [i c1] eqn:E.
  eapply Mx_weaken; [eapply (Mx_add OpConstant v c i c1 d 0 1); try reflexivity; [exact Hc|exact E|lia]|lia].
Qed.

Lemma hi_lo_le : forall v, hi_byte v * 256 + lo_byte v <= v.
Proof.
  intro v. destruct (N.lt_ge_cases v 65536) as [H|H]; [rewrite hi_lo by exact H; lia|].
  unfold hi_byte, lo_byte.
  assert (H1 : v mod 65536 < 65536) by (apply N.mod_lt; lia).
  assert (H2 : v mod 65536 / 256 < 256) by (apply N.div_lt_upper_bound; lia).
  assert (H3 : v mod 256 < 256) by (apply N.mod_lt; lia).
  lia.
Qed.

(* ---- the control constructs ---- *)

Lemma mc_if_none : forall d d1 c c1 c3, cstate_ok c -> Mx d (d + 1) c c1 ->
  Mx d d1 (emit1' OpJumpIfFalse 9999 c1) c3 -> d <= d1 ->
  Mx d d c (emit0 OpPlaceholder (patch (clen c1) (clen c3) c3)).
Proof.
  intros d d1 c c1 c3 Hc (A & E1 & F1 & S1) (B & E3 & F3 & S3) Hd.
  assert (Hc1 : cstate_ok c1) by apply E1.
  pose proof (emits_emit1 OpJumpIfFalse 9999 c1 Hc1) as E2.
  set (c2 := emit1' OpJumpIfFalse 9999 c1) in *.
  assert (Hc2 : cstate_ok c2) by apply E2.
  pose proof (emits_len _ _ _ Hc E1) as L1.
  pose proof (emits_len _ _ _ Hc1 E2) as L2.
  pose proof (emits_len _ _ _ Hc2 E3) as L3.
  change (lenN [OpJumpIfFalse; hi_byte 9999; lo_byte 9999]) with 3 in L2.
  assert (E13 : emits c c3 (A ++ OpJumpIfFalse :: hi_byte 9999 :: lo_byte 9999 :: B)).
  { eapply emits_eq; [eapply emits_trans; [exact E1|eapply emits_trans; [exact E2|exact E3]]|leq]. }
  set (T := clen c3) in *.
  destruct (patch_emits c c3 A _ _ _ B (clen c1) T Hc E13 L1) as (E4 & L4 & CS4).
  set (c4 := patch (clen c1) T c3) in *.
  assert (Hc4 : cstate_ok c4) by apply E4.
  exists (A ++ [OpJumpIfFalse; hi_byte T; lo_byte T] ++ B ++ [OpPlaceholder]). split; [|split].
  - eapply emits_eq; [eapply emits_trans; [exact E4|apply emits_emit0; exact Hc4]|leq].
  - unfold c4, c2 in *. fp.
  - intros sl ms. unfold sml in sl. cbn [emit0 clen] in sl.
    assert (sm3 : sml c3) by (unfold sml; lia).
    assert (sm1 : sml c1).
    { eapply sml_back; [exact Hc1|eapply emits_trans; [exact E2|exact E3]|exact sm3]. }
    eapply (aseg_if ms _ A B T d d1).
    + exact (S1 sm1 ms).
    + eapply aseg_at; [exact (S3 sm3 ms)|lia].
    + exact Hd.
    + lia.
    + lia.
Qed.

(* if/else (dj = d) and the ternary (d1 = d2 = dj = d + 1) *)
Lemma mc_if_else : forall d d1 d2 dj c c1 c3 c7, cstate_ok c -> Mx d (d + 1) c c1 ->
  Mx d d1 (emit1' OpJumpIfFalse 9999 c1) c3 ->
  let c4 := patch (clen c1) (clen c3) c3 in
  let c5 := emit1' OpJump 9999 c4 in
  let c6 := patch (clen c1) (clen c5) c5 in
  Mx d d2 c6 c7 -> dj <= d1 -> dj <= d2 ->
  Mx d dj c (emit0 OpPlaceholder (patch (clen c4) (clen c7) c7)).
Proof.
  intros d d1 d2 dj c c1 c3 c7 Hc (code1 & E1 & F1 & S1) (code3 & E3 & F3 & S3) c4 c5 c6
         (code7 & E7 & F7 & S7) Hj1 Hj2.
  assert (Hc1 : cstate_ok c1) by apply E1.
  pose proof (emits_emit1 OpJumpIfFalse 9999 c1 Hc1) as E2.
  set (c2 := emit1' OpJumpIfFalse 9999 c1) in *.
  assert (Hc2 : cstate_ok c2) by apply E2.
  pose proof (emits_len _ _ _ Hc E1) as L1.
  pose proof (emits_len _ _ _ Hc1 E2) as L2.
  pose proof (emits_len _ _ _ Hc2 E3) as L3.
  assert (E13 : emits c c3 (code1 ++ OpJumpIfFalse :: hi_byte 9999 :: lo_byte 9999 :: code3)).
  { eapply emits_eq; [eapply emits_trans; [exact E1|eapply emits_trans; [exact E2|exact E3]]|leq]. }
  destruct (patch_emits c c3 code1 _ _ _ code3 (clen c1) (clen c3) Hc E13 L1) as (E4 & L4 & CS4).
  fold c4 in E4, L4, CS4.
  assert (Hc4 : cstate_ok c4) by apply E4.
  pose proof (emits_emit1 OpJump 9999 c4 Hc4) as E5. fold c5 in E5.
  assert (Hc5 : cstate_ok c5) by apply E5.
  pose proof (emits_len _ _ _ Hc4 E5) as L5.
  set (T1 := clen c5) in *.
  assert (E15 : emits c c5 (code1 ++ OpJumpIfFalse :: hi_byte (clen c3) :: lo_byte (clen c3) ::
                              (code3 ++ [OpJump; hi_byte 9999; lo_byte 9999]))).
  { eapply emits_eq; [eapply emits_trans; [exact E4|exact E5]|leq]. }
  destruct (patch_emits c c5 code1 _ _ _ _ (clen c1) T1 Hc E15 L1) as (E6 & L6 & CS6).
  fold c6 in E6, L6, CS6.
  assert (Hc6 : cstate_ok c6) by apply E6.
  pose proof (emits_len _ _ _ Hc6 E7) as L7.
  set (T2 := clen c7) in *.
  assert (E17 : emits c c7 ((code1 ++ [OpJumpIfFalse; hi_byte T1; lo_byte T1] ++ code3) ++
                            OpJump :: hi_byte 9999 :: lo_byte 9999 :: code7)).
  { eapply emits_eq; [eapply emits_trans; [exact E6|exact E7]|leq]. }
  change (lenN [OpJumpIfFalse; hi_byte 9999; lo_byte 9999]) with 3 in *.
  change (lenN [OpJump; hi_byte 9999; lo_byte 9999]) with 3 in *.
  destruct (patch_emits c c7 _ _ _ _ code7 (clen c4) T2 Hc E17) as (E8 & L8 & CS8).
  { rewrite L4, L3, L2, L1. pos. }
  set (c8 := patch (clen c4) T2 c7) in *.
  assert (Hc8 : cstate_ok c8) by apply E8.
  exists (code1 ++ [OpJumpIfFalse; hi_byte T1; lo_byte T1] ++ code3 ++
          [OpJump; hi_byte T2; lo_byte T2] ++ code7 ++ [OpPlaceholder]). split; [|split].
  - eapply emits_eq; [eapply emits_trans; [exact E8|apply emits_emit0; exact Hc8]|leq].
  - unfold c8, c6, c5, c4, c2 in *. fp.
  - intros sl ms. unfold sml in sl. cbn [emit0 clen] in sl.
    assert (sm7 : sml c7) by (unfold sml; lia).
    assert (sm3 : sml c3) by (unfold sml; lia).
    assert (sm1 : sml c1).
    { eapply sml_back; [exact Hc1|eapply emits_trans; [exact E2|exact E3]|exact sm3]. }
    eapply (aseg_if_else ms _ code1 code3 code7 T1 T2 d d1 d2 dj).
    + exact (S1 sm1 ms).
    + eapply aseg_at; [exact (S3 sm3 ms)|lia].
    + eapply aseg_at; [exact (S7 sm7 ms)|lia].
    + exact Hj1.
    + exact Hj2.
    + lia.
    + lia.
    + lia.
Qed.

Lemma mc_ternary : forall d c c1 c3 c6, cstate_ok c -> Mx d (d + 1) c c1 ->
  Mx d (d + 1) (emit1' OpJumpIfFalse 9999 c1) c3 ->
  let c4 := emit1' OpJump 9999 c3 in
  let c5 := patch (clen c1) (clen c4) c4 in
  Mx d (d + 1) c5 c6 -> Mx d (d + 1) c (emit0 OpPlaceholder (patch (clen c3) (clen c6) c6)).
Proof.
  intros d c c1 c3 c6 Hc (code1 & E1 & F1 & S1) (code3 & E3 & F3 & S3) c4 c5 (code6 & E6 & F6 & S6).
  assert (Hc1 : cstate_ok c1) by apply E1.
  pose proof (emits_emit1 OpJumpIfFalse 9999 c1 Hc1) as E2.
  set (c2 := emit1' OpJumpIfFalse 9999 c1) in *.
  assert (Hc2 : cstate_ok c2) by apply E2.
  assert (Hc3 : cstate_ok c3) by apply E3.
  pose proof (emits_len _ _ _ Hc E1) as L1.
  pose proof (emits_len _ _ _ Hc1 E2) as L2.
  pose proof (emits_len _ _ _ Hc2 E3) as L3.
  pose proof (emits_emit1 OpJump 9999 c3 Hc3) as E4. fold c4 in E4.
  assert (Hc4 : cstate_ok c4) by apply E4.
  pose proof (emits_len _ _ _ Hc3 E4) as L4.
  set (T1 := clen c4) in *.
  assert (E14 : emits c c4 (code1 ++ OpJumpIfFalse :: hi_byte 9999 :: lo_byte 9999 ::
                              (code3 ++ [OpJump; hi_byte 9999; lo_byte 9999]))).
  { eapply emits_eq; [eapply emits_trans; [exact E1|eapply emits_trans; [exact E2|
      eapply emits_trans; [exact E3|exact E4]]]|leq]. }
  destruct (patch_emits c c4 code1 _ _ _ _ (clen c1) T1 Hc E14 L1) as (E5 & L5 & CS5).
  fold c5 in E5, L5, CS5.
  assert (Hc5 : cstate_ok c5) by apply E5.
  pose proof (emits_len _ _ _ Hc5 E6) as L6.
  set (T2 := clen c6) in *.
  assert (E16 : emits c c6 ((code1 ++ [OpJumpIfFalse; hi_byte T1; lo_byte T1] ++ code3) ++
                            OpJump :: hi_byte 9999 :: lo_byte 9999 :: code6)).
  { eapply emits_eq; [eapply emits_trans; [exact E5|exact E6]|leq]. }
  change (lenN [OpJumpIfFalse; hi_byte 9999; lo_byte 9999]) with 3 in *.
  change (lenN [OpJump; hi_byte 9999; lo_byte 9999]) with 3 in *.
  destruct (patch_emits c c6 _ _ _ _ code6 (clen c3) T2 Hc E16) as (E7 & L7 & CS7).
  { rewrite L3, L2, L1. pos. }
  set (c7 := patch (clen c3) T2 c6) in *.
  assert (Hc7 : cstate_ok c7) by apply E7.
  exists (code1 ++ [OpJumpIfFalse; hi_byte T1; lo_byte T1] ++ code3 ++
          [OpJump; hi_byte T2; lo_byte T2] ++ code6 ++ [OpPlaceholder]). split; [|split].
  - eapply emits_eq; [eapply emits_trans; [exact E7|apply emits_emit0; exact Hc7]|leq].
  - unfold c7, c5, c4, c2 in *. fp.
  - intros sl ms. unfold sml in sl. cbn [emit0 clen] in sl.
    assert (sm6 : sml c6) by (unfold sml; lia).
    assert (sm3 : sml c3) by (unfold sml; lia).
    assert (sm1 : sml c1).
    { eapply sml_back; [exact Hc1|eapply emits_trans; [exact E2|exact E3]|exact sm3]. }
    eapply (aseg_if_else ms _ code1 code3 code6 T1 T2 d (d + 1) (d + 1) (d + 1)).
    + exact (S1 sm1 ms).
    + eapply aseg_at; [exact (S3 sm3 ms)|lia].
    + eapply aseg_at; [exact (S6 sm6 ms)|lia].
    + lia.
    + lia.
    + lia.
    + lia.
    + lia.
Qed.

(* the head of a loop: code followed by a conditional jump out of the loop *)
(* k: the loops that the head finds open and that are closed on the way out (none for `while`,
   the loop itself for `foreach`) *)
Definition Hx (k : list N) (dh db de : N) (ca cb : cstate) : Prop :=
  exists code1, emits ca cb code1 /\ fpa ca cb /\
    (sml cb -> forall ms T, T < 65536 ->
       aseg (clen ca) (code1 ++ [OpJumpIfFalse; hi_byte T; lo_byte T]) (dh, k ++ ms) (db, k ++ ms) (toX T (de, ms))).

Lemma Hx_cond : forall d ca cb, cstate_ok ca -> Mx d (d + 1) ca cb -> Hx [] d d d ca cb.
Proof.
  intros d ca cb Hc (A & E1 & F1 & S1). exists A. split; [exact E1|split; [exact F1|]].
  intros sm ms T HT. cbn [app].
  eapply (aseg_app (clen ca) A _ (d, ms) (d + 1, ms) (d, ms) noX (toX T (d, ms)) (toX T (d, ms))).
  - exact (S1 sm ms).
  - apply aseg_jif; [exact HT|lia|lia|split; [reflexivity|sl]].
  - intros t n [].
  - auto.
Qed.

Lemma Hx_foreach : forall d idx ident c2, cstate_ok c2 ->
  Hx [d + 1] (d + 1) (d + 1) d c2 (emit0 OpIterationNext (emit_const (VStr ident) (emit_const (VStr idx) c2))).
Proof.
  intros d idx ident c2 Hc2.
  pose proof (Mx_const (VStr idx) c2 (d + 1) Hc2) as R1.
  pose proof (Mx_const (VStr ident) _ (d + 1 + 1) (Mx_ok _ _ _ _ R1)) as R2.
  destruct (Mx_trans _ _ _ _ _ _ Hc2 R1 R2) as (cc & E & F & S).
  set (c3 := emit_const (VStr ident) (emit_const (VStr idx) c2)) in *.
  assert (Hc3 : cstate_ok c3) by apply E.
  pose proof (emits_emit0 OpIterationNext c3 Hc3) as E4.
  exists (cc ++ [OpIterationNext]). split; [eapply emits_trans; eassumption|split; [fp|]].
  intros sm ms T HT. unfold sml in sm. cbn [emit0 clen] in sm. cbn [app].
  assert (sm3 : sml c3) by (unfold sml; lia).
  assert (Hb : N.min (d + 1 + 1 + 1 - 2) (d + 1) = d + 1) by lia.
  eapply aseg_eq; [eapply (aseg_app (clen c2) cc [OpIterationNext; OpJumpIfFalse; hi_byte T; lo_byte T]
                                    (d + 1, (d + 1) :: ms) (d + 1 + 1 + 1, (d + 1) :: ms) (d + 1, (d + 1) :: ms)
                                    noX (toX T (d, ms)) (toX T (d, ms)))|leq].
  - exact (S sm3 ((d + 1) :: ms)).
  - apply aseg_iter; [exact HT|lia|lia|lia|]. rewrite Hb. split; [reflexivity|sl].
  - intros t n [].
  - auto.
Qed.

Lemma mc_loop : forall k dh db de d1 ca cb c6, cstate_ok ca -> Hx k dh db de ca cb ->
  Mx db d1 (emit1' OpJumpIfFalse 9999 cb) c6 -> dh <= d1 ->
  let c7 := emit1' OpJump (clen ca) c6 in
  Mxl k dh de ca (emit0 OpPlaceholder (patch (clen cb) (clen c7) c7)).
Proof.
  intros k dh db de d1 c c1 c3 Hc (code1 & E1 & F1 & S1) (code3 & E3 & F3 & S3) Hd c4.
  assert (Hc1 : cstate_ok c1) by apply E1.
  pose proof (emits_emit1 OpJumpIfFalse 9999 c1 Hc1) as E2.
  set (c2 := emit1' OpJumpIfFalse 9999 c1) in *.
  assert (Hc2 : cstate_ok c2) by apply E2.
  assert (Hc3 : cstate_ok c3) by apply E3.
  pose proof (emits_len _ _ _ Hc E1) as L1.
  pose proof (emits_len _ _ _ Hc1 E2) as L2.
  pose proof (emits_len _ _ _ Hc2 E3) as L3.
  pose proof (emits_emit1 OpJump (clen c) c3 Hc3) as E4. fold c4 in E4.
  assert (Hc4 : cstate_ok c4) by apply E4.
  pose proof (emits_len _ _ _ Hc3 E4) as L4.
  set (T := clen c4) in *. set (S0 := clen c) in *.
  assert (E14 : emits c c4 (code1 ++ OpJumpIfFalse :: hi_byte 9999 :: lo_byte 9999 ::
                              (code3 ++ [OpJump; hi_byte S0; lo_byte S0]))).
  { eapply emits_eq; [eapply emits_trans; [exact E1|eapply emits_trans; [exact E2|
      eapply emits_trans; [exact E3|exact E4]]]|leq]. }
  destruct (patch_emits c c4 code1 _ _ _ _ (clen c1) T Hc E14 L1) as (E5 & L5 & CS5).
  set (c5 := patch (clen c1) T c4) in *.
  assert (Hc5 : cstate_ok c5) by apply E5.
  change (lenN [OpJumpIfFalse; hi_byte 9999; lo_byte 9999]) with 3 in *.
  change (lenN [OpJump; hi_byte S0; lo_byte S0]) with 3 in *.
  exists (code1 ++ [OpJumpIfFalse; hi_byte T; lo_byte T] ++ code3 ++
          [OpJump; hi_byte S0; lo_byte S0] ++ [OpPlaceholder]). split; [|split].
  - eapply emits_eq; [eapply emits_trans; [exact E5|apply emits_emit0; exact Hc5]|leq].
  - unfold c5, c4, c2 in *. fp.
  - intros sl ms. unfold sml in sl. cbn [emit0 clen] in sl.
    assert (sm3 : sml c3) by (unfold sml; lia).
    assert (sm1 : sml c1).
    { eapply sml_back; [exact Hc1|eapply emits_trans; [exact E2|exact E3]|exact sm3]. }
    eapply aseg_eq; [eapply (aseg_loop (k ++ ms) ms S0 (code1 ++ [OpJumpIfFalse; hi_byte T; lo_byte T]) code3 T dh db de d1)|leq].
    + apply (S1 sm1). lia.
    + eapply aseg_at; [exact (S3 sm3 (k ++ ms))|unfold S0; pos].
    + exact Hd.
    + unfold S0. pos.
    + lia.
    + destruct code1; discriminate.
Qed.

(* ---- switch ---- *)

Definition Mce (d : N) (c c' : cstate) (patches po : list N) : Prop :=
  exists new g, po = patches ++ new /\ (forall E, lenN (g E) = lenN (g 0)) /\
    emits c c' (g 9999) /\ patchable new (clen c) g /\ fpa c c' /\
    (forall E ms, sml c' -> E < 65536 -> aseg (clen c) (g E) (d, ms) (d, ms) (toX E (d, ms))).

Lemma Mce_ok : forall d c c' p po, Mce d c c' p po -> cstate_ok c'.
Proof. intros d c c' p po (new & g & _ & _ & E & _). apply E. Qed.

Lemma Mce_nil : forall d c patches, cstate_ok c -> Mce d c c patches patches.
Proof.
  intros d c patches Hc. exists [], (fun _ => []).
  split; [symmetry; apply app_nil_r|split; [reflexivity|split; [|split; [|split]]]].
  - apply emits_refl. exact Hc.
  - apply patchable_nil.
  - apply fpa_refl.
  - intros. apply aseg_nil. sl.
Qed.

Lemma Mce_trans : forall d c c1 c' patches p1 po, cstate_ok c ->
  Mce d c c1 patches p1 -> Mce d c1 c' p1 po -> Mce d c c' patches po.
Proof.
  intros d c c1 c' patches p1 po Hc (new1 & g1 & Hp1 & Hl1 & Em1 & Pat1 & F1 & Sem1)
         (new2 & g2 & Hp2 & Hl2 & Em2 & Pat2 & F2 & Sem2).
  assert (Hc1 : cstate_ok c1) by apply Em1.
  pose proof (emits_len _ _ _ Hc Em1) as L1.
  exists (new1 ++ new2), (fun E => g1 E ++ g2 E).
  split; [rewrite Hp2, Hp1; leq|split; [|split; [|split; [|split]]]].
  - intro E. rewrite !lenN_app, (Hl1 E), (Hl2 E). reflexivity.
  - eapply emits_trans; eassumption.
  - apply patchable_app; [exact Hl1|exact Pat1|].
    replace (clen c + lenN (g1 0)) with (clen c1) by (rewrite <- (Hl1 9999); lia). exact Pat2.
  - eapply fpa_trans; eassumption.
  - intros E ms sm HE. pose proof (sml_back _ _ _ Hc1 Em2 sm) as sm1.
    eapply (aseg_app (clen c) (g1 E) (g2 E) (d, ms) (d, ms) (d, ms) (toX E (d, ms)) (toX E (d, ms)) (toX E (d, ms))).
    + apply Sem1; assumption.
    + eapply aseg_at; [apply Sem2; assumption|]. rewrite (Hl1 E), <- (Hl1 9999). lia.
    + intros t n H. left. exact H.
    + auto.
Qed.

Lemma mc_case_exprs_cons : forall d d1 patches po c c1 c2 c5 c',
  cstate_ok c -> Mx d (d + 1) c c1 -> Mx (d + 1) (d + 1 + 1) c1 c2 ->
  let c3 := emit0 OpCase c2 in
  let c4 := emit1' OpJumpIfFalse 9999 c3 in
  Mx d d1 c4 c5 -> d <= d1 ->
  let c6 := emit1' OpJump 9999 c5 in
  let c7 := patch (clen c3) (clen c6) c6 in
  Mce d c7 c' (patches ++ [clen c5]) po ->
  Mce d c c' patches po.
Proof.
  intros d d1 patches po c c1 c2 c5 c' Hc (codeV & E1 & F1 & S1) (codeE & E2 & F2 & S2)
         c3 c4 (codeB & E5 & F5 & S5) Hd c6 c7 R7.
  assert (Hc1 : cstate_ok c1) by apply E1.
  assert (Hc2 : cstate_ok c2) by apply E2.
  pose proof (emits_emit0 OpCase c2 Hc2) as E3. fold c3 in E3.
  assert (Hc3 : cstate_ok c3) by apply E3.
  pose proof (emits_emit1 OpJumpIfFalse 9999 c3 Hc3) as E4. fold c4 in E4.
  assert (Hc4 : cstate_ok c4) by apply E4.
  assert (Hc5 : cstate_ok c5) by apply E5.
  pose proof (emits_emit1 OpJump 9999 c5 Hc5) as E6. fold c6 in E6.
  assert (Hc6 : cstate_ok c6) by apply E6.
  pose proof (emits_len _ _ _ Hc E1) as L1.
  pose proof (emits_len _ _ _ Hc1 E2) as L2.
  pose proof (emits_len _ _ _ Hc2 E3) as L3.
  pose proof (emits_len _ _ _ Hc3 E4) as L4.
  pose proof (emits_len _ _ _ Hc4 E5) as L5.
  pose proof (emits_len _ _ _ Hc5 E6) as L6.
  set (Ln := clen c6) in *.
  set (pre3 := codeV ++ codeE ++ [OpCase]).
  assert (E13 : emits c c3 pre3).
  { eapply emits_eq; [eapply emits_trans; [exact E1|eapply emits_trans; [exact E2|exact E3]]|unfold pre3; leq]. }
  pose proof (emits_len _ _ _ Hc E13) as L13.
  assert (E16 : emits c c6 (pre3 ++ OpJumpIfFalse :: hi_byte 9999 :: lo_byte 9999 ::
                              (codeB ++ [OpJump; hi_byte 9999; lo_byte 9999]))).
  { eapply emits_eq; [eapply emits_trans; [exact E13|eapply emits_trans; [exact E4|
      eapply emits_trans; [exact E5|exact E6]]]|leq]. }
  destruct (patch_emits c c6 pre3 _ _ _ _ (clen c3) Ln Hc E16 L13) as (E7 & L7 & CS7).
  fold c7 in E7, L7, CS7.
  assert (Hc7 : cstate_ok c7) by apply E7.
  set (a := pre3 ++ [OpJumpIfFalse; hi_byte Ln; lo_byte Ln] ++ codeB).
  set (A := fun E : N => codeV ++ codeE ++ [OpCase] ++ [OpJumpIfFalse; hi_byte Ln; lo_byte Ln] ++ codeB ++
                         [OpJump; hi_byte E; lo_byte E]).
  change (lenN [OpCase]) with 1 in *.
  change (lenN [OpJumpIfFalse; hi_byte 9999; lo_byte 9999]) with 3 in *.
  change (lenN [OpJump; hi_byte 9999; lo_byte 9999]) with 3 in *.
  assert (La : lenN a = lenN codeV + lenN codeE + 1 + 3 + lenN codeB) by (unfold a, pre3; pos).
  assert (LA : forall E, lenN (A E) = lenN a + 3) by (intro E; rewrite La; unfold A; pos).
  assert (Hp5 : clen c5 = clen c + lenN a) by (unfold pre3 in L13; lenN_norm; lia).
  assert (R1 : Mce d c c7 patches (patches ++ [clen c5])).
  { exists [clen c5], A. split; [reflexivity|split; [|split; [|split; [|split]]]].
    - intro E. rewrite !LA. reflexivity.
    - eapply emits_eq; [exact E7|unfold A, pre3; leq].
    - rewrite Hp5. eapply patchable_ext; [|apply (patchable_one (clen c) a [])].
      intro E. unfold A, a, pre3. leq.
    - unfold c7, c6, c4, c3 in *. fp.
    - intros E ms sl HE. unfold sml in sl.
      assert (sm5 : sml c5) by (unfold sml; lia).
      assert (sm2 : sml c2) by (unfold sml; lia).
      pose proof (sml_back _ _ _ Hc1 E2 sm2) as sm1.
      unfold A. eapply (aseg_case_head ms _ codeV codeE codeB Ln E d d1).
      + exact (S1 sm1 ms).
      + eapply aseg_at; [exact (S2 sm2 ms)|lia].
      + eapply aseg_at; [exact (S5 sm5 ms)|lia].
      + exact Hd.
      + lia.
      + lia.
      + exact HE. }
  eapply Mce_trans; [exact Hc|exact R1|exact R7].
Qed.

Lemma mc_switch : forall d d1 c c1 c2 ps, cstate_ok c -> Mce d c c1 [] ps -> Mx d d1 c1 c2 -> d <= d1 ->
  Mx d d c (emit0 OpPlaceholder (patch_all ps (clen c2) c2)).
Proof.
  intros d d1 c c1 c2 ps Hc (new & g & Hps & Hl & Em & Pat & Fc & Sem) (codeD & ED & FD & SD) Hd.
  cbn [app] in Hps. subst new.
  assert (Hc1 : cstate_ok c1) by apply Em.
  pose proof (emits_len _ _ _ Hc Em) as L1.
  pose proof (emits_len _ _ _ Hc1 ED) as L2.
  set (E := clen c2) in *.
  destruct (Pat E c c2 [] codeD Hc) as (E3 & L3 & CS3).
  { eapply emits_eq; [eapply emits_trans; [exact Em|exact ED]|leq]. }
  { pos. }
  cbn [app] in E3.
  set (c3 := patch_all ps E c2) in *.
  assert (Hc3 : cstate_ok c3) by apply E3.
  exists (g E ++ codeD ++ [OpPlaceholder]). split; [|split].
  - eapply emits_eq; [eapply emits_trans; [exact E3|apply emits_emit0; exact Hc3]|leq].
  - unfold c3. fp.
  - intros sl ms. unfold sml in sl. cbn [emit0 clen] in sl.
    assert (sm2 : sml c2) by (unfold sml; lia).
    pose proof (sml_back _ _ _ Hc1 ED sm2) as sm1.
    assert (HE : E = clen c + lenN (g E) + lenN codeD) by (rewrite (Hl E), <- (Hl 9999); lia).
    apply aseg_switch with (E := E) (d1 := d1).
    + apply Sem; [exact sm1|lia].
    + eapply aseg_at; [exact (SD sm2 ms)|]. rewrite (Hl E), <- (Hl 9999). lia.
    + exact Hd.
    + exact HE.
Qed.

(* ---- function definitions ---- *)

Lemma mc_function : forall d dout name params c c1, cstate_ok c ->
  Mx 0 dout (mkC [] 0 (consts c) (funcs c)) c1 ->
  let code1 := rev (crev c1) in
  let c2 := match last_op (S (List.length code1)) code1 None with
            | Some op => if op =? OpReturn then c1 else emit0 OpReturn (emit0 OpVoid c1)
            | None => emit0 OpReturn (emit0 OpVoid c1)
            end in
  Mx d d c (mkC (crev c) (clen c) (consts c2) (set_func name (mkUfunc params (rev (crev c2))) (funcs c2))).
Proof.
  intros d dout name params c c1 Hc (A & E1 & F1 & S1) code1 c2.
  set (c0 := mkC [] 0 (consts c) (funcs c)) in *.
  assert (Hc0 : cstate_ok c0) by reflexivity.
  assert (Hc1 : cstate_ok c1) by apply E1.
  pose proof (emits_len _ _ _ Hc0 E1) as L1. cbn [c0 clen] in L1.
  assert (HA : code1 = A).
  { destruct E1 as (_ & _ & Em). unfold emitted in Em. cbn [c0 crev rev app] in Em. exact Em. }
  assert (Hcs : consts c2 = consts c1).
  { unfold c2. destruct (last_op _ code1 None) as [op|]; [destruct (op =? OpReturn)|]; reflexivity. }
  assert (Hfs : funcs c2 = funcs c1).
  { unfold c2. destruct (last_op _ code1 None) as [op|]; [destruct (op =? OpReturn)|]; reflexivity. }
  assert (Hfn : lenN (rev (crev c2)) <= 65535 -> body_ann (rev (crev c2))).
  { intros Hl.
    assert (Hlen : lenN A <= lenN (rev (crev c2))).
    { unfold c2. destruct (last_op _ code1 None) as [op|]; [destruct (op =? OpReturn)|];
        cbn [emit0 crev rev]; fold code1; rewrite HA; pos. }
    assert (sm : sml c1) by (unfold sml; lia).
    pose proof (S1 sm []) as SA. cbn [c0 clen] in SA.
    unfold c2. destruct (last_op _ code1 None) as [op|]; [destruct (op =? OpReturn)|].
    - fold code1. rewrite HA. exists dout. exact SA.
    - cbn [emit0 crev rev]. fold code1. rewrite HA. rewrite <- app_assoc. cbn [app].
      exists 0. eapply aseg_fn_tail. exact SA.
    - cbn [emit0 crev rev]. fold code1. rewrite HA. rewrite <- app_assoc. cbn [app].
      exists 0. eapply aseg_fn_tail. exact SA. }
  exists []. split; [|split].
  - split; [exact Hc|split].
    + cbn [consts]. rewrite Hcs. exact (emits_pe _ _ _ E1).
    + unfold emitted. cbn [crev]. symmetry. apply app_nil_r.
  - intro K. cbn [funcs]. rewrite Hfs. apply FA_set_func; [exact Hfn|]. apply F1. exact K.
  - intros _ ms. apply aseg_nil. sl.
Qed.

Lemma Mx_return : forall c d dout, cstate_ok c -> 1 <= d -> Mx d dout c (emit0 OpReturn c).
Proof.
  intros c d dout Hc Hd. exists [OpReturn].
  split; [apply emits_emit0; exact Hc|split; [fp|]].
  intros _ ms. apply aseg_return. exact Hd.
Qed.

Lemma Mx_eq : forall d e e' c c', Mx d e c c' -> e = e' -> Mx d e' c c'.
Proof. intros. subst. assumption. Qed.

(* IterationReset, then a loop that runs inside the scope it opens *)
Lemma mc_foreach : forall d c1 c', cstate_ok c1 ->
  Mxl [d + 1] (d + 1) d (emit0 OpIterationReset c1) c' -> Mx (d + 1) d c1 c'.
Proof.
  intros d c1 c' Hc1 (B & E2 & F2 & S2).
  pose proof (emits_emit0 OpIterationReset c1 Hc1) as E1.
  pose proof (emits_len _ _ _ Hc1 E1) as L1. change (lenN [OpIterationReset]) with 1 in L1.
  exists ([OpIterationReset] ++ B). split; [eapply emits_trans; eassumption|split; [fp|]].
  intros sm ms.
  eapply (aseg_app (clen c1) [OpIterationReset] B (d + 1, ms) (d + 1, (d + 1) :: ms) (d, ms) noX noX noX).
  - apply aseg_reset. lia.
  - eapply aseg_at; [exact (S2 sm ms)|]. change (lenN [OpIterationReset]) with 1. lia.
  - intros t n [].
  - intros t n [].
Qed.

(* ------------------------------------------------------------------ *)
(* PART 5: the induction on the compiler's fuel *)

Definition moded_stmt (g : nat) (s : stmt) : bool :=
  match s with SReturn e => moded_operand g e | SExpr e => moded_stmt_expr g e end.
Definition moded_choice (g : nat) (c : bool * list expr * list stmt) : bool :=
  forallb (moded_operand g) (snd (fst c)) && moded_block g (snd c).
Definition moded_pair (g : nat) (kv : expr * expr) : bool :=
  moded_operand g (fst kv) && moded_operand g (snd kv).

Lemma moded_block_inv : forall g b, moded_block g b = true ->
  exists g', g = S g' /\ forallb (moded_stmt g') b = true /\ postfix_paired b = true.
Proof.
  intros [|g'] b H; [discriminate|]. exists g'. split; [reflexivity|].
  cbn [moded_block] in H. apply andb_true_iff in H. exact H.
Qed.

Lemma infix_facts : forall t o, infix_opcode t = Some o ->
  memN o known_ops = true /\ op_len o = 1 /\ ctl o = false /\
  pops (mkI 0 o 0 1) = 2 /\ pushes (mkI 0 o 0 1) = 1.
Proof.
  intros t o H. destruct t; cbn [infix_opcode] in H; try discriminate; injection H as <-;
    repeat split; reflexivity.
Qed.

Lemma prefix_facts : forall t o, prefix_opcode t = Some o ->
  memN o known_ops = true /\ op_len o = 1 /\ ctl o = false /\
  pops (mkI 0 o 0 1) = 1 /\ pushes (mkI 0 o 0 1) = 1.
Proof.
  intros t o H. destruct t; cbn [prefix_opcode] in H; try discriminate; injection H as <-;
    repeat split; reflexivity.
Qed.

Lemma forallb_perm : forall {A} (P : A -> bool) l l', Permutation l l' -> forallb P l = true -> forallb P l' = true.
Proof.
  intros A P l l' Hp H. rewrite forallb_forall in *. intros x Hx. apply H.
  eapply Permutation_in; [apply Permutation_sym; exact Hp|exact Hx].
Qed.

Lemma lenN_perm : forall {A} (l l' : list A), Permutation l l' -> lenN l = lenN l'.
Proof. intros A l l' H. unfold lenN. rewrite (Permutation_length H). reflexivity. Qed.

Lemma decorate_snd : forall (k : expr -> option str) (x : expr * expr) (y : str * (expr * expr)),
  match k (fst x) with Some s => Some (s, x) | None => None end = Some y -> snd y = x.
Proof. intros k x y H. destruct (k (fst x)); [|discriminate]. injection H as <-. reflexivity. Qed.

Lemma compile_hash_inv2_m : forall f (l : list (expr * expr)) c c' (om : option (list (str * (expr * expr)))),
  (forall ks, om = Some ks -> map snd ks = l) ->
  match om with
  | None => CNeed
  | Some ks =>
      let sorted := map snd (sort_by (fun a b => str_ltb (fst a) (fst b)) ks) in
      cbind (compile_pairs f sorted c) (fun _ c1 => COk tt (emit1' OpHash (lenN l * 2) c1))
  end = COk tt c' ->
  exists sorted c1, Permutation l sorted /\ compile_pairs f sorted c = COk tt c1 /\
                    c' = emit1' OpHash (lenN l * 2) c1.
Proof.
  intros f l c c' om Hks H. destruct om as [ks|]; [|discriminate]. cbv zeta in H.
  destruct (compile_pairs f _ c) as [[] c1| | |] eqn:E1 in H; try discriminate. cbn [cbind] in H.
  injection H as <-. eexists _, c1. split; [|split; [exact E1|reflexivity]].
  rewrite <- (Hks ks eq_refl). apply Permutation_map. apply ContainerProofs.sort_by_perm.
Qed.

Lemma compile_hash_inv_m : forall f l c c', compile_expr (S f) (EHash l) c = COk tt c' ->
  exists sorted c1, Permutation l sorted /\ compile_pairs f sorted c = COk tt c1 /\
                    c' = emit1' OpHash (lenN l * 2) c1.
Proof.
  intros f l c c' H. apply compile_hash_inv1 in H.
  apply (compile_hash_inv2_m f l c c' (hash_keys l)); [|exact H].
  intros ks Hk. unfold hash_keys in Hk.
  eapply ContainerProofs.opt_map_decorate_snd; [|exact Hk].
  intros x y Hy. exact (decorate_snd (estr 64) x y Hy).
Qed.

Definition MP_expr (fuel : nat) : Prop := forall g e c c' d,
  cstate_ok c -> compile_expr fuel e c = COk tt c' -> moded_operand g e = true -> Mx d (d + 1) c c'.
Definition MP_exprs (fuel : nat) : Prop := forall g l c c' d,
  cstate_ok c -> compile_exprs fuel l c = COk tt c' -> forallb (moded_operand g) l = true ->
  Mx d (d + lenN l) c c'.
Definition MP_pairs (fuel : nat) : Prop := forall g l c c' d,
  cstate_ok c -> compile_pairs fuel l c = COk tt c' -> forallb (moded_pair g) l = true ->
  Mx d (d + 2 * lenN l) c c'.
Definition MP_sexpr (fuel : nat) : Prop := forall g e c c' d,
  cstate_ok c -> compile_expr fuel e c = COk tt c' -> moded_stmt_expr g e = true ->
  (forall n op, e <> EPostfix n op) -> exists dout, d <= dout /\ Mx d dout c c'.
Definition MP_stmt (fuel : nat) : Prop := forall g s c c' d,
  cstate_ok c -> compile_stmt fuel s c = COk tt c' -> moded_stmt g s = true ->
  (forall n op, s <> SExpr (EPostfix n op)) -> exists dout, d <= dout /\ Mx d dout c c'.
Definition MP_stmts (fuel : nat) : Prop := forall g b c c' d,
  cstate_ok c -> compile_block fuel b c = COk tt c' -> forallb (moded_stmt g) b = true ->
  (postfix_paired b = true -> exists dout, d <= dout /\ Mx d dout c c') /\
  (forall n op rest, b = SExpr (EPostfix n op) :: rest -> postfix_paired rest = true ->
     exists dout, d <= dout /\ Mx (d + 1) dout c c').
Definition MP_block (fuel : nat) : Prop := forall g b c c' d,
  cstate_ok c -> compile_block fuel b c = COk tt c' -> moded_block g b = true ->
  exists dout, d <= dout /\ Mx d dout c c'.
Definition MP_case_exprs (fuel : nat) : Prop := forall g v es blk patches c po c' d,
  cstate_ok c -> compile_case_exprs fuel v es blk patches c = COk po c' ->
  moded_operand g v = true -> forallb (moded_operand g) es = true -> moded_block g blk = true ->
  Mce d c c' patches po.
Definition MP_cases (fuel : nat) : Prop := forall g v chs patches c po c' d,
  cstate_ok c -> compile_cases fuel v chs patches c = COk po c' ->
  moded_operand g v = true -> forallb (moded_choice g) chs = true ->
  Mce d c c' patches po.
Definition MP_defaults (fuel : nat) : Prop := forall g chs c c' d,
  cstate_ok c -> compile_defaults fuel chs c = COk tt c' -> forallb (moded_choice g) chs = true ->
  exists dout, d <= dout /\ Mx d dout c c'.

Lemma mp_expr_step : forall f, MP_expr f -> MP_exprs f -> MP_pairs f -> MP_expr (S f).
Proof.
  intros f IHe IHl IHp g e c c' d Hc H Hm.
  destruct g as [|g]; [discriminate|].
  destruct e as [t v|t v|s|b|v fl|name|op r|op l r|name op|e1 e2 e3|l|l|e1 e2|fn args|name v|name
                |cnd cns alt|cnd body|idx ident v body|name params body|v choices];
    cbn [moded_operand valueless negb andb] in Hm; try discriminate.
  - (* EInt *)
    cbn [compile_expr] in H. destruct (inline_int v); injection H as <-.
    + eapply Mx_eq; [apply (Mx_emit1 OpPush _ c d 0 1); try reflexivity; [exact Hc|lia]|lia].
    + apply Mx_const. exact Hc.
  - cbn [compile_expr] in H. injection H as <-. apply Mx_const. exact Hc.
  - cbn [compile_expr] in H. injection H as <-. apply Mx_const. exact Hc.
  - (* EBool *)
    cbn [compile_expr] in H. destruct b; injection H as <-.
    + eapply Mx_eq; [apply (Mx_emit0 OpTrue c d 0 1); try reflexivity; [exact Hc|lia]|lia].
    + eapply Mx_eq; [apply (Mx_emit0 OpFalse c d 0 1); try reflexivity; [exact Hc|lia]|lia].
  - cbn [compile_expr] in H. injection H as <-. apply Mx_const. exact Hc.
  - (* EIdent *)
    cbn [compile_expr] in H. destruct (add_const (VStr name) c) as [i c1] eqn:E. injection H as <-.
    eapply Mx_eq; [apply (Mx_add OpLookup (VStr name) c i c1 d 0 1); try reflexivity; [exact Hc|exact E|lia]|lia].
  - (* EPrefix *)
    rewrite compile_prefix_eq in H.
    destruct (compile_expr f r c) as [[] c1| | |] eqn:E1; try discriminate. cbn [cbind] in H.
    pose proof (IHe g r c c1 d Hc E1 Hm) as R1.
    destruct (prefix_opcode op) as [o|] eqn:Eo; try discriminate. injection H as <-.
    destruct (prefix_facts _ _ Eo) as (Hk & Hl & Hct & Hpp & Hpq).
    eapply Mx_trans; [exact Hc|exact R1|].
    eapply Mx_eq; [apply (Mx_emit0 o c1 (d + 1) 1 1 (Mx_ok _ _ _ _ R1) Hk Hl Hct Hpp Hpq); lia|lia].
  - (* EInfix *)
    apply andb_true_iff in Hm. destruct Hm as (Hmu & Hm). apply andb_true_iff in Hm. destruct Hm as (Hm1 & Hm2).
    apply negb_true_iff in Hmu.
    destruct (tokty_eq_dec op TPeriod) as [->|Hne].
    { (* `l.r`: code of l, one constant push, OpIndex (moded_operand r is not needed here) *)
      destruct (compile_dot_inv _ _ _ _ _ H) as (c1 & name & E1 & En & ->).
      pose proof (IHe g l c c1 d Hc E1 Hm1) as R1.
      pose proof (Mx_const (VStr name) c1 (d + 1) (Mx_ok _ _ _ _ R1)) as R2.
      destruct (infix_facts TPeriod OpIndex eq_refl) as (Hk & Hl & Hct & Hpp & Hpq).
      eapply Mx_trans; [exact Hc|exact R1|]. eapply Mx_trans; [exact (Mx_ok _ _ _ _ R1)|exact R2|].
      eapply Mx_eq; [apply (Mx_emit0 OpIndex _ (d + 1 + 1) 2 1 (Mx_ok _ _ _ _ R2) Hk Hl Hct Hpp Hpq); lia|lia]. }
    rewrite compile_infix_eq in H by exact Hne.
    destruct (compile_expr f l c) as [[] c1| | |] eqn:E1; try discriminate. cbn [cbind] in H.
    destruct (compile_expr f r c1) as [[] c2| | |] eqn:E2; try discriminate. cbn [cbind] in H.
    pose proof (IHe g l c c1 d Hc E1 Hm1) as R1.
    pose proof (IHe g r c1 c2 (d + 1) (Mx_ok _ _ _ _ R1) E2 Hm2) as R2.
    destruct (infix_opcode op) as [o|] eqn:Eo; try discriminate. rewrite Hmu in H. injection H as <-.
    destruct (infix_facts _ _ Eo) as (Hk & Hl & Hct & Hpp & Hpq).
    eapply Mx_trans; [exact Hc|exact R1|]. eapply Mx_trans; [exact (Mx_ok _ _ _ _ R1)|exact R2|].
    eapply Mx_eq; [apply (Mx_emit0 o c2 (d + 1 + 1) 2 1 (Mx_ok _ _ _ _ R2) Hk Hl Hct Hpp Hpq); lia|lia].
  - (* ETernary *)
    apply andb_true_iff in Hm. destruct Hm as (Hm & Hm3). apply andb_true_iff in Hm. destruct Hm as (Hm1 & Hm2).
    rewrite compile_ternary_eq in H.
    destruct (compile_expr f e1 c) as [[] c1| | |] eqn:E1; try discriminate. cbn [cbind] in H.
    pose proof (IHe g e1 c c1 d Hc E1 Hm1) as R1.
    pose proof (emits_ok _ _ _ (emits_emit1 OpJumpIfFalse 9999 c1 (Mx_ok _ _ _ _ R1))) as Hc2.
    destruct (compile_expr f e2 (emit1' OpJumpIfFalse 9999 c1)) as [[] c3| | |] eqn:E2; try discriminate.
    cbn [cbind] in H. cbv zeta in H.
    pose proof (IHe g e2 _ c3 d Hc2 E2 Hm2) as R2.
    assert (Hc5 : cstate_ok (patch (clen c1) (clen (emit1' OpJump 9999 c3)) (emit1' OpJump 9999 c3))).
    { apply patch_ok. eapply emits_ok. apply emits_emit1. exact (Mx_ok _ _ _ _ R2). }
    destruct (compile_expr f e3 _) as [[] c6| | |] eqn:E3 in H; try discriminate.
    cbn [cbind] in H. injection H as <-.
    pose proof (IHe g e3 _ c6 d Hc5 E3 Hm3) as R3.
    exact (mc_ternary d c c1 c3 c6 Hc R1 R2 R3).
  - (* EArray *)
    rewrite compile_array_eq in H.
    destruct (compile_exprs f l c) as [[] c1| | |] eqn:E1; try discriminate. cbn [cbind] in H.
    injection H as <-. pose proof (IHl g l c c1 d Hc E1 Hm) as R1.
    eapply Mx_trans; [exact Hc|exact R1|].
    pose proof (hi_lo_le (lenN l)) as Hle.
    eapply Mx_weaken; [apply (Mx_emit1 OpArray (lenN l) c1 (d + lenN l)
                                (hi_byte (lenN l) * 256 + lo_byte (lenN l)) 1 (Mx_ok _ _ _ _ R1));
                         try reflexivity; lia|lia].
  - (* EHash *)
    apply compile_hash_inv_m in H. destruct H as (sorted & c1 & Hperm & E1 & ->).
    assert (Hm' : forallb (moded_pair g) sorted = true) by (eapply forallb_perm; [exact Hperm|exact Hm]).
    pose proof (IHp g sorted c c1 d Hc E1 Hm') as R1.
    rewrite <- (lenN_perm _ _ Hperm) in R1.
    eapply Mx_trans; [exact Hc|exact R1|].
    pose proof (hi_lo_le (lenN l * 2)) as Hle.
    set (a := hi_byte (lenN l * 2) * 256 + lo_byte (lenN l * 2)) in *.
    assert (Hq : (a + 1) / 2 <= lenN l).
    { assert ((a + 1) / 2 < lenN l + 1) by (apply N.div_lt_upper_bound; lia). lia. }
    eapply Mx_weaken; [apply (Mx_emit1 OpHash (lenN l * 2) c1 (d + 2 * lenN l) (2 * ((a + 1) / 2)) 1
                                (Mx_ok _ _ _ _ R1)); try reflexivity; lia|lia].
  - (* EIndex *)
    apply andb_true_iff in Hm. destruct Hm as (Hm1 & Hm2).
    rewrite compile_index_eq in H.
    destruct (compile_expr f e1 c) as [[] c1| | |] eqn:E1; try discriminate. cbn [cbind] in H.
    destruct (compile_expr f e2 c1) as [[] c2| | |] eqn:E2; try discriminate. cbn [cbind] in H.
    pose proof (IHe g e1 c c1 d Hc E1 Hm1) as R1.
    pose proof (IHe g e2 c1 c2 (d + 1) (Mx_ok _ _ _ _ R1) E2 Hm2) as R2.
    injection H as <-.
    eapply Mx_trans; [exact Hc|exact R1|]. eapply Mx_trans; [exact (Mx_ok _ _ _ _ R1)|exact R2|].
    eapply Mx_eq; [apply (Mx_emit0 OpIndex c2 (d + 1 + 1) 2 1 (Mx_ok _ _ _ _ R2)); try reflexivity; lia|lia].
  - (* ECall *)
    apply compile_call_inv in H. destruct H as (c1 & name & E1 & Es & ->). clear Es.
    apply andb_true_iff in Hm. destruct Hm as (_ & Hm).
    pose proof (IHl g args c c1 d Hc E1 Hm) as R1.
    pose proof (Mx_const (VStr name) c1 (d + lenN args) (Mx_ok _ _ _ _ R1)) as R2.
    eapply Mx_trans; [exact Hc|exact R1|]. eapply Mx_trans; [exact (Mx_ok _ _ _ _ R1)|exact R2|].
    pose proof (hi_lo_le (lenN args)) as Hle.
    eapply Mx_weaken; [apply (Mx_emit1 OpCall (lenN args) _ (d + lenN args + 1)
                                (hi_byte (lenN args) * 256 + lo_byte (lenN args) + 1) 1 (Mx_ok _ _ _ _ R2));
                         try reflexivity; lia|lia].
Qed.

Lemma mp_exprs_step : forall f, MP_expr f -> MP_exprs f -> MP_exprs (S f).
Proof.
  intros f IHe IHl g l c c' d Hc H Hm. destruct l as [|e l].
  - rewrite compile_exprs_nil_eq in H. injection H as <-.
    eapply Mx_eq; [apply Mx_refl; exact Hc|pos].
  - rewrite compile_exprs_cons_eq in H. cbn [forallb] in Hm. apply andb_true_iff in Hm. destruct Hm as (Hm1 & Hm2).
    destruct (compile_expr f e c) as [[] c1| | |] eqn:E1; try discriminate. cbn [cbind] in H.
    pose proof (IHe g e c c1 d Hc E1 Hm1) as R1.
    pose proof (IHl g l c1 c' (d + 1) (Mx_ok _ _ _ _ R1) H Hm2) as R2.
    eapply Mx_eq; [eapply Mx_trans; [exact Hc|exact R1|exact R2]|pos].
Qed.

Lemma mp_pairs_step : forall f, MP_expr f -> MP_pairs f -> MP_pairs (S f).
Proof.
  intros f IHe IHp g l c c' d Hc H Hm. destruct l as [|[k v] l].
  - rewrite compile_pairs_nil_eq in H. injection H as <-.
    eapply Mx_eq; [apply Mx_refl; exact Hc|]. change (lenN (@nil (expr * expr))) with 0. lia.
  - rewrite compile_pairs_cons_eq in H. cbn [forallb] in Hm. apply andb_true_iff in Hm. destruct Hm as (Hm1 & Hm2).
    unfold moded_pair in Hm1. cbn [fst snd] in Hm1. apply andb_true_iff in Hm1. destruct Hm1 as (Hk & Hv).
    destruct (compile_expr f k c) as [[] c1| | |] eqn:E1; try discriminate. cbn [cbind] in H.
    pose proof (IHe g k c c1 d Hc E1 Hk) as R1.
    destruct (compile_expr f v c1) as [[] c2| | |] eqn:E2; try discriminate. cbn [cbind] in H.
    pose proof (IHe g v c1 c2 (d + 1) (Mx_ok _ _ _ _ R1) E2 Hv) as R2.
    pose proof (IHp g l c2 c' (d + 1 + 1) (Mx_ok _ _ _ _ R2) H Hm2) as R3.
    eapply Mx_eq; [eapply Mx_trans; [exact Hc|exact R1|eapply Mx_trans; [exact (Mx_ok _ _ _ _ R1)|exact R2|exact R3]]|pos].
Qed.

Lemma mp_sexpr_step : forall f, MP_expr f -> MP_expr (S f) -> MP_block f -> MP_cases f -> MP_defaults f ->
  MP_sexpr (S f).
Proof.
  intros f IHe IHe' IHb IHc IHd g e c c' d Hc H Hm Hnp.
  destruct g as [|g]; [discriminate|].
  destruct e as [t v|t v|s|b|v fl|name|op r|op l r|name op|e1 e2 e3|l|l|e1 e2|fn args|name v|name
                |cnd cns alt|cnd body|idx ident v body|name params body|v choices];
    cbn [moded_stmt_expr] in Hm.
  all: try (exists (d + 1); split; [lia|]; eapply IHe'; eassumption).
  - (* EInfix *)
    destruct (is_mutator op) eqn:Em; [|exists (d + 1); split; [lia|]; eapply IHe'; eassumption].
    apply andb_true_iff in Hm. destruct Hm as (Hm1 & Hm2).
    rewrite compile_infix_eq in H by (intros ->; discriminate Em).
    destruct (compile_expr f l c) as [[] c1| | |] eqn:E1; try discriminate. cbn [cbind] in H.
    destruct (compile_expr f r c1) as [[] c2| | |] eqn:E2; try discriminate. cbn [cbind] in H.
    pose proof (IHe g l c c1 d Hc E1 Hm1) as R1.
    pose proof (IHe g r c1 c2 (d + 1) (Mx_ok _ _ _ _ R1) E2 Hm2) as R2.
    destruct (infix_opcode op) as [o|] eqn:Eo; try discriminate. rewrite Em in H.
    destruct (infix_facts _ _ Eo) as (Hk & Hl & Hct & Hpp & Hpq).
    assert (Hx : exists name, c' = emit0 OpSet (emit_const (VStr name) (emit0 o c2))).
    { destruct l; try discriminate. injection H as <-. eexists. reflexivity. }
    destruct Hx as (name & ->). clear H.
    pose proof (Mx_emit0 o c2 (d + 1 + 1) 2 1 (Mx_ok _ _ _ _ R2) Hk Hl Hct Hpp Hpq ltac:(lia)) as R3.
    pose proof (Mx_const (VStr name) _ (d + 1 + 1 - 2 + 1) (Mx_ok _ _ _ _ R3)) as R4.
    pose proof (Mx_emit0 OpSet _ (d + 1 + 1 - 2 + 1 + 1) 2 0 (Mx_ok _ _ _ _ R4)
                  eq_refl eq_refl eq_refl eq_refl eq_refl ltac:(lia)) as R5.
    exists d. split; [lia|].
    eapply Mx_eq; [eapply Mx_trans; [exact Hc|exact R1|]; eapply Mx_trans; [exact (Mx_ok _ _ _ _ R1)|exact R2|];
                   eapply Mx_trans; [exact (Mx_ok _ _ _ _ R2)|exact R3|];
                   eapply Mx_trans; [exact (Mx_ok _ _ _ _ R3)|exact R4|exact R5]|lia].
  - (* EPostfix *)
    exfalso. eapply Hnp. reflexivity.
  - (* EAssign *)
    rewrite compile_assign_eq in H.
    destruct (compile_expr f v c) as [[] c1| | |] eqn:E1; try discriminate. cbn [cbind] in H.
    injection H as <-. pose proof (IHe g v c c1 d Hc E1 Hm) as R1.
    pose proof (Mx_const (VStr name) c1 (d + 1) (Mx_ok _ _ _ _ R1)) as R2.
    pose proof (Mx_emit0 OpSet _ (d + 1 + 1) 2 0 (Mx_ok _ _ _ _ R2)
                  eq_refl eq_refl eq_refl eq_refl eq_refl ltac:(lia)) as R3.
    exists d. split; [lia|].
    eapply Mx_eq; [eapply Mx_trans; [exact Hc|exact R1|]; eapply Mx_trans; [exact (Mx_ok _ _ _ _ R1)|exact R2|exact R3]|lia].
  - (* ELocal *)
    cbn [compile_expr] in H. injection H as <-.
    pose proof (Mx_const (VStr name) c d Hc) as R1.
    pose proof (Mx_emit0 OpLocal _ (d + 1) 1 0 (Mx_ok _ _ _ _ R1)
                  eq_refl eq_refl eq_refl eq_refl eq_refl ltac:(lia)) as R2.
    exists d. split; [lia|]. eapply Mx_eq; [eapply Mx_trans; [exact Hc|exact R1|exact R2]|lia].
  - (* EIf *)
    apply andb_true_iff in Hm. destruct Hm as (Hm & Hma). apply andb_true_iff in Hm. destruct Hm as (Hmc & Hmb).
    rewrite compile_if_eq in H.
    destruct (compile_expr f cnd c) as [[] c1| | |] eqn:E1; try discriminate. cbn [cbind] in H.
    pose proof (IHe g cnd c c1 d Hc E1 Hmc) as R1.
    pose proof (emits_ok _ _ _ (emits_emit1 OpJumpIfFalse 9999 c1 (Mx_ok _ _ _ _ R1))) as Hc2.
    destruct (compile_block f cns (emit1' OpJumpIfFalse 9999 c1)) as [[] c3| | |] eqn:E2; try discriminate.
    cbn [cbind] in H. cbv zeta in H.
    destruct (IHb g cns _ c3 d Hc2 E2 Hmb) as (d1 & Hd1 & R2).
    destruct alt as [a|].
    + match type of H with cbind (compile_block f a ?c6) _ = _ =>
        assert (Hc6 : cstate_ok c6);
        [apply patch_ok; eapply emits_ok; apply emits_emit1; apply patch_ok; exact (Mx_ok _ _ _ _ R2)|];
        destruct (compile_block f a c6) as [[] c7| | |] eqn:E3; try discriminate
      end.
      cbn [cbind] in H. injection H as <-.
      destruct (IHb g a _ c7 d Hc6 E3 Hma) as (d2 & Hd2 & R3).
      exists d. split; [lia|].
      exact (mc_if_else d d1 d2 d c c1 c3 c7 Hc R1 R2 R3 Hd1 Hd2).
    + injection H as <-. exists d. split; [lia|]. exact (mc_if_none d d1 c c1 c3 Hc R1 R2 Hd1).
  - (* EWhile *)
    apply andb_true_iff in Hm. destruct Hm as (Hmc & Hmb).
    rewrite compile_while_eq in H.
    destruct (compile_expr f cnd c) as [[] c1| | |] eqn:E1; try discriminate. cbn [cbind] in H.
    pose proof (IHe g cnd c c1 d Hc E1 Hmc) as R1.
    pose proof (emits_ok _ _ _ (emits_emit1 OpJumpIfFalse 9999 c1 (Mx_ok _ _ _ _ R1))) as Hc2.
    destruct (compile_block f body (emit1' OpJumpIfFalse 9999 c1)) as [[] c3| | |] eqn:E2; try discriminate.
    cbn [cbind] in H. cbv zeta in H. injection H as <-.
    destruct (IHb g body _ c3 d Hc2 E2 Hmb) as (d1 & Hd1 & R2).
    exists d. split; [lia|].
    exact (mc_loop [] d d d d1 c c1 c3 Hc (Hx_cond d c c1 Hc R1) R2 Hd1).
  - (* EForeach *)
    apply andb_true_iff in Hm. destruct Hm as (Hmv & Hmb).
    rewrite compile_foreach_eq in H.
    destruct (compile_expr f v c) as [[] c1| | |] eqn:E1; try discriminate. cbn [cbind] in H.
    pose proof (IHe g v c c1 d Hc E1 Hmv) as R1. cbv zeta in H.
    assert (Hc1 : cstate_ok c1) by exact (Mx_ok _ _ _ _ R1).
    set (c2 := emit0 OpIterationReset c1) in *.
    assert (Hc2 : cstate_ok c2) by (eapply emits_ok; apply emits_emit0; exact Hc1).
    pose proof (Hx_foreach d idx ident c2 Hc2) as R24.
    set (c4 := emit0 OpIterationNext (emit_const (VStr ident) (emit_const (VStr idx) c2))) in *.
    assert (Hc5 : cstate_ok (emit1' OpJumpIfFalse 9999 c4)).
    { eapply emits_ok. apply emits_emit1. destruct R24 as (? & E & _). apply E. }
    destruct (compile_block f body (emit1' OpJumpIfFalse 9999 c4)) as [[] c6| | |] eqn:E2; try discriminate.
    cbn [cbind] in H. injection H as <-.
    destruct (IHb g body _ c6 (d + 1) Hc5 E2 Hmb) as (d1 & Hd1 & R6).
    exists d. split; [lia|].
    eapply Mx_trans; [exact Hc|exact R1|]. apply (mc_foreach d c1 _ Hc1).
    exact (mc_loop [d + 1] (d + 1) (d + 1) d d1 c2 c4 c6 Hc2 R24 R6 Hd1).
  - (* EFunction *)
    apply compile_function_inv' in H. destruct H as (c1 & E1 & ->).
    assert (Hc0 : cstate_ok (mkC [] 0 (consts c) (funcs c))) by reflexivity.
    destruct (IHb g body _ c1 0 Hc0 E1 Hm) as (dout & _ & R1).
    exists d. split; [lia|]. exact (mc_function d dout name params c c1 Hc R1).
  - (* ESwitch *)
    apply andb_true_iff in Hm. destruct Hm as (Hmv & Hmc).
    rewrite compile_switch_eq in H.
    destruct (compile_cases f v choices [] c) as [ps c1| | |] eqn:E1; try discriminate. cbn [cbind] in H.
    pose proof (IHc g v choices [] c ps c1 d Hc E1 Hmv Hmc) as R1.
    destruct (compile_defaults f choices c1) as [[] c2| | |] eqn:E2; try discriminate. cbn [cbind] in H.
    destruct (IHd g choices c1 c2 d (Mce_ok _ _ _ _ _ R1) E2 Hmc) as (d1 & Hd1 & R2).
    injection H as <-. exists d. split; [lia|]. exact (mc_switch d d1 c c1 c2 ps Hc R1 R2 Hd1).
Qed.

Lemma mp_stmt_step : forall f, MP_expr f -> MP_sexpr f -> MP_stmt (S f).
Proof.
  intros f IHe IHs g s c c' d Hc H Hm Hnp. destruct s as [e|e]; cbn [moded_stmt] in Hm.
  - rewrite compile_stmt_return_eq in H.
    destruct (compile_expr f e c) as [[] c1| | |] eqn:E1; try discriminate. cbn [cbind] in H.
    injection H as <-. pose proof (IHe g e c c1 d Hc E1 Hm) as R1.
    exists d. split; [lia|]. eapply Mx_trans; [exact Hc|exact R1|].
    apply Mx_return; [exact (Mx_ok _ _ _ _ R1)|lia].
  - rewrite compile_stmt_expr_eq in H.
    apply (IHs g e c c' d Hc H Hm). intros n op E. subst e. eapply Hnp. reflexivity.
Qed.

(* `x` and `++` as two statements *)
Lemma postfix_stmt_Mx : forall f n op c c' d, cstate_ok c ->
  compile_stmt f (SExpr (EPostfix n op)) c = COk tt c' -> Mx (d + 1) d c c'.
Proof.
  intros f n op c c' d Hc H. destruct f as [|f]; [discriminate|].
  rewrite compile_stmt_expr_eq in H. destruct f as [|f]; [discriminate|].
  cbn [compile_expr] in H. destruct op; try discriminate;
    destruct (add_const (VStr n) c) as [i c1] eqn:E; injection H as <-.
  - eapply Mx_eq; [apply (Mx_add OpDec (VStr n) c i c1 (d + 1) 1 0); try reflexivity; [exact Hc|exact E|lia]|lia].
  - eapply Mx_eq; [apply (Mx_add OpInc (VStr n) c i c1 (d + 1) 1 0); try reflexivity; [exact Hc|exact E|lia]|lia].
Qed.

Lemma ident_stmt_Mx : forall f n c c' d, cstate_ok c ->
  compile_stmt f (SExpr (EIdent n)) c = COk tt c' -> Mx d (d + 1) c c'.
Proof.
  intros f n c c' d Hc H. destruct f as [|f]; [discriminate|].
  rewrite compile_stmt_expr_eq in H. destruct f as [|f]; [discriminate|].
  cbn [compile_expr] in H. destruct (add_const (VStr n) c) as [i c1] eqn:E. injection H as <-.
  eapply Mx_eq; [apply (Mx_add OpLookup (VStr n) c i c1 d 0 1); try reflexivity; [exact Hc|exact E|lia]|lia].
Qed.

Lemma postfix_paired_cases : forall s b, postfix_paired (s :: b) = true ->
  (forall n op, s <> SExpr (EPostfix n op)) /\
  ((exists n n' op rest, s = SExpr (EIdent n) /\ b = SExpr (EPostfix n' op) :: rest /\ postfix_paired rest = true) \/
   postfix_paired b = true).
Proof.
  intros s b H. destruct s as [e|e].
  - split; [intros; discriminate|right; exact H].
  - destruct e; try (split; [intros; discriminate|right; exact H]).
    + (* EIdent *)
      split; [intros; discriminate|].
      destruct b as [|[e'|e'] rest]; try (right; exact H).
      destruct e'; try (right; exact H).
      left. eexists _, _, _, _. split; [reflexivity|split; [reflexivity|exact H]].
    + (* EPostfix *) discriminate.
Qed.

Lemma mp_stmts_step : forall f, MP_stmt f -> MP_stmts f -> MP_stmts (S f).
Proof.
  intros f IHs IHb g b c c' d Hc H Hm. split.
  - intro Hp. destruct b as [|s b].
    + rewrite compile_block_nil_eq in H. injection H as <-. exists d. split; [lia|apply Mx_refl; exact Hc].
    + rewrite compile_block_cons_eq in H. cbn [forallb] in Hm. apply andb_true_iff in Hm. destruct Hm as (Hm1 & Hm2).
      destruct (compile_stmt f s c) as [[] c1| | |] eqn:E1; try discriminate. cbn [cbind] in H.
      destruct (postfix_paired_cases s b Hp) as (Hnp & [(n & n' & op & rest & -> & -> & Hr)|Hb]).
      * pose proof (ident_stmt_Mx f n c c1 d Hc E1) as R1.
        destruct (IHb g _ c1 c' d (Mx_ok _ _ _ _ R1) H Hm2) as (_ & K).
        destruct (K n' op rest eq_refl Hr) as (dout & Hd & R2).
        exists dout. split; [exact Hd|]. eapply Mx_trans; [exact Hc|exact R1|exact R2].
      * destruct (IHs g s c c1 d Hc E1 Hm1 Hnp) as (d1 & Hd1 & R1).
        destruct (IHb g b c1 c' d1 (Mx_ok _ _ _ _ R1) H Hm2) as (K & _).
        destruct (K Hb) as (dout & Hd & R2).
        exists dout. split; [lia|]. eapply Mx_trans; [exact Hc|exact R1|exact R2].
  - intros n op rest -> Hr.
    rewrite compile_block_cons_eq in H. cbn [forallb] in Hm. apply andb_true_iff in Hm. destruct Hm as (Hm1 & Hm2).
    destruct (compile_stmt f (SExpr (EPostfix n op)) c) as [[] c1| | |] eqn:E1; try discriminate. cbn [cbind] in H.
    pose proof (postfix_stmt_Mx f n op c c1 d Hc E1) as R1.
    destruct (IHb g rest c1 c' d (Mx_ok _ _ _ _ R1) H Hm2) as (K & _).
    destruct (K Hr) as (dout & Hd & R2).
    exists dout. split; [exact Hd|]. eapply Mx_trans; [exact Hc|exact R1|exact R2].
Qed.

Lemma mp_block_of_stmts : forall f, MP_stmts f -> MP_block f.
Proof.
  intros f IH g b c c' d Hc H Hm. destruct (moded_block_inv _ _ Hm) as (g' & -> & Hf & Hp).
  destruct (IH g' b c c' d Hc H Hf) as (K & _). exact (K Hp).
Qed.

Lemma mp_case_exprs_step : forall f, MP_expr f -> MP_block f -> MP_case_exprs f -> MP_case_exprs (S f).
Proof.
  intros f IHe IHb IHce g v es blk patches c po c' d Hc H Hv Hes Hblk. destruct es as [|e es'].
  - rewrite compile_case_exprs_nil_eq in H. injection H as <- <-. apply Mce_nil. exact Hc.
  - rewrite compile_case_exprs_cons_eq in H. cbn [forallb] in Hes. apply andb_true_iff in Hes. destruct Hes as (He & Hes).
    destruct (compile_expr f v c) as [[] c1| | |] eqn:E1; try discriminate. cbn [cbind] in H.
    pose proof (IHe g v c c1 d Hc E1 Hv) as R1.
    destruct (compile_expr f e c1) as [[] c2| | |] eqn:E2; try discriminate. cbn [cbind] in H.
    pose proof (IHe g e c1 c2 (d + 1) (Mx_ok _ _ _ _ R1) E2 He) as R2. cbv zeta in H.
    assert (Hc4 : cstate_ok (emit1' OpJumpIfFalse 9999 (emit0 OpCase c2))).
    { eapply emits_ok. apply emits_emit1. eapply emits_ok. apply emits_emit0. exact (Mx_ok _ _ _ _ R2). }
    destruct (compile_block f blk _) as [[] c5| | |] eqn:E5 in H; try discriminate. cbn [cbind] in H.
    destruct (IHb g blk _ c5 d Hc4 E5 Hblk) as (d1 & Hd1 & R5).
    match type of H with compile_case_exprs f v es' blk _ ?c7 = _ =>
      assert (Hc7 : cstate_ok c7);
      [apply patch_ok; eapply emits_ok; apply emits_emit1; exact (Mx_ok _ _ _ _ R5)|] end.
    pose proof (IHce g v es' blk _ _ po c' d Hc7 H Hv Hes Hblk) as R7.
    exact (mc_case_exprs_cons d d1 patches po c c1 c2 c5 c' Hc R1 R2 R5 Hd1 R7).
Qed.

Lemma mp_cases_step : forall f, MP_case_exprs f -> MP_cases f -> MP_cases (S f).
Proof.
  intros f IHce IHc g v chs patches c po c' d Hc H Hv Hm. destruct chs as [|[[df es] blk] rest].
  - rewrite compile_cases_nil_eq in H. injection H as <- <-. apply Mce_nil. exact Hc.
  - cbn [forallb] in Hm. apply andb_true_iff in Hm. destruct Hm as (Hm1 & Hm2).
    unfold moded_choice in Hm1. cbn [fst snd] in Hm1. apply andb_true_iff in Hm1. destruct Hm1 as (Hes & Hblk).
    destruct df.
    + rewrite compile_cases_default_eq in H. exact (IHc g v rest patches c po c' d Hc H Hv Hm2).
    + rewrite compile_cases_arm_eq in H.
      destruct (compile_case_exprs f v es blk patches c) as [p1 c1| | |] eqn:E1; try discriminate.
      cbn [cbind] in H.
      pose proof (IHce g v es blk patches c p1 c1 d Hc E1 Hv Hes Hblk) as R1.
      pose proof (IHc g v rest p1 c1 po c' d (Mce_ok _ _ _ _ _ R1) H Hv Hm2) as R2.
      exact (Mce_trans d c c1 c' patches p1 po Hc R1 R2).
Qed.

Lemma mp_defaults_step : forall f, MP_block f -> MP_defaults f -> MP_defaults (S f).
Proof.
  intros f IHb IHd g chs c c' d Hc H Hm. destruct chs as [|[[df es] blk] rest].
  - rewrite compile_defaults_nil_eq in H. injection H as <-. exists d. split; [lia|apply Mx_refl; exact Hc].
  - cbn [forallb] in Hm. apply andb_true_iff in Hm. destruct Hm as (Hm1 & Hm2).
    unfold moded_choice in Hm1. cbn [fst snd] in Hm1. apply andb_true_iff in Hm1. destruct Hm1 as (Hes & Hblk).
    destruct df.
    + rewrite compile_defaults_default_eq in H.
      destruct (compile_block f blk c) as [[] c1| | |] eqn:E1; try discriminate. cbn [cbind] in H.
      destruct (IHb g blk c c1 d Hc E1 Hblk) as (d1 & Hd1 & R1).
      destruct (IHd g rest c1 c' d1 (Mx_ok _ _ _ _ R1) H Hm2) as (d2 & Hd2 & R2).
      exists d2. split; [lia|]. exact (Mx_trans _ _ _ _ _ _ Hc R1 R2).
    + rewrite compile_defaults_skip_eq in H. exact (IHd g rest c c' d Hc H Hm2).
Qed.

Lemma moded_all_fuel : forall fuel,
  MP_expr fuel /\ MP_exprs fuel /\ MP_pairs fuel /\ MP_sexpr fuel /\ MP_stmt fuel /\ MP_stmts fuel /\
  MP_case_exprs fuel /\ MP_cases fuel /\ MP_defaults fuel.
Proof.
  induction fuel as [|f (IHe & IHl & IHp & IHx & IHs & IHb & IHce & IHc & IHd)].
  - repeat split; intro; intros; discriminate.
  - pose proof (mp_block_of_stmts f IHb) as IHbb.
    pose proof (mp_expr_step f IHe IHl IHp) as He.
    split; [exact He|]. split; [exact (mp_exprs_step f IHe IHl)|]. split; [exact (mp_pairs_step f IHe IHp)|].
    split; [exact (mp_sexpr_step f IHe He IHbb IHc IHd)|]. split; [exact (mp_stmt_step f IHe IHx)|].
    split; [exact (mp_stmts_step f IHs IHb)|]. split; [exact (mp_case_exprs_step f IHe IHbb IHce)|].
    split; [exact (mp_cases_step f IHce IHc)|exact (mp_defaults_step f IHbb IHd)].
Qed.

(* ------------------------------------------------------------------ *)
(* PART 6: from annotated segments to the verifier's `check` *)

Fixpoint aflows (a : ann) (len : N) (is : list instr) : Prop :=
  match is with
  | [] => True
  | i :: rest => VP.flow_ok a len i (VP.nexti rest) /\ aflows a len rest
  end.

Lemma check_intro : forall consts all len a is0,
  Forall (VP.struct_ok consts all len) is0 -> aflows a len is0 -> check consts is0 all len a = VOk.
Proof.
  intros consts all len a. induction is0 as [|i rest IH]; intros HS HF; [reflexivity|].
  inversion HS as [|x l (S1 & S2 & S3) HS']; subst. destruct HF as (F & HF').
  cbn [check].
  assert (C1 : ((iop i =? OpJump) || (iop i =? OpJumpIfFalse)) &&
               negb (is_start all (iarg i) && (iarg i <? len)) = false).
  { destruct ((iop i =? OpJump) || (iop i =? OpJumpIfFalse)) eqn:E; [|reflexivity].
    apply orb_true_iff in E.
    assert (J : iop i = OpJump \/ iop i = OpJumpIfFalse) by (destruct E as [E|E]; apply N.eqb_eq in E; auto).
    destruct (S1 J) as (Hs & Hl). apply N.ltb_lt in Hl. rewrite Hs, Hl. reflexivity. }
  rewrite C1.
  assert (C2 : (iop i =? OpConstant) && negb (iarg i <? lenN consts) = false).
  { destruct (iop i =? OpConstant) eqn:E; [|reflexivity]. apply N.eqb_eq in E.
    specialize (S2 E). apply N.ltb_lt in S2. rewrite S2. reflexivity. }
  rewrite C2.
  assert (C3 : ((iop i =? OpLookup) || (iop i =? OpInc) || (iop i =? OpDec)) &&
               negb (match nthN consts (iarg i) with Some (VStr _) => true | _ => false end) = false).
  { destruct ((iop i =? OpLookup) || (iop i =? OpInc) || (iop i =? OpDec)) eqn:E; [|reflexivity].
    apply orb_true_iff in E. destruct E as [E|E]; [apply orb_true_iff in E|].
    - assert (J : iop i = OpLookup \/ iop i = OpInc \/ iop i = OpDec)
        by (destruct E as [E|E]; apply N.eqb_eq in E; auto).
      destruct (S3 J) as (s & Hs). rewrite Hs. reflexivity.
    - apply N.eqb_eq in E. destruct (S3 (or_intror (or_intror E))) as (s & Hs). rewrite Hs. reflexivity. }
  rewrite C3.
  destruct (ann_get a (iip i)) as [d|] eqn:Ha; [|apply IH; assumption].
  destruct (F d Ha) as (Hp & es & He & Hes).
  apply N.ltb_ge in Hp. rewrite Hp.
  change (match rest with j :: _ => Some j | [] => None end) with (VP.nexti rest). rewrite He.
  assert (Hfb : forallb (fun e => match ann_get a (fst e) with
                                  | Some b => state_le b (snd e)
                                  | None => len <=? fst e end) es = true).
  { apply forallb_forall. intros e Hin. rewrite Forall_forall in Hes. specialize (Hes e Hin).
    unfold VP.edge_ok in Hes. destruct (ann_get a (fst e)); [exact Hes|apply N.leb_le; exact Hes]. }
  rewrite Hfb. apply IH; assumption.
Qed.

(* the annotation as a table: the instructions that have one, in order *)
Fixpoint ann_of (f : pann) (is : list instr) : ann :=
  match is with
  | [] => []
  | i :: rest => match f (iip i) with
                 | Some s => (iip i, s) :: ann_of f rest
                 | None => ann_of f rest
                 end
  end.

Lemma ann_of_get_b : forall f is t,
  ann_get (ann_of f is) t = if is_start is t then f t else None.
Proof.
  intros f is t. unfold is_start. induction is as [|i is IH]; [reflexivity|].
  cbn [ann_of existsb]. destruct (N.eqb_spec (iip i) t) as [E|E]; cbn [orb].
  - destruct (f (iip i)) as [s|] eqn:Ef.
    + cbn [ann_get]. apply N.eqb_eq in E. rewrite E. apply N.eqb_eq in E. rewrite <- E. symmetry. exact Ef.
    + rewrite IH. rewrite <- E, Ef. match goal with |- (if ?c then _ else _) = _ => destruct c end; reflexivity.
  - destruct (f (iip i)) as [s|] eqn:Ef; [|exact IH].
    cbn [ann_get]. apply N.eqb_neq in E. rewrite E. exact IH.
Qed.

Lemma is_start_st : forall is t, is_start is t = true <-> st is t.
Proof.
  intros is t. unfold is_start, st. rewrite existsb_exists. split.
  - intros (i & Hi & E). apply N.eqb_eq in E. exists i. auto.
  - intros (i & Hi & E). exists i. split; [exact Hi|apply N.eqb_eq; exact E].
Qed.

Lemma ann_of_get : forall f is t,
  (st is t -> ann_get (ann_of f is) t = f t) /\ (~ st is t -> ann_get (ann_of f is) t = None).
Proof.
  intros f is t. rewrite ann_of_get_b. split; intro H.
  - apply is_start_st in H. rewrite H. reflexivity.
  - destruct (is_start is t) eqn:E; [|reflexivity]. apply is_start_st in E. contradiction.
Qed.

Lemma sle_bot : forall s, sle s (0, []) -> s = (0, []).
Proof.
  intros [d ms] H. unfold sle, state_le in H. cbn [fst snd] in H. apply andb_true_iff in H.
  destruct H as (H1 & H2). apply N.leb_le in H1. destruct ms; [|discriminate]. f_equal. lia.
Qed.

(* what `check` accepts, with the entry at depth 0 and no loop open *)
Definition has_ann (consts : list value) (code : list N) : Prop :=
  exists is a, decode (S (List.length code)) code 0 [] = (VOk, is) /\
               ann_get a 0 = Some (0, []) /\ check consts is is (lenN code) a = VOk.

Lemma body_has_ann : forall cs code, body_ok cs code -> body_ann code -> has_ann cs code.
Proof.
  intros cs code (is0 & D0 & K0) (dout & is & f & D & En & F).
  pose proof (dec_decode _ _ _ D (S (List.length code)) [] (Nat.lt_succ_diag_r _)) as D'.
  cbn [rev app] in D'. rewrite D0 in D'. injection D' as ->.
  destruct is as [|i0 is'] eqn:Eis.
  { exists [], [(0, (0, []))]. split; [exact D0|split; reflexivity]. }
  rewrite <- Eis in *.
  assert (Hne : is <> []) by (rewrite Eis; discriminate).
  assert (Hs0 : st is 0) by (destruct (dec_base _ _ _ D) as [H|[_ H]]; [exact H|contradiction]).
  assert (Hf0 : f 0 = Some (0, [])).
  { rewrite Eis in En; cbn [entry] in En. destruct En as (s & E & L). apply sle_bot in L. subst s. exact E. }
  set (a := ann_of f is).
  exists is, a. split; [exact D0|split].
  - unfold a. rewrite (proj1 (ann_of_get f is 0) Hs0), Hf0. reflexivity.
  - apply check_intro.
    + eapply Forall_impl; [|exact K0]. intros i (_ & H1 & H2 & H3). split; [exact H1|split; [exact H2|exact H3]].
    + assert (G : forall suf, (forall i, In i suf -> In i is) ->
                    flows f (segP f is (0 + lenN code) (dout, []) noX) suf -> aflows a (lenN code) suf).
      { induction suf as [|i suf IH]; intros Hin Hfl; [exact I|].
        cbn [flows aflows] in *. destruct Hfl as (Hi & Hfl). split.
        - intros d Hd.
          assert (Hsi : st is (iip i)) by (exists i; split; [apply Hin; left; reflexivity|reflexivity]).
          unfold a in Hd. rewrite (proj1 (ann_of_get f is (iip i)) Hsi) in Hd.
          unfold iflow in Hi. rewrite Hd in Hi. destruct Hi as (Hp & es & He & Hes).
          split; [exact Hp|]. exists es. split; [exact He|].
          eapply Forall_impl; [|exact Hes]. intros [t n] HP. cbn [fst snd] in HP.
          unfold VP.edge_ok. cbn [fst snd]. destruct HP as [(Hst & (s & Es & Hle))|[(Et & Hle)|[]]].
          + unfold a. rewrite (proj1 (ann_of_get f is t) Hst), Es. exact Hle.
          + assert (Hns : ~ st is t).
            { intro Hst. destruct (st_range _ _ _ _ D Hst) as (_ & Hlt). lia. }
            unfold a. rewrite (proj2 (ann_of_get f is t) Hns). lia.
        - apply IH; [intros j Hj; apply Hin; right; exact Hj|exact Hfl]. }
      apply G; [auto|exact F].
Qed.

(* ------------------------------------------------------------------ *)
(* PART 7: the theorems *)

(* `well_moded` fixes a large fuel; it is used only through this lemma.  (The proof
   goes through the contrapositive so that the kernel unfolds `well_moded`, not the
   fuelled fixpoint, when it checks the conversion.) *)
Lemma well_moded_block : forall ast, well_moded ast = true -> exists g, moded_block g ast = true.
Proof.
  intros ast H.
  pose (g := ltac:(let t := eval unfold well_moded in (well_moded ast) in
                   match t with moded_block ?g _ => exact g end)).
  destruct (moded_block g ast) eqn:E; [exists g; exact E|].
  exfalso.
  assert (E' : well_moded ast = false) by exact E.
  rewrite H in E'. discriminate.
Qed.

Lemma compiled_bodies_ann : forall fuel (ast : program) p,
  well_moded ast = true -> compile_program fuel ast = CompOk p ->
  body_ann (pmain p) /\ Forall (fun nf => body_ann (fcode (snd nf))) (pfuncs p).
Proof.
  intros fuel ast p Hw H. unfold compile_program in H.
  destruct (compile_block fuel ast (mkC [] 0 [] [])) as [[] c| | |] eqn:E; try discriminate.
  destruct (fits16 _) eqn:Ef in H; try discriminate. injection H as <-.
  cbn [pconsts pmain pfuncs]. unfold fits16 in Ef. cbn [pconsts pmain pfuncs] in Ef.
  apply andb_true_iff in Ef. destruct Ef as (Ef & Ef3).
  apply andb_true_iff in Ef. destruct Ef as (Ef1 & Ef2).
  apply N.leb_le in Ef1.
  destruct (moded_all_fuel fuel) as (_ & _ & _ & _ & _ & Pb & _).
  apply mp_block_of_stmts in Pb.
  assert (Hc0 : cstate_ok (mkC [] 0 [] [])) by reflexivity.
  destruct (well_moded_block ast Hw) as (g & Hg).
  destruct (Pb g ast _ c 0 Hc0 E Hg) as (dout & _ & ch & Em & F & S).
  assert (Hc : cstate_ok c) by apply Em.
  assert (Hch : rev (crev c) = ch).
  { destruct Em as (_ & _ & Em). unfold emitted in Em. cbn [crev rev app] in Em. exact Em. }
  assert (sm : sml c).
  { unfold sml. unfold cstate_ok in Hc. rewrite Hc, <- lenN_rev. exact Ef1. }
  split.
  - exists dout. rewrite Hch. exact (S sm []).
  - assert (FAc : FA (funcs c)) by (apply F; constructor).
    unfold FA in FAc. rewrite Forall_forall in *. rewrite forallb_forall in Ef3.
    intros nf Hnf. apply (FAc nf Hnf). apply N.leb_le. exact (Ef3 nf Hnf).
Qed.

(* (B) every body compiled from a well-moded script carries an annotation - depth 0 and no loop
   open at the entry - that the verifier's final check accepts *)
Theorem compiled_has_annotation : forall fuel (ast : program) p,
  well_moded ast = true -> compile_program fuel ast = CompOk p ->
  has_ann (pconsts p) (pmain p) /\
  Forall (fun nf => has_ann (pconsts p) (fcode (snd nf))) (pfuncs p).
Proof.
  intros fuel ast p Hw H.
  destruct (compile_structure fuel ast p H) as (Sm & Sf).
  destruct (compiled_bodies_ann fuel ast p Hw H) as (Am & Af).
  split; [apply body_has_ann; assumption|].
  rewrite Forall_forall in *. intros nf Hnf. apply body_has_ann; [apply (Sf nf Hnf)|apply (Af nf Hnf)].
Qed.

(* a body, as the theorems below name it: the main body or the code of a function in the table *)
Definition body_of (p : program_code) (code : list N) : Prop :=
  code = pmain p \/ exists nf, In nf (pfuncs p) /\ code = fcode (snd nf).

Lemma body_of_has_ann : forall fuel (ast : program) p code,
  well_moded ast = true -> compile_program fuel ast = CompOk p -> body_of p code ->
  has_ann (pconsts p) code.
Proof.
  intros fuel ast p code Hw H Hb. destruct (compiled_has_annotation fuel ast p Hw H) as (Hm & Hf).
  destruct Hb as [->|(nf & Hin & ->)]; [exact Hm|]. rewrite Forall_forall in Hf. exact (Hf nf Hin).
Qed.

Definition call_free (code : list N) : Prop :=
  forall is, decode (S (List.length code)) code 0 [] = (VOk, is) -> Forall (fun i => iop i <> OpCall) is.

(* any accepted annotation with entry 0 makes a call-free body safe (VerifierProofs.sound_gen) *)
Lemma has_ann_sound_callfree : forall o consts funcs fns obj code,
  has_ann consts code -> call_free code ->
  forall fuel m out m', stk m = [] ->
  exec o consts funcs fns obj fuel code 0 m = (out, m') -> out <> OErr EInternal.
Proof.
  intros o consts funcs fns obj code (is & a & D & Ha & Hck) Hcf fuel m out m' Hs H.
  pose proof (VP.decode_ok_chain _ _ D) as Hc. specialize (Hcf is D).
  destruct is as [|i0 is'].
  - cbn [VP.chain] in Hc. destruct fuel as [|f].
    + cbn [exec] in H. unfold fail in H. injection H as <- _. discriminate.
    + rewrite PollProofs.exec_S in H. rewrite <- Hc in H. cbn in H. injection H as <- _. discriminate.
  - eapply (VP.sound_gen o consts funcs fns obj code (i0 :: is') a (VP.kinds (menv m)) Hc Hck Hcf); [|exact H].
    left. right. exists [], i0, is', 0, []. cbn [VP.chain] in Hc. destruct Hc as (H0 & _).
    repeat split; auto. lia.
Qed.

(* (B') compiled call-free bodies of well-moded scripts never underflow *)
Theorem compiled_never_underflows_callfree : forall fuelc (ast : program) p code,
  well_moded ast = true -> compile_program fuelc ast = CompOk p -> body_of p code -> call_free code ->
  forall o funcs fns obj fuel m out m', stk m = [] ->
  exec o (pconsts p) funcs fns obj fuel code 0 m = (out, m') -> out <> OErr EInternal.
Proof.
  intros fuelc ast p code Hw H Hb Hcf o funcs fns obj fuel m out m' Hs He.
  eapply has_ann_sound_callfree; [eapply body_of_has_ann; eassumption|exact Hcf|exact Hs|exact He].
Qed.

(* ------------------------------------------------------------------ *)
(* PART 8: bodies with calls.
   The verifier assumes that a call leaves one value.  A host or user function
   that returns nothing (VVoid) leaves none, and an underflow that follows is
   the script's own doing.  `calls_push` says of one run - by recursion on the
   fuel, mirroring `exec` through the one-step function of OptSafeProofs.v -
   that every OpCall executed in it (in this body and, transitively, in the
   callees) did leave a value.  Under that condition no accepted body ends in
   the machine's internal error. *)

Module OS := EF.Proofs.OptSafeProofs.

Section Calls.
Variables (o : stdlib) (consts : list value) (funcs : list (str * ufunc)) (fns : fnmap) (obj : hostval).

Notation ex := (exec o consts funcs fns obj).
Notation stp := (OS.step o consts fns obj).

Fixpoint calls_push (fuel : nat) (code : list N) (ip : N) (m : mstate) : Prop :=
  match fuel with
  | O => True
  | S f =>
      match stp code ip m with
      | OS.SFin _ _ => True
      | OS.SNext ip' m' =>
          (* a built-in or host function was called: arg + 1 values popped, one pushed *)
          (byte_at code ip = Some OpCall -> forall arg, operand_at code ip = Some arg ->
             lenN (stk m') + arg = lenN (stk m)) /\
          calls_push f code ip' m'
      | OS.SCall name args s m1 next =>
          match ufunc_get name funcs with
          | None => True
          | Some uf =>
              if negb (Nat.eqb (List.length (fparams uf)) (List.length args)) then True
              else if negb (max_call_depth =? 0) && (max_call_depth <=? N.of_nat (env_depth (menv m1)))
              then True
              else
                let mc := mkM [] (declare_all (env_push_frame (menv m1)) (fparams uf) args)
                              (trace m1) (polls m1) in
                calls_push f (fcode uf) 0 mc /\
                match ex f (fcode uf) 0 mc with
                | (ODone out, m2) =>
                    out <> VVoid /\
                    calls_push f code next
                      (mkM (out :: s) (env_truncate (menv m2) (env_depth (menv m1))) (trace m2) (polls m2))
                | (OErr _, _) => True
                end
          end
      end
  end.

Section Body.
Variables (code : list N) (is : list instr) (a : ann).
(* the scopes that were open when the body was entered *)
Variable base : list skind.
Hypothesis Hchain : VP.chain code 0 is.
Hypothesis Hcheck : check consts is is (lenN code) a = VOk.

Notation good := (VP.good code is a base).
Notation egood := (VP.egood code is a base).
Notation Inv := (VP.Inv code is a base).
Notation kinds := VP.kinds.

Lemma start_split' : forall t, is_start is t = true -> exists pre i rest, is = pre ++ i :: rest /\ iip i = t.
Proof.
  intros t H. unfold is_start in H. apply existsb_exists in H. destruct H as (i & Hin & E).
  apply N.eqb_eq in E. apply in_split in Hin. destruct Hin as (pre & rest & ->).
  exists pre, i, rest. split; [reflexivity|exact E].
Qed.

Lemma flow_good' : forall pre i rest st,
  is = pre ++ i :: rest -> ann_get a (iip i) = Some st ->
  pops i <= fst st /\ exists es, edges i (VP.nexti rest) st = Some es /\ Forall egood es.
Proof.
  intros pre i rest st E Ha.
  destruct (VP.check_spec _ _ _ _ _ Hcheck pre i rest E) as (S & F).
  destruct (F st Ha) as (Hp & es & He & Hes). split; [exact Hp|]. exists es. split; [exact He|].
  assert (T : Forall (fun e => VP.startish code is (fst e)) es).
  { destruct S as (S1 & _ & _).
    pose proof (VP.next_startish _ _ Hchain _ _ _ E) as Nx.
    pose proof (VP.at_chain _ _ Hchain _ _ _ E) as C. cbn [VP.chain] in C.
    destruct C as (_ & _ & _ & _ & Hl & _ & C).
    destruct st as [d ms]. unfold edges in He.
    destruct (N.eqb_spec (iop i) OpReturn) as [E1|E1]; [injection He as <-; constructor|].
    destruct (N.eqb_spec (iop i) OpJump) as [E2|E2].
    { injection He as <-. constructor; [|constructor]. cbn [fst]. right. apply start_split', S1. auto. }
    destruct (N.eqb_spec (iop i) OpJumpIfFalse) as [E3|E3].
    { injection He as <-. constructor; [|constructor; [|constructor]]; cbn [fst].
      - rewrite E3, VP.op_len_jif in Hl. rewrite <- Hl. exact Nx.
      - right. apply start_split', S1. auto. }
    destruct (N.eqb_spec (iop i) OpIterationReset) as [E6|E6].
    { injection He as <-. constructor; [|constructor]. cbn [fst]. exact Nx. }
    destruct (N.eqb_spec (iop i) OpIterationNext) as [E4|E4].
    { destruct rest as [|j rest']; cbn [VP.nexti] in He; [discriminate|].
      destruct ms as [|k ms0]; [discriminate|].
      destruct (N.eqb_spec (iop j) OpJumpIfFalse) as [E5|E5]; [|discriminate].
      cbv zeta in He. destruct (N.min (d - 2) k =? 0); [discriminate|].
      injection He as <-.
      assert (Ej : is = (pre ++ [i]) ++ j :: rest') by (rewrite <- app_assoc; exact E).
      destruct (VP.check_spec _ _ _ _ _ Hcheck _ j rest' Ej) as ((Sj & _ & _) & _).
      pose proof (VP.next_startish _ _ Hchain _ _ _ Ej) as Nj.
      pose proof (VP.at_chain _ _ Hchain _ _ _ Ej) as Cj. cbn [VP.chain] in Cj.
      destruct Cj as (_ & _ & _ & _ & Hlj & _).
      rewrite E5, VP.op_len_jif in Hlj. rewrite Hlj in Nj.
      constructor; [|constructor; [|constructor]]; cbn [fst]; [exact Nj|]. right. apply start_split', Sj. auto. }
    injection He as <-. constructor; [|constructor]. cbn [fst]. exact Nx. }
  rewrite Forall_forall in *. intros e Hin.
  apply VP.edge_good; [apply (Hes _ Hin)|apply (T _ Hin)].
Qed.

(* what one instruction may do, from a state the annotation covers *)
Definition iok (i : instr) (m : mstate) (r : OS.ires) : Prop :=
  match r with
  | OS.IFin out m' => out <> OErr EInternal /\ (forall v, out = ODone v -> menv m' = menv m)
  | OS.IFall m' =>
      (iop i = OpCall -> lenN (stk m') + iarg i = lenN (stk m)) -> Inv (iip i + ilen i) m'
  | OS.IJump m' => good (iarg i) (lenN (stk m')) (kinds (menv m')) /\ iarg i < lenN code
  | OS.ICall _ _ s => good (iip i + ilen i) (lenN s + 1) (kinds (menv m))
  end.

Ltac ev_goal :=
  repeat (match goal with
          | |- context [binop_of_opcode ?x] =>
              let v := eval vm_compute in (binop_of_opcode x) in
              match v with Some _ => idtac | None => idtac end; change (binop_of_opcode x) with v
          | |- context [if ?c then _ else _] =>
              let v := eval vm_compute in c in
              match v with true => idtac | false => idtac end; change c with v
          end; cbv beta iota zeta).

Ltac ev_in H :=
  repeat (match type of H with
          | context [if ?c then _ else _] =>
              let v := eval vm_compute in c in
              match v with true => idtac | false => idtac end; change c with v in H
          end; cbv beta iota zeta in H).

Hint Resolve VP.name_of_ni VP.lookup_ni VP.lookup1_ni VP.lookup2_ni VP.vm_binop_ni VP.vm_case_ni
             VP.vm_index_ni VP.vm_minus_ni VP.vm_sqrt_ni VP.vm_range_ni VP.iter_next_ni VP.of_bres_ni : ni.

Ltac ni :=
  first [ discriminate
        | let X := fresh in intro X; injection X as ->; exfalso; eauto with ni ].

Ltac lens := unfold lenN in *; cbn [List.length] in *; lia.

Ltac crunch_res :=
  repeat (cbv beta iota zeta;
          match goal with
          | |- iok _ _ (match ?x with _ => _ end) => destruct x eqn:?
          end);
  cbv beta iota zeta.

(* the scopes of the new environment are those the edge expects *)
Ltac kinds_tac :=
  cbn [menv]; rewrite ?VP.kinds_declare2, ?VP.kinds_env_declare, ?VP.kinds_env_set, ?VP.kinds_env_push;
  cbn [VP.marks_ok];
  first [ assumption | split; [lens|assumption] ].

Ltac use_edge t :=
  match goal with
  | G : VP.egood _ _ _ _ (t, _) |- _ => unfold VP.egood in G; cbn [fst snd] in G; apply G; [lens|kinds_tac]
  end.

Ltac fin_tac := split; [ni|let v := fresh in let X := fresh in intros v X; try discriminate X; reflexivity].

Ltac leaf :=
  lazymatch goal with
  | |- iok ?i _ (OS.IFall _) =>
      unfold iok; cbn [iip iop iarg ilen]; intros _; left; unfold push, set_stk, set_env; cbn [stk menv];
      lazymatch goal with |- VP.good _ _ _ _ ?t _ _ => use_edge t end
  | |- iok _ _ (OS.IJump _) =>
      unfold iok; cbn [iip iop iarg ilen]; split; [unfold push, set_stk, set_env; cbn [stk menv];
      lazymatch goal with |- VP.good _ _ _ _ ?t _ _ => use_edge t end|assumption]
  | |- iok _ _ (OS.IFin _ _) => unfold iok, fail, set_stk, set_env; cbn [menv]; fin_tac
  end.

Lemma host_call_ni : forall k args, host_call k args = Err EInternal -> False.
Proof. intros k args. destruct k; discriminate. Qed.

(* IterationNext; JumpIfFalse *)
Lemma instr_iter : forall pre i rest d bs m,
  is = pre ++ i :: rest -> iop i = OpIterationNext -> ann_get a (iip i) = Some (d, bs) -> d <= lenN (stk m) ->
  VP.marks_ok base bs (kinds (menv m)) ->
  iok i m (OS.instr o consts fns obj (iop i) (iarg i) m).
Proof.
  intros pre i rest d bs m E Ei Ha Hd Hm.
  pose proof (VP.at_chain _ _ Hchain _ _ _ E) as C. cbn [VP.chain] in C.
  destruct C as (_ & Hlt & Hk & Hb & Hl & Hop & Hnext).
  destruct (flow_good' _ _ _ _ E Ha) as (Hp & es & He & Hg). cbn [fst] in Hp.
  unfold OS.instr. cbv beta zeta.
  destruct i as [ip0 op arg ln]. destruct m as [st en tr po].
  cbn [iip iop iarg ilen stk menv trace polls] in *. subst op.
  vm_compute in Hl; subst ln.
  cbv [edges pops pushes iip iop iarg ilen] in He, Hp; ev_in He; ev_in Hp.
  ev_goal.
  destruct rest as [|j rest']; cbn [VP.nexti] in He; [discriminate|].
  destruct bs as [|k ms0]; [discriminate|].
  destruct j as [jip jop jarg jlen]. cbv beta iota in He.
  destruct (N.eqb_spec jop OpJumpIfFalse) as [Ej|Ej]; [|discriminate]. subst jop.
  destruct (N.eqb_spec (N.min (d - 2) k) 0) as [Eb|Eb]; [discriminate|].
  injection He as <-. apply VP.Forall_2 in Hg. destruct Hg as [Hg Hg2].
  cbn [VP.chain iip] in Hnext. destruct Hnext as (Hj & _). subst jip.
  set (j := mkI (ip0 + 1) OpJumpIfFalse jarg jlen) in *.
  assert (Es : is = (pre ++ [mkI ip0 OpIterationNext arg 1]) ++ j :: rest')
    by (rewrite <- app_assoc; exact E).
  cbn [VP.marks_ok] in Hm. destruct (kinds en) as [|[|kr] K'] eqn:EK; try contradiction.
  destruct Hm as (Hkr & Hm).
  destruct st as [|v1 [|v2 rest0]]; try (exfalso; lens).
  unfold drop_residue. rewrite (VP.kinds_env_mark _ _ _ EK).
  pose proof (VP.keep_bottom_len kr rest0) as KL.
  set (bb := N.min (d - 2) k) in *.
  assert (Hbb : bb <= lenN (keep_bottom kr rest0)).
  { rewrite KL. unfold bb. rewrite VP.lenN_cons, VP.lenN_cons in Hd. lia. }
  clearbody bb. clear KL.
  destruct (keep_bottom kr rest0) as [|it s] eqn:Ek; [exfalso; lens|].
  unfold VP.egood in Hg, Hg2. cbn [fst snd] in Hg, Hg2.
  crunch_res;
  lazymatch goal with
  | |- iok _ _ (OS.IFall {| stk := VBool true :: ?s0; menv := _; trace := _; polls := _ |}) =>
      unfold iok; cbn [iip iop iarg ilen]; intros _;
      right; exists (pre ++ [mkI ip0 OpIterationNext arg 1]), j, rest', true, s0;
      cbn [stk menv]; repeat split; [exact Es|];
      cbv beta iota; apply Hg; [lens|];
      rewrite ?VP.kinds_declare2, ?VP.kinds_env_declare, EK; cbn [VP.marks_ok]; split; assumption
  | |- iok _ _ (OS.IFall {| stk := VBool false :: ?s0; menv := ?e1; trace := _; polls := _ |}) =>
      unfold iok; cbn [iip iop iarg ilen]; intros _;
      right; exists (pre ++ [mkI ip0 OpIterationNext arg 1]), j, rest', false, s0;
      cbn [stk menv]; repeat split; [exact Es|];
      cbv beta iota; apply Hg2; [lens|];
      match goal with P : env_pop en = Some _ |- _ => rewrite (VP.kinds_env_pop _ _ _ _ P EK) end; exact Hm
  | _ => leaf
  end.
Qed.

Lemma instr_good : forall pre i rest d bs m,
  is = pre ++ i :: rest -> ann_get a (iip i) = Some (d, bs) -> d <= lenN (stk m) ->
  VP.marks_ok base bs (kinds (menv m)) ->
  iok i m (OS.instr o consts fns obj (iop i) (iarg i) m).
Proof.
  intros pre i rest d bs m E Ha Hd Hm.
  destruct (N.eq_dec (iop i) OpIterationNext) as [Ei|Ei]; [eapply instr_iter; eassumption|].
  pose proof (VP.at_chain _ _ Hchain _ _ _ E) as C. cbn [VP.chain] in C.
  destruct C as (_ & Hlt & Hk & Hb & Hl & Hop & Hnext).
  destruct (VP.check_spec _ _ _ _ _ Hcheck pre i rest E) as ((S1 & S2 & S3) & _).
  destruct (flow_good' _ _ _ _ E Ha) as (Hp & es & He & Hg). cbn [fst] in Hp.
  unfold OS.instr. cbv beta zeta.
  destruct i as [ip0 op arg ln]. destruct m as [st en tr po].
  cbn [iip iop iarg ilen stk menv trace polls] in *.
  unfold known_ops, memN in Hk.
  repeat (apply orb_true_iff in Hk; destruct Hk as [Hk|Hk]; [apply N.eqb_eq in Hk; subst op|]);
    [..|discriminate].
  all: try (exfalso; apply Ei; reflexivity).
  all: vm_compute in Hl; subst ln.
  all: cbv [edges pops pushes iip iop iarg ilen] in He, Hp; ev_in He; ev_in Hp.
  all: ev_goal.
  all: try (pose proof (S1 (or_introl eq_refl)) as [_ Sj]).
  all: try (pose proof (S1 (or_intror eq_refl)) as [_ Sj]).
  all: try (destruct (VP.nthN_lt _ _ (S2 eq_refl)) as [cv Hcv]; rewrite Hcv).
  all: try (destruct (S3 (or_introl eq_refl)) as [sv Hsv]; rewrite Hsv).
  all: try (destruct (S3 (or_intror (or_introl eq_refl))) as [sv Hsv]; rewrite Hsv).
  all: try (destruct (S3 (or_intror (or_intror eq_refl))) as [sv Hsv]; rewrite Hsv).
  all: clear S1 S2 S3.
  all: lazymatch type of Hb with
       | _ = Some OpArray =>
           injection He as <-; apply VP.Forall_1 in Hg;
           let el := fresh "el" in let s' := fresh "s'" in let Ep := fresh "Ep" in let L := fresh "L" in
           destruct (VP.pop_n_ok (N.to_nat arg) st []) as (el & s' & Ep & L); [lens|];
           rewrite Ep; cbv beta iota zeta; leaf
       | _ = Some OpHash =>
           let q := fresh "q" in let q2 := fresh "q2" in let Hq := fresh "Hq" in let Hq2 := fresh "Hq2" in
           remember ((arg + 1) / 2) as q eqn:Hq; clear Hq;
           remember (2 * q) as q2 eqn:Hq2;
           assert (Hq2' : N.to_nat q2 = (2 * N.to_nat q)%nat) by lia; clear Hq2;
           injection He as <-; apply VP.Forall_1 in Hg;
           let B := fresh "B" in
           assert (B : (2 * N.to_nat q <= List.length st)%nat) by lens;
           apply (VP.build_hash_ok o _ _ []) in B;
           destruct (build_hash o (N.to_nat q) st []) as [[ps s']|e];
           cbv beta iota zeta; [leaf|unfold iok; split; [congruence|intros ? X; discriminate X]]
       | _ = Some OpCall =>
           injection He as <-; apply VP.Forall_1 in Hg; unfold VP.egood in Hg; cbn [fst snd] in Hg;
           let fname := fresh "fname" in let s0 := fresh "s0" in
           destruct st as [|fname s0]; [exfalso; lens|];
           cbv beta iota zeta;
           let name := fresh "name" in let En := fresh "En" in
           destruct (name_of o fname) as [name|e] eqn:En; [|leaf];
           let args := fresh "args" in let s := fresh "s" in let Ep := fresh "Ep" in let L := fresh "L" in
           destruct (VP.pop_n_ok (N.to_nat arg) s0 []) as (args & s & Ep & L); [lens|];
           rewrite Ep; cbv beta iota zeta;
           destruct (fn_get name fns) as [[bn|k]|];
           [ destruct (call_builtin o bn args) as [r|]; [|leaf];
             let Er := fresh "Er" in destruct (of_bres r) as [v|e] eqn:Er; [|leaf];
             unfold iok; cbn [iip iop iarg ilen stk]; intro Hpush; specialize (Hpush eq_refl);
             left; unfold set_stk in *; cbn [stk menv] in *; apply Hg; [lens|exact Hm]
           | let Eh := fresh "Eh" in destruct (host_call k args) as [v|e] eqn:Eh;
             [ unfold iok; cbn [iip iop iarg ilen stk]; intro Hpush; specialize (Hpush eq_refl);
               left; unfold set_stk in *; cbn [stk menv] in *; apply Hg; [lens|exact Hm]
             | unfold iok; split; [intro X; injection X as ->; exact (host_call_ni _ _ Eh)|intros ? X; discriminate X] ]
           | unfold iok; cbn [iip iop iarg ilen menv]; apply Hg; [lens|exact Hm] ]
       | _ =>
           injection He as <-;
           try (apply VP.Forall_1 in Hg);
           try (apply VP.Forall_2 in Hg; destruct Hg as [Hg Hg2]);
           destruct st as [|v1 [|v2 [|v3 s]]];
           try (exfalso; lens);
           crunch_res; leaf
       end.
Qed.

Lemma poll_stk : forall m m1, OS.poll m = Some m1 -> stk m1 = stk m /\ menv m1 = menv m.
Proof.
  intros m m1 H. unfold OS.poll in H. destruct (polls m) as [[|p]|]; try discriminate; injection H as <-;
    split; reflexivity.
Qed.

Lemma instr_jif : forall arg m,
  OS.instr o consts fns obj OpJumpIfFalse arg m =
  match stk m with
  | c :: s => if truthy c then OS.IFall (set_stk m s) else OS.IJump (set_stk m s)
  | [] => OS.IFin (OErr EInternal) m
  end.
Proof. intros. reflexivity. Qed.

(* what one step may do *)
Definition sok (ip : N) (m : mstate) (r : OS.sres) : Prop :=
  match r with
  | OS.SFin out m' => out <> OErr EInternal /\ (forall v, out = ODone v -> VP.over base (kinds (menv m')))
  | OS.SNext ip' m' =>
      (byte_at code ip = Some OpCall -> forall arg, operand_at code ip = Some arg ->
         lenN (stk m') + arg = lenN (stk m)) -> Inv ip' m'
  | OS.SCall _ _ s m1 next => good next (lenN s + 1) (kinds (menv m1))
  end.

Lemma step_sound : forall ip m, Inv ip m -> sok ip m (stp code ip m).
Proof.
  intros ip m HI. unfold OS.step.
  pose proof (VP.Inv_over _ _ _ _ _ _ HI) as Hov.
  destruct (lenN code <=? ip) eqn:L; [cbn [sok]; split; [discriminate|intros _ _; exact Hov]|]. apply N.leb_gt in L.
  destruct (OS.poll m) as [m1|] eqn:Ep; [|cbn [sok]; split; [discriminate|intros ? X; discriminate X]].
  destruct (poll_stk _ _ Ep) as (Es & Ee).
  destruct HI as [[[Hl _]|(pre & i & rest & d & bs & E & Hi & Ha & Hd & Hm)]|(pre & j & rest & b & s' & E & Hj & Eop & Hs & Hgd)].
  - lia.
  - subst ip.
    pose proof (VP.at_chain _ _ Hchain _ _ _ E) as C. cbn [VP.chain] in C.
    destruct C as (_ & _ & _ & Hb & Hl & Hop & _).
    rewrite Hb. rewrite <- Hl, Hop.
    assert (Hd1 : d <= lenN (stk m1)) by (rewrite Es; exact Hd).
    assert (Hm1 : VP.marks_ok base bs (kinds (menv m1))) by (rewrite Ee; exact Hm).
    pose proof (instr_good pre i rest d bs m1 E Ha Hd1 Hm1) as G.
    destruct (OS.instr o consts fns obj (iop i) (iarg i) m1) as [out m'|m'|m'|name args s]; cbn [iok sok] in *.
    + destruct G as (G1 & G2). split; [exact G1|]. intros v Ev. rewrite (G2 v Ev), Ee. exact Hov.
    + intro Hpush. apply G. intro Ec. rewrite Es. apply Hpush; [rewrite Ec in Hb; exact Hb|].
      rewrite Ec in Hl. change (op_len OpCall) with 3 in Hl. rewrite Hl in Hop. exact Hop.
    + destruct G as (G & Hlt). apply N.leb_gt in Hlt. rewrite Hlt. cbn [sok]. intros _. left. exact G.
    + exact G.
  - subst ip.
    pose proof (VP.at_chain _ _ Hchain _ _ _ E) as C. cbn [VP.chain] in C.
    destruct C as (_ & _ & _ & Hb & Hl & Hop & _).
    destruct (VP.check_spec _ _ _ _ _ Hcheck pre j rest E) as ((S1 & _ & _) & _).
    destruct (S1 (or_intror Eop)) as [_ Sj]. apply N.leb_gt in Sj.
    rewrite Hb. rewrite <- Hl, Hop. rewrite Eop, instr_jif. rewrite Es, Hs.
    rewrite Eop in Hl. change (op_len OpJumpIfFalse) with 3 in Hl. rewrite Hl.
    destruct b; cbn [truthy].
    + cbn [sok]. intros _. left. unfold set_stk. cbn [stk menv]. rewrite Ee. exact Hgd.
    + rewrite Sj. cbn [sok]. intros _. left. unfold set_stk. cbn [stk menv]. rewrite Ee. exact Hgd.
Qed.

End Body.

(* every function that can be called has an accepted annotation *)
Hypothesis Hfuncs : Forall (fun nf => has_ann consts (fcode (snd nf))) funcs.

Lemma ufunc_get_in : forall name (l : list (str * ufunc)) uf, ufunc_get name l = Some uf -> exists n, In (n, uf) l.
Proof.
  intros name. induction l as [|[n f] l IH]; intros uf H; [discriminate|].
  cbn [ufunc_get] in H. destruct (str_eqb n name).
  - injection H as <-. exists n. left. reflexivity.
  - destruct (IH uf H) as (n' & Hin). exists n'. right. exact Hin.
Qed.

(* binding the parameters changes the contents of the frame, not the scopes *)
Lemma kinds_declare_all : forall names vals e, VP.kinds (declare_all e names vals) = VP.kinds e.
Proof.
  induction names as [|n names IH]; intros vals e; [reflexivity|].
  destruct vals as [|v vals]; [reflexivity|]. cbn [declare_all]. rewrite IH. apply VP.kinds_env_declare.
Qed.

(* closing the scopes the callee left open gives back the scopes of the caller *)
Lemma kinds_truncate : forall e pre K,
  VP.kinds e = pre ++ K -> VP.kinds (env_truncate e (List.length K)) = K.
Proof.
  intros e pre K H. unfold VP.kinds, env_truncate in *. cbn [scopes].
  rewrite <- skipn_map, H.
  replace (List.length (scopes e)) with (List.length (pre ++ K)) by (rewrite <- H; apply map_length).
  rewrite app_length. replace (List.length pre + List.length K - List.length K)%nat with (List.length pre) by lia.
  rewrite skipn_app, skipn_all, Nat.sub_diag. reflexivity.
Qed.

Lemma sound_calls_gen : forall fuel code is a base,
  VP.chain code 0 is -> check consts is is (lenN code) a = VOk ->
  forall ip m out m', VP.Inv code is a base ip m -> ex fuel code ip m = (out, m') ->
  calls_push fuel code ip m ->
  out <> OErr EInternal /\ (forall v, out = ODone v -> VP.over base (VP.kinds (menv m'))).
Proof.
  induction fuel as [|f IH]; intros code is a base Hch Hck ip m out m' HI H Hcp.
  - cbn [exec] in H. unfold fail in H. injection H as <- _. split; [discriminate|intros ? X; discriminate X].
  - rewrite OS.exec_S_step in H. cbn [calls_push] in Hcp.
    pose proof (step_sound code is a base Hch Hck ip m HI) as SS.
    destruct (stp code ip m) as [out0 m0|ip' m1|name args s m1 next]; cbn [OS.run_sres sok] in *.
    + injection H as <- <-. exact SS.
    + destruct Hcp as (Hpush & Hcp). eapply (IH code is a base Hch Hck ip' m1); [exact (SS Hpush)|exact H|exact Hcp].
    + destruct (ufunc_get name funcs) as [uf|] eqn:Eu;
        [|injection H as <- _; split; [discriminate|intros ? X; discriminate X]].
      destruct (negb (Nat.eqb (List.length (fparams uf)) (List.length args)));
        [injection H as <- _; split; [discriminate|intros ? X; discriminate X]|].
      destruct (negb (max_call_depth =? 0) && (max_call_depth <=? N.of_nat (env_depth (menv m1))));
        [injection H as <- _; split; [discriminate|intros ? X; discriminate X]|].
      cbv zeta in Hcp. destruct Hcp as (Hcc & Hcp).
      set (mc := mkM [] (declare_all (env_push_frame (menv m1)) (fparams uf) args) (trace m1) (polls m1)) in *.
      (* the callee *)
      destruct (ufunc_get_in _ _ _ Eu) as (n & Hin).
      rewrite Forall_forall in Hfuncs. pose proof (Hfuncs _ Hin) as (isc & ac & Dc & Hac & Hckc). cbn [snd] in *.
      pose proof (VP.decode_ok_chain _ _ Dc) as Hchc.
      set (basec := SFrame :: VP.kinds (menv m1)).
      assert (Hkc : VP.kinds (menv mc) = basec).
      { unfold mc. cbn [menv]. rewrite kinds_declare_all. reflexivity. }
      assert (HIc : VP.Inv (fcode uf) isc ac basec 0 mc).
      { left. destruct isc as [|i0 isc'].
        - left. cbn [VP.chain] in Hchc. split; [lia|]. exists []. exact Hkc.
        - right. exists [], i0, isc', 0, []. cbn [VP.chain] in Hchc. destruct Hchc as (H0 & _).
          repeat split; auto. unfold mc. cbn [stk]. unfold lenN. cbn. lia. }
      destruct (ex f (fcode uf) 0 mc) as [[outc|e] m2] eqn:Ec.
      * destruct Hcp as (Hnv & Hcp).
        assert (Hst : (match outc with VVoid => s | _ => outc :: s end) = outc :: s)
          by (destruct outc; try reflexivity; contradiction).
        rewrite Hst in H.
        destruct (IH _ _ _ basec Hchc Hckc 0 mc _ _ HIc Ec Hcc) as (_ & Hovc).
        destruct (Hovc outc eq_refl) as (ks & Hks).
        assert (Hk2 : VP.kinds (env_truncate (menv m2) (env_depth (menv m1))) = VP.kinds (menv m1)).
        { unfold env_depth. replace (List.length (scopes (menv m1))) with (List.length (VP.kinds (menv m1)))
            by (apply map_length).
          apply (kinds_truncate _ (map SLoop ks ++ [SFrame])). rewrite Hks. unfold basec.
          rewrite <- app_assoc. reflexivity. }
        eapply (IH code is a base Hch Hck next _); [|exact H|exact Hcp].
        left. cbn [stk menv]. rewrite Hk2. eapply VP.good_mono; [exact SS|]. rewrite VP.lenN_cons. lia.
      * injection H as <- _. split; [|intros ? X; discriminate X].
        exact (proj1 (IH _ _ _ basec Hchc Hckc 0 mc _ _ HIc Ec Hcc)).
Qed.

(* (A) the verifier is sound for bodies with calls: an accepted body, every callable function
   accepted, started on an empty stack; if every call executed in the run left a value, the run
   does not end in the machine's internal error *)
Theorem verifier_sound_calls : forall code, has_ann consts code ->
  forall fuel m out m', stk m = [] ->
  ex fuel code 0 m = (out, m') -> calls_push fuel code 0 m -> out <> OErr EInternal.
Proof.
  intros code (is & a & D & Ha & Hck) fuel m out m' Hs H Hcp.
  pose proof (VP.decode_ok_chain _ _ D) as Hch.
  eapply (proj1 (sound_calls_gen fuel code is a (VP.kinds (menv m)) Hch Hck 0 m out m' _ H Hcp)).
  Unshelve.
  left. destruct is as [|i0 is'].
  - left. cbn [VP.chain] in Hch. split; [lia|]. exists []. reflexivity.
  - right. exists [], i0, is', 0, []. cbn [VP.chain] in Hch. destruct Hch as (H0 & _).
    repeat split; auto. lia.
Qed.

End Calls.

(* ------------------------------------------------------------------ *)
(* PART 9: programs *)

(* what the executable verifier accepts has an annotation in the above sense *)
Lemma verify_body_has_ann : forall consts isf code, verify_body consts isf code = VOk -> has_ann consts code.
Proof.
  intros consts isf code H. destruct (VP.verify_body_inv _ _ _ H) as (is & D & R).
  destruct R as [[-> _]|(_ & _ & a & Hf & Hck)].
  - exists [], [(0, (0, []))]. split; [exact D|split; reflexivity].
  - exists is, a. split; [exact D|split; [|exact Hck]].
    exact (VP.flow_entry0 _ _ _ _ (eq_refl : VP.entry0 [(0, (0, []))]) Hf).
Qed.

Lemma verify_program_has_ann : forall p, verify_program p = VOk ->
  has_ann (pconsts p) (pmain p) /\ Forall (fun nf => has_ann (pconsts p) (fcode (snd nf))) (pfuncs p).
Proof.
  intros p H. unfold verify_program in H.
  destruct (verify_body (pconsts p) false (pmain p)) eqn:Em; [|discriminate].
  split; [eapply verify_body_has_ann; exact Em|].
  revert H. generalize (pfuncs p). induction l as [|[n f] l IH]; intro H; [constructor|].
  destruct (verify_body (pconsts p) true (fcode f)) eqn:Ef; [|discriminate].
  constructor; [eapply verify_body_has_ann; exact Ef|apply IH; exact H].
Qed.

(* the empty-stack start of VM.Run *)
Lemma run_main_sound : forall o consts funcs fns obj main,
  has_ann consts main -> Forall (fun nf => has_ann consts (fcode (snd nf))) funcs ->
  forall fuel m out m',
  run_main o consts funcs fns obj fuel main m = (out, m') ->
  calls_push o consts funcs fns obj fuel main 0 (mkM [] (env_truncate (menv m) 0) (trace m) (polls m)) ->
  out <> OErr EInternal.
Proof.
  intros o consts funcs fns obj main Hm Hf fuel m out m' H Hcp. unfold run_main in H.
  destruct main as [|b main']; [injection H as <- _; discriminate|].
  destruct (exec o consts funcs fns obj fuel (b :: main') 0 _) as [out1 m1] eqn:E.
  injection H as <- _.
  eapply (verifier_sound_calls o consts funcs fns obj Hf (b :: main') Hm); [|exact E|exact Hcp]. reflexivity.
Qed.

(* (A) for accepted programs: if the executable verifier accepts the program, no run of the main
   body or of a function body from an empty stack, in which every executed call left a value,
   ends in the machine's internal error *)
Theorem verifier_sound_calls_program : forall p, verify_program p = VOk ->
  forall code, body_of p code ->
  forall o fns obj fuel m out m', stk m = [] ->
  exec o (pconsts p) (pfuncs p) fns obj fuel code 0 m = (out, m') ->
  calls_push o (pconsts p) (pfuncs p) fns obj fuel code 0 m -> out <> OErr EInternal.
Proof.
  intros p Hv code Hb o fns obj fuel m out m' Hs H Hcp.
  destruct (verify_program_has_ann p Hv) as (Hm & Hf).
  eapply (verifier_sound_calls o (pconsts p) (pfuncs p) fns obj Hf code); [|exact Hs|exact H|exact Hcp].
  destruct Hb as [->|(nf & Hin & ->)]; [exact Hm|]. rewrite Forall_forall in Hf. exact (Hf nf Hin).
Qed.

(* (A)+(B): compiled code of a well-moded script never fails with the machine's internal error
   for reasons other than the script's own use of value-less calls *)
Theorem compiled_never_underflows : forall fuelc (ast : program) p,
  well_moded ast = true -> compile_program fuelc ast = CompOk p ->
  forall code, body_of p code ->
  forall o fns obj fuel m out m', stk m = [] ->
  exec o (pconsts p) (pfuncs p) fns obj fuel code 0 m = (out, m') ->
  calls_push o (pconsts p) (pfuncs p) fns obj fuel code 0 m -> out <> OErr EInternal.
Proof.
  intros fuelc ast p Hw Hc code Hb o fns obj fuel m out m' Hs H Hcp.
  destruct (compiled_has_annotation fuelc ast p Hw Hc) as (Hm & Hf).
  eapply (verifier_sound_calls o (pconsts p) (pfuncs p) fns obj Hf code); [|exact Hs|exact H|exact Hcp].
  destruct Hb as [->|(nf & Hin & ->)]; [exact Hm|]. rewrite Forall_forall in Hf. exact (Hf nf Hin).
Qed.

Theorem compiled_run_never_underflows : forall fuelc (ast : program) p,
  well_moded ast = true -> compile_program fuelc ast = CompOk p ->
  forall o fns obj fuel m out m',
  run_main o (pconsts p) (pfuncs p) fns obj fuel (pmain p) m = (out, m') ->
  calls_push o (pconsts p) (pfuncs p) fns obj fuel (pmain p) 0
             (mkM [] (env_truncate (menv m) 0) (trace m) (polls m)) ->
  out <> OErr EInternal.
Proof.
  intros fuelc ast p Hw Hc o fns obj fuel m out m' H Hcp.
  destruct (compiled_has_annotation fuelc ast p Hw Hc) as (Hm & Hf).
  exact (run_main_sound o (pconsts p) (pfuncs p) fns obj (pmain p) Hm Hf fuel m out m' H Hcp).
Qed.

(* ------------------------------------------------------------------ *)
(* the side condition on calls cannot be dropped: `x = f();` is well-moded, compiles, is accepted
   by the verifier, and - when the host function f returns nothing - underflows; and it is
   exactly `calls_push` that fails for this run.  With a function that returns a value the run
   satisfies `calls_push` (the condition is not vacuous). *)

Definition void_call_ast : program := [SExpr (EAssign (L "x") (ECall (EIdent (L "f")) []))].

Definition quiet_stdlib : stdlib :=
  mkStdlib (fun _ => None) (fun _ => None) (fun _ _ => None) (fun _ _ => None) (fun _ _ _ => None)
           (fun _ => None) (fun _ => None) (fun _ => None) (fun _ _ => None) (fun _ => None) (fun _ => None).

Lemma void_call_underflows :
  exists p, well_moded void_call_ast = true /\ compile_program 20 void_call_ast = CompOk p /\
    verify_program p = VOk /\
    let m0 := mkM [] (mkEnv [] []) [] None in
    (exists m', exec quiet_stdlib (pconsts p) (pfuncs p) [(L "f", FHost HKVoid)] HNil 20 (pmain p) 0 m0
                = (OErr EInternal, m')) /\
    ~ calls_push quiet_stdlib (pconsts p) (pfuncs p) [(L "f", FHost HKVoid)] HNil 20 (pmain p) 0 m0 /\
    calls_push quiet_stdlib (pconsts p) (pfuncs p) [(L "f", FHost (HKConst (VInt 1)))] HNil 20 (pmain p) 0 m0.
Proof.
  eexists. split; [vm_compute; reflexivity|]. split; [vm_compute; reflexivity|].
  split; [vm_compute; reflexivity|]. cbv zeta. split; [|split].
  - eexists. vm_compute. reflexivity.
  - intro H. cbn in H. destruct H as (_ & H & _). specialize (H eq_refl 0 eq_refl). discriminate.
  - cbn. repeat split; try (let X := fresh in intros X; discriminate X).
    intros _ arg Ha. injection Ha as <-. reflexivity.
Qed.

(* ------------------------------------------------------------------ *)
(* the experiment that preceded the proof, kept as a regression: the executable verifier accepts
   the compiled code of well-moded scripts covering every construct (residues of expression
   statements inside loops and switch arms, `return` inside foreach inside while, a default arm in
   the middle of a switch, `x++` as two statements, `local`, nested and redefined functions) *)

Module Experiments.
Definition i (n : Z) := EInt (L "1") n.
Definition x := EIdent (L "x").
Definition a := EIdent (L "a").
Definition cnd := EInfix TLt x (i 5).
Definition callf (args : list expr) := ECall (EIdent (L "f")) args.

Definition accepted (ast : program) : bool :=
  well_moded ast &&
  match compile_program 300 ast with
  | CompOk p => match verify_program p with VOk => true | VBad _ => false end
  | _ => false
  end.

Definition scripts : list program :=
  [ [SExpr (EWhile cnd [SExpr (i 3)])];
    [SExpr (EForeach [] (L "v") a [SExpr (callf [EIdent (L "v")])])];
    [SExpr (EWhile cnd [SExpr (EForeach (L "k") (L "v") a [SReturn (i 1)])])];
    [SExpr (ESwitch x [(false, [i 1; i 2], [SExpr (i 7)]); (true, [], [SExpr (i 8); SExpr (callf [])]);
                       (false, [i 3], [SReturn (i 4)])]); SExpr (i 9)];
    [SExpr x; SExpr (EPostfix (L "x") TPlusPlus); SExpr x; SExpr (EPostfix (L "x") TMinusMinus)];
    [SExpr (EFunction (L "g") [L "p"] [SExpr (ELocal (L "q")); SExpr (EAssign (L "q") (i 2)); SExpr (i 3);
                                       SExpr (EIf cnd [SReturn (i 1)] None)]);
     SExpr (ECall (EIdent (L "g")) [i 1])];
    [SExpr (EInfix TPlusEq x (i 2)); SExpr (EAssign (L "y") (ETernary cnd (i 1) (callf [i 2; i 3])))];
    [SExpr (EIf cnd [SExpr (i 3); SExpr (i 4)] (Some [SExpr (callf [])])); SExpr (EIf cnd [] None);
     SReturn (EHash [(EStr (L "b"), i 1); (EStr (L "a"), EArray [i 1; x])])];
    [SExpr (EFunction (L "g") [] [SReturn (i 1)]); SExpr (EFunction (L "h") [] []);
     SExpr (EFunction (L "k") [] [SExpr (EWhile cnd [SReturn (i 2)])]);
     SExpr (EFunction (L "n") [] [SExpr (EFunction (L "inner") [] [SExpr (i 3)]); SExpr (i 5)])];
    [SExpr (EForeach (L "k") (L "v") a
              [SExpr (i 3); SExpr (EForeach [] (L "w") (EIdent (L "v"))
                                      [SExpr (i 4); SExpr x; SExpr (EPostfix (L "x") TPlusPlus)])]);
     SExpr (i 1)];
    [SExpr (ESwitch x []); SExpr (ESwitch x [(true, [], [SExpr (i 1)]); (true, [], [SExpr (i 2)])]);
     SExpr (ESwitch (callf []) [(false, [], [SExpr (i 1)]); (false, [callf [i 1]], [])])];
    [SExpr (EIndex (EArray [i 1]) (i 0)); SExpr (EPrefix TBang (EInfix TIn x a)); SExpr (ERegexp (L "a") (L "i"));
     SExpr (EInfix TDotDot (i 1) (i 3)); SReturn (i 1); SExpr (i 2)];
    [SExpr (EWhile cnd [SExpr (EIf cnd [SExpr (i 1)] (Some [SExpr (i 2); SExpr (i 3)]))]);
     SExpr (EFunction (L "g") [] [SExpr (EIf cnd [SReturn (i 1)] (Some [SReturn (i 2)]))])];
    [SExpr (ELocal (L "z"))];
    [SExpr (EFunction (L "g") [] [SExpr (callf []); SReturn (i 1)]);
     SExpr (EFunction (L "g") [] [SExpr x; SExpr (EPostfix (L "x") TPlusPlus)])] ].

Lemma all_accepted : forallb accepted scripts = true.
Proof. vm_compute. reflexivity. Qed.
End Experiments.

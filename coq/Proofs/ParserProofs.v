(* ParserProofs.v - proofs about the Pratt parser model (Model/Parser.v), the
   documented operator grammar (Spec/Grammar.v) and the rejection paths of the
   parser / compiler / Prepare (C12, C13). *)
From Coq Require Import Floats Lia.
From EF Require Import Model.Base Gen.Tables Model.Lexer Model.Ast Model.Parser Model.Code Model.Value
                       Model.Compiler Model.Api.
From EF Require Export Spec.Grammar.
Open Scope N_scope.

(* the implicit-argument declarations of Model/Parser.v are made inside a
   section and do not survive it; restate them (exported to the clients) *)
#[global] Arguments POk {A} a s.
#[global] Arguments PErr {A}.
#[global] Arguments PNeed {A}.
#[global] Arguments PFuel {A}.

(* the standard library has no `>?` on N (only on Z); Properties/C12.v states
   the documented order with it: a >? b is b <? a *)
Notation "x >? y" := (N.ltb y x) (at level 70, no associativity) : N_scope.

(* ------------------------------------------------------------------ *)
(* one-step unfolding equations of the mutual fixpoint                 *)
(* ------------------------------------------------------------------ *)

Definition restore (saved : N) (r : pr expr) : pr expr :=
  match r with POk e s => POk e (set_depth s saved) | x => x end.

Lemma parse_expression_S : forall pf md f prec s0,
  parse_expression pf md (S f) prec s0 =
  restore (depth s0)
    (pbind (deeper md s0) (fun _ s =>
      if has_postfix (tty (curT s)) then POk (EPostfix (tlit (prevT s)) (tty (curT s))) s
      else if negb (has_prefix (tty (curT s))) then PErr
      else pbind (parse_prefix pf md f s) (fun lhs s1 => infix_loop pf md f prec lhs s1))).
Proof. reflexivity. Qed.

Lemma infix_loop_S : forall pf md f prec lhs s,
  infix_loop pf md (S f) prec lhs s =
  if negb (peek_is s TSemicolon) && (prec <? prec_of (tty (peekT s))) then
    if negb (has_infix (tty (peekT s))) then PErr
    else
      pbind (deeper md (next s)) (fun _ s2 =>
      pbind (parse_infix pf md f lhs s2) (fun lhs2 s3 =>
      infix_loop pf md f prec lhs2 s3))
  else POk lhs s.
Proof. reflexivity. Qed.

Lemma parse_program_loop_S : forall pf md f acc s,
  parse_program_loop pf md (S f) acc s =
  if cur_is s TEOF then POk (rev acc) s
  else if cur_is s TIllegal then PErr
  else pbind (parse_statement pf md (S f) s) (fun st s1 =>
       parse_program_loop pf md f (bind_postfix acc st :: acc) (next s1)).
Proof. reflexivity. Qed.

(* bind_postfix (repair of D43) changes a statement only when it is a postfix
   operator and the statement before it is the name of a variable *)
Definition is_postfix_stmt (st : stmt) : bool :=
  match st with SExpr (EPostfix _ _) => true | _ => false end.
Definition is_ident_stmt (st : stmt) : bool :=
  match st with SExpr (EIdent _) => true | _ => false end.

Lemma bind_postfix_nil : forall st, bind_postfix [] st = st.
Proof. intros st. destruct st as [e|e]; [|destruct e]; reflexivity. Qed.

Lemma bind_postfix_not_postfix : forall acc st, is_postfix_stmt st = false -> bind_postfix acc st = st.
Proof. intros acc st H. destruct st as [e|e]; [reflexivity|destruct e; try reflexivity; discriminate H]. Qed.

Lemma bind_postfix_not_ident : forall a acc st, is_ident_stmt a = false -> bind_postfix (a :: acc) st = st.
Proof.
  intros a acc st H. destruct st as [e|e]; [reflexivity|destruct e; try reflexivity].
  destruct a as [e|e]; [reflexivity|destruct e; try reflexivity; discriminate H].
Qed.

Lemma bind_postfix_ident : forall n acc m op,
  bind_postfix (SExpr (EIdent n) :: acc) (SExpr (EPostfix m op)) = SExpr (EPostfix n op).
Proof. reflexivity. Qed.

Lemma bind_postfix_same : forall n acc op,
  bind_postfix (SExpr (EIdent n) :: acc) (SExpr (EPostfix n op)) = SExpr (EPostfix n op).
Proof. reflexivity. Qed.

Lemma parse_statement_S : forall pf md f s,
  parse_statement pf md (S f) s =
  if cur_is s TReturn then
    pbind (parse_expression pf md f LOWEST (next s)) (fun e s1 =>
    let s2 := next s1 in
    if cur_is s2 TSemicolon then POk (SReturn e) s2 else PErr)
  else
    pbind (parse_expression pf md f LOWEST s) (fun e s1 =>
    skip_semis pf md f (SExpr e) s1).
Proof. reflexivity. Qed.

Lemma skip_semis_S : forall pf md f st s,
  skip_semis pf md (S f) st s =
  if peek_is s TSemicolon then skip_semis pf md f st (next s) else POk st s.
Proof. reflexivity. Qed.

Lemma parse_block_loop_S : forall pf md f acc s,
  parse_block_loop pf md (S f) acc s =
  if cur_is s TRBrace then POk (rev acc) s
  else
    pbind (parse_statement pf md f s) (fun st s1 =>
    let s2 := next s1 in
    if cur_is s2 TEOF || cur_is s2 TIllegal then PErr
    else parse_block_loop pf md f (bind_postfix acc st :: acc) s2).
Proof. reflexivity. Qed.

Lemma parse_prefix_atom : forall pf md f s,
  parse_prefix pf md (S f) s =
  match tty (curT s) with
  | TIdent => POk (EIdent (tlit (curT s))) s
  | TInt => match parse_int (tlit (curT s)) with Some v => POk (EInt (tlit (curT s)) v) s | None => PErr end
  | TLParen =>
      pbind (parse_expression pf md f LOWEST (next s)) (fun e s1 =>
      pbind (expect_peek s1 TRParen) (fun _ s2 => POk e s2))
  | _ => parse_prefix pf md (S f) s
  end.
Proof. intros. destruct s as [pv [ty lit] pk rs tn fn d]. destruct ty; reflexivity. Qed.

Lemma parse_prefix_err : forall pf md f s,
  tty (curT s) = TIllegal \/ tty (curT s) = TEOF \/
  (tty (curT s) = TLocal /\ infn s = false) \/
  (tty (curT s) = TForeach /\ cur_is (next s) TIdent = false) \/
  (tty (curT s) = TFunction /\ cur_is (next (set_infn s true)) TIdent = false) ->
  parse_prefix pf md (S f) s = PErr.
Proof.
  intros pf md f s H. destruct s as [pv [ty lit] pk rs tn fn d].
  unfold cur_is in H. cbn [tty curT infn next set_infn peekT] in H.
  destruct H as [H|[H|[[H H']|[[H H']|[H H']]]]]; subst ty; cbn [parse_prefix curT tty];
    try reflexivity.
  - cbn [infn]. rewrite H'. reflexivity.
  - unfold cur_is. cbn [next curT peekT]. rewrite H'. reflexivity.
  - unfold cur_is. cbn [next set_infn curT peekT]. rewrite H'. reflexivity.
Qed.

Lemma parse_infix_plain : forall pf md f lhs s,
  infix_plain (tty (curT s)) = true ->
  parse_infix pf md (S f) lhs s =
  pbind (parse_expression pf md f (prec_of (tty (curT s))) (next s)) (fun r s1 =>
    POk (EInfix (tty (curT s)) lhs r) s1).
Proof.
  intros pf md f lhs s Hp. destruct s as [pv [ty lit] pk rs tn fn d].
  cbn [tty curT] in *. destruct ty; try discriminate Hp; reflexivity.
Qed.

Lemma parse_infix_assign : forall pf md f lhs s,
  tty (curT s) = TAssign ->
  parse_infix pf md (S f) lhs s =
  match lhs with
  | EIdent name => pbind (parse_expression pf md f LOWEST (next s)) (fun v s1 => POk (EAssign name v) s1)
  | _ => PErr
  end.
Proof.
  intros pf md f lhs s H. destruct s as [pv [ty lit] pk rs tn fn d].
  cbn [tty curT] in H. subst ty. reflexivity.
Qed.

Definition unset_tern (r : pr expr) : pr expr :=
  match r with POk e s' => POk e (set_tern s' false) | x => x end.

Lemma parse_infix_question : forall pf md f lhs s,
  tty (curT s) = TQuestion ->
  parse_infix pf md (S f) lhs s =
  if tern s then PErr else
  unset_tern (
    pbind (parse_expression pf md f LOWEST (next (set_tern s true))) (fun t s1 =>
    pbind (expect_peek s1 TColon) (fun _ s2 =>
    pbind (parse_expression pf md f LOWEST (next s2)) (fun e s3 =>
    POk (ETernary lhs t e) s3)))).
Proof.
  intros pf md f lhs s H. destruct s as [pv [ty lit] pk rs tn fn d].
  cbn [tty curT] in H. subst ty. reflexivity.
Qed.

(* ------------------------------------------------------------------ *)
(* C13: rejection paths                                                *)
(* ------------------------------------------------------------------ *)

Lemma deeper_ok : forall md s, (md = 0 \/ depth s + 1 <= md) ->
  deeper md s = POk tt (set_depth s (depth s + 1)).
Proof.
  intros md s H. unfold deeper.
  destruct H as [H | H].
  - subst md. reflexivity.
  - replace (md <? depth s + 1) with false.
    + rewrite andb_false_r. reflexivity.
    + symmetry. apply N.ltb_ge. exact H.
Qed.

Lemma prepare_needs_parse : forall o e flag u p e',
  prepare o e flag = (PrepOk u p, e') ->
  exists ast, parse_script (parse_float o) max_depth (escript e) = ParseOk ast /\
              exists fuel, compile_program fuel ast = CompOk u.
Proof.
  intros o e flag u p e' H. unfold prepare in H.
  destruct (parse_script (parse_float o) max_depth (escript e)) as [ast| | |]; try discriminate H.
  exists ast. split; [reflexivity|].
  exists (4 * List.length (escript e) + 40)%nat.
  destruct (compile_program (4 * List.length (escript e) + 40) ast) as [pc| | |]; try discriminate H.
  destruct (negb (Spec.Moded.well_moded ast)); [discriminate H|].
  match type of H with
  | (match ?x with Some _ => _ | None => _ end) = _ => destruct x; try discriminate H
  end.
  inversion H. reflexivity.
Qed.

Lemma illegal_operand : forall pf md fuel prec s,
  tty (curT s) = TIllegal -> (md = 0 \/ depth s + 1 <= md) ->
  parse_expression pf md (S (S fuel)) prec s = PErr.
Proof.
  intros pf md fuel prec s Hc Hd.
  rewrite parse_expression_S, (deeper_ok md s Hd).
  cbn [pbind set_depth curT]. rewrite Hc. cbn [has_postfix has_prefix negb].
  rewrite parse_prefix_err; [reflexivity|]. left. exact Hc.
Qed.

Lemma eof_operand : forall pf md fuel prec s,
  tty (curT s) = TEOF -> (md = 0 \/ depth s + 1 <= md) ->
  parse_expression pf md (S (S fuel)) prec s = PErr.
Proof.
  intros pf md fuel prec s Hc Hd.
  rewrite parse_expression_S, (deeper_ok md s Hd).
  cbn [pbind set_depth curT]. rewrite Hc. cbn [has_postfix has_prefix negb].
  rewrite parse_prefix_err; [reflexivity|]. right; left. exact Hc.
Qed.

Lemma missing_operand : forall pf md fuel prec s,
  has_postfix (tty (curT s)) = false -> has_prefix (tty (curT s)) = false ->
  (md = 0 \/ depth s + 1 <= md) ->
  parse_expression pf md (S fuel) prec s = PErr.
Proof.
  intros pf md fuel prec s Hpo Hpr Hd.
  rewrite parse_expression_S, (deeper_ok md s Hd).
  cbn [pbind set_depth curT]. rewrite Hpo, Hpr. reflexivity.
Qed.

Lemma illegal_statement_start : forall pf md fuel acc s,
  tty (curT s) = TIllegal -> parse_program_loop pf md (S fuel) acc s = PErr.
Proof.
  intros pf md fuel acc s Hc. rewrite parse_program_loop_S. unfold cur_is. rewrite Hc. reflexivity.
Qed.

Lemma unterminated_block : forall pf md fuel acc s st s1,
  cur_is s TRBrace = false ->
  parse_statement pf md fuel s = POk st s1 ->
  (cur_is (next s1) TEOF || cur_is (next s1) TIllegal) = true ->
  parse_block_loop pf md (S fuel) acc s = PErr.
Proof.
  intros pf md fuel acc s st s1 Hb Hs He.
  rewrite parse_block_loop_S, Hb, Hs. cbn [pbind]. rewrite He. reflexivity.
Qed.

Lemma assign_non_ident : forall pf md fuel lhs s,
  tty (curT s) = TAssign -> (forall n, lhs <> EIdent n) ->
  parse_infix pf md (S fuel) lhs s = PErr.
Proof.
  intros pf md fuel lhs s Hc Hl. rewrite (parse_infix_assign _ _ _ _ _ Hc).
  destruct lhs; try reflexivity. exfalso. apply (Hl name). reflexivity.
Qed.

Lemma local_outside_function : forall pf md fuel s,
  tty (curT s) = TLocal -> infn s = false -> parse_prefix pf md (S fuel) s = PErr.
Proof.
  intros pf md fuel s Hc Hi. apply parse_prefix_err. right; right; left. split; assumption.
Qed.

Lemma tokty_beq_neq : forall a b, a <> b -> tokty_beq a b = false.
Proof.
  intros a b H. destruct (tokty_beq a b) eqn:E; [|reflexivity].
  exfalso. apply H. apply internal_tokty_dec_bl. exact E.
Qed.

Lemma foreach_needs_ident : forall pf md fuel s,
  tty (curT s) = TForeach -> tty (peekT s) <> TIdent -> parse_prefix pf md (S fuel) s = PErr.
Proof.
  intros pf md fuel s Hc Hp. apply parse_prefix_err. right; right; right; left. split; [exact Hc|].
  unfold cur_is. cbn [next curT]. apply tokty_beq_neq. exact Hp.
Qed.

Lemma function_needs_name : forall pf md fuel s,
  tty (curT s) = TFunction -> tty (peekT s) <> TIdent -> parse_prefix pf md (S fuel) s = PErr.
Proof.
  intros pf md fuel s Hc Hp. apply parse_prefix_err. right; right; right; right. split; [exact Hc|].
  unfold cur_is. cbn [next set_infn curT peekT]. apply tokty_beq_neq. exact Hp.
Qed.

Lemma compile_expr_infix_S : forall f op l r c,
  compile_expr (S f) (EInfix op l r) c =
  cbind (compile_expr f l c) (fun _ c1 =>
  match op with
  | TPeriod =>
      match estr 64 r with
      | None => CNeed
      | Some name => COk tt (emit0 OpIndex (emit_const (VStr name) c1))
      end
  | _ =>
  cbind (compile_expr f r c1) (fun _ c2 =>
      match infix_opcode op with
      | None => CErr
      | Some o =>
          if is_mutator op then
            match l with
            | EIdent name => COk tt (emit0 OpSet (emit_const (VStr name) (emit0 o c2)))
            | _ => CErr
            end
          else COk tt (emit0 o c2)
      end)
  end).
Proof. reflexivity. Qed.

Lemma compound_assign_non_ident : forall fuel op l r c,
  is_mutator op = true -> (forall n, l <> EIdent n) ->
  forall x c', compile_expr fuel (EInfix op l r) c <> COk x c'.
Proof.
  intros fuel op l r c Hm Hl x c'. destruct fuel as [|f]; [discriminate|].
  rewrite compile_expr_infix_S.
  destruct (compile_expr f l c) as [u c1| | |]; cbn [cbind]; try discriminate.
  destruct op; try discriminate Hm;
  (destruct (compile_expr f r c1) as [u2 c2| | |]; cbn [cbind]; try discriminate;
   cbn [infix_opcode is_mutator];
   destruct l; try discriminate; exfalso; apply (Hl name); reflexivity).
Qed.

Lemma compile_block_S : forall f s l c,
  compile_block (S f) (s :: l) c = cbind (compile_stmt f s c) (fun _ c1 => compile_block f l c1).
Proof. reflexivity. Qed.

Lemma block_error_propagates : forall fuel s rest c,
  compile_stmt fuel s c = CErr -> compile_block (S fuel) (s :: rest) c = CErr.
Proof.
  intros fuel s rest c H. rewrite compile_block_S, H. reflexivity.
Qed.

Lemma compile_expr_foreach_S : forall f idx ident v body c,
  compile_expr (S f) (EForeach idx ident v body) c =
  cbind (compile_expr f v c) (fun _ c1 =>
      let c2 := emit0 OpIterationReset c1 in
      let start := clen c2 in
      let c3 := emit_const (VStr ident) (emit_const (VStr idx) c2) in
      let c4 := emit0 OpIterationNext c3 in
      let '(endp, c5) := emit1 OpJumpIfFalse 9999 c4 in
      cbind (compile_block f body c5) (fun _ c6 =>
      let c7 := emit1' OpJump start c6 in
      let c8 := patch endp (clen c7) c7 in
      COk tt (emit0 OpPlaceholder c8))).
Proof. reflexivity. Qed.

Lemma foreach_body_error_propagates : forall fuel idx ident v body c c1,
  compile_expr fuel v c = COk tt c1 ->
  (forall c2, compile_block fuel body c2 = CErr) ->
  compile_expr (S fuel) (EForeach idx ident v body) c = CErr.
Proof.
  intros fuel idx ident v body c c1 Hv Hb. rewrite compile_expr_foreach_S, Hv. cbn [cbind].
  unfold emit1. rewrite Hb. reflexivity.
Qed.

(* ------------------------------------------------------------------ *)
(* C12: ternary flags                                                  *)
(* ------------------------------------------------------------------ *)

Lemma nested_ternary_rejected : forall pf md fuel lhs s,
  tern s = true -> tty (curT s) = TQuestion ->
  parse_infix pf md (S fuel) lhs s = PErr.
Proof.
  intros pf md fuel lhs s Ht Hc. rewrite (parse_infix_question _ _ _ _ _ Hc), Ht. reflexivity.
Qed.

Lemma ternary_arms_flagged : forall pf md fuel lhs s r,
  tern s = false -> tty (curT s) = TQuestion ->
  parse_infix pf md (S fuel) lhs s = r ->
  match r with POk _ s' => tern s' = false | _ => True end.
Proof.
  intros pf md fuel lhs s r Ht Hc Hr. subst r. rewrite (parse_infix_question _ _ _ _ _ Hc), Ht.
  match goal with |- match unset_tern ?x with POk _ _ => _ | _ => _ end =>
    destruct x; try exact I end.
  reflexivity.
Qed.

(* ------------------------------------------------------------------ *)
(* C12: the documented order                                           *)
(* ------------------------------------------------------------------ *)

Lemma documented_order :
  (P_INDEX >? P_CALL) && (P_CALL >? PREFIX) && (PREFIX >? P_MOD) && (P_MOD >? P_POWER) && (P_POWER >? P_PRODUCT) &&
  (P_PRODUCT >? P_SUM) && (P_SUM >? P_LESSGREATER) && (P_LESSGREATER >? P_EQUALS) && (P_EQUALS >? P_COND) &&
  (P_COND >? P_ASSIGN) && (P_ASSIGN >? P_TERNARY) && (P_TERNARY >? LOWEST) = true /\
  forallb (fun t => match doc_prec t with Some p => prec_of t =? p | None => true end) all_tokty = true.
Proof. split; vm_compute; reflexivity. Qed.

Fixpoint expr_eqb (a b : expr) : bool :=
  match a, b with
  | EIdent x, EIdent y => str_eqb x y
  | EInt s v, EInt t w => str_eqb s t && (v =? w)%Z
  | EInfix o l r, EInfix o' l' r' => tokty_beq o o' && expr_eqb l l' && expr_eqb r r'
  | _, _ => false
  end.

Lemma adjacent_pairs :
  forallb (fun o1 => forallb (fun o2 =>
    let a := OAtomId [97] in let b := OAtomId [98] in let c := OAtomId [99] in
    let p1 := match doc_prec o1 with Some p => p | None => 0 end in
    let p2 := match doc_prec o2 with Some p => p | None => 0 end in
    let toks := [mkTok TIdent [97]; op_token o1; mkTok TIdent [98]; op_token o2; mkTok TIdent [99]; semi; eof] in
    let want := if p1 <? p2 then OBin o1 a (OBin o2 b c) else OBin o2 (OBin o1 a b) c in
    match parse_tokens (fun _ => None) 0 toks with
    | ParseOk [SExpr e] => expr_eqb e (to_expr want)
    | _ => false
    end) binops) binops = true.
Proof. vm_compute. reflexivity. Qed.

(* ------------------------------------------------------------------ *)
(* C12: parse o print = identity                                       *)
(* ------------------------------------------------------------------ *)

(* token positions: the parser state up to prev/tern/infn/depth *)
Definition before (rest : list token) (s : pst) : Prop :=
  peekT s = hd eof_tok rest /\ restT s = tl rest.
Definition pos (toks : list token) (s : pst) : Prop :=
  curT s = hd eof_tok toks /\ before (tl toks) s.

Lemma before_next : forall rest s, before rest s -> pos rest (next s).
Proof.
  intros rest s [Hp Hr]. unfold pos, before, next. cbn [curT peekT restT].
  rewrite Hr. repeat split; try assumption.
Qed.

Lemma pos_set_depth : forall toks s d, pos toks s -> pos toks (set_depth s d).
Proof. intros toks s d H. exact H. Qed.
Lemma before_set_depth : forall toks s d, before toks s -> before toks (set_depth s d).
Proof. intros toks s d H. exact H. Qed.

Lemma pos_cons : forall t toks s, pos (t :: toks) s -> curT s = t /\ before toks s.
Proof. intros t toks s H. exact H. Qed.

Lemma pos_init : forall ts, pos ts (init_pst ts).
Proof. intros ts. unfold pos, before, init_pst. cbn [curT peekT restT]. destruct ts as [|a [|b r]]; repeat split. Qed.

(* the token after an expression does not continue it at level p *)
Definition stop (p : N) (rest : list token) : Prop :=
  negb (tokty_beq (tty (hd eof_tok rest)) TSemicolon) && (p <? prec_of (tty (hd eof_tok rest))) = false.

Lemma stop_mono : forall p q rest, p <= q -> stop p rest -> stop q rest.
Proof.
  unfold stop. intros p q rest Hle H.
  apply andb_false_iff in H. apply andb_false_iff. destruct H as [H|H]; [left; exact H|right].
  apply N.ltb_ge in H. apply N.ltb_ge. lia.
Qed.

Lemma stop_prec : forall p t rest, prec_of (tty t) <= p -> stop p (t :: rest).
Proof.
  unfold stop. intros p t rest H. cbn [hd]. apply andb_false_iff. right. apply N.ltb_ge. exact H.
Qed.

Lemma stop_rparen : forall p rest, 1 <= p -> stop p (rparen :: rest).
Proof. intros p rest H. apply stop_prec. exact H. Qed.

Lemma stop_semi : forall p rest, stop p (semi :: rest).
Proof. intros. reflexivity. Qed.

Definition body (pf : str -> option (option float)) (f : nat) (p : N) (s : pst) : pr expr :=
  pbind (parse_prefix pf 0 f s) (fun lhs s1 => infix_loop pf 0 f p lhs s1).

Lemma deeper0 : forall s, deeper 0 s = POk tt (set_depth s (depth s + 1)).
Proof. reflexivity. Qed.

Lemma loop_stop : forall pf f p lhs s rest,
  before rest s -> stop p rest -> infix_loop pf 0 (S f) p lhs s = POk lhs s.
Proof.
  intros pf f p lhs s rest [Hp _] Hs. rewrite infix_loop_S. unfold peek_is. rewrite Hp.
  unfold stop in Hs. rewrite Hs. reflexivity.
Qed.

Lemma doc_prec_facts : forall op q, doc_prec op = Some q ->
  prec_of op = q /\ infix_plain op = true /\ has_infix op = true /\ op <> TPeriod /\ op <> TSemicolon /\ 3 <= q /\ q <= 11.
Proof.
  intros op q H. destruct op; try discriminate H; inversion H; subst q;
    (repeat split; try reflexivity; try discriminate; try (apply N.leb_le; reflexivity)).
Qed.

Lemma tty_op_token : forall op, tty (op_token op) = op.
Proof. reflexivity. Qed.

(* one iteration of the loop on a documented binary operator *)
Lemma loop_step : forall pf f p lhs s op q toks,
  before (op_token op :: toks) s -> doc_prec op = Some q -> p < q ->
  exists s', pos toks s' /\
    infix_loop pf 0 (S (S f)) p lhs s =
    pbind (parse_expression pf 0 f q s') (fun r s1 => infix_loop pf 0 (S f) p (EInfix op lhs r) s1).
Proof.
  intros pf f p lhs s op q toks Hb Hd Hlt.
  destruct (doc_prec_facts op q Hd) as (Hprec & Hplain & Hinf & Hnp & Hns & _).
  pose proof Hb as [Hp Hr]. cbn [hd] in Hp.
  exists (next (set_depth (next s) (depth (next s) + 1))). split.
  - apply before_next. apply before_set_depth.
    apply before_next in Hb. apply pos_cons in Hb. apply Hb.
  - rewrite infix_loop_S. unfold peek_is. rewrite Hp, tty_op_token.
    rewrite (tokty_beq_neq _ _ Hns), Hprec, Hinf. cbn [negb andb].
    replace (p <? q) with true by (symmetry; apply N.ltb_lt; exact Hlt).
    rewrite deeper0. cbn [pbind].
    assert (Hc : tty (curT (set_depth (next s) (depth (next s) + 1))) = op).
    { cbn [set_depth next curT]. rewrite Hp. reflexivity. }
    rewrite parse_infix_plain; rewrite Hc; try assumption.
    rewrite Hprec.
    destruct (parse_expression pf 0 f q (next (set_depth (next s) (depth (next s) + 1)))); reflexivity.
Qed.

(* parse_expression from the body, when the first token starts an operand *)
Lemma pe_from_body : forall pf f p s,
  has_postfix (tty (curT s)) = false -> has_prefix (tty (curT s)) = true ->
  parse_expression pf 0 (S f) p s = restore (depth s) (body pf f p (set_depth s (depth s + 1))).
Proof.
  intros pf f p s Hpo Hpr. rewrite parse_expression_S, deeper0. cbn [pbind set_depth curT].
  rewrite Hpo, Hpr. reflexivity.
Qed.

Lemma pe_finish : forall pf f f' p s e s1 rest,
  has_postfix (tty (curT s)) = false -> has_prefix (tty (curT s)) = true ->
  body pf f p (set_depth s (depth s + 1)) = infix_loop pf 0 (S f') p e s1 ->
  before rest s1 -> stop p rest ->
  exists s', parse_expression pf 0 (S f) p s = POk e s' /\ before rest s'.
Proof.
  intros pf f f' p s e s1 rest Hpo Hpr Hb Hbef Hs.
  rewrite (pe_from_body _ _ _ _ Hpo Hpr), Hb, (loop_stop _ _ _ _ _ _ Hbef Hs).
  cbn [restore]. eexists. split; [reflexivity|]. apply before_set_depth. exact Hbef.
Qed.

(* tokens that start an operand of the operator grammar *)
Definition startb (ty : tokty) : bool :=
  match ty with TIdent | TInt | TLParen => true | _ => false end.
Definition starts (toks : list token) : Prop :=
  exists tok toks', toks = tok :: toks' /\ startb (tty tok) = true.

Lemma starts_app : forall a b, starts a -> starts (a ++ b).
Proof. intros a b (tok & toks' & E & H). subst a. exists tok, (toks' ++ b). split; [reflexivity|exact H]. Qed.

Lemma starts_len : forall a, starts a -> (1 <= List.length a)%nat.
Proof. intros a (tok & toks' & E & H). subst a. cbn. lia. Qed.

(* "the loop has consumed toks and built e": the compositional form *)
Definition GOK (pf : str -> option (option float)) (toks : list token) (e : expr) (hi : N) : Prop :=
  forall p rest f s, p < hi -> stop hi rest -> pos (toks ++ rest) s ->
    (2 * List.length toks <= S f)%nat ->
    exists k s1, (2 * k + 1 <= List.length toks)%nat /\ before rest s1 /\
      body pf f p s = infix_loop pf 0 (f - k) p e s1.

Definition ExprOK (pf : str -> option (option float)) (toks : list token) (e : expr) (hi : N) : Prop :=
  forall p rest f s, p < hi -> stop p rest -> pos (toks ++ rest) s ->
    (2 * List.length toks <= f)%nat ->
    exists s', parse_expression pf 0 f p s = POk e s' /\ before rest s'.

Lemma G_to_Expr : forall pf toks e hi, starts toks -> GOK pf toks e hi -> ExprOK pf toks e hi.
Proof.
  intros pf toks e hi Hst HG p rest f s Hp Hstop Hpos Hfuel.
  pose proof (starts_len _ Hst) as Hlen.
  destruct Hst as (tok & toks' & E & Hsb).
  destruct f as [|f0]; [lia|].
  assert (Hcur : curT s = tok). { subst toks. apply Hpos. }
  assert (Hpo : has_postfix (tty (curT s)) = false) by (rewrite Hcur; destruct (tty tok); try discriminate Hsb; reflexivity).
  assert (Hpr : has_prefix (tty (curT s)) = true) by (rewrite Hcur; destruct (tty tok); try discriminate Hsb; reflexivity).
  destruct (HG p rest f0 (set_depth s (depth s + 1)) Hp) as (k & s1 & Hk & Hbef & Hbody).
  - apply (stop_mono p hi); [lia|exact Hstop].
  - apply pos_set_depth. exact Hpos.
  - lia.
  - assert (Hf : (f0 - k = S (f0 - k - 1))%nat) by lia. rewrite Hf in Hbody.
    exact (pe_finish _ _ _ _ _ _ _ _ Hpo Hpr Hbody Hbef Hstop).
Qed.

Lemma Expr_to_ParenG : forall pf toks e hi, ExprOK pf toks e hi -> 1 < hi ->
  forall hi', GOK pf (lparen :: toks ++ [rparen]) e hi'.
Proof.
  intros pf toks e hi HE Hhi hi' p rest f s _ _ Hpos Hfuel.
  cbn [app] in Hpos. rewrite <- app_assoc in Hpos. cbn [app] in Hpos.
  apply pos_cons in Hpos. destruct Hpos as [Hcur Hbef].
  cbn [List.length] in Hfuel. rewrite app_length in Hfuel. cbn [List.length] in Hfuel.
  destruct f as [|f1]; [lia|].
  destruct (HE LOWEST (rparen :: rest) f1 (next s)) as (s' & Hpe & Hbef').
  - exact Hhi.
  - apply stop_rparen. apply N.le_refl.
  - apply before_next. exact Hbef.
  - lia.
  - exists 0%nat, (next s'). split; [cbn [List.length]; lia|]. split.
    + apply before_next in Hbef'. apply pos_cons in Hbef'. apply Hbef'.
    + unfold body. rewrite parse_prefix_atom, Hcur. cbn [tty lparen]. rewrite Hpe. cbn [pbind].
      unfold expect_peek, peek_is. destruct Hbef' as [Hpk _]. cbn [hd] in Hpk. rewrite Hpk.
      cbn [tty rparen tokty_beq pbind]. rewrite Nat.sub_0_r. reflexivity.
Qed.

(* a binary node *)
Lemma G_bin : forall pf op q L el hl R er hr,
  doc_prec op = Some q -> GOK pf L el hl -> q <= hl -> ExprOK pf R er hr -> q < hr ->
  (1 <= List.length R)%nat ->
  GOK pf (L ++ op_token op :: R) (EInfix op el er) q.
Proof.
  intros pf op q L el hl R er hr Hd HL Hhl HR Hhr HlenR p rest f s Hp Hstop Hpos Hfuel.
  destruct (doc_prec_facts op q Hd) as (Hprec & _).
  rewrite <- app_assoc in Hpos. cbn [app] in Hpos.
  rewrite app_length in Hfuel. cbn [List.length] in Hfuel.
  destruct (HL p (op_token op :: R ++ rest) f s) as (kl & sl & Hkl & Hbl & Hbody).
  - lia.
  - apply stop_prec. rewrite tty_op_token, Hprec. exact Hhl.
  - exact Hpos.
  - lia.
  - assert (Hf : (f - kl = S (S (f - kl - 2)))%nat) by lia.
    rewrite Hf in Hbody.
    destruct (loop_step pf (f - kl - 2) p el sl op q (R ++ rest) Hbl Hd Hp) as (s' & Hpos' & Hloop).
    rewrite Hloop in Hbody.
    destruct (HR q rest (f - kl - 2)%nat s' Hhr Hstop Hpos') as (s'' & Hpe & Hbr).
    + lia.
    + rewrite Hpe in Hbody. cbn [pbind] in Hbody.
      exists (S kl), s''. split; [rewrite app_length; cbn [List.length]; lia|]. split; [exact Hbr|].
      rewrite Hbody. f_equal. lia.
Qed.

Lemma G_ident : forall pf n hi, GOK pf [mkTok TIdent n] (EIdent n) hi.
Proof.
  intros pf n hi p rest f s _ _ Hpos Hfuel. cbn [app] in Hpos. apply pos_cons in Hpos.
  destruct Hpos as [Hcur Hbef]. cbn [List.length] in Hfuel. destruct f as [|f]; [lia|].
  exists 0%nat, s. split; [cbn [List.length]; lia|]. split; [exact Hbef|].
  unfold body. rewrite parse_prefix_atom, Hcur. cbn [tty tlit pbind]. rewrite Nat.sub_0_r. reflexivity.
Qed.

Lemma G_int : forall pf t v hi, parse_int t = Some v -> GOK pf [mkTok TInt t] (EInt t v) hi.
Proof.
  intros pf t v hi Hv p rest f s _ _ Hpos Hfuel. cbn [app] in Hpos. apply pos_cons in Hpos.
  destruct Hpos as [Hcur Hbef]. cbn [List.length] in Hfuel. destruct f as [|f]; [lia|].
  exists 0%nat, s. split; [cbn [List.length]; lia|]. split; [exact Hbef|].
  unfold body. rewrite parse_prefix_atom, Hcur. cbn [tty tlit]. rewrite Hv. cbn [pbind].
  rewrite Nat.sub_0_r. reflexivity.
Qed.

(* a whole script: one expression statement *)
Lemma script_ok : forall pf toks e hi, starts toks -> ExprOK pf toks e hi -> 1 < hi ->
  parse_tokens pf 0 (toks ++ [semi; eof]) = ParseOk [SExpr e].
Proof.
  intros pf toks e hi Hst HE Hhi. unfold parse_tokens.
  pose proof (pos_init (toks ++ [semi; eof])) as Hpos.
  set (s := init_pst (toks ++ [semi; eof])) in *.
  replace (2 * List.length (toks ++ [semi; eof]) + 20)%nat with (S (S (S (2 * List.length toks + 21))))
    by (rewrite app_length; cbn [List.length]; lia).
  set (F := (2 * List.length toks + 21)%nat).
  destruct (HE LOWEST [semi; eof] (S (S F)) s Hhi (stop_semi _ _) Hpos) as (s1 & Hpe & Hb1); [lia|].
  destruct Hst as (tok & toks' & E & Hsb).
  assert (Hcur : curT s = tok). { subst toks. apply Hpos. }
  rewrite parse_program_loop_S. unfold cur_is. rewrite Hcur.
  rewrite parse_statement_S. unfold cur_is. rewrite Hcur.
  assert (Hty : tokty_beq (tty tok) TEOF = false /\ tokty_beq (tty tok) TIllegal = false /\
                tokty_beq (tty tok) TReturn = false).
  { destruct (tty tok); try discriminate Hsb; repeat split. }
  destruct Hty as (H1 & H2 & H3). rewrite H1, H2, H3.
  rewrite Hpe. cbn [pbind].
  rewrite skip_semis_S. unfold peek_is.
  pose proof Hb1 as [Hpk1 _]. cbn [hd] in Hpk1. rewrite Hpk1. cbn [tty semi tokty_beq].
  apply before_next in Hb1. apply pos_cons in Hb1. destruct Hb1 as [_ Hb2].
  rewrite skip_semis_S. unfold peek_is.
  pose proof Hb2 as [Hpk2 _]. cbn [hd] in Hpk2. rewrite Hpk2. cbn [tty eof tokty_beq pbind].
  apply before_next in Hb2. apply pos_cons in Hb2. destruct Hb2 as [Hc3 _].
  rewrite parse_program_loop_S. unfold cur_is. rewrite Hc3, bind_postfix_nil. reflexivity.
Qed.

(* ---- the trees ---- *)

Lemma wf_bin : forall op l r, well_formed (OBin op l r) = true ->
  exists q, doc_prec op = Some q /\ well_formed l = true /\ well_formed r = true.
Proof.
  intros op l r H. cbn [well_formed] in H.
  apply andb_true_iff in H. destruct H as [H Hr]. apply andb_true_iff in H. destruct H as [H Hl].
  destruct (doc_prec op) as [q|]; [|discriminate H]. exists q. repeat split; assumption.
Qed.

Lemma wf_int : forall s v, well_formed (OAtomInt s v) = true -> parse_int s = Some v.
Proof.
  intros s v H. cbn [well_formed] in H. destruct (parse_int s) as [z|]; [|discriminate H].
  apply Z.eqb_eq in H. subst z. reflexivity.
Qed.

Lemma oprec_wf : forall t, well_formed t = true -> 3 <= oprec t.
Proof.
  intros t H. destruct t as [n|s v|op l r]; cbn [oprec]; try (apply N.leb_le; reflexivity).
  destruct (wf_bin _ _ _ H) as (q & Hd & _). rewrite Hd.
  apply (doc_prec_facts op q Hd).
Qed.

Definition paren (toks : list token) : list token := lparen :: toks ++ [rparen].

Lemma show_min_bin : forall op l r q, doc_prec op = Some q ->
  show_min (OBin op l r) =
  (if oprec l <? q then paren (show_min l) else show_min l) ++ op_token op ::
  (if oprec r <=? q then paren (show_min r) else show_min r).
Proof. intros op l r q H. cbn [show_min oprec]. rewrite H. reflexivity. Qed.

Lemma starts_paren : forall toks, starts (paren toks).
Proof. intros toks. exists lparen, (toks ++ [rparen]). split; reflexivity. Qed.

Lemma starts_min : forall t, well_formed t = true -> starts (show_min t).
Proof.
  induction t as [n|s v|op l IHl r IHr]; intros H.
  - exists (mkTok TIdent n), []. split; reflexivity.
  - exists (mkTok TInt s), []. split; reflexivity.
  - destruct (wf_bin _ _ _ H) as (q & Hd & Hl & Hr). rewrite (show_min_bin _ _ _ _ Hd).
    apply starts_app. destruct (oprec l <? q); [apply starts_paren|apply IHl; exact Hl].
Qed.

Lemma starts_full : forall t, starts (show_full t).
Proof.
  destruct t as [n|s v|op l r].
  - exists (mkTok TIdent n), []. split; reflexivity.
  - exists (mkTok TInt s), []. split; reflexivity.
  - cbn [show_full]. eexists lparen, _. split; reflexivity.
Qed.

Lemma G_min : forall pf t, well_formed t = true -> GOK pf (show_min t) (to_expr t) (oprec t).
Proof.
  intros pf. induction t as [n|s v|op l IHl r IHr]; intros H.
  - apply G_ident.
  - apply G_int. apply wf_int. exact H.
  - destruct (wf_bin _ _ _ H) as (q & Hd & Hl & Hr).
    rewrite (show_min_bin _ _ _ _ Hd). cbn [to_expr oprec]. rewrite Hd.
    destruct (doc_prec_facts op q Hd) as (_ & _ & _ & _ & _ & Hq3 & _).
    pose proof (G_to_Expr pf _ _ _ (starts_min l Hl) (IHl Hl)) as El.
    pose proof (G_to_Expr pf _ _ _ (starts_min r Hr) (IHr Hr)) as Er.
    pose proof (oprec_wf l Hl) as Hol. pose proof (oprec_wf r Hr) as Hor.
    assert (HL : GOK pf (if oprec l <? q then paren (show_min l) else show_min l) (to_expr l)
                   (if oprec l <? q then q else oprec l)).
    { destruct (oprec l <? q); [|apply IHl; exact Hl].
      apply (Expr_to_ParenG pf _ _ _ El). lia. }
    assert (HR : ExprOK pf (if oprec r <=? q then paren (show_min r) else show_min r) (to_expr r)
                   (if oprec r <=? q then q + 1 else oprec r)).
    { destruct (oprec r <=? q); [|exact Er].
      apply G_to_Expr; [apply starts_paren|]. apply (Expr_to_ParenG pf _ _ _ Er). lia. }
    eapply (G_bin pf op q _ _ _ _ _ _ Hd HL _ HR).
    Unshelve.
    + destruct (oprec r <=? q) eqn:E; [lia|]. apply N.leb_gt in E. exact E.
    + apply starts_len. destruct (oprec r <=? q); [apply starts_paren|apply starts_min; exact Hr].
    + destruct (oprec l <? q) eqn:E; [apply N.le_refl|]. apply N.ltb_ge in E. exact E.
Qed.

Lemma G_full : forall pf t, well_formed t = true -> forall hi, GOK pf (show_full t) (to_expr t) hi.
Proof.
  intros pf. induction t as [n|s v|op l IHl r IHr]; intros H hi.
  - apply G_ident.
  - apply G_int. apply wf_int. exact H.
  - destruct (wf_bin _ _ _ H) as (q & Hd & Hl & Hr).
    destruct (doc_prec_facts op q Hd) as (_ & _ & _ & _ & _ & Hq3 & _).
    cbn [show_full to_expr].
    change (lparen :: show_full l ++ [op_token op] ++ show_full r ++ [rparen])
      with (lparen :: show_full l ++ op_token op :: show_full r ++ [rparen]).
    replace (lparen :: show_full l ++ op_token op :: show_full r ++ [rparen])
      with (paren (show_full l ++ op_token op :: show_full r))
      by (unfold paren; rewrite <- app_assoc; reflexivity).
    apply (Expr_to_ParenG pf _ _ q); [|lia].
    apply G_to_Expr; [apply starts_app; apply starts_full|].
    apply (G_bin pf op q _ _ q _ _ (q + 1) Hd (IHl Hl q)); [apply N.le_refl| |lia|].
    + apply G_to_Expr; [apply starts_full|]. apply IHr. exact Hr.
    + apply starts_len. apply starts_full.
Qed.

Lemma parse_print_min : forall (pf : str -> option (option float)) (t : otree),
  well_formed t = true ->
  parse_tokens pf 0 (show_min t ++ [semi; eof]) = ParseOk [SExpr (to_expr t)].
Proof.
  intros pf t H. apply (script_ok pf _ _ (oprec t)).
  - apply starts_min. exact H.
  - apply G_to_Expr; [apply starts_min; exact H|]. apply G_min. exact H.
  - pose proof (oprec_wf t H). lia.
Qed.

Lemma parse_print_full : forall (pf : str -> option (option float)) (t : otree),
  well_formed t = true ->
  parse_tokens pf 0 (show_full t ++ [semi; eof]) = ParseOk [SExpr (to_expr t)].
Proof.
  intros pf t H. apply (script_ok pf _ _ 2).
  - apply starts_full.
  - apply G_to_Expr; [apply starts_full|]. apply G_full. exact H.
  - reflexivity.
Qed.

(* ------------------------------------------------------------------ *)
(* C12: a postfix operator names its variable, however the variable is *)
(* parenthesised (repair of D43: `(x)++` used to name `)`)             *)
(* ------------------------------------------------------------------ *)

Theorem postfix_parens :
  let run := parse_script (fun _ => None) max_depth in
  let want := ParseOk [SExpr (EAssign (L "x") (EInt (L "1") 1)); SExpr (EIdent (L "x"));
                       SExpr (EPostfix (L "x") TPlusPlus)] in
  run (L "x = 1; x++;") = want /\
  run (L "x = 1; (x)++;") = want /\
  run (L "x = 1; ((x))++;") = want.
Proof. vm_compute. repeat split; reflexivity. Qed.

(* ------------------------------------------------------------------ *)
(* C13: the parser keeps what is written after a `.` (repair of D39:   *)
(* the operand used to be replaced by a string literal holding its     *)
(* printed form, so a valueless construct there was silently dropped); *)
(* the tree still has the compound assignment, and since it is not     *)
(* well-moded Prepare refuses the script                               *)
(* ------------------------------------------------------------------ *)

Theorem dot_operand_kept :
  let tree := [SExpr (EAssign (L "x")
                 (EInfix TPeriod (EIdent (L "a"))
                    (EInfix TPlusEq (EInt (L "1") 1) (EInt (L "2") 2))))] in
  parse_script (fun _ => None) max_depth (L "x = a.(1 += 2);") = ParseOk tree /\
  Spec.Moded.well_moded tree = false.
Proof. vm_compute. split; reflexivity. Qed.

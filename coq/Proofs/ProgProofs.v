(* ProgProofs.v - compile correctness of WHOLE programs with user-defined functions:
   the byte-code Model/Compiler.v emits for a script (main body, function table, pool),
   run by Model/VM.v, behaves as Spec/ExecFun.v's reference interpreter, which walks the
   syntax tree and runs user-defined functions from the table of definitions it collects.

   Structure: (0) the static side: what the compiler stores for a function, and that the
   compiled table implements the definitions collect_block finds;
   (1) instruction-aligned code and its last opcode (what `last_op` sees);
   (2) runs up to an unknown amount of fuel (a call spends fuel inside the callee);
   (3) the statement-level lemmas of Proofs/StmtProofs.v re-established for ExecFun's
   interpreter under the hypothesis `Calls` (the function table is implemented and the
   callees are correct for all smaller reference fuel), with the new cases `local`,
   function definition, and the call of a user-defined function; (4) the induction on the
   compiler's fuel; (5) the induction on the reference fuel and the top level.
   Spec-independent material (code positions, emission, patching, one-step lemmas, the
   compiler's unfolding equations) is taken from Proofs/StmtProofs.v.
   Complete proofs only. *)
From Coq Require Import Floats Lia Bool List Permutation.
From EF Require Import Model.Base Gen.Tables Model.Lexer Model.Ast Model.Code Model.Value Model.Env
                       Model.Reflect Model.Builtins Model.Compiler Model.VM Spec.Ops Spec.Eval.
From EF Require Import Proofs.ExprProofs Proofs.StmtProofs.
From EF Require Proofs.OpsProofs Proofs.ContainerProofs.
From EF Require Import Spec.ExecFun.
Open Scope N_scope.


(* ------------------------------------------------------------------ *)
(* PART 0a: what the compiler stores for a function *)

(* the code of a function as the compiler closes it (EFunction case of compile_expr) *)
Definition fn_close (code1 : list N) : list N :=
  match last_op (S (List.length code1)) code1 None with
  | Some op => if op =? OpReturn then code1 else code1 ++ [OpVoid; OpReturn]
  | None => code1 ++ [OpVoid; OpReturn]
  end.

(* the compiled function uf is the compilation of the syntax-tree function af *)
Definition implements (pool : list value) (uf : ufunc) (af : afunc) : Prop :=
  fparams uf = aparams af /\
  exists fc cs0 fs0 c1,
    compile_block fc (abody af) (mkC [] 0 cs0 fs0) = COk tt c1 /\
    pool_extends (consts c1) pool /\
    fcode uf = fn_close (rev (crev c1)).

Definition table_ok (pool : list value) (funcs : list (str * ufunc)) (afs : aftable) : Prop :=
  forall name,
    match af_get name afs with
    | None => ufunc_get name funcs = None
    | Some af => exists uf, ufunc_get name funcs = Some uf /\ implements pool uf af
    end.

(* ------------------------------------------------------------------ *)
(* PART 0b (static): the table the compiler builds implements, name by name, the table of
   definitions that Spec/ExecFun.v's collect_block finds *)


(* ------------------------------------------------------------------ *)
(* the two tables: get after set *)

Lemma st_str_eqb_refl : forall s, str_eqb s s = true.
Proof. exact ContainerProofs.str_eqb_refl. Qed.

Lemma st_ufunc_get_set : forall name uf l name',
  ufunc_get name' (set_func name uf l) = if str_eqb name name' then Some uf else ufunc_get name' l.
Proof.
  intros name uf l name'. induction l as [|[n g] l IH].
  - reflexivity.
  - cbn [set_func]. destruct (str_eqb n name) eqn:E.
    + apply ExprProofs.str_eqb_eq in E. subst n. cbn [ufunc_get].
      destruct (str_eqb name name'); reflexivity.
    + cbn [ufunc_get]. rewrite IH. destruct (str_eqb n name') eqn:E1; [|reflexivity].
      destruct (str_eqb name name') eqn:E2; [|reflexivity].
      apply ExprProofs.str_eqb_eq in E1, E2. subst. rewrite st_str_eqb_refl in E. discriminate.
Qed.

Lemma st_af_get_set : forall name af l name',
  af_get name' (af_set name af l) = if str_eqb name name' then Some af else af_get name' l.
Proof.
  intros name af l name'. induction l as [|[n g] l IH].
  - reflexivity.
  - cbn [af_set]. destruct (str_eqb n name) eqn:E.
    + apply ExprProofs.str_eqb_eq in E. subst n. cbn [af_get].
      destruct (str_eqb name name'); reflexivity.
    + cbn [af_get]. rewrite IH. destruct (str_eqb n name') eqn:E1; [|reflexivity].
      destruct (str_eqb name name') eqn:E2; [|reflexivity].
      apply ExprProofs.str_eqb_eq in E1, E2. subst. rewrite st_str_eqb_refl in E. discriminate.
Qed.

Lemma st_implements_mono : forall pool pool' uf af,
  pool_extends pool pool' -> implements pool uf af -> implements pool' uf af.
Proof.
  intros pool pool' uf af Hp (Hps & fc & cs0 & fs0 & c1 & Hc & He & Hcode).
  split; [exact Hps|]. exists fc, cs0, fs0, c1. split; [exact Hc|]. split; [|exact Hcode].
  eapply ExprProofs.pool_extends_trans; eassumption.
Qed.

Lemma st_table_ok_mono : forall pool pool' fs t,
  pool_extends pool pool' -> table_ok pool fs t -> table_ok pool' fs t.
Proof.
  intros pool pool' fs t Hp H name. specialize (H name).
  destruct (af_get name t) as [af|]; [|exact H].
  destruct H as (uf & Hg & Hi). exists uf. split; [exact Hg|].
  eapply st_implements_mono; eassumption.
Qed.

Lemma st_table_ok_set : forall pool fs t name uf af,
  table_ok pool fs t -> implements pool uf af ->
  table_ok pool (set_func name uf fs) (af_set name af t).
Proof.
  intros pool fs t name uf af H Hi name'. specialize (H name').
  rewrite st_af_get_set, st_ufunc_get_set. destruct (str_eqb name name').
  - exists uf. split; [reflexivity|exact Hi].
  - exact H.
Qed.

Lemma st_table_ok_nil : forall pool, table_ok pool [] [].
Proof. intros pool name. reflexivity. Qed.

(* ------------------------------------------------------------------ *)
(* compiler states: same table, larger pool *)

Definition st_FT (c : cstate) (t : aftable) : Prop := table_ok (consts c) (funcs c) t.

Definition st_same (c c' : cstate) : Prop :=
  pool_extends (consts c) (consts c') /\ funcs c' = funcs c.

Lemma st_same_refl : forall c, st_same c c.
Proof. intro c. split; [apply ExprProofs.pool_extends_refl|reflexivity]. Qed.

Lemma st_same_trans : forall a b c, st_same a b -> st_same b c -> st_same a c.
Proof.
  intros a b c [P1 F1] [P2 F2]. split.
  - eapply ExprProofs.pool_extends_trans; eassumption.
  - rewrite F2. exact F1.
Qed.

Lemma st_same_emit0 : forall op c, st_same c (emit0 op c).
Proof. intros op c. split; [apply ExprProofs.pool_extends_refl|reflexivity]. Qed.

Lemma st_same_emit1 : forall op v c, st_same c (emit1' op v c).
Proof. intros op v c. split; [apply ExprProofs.pool_extends_refl|reflexivity]. Qed.

Lemma st_same_patch : forall p v c, st_same c (patch p v c).
Proof. intros p v c. split; [apply ExprProofs.pool_extends_refl|reflexivity]. Qed.

Lemma st_same_patch_all : forall l v c, st_same c (patch_all l v c).
Proof.
  intros l v. induction l as [|p l IH]; intro c; cbn [patch_all].
  - apply st_same_refl.
  - eapply st_same_trans; [apply st_same_patch|apply IH].
Qed.

Lemma st_same_add : forall v c i c1, add_const v c = (i, c1) -> st_same c c1.
Proof.
  intros v c i c1 H. unfold add_const in H.
  destruct (find_const v (consts c) 0) as [j|].
  - injection H as <- <-. apply st_same_refl.
  - injection H as <- <-. split; [exists [v]; reflexivity|reflexivity].
Qed.

Lemma st_same_const : forall v c, st_same c (emit_const v c).
Proof.
  intros v c. unfold emit_const. destruct (add_const v c) as [i c1] eqn:E.
  eapply st_same_trans; [exact (st_same_add _ _ _ _ E)|apply st_same_emit1].
Qed.

Ltac st_ss :=
  repeat first
    [ apply st_same_refl
    | eapply st_same_trans; [|apply st_same_emit0]
    | eapply st_same_trans; [|apply st_same_emit1]
    | eapply st_same_trans; [|apply st_same_patch]
    | eapply st_same_trans; [|apply st_same_patch_all]
    | eapply st_same_trans; [|apply st_same_const] ].

Lemma st_FT_same : forall c c' t, st_same c c' -> st_FT c t -> st_FT c' t.
Proof.
  intros c c' t [P F] H. unfold st_FT in *. rewrite F.
  eapply st_table_ok_mono; eassumption.
Qed.

(* ------------------------------------------------------------------ *)
(* what one compilation step does: the pool grows and the compiled table follows the collected one *)

Definition st_tr (c c' : cstate) (k : aftable -> aftable) : Prop :=
  pool_extends (consts c) (consts c') /\
  (forall t, st_FT c t -> st_FT c' (k t)).

Lemma st_tr_same : forall c c', st_same c c' -> st_tr c c' (fun t => t).
Proof.
  intros c c' S. split; [exact (proj1 S)|].
  intros t H. exact (st_FT_same _ _ _ S H).
Qed.

Lemma st_tr_comp : forall c c1 c2 k1 k2,
  st_tr c c1 k1 -> st_tr c1 c2 k2 -> st_tr c c2 (fun t => k2 (k1 t)).
Proof.
  intros c c1 c2 k1 k2 (P1 & H1) (P2 & H2). split.
  - eapply ExprProofs.pool_extends_trans; eassumption.
  - intros t Ht. apply H2. apply H1. exact Ht.
Qed.

Lemma st_tr_weaken : forall c c' k k',
  st_tr c c' k -> (forall t, k t = k' t) -> st_tr c c' k'.
Proof.
  intros c c' k k' (P & H) Hk. split; [exact P|].
  intros t Ht. rewrite <- (Hk t). exact (H t Ht).
Qed.

Lemma st_tr_pre : forall c c1 c2 k, st_same c c1 -> st_tr c1 c2 k -> st_tr c c2 k.
Proof.
  intros c c1 c2 k S (P & H). split.
  - eapply ExprProofs.pool_extends_trans; [exact (proj1 S)|exact P].
  - intros t Ht. apply H. exact (st_FT_same _ _ _ S Ht).
Qed.

(* compose with the result X of an induction hypothesis, after bookkeeping steps *)
Ltac st_c1 X := eapply st_tr_comp; [eapply st_tr_pre; [|exact X]; st_ss|].
Ltac st_last X := eapply st_tr_pre; [|exact X]; st_ss.
Ltac st_end := apply st_tr_same; st_ss.
Ltac st_wk tac := eapply st_tr_weaken; [tac | intros; reflexivity].

(* ------------------------------------------------------------------ *)
(* inversions that keep `estr 64 _` folded *)

Lemma st_hash_inv2 : forall f (l : list (expr * expr)) c c' (om : option (list (str * (expr * expr)))),
  match om with
  | None => CNeed
  | Some ks =>
      let sorted := map snd (sort_by (fun a b => str_ltb (fst a) (fst b)) ks) in
      cbind (compile_pairs f sorted c) (fun _ c1 => COk tt (emit1' OpHash (lenN l * 2) c1))
  end = COk tt c' ->
  exists ks c1, om = Some ks /\
    compile_pairs f (map snd (sort_by (fun a b => str_ltb (fst a) (fst b)) ks)) c = COk tt c1 /\
    c' = emit1' OpHash (lenN l * 2) c1.
Proof.
  intros f l c c' om H. destruct om as [ks|]; [|discriminate]. cbv zeta in H.
  destruct (compile_pairs f _ c) as [[] c1| | |] eqn:E1 in H; try discriminate. cbn [cbind] in H.
  injection H as <-. exists ks, c1. split; [reflexivity|]. split; [exact E1|reflexivity].
Qed.

Lemma st_compile_hash_inv : forall f l c c', compile_expr (S f) (EHash l) c = COk tt c' ->
  exists sorted c1, Permutation l sorted /\ compile_pairs f sorted c = COk tt c1 /\
                    c' = emit1' OpHash (lenN l * 2) c1.
Proof.
  intros f l c c' H. apply StmtProofs.compile_hash_inv1 in H.
  destruct (st_hash_inv2 f l c c' (StmtProofs.hash_keys l) H) as (ks & c1 & Hk & E1 & ->).
  eexists _, c1. split; [|split; [exact E1|reflexivity]].
  unfold StmtProofs.hash_keys in Hk.
  assert (Hsnd : map snd ks = l).
  { eapply ContainerProofs.opt_map_decorate_snd; [|exact Hk].
    intros x y. cbv beta. generalize (estr 64 (fst x)). intros [s|] E; [|discriminate].
    injection E as <-. reflexivity. }
  rewrite <- Hsnd. apply Permutation_map. apply ContainerProofs.sort_by_perm.
Qed.

Lemma st_forallb_perm : forall A (P : A -> bool) l l',
  Permutation l l' -> forallb P l = true -> forallb P l' = true.
Proof.
  intros A P l l' Hp H. rewrite forallb_forall in *. intros x Hx. apply H.
  eapply Permutation_in; [apply Permutation_sym; exact Hp|exact Hx].
Qed.

Definition st_close (c1 : cstate) : cstate :=
  match last_op (S (List.length (rev (crev c1)))) (rev (crev c1)) None with
  | Some op => if op =? OpReturn then c1 else emit0 OpReturn (emit0 OpVoid c1)
  | None => emit0 OpReturn (emit0 OpVoid c1)
  end.

Lemma st_close_spec : forall c1,
  consts (st_close c1) = consts c1 /\ funcs (st_close c1) = funcs c1 /\
  rev (crev (st_close c1)) = fn_close (rev (crev c1)).
Proof.
  intro c1. unfold st_close, fn_close.
  assert (Hc : rev (crev (emit0 OpReturn (emit0 OpVoid c1))) = rev (crev c1) ++ [OpVoid; OpReturn]).
  { cbn [emit0 crev rev]. rewrite <- app_assoc. reflexivity. }
  destruct (last_op (S (List.length (rev (crev c1)))) (rev (crev c1)) None) as [op|];
    [destruct (op =? OpReturn)|].
  - repeat split.
  - rewrite Hc. repeat split.
  - rewrite Hc. repeat split.
Qed.

Lemma st_compile_function_inv : forall f name params body c c',
  compile_expr (S f) (EFunction name params body) c = COk tt c' ->
  exists c1, compile_block f body (mkC [] 0 (consts c) (funcs c)) = COk tt c1 /\
    c' = mkC (crev c) (clen c) (consts c1)
             (set_func name (mkUfunc params (fn_close (rev (crev c1)))) (funcs c1)).
Proof.
  intros f name params body c c' H.
  assert (Heq : compile_expr (S f) (EFunction name params body) c =
    cbind (compile_block f body (mkC [] 0 (consts c) (funcs c))) (fun _ c1 =>
      COk tt (mkC (crev c) (clen c) (consts (st_close c1))
                  (set_func name (mkUfunc params (rev (crev (st_close c1)))) (funcs (st_close c1))))))
    by reflexivity.
  rewrite Heq in H. clear Heq.
  destruct (compile_block f body _) as [[] c1| | |] eqn:E1 in H; try discriminate. cbn [cbind] in H.
  exists c1. split; [exact E1|].
  destruct (st_close_spec c1) as (H1 & H2 & H3). rewrite H1, H2, H3 in H.
  injection H as <-. reflexivity.
Qed.


(* the same, keeping the decorated key list (the reference traversal sorts the same list) *)
Lemma st_compile_hash_inv_ks : forall f l c c', compile_expr (S f) (EHash l) c = COk tt c' ->
  exists ks c1, StmtProofs.hash_keys l = Some ks /\
    compile_pairs f (map snd (sort_by (fun a b => str_ltb (fst a) (fst b)) ks)) c = COk tt c1 /\
    c' = emit1' OpHash (lenN l * 2) c1.
Proof.
  intros f l c c' H. apply StmtProofs.compile_hash_inv1 in H.
  exact (st_hash_inv2 f l c c' (StmtProofs.hash_keys l) H).
Qed.

Definition st_cpairs (g : nat) (l : list (expr * expr)) (t : aftable) : aftable :=
  fold_left (fun acc (kv : expr * expr) => collect_expr g (snd kv) (collect_expr g (fst kv) acc)) l t.

Lemma st_collect_hash_eq : forall g l t,
  collect_expr (S g) (EHash l) t =
  match StmtProofs.hash_keys l with
  | None => t
  | Some ks => st_cpairs g (map snd (sort_by (fun a b => str_ltb (fst a) (fst b)) ks)) t
  end.
Proof. reflexivity. Qed.

(* ------------------------------------------------------------------ *)
(* the collected table along the list shapes the compiler walks *)

Definition st_choice := (bool * list expr * list stmt)%type.

Definition st_cstmt (g : nat) (s : stmt) (t : aftable) : aftable :=
  match s with SReturn e => collect_expr g e t | SExpr e => collect_expr g e t end.
Definition st_cexprs (g : nat) (l : list expr) (t : aftable) : aftable :=
  fold_left (fun acc x => collect_expr g x acc) l t.
Definition st_ccase (g : nat) (v : expr) (blk : list stmt) (es : list expr) (t : aftable) : aftable :=
  fold_left (fun acc2 x => collect_block g blk (collect_expr g x (collect_expr g v acc2))) es t.
Definition st_ccases (g : nat) (v : expr) (cs : list st_choice) (t : aftable) : aftable :=
  fold_left (fun acc (c : st_choice) =>
               if fst (fst c) then acc
               else fold_left (fun acc2 x => collect_block g (snd c) (collect_expr g x (collect_expr g v acc2)))
                              (snd (fst c)) acc) cs t.
Definition st_cdefs (g : nat) (cs : list st_choice) (t : aftable) : aftable :=
  fold_left (fun acc (c : st_choice) => if fst (fst c) then collect_block g (snd c) acc else acc) cs t.

(* f: the compiler's fuel; g: the fuel of the collecting traversal, which does not
   decrease along lists, so it is only known to be at least f *)
Definition st_P_expr (f : nat) : Prop := forall e c c',
  compile_expr f e c = COk tt c' -> forall g, (f <= g)%nat -> st_tr c c' (collect_expr g e).
Definition st_P_exprs (f : nat) : Prop := forall l c c',
  compile_exprs f l c = COk tt c' -> forall g, (f <= g)%nat -> st_tr c c' (st_cexprs g l).
Definition st_P_stmt (f : nat) : Prop := forall s c c',
  compile_stmt f s c = COk tt c' -> forall g, (f <= g)%nat -> st_tr c c' (st_cstmt g s).
Definition st_P_block (f : nat) : Prop := forall b c c',
  compile_block f b c = COk tt c' -> forall g, (f <= g)%nat -> st_tr c c' (collect_block g b).
Definition st_P_case_exprs (f : nat) : Prop := forall v es blk patches c po c',
  compile_case_exprs f v es blk patches c = COk po c' -> forall g, (f <= g)%nat ->
  st_tr c c' (st_ccase g v blk es).
Definition st_P_cases (f : nat) : Prop := forall v chs patches c po c',
  compile_cases f v chs patches c = COk po c' -> forall g, (f <= g)%nat -> st_tr c c' (st_ccases g v chs).
Definition st_P_defaults (f : nat) : Prop := forall chs c c',
  compile_defaults f chs c = COk tt c' -> forall g, (f <= g)%nat -> st_tr c c' (st_cdefs g chs).
Definition st_P_pairs (f : nat) : Prop := forall l c c',
  compile_pairs f l c = COk tt c' -> forall g, (f <= g)%nat -> st_tr c c' (st_cpairs g l).

(* an expression that has a printed form defines no function: what follows a `.` (named by its
   printed form, not compiled) contributes nothing to the collected table *)
Lemma estr_collect_id : forall fuel e s, estr fuel e = Some s -> forall g t, collect_expr g e t = t.
Proof.
  induction fuel as [|f IH]; [discriminate|].
  intros e s H g t. destruct g as [|g]; [reflexivity|].
  destruct e as [ti z|tf x|s0|b|rv fl|n|op r|op e1 e2|n op|e1 e2 e3|l|l|e1 e2|fn l|n v|n|c0 cns alt|c0 body|idx ident v body|n ps bd|v cs];
    cbn [estr] in H; try discriminate H; try reflexivity.
  - (* EPrefix *)
    change (collect_expr (S g) (EPrefix op r) t) with (collect_expr g r t).
    destruct (estr f r) eqn:E; [|discriminate]. eapply IH; exact E.
  - (* EInfix *)
    change (collect_expr (S g) (EInfix op e1 e2) t) with (collect_expr g e2 (collect_expr g e1 t)).
    destruct (estr f e1) eqn:E1; [|discriminate]. destruct (estr f e2) eqn:E2; [|discriminate].
    rewrite (IH _ _ E1). eapply IH; exact E2.
  - (* ETernary *)
    change (collect_expr (S g) (ETernary e1 e2 e3) t)
      with (collect_expr g e3 (collect_expr g e2 (collect_expr g e1 t))).
    destruct (estr f e1) eqn:E1; [|discriminate]. destruct (estr f e2) eqn:E2; [|discriminate].
    destruct (estr f e3) eqn:E3; [|discriminate].
    rewrite (IH _ _ E1), (IH _ _ E2). eapply IH; exact E3.
  - (* EArray *)
    change (collect_expr (S g) (EArray l) t) with (fold_left (fun acc x => collect_expr g x acc) l t).
    revert H. generalize (@nil str) as acc. induction l as [|x l IHl]; intros acc H; [reflexivity|].
    cbn [fold_left]. simpl in H. destruct (estr f x) eqn:Ex; [|discriminate].
    rewrite (IH _ _ Ex). eapply IHl. exact H.
  - (* EIndex *)
    change (collect_expr (S g) (EIndex e1 e2) t) with (collect_expr g e2 (collect_expr g e1 t)).
    destruct (estr f e1) eqn:E1; [|discriminate]. destruct (estr f e2) eqn:E2; [|discriminate].
    rewrite (IH _ _ E1). eapply IH; exact E2.
  - (* ECall *)
    change (collect_expr (S g) (ECall fn l) t) with (fold_left (fun acc x => collect_expr g x acc) l t).
    destruct (estr f fn) as [a|]; [|discriminate].
    revert H. generalize (@nil str) as acc. induction l as [|x l IHl]; intros acc H; [reflexivity|].
    cbn [fold_left]. simpl in H. destruct (estr f x) eqn:Ex; [|discriminate].
    rewrite (IH _ _ Ex). eapply IHl. exact H.
  - (* EAssign *)
    change (collect_expr (S g) (EAssign n v) t) with (collect_expr g v t).
    destruct (estr f v) eqn:E; [|discriminate]. eapply IH; exact E.
Qed.

Lemma st_all_fuel : forall f,
  st_P_expr f /\ st_P_exprs f /\ st_P_stmt f /\ st_P_block f /\
  st_P_case_exprs f /\ st_P_cases f /\ st_P_defaults f /\ st_P_pairs f.
Proof.
  induction f as [|f (IHe & IHl & IHs & IHb & IHce & IHc & IHd & IHp)].
  - repeat match goal with |- _ /\ _ => split end; intro; intros; discriminate.
  - split; [|split; [|split; [|split; [|split; [|split; [|split]]]]]].
    + (* expressions *)
      intros e c c' H g Hg. destruct g as [|g]; [lia|]. assert (Hg' : (f <= g)%nat) by lia. clear Hg.
      destruct e.
      * (* EInt *)
        cbn [compile_expr] in H. destruct (inline_int v); injection H as <-; st_wk ltac:(st_end).
      * cbn [compile_expr] in H. injection H as <-. st_wk ltac:(st_end).
      * cbn [compile_expr] in H. injection H as <-. st_wk ltac:(st_end).
      * (* EBool *)
        cbn [compile_expr] in H. destruct b; injection H as <-; st_wk ltac:(st_end).
      * cbn [compile_expr] in H. injection H as <-. st_wk ltac:(st_end).
      * (* EIdent *)
        cbn [compile_expr] in H. destruct (add_const (VStr name) c) as [i c1] eqn:E.
        injection H as <-.
        st_wk ltac:(apply st_tr_same; eapply st_same_trans; [exact (st_same_add _ _ _ _ E)|st_ss]).
      * (* EPrefix *)
        rewrite ExprProofs.compile_prefix_eq in H.
        destruct (compile_expr f e c) as [[] c1| | |] eqn:E1; try discriminate. cbn [cbind] in H.
        destruct (prefix_opcode op); [|discriminate]. injection H as <-.
        st_wk ltac:(st_c1 (IHe _ _ _ E1 g Hg'); st_end).
      * (* EInfix *)
        destruct (tokty_eq_dec op TPeriod) as [->|Hne].
        { (* `l.r`: r is not compiled; it has a printed form, so it defines no function *)
          destruct (ExprProofs.compile_dot_inv _ _ _ _ _ H) as (c1 & name & E1 & En & ->).
          eapply st_tr_weaken; [st_c1 (IHe _ _ _ E1 g Hg'); st_end|].
          intros t. cbv beta.
          change (collect_expr (S g) (EInfix TPeriod e1 e2) t) with (collect_expr g e2 (collect_expr g e1 t)).
          rewrite (estr_collect_id _ _ _ En). reflexivity. }
        rewrite ExprProofs.compile_infix_eq in H by exact Hne.
        destruct (compile_expr f e1 c) as [[] c1| | |] eqn:E1; try discriminate. cbn [cbind] in H.
        destruct (compile_expr f e2 c1) as [[] c2| | |] eqn:E2; try discriminate. cbn [cbind] in H.
        pose proof (IHe _ _ _ E1 g Hg') as R1. pose proof (IHe _ _ _ E2 g Hg') as R2.
        assert (S : st_same c2 c').
        { clear R1 R2 E1 E2. destruct (infix_opcode op); [|discriminate].
          destruct (is_mutator op); [destruct e1; try discriminate|]; injection H as <-; st_ss. }
        st_wk ltac:(st_c1 R1; st_c1 R2; apply st_tr_same; exact S).
      * (* EPostfix *)
        cbn [compile_expr] in H. destruct op; try discriminate;
          destruct (add_const (VStr name) c) as [i c1] eqn:E; injection H as <-;
          st_wk ltac:(apply st_tr_same; eapply st_same_trans; [exact (st_same_add _ _ _ _ E)|st_ss]).
      * (* ETernary *)
        rewrite StmtProofs.compile_ternary_eq in H.
        destruct (compile_expr f e1 c) as [[] c1| | |] eqn:E1; try discriminate. cbn [cbind] in H.
        destruct (compile_expr f e2 (emit1' OpJumpIfFalse 9999 c1)) as [[] c3| | |] eqn:E2; try discriminate.
        cbn [cbind] in H. cbv zeta in H.
        destruct (compile_expr f e3 _) as [[] c6| | |] eqn:E3 in H; try discriminate.
        cbn [cbind] in H. injection H as <-.
        st_wk ltac:(st_c1 (IHe _ _ _ E1 g Hg'); st_c1 (IHe _ _ _ E2 g Hg'); st_c1 (IHe _ _ _ E3 g Hg'); st_end).
      * (* EArray *)
        rewrite ExprProofs.compile_array_eq in H.
        destruct (compile_exprs f l c) as [[] c1| | |] eqn:E1; try discriminate. cbn [cbind] in H.
        injection H as <-.
        st_wk ltac:(st_c1 (IHl _ _ _ E1 g Hg'); st_end).
      * (* EHash: the same sorted pairs on both sides; `estr 64 _` stays folded inside hash_keys *)
        apply st_compile_hash_inv_ks in H. destruct H as (ks & c1 & Hk & E1 & ->).
        eapply st_tr_weaken; [st_c1 (IHp _ _ _ E1 g Hg'); st_end|].
        intro t. rewrite st_collect_hash_eq, Hk. reflexivity.
      * (* EIndex *)
        rewrite ExprProofs.compile_index_eq in H.
        destruct (compile_expr f e1 c) as [[] c1| | |] eqn:E1; try discriminate. cbn [cbind] in H.
        destruct (compile_expr f e2 c1) as [[] c2| | |] eqn:E2; try discriminate. cbn [cbind] in H.
        injection H as <-.
        st_wk ltac:(st_c1 (IHe _ _ _ E1 g Hg'); st_c1 (IHe _ _ _ E2 g Hg'); st_end).
      * (* ECall *)
        apply StmtProofs.compile_call_inv in H. destruct H as (c1 & name & E1 & Es & ->). clear Es.
        st_wk ltac:(st_c1 (IHl _ _ _ E1 g Hg'); st_end).
      * (* EAssign *)
        rewrite StmtProofs.compile_assign_eq in H.
        destruct (compile_expr f e c) as [[] c1| | |] eqn:E1; try discriminate. cbn [cbind] in H.
        injection H as <-.
        st_wk ltac:(st_c1 (IHe _ _ _ E1 g Hg'); st_end).
      * (* ELocal *)
        cbn [compile_expr] in H. injection H as <-. st_wk ltac:(st_end).
      * (* EIf *)
        rewrite StmtProofs.compile_if_eq in H.
        destruct (compile_expr f e c) as [[] c1| | |] eqn:E1; try discriminate. cbn [cbind] in H.
        destruct (compile_block f cons (emit1' OpJumpIfFalse 9999 c1)) as [[] c3| | |] eqn:E2; try discriminate.
        cbn [cbind] in H. cbv zeta in H.
        destruct alt as [a|].
        -- match type of H with cbind (compile_block f a ?c6) _ = _ =>
             destruct (compile_block f a c6) as [[] c7| | |] eqn:E3; try discriminate
           end.
           cbn [cbind] in H. injection H as <-.
           st_wk ltac:(st_c1 (IHe _ _ _ E1 g Hg'); st_c1 (IHb _ _ _ E2 g Hg'); st_c1 (IHb _ _ _ E3 g Hg'); st_end).
        -- injection H as <-.
           st_wk ltac:(st_c1 (IHe _ _ _ E1 g Hg'); st_c1 (IHb _ _ _ E2 g Hg'); st_end).
      * (* EWhile *)
        rewrite StmtProofs.compile_while_eq in H.
        destruct (compile_expr f e c) as [[] c1| | |] eqn:E1; try discriminate. cbn [cbind] in H.
        destruct (compile_block f body (emit1' OpJumpIfFalse 9999 c1)) as [[] c3| | |] eqn:E2; try discriminate.
        cbn [cbind] in H. cbv zeta in H. injection H as <-.
        st_wk ltac:(st_c1 (IHe _ _ _ E1 g Hg'); st_c1 (IHb _ _ _ E2 g Hg'); st_end).
      * (* EForeach *)
        rewrite StmtProofs.compile_foreach_eq in H.
        destruct (compile_expr f e c) as [[] c1| | |] eqn:E1; try discriminate. cbn [cbind] in H.
        cbv zeta in H.
        match type of H with cbind (compile_block f body ?c5) _ = _ =>
          destruct (compile_block f body c5) as [[] c6| | |] eqn:E2; try discriminate
        end.
        cbn [cbind] in H. injection H as <-.
        st_wk ltac:(st_c1 (IHe _ _ _ E1 g Hg'); st_c1 (IHb _ _ _ E2 g Hg'); st_end).
      * (* EFunction *)
        apply st_compile_function_inv in H. destruct H as (c1 & E1 & ->).
        destruct (IHb _ _ _ E1 g Hg') as (P & K).
        split; [exact P|].
        intros t Ht.
        change (collect_expr (S g) (EFunction name params body) t)
          with (af_set name (mkAfunc params body) (collect_block g body t)).
        unfold st_FT. cbn [consts funcs]. apply st_table_ok_set; [exact (K t Ht)|].
        split; [reflexivity|]. exists f, (consts c), (funcs c), c1.
        split; [exact E1|]. split; [apply ExprProofs.pool_extends_refl|reflexivity].
      * (* ESwitch *)
        rewrite StmtProofs.compile_switch_eq in H.
        destruct (compile_cases f e choices [] c) as [ps c1| | |] eqn:E1; try discriminate. cbn [cbind] in H.
        destruct (compile_defaults f choices c1) as [[] c2| | |] eqn:E2; try discriminate. cbn [cbind] in H.
        injection H as <-.
        st_wk ltac:(st_c1 (IHc _ _ _ _ _ _ E1 g Hg'); st_c1 (IHd _ _ _ E2 g Hg'); st_end).
    + (* expression lists *)
      intros l c c' H g Hg. assert (Hg' : (f <= g)%nat) by lia. destruct l as [|e l].
      * rewrite ExprProofs.compile_exprs_nil_eq in H. injection H as <-. st_wk ltac:(st_end).
      * rewrite ExprProofs.compile_exprs_cons_eq in H.
        destruct (compile_expr f e c) as [[] c1| | |] eqn:E1; try discriminate. cbn [cbind] in H.
        st_wk ltac:(st_c1 (IHe _ _ _ E1 g Hg'); st_last (IHl _ _ _ H g Hg')).
    + (* statements *)
      intros s c c' H g Hg. assert (Hg' : (f <= g)%nat) by lia. destruct s as [e|e].
      * rewrite StmtProofs.compile_stmt_return_eq in H.
        destruct (compile_expr f e c) as [[] c1| | |] eqn:E1; try discriminate. cbn [cbind] in H.
        injection H as <-.
        st_wk ltac:(st_c1 (IHe _ _ _ E1 g Hg'); st_end).
      * rewrite StmtProofs.compile_stmt_expr_eq in H.
        st_wk ltac:(st_last (IHe _ _ _ H g Hg')).
    + (* blocks *)
      intros b c c' H g Hg. destruct g as [|g]; [lia|]. assert (Hg' : (f <= g)%nat) by lia.
      assert (Hg2 : (f <= S g)%nat) by lia. clear Hg.
      destruct b as [|s b].
      * rewrite StmtProofs.compile_block_nil_eq in H. injection H as <-. st_wk ltac:(st_end).
      * rewrite StmtProofs.compile_block_cons_eq in H.
        destruct (compile_stmt f s c) as [[] c1| | |] eqn:E1; try discriminate. cbn [cbind] in H.
        st_wk ltac:(st_c1 (IHs _ _ _ E1 g Hg'); st_last (IHb _ _ _ H (S g) Hg2)).
    + (* the case expressions of one arm *)
      intros v es blk patches c po c' H g Hg. assert (Hg' : (f <= g)%nat) by lia. destruct es as [|e es'].
      * rewrite StmtProofs.compile_case_exprs_nil_eq in H. injection H as <- <-. st_wk ltac:(st_end).
      * rewrite StmtProofs.compile_case_exprs_cons_eq in H.
        destruct (compile_expr f v c) as [[] c1| | |] eqn:E1; try discriminate. cbn [cbind] in H.
        destruct (compile_expr f e c1) as [[] c2| | |] eqn:E2; try discriminate. cbn [cbind] in H.
        cbv zeta in H.
        destruct (compile_block f blk _) as [[] c5| | |] eqn:E5 in H; try discriminate. cbn [cbind] in H.
        st_wk ltac:(st_c1 (IHe _ _ _ E1 g Hg'); st_c1 (IHe _ _ _ E2 g Hg'); st_c1 (IHb _ _ _ E5 g Hg');
                    st_last (IHce _ _ _ _ _ _ _ H g Hg')).
    + (* the arms of a switch *)
      intros v chs patches c po c' H g Hg. assert (Hg' : (f <= g)%nat) by lia.
      destruct chs as [|[[d es] blk] rest].
      * rewrite StmtProofs.compile_cases_nil_eq in H. injection H as <- <-. st_wk ltac:(st_end).
      * destruct d.
        -- rewrite StmtProofs.compile_cases_default_eq in H.
           st_wk ltac:(st_last (IHc _ _ _ _ _ _ H g Hg')).
        -- rewrite StmtProofs.compile_cases_arm_eq in H.
           destruct (compile_case_exprs f v es blk patches c) as [p1 c1| | |] eqn:E1; try discriminate.
           cbn [cbind] in H.
           st_wk ltac:(st_c1 (IHce _ _ _ _ _ _ _ E1 g Hg'); st_last (IHc _ _ _ _ _ _ H g Hg')).
    + (* the default blocks *)
      intros chs c c' H g Hg. assert (Hg' : (f <= g)%nat) by lia.
      destruct chs as [|[[d es] blk] rest].
      * rewrite StmtProofs.compile_defaults_nil_eq in H. injection H as <-. st_wk ltac:(st_end).
      * destruct d.
        -- rewrite StmtProofs.compile_defaults_default_eq in H.
           destruct (compile_block f blk c) as [[] c1| | |] eqn:E1; try discriminate. cbn [cbind] in H.
           st_wk ltac:(st_c1 (IHb _ _ _ E1 g Hg'); st_last (IHd _ _ _ H g Hg')).
        -- rewrite StmtProofs.compile_defaults_skip_eq in H.
           st_wk ltac:(st_last (IHd _ _ _ H g Hg')).
    + (* the pairs of a hash literal *)
      intros l c c' H g Hg. assert (Hg' : (f <= g)%nat) by lia. destruct l as [|[k v] l].
      * rewrite StmtProofs.compile_pairs_nil_eq in H. injection H as <-. st_wk ltac:(st_end).
      * rewrite StmtProofs.compile_pairs_cons_eq in H.
        destruct (compile_expr f k c) as [[] c1| | |] eqn:E1; try discriminate. cbn [cbind] in H.
        destruct (compile_expr f v c1) as [[] c2| | |] eqn:E2; try discriminate. cbn [cbind] in H.
        st_wk ltac:(st_c1 (IHe _ _ _ E1 g Hg'); st_c1 (IHe _ _ _ E2 g Hg'); st_last (IHp _ _ _ H g Hg')).
Qed.

(* the collecting traversal may run with any fuel not below the compiler's *)
Lemma st_table_ok_compiled_all_ge : forall (p : program) (fuelc g : nat) (c : cstate),
  (fuelc <= g)%nat ->
  compile_block fuelc p (mkC [] 0 [] []) = COk tt c ->
  table_ok (consts c) (funcs c) (collect_block g p []).
Proof.
  intros p fuelc g c Hg H.
  destruct (st_all_fuel fuelc) as (_ & _ & _ & Pb & _).
  destruct (Pb p _ c H g Hg) as (_ & K).
  exact (K [] (st_table_ok_nil [])).
Qed.

Lemma table_ok_compiled_all : forall (p : program) (fuelc : nat) (c : cstate),
  compile_block fuelc p (mkC [] 0 [] []) = COk tt c ->
  table_ok (consts c) (funcs c) (collect_block fuelc p []).
Proof.
  intros p fuelc c H. exact (st_table_ok_compiled_all_ge p fuelc fuelc c (Nat.le_refl fuelc) H).
Qed.


Local Ltac lenN_norm := rewrite ?lenN_app, ?lenN_cons, ?lenN_nil in *.
Local Ltac pos := lenN_norm; lia.
Local Ltac leq := repeat (progress (rewrite <- ?app_assoc; cbn [app])); reflexivity.


(* ------------------------------------------------------------------ *)
(* small facts shared by the parts below *)

Lemma forallb_perm : forall A (P : A -> bool) l l',
  Permutation l l' -> forallb P l = true -> forallb P l' = true.
Proof.
  intros A P l l' Hp H. rewrite forallb_forall in *. intros x Hx. apply H.
  eapply Permutation_in; [apply Permutation_sym; exact Hp|exact Hx].
Qed.

(* the pairs of a hash literal as the compiler (and collect_expr) walks them: a permutation *)
Definition hash_sorted (ks : list (str * (expr * expr))) : list (expr * expr) :=
  map snd (sort_by (fun a b => str_ltb (fst a) (fst b)) ks).

Lemma hash_keys_perm : forall l ks, hash_keys l = Some ks -> Permutation l (hash_sorted ks).
Proof.
  intros l ks Hk. unfold hash_keys in Hk. unfold hash_sorted.
  assert (Hsnd : map snd ks = l).
  { eapply ContainerProofs.opt_map_decorate_snd; [|exact Hk].
    intros x y. cbv beta. generalize (estr 64 (fst x)). intros [s|] E; [|discriminate].
    injection E as <-. reflexivity. }
  rewrite <- Hsnd. apply Permutation_map. apply ContainerProofs.sort_by_perm.
Qed.

Lemma hash_inv2 : forall f (l : list (expr * expr)) c c' (om : option (list (str * (expr * expr)))),
  match om with
  | None => CNeed
  | Some ks =>
      let sorted := map snd (sort_by (fun a b => str_ltb (fst a) (fst b)) ks) in
      cbind (compile_pairs f sorted c) (fun _ c1 => COk tt (emit1' OpHash (lenN l * 2) c1))
  end = COk tt c' ->
  exists ks c1, om = Some ks /\ compile_pairs f (hash_sorted ks) c = COk tt c1 /\
                c' = emit1' OpHash (lenN l * 2) c1.
Proof.
  intros f l c c' om H. destruct om as [ks|]; [|discriminate]. cbv zeta in H.
  destruct (compile_pairs f _ c) as [[] c1| | |] eqn:E1 in H; try discriminate. cbn [cbind] in H.
  injection H as <-. exists ks, c1. split; [reflexivity|]. split; [exact E1|reflexivity].
Qed.

Lemma compile_hash_inv_keys : forall f l c c', compile_expr (S f) (EHash l) c = COk tt c' ->
  exists ks c1, hash_keys l = Some ks /\ compile_pairs f (hash_sorted ks) c = COk tt c1 /\
                c' = emit1' OpHash (lenN l * 2) c1.
Proof.
  intros f l c c' H. apply compile_hash_inv1 in H. exact (hash_inv2 f l c c' (hash_keys l) H).
Qed.

Lemma af_get_set : forall name af l name',
  af_get name' (af_set name af l) = if str_eqb name name' then Some af else af_get name' l.
Proof.
  intros name af l name'. induction l as [|[n g] l IH].
  - reflexivity.
  - cbn [af_set]. destruct (str_eqb n name) eqn:E.
    + apply str_eqb_eq in E. subst n. cbn [af_get].
      destruct (str_eqb name name'); reflexivity.
    + cbn [af_get]. rewrite IH. destruct (str_eqb n name') eqn:E1; [|reflexivity].
      destruct (str_eqb name name') eqn:E2; [|reflexivity].
      apply str_eqb_eq in E1, E2. subst. rewrite ContainerProofs.str_eqb_refl in E. discriminate.
Qed.

(* ------------------------------------------------------------------ *)
(* PART 1: instruction-aligned code and its last opcode *)

Definition instr_ok (i : N * list N) : Prop := lenN (fst i :: snd i) = op_len (fst i).
Definition flat (l : list (N * list N)) : list N := flat_map (fun i => fst i :: snd i) l.
Definition lastopc (l : list (N * list N)) (init : option N) : option N :=
  fold_left (fun _ i => Some (fst i)) l init.

(* the code is a sequence of whole instructions *)
Definition wfc (code : list N) : Prop := exists l, code = flat l /\ Forall instr_ok l.
(* ... whose last one (if any) is not OpReturn *)
Definition noret (code : list N) : Prop :=
  exists l, code = flat l /\ Forall instr_ok l /\ lastopc l None <> Some OpReturn.

Lemma flat_app : forall a b, flat (a ++ b) = flat a ++ flat b.
Proof. intros. unfold flat. apply flat_map_app. Qed.

Lemma lastopc_some : forall l x, l <> [] -> lastopc l x = lastopc l None.
Proof.
  intros l x H. destruct l as [|i l]; [congruence|]. reflexivity.
Qed.

Lemma lastopc_app : forall a b x, lastopc (a ++ b) x = lastopc b (lastopc a x).
Proof. intros. unfold lastopc. apply fold_left_app. Qed.

Lemma flat_nil_inv : forall l, flat l = [] -> l = [].
Proof. intros [|i l] H; [reflexivity|discriminate]. Qed.

Lemma wfc_nil : wfc [].
Proof. exists []. split; [reflexivity|constructor]. Qed.

Lemma noret_nil : noret [].
Proof. exists []. split; [reflexivity|split; [constructor|discriminate]]. Qed.

Lemma noret_wfc : forall a, noret a -> wfc a.
Proof. intros a (l & H1 & H2 & _). exists l. split; assumption. Qed.

Lemma wfc_app : forall a b, wfc a -> wfc b -> wfc (a ++ b).
Proof.
  intros a b (la & -> & Ha) (lb & -> & Hb). exists (la ++ lb). split; [symmetry; apply flat_app|].
  apply Forall_app. split; assumption.
Qed.

Lemma wfc_noret_app : forall a b, wfc a -> noret b -> 1 <= lenN b -> noret (a ++ b).
Proof.
  intros a b (la & -> & Ha) (lb & -> & Hb & Hl) Hne. exists (la ++ lb).
  split; [symmetry; apply flat_app|split; [apply Forall_app; split; assumption|]].
  rewrite lastopc_app. rewrite lastopc_some; [exact Hl|].
  intros ->. cbn in Hne. lia.
Qed.

Lemma noret_app : forall a b, noret a -> noret b -> noret (a ++ b).
Proof.
  intros a b Ha Hb. destruct b as [|x b].
  - rewrite app_nil_r. exact Ha.
  - apply wfc_noret_app; [apply noret_wfc; exact Ha|exact Hb|rewrite lenN_cons; lia].
Qed.

Definition plain1 (op : N) : Prop := op_len op = 1 /\ op <> OpReturn.
Definition plain3 (op : N) : Prop := op_len op = 3 /\ op <> OpReturn.

Lemma wfc_1 : forall op, op_len op = 1 -> wfc [op].
Proof.
  intros op H. exists [(op, [])]. split; [reflexivity|]. constructor; [|constructor].
  unfold instr_ok. cbn [fst snd]. rewrite H. reflexivity.
Qed.
Lemma wfc_3 : forall op h l, op_len op = 3 -> wfc [op; h; l].
Proof.
  intros op h l H. exists [(op, [h; l])]. split; [reflexivity|]. constructor; [|constructor].
  unfold instr_ok. cbn [fst snd]. rewrite H. reflexivity.
Qed.
Lemma noret_1 : forall op, plain1 op -> noret [op].
Proof.
  intros op [H Hn]. exists [(op, [])]. split; [reflexivity|split].
  - constructor; [|constructor]. unfold instr_ok. cbn [fst snd]. rewrite H. reflexivity.
  - unfold lastopc. cbn [fold_left fst]. intro E. injection E. exact Hn.
Qed.
Lemma noret_3 : forall op h l, plain3 op -> noret [op; h; l].
Proof.
  intros op h l [H Hn]. exists [(op, [h; l])]. split; [reflexivity|split].
  - constructor; [|constructor]. unfold instr_ok. cbn [fst snd]. rewrite H. reflexivity.
  - unfold lastopc. cbn [fold_left fst]. intro E. injection E. exact Hn.
Qed.

Lemma last_op_flat : forall l init fuel, Forall instr_ok l -> (List.length (flat l) < fuel)%nat ->
  last_op fuel (flat l) init = lastopc l init.
Proof.
  induction l as [|[op args] l IH]; intros init fuel Hf Hlen.
  - destruct fuel; reflexivity.
  - destruct fuel as [|f]; [lia|].
    inversion Hf as [|i l' Hi Hf']; subst. unfold instr_ok in Hi. cbn [fst snd] in Hi.
    change (flat ((op, args) :: l)) with ((op :: args) ++ flat l) in *.
    change (last_op (S f) ((op :: args) ++ flat l) init) with
      (last_op f (skipn (N.to_nat (op_len op)) ((op :: args) ++ flat l)) (Some op)).
    rewrite <- Hi. unfold lenN. rewrite Nat2N.id.
    rewrite skipn_app, skipn_all, Nat.sub_diag. cbn [app skipn].
    rewrite IH; [reflexivity|exact Hf'|].
    rewrite app_length in Hlen. cbn [List.length] in Hlen. lia.
Qed.

Lemma noret_last_op : forall code, noret code ->
  last_op (S (List.length code)) code None <> Some OpReturn.
Proof.
  intros code (l & -> & Hf & Hl). rewrite last_op_flat; [exact Hl|exact Hf|lia].
Qed.

Ltac plain_tac :=
  match goal with
  | |- plain1 _ => split; [vm_compute; reflexivity|let H := fresh in intro H; vm_compute in H; discriminate H]
  | |- plain3 _ => split; [vm_compute; reflexivity|let H := fresh in intro H; vm_compute in H; discriminate H]
  end.

(* wfc / noret of code written as right-nested concatenations *)
Ltac wsolve :=
  repeat first
    [ assumption
    | apply noret_wfc; assumption
    | match goal with
      | |- wfc [] => apply wfc_nil
      | |- wfc (_ ++ _) => apply wfc_app
      | |- wfc [_] => first [ apply wfc_1; first [assumption | vm_compute; reflexivity]
                            | apply noret_wfc, noret_1; assumption ]
      | |- wfc [_; _; _] => apply wfc_3; first [assumption | vm_compute; reflexivity]
      end ].

(* ------------------------------------------------------------------ *)
(* PART 2: runs.  A call spends fuel inside the callee that the caller does not get
   back, so "continues as ... a fixed number of steps later" (Spec.Eval.runs_to) is
   replaced by: whatever holds of all long enough runs from the target holds of all
   long enough runs from the source. *)

Section Runs0.
Variables (o : stdlib) (pool : list value) (funcs : list (str * ufunc)) (fns : fnmap) (obj : hostval).
Notation ex := (exec o pool funcs fns obj).
Notation fw := (fails_with o pool funcs fns obj).

Definition ev (main : list N) (ip : N) (m : mstate) (P : outcome * mstate -> Prop) : Prop :=
  exists n : nat, forall k : nat, P (ex (n + k)%nat main ip m).

Definition runs_to (main : list N) (ip ip' : N) (m m' : mstate) : Prop :=
  forall P, ev main ip' m' P -> ev main ip m P.

Definition returns_with (main : list N) (ip : N) (m : mstate) (v : value) (m' : mstate) : Prop :=
  exists n : nat, forall k : nat, ex (n + k)%nat main ip m = (ODone v, m').

Lemma runs_to_refl : forall main ip m, runs_to main ip ip m m.
Proof. intros main ip m P H. exact H. Qed.

Lemma runs_to_trans : forall main a b c m1 m2 m3,
  runs_to main a b m1 m2 -> runs_to main b c m2 m3 -> runs_to main a c m1 m3.
Proof. intros main a b c m1 m2 m3 H1 H2 P H. apply H1, H2, H. Qed.

Lemma runs_then_fails : forall main a b m1 m2 x,
  runs_to main a b m1 m2 -> fw main b m2 x -> fw main a m1 x.
Proof.
  intros main a b m1 m2 x H1 H2.
  exact (H1 (fun r => exists m', r = (OErr x, m')) H2).
Qed.

Lemma runs_then_returns : forall main a b m1 m2 v m',
  runs_to main a b m1 m2 -> returns_with main b m2 v m' -> returns_with main a m1 v m'.
Proof.
  intros main a b m1 m2 v m' H1 H2.
  exact (H1 (fun r => r = (ODone v, m')) H2).
Qed.

Lemma runs_to_step : forall main a b m1 m2,
  (forall k, ex (S k) main a m1 = ex k main b m2) -> runs_to main a b m1 m2.
Proof.
  intros main a b m1 m2 H P [n Hn]. exists (S n). intro k. cbn [plus]. rewrite H. apply Hn.
Qed.

(* the old notion implies the new one *)
Lemma runs_to_of_exact : forall main a b m1 m2,
  Spec.Eval.runs_to o pool funcs fns obj main a b m1 m2 -> runs_to main a b m1 m2.
Proof.
  intros main a b m1 m2 [n1 H1] P [n2 H2]. exists (n1 + n2)%nat. intro k.
  rewrite <- Nat.add_assoc. unfold xexec in H1. rewrite H1. apply H2.
Qed.

(* a call: the callee's run is nested in one step of the caller *)
Lemma call_returns : forall main ip ip' m code' m0 (F : value -> mstate -> mstate) (G : mstate -> mstate) out m2,
  (forall k, ex (S k) main ip m =
             match ex k code' 0 m0 with
             | (ODone out', m2') => ex k main ip' (F out' m2')
             | (OErr e, m2') => (OErr e, G m2')
             end) ->
  returns_with code' 0 m0 out m2 -> runs_to main ip ip' m (F out m2).
Proof.
  intros main ip ip' m code' m0 F G out m2 St [n1 H1] P [n2 H2].
  exists (S (n1 + n2)). intro k. cbn [plus]. rewrite St.
  replace (n1 + n2 + k)%nat with (n1 + (n2 + k))%nat by lia. rewrite H1.
  replace (n1 + (n2 + k))%nat with (n2 + (n1 + k))%nat by lia. apply H2.
Qed.

Lemma call_fails : forall main ip ip' m code' m0 (F : value -> mstate -> mstate) (G : mstate -> mstate) x,
  (forall k, ex (S k) main ip m =
             match ex k code' 0 m0 with
             | (ODone out', m2') => ex k main ip' (F out' m2')
             | (OErr e, m2') => (OErr e, G m2')
             end) ->
  fw code' 0 m0 x -> fw main ip m x.
Proof.
  intros main ip ip' m code' m0 F G x St [n1 H1].
  exists (S n1). intro k. cbn [plus]. unfold xexec. rewrite St.
  destruct (H1 k) as [m' Hm]. unfold xexec in Hm. rewrite Hm. eexists. reflexivity.
Qed.

(* --- one-step lemmas for the opcodes StmtProofs did not need --- *)

Lemma exec_local : forall k main ip m,
  (lenN main <=? ip) = false -> polls m = None -> byte_at main ip = Some OpLocal ->
  ex (S k) main ip m =
  match stk m with
  | name :: s =>
      match name_of o name with
      | Ok n => ex k main (ip + 1) (mkM s (env_declare (menv m) (trim_dollar n) VNull) (trace m) (polls m))
      | Err e => (OErr e, m)
      end
  | [] => (OErr EInternal, m)
  end.
Proof. intros k main ip m Hl Hp Hb. cbn [exec]. rewrite Hl, Hp, Hb. step_simpl. rewrite ?Hp. reflexivity. Qed.

Lemma exec_void : forall k main ip m,
  (lenN main <=? ip) = false -> polls m = None -> byte_at main ip = Some OpVoid ->
  ex (S k) main ip m = ex k main (ip + 1) (push m VVoid).
Proof. intros k main ip m Hl Hp Hb. cbn [exec]. rewrite Hl, Hp, Hb. step_simpl. rewrite ?Hp. reflexivity. Qed.

Lemma exec_call_user : forall k main ip m arg name s0,
  (lenN main <=? ip) = false -> polls m = None -> byte_at main ip = Some OpCall ->
  operand_at main ip = Some arg -> stk m = VStr name :: s0 -> fn_get name fns = None ->
  ex (S k) main ip m =
  match pop_n (N.to_nat arg) s0 [] with
  | None => (OErr EInternal, m)
  | Some (args, s) =>
      match ufunc_get name funcs with
      | None => (OErr EScript, set_stk m s)
      | Some uf =>
          if negb (Nat.eqb (List.length (fparams uf)) (List.length args)) then (OErr EScript, set_stk m s)
          else if negb (max_call_depth =? 0) && (max_call_depth <=? N.of_nat (env_depth (menv m)))
          then (OErr EScript, set_stk m s)
          else
            match ex k (fcode uf) 0
                    (mkM [] (declare_all (env_push_frame (menv m)) (fparams uf) args) (trace m) (polls m)) with
            | (ODone out, m2) =>
                ex k main (ip + 3)
                  (mkM (match out with VVoid => s | _ => out :: s end)
                       (env_truncate (menv m2) (env_depth (menv m))) (trace m2) (polls m2))
            | (OErr e, m2) =>
                (OErr e, mkM s (env_truncate (menv m2) (env_depth (menv m))) (trace m2) (polls m2))
            end
      end
  end.
Proof.
  intros k main ip m arg name s0 Hl Hp Hb Ho Hs Hf. cbn [exec]. rewrite Hl, Hp, Hb. step_simpl.
  rewrite Ho. step_simpl. rewrite Hs. cbn [name_of inspect].
  destruct (pop_n (N.to_nat arg) s0 []) as [[args s]|]; [|reflexivity].
  rewrite Hf. unfold fail. rewrite ?Hp. reflexivity.
Qed.

End Runs0.

(* ------------------------------------------------------------------ *)
(* composing runs against the reference result *)

Section Runs2.
Variables (o : stdlib) (pool : list value) (funcs : list (str * ufunc)) (fns : fnmap) (obj : hostval).
Notation ex := (exec o pool funcs fns obj).
Notation rt := (runs_to o pool funcs fns obj).
Notation fw := (fails_with o pool funcs fns obj).
Notation returns_with := (returns_with o pool funcs fns obj).

(* the machine, started at ip in m, does what the reference result r says;
   when r falls through, the machine arrives at ipe *)
Definition ok (main : list N) (ip : N) (m : mstate) (r : sres) (ipe : N) : Prop :=
  match r with
  | XNormal m' => polls m' = None /\ rt main ip ipe m m'
  | XReturn v m' => polls m' = None /\ returns_with main ip m v m'
  | XErr ENeedOracle _ => True
  | XErr EFuel _ => True
  | XErr x _ => fw main ip m x
  end.

Lemma ok_err : forall main ip m x m' ipe, fw main ip m x -> ok main ip m (XErr x m') ipe.
Proof. intros main ip m x m' ipe H. destruct x; cbn [ok]; try exact H; exact I. Qed.

Lemma ok_fail_step : forall main ip m x m' m'' ipe,
  (forall k, ex (S k) main ip m = (OErr x, m'')) -> ok main ip m (XErr x m') ipe.
Proof. intros. apply ok_err. eapply fails_step. eassumption. Qed.

Lemma ok_normal : forall main ip m m' ipe, polls m' = None -> rt main ip ipe m m' -> ok main ip m (XNormal m') ipe.
Proof. intros. split; assumption. Qed.

Lemma ok_prepend : forall main a b m m1 r e,
  rt main a b m m1 -> ok main b m1 r e -> ok main a m r e.
Proof.
  intros main a b m m1 r e H1 H2. destruct r as [m'|v m'|x m'].
  - destruct H2 as [Hp H2]. split; [exact Hp|]. eapply runs_to_trans; eassumption.
  - destruct H2 as [Hp H2]. split; [exact Hp|]. eapply runs_then_returns; eassumption.
  - destruct x; cbn [ok] in *; try exact I; eapply runs_then_fails; eassumption.
Qed.

Lemma ok_step : forall main a b m m1 r e,
  (forall k, ex (S k) main a m = ex k main b m1) -> ok main b m1 r e -> ok main a m r e.
Proof. intros main a b m m1 r e H. apply ok_prepend. apply runs_to_step. exact H. Qed.

Lemma ok_then : forall main a b e m r k,
  ok main a m r b ->
  (forall m1, polls m1 = None -> ok main b m1 (k m1) e) ->
  ok main a m (then_ r k) e.
Proof.
  intros main a b e m r k H1 H2. destruct r as [m'|v m'|x m']; cbn [then_].
  - destruct H1 as [Hp H1]. eapply ok_prepend; [exact H1|]. apply H2. exact Hp.
  - exact H1.
  - exact H1.
Qed.

Lemma ok_then' : forall main a b e m r k,
  ok main a m r b ->
  (forall m1, r = XNormal m1 -> polls m1 = None -> ok main b m1 (k m1) e) ->
  ok main a m (then_ r k) e.
Proof.
  intros main a b e m r k H1 H2. destruct r as [m'|v m'|x m']; cbn [then_].
  - destruct H1 as [Hp H1]. eapply ok_prepend; [exact H1|]. apply H2; [reflexivity|exact Hp].
  - exact H1.
  - exact H1.
Qed.

Lemma ok_ip : forall main a a' e m r, ok main a m r e -> a = a' -> ok main a' m r e.
Proof. intros. subst. assumption. Qed.

Lemma rt_pos : forall main a b a' b' m m', rt main a b m m' -> a = a' -> b = b' -> rt main a' b' m m'.
Proof. intros. subst. assumption. Qed.

Lemma ok_end : forall main a b e m r,
  ok main a m r b ->
  (forall m1, polls m1 = None -> rt main b e m1 m1) ->
  ok main a m r e.
Proof.
  intros main a b e m r H1 H2. destruct r as [m'|v m'|x m'].
  - destruct H1 as [Hp H1]. split; [exact Hp|]. eapply runs_to_trans; [exact H1|]. apply H2. exact Hp.
  - exact H1.
  - exact H1.
Qed.

Lemma ok_ipe : forall main a b e m r, ok main a m r b -> b = e -> ok main a m r e.
Proof. intros. subst. assumption. Qed.

(* --- runs of single instructions, located by code_at --- *)

Lemma run_ph : forall main ip rest m,
  code_at main ip (OpPlaceholder :: rest) -> polls m = None -> rt main ip (ip + 1) m m.
Proof.
  intros main ip rest m H Hp. destruct (code_at_op1 _ _ _ _ H) as [Hl Hb].
  apply runs_to_step. intro k. apply exec_ph; assumption.
Qed.

Lemma run_jump : forall main ip t rest m,
  code_at main ip (OpJump :: hi_byte t :: lo_byte t :: rest) -> polls m = None ->
  t < lenN main -> lenN main <= 65535 -> rt main ip t m m.
Proof.
  intros main ip t rest m H Hp Ht Hm. destruct (code_at_op3 _ _ _ _ _ _ H) as (Hl & Hb & Ho).
  rewrite hi_lo in Ho by lia.
  apply runs_to_step. intro k. rewrite (exec_jump o pool funcs fns obj k main ip m t Hl Hp Hb Ho).
  apply N.leb_gt in Ht. rewrite Ht. reflexivity.
Qed.

Lemma run_const : forall main ip i v rest m,
  code_at main ip (OpConstant :: hi_byte i :: lo_byte i :: rest) -> polls m = None ->
  nthN pool i = Some v -> i < 65536 -> rt main ip (ip + 3) m (push m v).
Proof.
  intros main ip i v rest m H Hp Hn Hi. destruct (code_at_op3 _ _ _ _ _ _ H) as (Hl & Hb & Ho).
  rewrite hi_lo in Ho by lia.
  apply runs_to_step. intro k. apply (exec_constant o pool funcs fns obj k main ip m i v Hl Hp Hb Ho Hn).
Qed.

(* the conditional jump, against pop1s *)
Lemma run_jif : forall main ip t rest m e (kt kf : mstate -> sres),
  code_at main ip (OpJumpIfFalse :: hi_byte t :: lo_byte t :: rest) -> polls m = None ->
  t < lenN main -> lenN main <= 65535 ->
  (forall m2, polls m2 = None -> ok main (ip + 3) m2 (kt m2) e) ->
  (forall m2, polls m2 = None -> ok main t m2 (kf m2) e) ->
  ok main ip m (pop1s m (fun v m2 => if truthy v then kt m2 else kf m2)) e.
Proof.
  intros main ip t rest m e kt kf H Hp Ht Hm Kt Kf.
  destruct (code_at_op3 _ _ _ _ _ _ H) as (Hl & Hb & Ho).
  rewrite hi_lo in Ho by lia.
  pose proof (fun k => exec_jif o pool funcs fns obj k main ip m t Hl Hp Hb Ho) as St.
  unfold pop1s. destruct (stk m) as [|v s] eqn:Es.
  - eapply ok_fail_step. exact St.
  - apply N.leb_gt in Ht. rewrite Ht in St. destruct (truthy v).
    + eapply ok_step; [exact St|]. apply Kt. exact Hp.
    + eapply ok_step; [exact St|]. apply Kf. exact Hp.
Qed.

End Runs2.
(* ------------------------------------------------------------------ *)
(* PART 3: the statement per syntactic class *)

Local Ltac pe := eauto 7 using pool_extends_trans, pool_extends_refl, emits_pe.

Ltac nr :=
  repeat first
    [ assumption
    | match goal with
      | |- noret [] => apply noret_nil
      | |- noret [_] => apply noret_1; first [assumption | plain_tac]
      | |- noret [_; _; _] => apply noret_3; first [assumption | plain_tac]
      | |- noret (_ ++ _) => apply wfc_noret_app; [solve [wsolve] | | pos]
      end ].

Section Sem.
Variables (o : stdlib) (fns : fnmap) (afs : aftable).

Definition specfn := hostval -> nat -> mstate -> sres.

(* what a call of a function body amounts to: its code, run from 0 on a fresh stack,
   returns the value of the `return` reached, or no value (VVoid) when the body falls through *)
Definition body_res (pool : list value) (funcs : list (str * ufunc)) (obj : hostval)
                    (code : list N) (m : mstate) (r : sres) : Prop :=
  match r with
  | XNormal m' => polls m' = None /\ returns_with o pool funcs fns obj code 0 m VVoid m'
  | XReturn v m' => polls m' = None /\ returns_with o pool funcs fns obj code 0 m v m'
  | XErr ENeedOracle _ => True
  | XErr EFuel _ => True
  | XErr x _ => fails_with o pool funcs fns obj code 0 m x
  end.

(* the function table is implemented by the machine's table, and the compiled bodies are
   correct for every reference fuel below n *)
Definition Calls (pool : list value) (funcs : list (str * ufunc)) (obj : hostval) (n : nat) : Prop :=
  forall name,
    match af_get name afs with
    | None => ufunc_get name funcs = None
    | Some af =>
        exists uf, ufunc_get name funcs = Some uf /\ fparams uf = aparams af /\
          forall f m, (f < n)%nat -> polls m = None ->
            body_res pool funcs obj (fcode uf) m (sblock o fns obj afs f (abody af) m)
    end.

Lemma Calls_le : forall pool funcs obj n n', Calls pool funcs obj n -> (n' <= n)%nat -> Calls pool funcs obj n'.
Proof.
  intros pool funcs obj n n' H Hle name. specialize (H name).
  destruct (af_get name afs) as [af|]; [|exact H].
  destruct H as (uf & H1 & H2 & H3). exists uf. split; [exact H1|split; [exact H2|]].
  intros f m Hf. apply H3. lia.
Qed.

Lemma Calls_S : forall pool funcs obj n, Calls pool funcs obj (S n) -> Calls pool funcs obj n.
Proof. intros pool funcs obj n H. eapply Calls_le; [exact H|lia]. Qed.

Definition sem (cs : list value) (start : N) (code : list N) (sp : specfn) : Prop :=
  forall pool funcs obj main ip m fuel,
    lenN cs <= 65536 -> pool_extends cs pool ->
    code_at main ip code -> ip = start -> polls m = None -> lenN main <= 65535 ->
    Calls pool funcs obj fuel ->
    ok o pool funcs fns obj main ip m (sp obj fuel m) (ip + lenN code).

Lemma sem_use : forall cs start code sp, sem cs start code sp ->
  forall cs' pool funcs obj main ip m fuel,
    pool_extends cs cs' -> lenN cs' <= 65536 -> pool_extends cs' pool ->
    code_at main ip code -> ip = start -> polls m = None -> lenN main <= 65535 ->
    Calls pool funcs obj fuel ->
    ok o pool funcs fns obj main ip m (sp obj fuel m) (ip + lenN code).
Proof.
  intros cs start code sp H cs' pool funcs obj main ip m fuel H1 H2 H3 H4 H5 H6 H7 H8.
  apply H; try assumption.
  - apply pool_extends_len in H1. lia.
  - eapply pool_extends_trans; eassumption.
Qed.

Definition res_ok (c c' : cstate) (sp : specfn) (Q : list N -> Prop) : Prop :=
  exists code, emits c c' code /\ (Q code /\ wfc code) /\ sem (consts c') (clen c) code sp.

Definition sp_x (e : expr) : specfn := fun obj f m => sx o fns obj afs f e m.
Definition sp_xs (l : list expr) : specfn := fun obj f m => sxs o fns obj afs f l m.
Definition sp_stmt (s : stmt) : specfn := fun obj f m => sstmt o fns obj afs f s m.
Definition sp_block (b : list stmt) : specfn := fun obj f m => sblock o fns obj afs f b m.

Definition nonempty (code : list N) : Prop := 1 <= lenN code /\ noret code.
Definition anycode (code : list N) : Prop := True.

Lemma res_ok_ok : forall c c' sp Q, res_ok c c' sp Q -> cstate_ok c'.
Proof. intros c c' sp Q (code & E & _). apply E. Qed.

(* --- single instructions against spec fragments --- *)

Lemma run_un : forall op F pool funcs obj main ip rest m,
  un_step_g o op F -> code_at main ip (op :: rest) -> polls m = None ->
  ok o pool funcs fns obj main ip m (pop1s m (fun v m2 => pushr m2 (F v))) (ip + 1).
Proof.
  intros op F pool funcs obj main ip rest m Hst Hat Hp.
  destruct (code_at_op1 _ _ _ _ Hat) as [Hl Hb].
  pose proof (fun k => Hst pool funcs fns obj k main ip m Hl Hp Hb) as St.
  unfold pop1s. destruct (stk m) as [|v s] eqn:Es.
  - eapply ok_fail_step. exact St.
  - destruct (F v) as [w|x] eqn:Ef; cbn [pushr].
    + apply ok_normal; [exact Hp|]. apply runs_to_step. exact St.
    + eapply ok_fail_step. exact St.
Qed.

Lemma run_bin : forall op F pool funcs obj main ip rest m,
  bin_step_g o op F -> code_at main ip (op :: rest) -> polls m = None ->
  ok o pool funcs fns obj main ip m (pop2s m (fun b a m3 => pushr m3 (F a b))) (ip + 1).
Proof.
  intros op F pool funcs obj main ip rest m Hst Hat Hp.
  destruct (code_at_op1 _ _ _ _ Hat) as [Hl Hb].
  pose proof (fun k => Hst pool funcs fns obj k main ip m Hl Hp Hb) as St.
  unfold pop2s. destruct (stk m) as [|b [|a s]] eqn:Es.
  - eapply ok_fail_step. exact St.
  - eapply ok_fail_step. exact St.
  - destruct (F a b) as [w|x] eqn:Ef; cbn [pushr].
    + apply ok_normal; [exact Hp|]. apply runs_to_step. exact St.
    + eapply ok_fail_step. exact St.
Qed.

(* --- leaves --- *)

Lemma cc_nullary_g : forall e op v c,
  cstate_ok c -> (forall obj f m, sx o fns obj afs (S f) e m = XNormal (push m v)) ->
  (forall pool funcs obj k main ip m,
     (lenN main <=? ip) = false -> polls m = None -> byte_at main ip = Some op ->
     exec o pool funcs fns obj (S k) main ip m = exec o pool funcs fns obj k main (ip + 1) (push m v)) ->
  plain1 op ->
  res_ok c (emit0 op c) (sp_x e) nonempty.
Proof.
  intros e op v c Hc Heq Hst Hpl. exists [op]. split; [apply emits_emit0; exact Hc|split; [split; [split; [pos|nr]|wsolve]|]].
  intros pool funcs obj main ip m fuel Hsz Hpool Hat Hip Hpolls Hlen HN.
  destruct fuel as [|f]; [exact I|]. unfold sp_x. rewrite Heq.
  destruct (code_at_op1 _ _ _ _ Hat) as [Hl Hb].
  apply ok_normal; [exact Hpolls|]. apply runs_to_step. intro k. apply Hst; assumption.
Qed.

Lemma cc_push_g : forall t z c,
  cstate_ok c -> inline_int z = true -> res_ok c (emit1' OpPush (Z.to_N z) c) (sp_x (EInt t z)) nonempty.
Proof.
  intros t z c Hc Hz.
  unfold inline_int, inline_limit in Hz. apply andb_true_iff in Hz. destruct Hz as [Hz1 Hz2].
  apply Z.leb_le in Hz1. apply Z.leb_le in Hz2. change (Z.of_N 65534) with 65534%Z in Hz2.
  exists [OpPush; hi_byte (Z.to_N z); lo_byte (Z.to_N z)].
  split; [apply emits_emit1; exact Hc|split; [split; [split; [pos|nr]|wsolve]|]].
  intros pool funcs obj main ip m fuel Hsz Hpool Hat Hip Hpolls Hlen HN.
  destruct fuel as [|f]; [exact I|].
  destruct (code_at_op3 _ _ _ _ _ _ Hat) as (Hl & Hb & Ho). rewrite hi_lo in Ho by lia.
  apply ok_normal; [exact Hpolls|]. apply runs_to_step. intro k.
  rewrite (exec_push o pool funcs fns obj k _ _ m (Z.to_N z) Hl Hpolls Hb Ho).
  rewrite Z2N.id by lia. reflexivity.
Qed.

Lemma cc_const_g : forall e v c,
  cstate_ok c -> (forall obj f m, sx o fns obj afs (S f) e m = XNormal (push m v)) ->
  res_ok c (emit_const v c) (sp_x e) nonempty.
Proof.
  intros e v c Hc Heq. destruct (emits_const v c Hc) as (i & Em & Hn).
  exists [OpConstant; hi_byte i; lo_byte i]. split; [exact Em|split; [split; [split; [pos|nr]|wsolve]|]].
  intros pool funcs obj main ip m fuel Hsz Hpool Hat Hip Hpolls Hlen HN.
  destruct fuel as [|f]; [exact I|]. unfold sp_x. rewrite Heq.
  assert (Hi : i < 65536) by (apply nthN_some_lt in Hn; lia).
  apply ok_normal; [exact Hpolls|].
  eapply run_const; try eassumption. eapply pool_extends_nth; eassumption.
Qed.

Lemma cc_ident_g : forall name c i c1, cstate_ok c -> add_const (VStr name) c = (i, c1) ->
  res_ok c (emit1' OpLookup i c1) (sp_x (EIdent name)) nonempty.
Proof.
  intros name c i c1 Hc E. destruct (emits_add OpLookup _ _ _ _ Hc E) as [Em Hn].
  exists [OpLookup; hi_byte i; lo_byte i]. split; [exact Em|split; [split; [split; [pos|nr]|wsolve]|]].
  intros pool funcs obj main ip m fuel Hsz Hpool Hat Hip Hpolls Hlen HN.
  destruct fuel as [|f]; [exact I|].
  assert (Hi : i < 65536) by (apply nthN_some_lt in Hn; lia).
  destruct (code_at_op3 _ _ _ _ _ _ Hat) as (Hl & Hb & Ho). rewrite hi_lo in Ho by exact Hi.
  assert (Hn' : nthN pool i = Some (VStr name)) by (eapply pool_extends_nth; eassumption).
  pose proof (fun k => exec_lookup o pool funcs fns obj k _ _ m i name Hl Hpolls Hb Ho Hn') as St.
  unfold sp_x. change (sx o fns obj afs (S f) (EIdent name) m) with (pushr m (lookup o obj (menv m) name)).
  destruct (lookup o obj (menv m) name) as [v|x] eqn:El; cbn [pushr].
  - apply ok_normal; [exact Hpolls|]. apply runs_to_step. exact St.
  - eapply ok_fail_step. exact St.
Qed.

Lemma cc_postfix_g : forall (inc : bool) name c i c1, cstate_ok c -> add_const (VStr name) c = (i, c1) ->
  res_ok c (emit1' (if inc then OpInc else OpDec) i c1)
         (sp_x (EPostfix name (if inc then TPlusPlus else TMinusMinus))) nonempty.
Proof.
  intros inc name c i c1 Hc E.
  destruct (emits_add (if inc then OpInc else OpDec) _ _ _ _ Hc E) as [Em Hn].
  exists [if inc then OpInc else OpDec; hi_byte i; lo_byte i].
  split; [exact Em|split; [split; [split; [pos|destruct inc; nr]|destruct inc; wsolve]|]].
  intros pool funcs obj main ip m fuel Hsz Hpool Hat Hip Hpolls Hlen HN.
  destruct fuel as [|f]; [exact I|].
  assert (Hi : i < 65536) by (apply nthN_some_lt in Hn; lia).
  destruct (code_at_op3 _ _ _ _ _ _ Hat) as (Hl & Hb & Ho). rewrite hi_lo in Ho by exact Hi.
  assert (Hn' : nthN pool i = Some (VStr name)) by (eapply pool_extends_nth; eassumption).
  pose proof (fun k => exec_incdec o pool funcs fns obj inc k _ _ m i name Hl Hpolls Hb Ho Hn') as St.
  unfold sp_x.
  assert (Heq : sx o fns obj afs (S f) (EPostfix name (if inc then TPlusPlus else TMinusMinus)) m =
    match lookup o obj (menv m) name with
    | Err x => XErr x m
    | Ok v =>
        match incdec_val v (if inc then 1%Z else (-1)%Z) with
        | None => XErr EScript m
        | Some v' =>
            let m1 := set_menv m (env_set (menv m) (trim_dollar name) v') in
            match stk m1 with
            | _ :: s => XNormal (set_stk m1 s)
            | [] => XErr EInternal m1
            end
        end
    end) by (destruct inc; reflexivity).
  rewrite Heq. clear Heq.
  destruct (lookup o obj (menv m) name) as [v|x] eqn:El.
  2:{ eapply ok_fail_step. exact St. }
  destruct (incdec_val v (if inc then 1%Z else (-1)%Z)) as [v'|] eqn:Ev.
  2:{ eapply ok_fail_step. exact St. }
  cbv zeta. cbn [set_menv stk]. destruct (stk m) as [|x s] eqn:Es.
  - eapply ok_fail_step. exact St.
  - apply ok_normal; [exact Hpolls|]. apply runs_to_step. exact St.
Qed.

(* --- operators --- *)

Lemma cc_unary_g : forall e r op F c c1 Q1,
  cstate_ok c -> res_ok c c1 (sp_x r) Q1 ->
  (forall obj f m, sx o fns obj afs (S f) e m =
     then_ (sx o fns obj afs f r m) (fun m1 => pop1s m1 (fun v m2 => pushr m2 (F v)))) ->
  un_step_g o op F -> plain1 op ->
  res_ok c (emit0 op c1) (sp_x e) nonempty.
Proof.
  intros e r op F c c1 Q1 Hc (code1 & E1 & [_ W1] & S1) Heq Hst Hpl.
  assert (Hc1 : cstate_ok c1) by apply E1.
  exists (code1 ++ [op]). split; [|split].
  - eapply emits_trans; [exact E1|]. apply emits_emit0. exact Hc1.
  - split; [split; [pos|nr]|wsolve].
  - intros pool funcs obj main ip m fuel Hsz Hpool Hat Hip Hpolls Hlen HN.
    destruct fuel as [|f]; [exact I|]. unfold sp_x. rewrite Heq.
    cbn [emit0 consts] in Hsz, Hpool.
    eapply ok_ipe.
    + eapply ok_then.
      * eapply (sem_use _ _ _ _ S1 (consts c1)); try eassumption; [pe| |apply Calls_S; exact HN].
        eapply code_at_app_l. exact Hat.
      * intros m1 Hp1. eapply run_un; [exact Hst| |exact Hp1].
        apply code_at_app_r in Hat. exact Hat.
    + pos.
Qed.

Lemma cc_binary_g : forall e l r op F c c1 c2 Q1 Q2,
  cstate_ok c -> res_ok c c1 (sp_x l) Q1 -> res_ok c1 c2 (sp_x r) Q2 ->
  (forall obj f m, sx o fns obj afs (S f) e m =
     then_ (sx o fns obj afs f l m) (fun m1 => then_ (sx o fns obj afs f r m1) (fun m2 =>
       pop2s m2 (fun b a m3 => pushr m3 (F a b))))) ->
  bin_step_g o op F -> plain1 op ->
  res_ok c (emit0 op c2) (sp_x e) nonempty.
Proof.
  intros e l r op F c c1 c2 Q1 Q2 Hc (code1 & E1 & [_ W1] & S1) (code2 & E2 & [_ W2] & S2) Heq Hst Hpl.
  assert (Hc1 : cstate_ok c1) by apply E1.
  assert (Hc2 : cstate_ok c2) by apply E2.
  pose proof (emits_len _ _ _ Hc E1) as L1.
  exists (code1 ++ code2 ++ [op]). split; [|split].
  - eapply emits_trans; [exact E1|]. eapply emits_trans; [exact E2|]. apply emits_emit0. exact Hc2.
  - split; [split; [pos|nr]|wsolve].
  - intros pool funcs obj main ip m fuel Hsz Hpool Hat Hip Hpolls Hlen HN.
    destruct fuel as [|f]; [exact I|]. unfold sp_x. rewrite Heq.
    cbn [emit0 consts] in Hsz, Hpool.
    pose proof (code_at_app_l _ _ _ _ Hat) as A1.
    pose proof (code_at_app_r _ _ _ _ Hat) as A2.
    pose proof (code_at_app_l _ _ _ _ A2) as A2l.
    pose proof (code_at_app_r _ _ _ _ A2) as A3.
    eapply ok_ipe.
    + eapply ok_then.
      * eapply (sem_use _ _ _ _ S1 (consts c2)); try eassumption; [pe|apply Calls_S; exact HN].
      * intros m1 Hp1. eapply ok_then.
        -- eapply (sem_use _ _ _ _ S2 (consts c2)); try eassumption; [pe|lia|apply Calls_S; exact HN].
        -- intros m2 Hp2. eapply run_bin; [exact Hst|exact A3|exact Hp2].
    + pos.
Qed.

(* `l.r`: the code is that of `l[name]`, name the printed form of r; r itself is neither compiled nor run *)
Lemma sx_dot_S : forall obj f l r m,
  sx o fns obj afs (S f) (EInfix TPeriod l r) m =
  then_ (sx o fns obj afs f l m) (fun m1 => pop1s m1 (fun a m2 =>
    pushr m2 (match estr 64 r with Some name => spec_index o a (VStr name) | None => Err ENeedOracle end))).
Proof. reflexivity. Qed.

Lemma cc_dot_g : forall l r name c c1 Q1,
  cstate_ok c -> res_ok c c1 (sp_x l) Q1 -> estr 64 r = Some name ->
  res_ok c (emit0 OpIndex (emit_const (VStr name) c1)) (sp_x (EInfix TPeriod l r)) nonempty.
Proof.
  intros l r name c c1 Q1 Hc R1 Hn.
  assert (Hc1 : cstate_ok c1) by (destruct R1 as (? & E1 & _); apply E1).
  apply (cc_binary_g (EInfix TPeriod l r) l (EStr name) OpIndex (spec_index o) c c1 _ Q1 nonempty Hc R1).
  - apply cc_const_g; [exact Hc1|reflexivity].
  - intros obj f m. rewrite sx_dot_S, Hn.
    destruct f as [|f]; [reflexivity|].
    destruct (sx o fns obj afs (S f) l m) as [m1|v m1|x m1]; try reflexivity. cbn [then_].
    change (sx o fns obj afs (S f) (EStr name) m1) with (XNormal (push m1 (VStr name))). cbn [then_].
    destruct m1 as [s e t p]. destruct s as [|a s]; reflexivity.
  - apply bin_step_g_index.
  - split; [vm_compute; reflexivity|let H := fresh in intro H; vm_compute in H; discriminate H].
Qed.

End Sem.

Local Ltac side := try eassumption; try (solve [pe]); try lia; try (apply Calls_S; eassumption).
Local Ltac at_pos H := eapply code_at_eq; [exact H|pos].

Section Sem2.
Variables (o : stdlib) (fns : fnmap) (afs : aftable).
Notation res_ok := (res_ok o fns afs).
Notation sem := (sem o fns afs).
Notation sp_x := (sp_x o fns afs).
Notation sp_xs := (sp_xs o fns afs).
Notation sp_stmt := (sp_stmt o fns afs).
Notation sp_block := (sp_block o fns afs).

Definition is_fn (e : expr) : bool := match e with EFunction _ _ _ => true | _ => false end.
Definition Qx (e : expr) (code : list N) : Prop := (is_fn e = false -> 1 <= lenN code) /\ noret code.
Definition Qxs (l : list expr) (code : list N) : Prop :=
  (forallb (fun e => negb (is_fn e)) l = true -> lenN l <= lenN code) /\ noret code.

(* statements and blocks: which blocks end in a `return` for the compiler's `last_op` *)
Definition is_ret (s : stmt) : bool := match s with SReturn _ => true | SExpr _ => false end.
Definition is_fn_s (s : stmt) : bool := match s with SExpr e => is_fn e | SReturn _ => false end.
Fixpoint ends_ret (b : list stmt) : bool :=
  match b with
  | [] => false
  | s :: b' => ends_ret b' || (forallb is_fn_s b' && is_ret s)
  end.
Definition Qs (s : stmt) (code : list N) : Prop :=
  match s with
  | SExpr e => (is_fn e = false -> 1 <= lenN code) /\ noret code
  | SReturn _ => 1 <= lenN code
  end.
Definition Qb (b : list stmt) (code : list N) : Prop :=
  (ends_ret b = false -> noret code) /\ (forallb is_fn_s b = false -> 1 <= lenN code).

Lemma res_ok_weaken : forall c c' sp (Q Q' : list N -> Prop),
  res_ok c c' sp Q -> (forall code, Q code -> Q' code) -> res_ok c c' sp Q'.
Proof.
  intros c c' sp Q Q' (code & E & [HQ W] & S) H. exists code.
  split; [exact E|split; [split; [apply H; exact HQ|exact W]|exact S]].
Qed.

Lemma nonempty_Qx : forall e code, nonempty code -> Qx e code.
Proof. intros e code [H1 H2]. split; [intros _; exact H1|exact H2]. Qed.

(* --- assignment --- *)

Lemma run_set_name : forall pool funcs obj main ip rest m name,
  code_at main ip (OpSet :: rest) -> polls m = None ->
  ok o pool funcs fns obj main ip (push m (VStr name))
     (pop1s m (fun x m2 => XNormal (set_menv m2 (env_set (menv m2) (trim_dollar name) (strip_iter x))))) (ip + 1).
Proof.
  intros pool funcs obj main ip rest m name Hat Hp.
  destruct (code_at_op1 _ _ _ _ Hat) as [Hl Hb].
  pose proof (fun k => exec_set o pool funcs fns obj k main ip (push m (VStr name)) Hl Hp Hb) as St.
  cbn [push set_stk stk] in St. unfold pop1s. destruct (stk m) as [|v s] eqn:Es.
  - eapply ok_fail_step. exact St.
  - cbn [name_of inspect] in St. apply ok_normal; [exact Hp|]. apply runs_to_step. exact St.
Qed.

Lemma cc_assign : forall name v c c1 Q1,
  cstate_ok c -> res_ok c c1 (sp_x v) Q1 ->
  res_ok c (emit0 OpSet (emit_const (VStr name) c1)) (sp_x (EAssign name v)) nonempty.
Proof.
  intros name v c c1 Q1 Hc (code1 & E1 & [_ W1] & S1).
  assert (Hc1 : cstate_ok c1) by apply E1.
  destruct (emits_const (VStr name) c1 Hc1) as (i & E2 & Hn).
  set (c2 := emit_const (VStr name) c1) in *.
  assert (Hc2 : cstate_ok c2) by apply E2.
  exists (code1 ++ [OpConstant; hi_byte i; lo_byte i] ++ [OpSet]). split; [|split].
  - eapply emits_trans; [exact E1|]. eapply emits_trans; [exact E2|]. apply emits_emit0. exact Hc2.
  - split; [split; [pos|nr]|wsolve].
  - intros pool funcs obj main ip m fuel Hsz Hpool Hat Hip Hpolls Hlen HN.
    destruct fuel as [|f]; [exact I|]. unfold ProgProofs.sp_x.
    change (sx o fns obj afs (S f) (EAssign name v) m) with
      (then_ (sx o fns obj afs f v m) (fun m1 => pop1s m1 (fun x m2 =>
         XNormal (set_menv m2 (env_set (menv m2) (trim_dollar name) (strip_iter x)))))).
    cbn [emit0 consts] in Hsz, Hpool.
    assert (Hi : i < 65536) by (apply nthN_some_lt in Hn; lia).
    pose proof (code_at_app_l _ _ _ _ Hat) as A1.
    pose proof (code_at_app_r _ _ _ _ Hat) as A2.
    pose proof (code_at_skip3 _ _ _ _ _ _ A2) as A3.
    eapply ok_ipe.
    + eapply ok_then.
      * eapply (sem_use _ _ _ _ _ _ _ S1 (consts c2)); side.
      * intros m1 Hp1. eapply ok_prepend.
        -- eapply run_const; [exact A2|exact Hp1| |exact Hi]. eapply pool_extends_nth; eassumption.
        -- eapply run_set_name; [exact A3|exact Hp1].
    + pos.
Qed.

(* x op= e *)
Lemma cc_mutate : forall bop name r c c1 c2 Q1 Q2 tok,
  cstate_ok c -> res_ok c c1 (sp_x (EIdent name)) Q1 -> res_ok c1 c2 (sp_x r) Q2 ->
  mutator_op tok = Some bop ->
  res_ok c (emit0 OpSet (emit_const (VStr name) (emit0 (opcode_of_binop bop) c2)))
         (sp_x (EInfix tok (EIdent name) r)) nonempty.
Proof.
  intros bop name r c c1 c2 Q1 Q2 tok Hc (code1 & E1 & [_ W1] & S1) (code2 & E2 & [_ W2] & S2) Hm.
  assert (Hc1 : cstate_ok c1) by apply E1.
  assert (Hc2 : cstate_ok c2) by apply E2.
  pose proof (emits_len _ _ _ Hc E1) as L1.
  set (op := opcode_of_binop bop) in *.
  assert (Hop1 : op_len op = 1) by (unfold op; destruct bop; vm_compute; reflexivity).
  pose proof (emits_emit0 op c2 Hc2) as E3.
  set (c3 := emit0 op c2) in *.
  assert (Hc3 : cstate_ok c3) by apply E3.
  destruct (emits_const (VStr name) c3 Hc3) as (i & E4 & Hn).
  set (c4 := emit_const (VStr name) c3) in *.
  assert (Hc4 : cstate_ok c4) by apply E4.
  exists (code1 ++ code2 ++ [op] ++ [OpConstant; hi_byte i; lo_byte i] ++ [OpSet]). split; [|split].
  - eapply emits_trans; [exact E1|]. eapply emits_trans; [exact E2|]. eapply emits_trans; [exact E3|].
    eapply emits_trans; [exact E4|]. apply emits_emit0. exact Hc4.
  - split; [split; [pos|nr]|wsolve].
  - intros pool funcs obj main ip m fuel Hsz Hpool Hat Hip Hpolls Hlen HN.
    destruct fuel as [|f]; [exact I|]. unfold ProgProofs.sp_x.
    assert (Heq : sx o fns obj afs (S f) (EInfix tok (EIdent name) r) m =
      then_ (sx o fns obj afs f (EIdent name) m) (fun m1 => then_ (sx o fns obj afs f r m1) (fun m2 =>
        pop2s m2 (fun b a m3 =>
          match spec_binop o bop a b with
          | Ok v => XNormal (set_menv m3 (env_set (menv m3) (trim_dollar name) v))
          | Err x => XErr x m3
          end)))).
    { destruct tok; try discriminate Hm; cbn [sx]; rewrite Hm; reflexivity. }
    rewrite Heq. clear Heq.
    cbn [emit0 consts] in Hsz, Hpool.
    assert (Hi : i < 65536) by (apply nthN_some_lt in Hn; lia).
    pose proof (code_at_app_l _ _ _ _ Hat) as A1.
    pose proof (code_at_app_r _ _ _ _ Hat) as A2.
    pose proof (code_at_app_l _ _ _ _ A2) as A2l.
    pose proof (code_at_app_r _ _ _ _ A2) as A3.
    pose proof (code_at_skip1 _ _ _ _ A3) as A4.
    pose proof (code_at_skip3 _ _ _ _ _ _ A4) as A5.
    eapply ok_ipe.
    + eapply ok_then.
      * eapply (sem_use _ _ _ _ _ _ _ S1 (consts c4)); side.
      * intros m1 Hp1. eapply ok_then.
        -- eapply (sem_use _ _ _ _ _ _ _ S2 (consts c4)); side.
        -- intros m2 Hp2.
           destruct (code_at_op1 _ _ _ _ A3) as [Hl Hb].
           pose proof (fun k => exec_binop_g o pool funcs fns obj bop k main _ m2 Hl Hp2 Hb) as St.
           unfold pop2s. destruct (stk m2) as [|b [|a s]] eqn:Es.
           ++ eapply ok_fail_step. exact St.
           ++ eapply ok_fail_step. exact St.
           ++ rewrite <- OpsProofs.binop_table.
              destruct (vm_binop o bop a b) as [w|x] eqn:Eb.
              2:{ eapply ok_fail_step. exact St. }
              eapply ok_step; [exact St|].
              eapply ok_prepend.
              ** eapply run_const; [exact A4|exact Hp2| |exact Hi]. eapply pool_extends_nth; eassumption.
              ** assert (Hw : strip_iter w = w).
                 { eapply arith_no_iter; [exact Eb|]. destruct tok; try discriminate Hm; injection Hm as <-; exact I. }
                 pose proof (run_set_name pool funcs obj main _ _ (set_stk m2 (w :: s)) name A5 Hp2) as R.
                 unfold pop1s in R. cbn [set_stk stk] in R. rewrite Hw in R. exact R.
    + pos.
Qed.

(* --- lists of expressions, array literals --- *)

Lemma cc_exprs_nil : forall c, cstate_ok c -> res_ok c c (sp_xs []) (Qxs []).
Proof.
  intros c Hc. exists []. split; [apply emits_refl; exact Hc|split; [split; [split; [intros _; pos|apply noret_nil]|apply wfc_nil]|]].
  intros pool funcs obj main ip m fuel Hsz Hpool Hat Hip Hpolls Hlen HN.
  destruct fuel as [|f]; [exact I|].
  eapply ok_ipe; [apply ok_normal; [exact Hpolls|apply runs_to_refl]|pos].
Qed.

Lemma cc_exprs_cons : forall e l c c1 c2,
  cstate_ok c -> res_ok c c1 (sp_x e) (Qx e) -> res_ok c1 c2 (sp_xs l) (Qxs l) ->
  res_ok c c2 (sp_xs (e :: l)) (Qxs (e :: l)).
Proof.
  intros e l c c1 c2 Hc (code1 & E1 & [HQ1 W1] & S1) (code2 & E2 & [HQ2 W2] & S2).
  pose proof (emits_len _ _ _ Hc E1) as L1.
  exists (code1 ++ code2). split; [|split].
  - eapply emits_trans; eassumption.
  - destruct HQ1 as [HQ1 N1]. destruct HQ2 as [HQ2 N2]. split; [split|wsolve].
    + intros H. cbn [forallb] in H. apply andb_true_iff in H. destruct H as [H1 H2].
      apply negb_true_iff in H1. specialize (HQ1 H1). specialize (HQ2 H2). pos.
    + apply noret_app; assumption.
  - intros pool funcs obj main ip m fuel Hsz Hpool Hat Hip Hpolls Hlen HN.
    destruct fuel as [|f]; [exact I|]. unfold ProgProofs.sp_xs.
    change (sxs o fns obj afs (S f) (e :: l) m) with
      (then_ (sx o fns obj afs f e m) (fun m1 => sxs o fns obj afs f l m1)).
    pose proof (code_at_app_l _ _ _ _ Hat) as A1.
    pose proof (code_at_app_r _ _ _ _ Hat) as A2.
    eapply ok_ipe.
    + eapply ok_then.
      * eapply (sem_use _ _ _ _ _ _ _ S1 (consts c2)); side.
      * intros m1 Hp1. eapply (sem_use _ _ _ _ _ _ _ S2 (consts c2)); side.
    + pos.
Qed.


Lemma cc_array : forall l c c1,
  cstate_ok c -> res_ok c c1 (sp_xs l) (Qxs l) -> lenN l < 65536 ->
  res_ok c (emit1' OpArray (lenN l) c1) (sp_x (EArray l)) nonempty.
Proof.
  intros l c c1 Hc (code1 & E1 & [HQ1 W1] & S1) Hl16.
  assert (Hc1 : cstate_ok c1) by apply E1.
  exists (code1 ++ [OpArray; hi_byte (lenN l); lo_byte (lenN l)]). split; [|split].
  - eapply emits_trans; [exact E1|]. apply emits_emit1. exact Hc1.
  - split; [split; [pos|nr]|wsolve].
  - intros pool funcs obj main ip m fuel Hsz Hpool Hat Hip Hpolls Hlen HN.
    destruct fuel as [|f]; [exact I|]. unfold ProgProofs.sp_x.
    change (sx o fns obj afs (S f) (EArray l) m) with
      (then_ (sxs o fns obj afs f l m) (fun m1 =>
         match pop_n (List.length l) (stk m1) [] with
         | Some (elems, s) => XNormal (set_stk m1 (VArray elems :: s))
         | None => XErr EInternal m1
         end)).
    cbn [emit1' emit1 snd consts] in Hsz, Hpool.
    pose proof (code_at_app_l _ _ _ _ Hat) as A1.
    pose proof (code_at_app_r _ _ _ _ Hat) as A2.
    pose proof (code_at_end _ _ _ Hat) as Hend.
    eapply ok_ipe.
    + eapply ok_then'.
      * eapply (sem_use _ _ _ _ _ _ _ S1 (consts c1)); side.
      * intros m1 Hn1 Hp1.
        destruct (code_at_op3 _ _ _ _ _ _ A2) as (Hl & Hb & Ho). rewrite hi_lo in Ho by exact Hl16.
        pose proof (fun k => exec_array_g o pool funcs fns obj k main _ m1 (lenN l) Hl Hp1 Hb Ho) as St.
        unfold lenN in St at 2. rewrite Nat2N.id in St.
        destruct (pop_n (List.length l) (stk m1) []) as [[elems s]|].
        -- apply ok_normal; [exact Hp1|]. apply runs_to_step. exact St.
        -- eapply ok_fail_step. exact St.
    + pos.
Qed.

(* --- statements and blocks --- *)

Lemma cc_stmt_expr : forall e c c', res_ok c c' (sp_x e) (Qx e) -> res_ok c c' (sp_stmt (SExpr e)) (Qs (SExpr e)).
Proof.
  intros e c c' (code & E & [HQ W] & S). exists code. split; [exact E|split; [split; [exact HQ|exact W]|]].
  intros pool funcs obj main ip m fuel Hsz Hpool Hat Hip Hpolls Hlen HN.
  destruct fuel as [|f]; [exact I|]. apply S; try assumption. apply Calls_S; exact HN.
Qed.

Lemma cc_stmt_return : forall e c c1 Q,
  cstate_ok c -> res_ok c c1 (sp_x e) Q -> res_ok c (emit0 OpReturn c1) (sp_stmt (SReturn e)) (Qs (SReturn e)).
Proof.
  intros e c c1 Q Hc (code1 & E1 & [_ W1] & S1).
  assert (Hc1 : cstate_ok c1) by apply E1.
  exists (code1 ++ [OpReturn]). split; [|split].
  - eapply emits_trans; [exact E1|]. apply emits_emit0. exact Hc1.
  - split; [cbn [Qs]; pos|wsolve].
  - intros pool funcs obj main ip m fuel Hsz Hpool Hat Hip Hpolls Hlen HN.
    destruct fuel as [|f]; [exact I|]. unfold ProgProofs.sp_stmt.
    change (sstmt o fns obj afs (S f) (SReturn e) m) with
      (then_ (sx o fns obj afs f e m) (fun m1 => pop1s m1 (fun v m2 => XReturn v m2))).
    cbn [emit0 consts] in Hsz, Hpool.
    pose proof (code_at_app_l _ _ _ _ Hat) as A1.
    pose proof (code_at_app_r _ _ _ _ Hat) as A2.
    eapply ok_then.
    + eapply (sem_use _ _ _ _ _ _ _ S1 (consts c1)); side.
    + intros m1 Hp1. destruct (code_at_op1 _ _ _ _ A2) as [Hl Hb].
      pose proof (fun k => exec_return o pool funcs fns obj k main _ m1 Hl Hp1 Hb) as St.
      unfold pop1s. destruct (stk m1) as [|v s] eqn:Es.
      * eapply ok_fail_step. exact St.
      * split; [exact Hp1|]. exists 1%nat. intro k. apply St.
Qed.

Lemma cc_block_nil : forall c, cstate_ok c -> res_ok c c (sp_block []) (Qb []).
Proof.
  intros c Hc. exists []. split; [apply emits_refl; exact Hc|split; [split; [split; [intros _; apply noret_nil|intro H; discriminate H]|apply wfc_nil]|]].
  intros pool funcs obj main ip m fuel Hsz Hpool Hat Hip Hpolls Hlen HN.
  destruct fuel as [|f]; [exact I|].
  eapply ok_ipe; [apply ok_normal; [exact Hpolls|apply runs_to_refl]|pos].
Qed.

Lemma cc_block_cons : forall s b c c1 c2,
  cstate_ok c -> res_ok c c1 (sp_stmt s) (Qs s) -> res_ok c1 c2 (sp_block b) (Qb b) ->
  res_ok c c2 (sp_block (s :: b)) (Qb (s :: b)).
Proof.
  intros s b c c1 c2 Hc (code1 & E1 & [HQ1 W1] & S1) (code2 & E2 & [[HQ2 HQ2'] W2] & S2).
  pose proof (emits_len _ _ _ Hc E1) as L1.
  exists (code1 ++ code2). split; [|split].
  - eapply emits_trans; eassumption.
  - split; [split|wsolve].
    + cbn [ends_ret]. intro H. apply orb_false_iff in H. destruct H as [H1 H2].
      specialize (HQ2 H1). destruct s as [e|e]; cbn [Qs is_ret] in *.
      * rewrite andb_true_r in H2. specialize (HQ2' H2).
        apply wfc_noret_app; assumption.
      * apply noret_app; [apply HQ1|exact HQ2].
    + cbn [forallb]. intro H. apply andb_false_iff in H. destruct H as [H|H].
      * destruct s as [e|e]; cbn [Qs is_fn_s] in *; [pos|]. destruct HQ1 as [HQ1 _]. specialize (HQ1 H). pos.
      * specialize (HQ2' H). pos.
  - intros pool funcs obj main ip m fuel Hsz Hpool Hat Hip Hpolls Hlen HN.
    destruct fuel as [|f]; [exact I|]. unfold ProgProofs.sp_block.
    change (sblock o fns obj afs (S f) (s :: b) m) with
      (then_ (sstmt o fns obj afs f s m) (fun m1 => sblock o fns obj afs f b m1)).
    pose proof (code_at_app_l _ _ _ _ Hat) as A1.
    pose proof (code_at_app_r _ _ _ _ Hat) as A2.
    eapply ok_ipe.
    + eapply ok_then.
      * eapply (sem_use _ _ _ _ _ _ _ S1 (consts c2)); side.
      * intros m1 Hp1. eapply (sem_use _ _ _ _ _ _ _ S2 (consts c2)); side.
    + pos.
Qed.

End Sem2.
(* ------------------------------------------------------------------ *)
(* PART E: conditionals and the while loop *)

Section Sem3.
Variables (o : stdlib) (fns : fnmap) (afs : aftable).
Notation res_ok := (res_ok o fns afs).
Notation sem := (sem o fns afs).
Notation sp_x := (sp_x o fns afs).
Notation sp_xs := (sp_xs o fns afs).
Notation sp_stmt := (sp_stmt o fns afs).
Notation sp_block := (sp_block o fns afs).

Lemma cc_if_none : forall cond cns c c1 c3 Q1 Q3,
  cstate_ok c -> res_ok c c1 (sp_x cond) Q1 ->
  res_ok (emit1' OpJumpIfFalse 9999 c1) c3 (sp_block cns) Q3 ->
  res_ok c (emit0 OpPlaceholder (patch (clen c1) (clen c3) c3)) (sp_x (EIf cond cns None)) nonempty.
Proof.
  intros cond cns c c1 c3 Q1 Q3 Hc (code1 & E1 & [_ W1] & S1) (code3 & E3 & [_ W3] & S3).
  assert (Hc1 : cstate_ok c1) by apply E1.
  pose proof (emits_emit1 OpJumpIfFalse 9999 c1 Hc1) as E2.
  set (c2 := emit1' OpJumpIfFalse 9999 c1) in *.
  assert (Hc2 : cstate_ok c2) by apply E2.
  pose proof (emits_len _ _ _ Hc E1) as L1.
  pose proof (emits_len _ _ _ Hc1 E2) as L2.
  pose proof (emits_len _ _ _ Hc2 E3) as L3.
  set (T := clen c3) in *.
  assert (E13 : emits c c3 (code1 ++ OpJumpIfFalse :: hi_byte 9999 :: lo_byte 9999 :: code3)).
  { eapply emits_eq; [eapply emits_trans; [exact E1|eapply emits_trans; [exact E2|exact E3]]|leq]. }
  destruct (patch_emits c c3 code1 _ _ _ code3 (clen c1) T Hc E13 L1) as (E4 & L4 & CS4).
  set (c4 := patch (clen c1) T c3) in *.
  assert (Hc4 : cstate_ok c4) by apply E4.
  exists (code1 ++ [OpJumpIfFalse; hi_byte T; lo_byte T] ++ code3 ++ [OpPlaceholder]). split; [|split].
  - eapply emits_eq; [eapply emits_trans; [exact E4|apply emits_emit0; exact Hc4]|leq].
  - split; [split; [pos|nr]|wsolve].
  - intros pool funcs obj main ip m fuel Hsz Hpool Hat Hip Hpolls Hlen HN.
    destruct fuel as [|f]; [exact I|]. unfold ProgProofs.sp_x.
    change (sx o fns obj afs (S f) (EIf cond cns None) m) with
      (then_ (sx o fns obj afs f cond m) (fun m1 => pop1s m1 (fun v m2 =>
         if truthy v then sblock o fns obj afs f cns m2 else XNormal m2))).
    cbn [emit0 consts] in Hsz, Hpool. rewrite CS4 in Hsz, Hpool.
    pose proof (code_at_end _ _ _ Hat) as Hend.
    pose proof (code_at_app_l _ _ _ _ Hat) as A1.
    pose proof (code_at_app_r _ _ _ _ Hat) as A2.
    pose proof (code_at_app_r _ _ _ _ A2) as A3.
    pose proof (code_at_app_l _ _ _ _ A3) as A3l.
    pose proof (code_at_app_r _ _ _ _ A3) as A4.
    change (lenN [OpJumpIfFalse; hi_byte T; lo_byte T]) with 3 in *.
    change (lenN [OpJumpIfFalse; hi_byte 9999; lo_byte 9999]) with 3 in *.
    assert (HT : T = ip + lenN code1 + 3 + lenN code3) by lia.
    eapply ok_ipe.
    + eapply ok_then.
      * eapply (sem_use _ _ _ _ _ _ _ S1 (consts c3)); side.
      * intros m1 Hp1.
        eapply (run_jif o pool funcs fns obj main _ T _ m1 _
                  (fun m2 => sblock o fns obj afs f cns m2) (fun m2 => XNormal m2) A2 Hp1); [pos|exact Hlen| |].
        -- intros m2 Hp2. eapply ok_end.
           ++ eapply (sem_use _ _ _ _ _ _ _ S3 (consts c3)); side.
           ++ intros m3 Hp3. eapply run_ph; [exact A4|exact Hp3].
        -- intros m2 Hp2. apply ok_normal; [exact Hp2|].
           eapply rt_pos; [eapply run_ph; [exact A4|exact Hp2]|lia|reflexivity].
    + pos.
Qed.

Lemma cc_if_else : forall cond cns alt c c1 c3 c7 Q1 Q3 Q7,
  cstate_ok c -> res_ok c c1 (sp_x cond) Q1 ->
  res_ok (emit1' OpJumpIfFalse 9999 c1) c3 (sp_block cns) Q3 ->
  let c4 := patch (clen c1) (clen c3) c3 in
  let c5 := emit1' OpJump 9999 c4 in
  let c6 := patch (clen c1) (clen c5) c5 in
  res_ok c6 c7 (sp_block alt) Q7 ->
  res_ok c (emit0 OpPlaceholder (patch (clen c4) (clen c7) c7)) (sp_x (EIf cond cns (Some alt))) nonempty.
Proof.
  intros cond cns alt c c1 c3 c7 Q1 Q3 Q7 Hc (code1 & E1 & [_ W1] & S1) (code3 & E3 & [_ W3] & S3) c4 c5 c6
         (code7 & E7 & [_ W7] & S7).
  assert (Hc1 : cstate_ok c1) by apply E1.
  pose proof (emits_emit1 OpJumpIfFalse 9999 c1 Hc1) as E2.
  set (c2 := emit1' OpJumpIfFalse 9999 c1) in *.
  assert (Hc2 : cstate_ok c2) by apply E2.
  pose proof (emits_len _ _ _ Hc E1) as L1.
  pose proof (emits_len _ _ _ Hc1 E2) as L2.
  pose proof (emits_len _ _ _ Hc2 E3) as L3.
  assert (E13 : emits c c3 (code1 ++ OpJumpIfFalse :: hi_byte 9999 :: lo_byte 9999 :: code3)).
  { eapply emits_eq; [eapply emits_trans; [exact E1|eapply emits_trans; [exact E2|exact E3]]|leq]. }
  destruct (patch_emits c c3 code1 _ _ _ code3 (clen c1) (clen c3) Hc E13 L1) as (E4 & L4 & CS4).
  fold c4 in E4, L4, CS4.
  assert (Hc4 : cstate_ok c4) by apply E4.
  pose proof (emits_emit1 OpJump 9999 c4 Hc4) as E5. fold c5 in E5.
  assert (Hc5 : cstate_ok c5) by apply E5.
  pose proof (emits_len _ _ _ Hc4 E5) as L5.
  set (T1 := clen c5) in *.
  assert (E15 : emits c c5 (code1 ++ OpJumpIfFalse :: hi_byte (clen c3) :: lo_byte (clen c3) ::
                              (code3 ++ [OpJump; hi_byte 9999; lo_byte 9999]))).
  { eapply emits_eq; [eapply emits_trans; [exact E4|exact E5]|leq]. }
  destruct (patch_emits c c5 code1 _ _ _ _ (clen c1) T1 Hc E15 L1) as (E6 & L6 & CS6).
  fold c6 in E6, L6, CS6.
  assert (Hc6 : cstate_ok c6) by apply E6.
  pose proof (emits_len _ _ _ Hc6 E7) as L7.
  set (T2 := clen c7) in *.
  assert (E17 : emits c c7 ((code1 ++ [OpJumpIfFalse; hi_byte T1; lo_byte T1] ++ code3) ++
                            OpJump :: hi_byte 9999 :: lo_byte 9999 :: code7)).
  { eapply emits_eq; [eapply emits_trans; [exact E6|exact E7]|leq]. }
  destruct (patch_emits c c7 _ _ _ _ code7 (clen c4) T2 Hc E17) as (E8 & L8 & CS8).
  { rewrite L4, L3, L2, L1. change (lenN [OpJumpIfFalse; hi_byte 9999; lo_byte 9999]) with 3. pos. }
  set (c8 := patch (clen c4) T2 c7) in *.
  assert (Hc8 : cstate_ok c8) by apply E8.
  exists (code1 ++ [OpJumpIfFalse; hi_byte T1; lo_byte T1] ++ code3 ++
          [OpJump; hi_byte T2; lo_byte T2] ++ code7 ++ [OpPlaceholder]). split; [|split].
  - eapply emits_eq; [eapply emits_trans; [exact E8|apply emits_emit0; exact Hc8]|leq].
  - split; [split; [pos|nr]|wsolve].
  - intros pool funcs obj main ip m fuel Hsz Hpool Hat Hip Hpolls Hlen HN.
    destruct fuel as [|f]; [exact I|]. unfold ProgProofs.sp_x.
    change (sx o fns obj afs (S f) (EIf cond cns (Some alt)) m) with
      (then_ (sx o fns obj afs f cond m) (fun m1 => pop1s m1 (fun v m2 =>
         if truthy v then sblock o fns obj afs f cns m2 else sblock o fns obj afs f alt m2))).
    cbn [emit0 consts] in Hsz, Hpool. rewrite CS8 in Hsz, Hpool.
    assert (P3 : pool_extends (consts c3) (consts c7)).
    { rewrite <- CS4. change (consts c4) with (consts c5). rewrite <- CS6. pe. }
    pose proof (code_at_end _ _ _ Hat) as Hend.
    pose proof (code_at_app_l _ _ _ _ Hat) as A1.
    pose proof (code_at_app_r _ _ _ _ Hat) as A2.
    pose proof (code_at_app_r _ _ _ _ A2) as A3.
    pose proof (code_at_app_l _ _ _ _ A3) as A3l.
    pose proof (code_at_app_r _ _ _ _ A3) as A4.
    pose proof (code_at_app_r _ _ _ _ A4) as A5.
    pose proof (code_at_app_l _ _ _ _ A5) as A5l.
    pose proof (code_at_app_r _ _ _ _ A5) as A6.
    change (lenN [OpJumpIfFalse; hi_byte T1; lo_byte T1]) with 3 in *.
    change (lenN [OpJump; hi_byte T2; lo_byte T2]) with 3 in *.
    change (lenN [OpJumpIfFalse; hi_byte 9999; lo_byte 9999]) with 3 in *.
    change (lenN [OpJump; hi_byte 9999; lo_byte 9999]) with 3 in *.
    assert (HT1 : T1 = ip + lenN code1 + 3 + lenN code3 + 3) by lia.
    assert (HT2 : T2 = T1 + lenN code7) by lia.
    eapply ok_ipe.
    + eapply ok_then.
      * eapply (sem_use _ _ _ _ _ _ _ S1 (consts c7)); side.
      * intros m1 Hp1.
        eapply (run_jif o pool funcs fns obj main _ T1 _ m1 _
                  (fun m2 => sblock o fns obj afs f cns m2) (fun m2 => sblock o fns obj afs f alt m2) A2 Hp1);
          [pos|exact Hlen| |].
        -- intros m2 Hp2. eapply ok_end.
           ++ eapply (sem_use _ _ _ _ _ _ _ S3 (consts c7)); side.
           ++ intros m3 Hp3. eapply runs_to_trans.
              ** eapply (run_jump o pool funcs fns obj main _ T2); [exact A4|exact Hp3|pos|exact Hlen].
              ** eapply rt_pos; [eapply run_ph; [exact A6|exact Hp3]|lia|reflexivity].
        -- intros m2 Hp2. eapply ok_end.
           ++ eapply (sem_use _ _ _ _ _ _ _ S7 (consts c7)); side; at_pos A5l.
           ++ intros m3 Hp3. eapply rt_pos; [eapply run_ph; [exact A6|exact Hp3]|lia|lia].
    + pos.
Qed.

Lemma cc_ternary : forall cond t e' c c1 c3 c6 Q1 Q3 Q6,
  cstate_ok c -> res_ok c c1 (sp_x cond) Q1 ->
  res_ok (emit1' OpJumpIfFalse 9999 c1) c3 (sp_x t) Q3 ->
  let c4 := emit1' OpJump 9999 c3 in
  let c5 := patch (clen c1) (clen c4) c4 in
  res_ok c5 c6 (sp_x e') Q6 ->
  res_ok c (emit0 OpPlaceholder (patch (clen c3) (clen c6) c6)) (sp_x (ETernary cond t e')) nonempty.
Proof.
  intros cond t e' c c1 c3 c6 Q1 Q3 Q6 Hc (code1 & E1 & [_ W1] & S1) (code3 & E3 & [_ W3] & S3) c4 c5
         (code6 & E6 & [_ W6] & S6).
  assert (Hc1 : cstate_ok c1) by apply E1.
  pose proof (emits_emit1 OpJumpIfFalse 9999 c1 Hc1) as E2.
  set (c2 := emit1' OpJumpIfFalse 9999 c1) in *.
  assert (Hc2 : cstate_ok c2) by apply E2.
  assert (Hc3 : cstate_ok c3) by apply E3.
  pose proof (emits_len _ _ _ Hc E1) as L1.
  pose proof (emits_len _ _ _ Hc1 E2) as L2.
  pose proof (emits_len _ _ _ Hc2 E3) as L3.
  pose proof (emits_emit1 OpJump 9999 c3 Hc3) as E4. fold c4 in E4.
  assert (Hc4 : cstate_ok c4) by apply E4.
  pose proof (emits_len _ _ _ Hc3 E4) as L4.
  set (T1 := clen c4) in *.
  assert (E14 : emits c c4 (code1 ++ OpJumpIfFalse :: hi_byte 9999 :: lo_byte 9999 ::
                              (code3 ++ [OpJump; hi_byte 9999; lo_byte 9999]))).
  { eapply emits_eq; [eapply emits_trans; [exact E1|eapply emits_trans; [exact E2|
      eapply emits_trans; [exact E3|exact E4]]]|leq]. }
  destruct (patch_emits c c4 code1 _ _ _ _ (clen c1) T1 Hc E14 L1) as (E5 & L5 & CS5).
  fold c5 in E5, L5, CS5.
  assert (Hc5 : cstate_ok c5) by apply E5.
  pose proof (emits_len _ _ _ Hc5 E6) as L6.
  set (T2 := clen c6) in *.
  assert (E16 : emits c c6 ((code1 ++ [OpJumpIfFalse; hi_byte T1; lo_byte T1] ++ code3) ++
                            OpJump :: hi_byte 9999 :: lo_byte 9999 :: code6)).
  { eapply emits_eq; [eapply emits_trans; [exact E5|exact E6]|leq]. }
  destruct (patch_emits c c6 _ _ _ _ code6 (clen c3) T2 Hc E16) as (E7 & L7 & CS7).
  { rewrite L3, L2, L1. change (lenN [OpJumpIfFalse; hi_byte 9999; lo_byte 9999]) with 3. pos. }
  set (c7 := patch (clen c3) T2 c6) in *.
  assert (Hc7 : cstate_ok c7) by apply E7.
  exists (code1 ++ [OpJumpIfFalse; hi_byte T1; lo_byte T1] ++ code3 ++
          [OpJump; hi_byte T2; lo_byte T2] ++ code6 ++ [OpPlaceholder]). split; [|split].
  - eapply emits_eq; [eapply emits_trans; [exact E7|apply emits_emit0; exact Hc7]|leq].
  - split; [split; [pos|nr]|wsolve].
  - intros pool funcs obj main ip m fuel Hsz Hpool Hat Hip Hpolls Hlen HN.
    destruct fuel as [|f]; [exact I|]. unfold ProgProofs.sp_x.
    change (sx o fns obj afs (S f) (ETernary cond t e') m) with
      (then_ (sx o fns obj afs f cond m) (fun m1 => pop1s m1 (fun v m2 =>
         if truthy v then sx o fns obj afs f t m2 else sx o fns obj afs f e' m2))).
    cbn [emit0 consts] in Hsz, Hpool. rewrite CS7 in Hsz, Hpool.
    assert (P3 : pool_extends (consts c3) (consts c6)).
    { change (consts c3) with (consts c4). rewrite <- CS5. pe. }
    pose proof (code_at_end _ _ _ Hat) as Hend.
    pose proof (code_at_app_l _ _ _ _ Hat) as A1.
    pose proof (code_at_app_r _ _ _ _ Hat) as A2.
    pose proof (code_at_app_r _ _ _ _ A2) as A3.
    pose proof (code_at_app_l _ _ _ _ A3) as A3l.
    pose proof (code_at_app_r _ _ _ _ A3) as A4.
    pose proof (code_at_app_r _ _ _ _ A4) as A5.
    pose proof (code_at_app_l _ _ _ _ A5) as A5l.
    pose proof (code_at_app_r _ _ _ _ A5) as A6.
    change (lenN [OpJumpIfFalse; hi_byte T1; lo_byte T1]) with 3 in *.
    change (lenN [OpJump; hi_byte T2; lo_byte T2]) with 3 in *.
    change (lenN [OpJumpIfFalse; hi_byte 9999; lo_byte 9999]) with 3 in *.
    change (lenN [OpJump; hi_byte 9999; lo_byte 9999]) with 3 in *.
    assert (HT1 : T1 = ip + lenN code1 + 3 + lenN code3 + 3) by lia.
    assert (HT2 : T2 = T1 + lenN code6) by lia.
    eapply ok_ipe.
    + eapply ok_then.
      * eapply (sem_use _ _ _ _ _ _ _ S1 (consts c6)); side.
      * intros m1 Hp1.
        eapply (run_jif o pool funcs fns obj main _ T1 _ m1 _
                  (fun m2 => sx o fns obj afs f t m2) (fun m2 => sx o fns obj afs f e' m2) A2 Hp1);
          [pos|exact Hlen| |].
        -- intros m2 Hp2. eapply ok_end.
           ++ eapply (sem_use _ _ _ _ _ _ _ S3 (consts c6)); side.
           ++ intros m3 Hp3. eapply runs_to_trans.
              ** eapply (run_jump o pool funcs fns obj main _ T2); [exact A4|exact Hp3|pos|exact Hlen].
              ** eapply rt_pos; [eapply run_ph; [exact A6|exact Hp3]|lia|reflexivity].
        -- intros m2 Hp2. eapply ok_end.
           ++ eapply (sem_use _ _ _ _ _ _ _ S6 (consts c6)); side; at_pos A5l.
           ++ intros m3 Hp3. eapply rt_pos; [eapply run_ph; [exact A6|exact Hp3]|lia|lia].
    + pos.
Qed.

Lemma cc_while : forall cond body c c1 c3 Q1 Q3,
  cstate_ok c -> res_ok c c1 (sp_x cond) Q1 ->
  res_ok (emit1' OpJumpIfFalse 9999 c1) c3 (sp_block body) Q3 ->
  let c4 := emit1' OpJump (clen c) c3 in
  res_ok c (emit0 OpPlaceholder (patch (clen c1) (clen c4) c4)) (sp_x (EWhile cond body)) nonempty.
Proof.
  intros cond body c c1 c3 Q1 Q3 Hc (code1 & E1 & [_ W1] & S1) (code3 & E3 & [_ W3] & S3) c4.
  assert (Hc1 : cstate_ok c1) by apply E1.
  pose proof (emits_emit1 OpJumpIfFalse 9999 c1 Hc1) as E2.
  set (c2 := emit1' OpJumpIfFalse 9999 c1) in *.
  assert (Hc2 : cstate_ok c2) by apply E2.
  assert (Hc3 : cstate_ok c3) by apply E3.
  pose proof (emits_len _ _ _ Hc E1) as L1.
  pose proof (emits_len _ _ _ Hc1 E2) as L2.
  pose proof (emits_len _ _ _ Hc2 E3) as L3.
  pose proof (emits_emit1 OpJump (clen c) c3 Hc3) as E4. fold c4 in E4.
  assert (Hc4 : cstate_ok c4) by apply E4.
  pose proof (emits_len _ _ _ Hc3 E4) as L4.
  set (T := clen c4) in *. set (S0 := clen c) in *.
  assert (E14 : emits c c4 (code1 ++ OpJumpIfFalse :: hi_byte 9999 :: lo_byte 9999 ::
                              (code3 ++ [OpJump; hi_byte S0; lo_byte S0]))).
  { eapply emits_eq; [eapply emits_trans; [exact E1|eapply emits_trans; [exact E2|
      eapply emits_trans; [exact E3|exact E4]]]|leq]. }
  destruct (patch_emits c c4 code1 _ _ _ _ (clen c1) T Hc E14 L1) as (E5 & L5 & CS5).
  set (c5 := patch (clen c1) T c4) in *.
  assert (Hc5 : cstate_ok c5) by apply E5.
  exists (code1 ++ [OpJumpIfFalse; hi_byte T; lo_byte T] ++ code3 ++
          [OpJump; hi_byte S0; lo_byte S0] ++ [OpPlaceholder]). split; [|split].
  - eapply emits_eq; [eapply emits_trans; [exact E5|apply emits_emit0; exact Hc5]|leq].
  - split; [split; [pos|nr]|wsolve].
  - intros pool funcs obj main ip m fuel Hsz Hpool Hat Hip Hpolls Hlen HN.
    destruct fuel as [|f]; [exact I|]. unfold ProgProofs.sp_x.
    change (sx o fns obj afs (S f) (EWhile cond body) m) with (swhile o fns obj afs f cond body m).
    cbn [emit0 consts] in Hsz, Hpool. rewrite CS5 in Hsz, Hpool.
    change (consts c4) with (consts c3) in Hsz, Hpool.
    pose proof (code_at_end _ _ _ Hat) as Hend.
    pose proof (code_at_app_l _ _ _ _ Hat) as A1.
    pose proof (code_at_app_r _ _ _ _ Hat) as A2.
    pose proof (code_at_app_r _ _ _ _ A2) as A3.
    pose proof (code_at_app_l _ _ _ _ A3) as A3l.
    pose proof (code_at_app_r _ _ _ _ A3) as A4.
    pose proof (code_at_app_r _ _ _ _ A4) as A5.
    change (lenN [OpJumpIfFalse; hi_byte T; lo_byte T]) with 3 in *.
    change (lenN [OpJump; hi_byte S0; lo_byte S0]) with 3 in *.
    change (lenN [OpJumpIfFalse; hi_byte 9999; lo_byte 9999]) with 3 in *.
    assert (HT : T = ip + lenN code1 + 3 + lenN code3 + 3) by lia.
    match goal with |- ok _ _ _ _ _ _ _ _ _ ?e => set (ipe := e) end.
    assert (Hipe : ipe = T + 1) by (unfold ipe; pos).
    clearbody ipe.
    apply Calls_S in HN.
    revert m Hpolls. induction f as [|n IH]; intros m Hpolls; [exact I|].
    change (swhile o fns obj afs (S n) cond body m) with
      (then_ (sx o fns obj afs n cond m) (fun m1 => pop1s m1 (fun v m2 =>
         if truthy v then then_ (sblock o fns obj afs n body m2) (fun m3 => swhile o fns obj afs n cond body m3)
         else XNormal m2))).
    eapply ok_then.
      * eapply (sem_use _ _ _ _ _ _ _ S1 (consts c3)); side.
      * intros m1 Hp1.
        eapply (run_jif o pool funcs fns obj main _ T _ m1 _
                  (fun m2 => then_ (sblock o fns obj afs n body m2) (fun m3 => swhile o fns obj afs n cond body m3))
                  (fun m2 => XNormal m2) A2 Hp1); [pos|exact Hlen| |].
        -- intros m2 Hp2. eapply ok_then.
           ++ eapply (sem_use _ _ _ _ _ _ _ S3 (consts c3)); side.
           ++ intros m3 Hp3. eapply ok_prepend.
              ** eapply (run_jump o pool funcs fns obj main _ S0); [exact A4|exact Hp3|pos|exact Hlen].
              ** eapply ok_ip; [apply IH; [apply Calls_S; exact HN|exact Hp3]|lia].
        -- intros m2 Hp2. apply ok_normal; [exact Hp2|].
           eapply rt_pos; [eapply run_ph; [exact A5|exact Hp2]|lia|lia].
Qed.

End Sem3.
(* ------------------------------------------------------------------ *)
(* PART G: calls of built-in and host functions *)

Section Sem4.
Variables (o : stdlib) (fns : fnmap) (afs : aftable).
Notation res_ok := (res_ok o fns afs).
Notation sem := (sem o fns afs).
Notation sp_x := (sp_x o fns afs).
Notation sp_xs := (sp_xs o fns afs).
Notation sp_stmt := (sp_stmt o fns afs).
Notation sp_block := (sp_block o fns afs).

Lemma cc_call : forall fn args name c c1,
  cstate_ok c -> res_ok c c1 (sp_xs args) (Qxs args) -> estr 64 fn = Some name -> lenN args < 65536 ->
  res_ok c (emit1' OpCall (lenN args) (emit_const (VStr name) c1)) (sp_x (ECall fn args)) nonempty.
Proof.
  intros fn args name c c1 Hc (code1 & E1 & [HQ1 W1] & S1) Hes Hl16.
  assert (Hc1 : cstate_ok c1) by apply E1.
  destruct (emits_const (VStr name) c1 Hc1) as (i & E2 & Hn).
  set (c2 := emit_const (VStr name) c1) in *.
  assert (Hc2 : cstate_ok c2) by apply E2.
  set (n := lenN args) in *.
  exists (code1 ++ [OpConstant; hi_byte i; lo_byte i] ++ [OpCall; hi_byte n; lo_byte n]). split; [|split].
  - eapply emits_trans; [exact E1|]. eapply emits_trans; [exact E2|]. apply emits_emit1. exact Hc2.
  - split; [split; [pos|nr]|wsolve].
  - intros pool funcs obj main ip m fuel Hsz Hpool Hat Hip Hpolls Hlen HN.
    destruct fuel as [|f]; [exact I|]. unfold ProgProofs.sp_x.
    assert (Heq : sx o fns obj afs (S f) (ECall fn args) m =
      then_ (sxs o fns obj afs f args m) (fun m1 =>
        match pop_n (List.length args) (stk m1) [] with
        | None => XErr EInternal m1
        | Some (vals, s) =>
            match fn_get name fns with
            | Some (FBuiltin bn) =>
                match call_builtin o bn vals with
                | None => XErr ENeedOracle m1
                | Some r => match of_bres r with
                            | Ok v => XNormal (set_stk m1 (match v with VVoid => s | _ => v :: s end))
                            | Err x => XErr x (set_stk m1 s)
                            end
                end
            | Some (FHost k) =>
                let m2 := mkM s (menv m1) (mkCall name vals :: trace m1) (polls m1) in
                match host_call k vals with
                | Ok v => XNormal (set_stk m2 (match v with VVoid => s | _ => v :: s end))
                | Err x => XErr x m2
                end
            | None =>
                match af_get name afs with
                | None => XErr EScript (set_stk m1 s)
                | Some af =>
                    if negb (Nat.eqb (List.length (aparams af)) (List.length vals)) then XErr EScript (set_stk m1 s)
                    else if negb (max_call_depth =? 0) && (max_call_depth <=? N.of_nat (env_depth (menv m1)))
                    then XErr EScript (set_stk m1 s)
                    else
                      let depth := env_depth (menv m1) in
                      let e1 := declare_all (env_push_frame (menv m1)) (aparams af) vals in
                      let back (m2 : mstate) (st : list value) :=
                        mkM st (env_truncate (menv m2) depth) (trace m2) (polls m2) in
                      match sblock o fns obj afs f (abody af) (mkM [] e1 (trace m1) (polls m1)) with
                      | XReturn out m2 => XNormal (back m2 (match out with VVoid => s | _ => out :: s end))
                      | XNormal m2 => XNormal (back m2 s)
                      | XErr x m2 => XErr x (back m2 s)
                      end
                end
            end
        end)).
    { cbn [sx]. rewrite Hes. reflexivity. }
    rewrite Heq. clear Heq.
    cbn [emit1' emit1 snd consts] in Hsz, Hpool. fold c2 in Hsz, Hpool.
    assert (Hi : i < 65536) by (apply nthN_some_lt in Hn; lia).
    pose proof (code_at_end _ _ _ Hat) as Hend.
    pose proof (code_at_app_l _ _ _ _ Hat) as A1.
    pose proof (code_at_app_r _ _ _ _ Hat) as A2.
    pose proof (code_at_skip3 _ _ _ _ _ _ A2) as A3.
    eapply ok_ipe.
    + eapply ok_then.
      * eapply (sem_use _ _ _ _ _ _ _ S1 (consts c2)); side.
      * intros m1 Hp1.
        eapply ok_prepend.
        { eapply run_const; [exact A2|exact Hp1| |exact Hi]. eapply pool_extends_nth; eassumption. }
        destruct (code_at_op3 _ _ _ _ _ _ A3) as (Hl & Hb & Ho). rewrite hi_lo in Ho by exact Hl16.
        assert (Hnn : N.to_nat n = List.length args) by (unfold n, lenN; apply Nat2N.id).
        destruct (pop_n (List.length args) (stk m1) []) as [[vals s]|] eqn:Epop.
        2:{ eapply ok_fail_step. intro k.
            eapply (exec_call_nopop o pool funcs fns obj k main _ (push m1 (VStr name)) n name (stk m1));
              try eassumption; [reflexivity|rewrite Hnn; exact Epop]. }
        destruct (fn_get name fns) as [impl|] eqn:Ef.
        -- pose proof (fun k => exec_call o pool funcs fns obj k main _ (push m1 (VStr name)) n name (stk m1) impl
                      Hl Hp1 Hb Ho eq_refl Ef) as St.
           rewrite Hnn, Epop in St.
           destruct impl as [bn|hk].
           ++ destruct (call_builtin o bn vals) as [r|]; [|exact I].
              destruct (of_bres r) as [v|x].
              ** apply ok_normal; [exact Hp1|]. apply runs_to_step. exact St.
              ** eapply ok_fail_step. exact St.
           ++ cbv zeta. destruct (host_call hk vals) as [v|x].
              ** apply ok_normal; [exact Hp1|]. apply runs_to_step. exact St.
              ** eapply ok_fail_step. exact St.
        -- (* a user-defined function *)
           pose proof (fun k => exec_call_user o pool funcs fns obj k main _ (push m1 (VStr name)) n name (stk m1)
                      Hl Hp1 Hb Ho eq_refl Ef) as St.
           rewrite Hnn, Epop in St. cbn [push set_stk menv trace polls stk] in St.
           pose proof (HN name) as Hc_name.
           destruct (af_get name afs) as [af|] eqn:Eaf.
           2:{ rewrite Hc_name in St. eapply ok_fail_step. exact St. }
           destruct Hc_name as (uf & Hu & Hpar & Hbody). rewrite Hu in St. rewrite Hpar in St.
           destruct (negb (Nat.eqb (List.length (aparams af)) (List.length vals))).
           { eapply ok_fail_step. exact St. }
           destruct (negb (max_call_depth =? 0) && (max_call_depth <=? N.of_nat (env_depth (menv m1)))).
           { eapply ok_fail_step. exact St. }
           cbv zeta.
           set (m0 := mkM [] (declare_all (env_push_frame (menv m1)) (aparams af) vals) (trace m1) (polls m1)) in *.
           assert (Hp0 : polls m0 = None) by exact Hp1.
           pose proof (Hbody f m0 (Nat.lt_succ_diag_r f) Hp0) as Hb0.
           destruct (sblock o fns obj afs f (abody af) m0) as [m2|out m2|x m2]; cbn [body_res] in Hb0.
           ++ destruct Hb0 as [Hp2 Hr]. apply ok_normal; [exact Hp2|].
              exact (call_returns o pool funcs fns obj main _ _ _ (fcode uf) m0
                       (fun out m2 => mkM (match out with VVoid => s | _ => out :: s end)
                                          (env_truncate (menv m2) (env_depth (menv m1))) (trace m2) (polls m2))
                       (fun m2 => mkM s (env_truncate (menv m2) (env_depth (menv m1))) (trace m2) (polls m2))
                       VVoid m2 St Hr).
           ++ destruct Hb0 as [Hp2 Hr]. apply ok_normal; [exact Hp2|].
              exact (call_returns o pool funcs fns obj main _ _ _ (fcode uf) m0
                       (fun out m2 => mkM (match out with VVoid => s | _ => out :: s end)
                                          (env_truncate (menv m2) (env_depth (menv m1))) (trace m2) (polls m2))
                       (fun m2 => mkM s (env_truncate (menv m2) (env_depth (menv m1))) (trace m2) (polls m2))
                       out m2 St Hr).
           ++ assert (Hx : x <> ENeedOracle -> x <> EFuel -> fails_with o pool funcs fns obj (fcode uf) 0 m0 x).
              { intros H1 H2. destruct x; try exact Hb0; congruence. }
              destruct x; try exact I; cbn [ok];
                (eapply (call_fails o pool funcs fns obj main _ _ _ (fcode uf) m0
                       (fun out m2 => mkM (match out with VVoid => s | _ => out :: s end)
                                          (env_truncate (menv m2) (env_depth (menv m1))) (trace m2) (polls m2))
                       (fun m2 => mkM s (env_truncate (menv m2) (env_depth (menv m1))) (trace m2) (polls m2))
                       _ St); apply Hx; discriminate).
    + pos.
Qed.

End Sem4.
(* ------------------------------------------------------------------ *)
(* PART H: foreach *)

Section Sem5.
Variables (o : stdlib) (fns : fnmap) (afs : aftable).
Notation res_ok := (res_ok o fns afs).
Notation sem := (sem o fns afs).
Notation sp_x := (sp_x o fns afs).
Notation sp_xs := (sp_xs o fns afs).
Notation sp_stmt := (sp_stmt o fns afs).
Notation sp_block := (sp_block o fns afs).

(* the head of the loop: two constants, OpIterationNext, the conditional jump *)
Lemma run_foreach_head : forall pool funcs obj main L0 T i1 i2 idx ident rest M,
  code_at main L0 ([OpConstant; hi_byte i1; lo_byte i1] ++ [OpConstant; hi_byte i2; lo_byte i2] ++
                   [OpIterationNext] ++ [OpJumpIfFalse; hi_byte T; lo_byte T] ++ rest) ->
  nthN pool i1 = Some (VStr idx) -> nthN pool i2 = Some (VStr ident) -> i1 < 65536 -> i2 < 65536 ->
  T < lenN main -> lenN main <= 65535 -> polls M = None ->
  match drop_residue (menv M) (stk M) with
  | VIter it off :: s =>
      match iter_next o it off with
      | Ok (Some (x, k)) =>
          let e1 := env_declare (menv M) (trim_dollar ident) x in
          let e2 := match idx with [] => e1 | _ => env_declare e1 (trim_dollar idx) k end in
          runs_to o pool funcs fns obj main L0 (L0 + 10) M (mkM (VIter it (off + 1) :: s) e2 (trace M) (polls M))
      | Ok None =>
          match env_pop (menv M) with
          | Some e1 => runs_to o pool funcs fns obj main L0 T M (mkM s e1 (trace M) (polls M))
          | None => fails_with o pool funcs fns obj main L0 M EScript
          end
      | Err x => fails_with o pool funcs fns obj main L0 M x
      end
  | other :: s => if iterable other then True else fails_with o pool funcs fns obj main L0 M EScript
  | [] => fails_with o pool funcs fns obj main L0 M EInternal
  end.
Proof.
  intros pool funcs obj main L0 T i1 i2 idx ident rest M Hat Hn1 Hn2 Hi1 Hi2 HT Hlen Hp.
  pose proof (code_at_app_r _ _ _ _ Hat) as A2.
  pose proof (code_at_app_r _ _ _ _ A2) as A3.
  pose proof (code_at_app_r _ _ _ _ A3) as A4.
  change (lenN [OpConstant; hi_byte i1; lo_byte i1]) with 3 in *.
  change (lenN [OpConstant; hi_byte i2; lo_byte i2]) with 3 in *.
  change (lenN [OpIterationNext]) with 1 in *.
  pose proof (run_const o pool funcs fns obj main L0 i1 (VStr idx) _ M Hat Hp Hn1 Hi1) as R1.
  pose proof (run_const o pool funcs fns obj main (L0 + 3) i2 (VStr ident) _ (push M (VStr idx)) A2 Hp Hn2 Hi2) as R2.
  pose proof (runs_to_trans _ _ _ _ _ _ _ _ _ _ _ _ R1 R2) as R12. clear R1 R2.
  set (M2 := push (push M (VStr idx)) (VStr ident)) in *.
  destruct (code_at_op1 _ _ _ _ A3) as [Hl3 Hb3].
  destruct (code_at_op3 _ _ _ _ _ _ A4) as (Hl4 & Hb4 & Ho4). rewrite hi_lo in Ho4 by lia.
  assert (Hs2 : stk M2 = VStr ident :: VStr idx :: stk M) by reflexivity.
  change (menv M) with (menv M2).
  destruct (drop_residue (menv M2) (stk M)) as [|it0 s] eqn:Es.
  - eapply runs_then_fails; [exact R12|]. eapply fails_step. intro k.
    exact (exec_iter_next_short o pool funcs fns obj k main _ M2 (VStr ident) (VStr idx) (stk M) Hl3 Hp Hb3 Hs2 Es).
  - pose proof (fun k => exec_iter_next o pool funcs fns obj k main _ M2 ident idx (stk M) it0 s Hl3 Hp Hb3 Hs2 Es) as St.
    change (menv M2) with (menv M).
    destruct it0 as [z|fl|st|b| | |re|l|l|it off];
      try (cbn [iterable]; eapply runs_then_fails; [exact R12|]; eapply fails_step; exact St);
      try exact I.
    destruct (iter_next o it off) as [[[x k]|]|x] eqn:En.
    + cbv zeta. eapply runs_to_trans; [exact R12|].
      eapply runs_to_trans; [apply runs_to_step; exact St|].
      apply runs_to_step. intro k0.
      match goal with |- exec _ _ _ _ _ _ _ _ ?m3 = _ =>
        rewrite (exec_jif o pool funcs fns obj k0 main _ m3 T Hl4 Hp Hb4 Ho4) end.
      cbn [stk truthy set_stk menv trace polls].
      replace (L0 + 3 + 3 + 1 + 3) with (L0 + 10) by lia. reflexivity.
    + destruct (env_pop (menv M)) as [e1|] eqn:Ep.
      * change (menv M2) with (menv M) in St. rewrite Ep in St.
        eapply runs_to_trans; [exact R12|].
        eapply runs_to_trans; [apply runs_to_step; exact St|].
        apply runs_to_step. intro k0.
        match goal with |- exec _ _ _ _ _ _ _ _ ?m3 = _ =>
          rewrite (exec_jif o pool funcs fns obj k0 main _ m3 T Hl4 Hp Hb4 Ho4) end.
        cbn [stk truthy set_stk menv trace polls].
        apply N.leb_gt in HT. rewrite HT. reflexivity.
      * change (menv M2) with (menv M) in St. rewrite Ep in St.
        eapply runs_then_fails; [exact R12|]. eapply fails_step. exact St.
    + eapply runs_then_fails; [exact R12|]. eapply fails_step. exact St.
Qed.

Lemma cc_foreach : forall idx ident v body c c1 c6 Q1 Q6,
  cstate_ok c -> res_ok c c1 (sp_x v) Q1 ->
  let c2 := emit0 OpIterationReset c1 in
  let c3 := emit_const (VStr ident) (emit_const (VStr idx) c2) in
  let c4 := emit0 OpIterationNext c3 in
  let c5 := emit1' OpJumpIfFalse 9999 c4 in
  res_ok c5 c6 (sp_block body) Q6 ->
  let c7 := emit1' OpJump (clen c2) c6 in
  res_ok c (emit0 OpPlaceholder (patch (clen c4) (clen c7) c7)) (sp_x (EForeach idx ident v body)) nonempty.
Proof.
  intros idx ident v body c c1 c6 Q1 Q6 Hc (code1 & E1 & [_ W1] & S1) c2 c3 c4 c5 (code6 & E6 & [_ W6] & S6) c7.
  assert (Hc1 : cstate_ok c1) by apply E1.
  pose proof (emits_emit0 OpIterationReset c1 Hc1) as E2. fold c2 in E2.
  assert (Hc2 : cstate_ok c2) by apply E2.
  destruct (emits_const (VStr idx) c2 Hc2) as (i1 & E3a & Hn1).
  set (c3a := emit_const (VStr idx) c2) in *.
  assert (Hc3a : cstate_ok c3a) by apply E3a.
  destruct (emits_const (VStr ident) c3a Hc3a) as (i2 & E3b & Hn2). fold c3 in E3b, Hn2.
  assert (Hc3 : cstate_ok c3) by apply E3b.
  pose proof (emits_emit0 OpIterationNext c3 Hc3) as E4. fold c4 in E4.
  assert (Hc4 : cstate_ok c4) by apply E4.
  pose proof (emits_emit1 OpJumpIfFalse 9999 c4 Hc4) as E5. fold c5 in E5.
  assert (Hc5 : cstate_ok c5) by apply E5.
  assert (Hc6 : cstate_ok c6) by apply E6.
  pose proof (emits_emit1 OpJump (clen c2) c6 Hc6) as E7. fold c7 in E7.
  assert (Hc7 : cstate_ok c7) by apply E7.
  pose proof (emits_len _ _ _ Hc E1) as L1.
  pose proof (emits_len _ _ _ Hc1 E2) as L2.
  pose proof (emits_len _ _ _ Hc2 E3a) as L3a.
  pose proof (emits_len _ _ _ Hc3a E3b) as L3b.
  pose proof (emits_len _ _ _ Hc3 E4) as L4.
  pose proof (emits_len _ _ _ Hc4 E5) as L5.
  pose proof (emits_len _ _ _ Hc5 E6) as L6.
  pose proof (emits_len _ _ _ Hc6 E7) as L7.
  set (T := clen c7) in *. set (L0 := clen c2) in *.
  set (pre4 := code1 ++ [OpIterationReset] ++ [OpConstant; hi_byte i1; lo_byte i1] ++
               [OpConstant; hi_byte i2; lo_byte i2] ++ [OpIterationNext]).
  assert (E14 : emits c c4 pre4).
  { eapply emits_eq; [eapply emits_trans; [exact E1|eapply emits_trans; [exact E2|
      eapply emits_trans; [exact E3a|eapply emits_trans; [exact E3b|exact E4]]]]|unfold pre4; leq]. }
  assert (E17 : emits c c7 (pre4 ++ OpJumpIfFalse :: hi_byte 9999 :: lo_byte 9999 ::
                              (code6 ++ [OpJump; hi_byte L0; lo_byte L0]))).
  { eapply emits_eq; [eapply emits_trans; [exact E14|eapply emits_trans; [exact E5|
      eapply emits_trans; [exact E6|exact E7]]]|leq]. }
  pose proof (emits_len _ _ _ Hc E14) as L14.
  destruct (patch_emits c c7 pre4 _ _ _ _ (clen c4) T Hc E17 L14) as (E8 & L8 & CS8).
  set (c8 := patch (clen c4) T c7) in *.
  assert (Hc8 : cstate_ok c8) by apply E8.
  exists (code1 ++ [OpIterationReset] ++
          ([OpConstant; hi_byte i1; lo_byte i1] ++ [OpConstant; hi_byte i2; lo_byte i2] ++
           [OpIterationNext] ++ [OpJumpIfFalse; hi_byte T; lo_byte T] ++
           code6 ++ [OpJump; hi_byte L0; lo_byte L0] ++ [OpPlaceholder])). split; [|split].
  - eapply emits_eq; [eapply emits_trans; [exact E8|apply emits_emit0; exact Hc8]|unfold pre4; leq].
  - split; [split; [pos|nr]|wsolve].
  - intros pool funcs obj main ip m fuel Hsz Hpool Hat Hip Hpolls Hlen HN.
    destruct fuel as [|f]; [exact I|]. unfold ProgProofs.sp_x.
    change (sx o fns obj afs (S f) (EForeach idx ident v body) m) with
      (then_ (sx o fns obj afs f v m) (fun m1 =>
        let e1 := env_push (menv m1) (lenN (stk m1)) in
        match stk m1 with
        | [] => XErr EInternal (set_menv m1 e1)
        | it :: s =>
            if iterable it then sforeach o fns obj afs f idx ident it 0 body (mkM s e1 (trace m1) (polls m1))
            else XErr EScript (mkM s e1 (trace m1) (polls m1))
        end)).
    cbn [emit0 consts] in Hsz, Hpool. rewrite CS8 in Hsz, Hpool.
    change (consts c7) with (consts c6) in Hsz, Hpool.
    assert (P3 : pool_extends (consts c3) (consts c6)).
    { change (consts c3) with (consts c5). pe. }
    assert (P1 : pool_extends (consts c1) (consts c6)).
    { eapply pool_extends_trans; [|exact P3]. change (consts c1) with (consts c2).
      eapply pool_extends_trans; [exact (emits_pe _ _ _ E3a)|exact (emits_pe _ _ _ E3b)]. }
    assert (Hi1 : i1 < 65536).
    { apply nthN_some_lt in Hn1. pose proof (pool_extends_len _ _ (emits_pe _ _ _ E3b)).
      apply pool_extends_len in P3. lia. }
    assert (Hi2 : i2 < 65536).
    { apply nthN_some_lt in Hn2. apply pool_extends_len in P3. lia. }
    assert (Hp1 : nthN pool i1 = Some (VStr idx)).
    { eapply pool_extends_nth; [exact Hpool|]. eapply pool_extends_nth; [exact P3|].
      eapply pool_extends_nth; [exact (emits_pe _ _ _ E3b)|exact Hn1]. }
    assert (Hp2 : nthN pool i2 = Some (VStr ident)).
    { eapply pool_extends_nth; [exact Hpool|]. eapply pool_extends_nth; [exact P3|exact Hn2]. }
    pose proof (code_at_end _ _ _ Hat) as Hend.
    pose proof (code_at_app_l _ _ _ _ Hat) as A1.
    pose proof (code_at_app_r _ _ _ _ Hat) as A2.
    pose proof (code_at_app_r _ _ _ _ A2) as AH.
    pose proof (code_at_app_r _ _ _ _ AH) as B1.
    pose proof (code_at_app_r _ _ _ _ B1) as B2.
    pose proof (code_at_app_r _ _ _ _ B2) as B3.
    pose proof (code_at_app_r _ _ _ _ B3) as B4.
    pose proof (code_at_app_l _ _ _ _ B4) as B4l.
    pose proof (code_at_app_r _ _ _ _ B4) as B5.
    pose proof (code_at_app_r _ _ _ _ B5) as B6.
    change (lenN [OpIterationReset]) with 1 in *.
    change (lenN [OpIterationNext]) with 1 in *.
    change (lenN [OpConstant; hi_byte i1; lo_byte i1]) with 3 in *.
    change (lenN [OpConstant; hi_byte i2; lo_byte i2]) with 3 in *.
    change (lenN [OpJumpIfFalse; hi_byte T; lo_byte T]) with 3 in *.
    change (lenN [OpJumpIfFalse; hi_byte 9999; lo_byte 9999]) with 3 in *.
    change (lenN [OpJump; hi_byte L0; lo_byte L0]) with 3 in *.
    assert (HL0 : L0 = ip + lenN code1 + 1) by lia.
    assert (HT : T = L0 + 10 + lenN code6 + 3) by lia.
    assert (HTm : T < lenN main) by (clear - Hend HT HL0; pos).
    match goal with |- ok _ _ _ _ _ _ _ _ _ ?e => set (ipe := e) end.
    assert (Hipe : ipe = T + 1) by (unfold ipe; clear - HT HL0; pos).
    clearbody ipe.
    (* the loop *)
    assert (Loop : forall n, (n <= f)%nat -> forall M it off s, polls M = None ->
              drop_residue (menv M) (stk M) = VIter it off :: s ->
              ok o pool funcs fns obj main L0 M
                 (sforeach o fns obj afs n idx ident it off body (set_stk M s)) ipe).
    { induction n as [|n IH]; intros Hle M it off s Hp0 HdM; [exact I|].
      assert (HNn : Calls o fns afs pool funcs obj n) by (eapply Calls_le; [exact HN|lia]).
      set (m0 := set_stk M s).
      change (sforeach o fns obj afs (S n) idx ident it off body m0) with
        (match iter_next o it off with
         | Err x => XErr x m0
         | Ok (Some (x, k)) =>
             let e1 := env_declare (menv m0) (trim_dollar ident) x in
             let e2 := match idx with [] => e1 | _ => env_declare e1 (trim_dollar idx) k end in
             then_ (sblock o fns obj afs n body (mkM (VIter it (off + 1) :: stk m0) e2 (trace m0) (polls m0)))
               (fun m1 =>
                  match drop_residue (menv m1) (stk m1) with
                  | VIter it' off' :: s' => sforeach o fns obj afs n idx ident it' off' body (set_stk m1 s')
                  | other :: s' => if iterable other then XErr ENeedOracle (set_stk m1 s')
                                   else XErr EScript (set_stk m1 s')
                  | [] => XErr EInternal m1
                  end)
         | Ok None =>
             match env_pop (menv m0) with
             | Some e1 => XNormal (set_menv m0 e1)
             | None => XErr EScript m0
             end
         end).
      pose proof (run_foreach_head pool funcs obj main L0 T i1 i2 idx ident _ M
                    (code_at_eq _ _ _ _ AH (eq_sym HL0)) Hp1 Hp2 Hi1 Hi2 HTm Hlen Hp0) as Hd.
      rewrite HdM in Hd. unfold m0. cbn [set_stk stk menv trace polls].
      destruct (iter_next o it off) as [[[x k]|]|x] eqn:En.
      - cbv zeta in Hd |- *. eapply ok_prepend; [exact Hd|].
        eapply ok_then.
        + eapply (sem_use _ _ _ _ _ _ _ S6 (consts c6)); side.
          eapply code_at_eq; [exact B4l|lia].
        + intros m1 Hpm1. eapply ok_prepend.
          * eapply (run_jump o pool funcs fns obj main _ L0); [at_pos B5|exact Hpm1|lia|exact Hlen].
          * pose proof (run_foreach_head pool funcs obj main L0 T i1 i2 idx ident _ m1
                          (code_at_eq _ _ _ _ AH (eq_sym HL0)) Hp1 Hp2 Hi1 Hi2 HTm Hlen Hpm1) as Hd1.
            destruct (drop_residue (menv m1) (stk m1)) as [|other s'] eqn:Es1.
            -- apply ok_err. exact Hd1.
            -- destruct other as [z|fl|st|b| | |re|l|l|it' off'];
                 try (cbn [iterable] in Hd1 |- *; first [exact I | apply ok_err; exact Hd1]).
               apply IH; [lia|exact Hpm1|exact Es1].
      - destruct (env_pop (menv M)) as [e1|].
        + apply ok_normal; [exact Hp0|].
          eapply runs_to_trans; [exact Hd|].
          eapply rt_pos; [eapply run_ph; [exact B6|exact Hp0]|lia|lia].
        + apply ok_err. exact Hd.
      - apply ok_err. exact Hd. }
    eapply ok_then.
    + eapply (sem_use _ _ _ _ _ _ _ S1 (consts c6)); side.
    + intros m1 Hpm1. cbv zeta.
      destruct (code_at_op1 _ _ _ _ A2) as [Hl Hb].
      pose proof (fun k => exec_iter_reset o pool funcs fns obj k main _ m1 Hl Hpm1 Hb) as St.
      destruct (stk m1) as [|it s] eqn:Es1.
      * eapply ok_fail_step. exact St.
      * destruct (iterable it) eqn:Eit.
        -- eapply ok_step; [exact St|]. eapply ok_ip; [|exact HL0].
           refine (Loop f (le_n f) (mkM (VIter it 0 :: s) (env_push (menv m1) (lenN (it :: s))) (trace m1) (polls m1))
                        it 0 s Hpm1 _).
           unfold drop_residue, env_mark. cbn [env_push scopes menv stk].
           change (lenN (it :: s)) with (lenN (VIter it 0 :: s)). apply keep_bottom_all.
        -- eapply ok_fail_step. exact St.
Qed.

End Sem5.
Section Sem6.
Variables (o : stdlib) (fns : fnmap) (afs : aftable).
Notation res_ok := (res_ok o fns afs).
Notation sem := (sem o fns afs).
Notation sp_x := (sp_x o fns afs).
Notation sp_block := (sp_block o fns afs).

Definition choice := (bool * list expr * list stmt)%type.

Definition sp_defaults (chs : list choice) : specfn := fun obj f m => sdefaults o fns obj afs f chs m.

Definition sem_case_exprs (cs : list value) (start : N) (g : N -> list N)
                          (v : expr) (es : list expr) (blk : list stmt) : Prop :=
  forall E pool funcs obj main ip m fuel ipe (rest all : list choice),
    lenN cs <= 65536 -> pool_extends cs pool -> code_at main ip (g E) -> ip = start ->
    polls m = None -> lenN main <= 65535 -> E < lenN main -> ip + lenN (g E) <= E ->
    (forall m', polls m' = None -> runs_to o pool funcs fns obj main E ipe m' m') ->
    (forall fuel' m', polls m' = None -> Calls o fns afs pool funcs obj fuel' ->
       ok o pool funcs fns obj main (ip + lenN (g E)) m' (sswitch o fns obj afs fuel' v rest all m') ipe) ->
    Calls o fns afs pool funcs obj fuel ->
    ok o pool funcs fns obj main ip m (scase o fns obj afs fuel v es blk rest all m) ipe.

Definition sem_cases (cs : list value) (start : N) (g : N -> list N) (v : expr) (chs : list choice) : Prop :=
  forall E pool funcs obj main ip m fuel ipe (all : list choice),
    lenN cs <= 65536 -> pool_extends cs pool -> code_at main ip (g E) -> ip = start ->
    polls m = None -> lenN main <= 65535 -> E < lenN main -> ip + lenN (g E) <= E ->
    (forall m', polls m' = None -> runs_to o pool funcs fns obj main E ipe m' m') ->
    (forall fuel' m', polls m' = None -> Calls o fns afs pool funcs obj fuel' ->
       ok o pool funcs fns obj main (ip + lenN (g E)) m' (sdefaults o fns obj afs fuel' all m') ipe) ->
    Calls o fns afs pool funcs obj fuel ->
    ok o pool funcs fns obj main ip m (sswitch o fns obj afs fuel v chs all m) ipe.

Lemma sem_case_exprs_mono : forall cs cs' start g v es blk,
  pool_extends cs cs' -> sem_case_exprs cs start g v es blk -> sem_case_exprs cs' start g v es blk.
Proof.
  intros cs cs' start g v es blk Hpe H E pool funcs obj main ip m fuel ipe rest all Hsz Hpool.
  apply H; [apply pool_extends_len in Hpe; lia|eapply pool_extends_trans; eassumption].
Qed.

Lemma sem_cases_mono : forall cs cs' start g v chs,
  pool_extends cs cs' -> sem_cases cs start g v chs -> sem_cases cs' start g v chs.
Proof.
  intros cs cs' start g v chs Hpe H E pool funcs obj main ip m fuel ipe all Hsz Hpool.
  apply H; [apply pool_extends_len in Hpe; lia|eapply pool_extends_trans; eassumption].
Qed.

Definition res_case_exprs (c c' : cstate) (patches po : list N) (v : expr) (es : list expr) (blk : list stmt) : Prop :=
  exists new g, po = patches ++ new /\ (forall E, lenN (g E) = lenN (g 0)) /\
    emits c c' (g 9999) /\ patchable new (clen c) g /\ sem_case_exprs (consts c') (clen c) g v es blk /\
    (forall E, wfc (g E)).

Definition res_cases (c c' : cstate) (patches po : list N) (v : expr) (chs : list choice) : Prop :=
  exists new g, po = patches ++ new /\ (forall E, lenN (g E) = lenN (g 0)) /\
    emits c c' (g 9999) /\ patchable new (clen c) g /\ sem_cases (consts c') (clen c) g v chs /\
    (forall E, wfc (g E)).

Lemma res_case_exprs_ok : forall c c' p po v es blk, res_case_exprs c c' p po v es blk -> cstate_ok c'.
Proof. intros c c' p po v es blk (new & g & _ & _ & E & _). apply E. Qed.
Lemma res_cases_ok : forall c c' p po v chs, res_cases c c' p po v chs -> cstate_ok c'.
Proof. intros c c' p po v chs (new & g & _ & _ & E & _). apply E. Qed.

Lemma cc_case_exprs_nil : forall c patches v blk, cstate_ok c -> res_case_exprs c c patches patches v [] blk.
Proof.
  intros c patches v blk Hc. exists [], (fun _ => []). split; [symmetry; apply app_nil_r|split; [reflexivity|split; [|split; [|split]]]].
  - apply emits_refl. exact Hc.
  - apply patchable_nil.
  - intros E pool funcs obj main ip m fuel ipe rest all Hsz Hpool Hat Hip Hpolls Hlen HE HgE HEr HK HN.
    destruct fuel as [|f]; [exact I|].
    change (scase o fns obj afs (S f) v [] blk rest all m) with (sswitch o fns obj afs f v rest all m).
    eapply ok_ip; [apply HK; [exact Hpolls|apply Calls_S; exact HN]|pos].
  - intro E. apply wfc_nil.
Qed.

Lemma cc_case_exprs_cons : forall v e es' blk patches po c c1 c2 c5 c' Q1 Q2 Q5,
  cstate_ok c -> res_ok c c1 (sp_x v) Q1 -> res_ok c1 c2 (sp_x e) Q2 ->
  let c3 := emit0 OpCase c2 in
  let c4 := emit1' OpJumpIfFalse 9999 c3 in
  res_ok c4 c5 (sp_block blk) Q5 ->
  let c6 := emit1' OpJump 9999 c5 in
  let c7 := patch (clen c3) (clen c6) c6 in
  res_case_exprs c7 c' (patches ++ [clen c5]) po v es' blk ->
  res_case_exprs c c' patches po v (e :: es') blk.
Proof.
  intros v e es' blk patches po c c1 c2 c5 c' Q1 Q2 Q5 Hc (codeV & E1 & [_ W1] & S1) (codeE & E2 & [_ W2] & S2)
         c3 c4 (codeB & E5 & [_ W5] & S5) c6 c7 (new' & g' & Hpo & Hlen' & E7' & Pat' & Sem' & Wg').
  assert (Hc1 : cstate_ok c1) by apply E1.
  assert (Hc2 : cstate_ok c2) by apply E2.
  pose proof (emits_emit0 OpCase c2 Hc2) as E3. fold c3 in E3.
  assert (Hc3 : cstate_ok c3) by apply E3.
  pose proof (emits_emit1 OpJumpIfFalse 9999 c3 Hc3) as E4. fold c4 in E4.
  assert (Hc4 : cstate_ok c4) by apply E4.
  assert (Hc5 : cstate_ok c5) by apply E5.
  pose proof (emits_emit1 OpJump 9999 c5 Hc5) as E6. fold c6 in E6.
  assert (Hc6 : cstate_ok c6) by apply E6.
  pose proof (emits_len _ _ _ Hc E1) as L1.
  pose proof (emits_len _ _ _ Hc1 E2) as L2.
  pose proof (emits_len _ _ _ Hc2 E3) as L3.
  pose proof (emits_len _ _ _ Hc3 E4) as L4.
  pose proof (emits_len _ _ _ Hc4 E5) as L5.
  pose proof (emits_len _ _ _ Hc5 E6) as L6.
  set (Ln := clen c6) in *.
  set (pre3 := codeV ++ codeE ++ [OpCase]).
  assert (E13 : emits c c3 pre3).
  { eapply emits_eq; [eapply emits_trans; [exact E1|eapply emits_trans; [exact E2|exact E3]]|unfold pre3; leq]. }
  pose proof (emits_len _ _ _ Hc E13) as L13.
  assert (E16 : emits c c6 (pre3 ++ OpJumpIfFalse :: hi_byte 9999 :: lo_byte 9999 ::
                              (codeB ++ [OpJump; hi_byte 9999; lo_byte 9999]))).
  { eapply emits_eq; [eapply emits_trans; [exact E13|eapply emits_trans; [exact E4|
      eapply emits_trans; [exact E5|exact E6]]]|leq]. }
  destruct (patch_emits c c6 pre3 _ _ _ _ (clen c3) Ln Hc E16 L13) as (E7 & L7 & CS7).
  fold c7 in E7, L7, CS7.
  assert (Hc7 : cstate_ok c7) by apply E7.
  set (a := pre3 ++ [OpJumpIfFalse; hi_byte Ln; lo_byte Ln] ++ codeB).
  set (A := fun E : N => codeV ++ codeE ++ [OpCase] ++ [OpJumpIfFalse; hi_byte Ln; lo_byte Ln] ++ codeB ++
                         [OpJump; hi_byte E; lo_byte E]).
  change (lenN [OpCase]) with 1 in *.
  change (lenN [OpJumpIfFalse; hi_byte 9999; lo_byte 9999]) with 3 in *.
  change (lenN [OpJump; hi_byte 9999; lo_byte 9999]) with 3 in *.
  assert (La : lenN a = lenN codeV + lenN codeE + 1 + 3 + lenN codeB) by (unfold a, pre3; pos).
  assert (LA : forall E, lenN (A E) = lenN a + 3) by (intro E; rewrite La; unfold A; pos).
  assert (Hp5 : clen c5 = clen c + lenN a) by (unfold pre3 in L13; lenN_norm; lia).
  exists ([clen c5] ++ new'), (fun E => A E ++ g' E).
  split; [rewrite Hpo; leq|split; [|split; [|split; [|split]]]].
  5:{ intro E. pose proof (Wg' E). unfold A. wsolve. }
  - intro E. rewrite !lenN_app, !LA, (Hlen' E). reflexivity.
  - eapply emits_eq; [eapply emits_trans; [exact E7|exact E7']|unfold A, pre3; leq].
  - apply patchable_app; [intro E; rewrite !LA; reflexivity| |].
    + rewrite Hp5. eapply patchable_ext; [|apply (patchable_one (clen c) a [])].
      intro E. unfold A, a, pre3. leq.
    + replace (clen c + lenN (A 0)) with (clen c7) by (rewrite LA; lia). exact Pat'.
  - intros E pool funcs obj main ip m fuel ipe rest all Hsz Hpool Hat Hip Hpolls Hlen HE HgE HEr HK HN.
    destruct fuel as [|f]; [exact I|].
    change (scase o fns obj afs (S f) v (e :: es') blk rest all m) with
      (then_ (sx o fns obj afs f v m) (fun m1 => then_ (sx o fns obj afs f e m1) (fun m2 =>
         pop2s m2 (fun cv subj m3 =>
           match vm_case o subj cv with
           | Err x => XErr x m3
           | Ok r => if truthy r then sblock o fns obj afs f blk m3
                     else scase o fns obj afs f v es' blk rest all m3
           end)))).
    assert (P5 : pool_extends (consts c5) (consts c')).
    { change (consts c5) with (consts c6). rewrite <- CS7. pe. }
    assert (P2 : pool_extends (consts c2) (consts c')).
    { eapply pool_extends_trans; [|exact P5]. change (consts c2) with (consts c4). pe. }
    pose proof (code_at_end _ _ _ Hat) as Hend.
    pose proof (code_at_app_l _ _ _ _ Hat) as AA. unfold A in AA.
    pose proof (code_at_app_r _ _ _ _ Hat) as AG.
    pose proof (code_at_app_l _ _ _ _ AA) as AV.
    pose proof (code_at_app_r _ _ _ _ AA) as B1.
    pose proof (code_at_app_l _ _ _ _ B1) as AE.
    pose proof (code_at_app_r _ _ _ _ B1) as B2.
    pose proof (code_at_app_r _ _ _ _ B2) as B3.
    pose proof (code_at_app_r _ _ _ _ B3) as B4.
    pose proof (code_at_app_l _ _ _ _ B4) as B4l.
    pose proof (code_at_app_r _ _ _ _ B4) as B5.
    change (lenN [OpCase]) with 1 in *.
    change (lenN [OpJumpIfFalse; hi_byte Ln; lo_byte Ln]) with 3 in *.
    assert (HLn : Ln = ip + lenN (A E)) by (rewrite LA; lia).
    assert (HLnm : Ln < lenN main \/ Ln = lenN main) by (rewrite lenN_app in Hend; lia).
    eapply ok_then.
    { eapply (sem_use _ _ _ _ _ _ _ S1 (consts c')); side. }
    intros m1 Hp1. eapply ok_then.
    { eapply (sem_use _ _ _ _ _ _ _ S2 (consts c')); side. }
    intros m2 Hp2.
    destruct (code_at_op1 _ _ _ _ B2) as [Hl Hb].
    pose proof (fun k => exec_case_g o pool funcs fns obj k main _ m2 Hl Hp2 Hb) as St.
    unfold pop2s. destruct (stk m2) as [|cv [|subj s]] eqn:Es.
    { eapply ok_fail_step. exact St. }
    { eapply ok_fail_step. exact St. }
    destruct (vm_case o subj cv) as [r|x] eqn:Ec.
    2:{ eapply ok_fail_step. exact St. }
    eapply ok_step; [exact St|].
    change (ok o pool funcs fns obj main (ip + lenN codeV + lenN codeE + 1) (set_stk m2 (r :: s))
              (pop1s (set_stk m2 (r :: s)) (fun v0 m' =>
                 if truthy v0 then sblock o fns obj afs f blk m' else scase o fns obj afs f v es' blk rest all m')) ipe).
    assert (HgE' : ip + lenN (A E) + lenN (g' E) <= E) by (rewrite lenN_app in HgE; lia).
    eapply (run_jif o pool funcs fns obj main _ Ln _ (set_stk m2 (r :: s)) _
              (fun m' => sblock o fns obj afs f blk m')
              (fun m' => scase o fns obj afs f v es' blk rest all m') B3 Hp2); [lia|exact Hlen| |].
    + intros m3 Hp3. eapply ok_end.
      * eapply (sem_use _ _ _ _ _ _ _ S5 (consts c')); side.
      * intros m4 Hp4. eapply runs_to_trans; [|apply HEr; exact Hp4].
        eapply (run_jump o pool funcs fns obj main _ E); [exact B5|exact Hp4|exact HE|exact Hlen].
    + intros m3 Hp3. eapply ok_ip; [|symmetry; exact HLn].
      eapply (Sem' E pool funcs obj main (ip + lenN (A E)) m3 f ipe rest all); try assumption.
      * lia.
      * intros fuel' m' Hp' HN'. eapply ok_ip; [apply HK; [exact Hp'|exact HN']|rewrite lenN_app; lia].
      * apply Calls_S; exact HN.
Qed.

Lemma cc_cases_nil : forall c patches v, cstate_ok c -> res_cases c c patches patches v [].
Proof.
  intros c patches v Hc. exists [], (fun _ => []). split; [symmetry; apply app_nil_r|split; [reflexivity|split; [|split; [|split]]]].
  - apply emits_refl. exact Hc.
  - apply patchable_nil.
  - intros E pool funcs obj main ip m fuel ipe all Hsz Hpool Hat Hip Hpolls Hlen HE HgE HEr HK HN.
    destruct fuel as [|f]; [exact I|].
    change (sswitch o fns obj afs (S f) v [] all m) with (sdefaults o fns obj afs f all m).
    eapply ok_ip; [apply HK; [exact Hpolls|apply Calls_S; exact HN]|pos].
  - intro E. apply wfc_nil.
Qed.

Lemma cc_cases_default : forall c c' patches po v es blk rest,
  res_cases c c' patches po v rest -> res_cases c c' patches po v ((true, es, blk) :: rest).
Proof.
  intros c c' patches po v es blk rest (new & g & Hpo & Hl & Em & Pat & Sem & Wg).
  exists new, g. split; [exact Hpo|split; [exact Hl|split; [exact Em|split; [exact Pat|split; [|exact Wg]]]]].
  intros E pool funcs obj main ip m fuel ipe all Hsz Hpool Hat Hip Hpolls Hlen HE HgE HEr HK HN.
  destruct fuel as [|f]; [exact I|].
  change (sswitch o fns obj afs (S f) v ((true, es, blk) :: rest) all m) with (sswitch o fns obj afs f v rest all m).
  apply (Sem E pool funcs obj main ip m f ipe all); try assumption. apply Calls_S; exact HN.
Qed.

Lemma cc_cases_arm : forall c c1 c' patches p1 po v es blk rest,
  cstate_ok c -> res_case_exprs c c1 patches p1 v es blk -> res_cases c1 c' p1 po v rest ->
  res_cases c c' patches po v ((false, es, blk) :: rest).
Proof.
  intros c c1 c' patches p1 po v es blk rest Hc (new1 & g1 & Hp1 & Hl1 & Em1 & Pat1 & Sem1 & Wg1)
         (new2 & g2 & Hp2 & Hl2 & Em2 & Pat2 & Sem2 & Wg2).
  pose proof (emits_len _ _ _ Hc Em1) as L1.
  exists (new1 ++ new2), (fun E => g1 E ++ g2 E).
  split; [rewrite Hp2, Hp1; leq|split; [|split; [|split; [|split]]]].
  5:{ intro E. apply wfc_app; [apply Wg1|apply Wg2]. }
  - intro E. rewrite !lenN_app, (Hl1 E), (Hl2 E). reflexivity.
  - eapply emits_trans; eassumption.
  - apply patchable_app; [exact Hl1|exact Pat1|].
    replace (clen c + lenN (g1 0)) with (clen c1) by (rewrite <- (Hl1 9999); lia). exact Pat2.
  - intros E pool funcs obj main ip m fuel ipe all Hsz Hpool Hat Hip Hpolls Hlen HE HgE HEr HK HN.
    destruct fuel as [|f]; [exact I|].
    change (sswitch o fns obj afs (S f) v ((false, es, blk) :: rest) all m) with
      (scase o fns obj afs f v es blk rest all m).
    pose proof (code_at_app_l _ _ _ _ Hat) as A1.
    pose proof (code_at_app_r _ _ _ _ Hat) as A2.
    rewrite lenN_app in HgE.
    eapply (sem_case_exprs_mono _ (consts c') _ _ _ _ _ (emits_pe _ _ _ Em2) Sem1); try eassumption.
    + lia.
    + intros fuel' m' Hp' HN'.
      eapply (Sem2 E pool funcs obj main (ip + lenN (g1 E)) m' fuel' ipe all); try assumption.
      * rewrite (Hl1 E), <- (Hl1 9999). lia.
      * lia.
      * intros fuel'' m'' Hp'' HN''. eapply ok_ip; [apply HK; [exact Hp''|exact HN'']|rewrite lenN_app; lia].
    + apply Calls_S; exact HN.
Qed.

(* the default blocks, in order *)
Lemma cc_defaults_nil : forall c, cstate_ok c -> res_ok c c (sp_defaults []) anycode.
Proof.
  intros c Hc. exists []. split; [apply emits_refl; exact Hc|split; [split; [exact I|apply wfc_nil]|]].
  intros pool funcs obj main ip m fuel Hsz Hpool Hat Hip Hpolls Hlen HN.
  destruct fuel as [|f]; [exact I|].
  eapply ok_ipe; [apply ok_normal; [exact Hpolls|apply runs_to_refl]|pos].
Qed.

Lemma cc_defaults_skip : forall c c' es blk rest Q,
  res_ok c c' (sp_defaults rest) Q -> res_ok c c' (sp_defaults ((false, es, blk) :: rest)) anycode.
Proof.
  intros c c' es blk rest Q (code & E & [_ W] & S). exists code. split; [exact E|split; [split; [exact I|exact W]|]].
  intros pool funcs obj main ip m fuel Hsz Hpool Hat Hip Hpolls Hlen HN.
  destruct fuel as [|f]; [exact I|]. apply S; try assumption. apply Calls_S; exact HN.
Qed.

Lemma cc_defaults_cons : forall c c1 c2 es blk rest Q1 Q2,
  cstate_ok c -> res_ok c c1 (sp_block blk) Q1 -> res_ok c1 c2 (sp_defaults rest) Q2 ->
  res_ok c c2 (sp_defaults ((true, es, blk) :: rest)) anycode.
Proof.
  intros c c1 c2 es blk rest Q1 Q2 Hc (code1 & E1 & [_ W1] & S1) (code2 & E2 & [_ W2] & S2).
  pose proof (emits_len _ _ _ Hc E1) as L1.
  exists (code1 ++ code2). split; [|split].
  - eapply emits_trans; eassumption.
  - split; [exact I|wsolve].
  - intros pool funcs obj main ip m fuel Hsz Hpool Hat Hip Hpolls Hlen HN.
    destruct fuel as [|f]; [exact I|]. unfold sp_defaults.
    change (sdefaults o fns obj afs (S f) ((true, es, blk) :: rest) m) with
      (then_ (sblock o fns obj afs f blk m) (fun m1 => sdefaults o fns obj afs f rest m1)).
    pose proof (code_at_app_l _ _ _ _ Hat) as A1.
    pose proof (code_at_app_r _ _ _ _ Hat) as A2.
    eapply ok_ipe.
    + eapply ok_then.
      * eapply (sem_use _ _ _ _ _ _ _ S1 (consts c2)); side.
      * intros m1 Hp1. eapply (sem_use _ _ _ _ _ _ _ S2 (consts c2)); side.
    + pos.
Qed.

Lemma cc_switch : forall v chs c c1 c2 ps Q,
  cstate_ok c -> res_cases c c1 [] ps v chs -> res_ok c1 c2 (sp_defaults chs) Q ->
  res_ok c (emit0 OpPlaceholder (patch_all ps (clen c2) c2)) (sp_x (ESwitch v chs)) nonempty.
Proof.
  intros v chs c c1 c2 ps Q Hc (new & g & Hps & Hl & Em & Pat & Sem & Wg) (codeD & ED & [_ WD] & SD).
  pose proof (Wg (clen c2)) as WgE.
  cbn [app] in Hps. subst new.
  assert (Hc1 : cstate_ok c1) by apply Em.
  pose proof (emits_len _ _ _ Hc Em) as L1.
  pose proof (emits_len _ _ _ Hc1 ED) as L2.
  set (E := clen c2) in *.
  destruct (Pat E c c2 [] codeD Hc) as (E3 & L3 & CS3).
  { eapply emits_eq; [eapply emits_trans; [exact Em|exact ED]|leq]. }
  { pos. }
  cbn [app] in E3.
  set (c3 := patch_all ps E c2) in *.
  assert (Hc3 : cstate_ok c3) by apply E3.
  exists (g E ++ codeD ++ [OpPlaceholder]). split; [|split].
  - eapply emits_eq; [eapply emits_trans; [exact E3|apply emits_emit0; exact Hc3]|leq].
  - split; [split; [pos|nr]|wsolve].
  - intros pool funcs obj main ip m fuel Hsz Hpool Hat Hip Hpolls Hlen HN.
    destruct fuel as [|f]; [exact I|]. unfold ProgProofs.sp_x.
    change (sx o fns obj afs (S f) (ESwitch v chs) m) with (sswitch o fns obj afs f v chs chs m).
    cbn [emit0 consts] in Hsz, Hpool. rewrite CS3 in Hsz, Hpool.
    pose proof (code_at_end _ _ _ Hat) as Hend.
    pose proof (code_at_app_l _ _ _ _ Hat) as A1.
    pose proof (code_at_app_r _ _ _ _ Hat) as A2.
    pose proof (code_at_app_l _ _ _ _ A2) as A2l.
    pose proof (code_at_app_r _ _ _ _ A2) as A3.
    assert (HE : E = ip + lenN (g E) + lenN codeD) by (rewrite (Hl E), <- (Hl 9999); lia).
    eapply ok_ipe.
    + eapply (sem_cases_mono _ (consts c2) _ _ _ _ (emits_pe _ _ _ ED) Sem E pool funcs obj main ip m f
                (E + 1) chs); try assumption.
      * rewrite !lenN_app in Hend. change (lenN [OpPlaceholder]) with 1 in Hend. lia.
      * lia.
      * intros m' Hp'. eapply run_ph; [|exact Hp']. at_pos A3.
      * intros fuel' m' Hp' HN'. eapply ok_end.
        -- eapply (sem_use _ _ _ _ _ _ _ SD (consts c2)); side.
        -- intros m1 Hp1. eapply rt_pos; [eapply run_ph; [exact A3|exact Hp1]|reflexivity|lia].
      * apply Calls_S; exact HN.
    + pos.
Qed.

End Sem6.
(* ------------------------------------------------------------------ *)
(* PART J: `local`, function definitions, and hash literals (the latter outside the
   reference semantics: only the compiler's bookkeeping is carried through them) *)

Section Sem7.
Variables (o : stdlib) (fns : fnmap) (afs : aftable).
Notation res_ok := (res_ok o fns afs).
Notation sp_x := (sp_x o fns afs).

Lemma cc_local : forall name c, cstate_ok c ->
  res_ok c (emit0 OpLocal (emit_const (VStr name) c)) (sp_x (ELocal name)) nonempty.
Proof.
  intros name c Hc. destruct (emits_const (VStr name) c Hc) as (i & E1 & Hn).
  set (c1 := emit_const (VStr name) c) in *.
  exists ([OpConstant; hi_byte i; lo_byte i] ++ [OpLocal]). split; [|split].
  - eapply emits_trans; [exact E1|]. apply emits_emit0. apply E1.
  - split; [split; [pos|nr]|wsolve].
  - intros pool funcs obj main ip m fuel Hsz Hpool Hat Hip Hpolls Hlen HN.
    destruct fuel as [|f]; [exact I|]. unfold ProgProofs.sp_x.
    change (sx o fns obj afs (S f) (ELocal name) m) with
      (XNormal (set_menv m (env_declare (menv m) (trim_dollar name) VNull))).
    cbn [emit0 consts] in Hsz, Hpool.
    assert (Hi : i < 65536) by (apply nthN_some_lt in Hn; lia).
    pose proof (code_at_app_r _ _ _ _ Hat) as A2.
    change (lenN [OpConstant; hi_byte i; lo_byte i]) with 3 in *.
    apply ok_normal; [exact Hpolls|].
    eapply runs_to_trans.
    + eapply run_const; [exact Hat|exact Hpolls| |exact Hi]. eapply pool_extends_nth; eassumption.
    + destruct (code_at_op1 _ _ _ _ A2) as [Hl Hb].
      eapply rt_pos; [apply runs_to_step; intro k;
                      apply (exec_local o pool funcs fns obj k main _ (push m (VStr name)) Hl Hpolls Hb)|reflexivity|pos].
Qed.

Lemma cc_hash : forall l n c c1 code1, emits c c1 code1 -> wfc code1 ->
  res_ok c (emit1' OpHash n c1) (sp_x (EHash l)) nonempty.
Proof.
  intros l n c c1 code1 E1 W1.
  exists (code1 ++ [OpHash; hi_byte n; lo_byte n]). split; [|split].
  - eapply emits_trans; [exact E1|]. apply emits_emit1. apply E1.
  - split; [split; [pos|nr]|wsolve].
  - intros pool funcs obj main ip m fuel Hsz Hpool Hat Hip Hpolls Hlen HN.
    destruct fuel as [|f]; exact I.
Qed.

(* a definition emits nothing into the current buffer and does nothing when control passes it *)
Lemma cc_function : forall name params body c cs fs,
  cstate_ok c -> pool_extends (consts c) cs ->
  res_ok c (mkC (crev c) (clen c) cs fs) (sp_x (EFunction name params body)) (Qx (EFunction name params body)).
Proof.
  intros name params body c cs fs Hc Hpe. exists []. split; [|split].
  - split; [exact Hc|split; [exact Hpe|]]. unfold emitted. cbn [crev]. symmetry. apply app_nil_r.
  - split; [split; [intro H; discriminate H|apply noret_nil]|apply wfc_nil].
  - intros pool funcs obj main ip m fuel Hsz Hpool Hat Hip Hpolls Hlen HN.
    destruct fuel as [|f]; [exact I|]. unfold ProgProofs.sp_x.
    change (sx o fns obj afs (S f) (EFunction name params body) m) with (XNormal m).
    eapply ok_ipe; [apply ok_normal; [exact Hpolls|apply runs_to_refl]|pos].
Qed.

End Sem7.
(* ------------------------------------------------------------------ *)
(* PART 4: the compiler, one level; the induction on the compiler's fuel *)

(* element counts of array literals and argument counts of calls fit the 16-bit operand
   (the compiler truncates the count silently; `fits16` does not look at it) *)
Fixpoint lists_short (e : expr) : bool :=
  match e with
  | EPrefix _ r => lists_short r
  | EInfix _ l r => lists_short l && lists_short r
  | ETernary c t f => lists_short c && lists_short t && lists_short f
  | EArray l => (lenN l <? 65536) && forallb lists_short l
  | EHash l => forallb (fun kv => lists_short (fst kv) && lists_short (snd kv)) l
  | EIndex l i => lists_short l && lists_short i
  | ECall _ args => (lenN args <? 65536) && forallb lists_short args
  | EAssign _ v => lists_short v
  | EIf c cns alt =>
      lists_short c && forallb lists_short_s cns &&
      match alt with Some a => forallb lists_short_s a | None => true end
  | EWhile c b => lists_short c && forallb lists_short_s b
  | EForeach _ _ v b => lists_short v && forallb lists_short_s b
  | EFunction _ _ b => forallb lists_short_s b
  | ESwitch v cs =>
      lists_short v && forallb (fun c : bool * list expr * list stmt =>
                                  forallb lists_short (snd (fst c)) && forallb lists_short_s (snd c)) cs
  | _ => true
  end
with lists_short_s (s : stmt) : bool :=
  match s with SReturn e => lists_short e | SExpr e => lists_short e end.

Definition short_choice (c : bool * list expr * list stmt) : bool :=
  forallb lists_short (snd (fst c)) && forallb lists_short_s (snd c).
Definition short_pair (kv : expr * expr) : bool := lists_short (fst kv) && lists_short (snd kv).

Lemma ls_prefix : forall op r, lists_short (EPrefix op r) = lists_short r. Proof. reflexivity. Qed.
Lemma ls_infix : forall op l r, lists_short (EInfix op l r) = lists_short l && lists_short r. Proof. reflexivity. Qed.
Lemma ls_ternary : forall c t f, lists_short (ETernary c t f) = lists_short c && lists_short t && lists_short f.
Proof. reflexivity. Qed.
Lemma ls_array : forall l, lists_short (EArray l) = (lenN l <? 65536) && forallb lists_short l. Proof. reflexivity. Qed.
Lemma ls_hash : forall l, lists_short (EHash l) = forallb short_pair l. Proof. reflexivity. Qed.
Lemma ls_index : forall l i, lists_short (EIndex l i) = lists_short l && lists_short i. Proof. reflexivity. Qed.
Lemma ls_call : forall f args, lists_short (ECall f args) = (lenN args <? 65536) && forallb lists_short args.
Proof. reflexivity. Qed.
Lemma ls_assign : forall n v, lists_short (EAssign n v) = lists_short v. Proof. reflexivity. Qed.
Lemma ls_if : forall c cns alt, lists_short (EIf c cns alt) =
  lists_short c && forallb lists_short_s cns && match alt with Some a => forallb lists_short_s a | None => true end.
Proof. reflexivity. Qed.
Lemma ls_while : forall c b, lists_short (EWhile c b) = lists_short c && forallb lists_short_s b. Proof. reflexivity. Qed.
Lemma ls_foreach : forall i n v b, lists_short (EForeach i n v b) = lists_short v && forallb lists_short_s b.
Proof. reflexivity. Qed.
Lemma ls_function : forall n ps b, lists_short (EFunction n ps b) = forallb lists_short_s b. Proof. reflexivity. Qed.
Lemma ls_switch : forall v cs, lists_short (ESwitch v cs) = lists_short v && forallb short_choice cs.
Proof. reflexivity. Qed.

Ltac split_and :=
  repeat match goal with
  | H : _ && _ = true |- _ => apply andb_true_iff in H; destruct H
  end.

Local Ltac infix_case_g o fns afs e1 e2 c c1 c2 Hc R1 R2 :=
  match goal with
  | |- res_ok _ _ _ _ _ (sp_x _ _ _ (EInfix TDotDot _ _)) _ =>
      apply (cc_binary_g o fns afs _ e1 e2 OpRange vm_range c c1 c2 _ _ Hc R1 R2);
      [intros; reflexivity | apply bin_step_g_range | plain_tac]
  | |- res_ok _ _ _ _ _ (sp_x _ _ _ (EInfix ?t _ _)) _ =>
      let b := eval cbv in (binop_of_tok t) in
      match b with
      | Some ?b' =>
          apply (cc_binary_g o fns afs _ e1 e2 (opcode_of_binop b') (spec_binop o b') c c1 c2 _ _ Hc R1 R2);
          [intros; reflexivity | apply bin_step_g_binop | plain_tac]
      end
  end.

Local Ltac mutate_case o fns afs e2 c c1 c2 Hc R1 R2 :=
  match goal with
  | |- res_ok _ _ _ _ _ (sp_x _ _ _ (EInfix ?t (EIdent ?name) _)) _ =>
      let b := eval cbv in (mutator_op t) in
      match b with
      | Some ?b' => apply (cc_mutate o fns afs b' name e2 c c1 c2 _ _ t Hc R1 R2); reflexivity
      end
  end.

Section Main.
Variables (o : stdlib) (fns : fnmap) (afs : aftable).
Notation res_ok := (res_ok o fns afs).
Notation sp_x := (sp_x o fns afs).
Notation sp_xs := (sp_xs o fns afs).
Notation sp_stmt := (sp_stmt o fns afs).
Notation sp_block := (sp_block o fns afs).

Definition P_expr (fuel : nat) : Prop := forall e c c',
  cstate_ok c -> lists_short e = true -> compile_expr fuel e c = COk tt c' -> res_ok c c' (sp_x e) (Qx e).
Definition P_exprs (fuel : nat) : Prop := forall l c c',
  cstate_ok c -> forallb lists_short l = true -> compile_exprs fuel l c = COk tt c' -> res_ok c c' (sp_xs l) (Qxs l).
Definition P_stmt (fuel : nat) : Prop := forall s c c',
  cstate_ok c -> lists_short_s s = true -> compile_stmt fuel s c = COk tt c' -> res_ok c c' (sp_stmt s) (Qs s).
Definition P_block (fuel : nat) : Prop := forall b c c',
  cstate_ok c -> forallb lists_short_s b = true -> compile_block fuel b c = COk tt c' -> res_ok c c' (sp_block b) (Qb b).

Definition P_case_exprs (fuel : nat) : Prop := forall v es blk patches c po c',
  cstate_ok c -> lists_short v = true -> forallb lists_short es = true -> forallb lists_short_s blk = true ->
  compile_case_exprs fuel v es blk patches c = COk po c' -> res_case_exprs o fns afs c c' patches po v es blk.
Definition P_cases (fuel : nat) : Prop := forall v chs patches c po c',
  cstate_ok c -> lists_short v = true -> forallb short_choice chs = true ->
  compile_cases fuel v chs patches c = COk po c' -> res_cases o fns afs c c' patches po v chs.
Definition P_defaults (fuel : nat) : Prop := forall chs c c',
  cstate_ok c -> forallb short_choice chs = true ->
  compile_defaults fuel chs c = COk tt c' -> res_ok c c' (sp_defaults o fns afs chs) anycode.

Definition P_pairs (fuel : nat) : Prop := forall l c c',
  cstate_ok c -> forallb short_pair l = true ->
  compile_pairs fuel l c = COk tt c' -> exists code, emits c c' code /\ wfc code.

Local Ltac ne := apply res_ok_weaken with (Q := nonempty); [|apply nonempty_Qx].

Lemma all_fuel : forall fuel,
  P_expr fuel /\ P_exprs fuel /\ P_stmt fuel /\ P_block fuel /\
  P_case_exprs fuel /\ P_cases fuel /\ P_defaults fuel /\ P_pairs fuel.
Proof.
  induction fuel as [|f (IHe & IHl & IHs & IHb & IHce & IHc & IHd & IHp)].
  - repeat split; intro; intros; discriminate.
  - split; [|split; [|split; [|split; [|split; [|split; [|split]]]]]].
    + (* expressions *)
      intros e c c' Hc Hs H. destruct e.
      * (* EInt *)
        cbn [compile_expr] in H. destruct (inline_int v) eqn:Ei; injection H as <-; ne.
        -- apply cc_push_g; assumption.
        -- apply cc_const_g; [exact Hc|reflexivity].
      * cbn [compile_expr] in H. injection H as <-. ne. apply cc_const_g; [exact Hc|reflexivity].
      * cbn [compile_expr] in H. injection H as <-. ne. apply cc_const_g; [exact Hc|reflexivity].
      * (* EBool *)
        cbn [compile_expr] in H. destruct b; injection H as <-; ne.
        -- apply (cc_nullary_g o fns afs _ OpTrue (VBool true)); [exact Hc|reflexivity| |plain_tac].
           intros; apply exec_true; assumption.
        -- apply (cc_nullary_g o fns afs _ OpFalse (VBool false)); [exact Hc|reflexivity| |plain_tac].
           intros; apply exec_false; assumption.
      * cbn [compile_expr] in H. injection H as <-. ne. apply cc_const_g; [exact Hc|reflexivity].
      * (* EIdent *)
        cbn [compile_expr] in H. destruct (add_const (VStr name) c) as [i c1] eqn:E.
        injection H as <-. ne. apply cc_ident_g; assumption.
      * (* EPrefix *)
        rewrite compile_prefix_eq in H. rewrite ls_prefix in Hs.
        destruct (compile_expr f e c) as [[] c1| | |] eqn:E1; try discriminate. cbn [cbind] in H.
        pose proof (IHe e c c1 Hc Hs E1) as R1.
        destruct op; try discriminate; cbn [prefix_opcode] in H; injection H as <-; ne.
        -- apply (cc_unary_g o fns afs _ e OpBang (fun v => Ok (vm_bang v)) c c1 _ Hc R1);
             [intros; reflexivity | apply un_step_g_bang | plain_tac].
        -- apply (cc_unary_g o fns afs _ e OpMinus vm_minus c c1 _ Hc R1);
             [intros; reflexivity | apply un_step_g_minus | plain_tac].
        -- apply (cc_unary_g o fns afs _ e OpSquareRoot vm_sqrt c c1 _ Hc R1);
             [intros; reflexivity | apply un_step_g_sqrt | plain_tac].
      * (* EInfix *)
        rewrite ls_infix in Hs. split_and.
        destruct (tokty_eq_dec op TPeriod) as [->|Hne].
        { destruct (compile_dot_inv _ _ _ _ _ H) as (c1 & name & E1 & En & ->). ne.
          exact (cc_dot_g o fns afs e1 e2 name c c1 _ Hc (IHe e1 c c1 Hc ltac:(assumption) E1) En). }
        rewrite compile_infix_eq in H by exact Hne.
        destruct (compile_expr f e1 c) as [[] c1| | |] eqn:E1; try discriminate. cbn [cbind] in H.
        destruct (compile_expr f e2 c1) as [[] c2| | |] eqn:E2; try discriminate. cbn [cbind] in H.
        pose proof (IHe e1 c c1 Hc ltac:(assumption) E1) as R1.
        pose proof (IHe e2 c1 c2 (res_ok_ok _ _ _ _ _ _ _ R1) ltac:(assumption) E2) as R2.
        destruct op; cbn [infix_opcode is_mutator] in H; try discriminate;
          try (exfalso; apply Hne; reflexivity);
          first [ injection H as <-; ne; infix_case_g o fns afs e1 e2 c c1 c2 Hc R1 R2
                | destruct e1; try discriminate; injection H as <-; ne;
                  mutate_case o fns afs e2 c c1 c2 Hc R1 R2 ].
      * (* EPostfix *)
        cbn [compile_expr] in H. destruct op; try discriminate;
          destruct (add_const (VStr name) c) as [i c1] eqn:E; injection H as <-; ne;
          first [apply (cc_postfix_g o fns afs true); assumption | apply (cc_postfix_g o fns afs false); assumption].
      * (* ETernary *)
        rewrite compile_ternary_eq in H. rewrite ls_ternary in Hs. split_and.
        destruct (compile_expr f e1 c) as [[] c1| | |] eqn:E1; try discriminate. cbn [cbind] in H.
        pose proof (IHe e1 c c1 Hc ltac:(assumption) E1) as R1.
        pose proof (emits_ok _ _ _ (emits_emit1 OpJumpIfFalse 9999 c1 (res_ok_ok _ _ _ _ _ _ _ R1))) as Hc2.
        destruct (compile_expr f e2 (emit1' OpJumpIfFalse 9999 c1)) as [[] c3| | |] eqn:E2; try discriminate.
        cbn [cbind] in H. cbv zeta in H.
        pose proof (IHe e2 _ c3 Hc2 ltac:(assumption) E2) as R2.
        assert (Hc5 : cstate_ok (patch (clen c1) (clen (emit1' OpJump 9999 c3)) (emit1' OpJump 9999 c3))).
        { apply patch_ok. eapply emits_ok. apply emits_emit1. exact (res_ok_ok _ _ _ _ _ _ _ R2). }
        destruct (compile_expr f e3 _) as [[] c6| | |] eqn:E3 in H; try discriminate.
        cbn [cbind] in H. injection H as <-.
        pose proof (IHe e3 _ c6 Hc5 ltac:(assumption) E3) as R3. ne.
        exact (cc_ternary o fns afs e1 e2 e3 c c1 c3 c6 _ _ _ Hc R1 R2 R3).
      * (* EArray *)
        rewrite compile_array_eq in H. rewrite ls_array in Hs. split_and.
        destruct (compile_exprs f l c) as [[] c1| | |] eqn:E1; try discriminate. cbn [cbind] in H.
        injection H as <-. ne. apply cc_array; [exact Hc| |apply N.ltb_lt; assumption]. apply IHl; assumption.
      * (* EHash: outside the reference semantics *)
        apply compile_hash_inv_keys in H. destruct H as (ks & c1 & Hk & E1 & ->).
        rewrite ls_hash in Hs.
        destruct (IHp _ c c1 Hc (forallb_perm _ _ _ _ (hash_keys_perm _ _ Hk) Hs) E1) as (code1 & Em1 & Wc1). ne.
        exact (cc_hash o fns afs l _ c c1 code1 Em1 Wc1).
      * (* EIndex *)
        rewrite compile_index_eq in H. rewrite ls_index in Hs. split_and.
        destruct (compile_expr f e1 c) as [[] c1| | |] eqn:E1; try discriminate. cbn [cbind] in H.
        destruct (compile_expr f e2 c1) as [[] c2| | |] eqn:E2; try discriminate. cbn [cbind] in H.
        pose proof (IHe e1 c c1 Hc ltac:(assumption) E1) as R1.
        pose proof (IHe e2 c1 c2 (res_ok_ok _ _ _ _ _ _ _ R1) ltac:(assumption) E2) as R2.
        injection H as <-. ne.
        apply (cc_binary_g o fns afs _ e1 e2 OpIndex (spec_index o) c c1 c2 _ _ Hc R1 R2);
          [intros; reflexivity | apply bin_step_g_index | plain_tac].
      * (* ECall *)
        apply compile_call_inv in H. destruct H as (c1 & name & E1 & Es & ->).
        rewrite ls_call in Hs. split_and.
        ne. apply cc_call; [exact Hc| |exact Es|apply N.ltb_lt; assumption]. apply IHl; assumption.
      * (* EAssign *)
        rewrite compile_assign_eq in H. rewrite ls_assign in Hs.
        destruct (compile_expr f e c) as [[] c1| | |] eqn:E1; try discriminate. cbn [cbind] in H.
        injection H as <-. ne. eapply cc_assign; [exact Hc|]. apply IHe; eassumption.
      * (* ELocal *)
        cbn [compile_expr] in H. injection H as <-. ne. apply cc_local. exact Hc.
      * (* EIf *)
        rewrite compile_if_eq in H. rewrite ls_if in Hs. split_and.
        destruct (compile_expr f e c) as [[] c1| | |] eqn:E1; try discriminate. cbn [cbind] in H.
        pose proof (IHe e c c1 Hc ltac:(assumption) E1) as R1.
        pose proof (emits_ok _ _ _ (emits_emit1 OpJumpIfFalse 9999 c1 (res_ok_ok _ _ _ _ _ _ _ R1))) as Hc2.
        destruct (compile_block f cons (emit1' OpJumpIfFalse 9999 c1)) as [[] c3| | |] eqn:E2; try discriminate.
        cbn [cbind] in H. cbv zeta in H.
        pose proof (IHb cons _ c3 Hc2 ltac:(assumption) E2) as R2.
        destruct alt as [a|].
        -- match type of H with cbind (compile_block f a ?c6) _ = _ =>
             assert (Hc6 : cstate_ok c6);
             [apply patch_ok; eapply emits_ok; apply emits_emit1; apply patch_ok; exact (res_ok_ok _ _ _ _ _ _ _ R2)|];
             destruct (compile_block f a c6) as [[] c7| | |] eqn:E3; try discriminate
           end.
           cbn [cbind] in H. injection H as <-.
           pose proof (IHb a _ c7 Hc6 ltac:(assumption) E3) as R3. ne.
           exact (cc_if_else o fns afs e cons a c c1 c3 c7 _ _ _ Hc R1 R2 R3).
        -- injection H as <-. ne. exact (cc_if_none o fns afs e cons c c1 c3 _ _ Hc R1 R2).
      * (* EWhile *)
        rewrite compile_while_eq in H. rewrite ls_while in Hs. split_and.
        destruct (compile_expr f e c) as [[] c1| | |] eqn:E1; try discriminate. cbn [cbind] in H.
        pose proof (IHe e c c1 Hc ltac:(assumption) E1) as R1.
        pose proof (emits_ok _ _ _ (emits_emit1 OpJumpIfFalse 9999 c1 (res_ok_ok _ _ _ _ _ _ _ R1))) as Hc2.
        destruct (compile_block f body (emit1' OpJumpIfFalse 9999 c1)) as [[] c3| | |] eqn:E2; try discriminate.
        cbn [cbind] in H. cbv zeta in H. injection H as <-.
        pose proof (IHb body _ c3 Hc2 ltac:(assumption) E2) as R2. ne.
        exact (cc_while o fns afs e body c c1 c3 _ _ Hc R1 R2).
      * (* EForeach *)
        rewrite compile_foreach_eq in H. rewrite ls_foreach in Hs. split_and.
        destruct (compile_expr f e c) as [[] c1| | |] eqn:E1; try discriminate. cbn [cbind] in H.
        pose proof (IHe e c c1 Hc ltac:(assumption) E1) as R1. cbv zeta in H.
        match type of H with cbind (compile_block f body ?c5) _ = _ =>
          assert (Hc5 : cstate_ok c5);
          [eapply emits_ok; apply emits_emit1; eapply emits_ok; apply emits_emit0;
           destruct (emits_const (VStr idx) _ (emits_ok _ _ _ (emits_emit0 OpIterationReset c1 (res_ok_ok _ _ _ _ _ _ _ R1))))
             as (i1 & K1 & _);
           destruct (emits_const (VStr ident) _ (emits_ok _ _ _ K1)) as (i2 & K2 & _);
           exact (emits_ok _ _ _ K2)|];
          destruct (compile_block f body c5) as [[] c6| | |] eqn:E2; try discriminate
        end.
        cbn [cbind] in H. injection H as <-.
        pose proof (IHb body _ c6 Hc5 ltac:(assumption) E2) as R2. ne.
        exact (cc_foreach o fns afs idx ident e body c c1 c6 _ _ Hc R1 R2).
      * (* EFunction: nothing is emitted here *)
        apply compile_function_inv in H. destruct H as (c1 & cs & fs & E1 & -> & ->).
        rewrite ls_function in Hs.
        assert (Hc0 : cstate_ok (mkC [] 0 (consts c) (funcs c))) by reflexivity.
        destruct (IHb body _ c1 Hc0 Hs E1) as (code1 & Em1 & _).
        apply cc_function; [exact Hc|exact (emits_pe _ _ _ Em1)].
      * (* ESwitch *)
        rewrite compile_switch_eq in H. rewrite ls_switch in Hs. split_and.
        destruct (compile_cases f e choices [] c) as [ps c1| | |] eqn:E1; try discriminate. cbn [cbind] in H.
        pose proof (IHc e choices [] c ps c1 Hc ltac:(assumption) ltac:(assumption) E1) as R1.
        destruct (compile_defaults f choices c1) as [[] c2| | |] eqn:E2; try discriminate. cbn [cbind] in H.
        pose proof (IHd choices c1 c2 (res_cases_ok _ _ _ _ _ _ _ _ _ R1) ltac:(assumption) E2) as R2.
        injection H as <-. ne. exact (cc_switch o fns afs e choices c c1 c2 ps _ Hc R1 R2).
    + (* expression lists *)
      intros l c c' Hc Hs H. destruct l as [|e l].
      * rewrite compile_exprs_nil_eq in H. injection H as <-. apply cc_exprs_nil. exact Hc.
      * rewrite compile_exprs_cons_eq in H. cbn [forallb] in Hs. split_and.
        destruct (compile_expr f e c) as [[] c1| | |] eqn:E1; try discriminate. cbn [cbind] in H.
        pose proof (IHe e c c1 Hc ltac:(assumption) E1) as R1.
        apply (cc_exprs_cons o fns afs e l c c1 c'); [exact Hc|exact R1|].
        apply IHl; [exact (res_ok_ok _ _ _ _ _ _ _ R1)|assumption|exact H].
    + (* statements *)
      intros s c c' Hc Hs H. destruct s as [e|e]; cbn [lists_short_s] in Hs.
      * rewrite compile_stmt_return_eq in H.
        destruct (compile_expr f e c) as [[] c1| | |] eqn:E1; try discriminate. cbn [cbind] in H.
        injection H as <-. eapply cc_stmt_return; [exact Hc|]. apply IHe; eassumption.
      * rewrite compile_stmt_expr_eq in H. eapply cc_stmt_expr. apply IHe; eassumption.
    + (* blocks *)
      intros b c c' Hc Hs H. destruct b as [|s b].
      * rewrite compile_block_nil_eq in H. injection H as <-. apply cc_block_nil. exact Hc.
      * rewrite compile_block_cons_eq in H. cbn [forallb] in Hs. split_and.
        destruct (compile_stmt f s c) as [[] c1| | |] eqn:E1; try discriminate. cbn [cbind] in H.
        pose proof (IHs s c c1 Hc ltac:(assumption) E1) as R1.
        apply (cc_block_cons o fns afs s b c c1 c' Hc R1).
        apply IHb; [exact (res_ok_ok _ _ _ _ _ _ _ R1)|assumption|exact H].
    + (* the case expressions of one arm *)
      intros v es blk patches c po c' Hc Hsv Hses Hsb H. destruct es as [|e es'].
      * rewrite compile_case_exprs_nil_eq in H. injection H as <- <-. apply cc_case_exprs_nil. exact Hc.
      * rewrite compile_case_exprs_cons_eq in H. cbn [forallb] in Hses. split_and.
        destruct (compile_expr f v c) as [[] c1| | |] eqn:E1; try discriminate. cbn [cbind] in H.
        pose proof (IHe v c c1 Hc Hsv E1) as R1.
        destruct (compile_expr f e c1) as [[] c2| | |] eqn:E2; try discriminate. cbn [cbind] in H.
        pose proof (IHe e c1 c2 (res_ok_ok _ _ _ _ _ _ _ R1) ltac:(assumption) E2) as R2. cbv zeta in H.
        assert (Hc4 : cstate_ok (emit1' OpJumpIfFalse 9999 (emit0 OpCase c2))).
        { eapply emits_ok. apply emits_emit1. eapply emits_ok. apply emits_emit0. exact (res_ok_ok _ _ _ _ _ _ _ R2). }
        destruct (compile_block f blk _) as [[] c5| | |] eqn:E5 in H; try discriminate. cbn [cbind] in H.
        pose proof (IHb blk _ c5 Hc4 Hsb E5) as R5.
        match type of H with compile_case_exprs f v es' blk _ ?c7 = _ =>
          assert (Hc7 : cstate_ok c7);
          [apply patch_ok; eapply emits_ok; apply emits_emit1; exact (res_ok_ok _ _ _ _ _ _ _ R5)|] end.
        pose proof (IHce v es' blk _ _ po c' Hc7 Hsv ltac:(assumption) Hsb H) as R7.
        exact (cc_case_exprs_cons o fns afs v e es' blk patches po c c1 c2 c5 c' _ _ _ Hc R1 R2 R5 R7).
    + (* the arms of a switch *)
      intros v chs patches c po c' Hc Hsv Hsc H. destruct chs as [|[[d es] blk] rest].
      * rewrite compile_cases_nil_eq in H. injection H as <- <-. apply cc_cases_nil. exact Hc.
      * cbn [forallb] in Hsc. apply andb_true_iff in Hsc. destruct Hsc as [Hs1 Hsr].
        unfold short_choice in Hs1. cbn [fst snd] in Hs1. apply andb_true_iff in Hs1. destruct Hs1 as [Hs1 Hs2].
        destruct d.
        -- rewrite compile_cases_default_eq in H. apply cc_cases_default.
           exact (IHc v rest patches c po c' Hc Hsv Hsr H).
        -- rewrite compile_cases_arm_eq in H.
           destruct (compile_case_exprs f v es blk patches c) as [p1 c1| | |] eqn:E1; try discriminate.
           cbn [cbind] in H.
           pose proof (IHce v es blk patches c p1 c1 Hc Hsv Hs1 Hs2 E1) as R1.
           pose proof (IHc v rest p1 c1 po c' (res_case_exprs_ok _ _ _ _ _ _ _ _ _ _ R1) Hsv Hsr H) as R2.
           exact (cc_cases_arm o fns afs c c1 c' patches p1 po v es blk rest Hc R1 R2).
    + (* the default blocks *)
      intros chs c c' Hc Hsc H. destruct chs as [|[[d es] blk] rest].
      * rewrite compile_defaults_nil_eq in H. injection H as <-. apply cc_defaults_nil. exact Hc.
      * cbn [forallb] in Hsc. apply andb_true_iff in Hsc. destruct Hsc as [Hs1 Hsr].
        unfold short_choice in Hs1. cbn [fst snd] in Hs1. apply andb_true_iff in Hs1. destruct Hs1 as [Hs1 Hs2].
        destruct d.
        -- rewrite compile_defaults_default_eq in H.
           destruct (compile_block f blk c) as [[] c1| | |] eqn:E1; try discriminate. cbn [cbind] in H.
           pose proof (IHb blk c c1 Hc Hs2 E1) as R1.
           pose proof (IHd rest c1 c' (res_ok_ok _ _ _ _ _ _ _ R1) Hsr H) as R2.
           exact (cc_defaults_cons o fns afs c c1 c' es blk rest _ _ Hc R1 R2).
        -- rewrite compile_defaults_skip_eq in H.
           exact (cc_defaults_skip o fns afs c c' es blk rest _ (IHd rest c c' Hc Hsr H)).
    + (* the pairs of a hash literal: bookkeeping only *)
      intros l c c' Hc Hs H. destruct l as [|[k v] l].
      * rewrite compile_pairs_nil_eq in H. injection H as <-. exists []. split; [apply emits_refl; exact Hc|apply wfc_nil].
      * rewrite compile_pairs_cons_eq in H. cbn [forallb] in Hs. apply andb_true_iff in Hs. destruct Hs as [Hs1 Hsr].
        unfold short_pair in Hs1. cbn [fst snd] in Hs1. apply andb_true_iff in Hs1. destruct Hs1 as [Hs1 Hs2].
        destruct (compile_expr f k c) as [[] c1| | |] eqn:E1; try discriminate. cbn [cbind] in H.
        destruct (IHe k c c1 Hc Hs1 E1) as (code1 & Em1 & [_ Wk] & _).
        destruct (compile_expr f v c1) as [[] c2| | |] eqn:E2; try discriminate. cbn [cbind] in H.
        destruct (IHe v c1 c2 (emits_ok _ _ _ Em1) Hs2 E2) as (code2 & Em2 & [_ Wv] & _).
        destruct (IHp l c2 c' (emits_ok _ _ _ Em2) Hsr H) as (code3 & Em3 & W3).
        exists (code1 ++ code2 ++ code3). split; [|wsolve].
        eapply emits_trans; [exact Em1|]. eapply emits_trans; [exact Em2|exact Em3].
Qed.

End Main.

(* ------------------------------------------------------------------ *)
(* PART 5: function bodies, the induction on the reference fuel, the top level *)

Section Top.
Variables (o : stdlib) (fns : fnmap).

(* a block whose code ends in OpReturn for `last_op` never falls through *)
Lemma sstmt_return_not_normal : forall afs obj f e m m',
  sstmt o fns obj afs f (SReturn e) m <> XNormal m'.
Proof.
  intros afs obj f e m m'. destruct f as [|f]; [discriminate|].
  change (sstmt o fns obj afs (S f) (SReturn e) m) with
    (then_ (sx o fns obj afs f e m) (fun m1 => pop1s m1 (fun v m2 => XReturn v m2))).
  destruct (sx o fns obj afs f e m) as [m1|v m1|x m1]; cbn [then_]; try discriminate.
  unfold pop1s. destruct (stk m1); discriminate.
Qed.

Lemma ends_ret_not_normal : forall afs obj b f m m',
  ends_ret b = true -> sblock o fns obj afs f b m <> XNormal m'.
Proof.
  intros afs obj. induction b as [|s b IH]; intros f m m' H; [discriminate H|].
  destruct f as [|f]; [discriminate|].
  change (sblock o fns obj afs (S f) (s :: b) m) with
    (then_ (sstmt o fns obj afs f s m) (fun m1 => sblock o fns obj afs f b m1)).
  cbn [ends_ret] in H. apply orb_true_iff in H.
  destruct (sstmt o fns obj afs f s m) as [m1|v m1|x m1] eqn:Es; cbn [then_]; try discriminate.
  destruct H as [H|H].
  - apply IH. exact H.
  - apply andb_true_iff in H. destruct H as [_ H]. destruct s as [e|e]; [|discriminate H].
    exfalso. exact (sstmt_return_not_normal _ _ _ _ _ _ Es).
Qed.

(* the code the compiler appends to a body that does not end in OpReturn *)
Lemma tail_returns_void : forall pool funcs obj code m,
  polls m = None ->
  returns_with o pool funcs fns obj (code ++ [OpVoid; OpReturn]) (lenN code) m VVoid m.
Proof.
  intros pool funcs obj code m Hp.
  assert (A1 : code_at (code ++ [OpVoid; OpReturn]) (lenN code) [OpVoid; OpReturn]).
  { exists code, []. split; [rewrite app_nil_r; reflexivity|reflexivity]. }
  pose proof (code_at_skip1 _ _ _ _ A1) as A2.
  destruct (code_at_op1 _ _ _ _ A1) as [Hl1 Hb1].
  destruct (code_at_op1 _ _ _ _ A2) as [Hl2 Hb2].
  exists 2%nat. intro k. cbn [plus].
  rewrite (exec_void o pool funcs fns obj _ _ _ m Hl1 Hp Hb1).
  rewrite (exec_return o pool funcs fns obj _ _ _ (push m VVoid) Hl2 Hp Hb2).
  destruct m; reflexivity.
Qed.

Lemma body_correct : forall afs pool funcs obj fuel af uf,
  implements pool uf af -> lenN pool <= 65535 -> lenN (fcode uf) <= 65535 ->
  forallb lists_short_s (abody af) = true ->
  Calls o fns afs pool funcs obj fuel ->
  forall m, polls m = None ->
  body_res o fns pool funcs obj (fcode uf) m (sblock o fns obj afs fuel (abody af) m).
Proof.
  intros afs pool funcs obj fuel af uf (Hpar & fc & cs0 & fs0 & c1 & Hcomp & Hpe & Hcode) Hpool Hlen Hshort HN m Hp.
  destruct (all_fuel o fns afs fc) as (_ & _ & _ & Pb & _).
  assert (Hc0 : cstate_ok (mkC [] 0 cs0 fs0)) by reflexivity.
  destruct (Pb (abody af) _ c1 Hc0 Hshort Hcomp) as (code & Em & [[HQ1 HQ2] Wc] & Sm).
  assert (Hrc : rev (crev c1) = code).
  { destruct Em as (_ & _ & Hem). unfold emitted in Hem. cbn [crev rev app] in Hem. exact Hem. }
  rewrite Hrc in Hcode. clear Hrc.
  assert (Hsz : lenN (consts c1) <= 65536) by (apply pool_extends_len in Hpe; lia).
  assert (Hk : forall tail, fcode uf = code ++ tail ->
            ok o pool funcs fns obj (fcode uf) 0 m (sblock o fns obj afs fuel (abody af) m) (0 + lenN code)).
  { intros tail Ht. apply (Sm pool funcs obj (fcode uf) 0 m fuel Hsz Hpe); try assumption; try reflexivity.
    exists [], tail. split; [exact Ht|reflexivity]. }
  unfold fn_close in Hcode.
  assert (Htail : fcode uf = code ++ [OpVoid; OpReturn] ->
            body_res o fns pool funcs obj (fcode uf) m (sblock o fns obj afs fuel (abody af) m)).
  { intro Ht. specialize (Hk _ Ht).
    destruct (sblock o fns obj afs fuel (abody af) m) as [m'|v m'|x m']; cbn [ok body_res] in *.
    - destruct Hk as [Hp' Hr]. split; [exact Hp'|]. rewrite Ht in *.
      eapply runs_then_returns; [exact Hr|]. apply tail_returns_void. exact Hp'.
    - exact Hk.
    - exact Hk. }
  destruct (last_op (S (List.length code)) code None) as [op|] eqn:El; [|exact (Htail Hcode)].
  destruct (op =? OpReturn) eqn:Eop; [|exact (Htail Hcode)].
  apply N.eqb_eq in Eop. subst op.
  specialize (Hk [] ltac:(rewrite app_nil_r; exact Hcode)).
  destruct (sblock o fns obj afs fuel (abody af) m) as [m'|v m'|x m'] eqn:Esb; cbn [ok body_res] in *.
  - exfalso. destruct (ends_ret (abody af)) eqn:Eer.
    + exact (ends_ret_not_normal _ _ _ _ _ _ Eer Esb).
    + exact (noret_last_op _ (HQ1 eq_refl) El).
  - exact Hk.
  - exact Hk.
Qed.

(* the bodies of all collected functions satisfy the side condition *)
Definition afs_short (t : aftable) : Prop :=
  forall name af, af_get name t = Some af -> forallb lists_short_s (abody af) = true.

Lemma afs_short_set : forall name af t,
  forallb lists_short_s (abody af) = true -> afs_short t -> afs_short (af_set name af t).
Proof.
  intros name af t Hs Ht name' af' H. rewrite af_get_set in H.
  destruct (str_eqb name name') eqn:En.
  - injection H as <-. exact Hs.
  - exact (Ht _ _ H).
Qed.

End Top.



Lemma fold_left_inv : forall (A : Type) (P : aftable -> Prop) (Q : A -> bool) (F : aftable -> A -> aftable) l t,
  (forall acc x, Q x = true -> P acc -> P (F acc x)) -> forallb Q l = true -> P t -> P (fold_left F l t).
Proof.
  intros A P Q F. induction l as [|x l IH]; intros t HF Hq Ht; [exact Ht|].
  cbn [forallb] in Hq. apply andb_true_iff in Hq. destruct Hq as [Hx Hl].
  cbn [fold_left]. apply IH; [exact HF|exact Hl|]. apply HF; assumption.
Qed.

Lemma collect_short : forall g,
  (forall e t, lists_short e = true -> afs_short t -> afs_short (collect_expr g e t)) /\
  (forall b t, forallb lists_short_s b = true -> afs_short t -> afs_short (collect_block g b t)).
Proof.
  induction g as [|g [IHe IHb]]; [split; intros; assumption|].
  split.
  - intros e t Hs Ht. destruct e; cbn [collect_expr]; try exact Ht.
    + rewrite ls_prefix in Hs. apply IHe; assumption.
    + rewrite ls_infix in Hs. split_and. apply IHe; [assumption|]. apply IHe; assumption.
    + rewrite ls_ternary in Hs. split_and. apply IHe; [assumption|]. apply IHe; [assumption|]. apply IHe; assumption.
    + rewrite ls_array in Hs. split_and.
      eapply (fold_left_inv _ afs_short lists_short); [|eassumption|exact Ht].
      intros acc x Hx Ha. apply IHe; assumption.
    + (* EHash: the pairs in the compiler's order *)
      change (afs_short (match hash_keys l with
                         | None => t
                         | Some ks => fold_left (fun acc (kv : expr * expr) =>
                                        collect_expr g (snd kv) (collect_expr g (fst kv) acc)) (hash_sorted ks) t
                         end)).
      rewrite ls_hash in Hs.
      destruct (hash_keys l) as [ks|] eqn:Hk; [|exact Ht].
      eapply (fold_left_inv _ afs_short short_pair);
        [|exact (forallb_perm _ _ _ _ (hash_keys_perm _ _ Hk) Hs)|exact Ht].
      intros acc kv Hkv Ha. unfold short_pair in Hkv. split_and. apply IHe; [assumption|]. apply IHe; assumption.
    + rewrite ls_index in Hs. split_and. apply IHe; [assumption|]. apply IHe; assumption.
    + rewrite ls_call in Hs. split_and.
      eapply (fold_left_inv _ afs_short lists_short); [|eassumption|exact Ht].
      intros acc x Hx Ha. apply IHe; assumption.
    + rewrite ls_assign in Hs. apply IHe; assumption.
    + rewrite ls_if in Hs. split_and. destruct alt as [a|].
      * apply IHb; [assumption|]. apply IHb; [assumption|]. apply IHe; assumption.
      * apply IHb; [assumption|]. apply IHe; assumption.
    + rewrite ls_while in Hs. split_and. apply IHb; [assumption|]. apply IHe; assumption.
    + rewrite ls_foreach in Hs. split_and. apply IHb; [assumption|]. apply IHe; assumption.
    + rewrite ls_function in Hs. apply afs_short_set; [exact Hs|]. apply IHb; assumption.
    + rewrite ls_switch in Hs. split_and.
      eapply (fold_left_inv _ afs_short short_choice); [|eassumption|].
      * intros acc c Hc Ha. destruct (fst (fst c)); [|exact Ha].
        unfold short_choice in Hc. split_and. apply IHb; assumption.
      * eapply (fold_left_inv _ afs_short short_choice); [|eassumption|exact Ht].
        intros acc c Hc Ha. destruct (fst (fst c)); [exact Ha|].
        unfold short_choice in Hc. split_and.
        eapply (fold_left_inv _ afs_short lists_short); [|eassumption|exact Ha].
        intros acc2 x Hx Ha2. apply IHb; [assumption|]. apply IHe; [assumption|]. apply IHe; assumption.
  - intros b t Hs Ht. cbn [collect_block].
    eapply (fold_left_inv _ afs_short lists_short_s); [|exact Hs|exact Ht].
    intros acc s Hx Ha. destruct s as [e|e]; cbn [lists_short_s] in Hx; apply IHe; assumption.
Qed.

Lemma ufunc_get_in : forall name l uf, ufunc_get name l = Some uf -> exists n, In (n, uf) l.
Proof.
  intros name. induction l as [|[n g] l IH]; intros uf H; [discriminate|].
  cbn [ufunc_get] in H. destruct (str_eqb n name).
  - injection H as <-. exists n. left. reflexivity.
  - destruct (IH _ H) as [n' Hin]. exists n'. right. exact Hin.
Qed.

Section Top2.
Variables (o : stdlib) (fns : fnmap).

(* the induction on the reference fuel: every callee is correct for every fuel *)
Lemma Calls_all : forall afs pool funcs obj,
  table_ok pool funcs afs -> afs_short afs -> lenN pool <= 65535 ->
  forallb (fun nf : str * ufunc => lenN (fcode (snd nf)) <=? 65535) funcs = true ->
  forall n, Calls o fns afs pool funcs obj n.
Proof.
  intros afs pool funcs obj Ht Hs Hpool Hfl.
  assert (Base : forall n, (forall f, (f < n)%nat -> Calls o fns afs pool funcs obj f) -> Calls o fns afs pool funcs obj n).
  { intros n IH name. specialize (Ht name).
    destruct (af_get name afs) as [af|] eqn:Eaf; [|exact Ht].
    destruct Ht as (uf & Hu & Himp). exists uf. split; [exact Hu|split; [apply Himp|]].
    intros f m Hf Hp.
    apply body_correct; try assumption.
    - destruct (ufunc_get_in _ _ _ Hu) as [n' Hin].
      rewrite forallb_forall in Hfl. specialize (Hfl _ Hin). cbn [snd] in Hfl. apply N.leb_le in Hfl. exact Hfl.
    - exact (Hs _ _ Eaf).
    - apply IH. exact Hf. }
  intro n. induction n as [n IH] using lt_wf_ind. apply Base. exact IH.
Qed.

(* the side condition: element counts of array literals and argument counts of calls fit 16 bits *)
Definition plain_program (p : program) : bool := forallb lists_short_s p.

(* Stage B: the theorem, given that the compiled table implements the collected definitions *)
Lemma program_compile_correct_given_table : forall (p : program),
  forallb lists_short_s p = true ->
  (forall fuelc c, compile_block fuelc p (mkC [] 0 [] []) = COk tt c ->
     table_ok (consts c) (funcs c) (collect_block fuelc p [])) ->
  program_compile_correct o fns p.
Proof.
  intros p Hshort Htab fuelc pc Hcp obj m fuel Hpolls afs.
  unfold compile_program in Hcp.
  destruct (compile_block fuelc p (mkC [] 0 [] [])) as [[] c| | |] eqn:Ec; try discriminate.
  destruct (fits16 (mkProg (consts c) (rev (crev c)) (funcs c))) eqn:Ef; try discriminate.
  injection Hcp as <-. cbn [pconsts pmain pfuncs].
  unfold fits16 in Ef. cbn [pconsts pmain pfuncs] in Ef.
  apply andb_true_iff in Ef. destruct Ef as [Ef Hfl]. apply andb_true_iff in Ef. destruct Ef as [Hml Hpl].
  apply N.leb_le in Hml. apply N.leb_le in Hpl.
  specialize (Htab fuelc c Ec). fold afs in Htab.
  assert (Hafs : afs_short afs).
  { unfold afs. apply (proj2 (collect_short fuelc)); [exact Hshort|]. intros name af H. discriminate H. }
  pose proof (Calls_all afs (consts c) (funcs c) obj Htab Hafs Hpl Hfl fuel) as HN.
  destruct (all_fuel o fns afs fuelc) as (_ & _ & _ & Pb & _).
  assert (Hc0 : cstate_ok (mkC [] 0 [] [])) by reflexivity.
  destruct (Pb p _ c Hc0 Hshort Ec) as (code & Em & _ & Sm).
  assert (Hrc : rev (crev c) = code).
  { destruct Em as (_ & _ & Hem). unfold emitted in Hem. cbn [crev rev app] in Hem. exact Hem. }
  rewrite Hrc in *. clear Hrc.
  assert (Hat : code_at code 0 code).
  { exists [], []. split; [rewrite app_nil_r; reflexivity|reflexivity]. }
  pose proof (Sm (consts c) (funcs c) obj code 0 m fuel ltac:(lia) (pool_extends_refl _) Hat eq_refl Hpolls Hml HN) as R.
  unfold sp_block in R.
  destruct (sblock o fns obj afs fuel p m) as [m'|v m'|x m']; cbn [ok] in R.
  - destruct R as [Hp' R].
    apply (R (fun r => r = (ODone VNull, m'))). exists 1%nat. intro k. cbn [plus].
    rewrite N.add_0_l. apply fall_off_is_null. exact Hp'.
  - exact (proj2 R).
  - destruct x; exact R.
Qed.

End Top2.

(* Stage C: with the static part *)
Theorem program_compile_correct_partial : forall (o : stdlib) (fns : fnmap) (p : program),
  plain_program p = true -> program_compile_correct o fns p.
Proof.
  intros o fns p Hs. apply program_compile_correct_given_table; [exact Hs|].
  intros fuelc c Ec. apply table_ok_compiled_all. exact Ec.
Qed.

(* ------------------------------------------------------------------ *)
(* PART 6: the side condition cannot be dropped: `program_compile_correct` is FALSE of a
   script with an over-long array literal. *)

Section Counterexamples.
Let o := ContainerProofs.cex_stdlib.
Let m0 := mkM [] (mkEnv [] []) [] None.

(* an array literal with 65536 elements, all of them definitions (which emit no code, so
   the code stays short and fits16 accepts): the element count is truncated to 16 bits.
   machine: OpArray 0 pushes an empty array and the script ends; reference: stack underflow. *)
Definition cex_array : program :=
  [SExpr (EArray (repeat (EFunction (L "f") [] []) (N.to_nat 65536)))].

Lemma cex_array_not_plain : plain_program cex_array = false.
Proof. vm_compute. reflexivity. Qed.

Lemma cex_array_refutes : ~ program_compile_correct o [] cex_array.
Proof.
  intro H. set (fu := N.to_nat 65600).
  set (pc := mkProg [] [6; 0; 0] [([102], mkUfunc [] [14; 24])]).
  assert (Hc : compile_program fu cex_array = CompOk pc) by (vm_compute; reflexivity).
  assert (Hex : forall n, exec o (pconsts pc) (pfuncs pc) [] HNil (5 + n) (pmain pc) 0 m0 =
                          (ODone VNull, mkM [VArray []] (mkEnv [] []) [] None)).
  { intro n. cbn [plus pconsts pfuncs pmain pc]. vm_compute. reflexivity. }
  specialize (H fu pc Hc HNil m0 fu eq_refl). cbv zeta in H.
  assert (Hs : exists mx, sblock o [] HNil (collect_block fu cex_array []) fu cex_array m0 = XErr EInternal mx)
    by (vm_compute; eexists; reflexivity).
  destruct Hs as [mx Hs]. rewrite Hs in H.
  destruct H as [n Hn]. destruct (Hn 5%nat) as [m' Hm]. unfold xexec in Hm.
  rewrite Nat.add_comm, Hex in Hm. discriminate Hm.
Qed.

(* hence the unrestricted statement does not hold *)
Theorem program_compile_correct_all_false :
  ~ (forall (o : stdlib) (fns : fnmap) (p : program), program_compile_correct o fns p).
Proof. intro H. exact (cex_array_refutes (H _ _ _)). Qed.

End Counterexamples.

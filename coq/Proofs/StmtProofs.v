(* StmtProofs.v - compile correctness of statements and control flow (C02):
   the byte-code Model/Compiler.v emits for a block of statements, run by
   Model/VM.v, behaves exactly as Spec/Exec.v's reference interpreter that
   walks the syntax tree: same completion (fall through / return value /
   error class), same final machine state.  Complete proofs only.

   Structure: (A) code positions, emission and back-patching; (B) one step of
   the machine per opcode, composition of runs against a reference result;
   (C) leaves and operators; (D) assignment, lists, statements, blocks;
   (E) conditionals and the while loop; (G) calls of built-in and host functions;
   (H) foreach; (I) switch (code with holes for the jumps patched by patch_all);
   (J) the constructs outside the reference semantics (bookkeeping only);
   (F) the induction on the compiler's fuel, and C02.
   Depends on Proofs/ExprProofs.v (step lemmas, pool lemmas; the float-literal
   case uses FloatAxioms.Prim2SF_inj through const_same_eq) and on
   Proofs/OpsProofs.v (binop_table, index_table). *)
From Coq Require Import Floats Lia.
From EF Require Import Model.Base Gen.Tables Model.Lexer Model.Ast Model.Code Model.Value Model.Env
                       Model.Reflect Model.Builtins Model.Compiler Model.VM Spec.Ops Spec.Eval Spec.Exec.
From EF Require Import Proofs.ExprProofs.
From EF Require Proofs.OpsProofs.
Open Scope N_scope.



(* ------------------------------------------------------------------ *)
(* PART A: code positions, emission, patching *)

Local Ltac lenN_norm := rewrite ?lenN_app, ?lenN_cons, ?lenN_nil in *.
Local Ltac pos := lenN_norm; lia.
Local Ltac leq := repeat (progress (rewrite <- ?app_assoc; cbn [app])); reflexivity.

(* `code` sits in `main` at byte offset `ip` *)
Definition code_at (main : list N) (ip : N) (code : list N) : Prop :=
  exists pre post, main = pre ++ code ++ post /\ lenN pre = ip.

Lemma code_at_intro : forall pre code post, code_at (pre ++ code ++ post) (lenN pre) code.
Proof. intros. exists pre, post. split; reflexivity. Qed.

Lemma code_at_app_l : forall main ip a b, code_at main ip (a ++ b) -> code_at main ip a.
Proof.
  intros main ip a b (pre & post & -> & <-). exists pre, (b ++ post). split; [list_eq|reflexivity].
Qed.

Lemma code_at_app_r : forall main ip a b, code_at main ip (a ++ b) -> code_at main (ip + lenN a) b.
Proof.
  intros main ip a b (pre & post & -> & <-). exists (pre ++ a), post. split; [list_eq|apply lenN_app].
Qed.

Lemma code_at_skip1 : forall main ip x b, code_at main ip (x :: b) -> code_at main (ip + 1) b.
Proof. intros main ip x b H. apply (code_at_app_r main ip [x] b H). Qed.

Lemma code_at_skip3 : forall main ip x y z b, code_at main ip (x :: y :: z :: b) -> code_at main (ip + 3) b.
Proof. intros main ip x y z b H. apply (code_at_app_r main ip [x; y; z] b H). Qed.

Lemma code_at_end : forall main ip code, code_at main ip code -> ip + lenN code <= lenN main.
Proof. intros main ip code (pre & post & -> & <-). pos. Qed.

Lemma code_at_op1 : forall main ip op rest, code_at main ip (op :: rest) ->
  (lenN main <=? ip) = false /\ byte_at main ip = Some op.
Proof.
  intros main ip op rest (pre & post & -> & <-).
  apply (at_op1 _ pre (rest ++ post) op); reflexivity.
Qed.

Lemma code_at_op3 : forall main ip op h l rest, code_at main ip (op :: h :: l :: rest) ->
  (lenN main <=? ip) = false /\ byte_at main ip = Some op /\ operand_at main ip = Some (h * 256 + l).
Proof.
  intros main ip op h l rest (pre & post & -> & <-).
  apply (at_op3 _ pre (rest ++ post) op h l); reflexivity.
Qed.

Lemma code_at_eq : forall main ip ip' code, code_at main ip code -> ip = ip' -> code_at main ip' code.
Proof. intros. subst. assumption. Qed.

(* what the compiler appended, with the bookkeeping facts *)
Definition emits (c c' : cstate) (code : list N) : Prop :=
  cstate_ok c' /\ pool_extends (consts c) (consts c') /\ emitted c c' code.

Lemma emits_len : forall c c' code, cstate_ok c -> emits c c' code -> clen c' = clen c + lenN code.
Proof. intros c c' code Hc (H1 & _ & H3). apply emitted_len; assumption. Qed.

Lemma emits_refl : forall c, cstate_ok c -> emits c c [].
Proof.
  intros c Hc. split; [exact Hc|split; [apply pool_extends_refl|]].
  unfold emitted. symmetry. apply app_nil_r.
Qed.

Lemma emits_trans : forall c c1 c2 a b, emits c c1 a -> emits c1 c2 b -> emits c c2 (a ++ b).
Proof.
  intros c c1 c2 a b (H1 & H2 & H3) (K1 & K2 & K3). split; [exact K1|split].
  - eapply pool_extends_trans; eassumption.
  - unfold emitted in *. rewrite K3, H3. list_eq.
Qed.

Lemma emits_emit0 : forall op c, cstate_ok c -> emits c (emit0 op c) [op].
Proof.
  intros op c Hc. split; [|split].
  - unfold cstate_ok in *. cbn [emit0 crev clen]. rewrite lenN_cons, Hc. lia.
  - apply pool_extends_refl.
  - unfold emitted. cbn [emit0 crev rev]. reflexivity.
Qed.

Lemma emits_emit1 : forall op v c, cstate_ok c -> emits c (emit1' op v c) [op; hi_byte v; lo_byte v].
Proof.
  intros op v c Hc. split; [|split].
  - unfold cstate_ok in *. cbn [emit1' emit1 snd crev clen]. rewrite !lenN_cons, Hc. lia.
  - apply pool_extends_refl.
  - unfold emitted. cbn [emit1' emit1 snd crev rev]. list_eq.
Qed.

Lemma emits_const : forall v c, cstate_ok c ->
  exists i, emits c (emit_const v c) [OpConstant; hi_byte i; lo_byte i] /\
            nthN (consts (emit_const v c)) i = Some v.
Proof.
  intros v c Hc. unfold emit_const. destruct (add_const v c) as [i c1] eqn:E.
  destruct (add_emit_spec OpConstant v c i c1 E Hc) as (Hok & Hpe & Hem & Hn).
  exists i. split; [split; [exact Hok|split; [exact Hpe|exact Hem]]|exact Hn].
Qed.

Lemma emits_add : forall op v c i c1, cstate_ok c -> add_const v c = (i, c1) ->
  emits c (emit1' op i c1) [op; hi_byte i; lo_byte i] /\ nthN (consts (emit1' op i c1)) i = Some v.
Proof.
  intros op v c i c1 Hc E.
  destruct (add_emit_spec op v c i c1 E Hc) as (Hok & Hpe & Hem & Hn).
  split; [split; [exact Hok|split; [exact Hpe|exact Hem]]|exact Hn].
Qed.

(* patching the operand of an instruction emitted earlier *)
Lemma set_nth_app : forall (a : list N) x b v, set_nth (a ++ x :: b) (lenN a) v = a ++ v :: b.
Proof.
  induction a as [|y a IH]; intros x b v.
  - reflexivity.
  - cbn [app set_nth]. rewrite lenN_cons.
    destruct (N.eqb_spec (N.succ (lenN a)) 0) as [E|E]; [lia|].
    rewrite N.pred_succ. rewrite IH. reflexivity.
Qed.

Lemma patch_spec : forall pos v c P op x y Q,
  cstate_ok c -> rev (crev c) = P ++ op :: x :: y :: Q -> lenN P = pos ->
  cstate_ok (patch pos v c) /\ clen (patch pos v c) = clen c /\ consts (patch pos v c) = consts c /\
  rev (crev (patch pos v c)) = P ++ op :: hi_byte v :: lo_byte v :: Q.
Proof.
  intros pos v c P op x y Q Hc Hr Hp.
  assert (Hcr : crev c = rev Q ++ y :: x :: op :: rev P).
  { rewrite <- (rev_involutive (crev c)), Hr. rewrite rev_app_distr. cbn [rev]. list_eq. }
  assert (Hn : clen c = lenN P + 3 + lenN Q).
  { unfold cstate_ok in Hc. rewrite Hc, Hcr. rewrite lenN_app, !lenN_cons, !lenN_rev. lia. }
  unfold patch. cbn [clen consts crev].
  replace (clen c - 1 - (pos + 1)) with (lenN (rev Q ++ [y])) by (rewrite lenN_app, lenN_rev; cbn; lia).
  replace (clen c - 1 - (pos + 2)) with (lenN (rev Q)) by (rewrite lenN_rev; lia).
  rewrite Hcr.
  replace (rev Q ++ y :: x :: op :: rev P) with ((rev Q ++ [y]) ++ x :: op :: rev P) by list_eq.
  rewrite set_nth_app.
  replace ((rev Q ++ [y]) ++ hi_byte v :: op :: rev P) with (rev Q ++ y :: hi_byte v :: op :: rev P) by list_eq.
  rewrite set_nth_app.
  repeat split.
  - unfold cstate_ok. cbn [clen crev]. rewrite Hn. rewrite lenN_app, !lenN_cons, !lenN_rev. lia.
  - rewrite rev_app_distr. cbn [rev]. rewrite !rev_involutive. list_eq.
Qed.

Lemma set_nth_len : forall l i x, lenN (set_nth l i x) = lenN l.
Proof.
  induction l as [|y l IH]; intros i x; [reflexivity|].
  cbn [set_nth]. destruct (i =? 0); [rewrite !lenN_cons; reflexivity|].
  rewrite !lenN_cons, IH. reflexivity.
Qed.

Lemma patch_ok : forall pos v c, cstate_ok c -> cstate_ok (patch pos v c).
Proof.
  intros pos v c Hc. unfold cstate_ok, patch in *. cbn [clen crev]. rewrite !set_nth_len. exact Hc.
Qed.



(* ------------------------------------------------------------------ *)
(* PART B: one step of the machine, per opcode (general in the stack) *)

Section Steps2.
Variables (o : stdlib) (pool : list value) (funcs : list (str * ufunc)) (fns : fnmap) (obj : hostval).
Notation ex := (exec o pool funcs fns obj).

Lemma exec_ph : forall k main ip m,
  (lenN main <=? ip) = false -> polls m = None -> byte_at main ip = Some OpPlaceholder ->
  ex (S k) main ip m = ex k main (ip + 1) m.
Proof. intros k main ip m Hl Hp Hb. cbn [exec]. rewrite Hl, Hp, Hb. step_simpl. rewrite ?Hp. reflexivity. Qed.

Lemma exec_set : forall k main ip m,
  (lenN main <=? ip) = false -> polls m = None -> byte_at main ip = Some OpSet ->
  ex (S k) main ip m =
  match stk m with
  | name :: v :: s =>
      match name_of o name with
      | Ok n => ex k main (ip + 1)
                  (mkM s (env_set (menv m) (trim_dollar n) (match v with VIter x _ => x | _ => v end)) (trace m) (polls m))
      | Err e => (OErr e, m)
      end
  | _ => (OErr EInternal, set_stk m [])
  end.
Proof. intros k main ip m Hl Hp Hb. cbn [exec]. rewrite Hl, Hp, Hb. step_simpl. rewrite ?Hp. reflexivity. Qed.

Lemma exec_binop_g : forall b k main ip m,
  (lenN main <=? ip) = false -> polls m = None -> byte_at main ip = Some (opcode_of_binop b) ->
  ex (S k) main ip m =
  match stk m with
  | r :: l :: s =>
      match vm_binop o b l r with
      | Ok v => ex k main (ip + 1) (set_stk m (v :: s))
      | Err e => (OErr e, set_stk m s)
      end
  | _ => (OErr EInternal, set_stk m [])
  end.
Proof.
  intros b k main ip m Hl Hp Hb. cbn [exec]. rewrite Hl, Hp.
  destruct b; cbn [opcode_of_binop] in Hb; rewrite Hb; step_simpl; rewrite ?Hp; reflexivity.
Qed.

Lemma exec_index_g : forall k main ip m,
  (lenN main <=? ip) = false -> polls m = None -> byte_at main ip = Some OpIndex ->
  ex (S k) main ip m =
  match stk m with
  | i :: l :: s =>
      match vm_index o l i with
      | Ok v => ex k main (ip + 1) (set_stk m (v :: s))
      | Err e => (OErr e, set_stk m s)
      end
  | _ => (OErr EInternal, set_stk m [])
  end.
Proof. intros k main ip m Hl Hp Hb. cbn [exec]. rewrite Hl, Hp, Hb. step_simpl. rewrite ?Hp. reflexivity. Qed.

Lemma exec_range_g : forall k main ip m,
  (lenN main <=? ip) = false -> polls m = None -> byte_at main ip = Some OpRange ->
  ex (S k) main ip m =
  match stk m with
  | b :: a :: s =>
      match vm_range a b with
      | Ok v => ex k main (ip + 1) (set_stk m (v :: s))
      | Err e => (OErr e, set_stk m s)
      end
  | _ => (OErr EInternal, set_stk m [])
  end.
Proof. intros k main ip m Hl Hp Hb. cbn [exec]. rewrite Hl, Hp, Hb. step_simpl. rewrite ?Hp. reflexivity. Qed.

Lemma exec_case_g : forall k main ip m,
  (lenN main <=? ip) = false -> polls m = None -> byte_at main ip = Some OpCase ->
  ex (S k) main ip m =
  match stk m with
  | c :: v :: s =>
      match vm_case o v c with
      | Ok r => ex k main (ip + 1) (set_stk m (r :: s))
      | Err e => (OErr e, set_stk m s)
      end
  | _ => (OErr EInternal, set_stk m [])
  end.
Proof. intros k main ip m Hl Hp Hb. cbn [exec]. rewrite Hl, Hp, Hb. step_simpl. rewrite ?Hp. reflexivity. Qed.

Lemma exec_bang_g : forall k main ip m,
  (lenN main <=? ip) = false -> polls m = None -> byte_at main ip = Some OpBang ->
  ex (S k) main ip m =
  match stk m with
  | v :: s => ex k main (ip + 1) (set_stk m (vm_bang v :: s))
  | [] => (OErr EInternal, m)
  end.
Proof. intros k main ip m Hl Hp Hb. cbn [exec]. rewrite Hl, Hp, Hb. step_simpl. rewrite ?Hp. reflexivity. Qed.

Lemma exec_minus_g : forall k main ip m,
  (lenN main <=? ip) = false -> polls m = None -> byte_at main ip = Some OpMinus ->
  ex (S k) main ip m =
  match stk m with
  | v :: s => match vm_minus v with
              | Ok w => ex k main (ip + 1) (set_stk m (w :: s))
              | Err e => (OErr e, set_stk m s)
              end
  | [] => (OErr EInternal, m)
  end.
Proof. intros k main ip m Hl Hp Hb. cbn [exec]. rewrite Hl, Hp, Hb. step_simpl. rewrite ?Hp. reflexivity. Qed.

Lemma exec_sqrt_g : forall k main ip m,
  (lenN main <=? ip) = false -> polls m = None -> byte_at main ip = Some OpSquareRoot ->
  ex (S k) main ip m =
  match stk m with
  | v :: s => match vm_sqrt v with
              | Ok w => ex k main (ip + 1) (set_stk m (w :: s))
              | Err e => (OErr e, set_stk m s)
              end
  | [] => (OErr EInternal, m)
  end.
Proof. intros k main ip m Hl Hp Hb. cbn [exec]. rewrite Hl, Hp, Hb. step_simpl. rewrite ?Hp. reflexivity. Qed.

Lemma exec_return : forall k main ip m,
  (lenN main <=? ip) = false -> polls m = None -> byte_at main ip = Some OpReturn ->
  ex (S k) main ip m =
  match stk m with
  | v :: s => (ODone v, set_stk m s)
  | [] => (OErr EInternal, m)
  end.
Proof. intros k main ip m Hl Hp Hb. cbn [exec]. rewrite Hl, Hp, Hb. step_simpl. rewrite ?Hp. reflexivity. Qed.

Lemma exec_jump : forall k main ip m arg,
  (lenN main <=? ip) = false -> polls m = None -> byte_at main ip = Some OpJump ->
  operand_at main ip = Some arg ->
  ex (S k) main ip m = if lenN main <=? arg then (OErr EInternal, m) else ex k main arg m.
Proof.
  intros k main ip m arg Hl Hp Hb Ho. cbn [exec]. rewrite Hl, Hp, Hb. step_simpl.
  rewrite Ho. step_simpl. reflexivity.
Qed.

Lemma exec_jif : forall k main ip m arg,
  (lenN main <=? ip) = false -> polls m = None -> byte_at main ip = Some OpJumpIfFalse ->
  operand_at main ip = Some arg ->
  ex (S k) main ip m =
  match stk m with
  | v :: s =>
      if truthy v then ex k main (ip + 3) (set_stk m s)
      else if lenN main <=? arg then (OErr EInternal, set_stk m s)
      else ex k main arg (set_stk m s)
  | [] => (OErr EInternal, m)
  end.
Proof.
  intros k main ip m arg Hl Hp Hb Ho. cbn [exec]. rewrite Hl, Hp, Hb. step_simpl.
  rewrite Ho. step_simpl. reflexivity.
Qed.

Definition incdec_val (v : value) (delta : Z) : option value :=
  match v with
  | VInt z => Some (VInt (wrap64 (z + delta)))
  | VFloat x => Some (VFloat (x + float_of_Z delta)%float)
  | _ => None
  end.

Lemma exec_incdec : forall (inc : bool) k main ip m arg name,
  (lenN main <=? ip) = false -> polls m = None ->
  byte_at main ip = Some (if inc then OpInc else OpDec) ->
  operand_at main ip = Some arg -> nthN pool arg = Some (VStr name) ->
  ex (S k) main ip m =
  match lookup o obj (menv m) name with
  | Err e => (OErr e, m)
  | Ok v =>
      match incdec_val v (if inc then 1%Z else (-1)%Z) with
      | None => (OErr EScript, m)
      | Some v' =>
          match stk m with
          | _ :: s => ex k main (ip + 3) (mkM s (env_set (menv m) (trim_dollar name) v') (trace m) (polls m))
          | [] => (OErr EInternal, set_env m (env_set (menv m) (trim_dollar name) v'))
          end
      end
  end.
Proof.
  intros inc k main ip m arg name Hl Hp Hb Ho Hn. cbn [exec]. rewrite Hl, Hp.
  destruct inc; rewrite Hb; step_simpl; rewrite Ho; step_simpl; rewrite Hn;
    cbn [name_of inspect bind];
    destruct (lookup o obj (menv m) name) as [v|e]; cbn [bind]; rewrite ?Hp; reflexivity.
Qed.

Lemma exec_call : forall k main ip m arg name s0 impl,
  (lenN main <=? ip) = false -> polls m = None -> byte_at main ip = Some OpCall ->
  operand_at main ip = Some arg -> stk m = VStr name :: s0 -> fn_get name fns = Some impl ->
  ex (S k) main ip m =
  match pop_n (N.to_nat arg) s0 [] with
  | None => (OErr EInternal, m)
  | Some (args, s) =>
      match impl with
      | FBuiltin bn =>
          match call_builtin o bn args with
          | None => (OErr ENeedOracle, m)
          | Some r =>
              match of_bres r with
              | Ok v => ex k main (ip + 3) (set_stk m (match v with VVoid => s | _ => v :: s end))
              | Err e => (OErr e, set_stk m s)
              end
          end
      | FHost hk =>
          match host_call hk args with
          | Ok v => ex k main (ip + 3)
                      (set_stk (mkM s (menv m) (mkCall name args :: trace m) (polls m))
                               (match v with VVoid => s | _ => v :: s end))
          | Err e => (OErr e, mkM s (menv m) (mkCall name args :: trace m) (polls m))
          end
      end
  end.
Proof.
  intros k main ip m arg name s0 impl Hl Hp Hb Ho Hs Hf. cbn [exec]. rewrite Hl, Hp, Hb. step_simpl.
  rewrite Ho. step_simpl. rewrite Hs. cbn [name_of inspect].
  destruct (pop_n (N.to_nat arg) s0 []) as [[args s]|]; [|reflexivity].
  rewrite Hf. rewrite ?Hp. destruct impl; reflexivity.
Qed.

Lemma exec_call_short : forall k main ip m arg,
  (lenN main <=? ip) = false -> polls m = None -> byte_at main ip = Some OpCall ->
  operand_at main ip = Some arg -> stk m = [] ->
  ex (S k) main ip m = (OErr EInternal, m).
Proof.
  intros k main ip m arg Hl Hp Hb Ho Hs. cbn [exec]. rewrite Hl, Hp, Hb. step_simpl.
  rewrite Ho. step_simpl. rewrite Hs. reflexivity.
Qed.

Lemma keep_bottom_all : forall (s : list value), keep_bottom (lenN s) s = s.
Proof.
  intro s. unfold keep_bottom, lenN. rewrite Nat2N.id, Nat.sub_diag. reflexivity.
Qed.

Lemma exec_iter_reset : forall k main ip m,
  (lenN main <=? ip) = false -> polls m = None -> byte_at main ip = Some OpIterationReset ->
  ex (S k) main ip m =
  match stk m with
  | [] => (OErr EInternal, set_env m (env_push (menv m) (lenN (stk m))))
  | v :: s =>
      if iterable v then ex k main (ip + 1) (mkM (VIter v 0 :: s) (env_push (menv m) (lenN (stk m))) (trace m) (polls m))
      else (OErr EScript, mkM s (env_push (menv m) (lenN (stk m))) (trace m) (polls m))
  end.
Proof. intros k main ip m Hl Hp Hb. cbn [exec]. rewrite Hl, Hp, Hb. step_simpl. rewrite ?Hp. reflexivity. Qed.

(* the body's residue `rest` is cut back to the height the loop remembered: `it :: s` *)
Lemma exec_iter_next : forall k main ip m var idx rest it s,
  (lenN main <=? ip) = false -> polls m = None -> byte_at main ip = Some OpIterationNext ->
  stk m = VStr var :: VStr idx :: rest -> drop_residue (menv m) rest = it :: s ->
  ex (S k) main ip m =
  match it with
  | VIter v off =>
      match iter_next o v off with
      | Ok (Some (x, kk)) =>
          let e1 := env_declare (menv m) (trim_dollar var) x in
          let e2 := match idx with [] => e1 | _ => env_declare e1 (trim_dollar idx) kk end in
          ex k main (ip + 1) (mkM (VBool true :: VIter v (off + 1) :: s) e2 (trace m) (polls m))
      | Ok None =>
          match env_pop (menv m) with
          | Some e1 => ex k main (ip + 1) (mkM (VBool false :: s) e1 (trace m) (polls m))
          | None => (OErr EScript, m)
          end
      | Err e => (OErr e, m)
      end
  | _ => if iterable it then (OErr ENeedOracle, m) else (OErr EScript, m)
  end.
Proof.
  intros k main ip m var idx rest it s Hl Hp Hb Hs Hd. cbn [exec]. rewrite Hl, Hp, Hb. step_simpl.
  rewrite Hs, Hd. cbn [name_of inspect].
  rewrite ?Hp. destruct it; reflexivity.
Qed.

Lemma exec_iter_next_short : forall k main ip m a b rest,
  (lenN main <=? ip) = false -> polls m = None -> byte_at main ip = Some OpIterationNext ->
  stk m = a :: b :: rest -> drop_residue (menv m) rest = [] ->
  ex (S k) main ip m = (OErr EInternal, m).
Proof.
  intros k main ip m a b rest Hl Hp Hb Hs Hd. cbn [exec]. rewrite Hl, Hp, Hb. step_simpl.
  rewrite Hs, Hd. reflexivity.
Qed.

Lemma exec_array_g : forall k main ip m arg,
  (lenN main <=? ip) = false -> polls m = None -> byte_at main ip = Some OpArray ->
  operand_at main ip = Some arg ->
  ex (S k) main ip m =
  match pop_n (N.to_nat arg) (stk m) [] with
  | Some (elems, s) => ex k main (ip + 3) (set_stk m (VArray elems :: s))
  | None => (OErr EInternal, m)
  end.
Proof.
  intros k main ip m arg Hl Hp Hb Ho. cbn [exec]. rewrite Hl, Hp, Hb. step_simpl.
  rewrite Ho. step_simpl. rewrite ?Hp. reflexivity.
Qed.

Lemma exec_call_nopop : forall k main ip m arg name s0,
  (lenN main <=? ip) = false -> polls m = None -> byte_at main ip = Some OpCall ->
  operand_at main ip = Some arg -> stk m = VStr name :: s0 -> pop_n (N.to_nat arg) s0 [] = None ->
  ex (S k) main ip m = (OErr EInternal, m).
Proof.
  intros k main ip m arg name s0 Hl Hp Hb Ho Hs Hn. cbn [exec]. rewrite Hl, Hp, Hb. step_simpl.
  rewrite Ho. step_simpl. rewrite Hs. cbn [name_of inspect]. rewrite Hn. reflexivity.
Qed.

End Steps2.

(* ------------------------------------------------------------------ *)
(* composing runs against the reference result *)

Section Runs2.
Variables (o : stdlib) (pool : list value) (funcs : list (str * ufunc)) (fns : fnmap) (obj : hostval).
Notation ex := (exec o pool funcs fns obj).
Notation rt := (runs_to o pool funcs fns obj).
Notation fw := (fails_with o pool funcs fns obj).

Definition returns_with (main : list N) (ip : N) (m : mstate) (v : value) (m' : mstate) : Prop :=
  exists n : nat, forall k : nat, ex (n + k)%nat main ip m = (ODone v, m').

(* the machine, started at ip in m, does what the reference result r says;
   when r falls through, the machine arrives at ipe *)
Definition ok (main : list N) (ip : N) (m : mstate) (r : sres) (ipe : N) : Prop :=
  match r with
  | XNormal m' => polls m' = None /\ rt main ip ipe m m'
  | XReturn v m' => returns_with main ip m v m'
  | XErr ENeedOracle _ => True
  | XErr EFuel _ => True
  | XErr x _ => fw main ip m x
  end.

Lemma ok_err : forall main ip m x m' ipe, fw main ip m x -> ok main ip m (XErr x m') ipe.
Proof. intros main ip m x m' ipe H. destruct x; cbn [ok]; try exact H; exact I. Qed.

Lemma ok_fail_step : forall main ip m x m' m'' ipe,
  (forall k, ex (S k) main ip m = (OErr x, m'')) -> ok main ip m (XErr x m') ipe.
Proof. intros. apply ok_err. eapply fails_step. eassumption. Qed.

Lemma ok_normal : forall main ip m m' ipe, polls m' = None -> rt main ip ipe m m' -> ok main ip m (XNormal m') ipe.
Proof. intros. split; assumption. Qed.

Lemma runs_then_returns : forall main a b m1 m2 v m',
  rt main a b m1 m2 -> returns_with main b m2 v m' -> returns_with main a m1 v m'.
Proof.
  intros main a b m1 m2 v m' [n1 H1] [n2 H2]. exists (n1 + n2)%nat. intro k.
  rewrite <- Nat.add_assoc. rewrite H1. apply H2.
Qed.

Lemma ok_prepend : forall main a b m m1 r e,
  rt main a b m m1 -> ok main b m1 r e -> ok main a m r e.
Proof.
  intros main a b m m1 r e H1 H2. destruct r as [m'|v m'|x m'].
  - destruct H2 as [Hp H2]. split; [exact Hp|]. eapply runs_to_trans; eassumption.
  - eapply runs_then_returns; eassumption.
  - destruct x; cbn [ok] in *; try exact I; eapply runs_then_fails; eassumption.
Qed.

Lemma ok_step : forall main a b m m1 r e,
  (forall k, ex (S k) main a m = ex k main b m1) -> ok main b m1 r e -> ok main a m r e.
Proof. intros main a b m m1 r e H. apply ok_prepend. apply runs_to_step. exact H. Qed.

Lemma ok_then : forall main a b e m r k,
  ok main a m r b ->
  (forall m1, polls m1 = None -> ok main b m1 (k m1) e) ->
  ok main a m (then_ r k) e.
Proof.
  intros main a b e m r k H1 H2. destruct r as [m'|v m'|x m']; cbn [then_].
  - destruct H1 as [Hp H1]. eapply ok_prepend; [exact H1|]. apply H2. exact Hp.
  - exact H1.
  - exact H1.
Qed.

Lemma ok_then' : forall main a b e m r k,
  ok main a m r b ->
  (forall m1, r = XNormal m1 -> polls m1 = None -> ok main b m1 (k m1) e) ->
  ok main a m (then_ r k) e.
Proof.
  intros main a b e m r k H1 H2. destruct r as [m'|v m'|x m']; cbn [then_].
  - destruct H1 as [Hp H1]. eapply ok_prepend; [exact H1|]. apply H2; [reflexivity|exact Hp].
  - exact H1.
  - exact H1.
Qed.

Lemma ok_ip : forall main a a' e m r, ok main a m r e -> a = a' -> ok main a' m r e.
Proof. intros. subst. assumption. Qed.

Lemma rt_pos : forall main a b a' b' m m', rt main a b m m' -> a = a' -> b = b' -> rt main a' b' m m'.
Proof. intros. subst. assumption. Qed.

Lemma ok_end : forall main a b e m r,
  ok main a m r b ->
  (forall m1, polls m1 = None -> rt main b e m1 m1) ->
  ok main a m r e.
Proof.
  intros main a b e m r H1 H2. destruct r as [m'|v m'|x m'].
  - destruct H1 as [Hp H1]. split; [exact Hp|]. eapply runs_to_trans; [exact H1|]. apply H2. exact Hp.
  - exact H1.
  - exact H1.
Qed.

Lemma ok_ipe : forall main a b e m r, ok main a m r b -> b = e -> ok main a m r e.
Proof. intros. subst. assumption. Qed.

(* --- runs of single instructions, located by code_at --- *)

Lemma run_ph : forall main ip rest m,
  code_at main ip (OpPlaceholder :: rest) -> polls m = None -> rt main ip (ip + 1) m m.
Proof.
  intros main ip rest m H Hp. destruct (code_at_op1 _ _ _ _ H) as [Hl Hb].
  apply runs_to_step. intro k. apply exec_ph; assumption.
Qed.

Lemma run_jump : forall main ip t rest m,
  code_at main ip (OpJump :: hi_byte t :: lo_byte t :: rest) -> polls m = None ->
  t < lenN main -> lenN main <= 65535 -> rt main ip t m m.
Proof.
  intros main ip t rest m H Hp Ht Hm. destruct (code_at_op3 _ _ _ _ _ _ H) as (Hl & Hb & Ho).
  rewrite hi_lo in Ho by lia.
  apply runs_to_step. intro k. rewrite (exec_jump o pool funcs fns obj k main ip m t Hl Hp Hb Ho).
  apply N.leb_gt in Ht. rewrite Ht. reflexivity.
Qed.

Lemma run_const : forall main ip i v rest m,
  code_at main ip (OpConstant :: hi_byte i :: lo_byte i :: rest) -> polls m = None ->
  nthN pool i = Some v -> i < 65536 -> rt main ip (ip + 3) m (push m v).
Proof.
  intros main ip i v rest m H Hp Hn Hi. destruct (code_at_op3 _ _ _ _ _ _ H) as (Hl & Hb & Ho).
  rewrite hi_lo in Ho by lia.
  apply runs_to_step. intro k. apply (exec_constant o pool funcs fns obj k main ip m i v Hl Hp Hb Ho Hn).
Qed.

(* the conditional jump, against pop1s *)
Lemma run_jif : forall main ip t rest m e (kt kf : mstate -> sres),
  code_at main ip (OpJumpIfFalse :: hi_byte t :: lo_byte t :: rest) -> polls m = None ->
  t < lenN main -> lenN main <= 65535 ->
  (forall m2, polls m2 = None -> ok main (ip + 3) m2 (kt m2) e) ->
  (forall m2, polls m2 = None -> ok main t m2 (kf m2) e) ->
  ok main ip m (pop1s m (fun v m2 => if truthy v then kt m2 else kf m2)) e.
Proof.
  intros main ip t rest m e kt kf H Hp Ht Hm Kt Kf.
  destruct (code_at_op3 _ _ _ _ _ _ H) as (Hl & Hb & Ho).
  rewrite hi_lo in Ho by lia.
  pose proof (fun k => exec_jif o pool funcs fns obj k main ip m t Hl Hp Hb Ho) as St.
  unfold pop1s. destruct (stk m) as [|v s] eqn:Es.
  - eapply ok_fail_step. exact St.
  - apply N.leb_gt in Ht. rewrite Ht in St. destruct (truthy v).
    + eapply ok_step; [exact St|]. apply Kt. exact Hp.
    + eapply ok_step; [exact St|]. apply Kf. exact Hp.
Qed.

End Runs2.



(* ------------------------------------------------------------------ *)
(* PART C: the statement per syntactic class; leaves and straight-line constructs *)

Lemma emits_pe : forall c c' code, emits c c' code -> pool_extends (consts c) (consts c').
Proof. intros c c' code H. apply H. Qed.
Lemma emits_ok : forall c c' code, emits c c' code -> cstate_ok c'.
Proof. intros c c' code H. apply H. Qed.

Local Ltac pe := eauto 7 using pool_extends_trans, pool_extends_refl, emits_pe.
Local Ltac side := try eassumption; try (solve [pe]); try lia.

Definition un_step_g (o : stdlib) (op : N) (F : value -> res value) : Prop :=
  forall pool funcs fns obj k main ip m,
  (lenN main <=? ip) = false -> polls m = None -> byte_at main ip = Some op ->
  exec o pool funcs fns obj (S k) main ip m =
  match stk m with
  | v :: s => match F v with
              | Ok w => exec o pool funcs fns obj k main (ip + 1) (set_stk m (w :: s))
              | Err e => (OErr e, set_stk m s)
              end
  | [] => (OErr EInternal, m)
  end.

Definition bin_step_g (o : stdlib) (op : N) (F : value -> value -> res value) : Prop :=
  forall pool funcs fns obj k main ip m,
  (lenN main <=? ip) = false -> polls m = None -> byte_at main ip = Some op ->
  exec o pool funcs fns obj (S k) main ip m =
  match stk m with
  | b :: a :: s => match F a b with
                   | Ok w => exec o pool funcs fns obj k main (ip + 1) (set_stk m (w :: s))
                   | Err e => (OErr e, set_stk m s)
                   end
  | _ => (OErr EInternal, set_stk m [])
  end.

Lemma un_step_g_bang : forall o, un_step_g o OpBang (fun v => Ok (vm_bang v)).
Proof. intros o pool funcs fns obj k main ip m Hl Hp Hb. apply exec_bang_g; assumption. Qed.
Lemma un_step_g_minus : forall o, un_step_g o OpMinus vm_minus.
Proof. intros o pool funcs fns obj k main ip m Hl Hp Hb. apply exec_minus_g; assumption. Qed.
Lemma un_step_g_sqrt : forall o, un_step_g o OpSquareRoot vm_sqrt.
Proof. intros o pool funcs fns obj k main ip m Hl Hp Hb. apply exec_sqrt_g; assumption. Qed.
Lemma bin_step_g_binop : forall o b, bin_step_g o (opcode_of_binop b) (spec_binop o b).
Proof.
  intros o b pool funcs fns obj k main ip m Hl Hp Hb.
  rewrite (exec_binop_g o pool funcs fns obj b k main ip m Hl Hp Hb).
  destruct (stk m) as [|r [|l s]]; try reflexivity. rewrite OpsProofs.binop_table. reflexivity.
Qed.
Lemma bin_step_g_index : forall o, bin_step_g o OpIndex (spec_index o).
Proof.
  intros o pool funcs fns obj k main ip m Hl Hp Hb.
  rewrite (exec_index_g o pool funcs fns obj k main ip m Hl Hp Hb).
  destruct (stk m) as [|r [|l s]]; try reflexivity. rewrite OpsProofs.index_table. reflexivity.
Qed.
Lemma bin_step_g_range : forall o, bin_step_g o OpRange vm_range.
Proof. intros o pool funcs fns obj k main ip m Hl Hp Hb. apply exec_range_g; assumption. Qed.
Lemma bin_step_g_case : forall o, bin_step_g o OpCase (vm_case o).
Proof. intros o pool funcs fns obj k main ip m Hl Hp Hb. apply exec_case_g; assumption. Qed.

Section Sem.
Variables (o : stdlib) (fns : fnmap).

Definition specfn := hostval -> nat -> mstate -> sres.

Definition sem (cs : list value) (start : N) (code : list N) (sp : specfn) : Prop :=
  forall pool funcs obj main ip m fuel,
    lenN cs <= 65536 -> pool_extends cs pool ->
    code_at main ip code -> ip = start -> polls m = None -> lenN main <= 65535 ->
    ok o pool funcs fns obj main ip m (sp obj fuel m) (ip + lenN code).

Lemma sem_use : forall cs start code sp, sem cs start code sp ->
  forall cs' pool funcs obj main ip m fuel,
    pool_extends cs cs' -> lenN cs' <= 65536 -> pool_extends cs' pool ->
    code_at main ip code -> ip = start -> polls m = None -> lenN main <= 65535 ->
    ok o pool funcs fns obj main ip m (sp obj fuel m) (ip + lenN code).
Proof.
  intros cs start code sp H cs' pool funcs obj main ip m fuel H1 H2 H3 H4 H5 H6 H7.
  apply H; try assumption.
  - apply pool_extends_len in H1. lia.
  - eapply pool_extends_trans; eassumption.
Qed.

Definition res_ok (c c' : cstate) (sp : specfn) (Q : list N -> Prop) : Prop :=
  exists code, emits c c' code /\ Q code /\ sem (consts c') (clen c) code sp.

Definition sp_x (e : expr) : specfn := fun obj f m => sx o fns obj f e m.
Definition sp_xs (l : list expr) : specfn := fun obj f m => sxs o fns obj f l m.
Definition sp_stmt (s : stmt) : specfn := fun obj f m => sstmt o fns obj f s m.
Definition sp_block (b : list stmt) : specfn := fun obj f m => sblock o fns obj f b m.

Definition nonempty (code : list N) : Prop := 1 <= lenN code.
Definition anycode (code : list N) : Prop := True.

Lemma res_ok_ok : forall c c' sp Q, res_ok c c' sp Q -> cstate_ok c'.
Proof. intros c c' sp Q (code & E & _). apply E. Qed.

(* --- single instructions against spec fragments --- *)

Lemma run_un : forall op F pool funcs obj main ip rest m,
  un_step_g o op F -> code_at main ip (op :: rest) -> polls m = None ->
  ok o pool funcs fns obj main ip m (pop1s m (fun v m2 => pushr m2 (F v))) (ip + 1).
Proof.
  intros op F pool funcs obj main ip rest m Hst Hat Hp.
  destruct (code_at_op1 _ _ _ _ Hat) as [Hl Hb].
  pose proof (fun k => Hst pool funcs fns obj k main ip m Hl Hp Hb) as St.
  unfold pop1s. destruct (stk m) as [|v s] eqn:Es.
  - eapply ok_fail_step. exact St.
  - destruct (F v) as [w|x] eqn:Ef; cbn [pushr].
    + apply ok_normal; [exact Hp|]. apply runs_to_step. exact St.
    + eapply ok_fail_step. exact St.
Qed.

Lemma run_bin : forall op F pool funcs obj main ip rest m,
  bin_step_g o op F -> code_at main ip (op :: rest) -> polls m = None ->
  ok o pool funcs fns obj main ip m (pop2s m (fun b a m3 => pushr m3 (F a b))) (ip + 1).
Proof.
  intros op F pool funcs obj main ip rest m Hst Hat Hp.
  destruct (code_at_op1 _ _ _ _ Hat) as [Hl Hb].
  pose proof (fun k => Hst pool funcs fns obj k main ip m Hl Hp Hb) as St.
  unfold pop2s. destruct (stk m) as [|b [|a s]] eqn:Es.
  - eapply ok_fail_step. exact St.
  - eapply ok_fail_step. exact St.
  - destruct (F a b) as [w|x] eqn:Ef; cbn [pushr].
    + apply ok_normal; [exact Hp|]. apply runs_to_step. exact St.
    + eapply ok_fail_step. exact St.
Qed.

(* --- leaves --- *)

Lemma cc_nullary_g : forall e op v c,
  cstate_ok c -> (forall obj f m, sx o fns obj (S f) e m = XNormal (push m v)) ->
  (forall pool funcs obj k main ip m,
     (lenN main <=? ip) = false -> polls m = None -> byte_at main ip = Some op ->
     exec o pool funcs fns obj (S k) main ip m = exec o pool funcs fns obj k main (ip + 1) (push m v)) ->
  res_ok c (emit0 op c) (sp_x e) nonempty.
Proof.
  intros e op v c Hc Heq Hst. exists [op]. split; [apply emits_emit0; exact Hc|split; [unfold nonempty; pos|]].
  intros pool funcs obj main ip m fuel Hsz Hpool Hat Hip Hpolls Hlen.
  destruct fuel as [|f]; [exact I|]. unfold sp_x. rewrite Heq.
  destruct (code_at_op1 _ _ _ _ Hat) as [Hl Hb].
  apply ok_normal; [exact Hpolls|]. apply runs_to_step. intro k. apply Hst; assumption.
Qed.

Lemma cc_push_g : forall t z c,
  cstate_ok c -> inline_int z = true -> res_ok c (emit1' OpPush (Z.to_N z) c) (sp_x (EInt t z)) nonempty.
Proof.
  intros t z c Hc Hz.
  unfold inline_int, inline_limit in Hz. apply andb_true_iff in Hz. destruct Hz as [Hz1 Hz2].
  apply Z.leb_le in Hz1. apply Z.leb_le in Hz2. change (Z.of_N 65534) with 65534%Z in Hz2.
  exists [OpPush; hi_byte (Z.to_N z); lo_byte (Z.to_N z)].
  split; [apply emits_emit1; exact Hc|split; [unfold nonempty; pos|]].
  intros pool funcs obj main ip m fuel Hsz Hpool Hat Hip Hpolls Hlen.
  destruct fuel as [|f]; [exact I|].
  destruct (code_at_op3 _ _ _ _ _ _ Hat) as (Hl & Hb & Ho). rewrite hi_lo in Ho by lia.
  apply ok_normal; [exact Hpolls|]. apply runs_to_step. intro k.
  rewrite (exec_push o pool funcs fns obj k _ _ m (Z.to_N z) Hl Hpolls Hb Ho).
  rewrite Z2N.id by lia. reflexivity.
Qed.

Lemma cc_const_g : forall e v c,
  cstate_ok c -> (forall obj f m, sx o fns obj (S f) e m = XNormal (push m v)) ->
  res_ok c (emit_const v c) (sp_x e) nonempty.
Proof.
  intros e v c Hc Heq. destruct (emits_const v c Hc) as (i & Em & Hn).
  exists [OpConstant; hi_byte i; lo_byte i]. split; [exact Em|split; [unfold nonempty; pos|]].
  intros pool funcs obj main ip m fuel Hsz Hpool Hat Hip Hpolls Hlen.
  destruct fuel as [|f]; [exact I|]. unfold sp_x. rewrite Heq.
  assert (Hi : i < 65536) by (apply nthN_some_lt in Hn; lia).
  apply ok_normal; [exact Hpolls|].
  eapply run_const; try eassumption. eapply pool_extends_nth; eassumption.
Qed.

Lemma cc_ident_g : forall name c i c1, cstate_ok c -> add_const (VStr name) c = (i, c1) ->
  res_ok c (emit1' OpLookup i c1) (sp_x (EIdent name)) nonempty.
Proof.
  intros name c i c1 Hc E. destruct (emits_add OpLookup _ _ _ _ Hc E) as [Em Hn].
  exists [OpLookup; hi_byte i; lo_byte i]. split; [exact Em|split; [unfold nonempty; pos|]].
  intros pool funcs obj main ip m fuel Hsz Hpool Hat Hip Hpolls Hlen.
  destruct fuel as [|f]; [exact I|].
  assert (Hi : i < 65536) by (apply nthN_some_lt in Hn; lia).
  destruct (code_at_op3 _ _ _ _ _ _ Hat) as (Hl & Hb & Ho). rewrite hi_lo in Ho by exact Hi.
  assert (Hn' : nthN pool i = Some (VStr name)) by (eapply pool_extends_nth; eassumption).
  pose proof (fun k => exec_lookup o pool funcs fns obj k _ _ m i name Hl Hpolls Hb Ho Hn') as St.
  unfold sp_x. change (sx o fns obj (S f) (EIdent name) m) with (pushr m (lookup o obj (menv m) name)).
  destruct (lookup o obj (menv m) name) as [v|x] eqn:El; cbn [pushr].
  - apply ok_normal; [exact Hpolls|]. apply runs_to_step. exact St.
  - eapply ok_fail_step. exact St.
Qed.

Lemma cc_postfix_g : forall (inc : bool) name c i c1, cstate_ok c -> add_const (VStr name) c = (i, c1) ->
  res_ok c (emit1' (if inc then OpInc else OpDec) i c1)
         (sp_x (EPostfix name (if inc then TPlusPlus else TMinusMinus))) nonempty.
Proof.
  intros inc name c i c1 Hc E.
  destruct (emits_add (if inc then OpInc else OpDec) _ _ _ _ Hc E) as [Em Hn].
  exists [if inc then OpInc else OpDec; hi_byte i; lo_byte i].
  split; [exact Em|split; [unfold nonempty; pos|]].
  intros pool funcs obj main ip m fuel Hsz Hpool Hat Hip Hpolls Hlen.
  destruct fuel as [|f]; [exact I|].
  assert (Hi : i < 65536) by (apply nthN_some_lt in Hn; lia).
  destruct (code_at_op3 _ _ _ _ _ _ Hat) as (Hl & Hb & Ho). rewrite hi_lo in Ho by exact Hi.
  assert (Hn' : nthN pool i = Some (VStr name)) by (eapply pool_extends_nth; eassumption).
  pose proof (fun k => exec_incdec o pool funcs fns obj inc k _ _ m i name Hl Hpolls Hb Ho Hn') as St.
  unfold sp_x.
  assert (Heq : sx o fns obj (S f) (EPostfix name (if inc then TPlusPlus else TMinusMinus)) m =
    match lookup o obj (menv m) name with
    | Err x => XErr x m
    | Ok v =>
        match incdec_val v (if inc then 1%Z else (-1)%Z) with
        | None => XErr EScript m
        | Some v' =>
            let m1 := set_menv m (env_set (menv m) (trim_dollar name) v') in
            match stk m1 with
            | _ :: s => XNormal (set_stk m1 s)
            | [] => XErr EInternal m1
            end
        end
    end) by (destruct inc; reflexivity).
  rewrite Heq. clear Heq.
  destruct (lookup o obj (menv m) name) as [v|x] eqn:El.
  2:{ eapply ok_fail_step. exact St. }
  destruct (incdec_val v (if inc then 1%Z else (-1)%Z)) as [v'|] eqn:Ev.
  2:{ eapply ok_fail_step. exact St. }
  cbv zeta. cbn [set_menv stk]. destruct (stk m) as [|x s] eqn:Es.
  - eapply ok_fail_step. exact St.
  - apply ok_normal; [exact Hpolls|]. apply runs_to_step. exact St.
Qed.

(* --- operators --- *)

Lemma cc_unary_g : forall e r op F c c1 Q1,
  cstate_ok c -> res_ok c c1 (sp_x r) Q1 ->
  (forall obj f m, sx o fns obj (S f) e m =
     then_ (sx o fns obj f r m) (fun m1 => pop1s m1 (fun v m2 => pushr m2 (F v)))) ->
  un_step_g o op F ->
  res_ok c (emit0 op c1) (sp_x e) nonempty.
Proof.
  intros e r op F c c1 Q1 Hc (code1 & E1 & _ & S1) Heq Hst.
  assert (Hc1 : cstate_ok c1) by apply E1.
  exists (code1 ++ [op]). split; [|split].
  - eapply emits_trans; [exact E1|]. apply emits_emit0. exact Hc1.
  - unfold nonempty. pos.
  - intros pool funcs obj main ip m fuel Hsz Hpool Hat Hip Hpolls Hlen.
    destruct fuel as [|f]; [exact I|]. unfold sp_x. rewrite Heq.
    cbn [emit0 consts] in Hsz, Hpool.
    eapply ok_ipe.
    + eapply ok_then.
      * eapply (sem_use _ _ _ _ S1 (consts c1)); try eassumption; [pe|].
        eapply code_at_app_l. exact Hat.
      * intros m1 Hp1. eapply run_un; [exact Hst| |exact Hp1].
        apply code_at_app_r in Hat. exact Hat.
    + pos.
Qed.

Lemma cc_binary_g : forall e l r op F c c1 c2 Q1 Q2,
  cstate_ok c -> res_ok c c1 (sp_x l) Q1 -> res_ok c1 c2 (sp_x r) Q2 ->
  (forall obj f m, sx o fns obj (S f) e m =
     then_ (sx o fns obj f l m) (fun m1 => then_ (sx o fns obj f r m1) (fun m2 =>
       pop2s m2 (fun b a m3 => pushr m3 (F a b))))) ->
  bin_step_g o op F ->
  res_ok c (emit0 op c2) (sp_x e) nonempty.
Proof.
  intros e l r op F c c1 c2 Q1 Q2 Hc (code1 & E1 & _ & S1) (code2 & E2 & _ & S2) Heq Hst.
  assert (Hc1 : cstate_ok c1) by apply E1.
  assert (Hc2 : cstate_ok c2) by apply E2.
  pose proof (emits_len _ _ _ Hc E1) as L1.
  exists (code1 ++ code2 ++ [op]). split; [|split].
  - eapply emits_trans; [exact E1|]. eapply emits_trans; [exact E2|]. apply emits_emit0. exact Hc2.
  - unfold nonempty. pos.
  - intros pool funcs obj main ip m fuel Hsz Hpool Hat Hip Hpolls Hlen.
    destruct fuel as [|f]; [exact I|]. unfold sp_x. rewrite Heq.
    cbn [emit0 consts] in Hsz, Hpool.
    pose proof (code_at_app_l _ _ _ _ Hat) as A1.
    pose proof (code_at_app_r _ _ _ _ Hat) as A2.
    pose proof (code_at_app_l _ _ _ _ A2) as A2l.
    pose proof (code_at_app_r _ _ _ _ A2) as A3.
    eapply ok_ipe.
    + eapply ok_then.
      * eapply (sem_use _ _ _ _ S1 (consts c2)); try eassumption; pe.
      * intros m1 Hp1. eapply ok_then.
        -- eapply (sem_use _ _ _ _ S2 (consts c2)); try eassumption; [pe|lia].
        -- intros m2 Hp2. eapply run_bin; [exact Hst|exact A3|exact Hp2].
    + pos.
Qed.

(* `l.r`: the code is that of `l[name]`, name the printed form of r; r itself is neither compiled nor run *)
Lemma sx_dot_S : forall obj f l r m,
  sx o fns obj (S f) (EInfix TPeriod l r) m =
  then_ (sx o fns obj f l m) (fun m1 => pop1s m1 (fun a m2 =>
    pushr m2 (match estr 64 r with Some name => spec_index o a (VStr name) | None => Err ENeedOracle end))).
Proof. reflexivity. Qed.

Lemma cc_dot_g : forall l r name c c1 Q1,
  cstate_ok c -> res_ok c c1 (sp_x l) Q1 -> estr 64 r = Some name ->
  res_ok c (emit0 OpIndex (emit_const (VStr name) c1)) (sp_x (EInfix TPeriod l r)) nonempty.
Proof.
  intros l r name c c1 Q1 Hc R1 Hn.
  assert (Hc1 : cstate_ok c1) by (destruct R1 as (? & E1 & _); apply E1).
  apply (cc_binary_g (EInfix TPeriod l r) l (EStr name) OpIndex (spec_index o) c c1 _ Q1 nonempty Hc R1).
  - apply cc_const_g; [exact Hc1|reflexivity].
  - intros obj f m. rewrite sx_dot_S, Hn.
    destruct f as [|f]; [reflexivity|].
    destruct (sx o fns obj (S f) l m) as [m1|v m1|x m1]; try reflexivity. cbn [then_].
    change (sx o fns obj (S f) (EStr name) m1) with (XNormal (push m1 (VStr name))). cbn [then_].
    destruct m1 as [s e t p]. destruct s as [|a s]; reflexivity.
  - apply bin_step_g_index.
Qed.

End Sem.



(* ------------------------------------------------------------------ *)
(* PART D: assignment, lists, statements, blocks, conditionals, loops *)

Local Ltac at_pos H := eapply code_at_eq; [exact H|pos].

Lemma emits_eq : forall c c' code code', emits c c' code -> code = code' -> emits c c' code'.
Proof. intros. subst. assumption. Qed.

Lemma patch_emits : forall c c3 A op x y B pos v,
  cstate_ok c -> emits c c3 (A ++ op :: x :: y :: B) -> pos = clen c + lenN A ->
  emits c (patch pos v c3) (A ++ op :: hi_byte v :: lo_byte v :: B) /\
  clen (patch pos v c3) = clen c3 /\ consts (patch pos v c3) = consts c3.
Proof.
  intros c c3 A op x y B pos v Hc (H1 & H2 & H3) Hp.
  destruct (patch_spec pos v c3 (rev (crev c) ++ A) op x y B H1) as (K1 & K2 & K3 & K4).
  - unfold emitted in H3. rewrite H3. list_eq.
  - rewrite lenN_app, lenN_rev. unfold cstate_ok in Hc. lia.
  - split; [|split; assumption]. split; [exact K1|split].
    + rewrite K3. exact H2.
    + unfold emitted. rewrite K4. list_eq.
Qed.

Definition strip_iter (v : value) : value := match v with VIter x _ => x | _ => v end.

Lemma arith_no_iter : forall o b l r v,
  vm_binop o b l r = Ok v ->
  match b with BAdd | BSub | BMul | BDiv => True | _ => False end ->
  strip_iter v = v.
Proof.
  intros o b l r v H Hb.
  destruct b; try contradiction; destruct l, r; cbn in H; try discriminate;
    repeat match type of H with (if ?c then _ else _) = _ => destruct c end;
    try discriminate; injection H as <-; reflexivity.
Qed.

Section Sem2.
Variables (o : stdlib) (fns : fnmap).
Notation res_ok := (res_ok o fns).
Notation sem := (sem o fns).
Notation sp_x := (sp_x o fns).
Notation sp_xs := (sp_xs o fns).
Notation sp_stmt := (sp_stmt o fns).
Notation sp_block := (sp_block o fns).

Definition is_fn (e : expr) : bool := match e with EFunction _ _ _ => true | _ => false end.
Definition Qx (e : expr) (code : list N) : Prop := is_fn e = false -> 1 <= lenN code.
Definition Qxs (l : list expr) (code : list N) : Prop :=
  forallb (fun e => negb (is_fn e)) l = true -> lenN l <= lenN code.

Lemma res_ok_weaken : forall c c' sp (Q Q' : list N -> Prop),
  res_ok c c' sp Q -> (forall code, Q code -> Q' code) -> res_ok c c' sp Q'.
Proof. intros c c' sp Q Q' (code & E & HQ & S) H. exists code. split; [exact E|split; [apply H; exact HQ|exact S]]. Qed.

Lemma nonempty_Qx : forall e code, nonempty code -> Qx e code.
Proof. intros e code H _. exact H. Qed.

(* --- assignment --- *)

Lemma run_set_name : forall pool funcs obj main ip rest m name,
  code_at main ip (OpSet :: rest) -> polls m = None ->
  ok o pool funcs fns obj main ip (push m (VStr name))
     (pop1s m (fun x m2 => XNormal (set_menv m2 (env_set (menv m2) (trim_dollar name) (strip_iter x))))) (ip + 1).
Proof.
  intros pool funcs obj main ip rest m name Hat Hp.
  destruct (code_at_op1 _ _ _ _ Hat) as [Hl Hb].
  pose proof (fun k => exec_set o pool funcs fns obj k main ip (push m (VStr name)) Hl Hp Hb) as St.
  cbn [push set_stk stk] in St. unfold pop1s. destruct (stk m) as [|v s] eqn:Es.
  - eapply ok_fail_step. exact St.
  - cbn [name_of inspect] in St. apply ok_normal; [exact Hp|]. apply runs_to_step. exact St.
Qed.

Lemma cc_assign : forall name v c c1 Q1,
  cstate_ok c -> res_ok c c1 (sp_x v) Q1 ->
  res_ok c (emit0 OpSet (emit_const (VStr name) c1)) (sp_x (EAssign name v)) nonempty.
Proof.
  intros name v c c1 Q1 Hc (code1 & E1 & _ & S1).
  assert (Hc1 : cstate_ok c1) by apply E1.
  destruct (emits_const (VStr name) c1 Hc1) as (i & E2 & Hn).
  set (c2 := emit_const (VStr name) c1) in *.
  assert (Hc2 : cstate_ok c2) by apply E2.
  exists (code1 ++ [OpConstant; hi_byte i; lo_byte i] ++ [OpSet]). split; [|split].
  - eapply emits_trans; [exact E1|]. eapply emits_trans; [exact E2|]. apply emits_emit0. exact Hc2.
  - unfold nonempty. pos.
  - intros pool funcs obj main ip m fuel Hsz Hpool Hat Hip Hpolls Hlen.
    destruct fuel as [|f]; [exact I|]. unfold StmtProofs.sp_x.
    change (sx o fns obj (S f) (EAssign name v) m) with
      (then_ (sx o fns obj f v m) (fun m1 => pop1s m1 (fun x m2 =>
         XNormal (set_menv m2 (env_set (menv m2) (trim_dollar name) (strip_iter x)))))).
    cbn [emit0 consts] in Hsz, Hpool.
    assert (Hi : i < 65536) by (apply nthN_some_lt in Hn; lia).
    pose proof (code_at_app_l _ _ _ _ Hat) as A1.
    pose proof (code_at_app_r _ _ _ _ Hat) as A2.
    pose proof (code_at_skip3 _ _ _ _ _ _ A2) as A3.
    eapply ok_ipe.
    + eapply ok_then.
      * eapply (sem_use _ _ _ _ _ _ S1 (consts c2)); side.
      * intros m1 Hp1. eapply ok_prepend.
        -- eapply run_const; [exact A2|exact Hp1| |exact Hi]. eapply pool_extends_nth; eassumption.
        -- eapply run_set_name; [exact A3|exact Hp1].
    + pos.
Qed.

(* x op= e *)
Lemma cc_mutate : forall bop name r c c1 c2 Q1 Q2 tok,
  cstate_ok c -> res_ok c c1 (sp_x (EIdent name)) Q1 -> res_ok c1 c2 (sp_x r) Q2 ->
  mutator_op tok = Some bop ->
  res_ok c (emit0 OpSet (emit_const (VStr name) (emit0 (opcode_of_binop bop) c2)))
         (sp_x (EInfix tok (EIdent name) r)) nonempty.
Proof.
  intros bop name r c c1 c2 Q1 Q2 tok Hc (code1 & E1 & _ & S1) (code2 & E2 & _ & S2) Hm.
  assert (Hc1 : cstate_ok c1) by apply E1.
  assert (Hc2 : cstate_ok c2) by apply E2.
  pose proof (emits_len _ _ _ Hc E1) as L1.
  set (op := opcode_of_binop bop) in *.
  pose proof (emits_emit0 op c2 Hc2) as E3.
  set (c3 := emit0 op c2) in *.
  assert (Hc3 : cstate_ok c3) by apply E3.
  destruct (emits_const (VStr name) c3 Hc3) as (i & E4 & Hn).
  set (c4 := emit_const (VStr name) c3) in *.
  assert (Hc4 : cstate_ok c4) by apply E4.
  exists (code1 ++ code2 ++ [op] ++ [OpConstant; hi_byte i; lo_byte i] ++ [OpSet]). split; [|split].
  - eapply emits_trans; [exact E1|]. eapply emits_trans; [exact E2|]. eapply emits_trans; [exact E3|].
    eapply emits_trans; [exact E4|]. apply emits_emit0. exact Hc4.
  - unfold nonempty. pos.
  - intros pool funcs obj main ip m fuel Hsz Hpool Hat Hip Hpolls Hlen.
    destruct fuel as [|f]; [exact I|]. unfold StmtProofs.sp_x.
    assert (Heq : sx o fns obj (S f) (EInfix tok (EIdent name) r) m =
      then_ (sx o fns obj f (EIdent name) m) (fun m1 => then_ (sx o fns obj f r m1) (fun m2 =>
        pop2s m2 (fun b a m3 =>
          match spec_binop o bop a b with
          | Ok v => XNormal (set_menv m3 (env_set (menv m3) (trim_dollar name) v))
          | Err x => XErr x m3
          end)))).
    { destruct tok; try discriminate Hm; cbn [sx]; rewrite Hm; reflexivity. }
    rewrite Heq. clear Heq.
    cbn [emit0 consts] in Hsz, Hpool.
    assert (Hi : i < 65536) by (apply nthN_some_lt in Hn; lia).
    pose proof (code_at_app_l _ _ _ _ Hat) as A1.
    pose proof (code_at_app_r _ _ _ _ Hat) as A2.
    pose proof (code_at_app_l _ _ _ _ A2) as A2l.
    pose proof (code_at_app_r _ _ _ _ A2) as A3.
    pose proof (code_at_skip1 _ _ _ _ A3) as A4.
    pose proof (code_at_skip3 _ _ _ _ _ _ A4) as A5.
    eapply ok_ipe.
    + eapply ok_then.
      * eapply (sem_use _ _ _ _ _ _ S1 (consts c4)); side.
      * intros m1 Hp1. eapply ok_then.
        -- eapply (sem_use _ _ _ _ _ _ S2 (consts c4)); side.
        -- intros m2 Hp2.
           destruct (code_at_op1 _ _ _ _ A3) as [Hl Hb].
           pose proof (fun k => exec_binop_g o pool funcs fns obj bop k main _ m2 Hl Hp2 Hb) as St.
           unfold pop2s. destruct (stk m2) as [|b [|a s]] eqn:Es.
           ++ eapply ok_fail_step. exact St.
           ++ eapply ok_fail_step. exact St.
           ++ rewrite <- OpsProofs.binop_table.
              destruct (vm_binop o bop a b) as [w|x] eqn:Eb.
              2:{ eapply ok_fail_step. exact St. }
              eapply ok_step; [exact St|].
              eapply ok_prepend.
              ** eapply run_const; [exact A4|exact Hp2| |exact Hi]. eapply pool_extends_nth; eassumption.
              ** assert (Hw : strip_iter w = w).
                 { eapply arith_no_iter; [exact Eb|]. destruct tok; try discriminate Hm; injection Hm as <-; exact I. }
                 pose proof (run_set_name pool funcs obj main _ _ (set_stk m2 (w :: s)) name A5 Hp2) as R.
                 unfold pop1s in R. cbn [set_stk stk] in R. rewrite Hw in R. exact R.
    + pos.
Qed.

(* --- lists of expressions, array literals --- *)

Lemma cc_exprs_nil : forall c, cstate_ok c -> res_ok c c (sp_xs []) (Qxs []).
Proof.
  intros c Hc. exists []. split; [apply emits_refl; exact Hc|split; [intros _; pos|]].
  intros pool funcs obj main ip m fuel Hsz Hpool Hat Hip Hpolls Hlen.
  destruct fuel as [|f]; [exact I|].
  eapply ok_ipe; [apply ok_normal; [exact Hpolls|apply runs_to_refl]|pos].
Qed.

Lemma cc_exprs_cons : forall e l c c1 c2,
  cstate_ok c -> res_ok c c1 (sp_x e) (Qx e) -> res_ok c1 c2 (sp_xs l) (Qxs l) ->
  res_ok c c2 (sp_xs (e :: l)) (Qxs (e :: l)).
Proof.
  intros e l c c1 c2 Hc (code1 & E1 & HQ1 & S1) (code2 & E2 & HQ2 & S2).
  pose proof (emits_len _ _ _ Hc E1) as L1.
  exists (code1 ++ code2). split; [|split].
  - eapply emits_trans; eassumption.
  - intros H. cbn [forallb] in H. apply andb_true_iff in H. destruct H as [H1 H2].
    apply negb_true_iff in H1. specialize (HQ1 H1). specialize (HQ2 H2). pos.
  - intros pool funcs obj main ip m fuel Hsz Hpool Hat Hip Hpolls Hlen.
    destruct fuel as [|f]; [exact I|]. unfold StmtProofs.sp_xs.
    change (sxs o fns obj (S f) (e :: l) m) with
      (then_ (sx o fns obj f e m) (fun m1 => sxs o fns obj f l m1)).
    pose proof (code_at_app_l _ _ _ _ Hat) as A1.
    pose proof (code_at_app_r _ _ _ _ Hat) as A2.
    eapply ok_ipe.
    + eapply ok_then.
      * eapply (sem_use _ _ _ _ _ _ S1 (consts c2)); side.
      * intros m1 Hp1. eapply (sem_use _ _ _ _ _ _ S2 (consts c2)); side.
    + pos.
Qed.

Lemma sxs_normal_nonfn : forall obj l f m m',
  sxs o fns obj f l m = XNormal m' -> forallb (fun e => negb (is_fn e)) l = true.
Proof.
  intros obj. induction l as [|e l IH]; intros f m m' H; [reflexivity|].
  destruct f as [|f]; [discriminate|].
  change (sxs o fns obj (S f) (e :: l) m) with
    (then_ (sx o fns obj f e m) (fun m1 => sxs o fns obj f l m1)) in H.
  cbn [forallb]. apply andb_true_iff.
  destruct (sx o fns obj f e m) as [m1| |] eqn:E1; cbn [then_] in H; try discriminate.
  split; [|eapply IH; exact H].
  destruct e; try reflexivity. destruct f; discriminate.
Qed.

Lemma cc_array : forall l c c1,
  cstate_ok c -> res_ok c c1 (sp_xs l) (Qxs l) ->
  res_ok c (emit1' OpArray (lenN l) c1) (sp_x (EArray l)) nonempty.
Proof.
  intros l c c1 Hc (code1 & E1 & HQ1 & S1).
  assert (Hc1 : cstate_ok c1) by apply E1.
  exists (code1 ++ [OpArray; hi_byte (lenN l); lo_byte (lenN l)]). split; [|split].
  - eapply emits_trans; [exact E1|]. apply emits_emit1. exact Hc1.
  - unfold nonempty. pos.
  - intros pool funcs obj main ip m fuel Hsz Hpool Hat Hip Hpolls Hlen.
    destruct fuel as [|f]; [exact I|]. unfold StmtProofs.sp_x.
    change (sx o fns obj (S f) (EArray l) m) with
      (then_ (sxs o fns obj f l m) (fun m1 =>
         match pop_n (List.length l) (stk m1) [] with
         | Some (elems, s) => XNormal (set_stk m1 (VArray elems :: s))
         | None => XErr EInternal m1
         end)).
    cbn [emit1' emit1 snd consts] in Hsz, Hpool.
    pose proof (code_at_app_l _ _ _ _ Hat) as A1.
    pose proof (code_at_app_r _ _ _ _ Hat) as A2.
    pose proof (code_at_end _ _ _ Hat) as Hend.
    eapply ok_ipe.
    + eapply ok_then'.
      * eapply (sem_use _ _ _ _ _ _ S1 (consts c1)); side.
      * intros m1 Hn1 Hp1. apply sxs_normal_nonfn in Hn1. specialize (HQ1 Hn1).
        assert (Hl16 : lenN l < 65536) by (rewrite lenN_app in Hend; lia).
        destruct (code_at_op3 _ _ _ _ _ _ A2) as (Hl & Hb & Ho). rewrite hi_lo in Ho by exact Hl16.
        pose proof (fun k => exec_array_g o pool funcs fns obj k main _ m1 (lenN l) Hl Hp1 Hb Ho) as St.
        unfold lenN in St at 2. rewrite Nat2N.id in St.
        destruct (pop_n (List.length l) (stk m1) []) as [[elems s]|].
        -- apply ok_normal; [exact Hp1|]. apply runs_to_step. exact St.
        -- eapply ok_fail_step. exact St.
    + pos.
Qed.

(* --- statements and blocks --- *)

Lemma cc_stmt_expr : forall e c c' Q, res_ok c c' (sp_x e) Q -> res_ok c c' (sp_stmt (SExpr e)) anycode.
Proof.
  intros e c c' Q (code & E & _ & S). exists code. split; [exact E|split; [exact I|]].
  intros pool funcs obj main ip m fuel Hsz Hpool Hat Hip Hpolls Hlen.
  destruct fuel as [|f]; [exact I|]. apply S; assumption.
Qed.

Lemma cc_stmt_return : forall e c c1 Q,
  cstate_ok c -> res_ok c c1 (sp_x e) Q -> res_ok c (emit0 OpReturn c1) (sp_stmt (SReturn e)) anycode.
Proof.
  intros e c c1 Q Hc (code1 & E1 & _ & S1).
  assert (Hc1 : cstate_ok c1) by apply E1.
  exists (code1 ++ [OpReturn]). split; [|split].
  - eapply emits_trans; [exact E1|]. apply emits_emit0. exact Hc1.
  - exact I.
  - intros pool funcs obj main ip m fuel Hsz Hpool Hat Hip Hpolls Hlen.
    destruct fuel as [|f]; [exact I|]. unfold StmtProofs.sp_stmt.
    change (sstmt o fns obj (S f) (SReturn e) m) with
      (then_ (sx o fns obj f e m) (fun m1 => pop1s m1 (fun v m2 => XReturn v m2))).
    cbn [emit0 consts] in Hsz, Hpool.
    pose proof (code_at_app_l _ _ _ _ Hat) as A1.
    pose proof (code_at_app_r _ _ _ _ Hat) as A2.
    eapply ok_then.
    + eapply (sem_use _ _ _ _ _ _ S1 (consts c1)); side.
    + intros m1 Hp1. destruct (code_at_op1 _ _ _ _ A2) as [Hl Hb].
      pose proof (fun k => exec_return o pool funcs fns obj k main _ m1 Hl Hp1 Hb) as St.
      unfold pop1s. destruct (stk m1) as [|v s] eqn:Es.
      * eapply ok_fail_step. exact St.
      * exists 1%nat. intro k. apply St.
Qed.

Lemma cc_block_nil : forall c, cstate_ok c -> res_ok c c (sp_block []) anycode.
Proof.
  intros c Hc. exists []. split; [apply emits_refl; exact Hc|split; [exact I|]].
  intros pool funcs obj main ip m fuel Hsz Hpool Hat Hip Hpolls Hlen.
  destruct fuel as [|f]; [exact I|].
  eapply ok_ipe; [apply ok_normal; [exact Hpolls|apply runs_to_refl]|pos].
Qed.

Lemma cc_block_cons : forall s b c c1 c2 Q1 Q2,
  cstate_ok c -> res_ok c c1 (sp_stmt s) Q1 -> res_ok c1 c2 (sp_block b) Q2 ->
  res_ok c c2 (sp_block (s :: b)) anycode.
Proof.
  intros s b c c1 c2 Q1 Q2 Hc (code1 & E1 & _ & S1) (code2 & E2 & _ & S2).
  pose proof (emits_len _ _ _ Hc E1) as L1.
  exists (code1 ++ code2). split; [|split].
  - eapply emits_trans; eassumption.
  - exact I.
  - intros pool funcs obj main ip m fuel Hsz Hpool Hat Hip Hpolls Hlen.
    destruct fuel as [|f]; [exact I|]. unfold StmtProofs.sp_block.
    change (sblock o fns obj (S f) (s :: b) m) with
      (then_ (sstmt o fns obj f s m) (fun m1 => sblock o fns obj f b m1)).
    pose proof (code_at_app_l _ _ _ _ Hat) as A1.
    pose proof (code_at_app_r _ _ _ _ Hat) as A2.
    eapply ok_ipe.
    + eapply ok_then.
      * eapply (sem_use _ _ _ _ _ _ S1 (consts c2)); side.
      * intros m1 Hp1. eapply (sem_use _ _ _ _ _ _ S2 (consts c2)); side.
    + pos.
Qed.

End Sem2.



(* ------------------------------------------------------------------ *)
(* PART E: conditionals and the while loop *)

Section Sem3.
Variables (o : stdlib) (fns : fnmap).
Notation res_ok := (res_ok o fns).
Notation sem := (sem o fns).
Notation sp_x := (sp_x o fns).
Notation sp_xs := (sp_xs o fns).
Notation sp_stmt := (sp_stmt o fns).
Notation sp_block := (sp_block o fns).

Lemma cc_if_none : forall cond cns c c1 c3 Q1 Q3,
  cstate_ok c -> res_ok c c1 (sp_x cond) Q1 ->
  res_ok (emit1' OpJumpIfFalse 9999 c1) c3 (sp_block cns) Q3 ->
  res_ok c (emit0 OpPlaceholder (patch (clen c1) (clen c3) c3)) (sp_x (EIf cond cns None)) nonempty.
Proof.
  intros cond cns c c1 c3 Q1 Q3 Hc (code1 & E1 & _ & S1) (code3 & E3 & _ & S3).
  assert (Hc1 : cstate_ok c1) by apply E1.
  pose proof (emits_emit1 OpJumpIfFalse 9999 c1 Hc1) as E2.
  set (c2 := emit1' OpJumpIfFalse 9999 c1) in *.
  assert (Hc2 : cstate_ok c2) by apply E2.
  pose proof (emits_len _ _ _ Hc E1) as L1.
  pose proof (emits_len _ _ _ Hc1 E2) as L2.
  pose proof (emits_len _ _ _ Hc2 E3) as L3.
  set (T := clen c3) in *.
  assert (E13 : emits c c3 (code1 ++ OpJumpIfFalse :: hi_byte 9999 :: lo_byte 9999 :: code3)).
  { eapply emits_eq; [eapply emits_trans; [exact E1|eapply emits_trans; [exact E2|exact E3]]|leq]. }
  destruct (patch_emits c c3 code1 _ _ _ code3 (clen c1) T Hc E13 L1) as (E4 & L4 & CS4).
  set (c4 := patch (clen c1) T c3) in *.
  assert (Hc4 : cstate_ok c4) by apply E4.
  exists (code1 ++ [OpJumpIfFalse; hi_byte T; lo_byte T] ++ code3 ++ [OpPlaceholder]). split; [|split].
  - eapply emits_eq; [eapply emits_trans; [exact E4|apply emits_emit0; exact Hc4]|leq].
  - unfold nonempty. pos.
  - intros pool funcs obj main ip m fuel Hsz Hpool Hat Hip Hpolls Hlen.
    destruct fuel as [|f]; [exact I|]. unfold StmtProofs.sp_x.
    change (sx o fns obj (S f) (EIf cond cns None) m) with
      (then_ (sx o fns obj f cond m) (fun m1 => pop1s m1 (fun v m2 =>
         if truthy v then sblock o fns obj f cns m2 else XNormal m2))).
    cbn [emit0 consts] in Hsz, Hpool. rewrite CS4 in Hsz, Hpool.
    pose proof (code_at_end _ _ _ Hat) as Hend.
    pose proof (code_at_app_l _ _ _ _ Hat) as A1.
    pose proof (code_at_app_r _ _ _ _ Hat) as A2.
    pose proof (code_at_app_r _ _ _ _ A2) as A3.
    pose proof (code_at_app_l _ _ _ _ A3) as A3l.
    pose proof (code_at_app_r _ _ _ _ A3) as A4.
    change (lenN [OpJumpIfFalse; hi_byte T; lo_byte T]) with 3 in *.
    change (lenN [OpJumpIfFalse; hi_byte 9999; lo_byte 9999]) with 3 in *.
    assert (HT : T = ip + lenN code1 + 3 + lenN code3) by lia.
    eapply ok_ipe.
    + eapply ok_then.
      * eapply (sem_use _ _ _ _ _ _ S1 (consts c3)); side.
      * intros m1 Hp1.
        eapply (run_jif o pool funcs fns obj main _ T _ m1 _
                  (fun m2 => sblock o fns obj f cns m2) (fun m2 => XNormal m2) A2 Hp1); [pos|exact Hlen| |].
        -- intros m2 Hp2. eapply ok_end.
           ++ eapply (sem_use _ _ _ _ _ _ S3 (consts c3)); side.
           ++ intros m3 Hp3. eapply run_ph; [exact A4|exact Hp3].
        -- intros m2 Hp2. apply ok_normal; [exact Hp2|].
           eapply rt_pos; [eapply run_ph; [exact A4|exact Hp2]|lia|reflexivity].
    + pos.
Qed.

Lemma cc_if_else : forall cond cns alt c c1 c3 c7 Q1 Q3 Q7,
  cstate_ok c -> res_ok c c1 (sp_x cond) Q1 ->
  res_ok (emit1' OpJumpIfFalse 9999 c1) c3 (sp_block cns) Q3 ->
  let c4 := patch (clen c1) (clen c3) c3 in
  let c5 := emit1' OpJump 9999 c4 in
  let c6 := patch (clen c1) (clen c5) c5 in
  res_ok c6 c7 (sp_block alt) Q7 ->
  res_ok c (emit0 OpPlaceholder (patch (clen c4) (clen c7) c7)) (sp_x (EIf cond cns (Some alt))) nonempty.
Proof.
  intros cond cns alt c c1 c3 c7 Q1 Q3 Q7 Hc (code1 & E1 & _ & S1) (code3 & E3 & _ & S3) c4 c5 c6
         (code7 & E7 & _ & S7).
  assert (Hc1 : cstate_ok c1) by apply E1.
  pose proof (emits_emit1 OpJumpIfFalse 9999 c1 Hc1) as E2.
  set (c2 := emit1' OpJumpIfFalse 9999 c1) in *.
  assert (Hc2 : cstate_ok c2) by apply E2.
  pose proof (emits_len _ _ _ Hc E1) as L1.
  pose proof (emits_len _ _ _ Hc1 E2) as L2.
  pose proof (emits_len _ _ _ Hc2 E3) as L3.
  assert (E13 : emits c c3 (code1 ++ OpJumpIfFalse :: hi_byte 9999 :: lo_byte 9999 :: code3)).
  { eapply emits_eq; [eapply emits_trans; [exact E1|eapply emits_trans; [exact E2|exact E3]]|leq]. }
  destruct (patch_emits c c3 code1 _ _ _ code3 (clen c1) (clen c3) Hc E13 L1) as (E4 & L4 & CS4).
  fold c4 in E4, L4, CS4.
  assert (Hc4 : cstate_ok c4) by apply E4.
  pose proof (emits_emit1 OpJump 9999 c4 Hc4) as E5. fold c5 in E5.
  assert (Hc5 : cstate_ok c5) by apply E5.
  pose proof (emits_len _ _ _ Hc4 E5) as L5.
  set (T1 := clen c5) in *.
  assert (E15 : emits c c5 (code1 ++ OpJumpIfFalse :: hi_byte (clen c3) :: lo_byte (clen c3) ::
                              (code3 ++ [OpJump; hi_byte 9999; lo_byte 9999]))).
  { eapply emits_eq; [eapply emits_trans; [exact E4|exact E5]|leq]. }
  destruct (patch_emits c c5 code1 _ _ _ _ (clen c1) T1 Hc E15 L1) as (E6 & L6 & CS6).
  fold c6 in E6, L6, CS6.
  assert (Hc6 : cstate_ok c6) by apply E6.
  pose proof (emits_len _ _ _ Hc6 E7) as L7.
  set (T2 := clen c7) in *.
  assert (E17 : emits c c7 ((code1 ++ [OpJumpIfFalse; hi_byte T1; lo_byte T1] ++ code3) ++
                            OpJump :: hi_byte 9999 :: lo_byte 9999 :: code7)).
  { eapply emits_eq; [eapply emits_trans; [exact E6|exact E7]|leq]. }
  destruct (patch_emits c c7 _ _ _ _ code7 (clen c4) T2 Hc E17) as (E8 & L8 & CS8).
  { rewrite L4, L3, L2, L1. change (lenN [OpJumpIfFalse; hi_byte 9999; lo_byte 9999]) with 3. pos. }
  set (c8 := patch (clen c4) T2 c7) in *.
  assert (Hc8 : cstate_ok c8) by apply E8.
  exists (code1 ++ [OpJumpIfFalse; hi_byte T1; lo_byte T1] ++ code3 ++
          [OpJump; hi_byte T2; lo_byte T2] ++ code7 ++ [OpPlaceholder]). split; [|split].
  - eapply emits_eq; [eapply emits_trans; [exact E8|apply emits_emit0; exact Hc8]|leq].
  - unfold nonempty. pos.
  - intros pool funcs obj main ip m fuel Hsz Hpool Hat Hip Hpolls Hlen.
    destruct fuel as [|f]; [exact I|]. unfold StmtProofs.sp_x.
    change (sx o fns obj (S f) (EIf cond cns (Some alt)) m) with
      (then_ (sx o fns obj f cond m) (fun m1 => pop1s m1 (fun v m2 =>
         if truthy v then sblock o fns obj f cns m2 else sblock o fns obj f alt m2))).
    cbn [emit0 consts] in Hsz, Hpool. rewrite CS8 in Hsz, Hpool.
    assert (P3 : pool_extends (consts c3) (consts c7)).
    { rewrite <- CS4. change (consts c4) with (consts c5). rewrite <- CS6. pe. }
    pose proof (code_at_end _ _ _ Hat) as Hend.
    pose proof (code_at_app_l _ _ _ _ Hat) as A1.
    pose proof (code_at_app_r _ _ _ _ Hat) as A2.
    pose proof (code_at_app_r _ _ _ _ A2) as A3.
    pose proof (code_at_app_l _ _ _ _ A3) as A3l.
    pose proof (code_at_app_r _ _ _ _ A3) as A4.
    pose proof (code_at_app_r _ _ _ _ A4) as A5.
    pose proof (code_at_app_l _ _ _ _ A5) as A5l.
    pose proof (code_at_app_r _ _ _ _ A5) as A6.
    change (lenN [OpJumpIfFalse; hi_byte T1; lo_byte T1]) with 3 in *.
    change (lenN [OpJump; hi_byte T2; lo_byte T2]) with 3 in *.
    change (lenN [OpJumpIfFalse; hi_byte 9999; lo_byte 9999]) with 3 in *.
    change (lenN [OpJump; hi_byte 9999; lo_byte 9999]) with 3 in *.
    assert (HT1 : T1 = ip + lenN code1 + 3 + lenN code3 + 3) by lia.
    assert (HT2 : T2 = T1 + lenN code7) by lia.
    eapply ok_ipe.
    + eapply ok_then.
      * eapply (sem_use _ _ _ _ _ _ S1 (consts c7)); side.
      * intros m1 Hp1.
        eapply (run_jif o pool funcs fns obj main _ T1 _ m1 _
                  (fun m2 => sblock o fns obj f cns m2) (fun m2 => sblock o fns obj f alt m2) A2 Hp1);
          [pos|exact Hlen| |].
        -- intros m2 Hp2. eapply ok_end.
           ++ eapply (sem_use _ _ _ _ _ _ S3 (consts c7)); side.
           ++ intros m3 Hp3. eapply runs_to_trans.
              ** eapply (run_jump o pool funcs fns obj main _ T2); [exact A4|exact Hp3|pos|exact Hlen].
              ** eapply rt_pos; [eapply run_ph; [exact A6|exact Hp3]|lia|reflexivity].
        -- intros m2 Hp2. eapply ok_end.
           ++ eapply (sem_use _ _ _ _ _ _ S7 (consts c7)); side; at_pos A5l.
           ++ intros m3 Hp3. eapply rt_pos; [eapply run_ph; [exact A6|exact Hp3]|lia|lia].
    + pos.
Qed.

Lemma cc_ternary : forall cond t e' c c1 c3 c6 Q1 Q3 Q6,
  cstate_ok c -> res_ok c c1 (sp_x cond) Q1 ->
  res_ok (emit1' OpJumpIfFalse 9999 c1) c3 (sp_x t) Q3 ->
  let c4 := emit1' OpJump 9999 c3 in
  let c5 := patch (clen c1) (clen c4) c4 in
  res_ok c5 c6 (sp_x e') Q6 ->
  res_ok c (emit0 OpPlaceholder (patch (clen c3) (clen c6) c6)) (sp_x (ETernary cond t e')) nonempty.
Proof.
  intros cond t e' c c1 c3 c6 Q1 Q3 Q6 Hc (code1 & E1 & _ & S1) (code3 & E3 & _ & S3) c4 c5
         (code6 & E6 & _ & S6).
  assert (Hc1 : cstate_ok c1) by apply E1.
  pose proof (emits_emit1 OpJumpIfFalse 9999 c1 Hc1) as E2.
  set (c2 := emit1' OpJumpIfFalse 9999 c1) in *.
  assert (Hc2 : cstate_ok c2) by apply E2.
  assert (Hc3 : cstate_ok c3) by apply E3.
  pose proof (emits_len _ _ _ Hc E1) as L1.
  pose proof (emits_len _ _ _ Hc1 E2) as L2.
  pose proof (emits_len _ _ _ Hc2 E3) as L3.
  pose proof (emits_emit1 OpJump 9999 c3 Hc3) as E4. fold c4 in E4.
  assert (Hc4 : cstate_ok c4) by apply E4.
  pose proof (emits_len _ _ _ Hc3 E4) as L4.
  set (T1 := clen c4) in *.
  assert (E14 : emits c c4 (code1 ++ OpJumpIfFalse :: hi_byte 9999 :: lo_byte 9999 ::
                              (code3 ++ [OpJump; hi_byte 9999; lo_byte 9999]))).
  { eapply emits_eq; [eapply emits_trans; [exact E1|eapply emits_trans; [exact E2|
      eapply emits_trans; [exact E3|exact E4]]]|leq]. }
  destruct (patch_emits c c4 code1 _ _ _ _ (clen c1) T1 Hc E14 L1) as (E5 & L5 & CS5).
  fold c5 in E5, L5, CS5.
  assert (Hc5 : cstate_ok c5) by apply E5.
  pose proof (emits_len _ _ _ Hc5 E6) as L6.
  set (T2 := clen c6) in *.
  assert (E16 : emits c c6 ((code1 ++ [OpJumpIfFalse; hi_byte T1; lo_byte T1] ++ code3) ++
                            OpJump :: hi_byte 9999 :: lo_byte 9999 :: code6)).
  { eapply emits_eq; [eapply emits_trans; [exact E5|exact E6]|leq]. }
  destruct (patch_emits c c6 _ _ _ _ code6 (clen c3) T2 Hc E16) as (E7 & L7 & CS7).
  { rewrite L3, L2, L1. change (lenN [OpJumpIfFalse; hi_byte 9999; lo_byte 9999]) with 3. pos. }
  set (c7 := patch (clen c3) T2 c6) in *.
  assert (Hc7 : cstate_ok c7) by apply E7.
  exists (code1 ++ [OpJumpIfFalse; hi_byte T1; lo_byte T1] ++ code3 ++
          [OpJump; hi_byte T2; lo_byte T2] ++ code6 ++ [OpPlaceholder]). split; [|split].
  - eapply emits_eq; [eapply emits_trans; [exact E7|apply emits_emit0; exact Hc7]|leq].
  - unfold nonempty. pos.
  - intros pool funcs obj main ip m fuel Hsz Hpool Hat Hip Hpolls Hlen.
    destruct fuel as [|f]; [exact I|]. unfold StmtProofs.sp_x.
    change (sx o fns obj (S f) (ETernary cond t e') m) with
      (then_ (sx o fns obj f cond m) (fun m1 => pop1s m1 (fun v m2 =>
         if truthy v then sx o fns obj f t m2 else sx o fns obj f e' m2))).
    cbn [emit0 consts] in Hsz, Hpool. rewrite CS7 in Hsz, Hpool.
    assert (P3 : pool_extends (consts c3) (consts c6)).
    { change (consts c3) with (consts c4). rewrite <- CS5. pe. }
    pose proof (code_at_end _ _ _ Hat) as Hend.
    pose proof (code_at_app_l _ _ _ _ Hat) as A1.
    pose proof (code_at_app_r _ _ _ _ Hat) as A2.
    pose proof (code_at_app_r _ _ _ _ A2) as A3.
    pose proof (code_at_app_l _ _ _ _ A3) as A3l.
    pose proof (code_at_app_r _ _ _ _ A3) as A4.
    pose proof (code_at_app_r _ _ _ _ A4) as A5.
    pose proof (code_at_app_l _ _ _ _ A5) as A5l.
    pose proof (code_at_app_r _ _ _ _ A5) as A6.
    change (lenN [OpJumpIfFalse; hi_byte T1; lo_byte T1]) with 3 in *.
    change (lenN [OpJump; hi_byte T2; lo_byte T2]) with 3 in *.
    change (lenN [OpJumpIfFalse; hi_byte 9999; lo_byte 9999]) with 3 in *.
    change (lenN [OpJump; hi_byte 9999; lo_byte 9999]) with 3 in *.
    assert (HT1 : T1 = ip + lenN code1 + 3 + lenN code3 + 3) by lia.
    assert (HT2 : T2 = T1 + lenN code6) by lia.
    eapply ok_ipe.
    + eapply ok_then.
      * eapply (sem_use _ _ _ _ _ _ S1 (consts c6)); side.
      * intros m1 Hp1.
        eapply (run_jif o pool funcs fns obj main _ T1 _ m1 _
                  (fun m2 => sx o fns obj f t m2) (fun m2 => sx o fns obj f e' m2) A2 Hp1);
          [pos|exact Hlen| |].
        -- intros m2 Hp2. eapply ok_end.
           ++ eapply (sem_use _ _ _ _ _ _ S3 (consts c6)); side.
           ++ intros m3 Hp3. eapply runs_to_trans.
              ** eapply (run_jump o pool funcs fns obj main _ T2); [exact A4|exact Hp3|pos|exact Hlen].
              ** eapply rt_pos; [eapply run_ph; [exact A6|exact Hp3]|lia|reflexivity].
        -- intros m2 Hp2. eapply ok_end.
           ++ eapply (sem_use _ _ _ _ _ _ S6 (consts c6)); side; at_pos A5l.
           ++ intros m3 Hp3. eapply rt_pos; [eapply run_ph; [exact A6|exact Hp3]|lia|lia].
    + pos.
Qed.

Lemma cc_while : forall cond body c c1 c3 Q1 Q3,
  cstate_ok c -> res_ok c c1 (sp_x cond) Q1 ->
  res_ok (emit1' OpJumpIfFalse 9999 c1) c3 (sp_block body) Q3 ->
  let c4 := emit1' OpJump (clen c) c3 in
  res_ok c (emit0 OpPlaceholder (patch (clen c1) (clen c4) c4)) (sp_x (EWhile cond body)) nonempty.
Proof.
  intros cond body c c1 c3 Q1 Q3 Hc (code1 & E1 & _ & S1) (code3 & E3 & _ & S3) c4.
  assert (Hc1 : cstate_ok c1) by apply E1.
  pose proof (emits_emit1 OpJumpIfFalse 9999 c1 Hc1) as E2.
  set (c2 := emit1' OpJumpIfFalse 9999 c1) in *.
  assert (Hc2 : cstate_ok c2) by apply E2.
  assert (Hc3 : cstate_ok c3) by apply E3.
  pose proof (emits_len _ _ _ Hc E1) as L1.
  pose proof (emits_len _ _ _ Hc1 E2) as L2.
  pose proof (emits_len _ _ _ Hc2 E3) as L3.
  pose proof (emits_emit1 OpJump (clen c) c3 Hc3) as E4. fold c4 in E4.
  assert (Hc4 : cstate_ok c4) by apply E4.
  pose proof (emits_len _ _ _ Hc3 E4) as L4.
  set (T := clen c4) in *. set (S0 := clen c) in *.
  assert (E14 : emits c c4 (code1 ++ OpJumpIfFalse :: hi_byte 9999 :: lo_byte 9999 ::
                              (code3 ++ [OpJump; hi_byte S0; lo_byte S0]))).
  { eapply emits_eq; [eapply emits_trans; [exact E1|eapply emits_trans; [exact E2|
      eapply emits_trans; [exact E3|exact E4]]]|leq]. }
  destruct (patch_emits c c4 code1 _ _ _ _ (clen c1) T Hc E14 L1) as (E5 & L5 & CS5).
  set (c5 := patch (clen c1) T c4) in *.
  assert (Hc5 : cstate_ok c5) by apply E5.
  exists (code1 ++ [OpJumpIfFalse; hi_byte T; lo_byte T] ++ code3 ++
          [OpJump; hi_byte S0; lo_byte S0] ++ [OpPlaceholder]). split; [|split].
  - eapply emits_eq; [eapply emits_trans; [exact E5|apply emits_emit0; exact Hc5]|leq].
  - unfold nonempty. pos.
  - intros pool funcs obj main ip m fuel Hsz Hpool Hat Hip Hpolls Hlen.
    destruct fuel as [|f]; [exact I|]. unfold StmtProofs.sp_x.
    change (sx o fns obj (S f) (EWhile cond body) m) with (swhile o fns obj f cond body m).
    cbn [emit0 consts] in Hsz, Hpool. rewrite CS5 in Hsz, Hpool.
    change (consts c4) with (consts c3) in Hsz, Hpool.
    pose proof (code_at_end _ _ _ Hat) as Hend.
    pose proof (code_at_app_l _ _ _ _ Hat) as A1.
    pose proof (code_at_app_r _ _ _ _ Hat) as A2.
    pose proof (code_at_app_r _ _ _ _ A2) as A3.
    pose proof (code_at_app_l _ _ _ _ A3) as A3l.
    pose proof (code_at_app_r _ _ _ _ A3) as A4.
    pose proof (code_at_app_r _ _ _ _ A4) as A5.
    change (lenN [OpJumpIfFalse; hi_byte T; lo_byte T]) with 3 in *.
    change (lenN [OpJump; hi_byte S0; lo_byte S0]) with 3 in *.
    change (lenN [OpJumpIfFalse; hi_byte 9999; lo_byte 9999]) with 3 in *.
    assert (HT : T = ip + lenN code1 + 3 + lenN code3 + 3) by lia.
    match goal with |- ok _ _ _ _ _ _ _ _ _ ?e => set (ipe := e) end.
    assert (Hipe : ipe = T + 1) by (unfold ipe; pos).
    clearbody ipe.
    revert m Hpolls. induction f as [|n IH]; intros m Hpolls; [exact I|].
    change (swhile o fns obj (S n) cond body m) with
      (then_ (sx o fns obj n cond m) (fun m1 => pop1s m1 (fun v m2 =>
         if truthy v then then_ (sblock o fns obj n body m2) (fun m3 => swhile o fns obj n cond body m3)
         else XNormal m2))).
    eapply ok_then.
      * eapply (sem_use _ _ _ _ _ _ S1 (consts c3)); side.
      * intros m1 Hp1.
        eapply (run_jif o pool funcs fns obj main _ T _ m1 _
                  (fun m2 => then_ (sblock o fns obj n body m2) (fun m3 => swhile o fns obj n cond body m3))
                  (fun m2 => XNormal m2) A2 Hp1); [pos|exact Hlen| |].
        -- intros m2 Hp2. eapply ok_then.
           ++ eapply (sem_use _ _ _ _ _ _ S3 (consts c3)); side.
           ++ intros m3 Hp3. eapply ok_prepend.
              ** eapply (run_jump o pool funcs fns obj main _ S0); [exact A4|exact Hp3|pos|exact Hlen].
              ** eapply ok_ip; [apply IH; exact Hp3|lia].
        -- intros m2 Hp2. apply ok_normal; [exact Hp2|].
           eapply rt_pos; [eapply run_ph; [exact A5|exact Hp2]|lia|lia].
Qed.

End Sem3.



(* ------------------------------------------------------------------ *)
(* PART G: calls of built-in and host functions *)

Section Sem4.
Variables (o : stdlib) (fns : fnmap).
Notation res_ok := (res_ok o fns).
Notation sem := (sem o fns).
Notation sp_x := (sp_x o fns).
Notation sp_xs := (sp_xs o fns).
Notation sp_stmt := (sp_stmt o fns).
Notation sp_block := (sp_block o fns).

Lemma cc_call : forall fn args name c c1,
  cstate_ok c -> res_ok c c1 (sp_xs args) (Qxs args) -> estr 64 fn = Some name ->
  res_ok c (emit1' OpCall (lenN args) (emit_const (VStr name) c1)) (sp_x (ECall fn args)) nonempty.
Proof.
  intros fn args name c c1 Hc (code1 & E1 & HQ1 & S1) Hes.
  assert (Hc1 : cstate_ok c1) by apply E1.
  destruct (emits_const (VStr name) c1 Hc1) as (i & E2 & Hn).
  set (c2 := emit_const (VStr name) c1) in *.
  assert (Hc2 : cstate_ok c2) by apply E2.
  set (n := lenN args) in *.
  exists (code1 ++ [OpConstant; hi_byte i; lo_byte i] ++ [OpCall; hi_byte n; lo_byte n]). split; [|split].
  - eapply emits_trans; [exact E1|]. eapply emits_trans; [exact E2|]. apply emits_emit1. exact Hc2.
  - unfold nonempty. pos.
  - intros pool funcs obj main ip m fuel Hsz Hpool Hat Hip Hpolls Hlen.
    destruct fuel as [|f]; [exact I|]. unfold StmtProofs.sp_x.
    assert (Heq : sx o fns obj (S f) (ECall fn args) m =
      then_ (sxs o fns obj f args m) (fun m1 =>
        match pop_n (List.length args) (stk m1) [] with
        | None => XErr EInternal m1
        | Some (vals, s) =>
            match fn_get name fns with
            | Some (FBuiltin bn) =>
                match call_builtin o bn vals with
                | None => XErr ENeedOracle m1
                | Some r => match of_bres r with
                            | Ok v => XNormal (set_stk m1 (match v with VVoid => s | _ => v :: s end))
                            | Err x => XErr x (set_stk m1 s)
                            end
                end
            | Some (FHost k) =>
                let m2 := mkM s (menv m1) (mkCall name vals :: trace m1) (polls m1) in
                match host_call k vals with
                | Ok v => XNormal (set_stk m2 (match v with VVoid => s | _ => v :: s end))
                | Err x => XErr x m2
                end
            | None => XErr ENeedOracle m1
            end
        end)).
    { cbn [sx]. rewrite Hes. reflexivity. }
    rewrite Heq. clear Heq.
    cbn [emit1' emit1 snd consts] in Hsz, Hpool. fold c2 in Hsz, Hpool.
    assert (Hi : i < 65536) by (apply nthN_some_lt in Hn; lia).
    pose proof (code_at_end _ _ _ Hat) as Hend.
    pose proof (code_at_app_l _ _ _ _ Hat) as A1.
    pose proof (code_at_app_r _ _ _ _ Hat) as A2.
    pose proof (code_at_skip3 _ _ _ _ _ _ A2) as A3.
    eapply ok_ipe.
    + eapply ok_then'.
      * eapply (sem_use _ _ _ _ _ _ S1 (consts c2)); side.
      * intros m1 Hn1 Hp1. apply sxs_normal_nonfn in Hn1. specialize (HQ1 Hn1).
        assert (Hl16 : n < 65536) by (unfold n; rewrite !lenN_app in Hend; lia).
        eapply ok_prepend.
        { eapply run_const; [exact A2|exact Hp1| |exact Hi]. eapply pool_extends_nth; eassumption. }
        destruct (code_at_op3 _ _ _ _ _ _ A3) as (Hl & Hb & Ho). rewrite hi_lo in Ho by exact Hl16.
        assert (Hnn : N.to_nat n = List.length args) by (unfold n, lenN; apply Nat2N.id).
        destruct (pop_n (List.length args) (stk m1) []) as [[vals s]|] eqn:Epop.
        2:{ eapply ok_fail_step. intro k.
            eapply (exec_call_nopop o pool funcs fns obj k main _ (push m1 (VStr name)) n name (stk m1));
              try eassumption; [reflexivity|rewrite Hnn; exact Epop]. }
        destruct (fn_get name fns) as [impl|] eqn:Ef; [|exact I].
        pose proof (fun k => exec_call o pool funcs fns obj k main _ (push m1 (VStr name)) n name (stk m1) impl
                      Hl Hp1 Hb Ho eq_refl Ef) as St.
        rewrite Hnn, Epop in St.
        destruct impl as [bn|hk].
        -- destruct (call_builtin o bn vals) as [r|]; [|exact I].
           destruct (of_bres r) as [v|x].
           ++ apply ok_normal; [exact Hp1|]. apply runs_to_step. exact St.
           ++ eapply ok_fail_step. exact St.
        -- cbv zeta. destruct (host_call hk vals) as [v|x].
           ++ apply ok_normal; [exact Hp1|]. apply runs_to_step. exact St.
           ++ eapply ok_fail_step. exact St.
    + pos.
Qed.

End Sem4.



(* ------------------------------------------------------------------ *)
(* PART H: foreach *)

Section Sem5.
Variables (o : stdlib) (fns : fnmap).
Notation res_ok := (res_ok o fns).
Notation sem := (sem o fns).
Notation sp_x := (sp_x o fns).
Notation sp_xs := (sp_xs o fns).
Notation sp_stmt := (sp_stmt o fns).
Notation sp_block := (sp_block o fns).

(* the head of the loop: two constants, OpIterationNext, the conditional jump *)
Lemma run_foreach_head : forall pool funcs obj main L0 T i1 i2 idx ident rest M,
  code_at main L0 ([OpConstant; hi_byte i1; lo_byte i1] ++ [OpConstant; hi_byte i2; lo_byte i2] ++
                   [OpIterationNext] ++ [OpJumpIfFalse; hi_byte T; lo_byte T] ++ rest) ->
  nthN pool i1 = Some (VStr idx) -> nthN pool i2 = Some (VStr ident) -> i1 < 65536 -> i2 < 65536 ->
  T < lenN main -> lenN main <= 65535 -> polls M = None ->
  match drop_residue (menv M) (stk M) with
  | VIter it off :: s =>
      match iter_next o it off with
      | Ok (Some (x, k)) =>
          let e1 := env_declare (menv M) (trim_dollar ident) x in
          let e2 := match idx with [] => e1 | _ => env_declare e1 (trim_dollar idx) k end in
          runs_to o pool funcs fns obj main L0 (L0 + 10) M (mkM (VIter it (off + 1) :: s) e2 (trace M) (polls M))
      | Ok None =>
          match env_pop (menv M) with
          | Some e1 => runs_to o pool funcs fns obj main L0 T M (mkM s e1 (trace M) (polls M))
          | None => fails_with o pool funcs fns obj main L0 M EScript
          end
      | Err x => fails_with o pool funcs fns obj main L0 M x
      end
  | other :: s => if iterable other then True else fails_with o pool funcs fns obj main L0 M EScript
  | [] => fails_with o pool funcs fns obj main L0 M EInternal
  end.
Proof.
  intros pool funcs obj main L0 T i1 i2 idx ident rest M Hat Hn1 Hn2 Hi1 Hi2 HT Hlen Hp.
  pose proof (code_at_app_r _ _ _ _ Hat) as A2.
  pose proof (code_at_app_r _ _ _ _ A2) as A3.
  pose proof (code_at_app_r _ _ _ _ A3) as A4.
  change (lenN [OpConstant; hi_byte i1; lo_byte i1]) with 3 in *.
  change (lenN [OpConstant; hi_byte i2; lo_byte i2]) with 3 in *.
  change (lenN [OpIterationNext]) with 1 in *.
  pose proof (run_const o pool funcs fns obj main L0 i1 (VStr idx) _ M Hat Hp Hn1 Hi1) as R1.
  pose proof (run_const o pool funcs fns obj main (L0 + 3) i2 (VStr ident) _ (push M (VStr idx)) A2 Hp Hn2 Hi2) as R2.
  pose proof (runs_to_trans _ _ _ _ _ _ _ _ _ _ _ _ R1 R2) as R12. clear R1 R2.
  set (M2 := push (push M (VStr idx)) (VStr ident)) in *.
  destruct (code_at_op1 _ _ _ _ A3) as [Hl3 Hb3].
  destruct (code_at_op3 _ _ _ _ _ _ A4) as (Hl4 & Hb4 & Ho4). rewrite hi_lo in Ho4 by lia.
  assert (Hs2 : stk M2 = VStr ident :: VStr idx :: stk M) by reflexivity.
  change (menv M) with (menv M2).
  destruct (drop_residue (menv M2) (stk M)) as [|it0 s] eqn:Es.
  - eapply runs_then_fails; [exact R12|]. eapply fails_step. intro k.
    exact (exec_iter_next_short o pool funcs fns obj k main _ M2 (VStr ident) (VStr idx) (stk M) Hl3 Hp Hb3 Hs2 Es).
  - pose proof (fun k => exec_iter_next o pool funcs fns obj k main _ M2 ident idx (stk M) it0 s Hl3 Hp Hb3 Hs2 Es) as St.
    change (menv M2) with (menv M).
    destruct it0 as [z|fl|st|b| | |re|l|l|it off];
      try (cbn [iterable]; eapply runs_then_fails; [exact R12|]; eapply fails_step; exact St);
      try exact I.
    destruct (iter_next o it off) as [[[x k]|]|x] eqn:En.
    + cbv zeta. eapply runs_to_trans; [exact R12|].
      eapply runs_to_trans; [apply runs_to_step; exact St|].
      apply runs_to_step. intro k0.
      match goal with |- exec _ _ _ _ _ _ _ _ ?m3 = _ =>
        rewrite (exec_jif o pool funcs fns obj k0 main _ m3 T Hl4 Hp Hb4 Ho4) end.
      cbn [stk truthy set_stk menv trace polls].
      replace (L0 + 3 + 3 + 1 + 3) with (L0 + 10) by lia. reflexivity.
    + destruct (env_pop (menv M)) as [e1|] eqn:Ep.
      * change (menv M2) with (menv M) in St. rewrite Ep in St.
        eapply runs_to_trans; [exact R12|].
        eapply runs_to_trans; [apply runs_to_step; exact St|].
        apply runs_to_step. intro k0.
        match goal with |- exec _ _ _ _ _ _ _ _ ?m3 = _ =>
          rewrite (exec_jif o pool funcs fns obj k0 main _ m3 T Hl4 Hp Hb4 Ho4) end.
        cbn [stk truthy set_stk menv trace polls].
        apply N.leb_gt in HT. rewrite HT. reflexivity.
      * change (menv M2) with (menv M) in St. rewrite Ep in St.
        eapply runs_then_fails; [exact R12|]. eapply fails_step. exact St.
    + eapply runs_then_fails; [exact R12|]. eapply fails_step. exact St.
Qed.

Lemma cc_foreach : forall idx ident v body c c1 c6 Q1 Q6,
  cstate_ok c -> res_ok c c1 (sp_x v) Q1 ->
  let c2 := emit0 OpIterationReset c1 in
  let c3 := emit_const (VStr ident) (emit_const (VStr idx) c2) in
  let c4 := emit0 OpIterationNext c3 in
  let c5 := emit1' OpJumpIfFalse 9999 c4 in
  res_ok c5 c6 (sp_block body) Q6 ->
  let c7 := emit1' OpJump (clen c2) c6 in
  res_ok c (emit0 OpPlaceholder (patch (clen c4) (clen c7) c7)) (sp_x (EForeach idx ident v body)) nonempty.
Proof.
  intros idx ident v body c c1 c6 Q1 Q6 Hc (code1 & E1 & _ & S1) c2 c3 c4 c5 (code6 & E6 & _ & S6) c7.
  assert (Hc1 : cstate_ok c1) by apply E1.
  pose proof (emits_emit0 OpIterationReset c1 Hc1) as E2. fold c2 in E2.
  assert (Hc2 : cstate_ok c2) by apply E2.
  destruct (emits_const (VStr idx) c2 Hc2) as (i1 & E3a & Hn1).
  set (c3a := emit_const (VStr idx) c2) in *.
  assert (Hc3a : cstate_ok c3a) by apply E3a.
  destruct (emits_const (VStr ident) c3a Hc3a) as (i2 & E3b & Hn2). fold c3 in E3b, Hn2.
  assert (Hc3 : cstate_ok c3) by apply E3b.
  pose proof (emits_emit0 OpIterationNext c3 Hc3) as E4. fold c4 in E4.
  assert (Hc4 : cstate_ok c4) by apply E4.
  pose proof (emits_emit1 OpJumpIfFalse 9999 c4 Hc4) as E5. fold c5 in E5.
  assert (Hc5 : cstate_ok c5) by apply E5.
  assert (Hc6 : cstate_ok c6) by apply E6.
  pose proof (emits_emit1 OpJump (clen c2) c6 Hc6) as E7. fold c7 in E7.
  assert (Hc7 : cstate_ok c7) by apply E7.
  pose proof (emits_len _ _ _ Hc E1) as L1.
  pose proof (emits_len _ _ _ Hc1 E2) as L2.
  pose proof (emits_len _ _ _ Hc2 E3a) as L3a.
  pose proof (emits_len _ _ _ Hc3a E3b) as L3b.
  pose proof (emits_len _ _ _ Hc3 E4) as L4.
  pose proof (emits_len _ _ _ Hc4 E5) as L5.
  pose proof (emits_len _ _ _ Hc5 E6) as L6.
  pose proof (emits_len _ _ _ Hc6 E7) as L7.
  set (T := clen c7) in *. set (L0 := clen c2) in *.
  set (pre4 := code1 ++ [OpIterationReset] ++ [OpConstant; hi_byte i1; lo_byte i1] ++
               [OpConstant; hi_byte i2; lo_byte i2] ++ [OpIterationNext]).
  assert (E14 : emits c c4 pre4).
  { eapply emits_eq; [eapply emits_trans; [exact E1|eapply emits_trans; [exact E2|
      eapply emits_trans; [exact E3a|eapply emits_trans; [exact E3b|exact E4]]]]|unfold pre4; leq]. }
  assert (E17 : emits c c7 (pre4 ++ OpJumpIfFalse :: hi_byte 9999 :: lo_byte 9999 ::
                              (code6 ++ [OpJump; hi_byte L0; lo_byte L0]))).
  { eapply emits_eq; [eapply emits_trans; [exact E14|eapply emits_trans; [exact E5|
      eapply emits_trans; [exact E6|exact E7]]]|leq]. }
  pose proof (emits_len _ _ _ Hc E14) as L14.
  destruct (patch_emits c c7 pre4 _ _ _ _ (clen c4) T Hc E17 L14) as (E8 & L8 & CS8).
  set (c8 := patch (clen c4) T c7) in *.
  assert (Hc8 : cstate_ok c8) by apply E8.
  exists (code1 ++ [OpIterationReset] ++
          ([OpConstant; hi_byte i1; lo_byte i1] ++ [OpConstant; hi_byte i2; lo_byte i2] ++
           [OpIterationNext] ++ [OpJumpIfFalse; hi_byte T; lo_byte T] ++
           code6 ++ [OpJump; hi_byte L0; lo_byte L0] ++ [OpPlaceholder])). split; [|split].
  - eapply emits_eq; [eapply emits_trans; [exact E8|apply emits_emit0; exact Hc8]|unfold pre4; leq].
  - unfold nonempty. pos.
  - intros pool funcs obj main ip m fuel Hsz Hpool Hat Hip Hpolls Hlen.
    destruct fuel as [|f]; [exact I|]. unfold StmtProofs.sp_x.
    change (sx o fns obj (S f) (EForeach idx ident v body) m) with
      (then_ (sx o fns obj f v m) (fun m1 =>
        let e1 := env_push (menv m1) (lenN (stk m1)) in
        match stk m1 with
        | [] => XErr EInternal (set_menv m1 e1)
        | it :: s =>
            if iterable it then sforeach o fns obj f idx ident it 0 body (mkM s e1 (trace m1) (polls m1))
            else XErr EScript (mkM s e1 (trace m1) (polls m1))
        end)).
    cbn [emit0 consts] in Hsz, Hpool. rewrite CS8 in Hsz, Hpool.
    change (consts c7) with (consts c6) in Hsz, Hpool.
    assert (P3 : pool_extends (consts c3) (consts c6)).
    { change (consts c3) with (consts c5). pe. }
    assert (P1 : pool_extends (consts c1) (consts c6)).
    { eapply pool_extends_trans; [|exact P3]. change (consts c1) with (consts c2).
      eapply pool_extends_trans; [exact (emits_pe _ _ _ E3a)|exact (emits_pe _ _ _ E3b)]. }
    assert (Hi1 : i1 < 65536).
    { apply nthN_some_lt in Hn1. pose proof (pool_extends_len _ _ (emits_pe _ _ _ E3b)).
      apply pool_extends_len in P3. lia. }
    assert (Hi2 : i2 < 65536).
    { apply nthN_some_lt in Hn2. apply pool_extends_len in P3. lia. }
    assert (Hp1 : nthN pool i1 = Some (VStr idx)).
    { eapply pool_extends_nth; [exact Hpool|]. eapply pool_extends_nth; [exact P3|].
      eapply pool_extends_nth; [exact (emits_pe _ _ _ E3b)|exact Hn1]. }
    assert (Hp2 : nthN pool i2 = Some (VStr ident)).
    { eapply pool_extends_nth; [exact Hpool|]. eapply pool_extends_nth; [exact P3|exact Hn2]. }
    pose proof (code_at_end _ _ _ Hat) as Hend.
    pose proof (code_at_app_l _ _ _ _ Hat) as A1.
    pose proof (code_at_app_r _ _ _ _ Hat) as A2.
    pose proof (code_at_app_r _ _ _ _ A2) as AH.
    pose proof (code_at_app_r _ _ _ _ AH) as B1.
    pose proof (code_at_app_r _ _ _ _ B1) as B2.
    pose proof (code_at_app_r _ _ _ _ B2) as B3.
    pose proof (code_at_app_r _ _ _ _ B3) as B4.
    pose proof (code_at_app_l _ _ _ _ B4) as B4l.
    pose proof (code_at_app_r _ _ _ _ B4) as B5.
    pose proof (code_at_app_r _ _ _ _ B5) as B6.
    change (lenN [OpIterationReset]) with 1 in *.
    change (lenN [OpIterationNext]) with 1 in *.
    change (lenN [OpConstant; hi_byte i1; lo_byte i1]) with 3 in *.
    change (lenN [OpConstant; hi_byte i2; lo_byte i2]) with 3 in *.
    change (lenN [OpJumpIfFalse; hi_byte T; lo_byte T]) with 3 in *.
    change (lenN [OpJumpIfFalse; hi_byte 9999; lo_byte 9999]) with 3 in *.
    change (lenN [OpJump; hi_byte L0; lo_byte L0]) with 3 in *.
    assert (HL0 : L0 = ip + lenN code1 + 1) by lia.
    assert (HT : T = L0 + 10 + lenN code6 + 3) by lia.
    assert (HTm : T < lenN main) by (clear - Hend HT HL0; pos).
    match goal with |- ok _ _ _ _ _ _ _ _ _ ?e => set (ipe := e) end.
    assert (Hipe : ipe = T + 1) by (unfold ipe; clear - HT HL0; pos).
    clearbody ipe.
    (* the loop *)
    assert (Loop : forall n M it off s, polls M = None ->
              drop_residue (menv M) (stk M) = VIter it off :: s ->
              ok o pool funcs fns obj main L0 M
                 (sforeach o fns obj n idx ident it off body (set_stk M s)) ipe).
    { induction n as [|n IH]; intros M it off s Hp0 HdM; [exact I|].
      set (m0 := set_stk M s).
      change (sforeach o fns obj (S n) idx ident it off body m0) with
        (match iter_next o it off with
         | Err x => XErr x m0
         | Ok (Some (x, k)) =>
             let e1 := env_declare (menv m0) (trim_dollar ident) x in
             let e2 := match idx with [] => e1 | _ => env_declare e1 (trim_dollar idx) k end in
             then_ (sblock o fns obj n body (mkM (VIter it (off + 1) :: stk m0) e2 (trace m0) (polls m0)))
               (fun m1 =>
                  match drop_residue (menv m1) (stk m1) with
                  | VIter it' off' :: s' => sforeach o fns obj n idx ident it' off' body (set_stk m1 s')
                  | other :: s' => if iterable other then XErr ENeedOracle (set_stk m1 s')
                                   else XErr EScript (set_stk m1 s')
                  | [] => XErr EInternal m1
                  end)
         | Ok None =>
             match env_pop (menv m0) with
             | Some e1 => XNormal (set_menv m0 e1)
             | None => XErr EScript m0
             end
         end).
      pose proof (run_foreach_head pool funcs obj main L0 T i1 i2 idx ident _ M
                    (code_at_eq _ _ _ _ AH (eq_sym HL0)) Hp1 Hp2 Hi1 Hi2 HTm Hlen Hp0) as Hd.
      rewrite HdM in Hd. unfold m0. cbn [set_stk stk menv trace polls].
      destruct (iter_next o it off) as [[[x k]|]|x] eqn:En.
      - cbv zeta in Hd |- *. eapply ok_prepend; [exact Hd|].
        eapply ok_then.
        + eapply (sem_use _ _ _ _ _ _ S6 (consts c6)); side.
          eapply code_at_eq; [exact B4l|lia].
        + intros m1 Hpm1. eapply ok_prepend.
          * eapply (run_jump o pool funcs fns obj main _ L0); [at_pos B5|exact Hpm1|lia|exact Hlen].
          * pose proof (run_foreach_head pool funcs obj main L0 T i1 i2 idx ident _ m1
                          (code_at_eq _ _ _ _ AH (eq_sym HL0)) Hp1 Hp2 Hi1 Hi2 HTm Hlen Hpm1) as Hd1.
            destruct (drop_residue (menv m1) (stk m1)) as [|other s'] eqn:Es1.
            -- apply ok_err. exact Hd1.
            -- destruct other as [z|fl|st|b| | |re|l|l|it' off'];
                 try (cbn [iterable] in Hd1 |- *; first [exact I | apply ok_err; exact Hd1]).
               apply IH; [exact Hpm1|exact Es1].
      - destruct (env_pop (menv M)) as [e1|].
        + apply ok_normal; [exact Hp0|].
          eapply runs_to_trans; [exact Hd|].
          eapply rt_pos; [eapply run_ph; [exact B6|exact Hp0]|lia|lia].
        + apply ok_err. exact Hd.
      - apply ok_err. exact Hd. }
    eapply ok_then.
    + eapply (sem_use _ _ _ _ _ _ S1 (consts c6)); side.
    + intros m1 Hpm1. cbv zeta.
      destruct (code_at_op1 _ _ _ _ A2) as [Hl Hb].
      pose proof (fun k => exec_iter_reset o pool funcs fns obj k main _ m1 Hl Hpm1 Hb) as St.
      destruct (stk m1) as [|it s] eqn:Es1.
      * eapply ok_fail_step. exact St.
      * destruct (iterable it) eqn:Eit.
        -- eapply ok_step; [exact St|]. eapply ok_ip; [|exact HL0].
           refine (Loop f (mkM (VIter it 0 :: s) (env_push (menv m1) (lenN (it :: s))) (trace m1) (polls m1))
                        it 0 s Hpm1 _).
           unfold drop_residue, env_mark. cbn [env_push scopes menv stk].
           change (lenN (it :: s)) with (lenN (VIter it 0 :: s)). apply keep_bottom_all.
        -- eapply ok_fail_step. exact St.
Qed.

End Sem5.



(* ------------------------------------------------------------------ *)
(* PART I: switch *)

(* code with holes: the jumps to the end of the switch, patched together at the end *)
Definition patchable (ps : list N) (base : N) (g : N -> list N) : Prop :=
  forall E c cX A B, cstate_ok c -> emits c cX (A ++ g 9999 ++ B) -> base = clen c + lenN A ->
  emits c (patch_all ps E cX) (A ++ g E ++ B) /\
  clen (patch_all ps E cX) = clen cX /\ consts (patch_all ps E cX) = consts cX.

Lemma patch_all_app : forall a b E c, patch_all (a ++ b) E c = patch_all b E (patch_all a E c).
Proof. induction a as [|p a IH]; intros b E c; [reflexivity|]. cbn [app patch_all]. apply IH. Qed.

Lemma patchable_nil : forall base code, patchable [] base (fun _ => code).
Proof. intros base code E c cX A B Hc H Hb. cbn [patch_all]. split; [exact H|split; reflexivity]. Qed.

Lemma patchable_ext : forall ps base g g', (forall E, g E = g' E) -> patchable ps base g -> patchable ps base g'.
Proof.
  intros ps base g g' He H E c cX A B Hc Hem Hb. rewrite <- !He in *. apply H; assumption.
Qed.

Lemma patchable_one : forall base a b,
  patchable [base + lenN a] base (fun E => a ++ [OpJump; hi_byte E; lo_byte E] ++ b).
Proof.
  intros base a b E c cX A B Hc Hem Hb. cbn [patch_all].
  destruct (patch_emits c cX (A ++ a) OpJump (hi_byte 9999) (lo_byte 9999) (b ++ B) (base + lenN a) E Hc) as (K1 & K2 & K3).
  - eapply emits_eq; [exact Hem|leq].
  - pos.
  - split; [|split; assumption]. eapply emits_eq; [exact K1|leq].
Qed.

Lemma patchable_app : forall ps1 ps2 base g1 g2,
  (forall E, lenN (g1 E) = lenN (g1 0)) ->
  patchable ps1 base g1 -> patchable ps2 (base + lenN (g1 0)) g2 ->
  patchable (ps1 ++ ps2) base (fun E => g1 E ++ g2 E).
Proof.
  intros ps1 ps2 base g1 g2 Hl H1 H2 E c cX A B Hc Hem Hb. rewrite patch_all_app.
  destruct (H1 E c cX A (g2 9999 ++ B) Hc) as (K1 & K2 & K3); [eapply emits_eq; [exact Hem|leq]|exact Hb|].
  destruct (H2 E c (patch_all ps1 E cX) (A ++ g1 E) B Hc) as (J1 & J2 & J3).
  - eapply emits_eq; [exact K1|leq].
  - rewrite lenN_app, (Hl E). lia.
  - split; [eapply emits_eq; [exact J1|leq]|split; congruence].
Qed.

Section Sem6.
Variables (o : stdlib) (fns : fnmap).
Notation res_ok := (res_ok o fns).
Notation sem := (sem o fns).
Notation sp_x := (sp_x o fns).
Notation sp_block := (sp_block o fns).

Definition choice := (bool * list expr * list stmt)%type.

Definition sp_defaults (chs : list choice) : specfn := fun obj f m => sdefaults o fns obj f chs m.

Definition sem_case_exprs (cs : list value) (start : N) (g : N -> list N)
                          (v : expr) (es : list expr) (blk : list stmt) : Prop :=
  forall E pool funcs obj main ip m fuel ipe (rest all : list choice),
    lenN cs <= 65536 -> pool_extends cs pool -> code_at main ip (g E) -> ip = start ->
    polls m = None -> lenN main <= 65535 -> E < lenN main -> ip + lenN (g E) <= E ->
    (forall m', polls m' = None -> runs_to o pool funcs fns obj main E ipe m' m') ->
    (forall fuel' m', polls m' = None ->
       ok o pool funcs fns obj main (ip + lenN (g E)) m' (sswitch o fns obj fuel' v rest all m') ipe) ->
    ok o pool funcs fns obj main ip m (scase o fns obj fuel v es blk rest all m) ipe.

Definition sem_cases (cs : list value) (start : N) (g : N -> list N) (v : expr) (chs : list choice) : Prop :=
  forall E pool funcs obj main ip m fuel ipe (all : list choice),
    lenN cs <= 65536 -> pool_extends cs pool -> code_at main ip (g E) -> ip = start ->
    polls m = None -> lenN main <= 65535 -> E < lenN main -> ip + lenN (g E) <= E ->
    (forall m', polls m' = None -> runs_to o pool funcs fns obj main E ipe m' m') ->
    (forall fuel' m', polls m' = None ->
       ok o pool funcs fns obj main (ip + lenN (g E)) m' (sdefaults o fns obj fuel' all m') ipe) ->
    ok o pool funcs fns obj main ip m (sswitch o fns obj fuel v chs all m) ipe.

Lemma sem_case_exprs_mono : forall cs cs' start g v es blk,
  pool_extends cs cs' -> sem_case_exprs cs start g v es blk -> sem_case_exprs cs' start g v es blk.
Proof.
  intros cs cs' start g v es blk Hpe H E pool funcs obj main ip m fuel ipe rest all Hsz Hpool.
  apply H; [apply pool_extends_len in Hpe; lia|eapply pool_extends_trans; eassumption].
Qed.

Lemma sem_cases_mono : forall cs cs' start g v chs,
  pool_extends cs cs' -> sem_cases cs start g v chs -> sem_cases cs' start g v chs.
Proof.
  intros cs cs' start g v chs Hpe H E pool funcs obj main ip m fuel ipe all Hsz Hpool.
  apply H; [apply pool_extends_len in Hpe; lia|eapply pool_extends_trans; eassumption].
Qed.

Definition res_case_exprs (c c' : cstate) (patches po : list N) (v : expr) (es : list expr) (blk : list stmt) : Prop :=
  exists new g, po = patches ++ new /\ (forall E, lenN (g E) = lenN (g 0)) /\
    emits c c' (g 9999) /\ patchable new (clen c) g /\ sem_case_exprs (consts c') (clen c) g v es blk.

Definition res_cases (c c' : cstate) (patches po : list N) (v : expr) (chs : list choice) : Prop :=
  exists new g, po = patches ++ new /\ (forall E, lenN (g E) = lenN (g 0)) /\
    emits c c' (g 9999) /\ patchable new (clen c) g /\ sem_cases (consts c') (clen c) g v chs.

Lemma res_case_exprs_ok : forall c c' p po v es blk, res_case_exprs c c' p po v es blk -> cstate_ok c'.
Proof. intros c c' p po v es blk (new & g & _ & _ & E & _). apply E. Qed.
Lemma res_cases_ok : forall c c' p po v chs, res_cases c c' p po v chs -> cstate_ok c'.
Proof. intros c c' p po v chs (new & g & _ & _ & E & _). apply E. Qed.

Lemma cc_case_exprs_nil : forall c patches v blk, cstate_ok c -> res_case_exprs c c patches patches v [] blk.
Proof.
  intros c patches v blk Hc. exists [], (fun _ => []). split; [symmetry; apply app_nil_r|split; [reflexivity|split; [|split]]].
  - apply emits_refl. exact Hc.
  - apply patchable_nil.
  - intros E pool funcs obj main ip m fuel ipe rest all Hsz Hpool Hat Hip Hpolls Hlen HE HgE HEr HK.
    destruct fuel as [|f]; [exact I|].
    change (scase o fns obj (S f) v [] blk rest all m) with (sswitch o fns obj f v rest all m).
    eapply ok_ip; [apply HK; exact Hpolls|pos].
Qed.

Lemma cc_case_exprs_cons : forall v e es' blk patches po c c1 c2 c5 c' Q1 Q2 Q5,
  cstate_ok c -> res_ok c c1 (sp_x v) Q1 -> res_ok c1 c2 (sp_x e) Q2 ->
  let c3 := emit0 OpCase c2 in
  let c4 := emit1' OpJumpIfFalse 9999 c3 in
  res_ok c4 c5 (sp_block blk) Q5 ->
  let c6 := emit1' OpJump 9999 c5 in
  let c7 := patch (clen c3) (clen c6) c6 in
  res_case_exprs c7 c' (patches ++ [clen c5]) po v es' blk ->
  res_case_exprs c c' patches po v (e :: es') blk.
Proof.
  intros v e es' blk patches po c c1 c2 c5 c' Q1 Q2 Q5 Hc (codeV & E1 & _ & S1) (codeE & E2 & _ & S2)
         c3 c4 (codeB & E5 & _ & S5) c6 c7 (new' & g' & Hpo & Hlen' & E7' & Pat' & Sem').
  assert (Hc1 : cstate_ok c1) by apply E1.
  assert (Hc2 : cstate_ok c2) by apply E2.
  pose proof (emits_emit0 OpCase c2 Hc2) as E3. fold c3 in E3.
  assert (Hc3 : cstate_ok c3) by apply E3.
  pose proof (emits_emit1 OpJumpIfFalse 9999 c3 Hc3) as E4. fold c4 in E4.
  assert (Hc4 : cstate_ok c4) by apply E4.
  assert (Hc5 : cstate_ok c5) by apply E5.
  pose proof (emits_emit1 OpJump 9999 c5 Hc5) as E6. fold c6 in E6.
  assert (Hc6 : cstate_ok c6) by apply E6.
  pose proof (emits_len _ _ _ Hc E1) as L1.
  pose proof (emits_len _ _ _ Hc1 E2) as L2.
  pose proof (emits_len _ _ _ Hc2 E3) as L3.
  pose proof (emits_len _ _ _ Hc3 E4) as L4.
  pose proof (emits_len _ _ _ Hc4 E5) as L5.
  pose proof (emits_len _ _ _ Hc5 E6) as L6.
  set (Ln := clen c6) in *.
  set (pre3 := codeV ++ codeE ++ [OpCase]).
  assert (E13 : emits c c3 pre3).
  { eapply emits_eq; [eapply emits_trans; [exact E1|eapply emits_trans; [exact E2|exact E3]]|unfold pre3; leq]. }
  pose proof (emits_len _ _ _ Hc E13) as L13.
  assert (E16 : emits c c6 (pre3 ++ OpJumpIfFalse :: hi_byte 9999 :: lo_byte 9999 ::
                              (codeB ++ [OpJump; hi_byte 9999; lo_byte 9999]))).
  { eapply emits_eq; [eapply emits_trans; [exact E13|eapply emits_trans; [exact E4|
      eapply emits_trans; [exact E5|exact E6]]]|leq]. }
  destruct (patch_emits c c6 pre3 _ _ _ _ (clen c3) Ln Hc E16 L13) as (E7 & L7 & CS7).
  fold c7 in E7, L7, CS7.
  assert (Hc7 : cstate_ok c7) by apply E7.
  set (a := pre3 ++ [OpJumpIfFalse; hi_byte Ln; lo_byte Ln] ++ codeB).
  set (A := fun E : N => codeV ++ codeE ++ [OpCase] ++ [OpJumpIfFalse; hi_byte Ln; lo_byte Ln] ++ codeB ++
                         [OpJump; hi_byte E; lo_byte E]).
  change (lenN [OpCase]) with 1 in *.
  change (lenN [OpJumpIfFalse; hi_byte 9999; lo_byte 9999]) with 3 in *.
  change (lenN [OpJump; hi_byte 9999; lo_byte 9999]) with 3 in *.
  assert (La : lenN a = lenN codeV + lenN codeE + 1 + 3 + lenN codeB) by (unfold a, pre3; pos).
  assert (LA : forall E, lenN (A E) = lenN a + 3) by (intro E; rewrite La; unfold A; pos).
  assert (Hp5 : clen c5 = clen c + lenN a) by (unfold pre3 in L13; lenN_norm; lia).
  exists ([clen c5] ++ new'), (fun E => A E ++ g' E).
  split; [rewrite Hpo; leq|split; [|split; [|split]]].
  - intro E. rewrite !lenN_app, !LA, (Hlen' E). reflexivity.
  - eapply emits_eq; [eapply emits_trans; [exact E7|exact E7']|unfold A, pre3; leq].
  - apply patchable_app; [intro E; rewrite !LA; reflexivity| |].
    + rewrite Hp5. eapply patchable_ext; [|apply (patchable_one (clen c) a [])].
      intro E. unfold A, a, pre3. leq.
    + replace (clen c + lenN (A 0)) with (clen c7) by (rewrite LA; lia). exact Pat'.
  - intros E pool funcs obj main ip m fuel ipe rest all Hsz Hpool Hat Hip Hpolls Hlen HE HgE HEr HK.
    destruct fuel as [|f]; [exact I|].
    change (scase o fns obj (S f) v (e :: es') blk rest all m) with
      (then_ (sx o fns obj f v m) (fun m1 => then_ (sx o fns obj f e m1) (fun m2 =>
         pop2s m2 (fun cv subj m3 =>
           match vm_case o subj cv with
           | Err x => XErr x m3
           | Ok r => if truthy r then sblock o fns obj f blk m3
                     else scase o fns obj f v es' blk rest all m3
           end)))).
    assert (P5 : pool_extends (consts c5) (consts c')).
    { change (consts c5) with (consts c6). rewrite <- CS7. pe. }
    assert (P2 : pool_extends (consts c2) (consts c')).
    { eapply pool_extends_trans; [|exact P5]. change (consts c2) with (consts c4). pe. }
    pose proof (code_at_end _ _ _ Hat) as Hend.
    pose proof (code_at_app_l _ _ _ _ Hat) as AA. unfold A in AA.
    pose proof (code_at_app_r _ _ _ _ Hat) as AG.
    pose proof (code_at_app_l _ _ _ _ AA) as AV.
    pose proof (code_at_app_r _ _ _ _ AA) as B1.
    pose proof (code_at_app_l _ _ _ _ B1) as AE.
    pose proof (code_at_app_r _ _ _ _ B1) as B2.
    pose proof (code_at_app_r _ _ _ _ B2) as B3.
    pose proof (code_at_app_r _ _ _ _ B3) as B4.
    pose proof (code_at_app_l _ _ _ _ B4) as B4l.
    pose proof (code_at_app_r _ _ _ _ B4) as B5.
    change (lenN [OpCase]) with 1 in *.
    change (lenN [OpJumpIfFalse; hi_byte Ln; lo_byte Ln]) with 3 in *.
    assert (HLn : Ln = ip + lenN (A E)) by (rewrite LA; lia).
    assert (HLnm : Ln < lenN main \/ Ln = lenN main) by (rewrite lenN_app in Hend; lia).
    eapply ok_then.
    { eapply (sem_use _ _ _ _ _ _ S1 (consts c')); side. }
    intros m1 Hp1. eapply ok_then.
    { eapply (sem_use _ _ _ _ _ _ S2 (consts c')); side. }
    intros m2 Hp2.
    destruct (code_at_op1 _ _ _ _ B2) as [Hl Hb].
    pose proof (fun k => exec_case_g o pool funcs fns obj k main _ m2 Hl Hp2 Hb) as St.
    unfold pop2s. destruct (stk m2) as [|cv [|subj s]] eqn:Es.
    { eapply ok_fail_step. exact St. }
    { eapply ok_fail_step. exact St. }
    destruct (vm_case o subj cv) as [r|x] eqn:Ec.
    2:{ eapply ok_fail_step. exact St. }
    eapply ok_step; [exact St|].
    change (ok o pool funcs fns obj main (ip + lenN codeV + lenN codeE + 1) (set_stk m2 (r :: s))
              (pop1s (set_stk m2 (r :: s)) (fun v0 m' =>
                 if truthy v0 then sblock o fns obj f blk m' else scase o fns obj f v es' blk rest all m')) ipe).
    assert (HgE' : ip + lenN (A E) + lenN (g' E) <= E) by (rewrite lenN_app in HgE; lia).
    eapply (run_jif o pool funcs fns obj main _ Ln _ (set_stk m2 (r :: s)) _
              (fun m' => sblock o fns obj f blk m')
              (fun m' => scase o fns obj f v es' blk rest all m') B3 Hp2); [lia|exact Hlen| |].
    + intros m3 Hp3. eapply ok_end.
      * eapply (sem_use _ _ _ _ _ _ S5 (consts c')); side.
      * intros m4 Hp4. eapply runs_to_trans; [|apply HEr; exact Hp4].
        eapply (run_jump o pool funcs fns obj main _ E); [exact B5|exact Hp4|exact HE|exact Hlen].
    + intros m3 Hp3. eapply ok_ip; [|symmetry; exact HLn].
      eapply (Sem' E pool funcs obj main (ip + lenN (A E)) m3 f ipe rest all); try assumption.
      * lia.
      * intros fuel' m' Hp'. eapply ok_ip; [apply HK; exact Hp'|rewrite lenN_app; lia].
Qed.

Lemma cc_cases_nil : forall c patches v, cstate_ok c -> res_cases c c patches patches v [].
Proof.
  intros c patches v Hc. exists [], (fun _ => []). split; [symmetry; apply app_nil_r|split; [reflexivity|split; [|split]]].
  - apply emits_refl. exact Hc.
  - apply patchable_nil.
  - intros E pool funcs obj main ip m fuel ipe all Hsz Hpool Hat Hip Hpolls Hlen HE HgE HEr HK.
    destruct fuel as [|f]; [exact I|].
    change (sswitch o fns obj (S f) v [] all m) with (sdefaults o fns obj f all m).
    eapply ok_ip; [apply HK; exact Hpolls|pos].
Qed.

Lemma cc_cases_default : forall c c' patches po v es blk rest,
  res_cases c c' patches po v rest -> res_cases c c' patches po v ((true, es, blk) :: rest).
Proof.
  intros c c' patches po v es blk rest (new & g & Hpo & Hl & Em & Pat & Sem).
  exists new, g. split; [exact Hpo|split; [exact Hl|split; [exact Em|split; [exact Pat|]]]].
  intros E pool funcs obj main ip m fuel ipe all Hsz Hpool Hat Hip Hpolls Hlen HE HgE HEr HK.
  destruct fuel as [|f]; [exact I|].
  change (sswitch o fns obj (S f) v ((true, es, blk) :: rest) all m) with (sswitch o fns obj f v rest all m).
  apply (Sem E pool funcs obj main ip m f ipe all); assumption.
Qed.

Lemma cc_cases_arm : forall c c1 c' patches p1 po v es blk rest,
  cstate_ok c -> res_case_exprs c c1 patches p1 v es blk -> res_cases c1 c' p1 po v rest ->
  res_cases c c' patches po v ((false, es, blk) :: rest).
Proof.
  intros c c1 c' patches p1 po v es blk rest Hc (new1 & g1 & Hp1 & Hl1 & Em1 & Pat1 & Sem1)
         (new2 & g2 & Hp2 & Hl2 & Em2 & Pat2 & Sem2).
  pose proof (emits_len _ _ _ Hc Em1) as L1.
  exists (new1 ++ new2), (fun E => g1 E ++ g2 E).
  split; [rewrite Hp2, Hp1; leq|split; [|split; [|split]]].
  - intro E. rewrite !lenN_app, (Hl1 E), (Hl2 E). reflexivity.
  - eapply emits_trans; eassumption.
  - apply patchable_app; [exact Hl1|exact Pat1|].
    replace (clen c + lenN (g1 0)) with (clen c1) by (rewrite <- (Hl1 9999); lia). exact Pat2.
  - intros E pool funcs obj main ip m fuel ipe all Hsz Hpool Hat Hip Hpolls Hlen HE HgE HEr HK.
    destruct fuel as [|f]; [exact I|].
    change (sswitch o fns obj (S f) v ((false, es, blk) :: rest) all m) with
      (scase o fns obj f v es blk rest all m).
    pose proof (code_at_app_l _ _ _ _ Hat) as A1.
    pose proof (code_at_app_r _ _ _ _ Hat) as A2.
    rewrite lenN_app in HgE.
    eapply (sem_case_exprs_mono _ (consts c') _ _ _ _ _ (emits_pe _ _ _ Em2) Sem1); try eassumption.
    + lia.
    + intros fuel' m' Hp'.
      eapply (Sem2 E pool funcs obj main (ip + lenN (g1 E)) m' fuel' ipe all); try assumption.
      * rewrite (Hl1 E), <- (Hl1 9999). lia.
      * lia.
      * intros fuel'' m'' Hp''. eapply ok_ip; [apply HK; exact Hp''|rewrite lenN_app; lia].
Qed.

(* the default blocks, in order *)
Lemma cc_defaults_nil : forall c, cstate_ok c -> res_ok c c (sp_defaults []) anycode.
Proof.
  intros c Hc. exists []. split; [apply emits_refl; exact Hc|split; [exact I|]].
  intros pool funcs obj main ip m fuel Hsz Hpool Hat Hip Hpolls Hlen.
  destruct fuel as [|f]; [exact I|].
  eapply ok_ipe; [apply ok_normal; [exact Hpolls|apply runs_to_refl]|pos].
Qed.

Lemma cc_defaults_skip : forall c c' es blk rest Q,
  res_ok c c' (sp_defaults rest) Q -> res_ok c c' (sp_defaults ((false, es, blk) :: rest)) anycode.
Proof.
  intros c c' es blk rest Q (code & E & _ & S). exists code. split; [exact E|split; [exact I|]].
  intros pool funcs obj main ip m fuel Hsz Hpool Hat Hip Hpolls Hlen.
  destruct fuel as [|f]; [exact I|]. apply S; assumption.
Qed.

Lemma cc_defaults_cons : forall c c1 c2 es blk rest Q1 Q2,
  cstate_ok c -> res_ok c c1 (sp_block blk) Q1 -> res_ok c1 c2 (sp_defaults rest) Q2 ->
  res_ok c c2 (sp_defaults ((true, es, blk) :: rest)) anycode.
Proof.
  intros c c1 c2 es blk rest Q1 Q2 Hc (code1 & E1 & _ & S1) (code2 & E2 & _ & S2).
  pose proof (emits_len _ _ _ Hc E1) as L1.
  exists (code1 ++ code2). split; [|split].
  - eapply emits_trans; eassumption.
  - exact I.
  - intros pool funcs obj main ip m fuel Hsz Hpool Hat Hip Hpolls Hlen.
    destruct fuel as [|f]; [exact I|]. unfold sp_defaults.
    change (sdefaults o fns obj (S f) ((true, es, blk) :: rest) m) with
      (then_ (sblock o fns obj f blk m) (fun m1 => sdefaults o fns obj f rest m1)).
    pose proof (code_at_app_l _ _ _ _ Hat) as A1.
    pose proof (code_at_app_r _ _ _ _ Hat) as A2.
    eapply ok_ipe.
    + eapply ok_then.
      * eapply (sem_use _ _ _ _ _ _ S1 (consts c2)); side.
      * intros m1 Hp1. eapply (sem_use _ _ _ _ _ _ S2 (consts c2)); side.
    + pos.
Qed.

Lemma cc_switch : forall v chs c c1 c2 ps Q,
  cstate_ok c -> res_cases c c1 [] ps v chs -> res_ok c1 c2 (sp_defaults chs) Q ->
  res_ok c (emit0 OpPlaceholder (patch_all ps (clen c2) c2)) (sp_x (ESwitch v chs)) nonempty.
Proof.
  intros v chs c c1 c2 ps Q Hc (new & g & Hps & Hl & Em & Pat & Sem) (codeD & ED & _ & SD).
  cbn [app] in Hps. subst new.
  assert (Hc1 : cstate_ok c1) by apply Em.
  pose proof (emits_len _ _ _ Hc Em) as L1.
  pose proof (emits_len _ _ _ Hc1 ED) as L2.
  set (E := clen c2) in *.
  destruct (Pat E c c2 [] codeD Hc) as (E3 & L3 & CS3).
  { eapply emits_eq; [eapply emits_trans; [exact Em|exact ED]|leq]. }
  { pos. }
  cbn [app] in E3.
  set (c3 := patch_all ps E c2) in *.
  assert (Hc3 : cstate_ok c3) by apply E3.
  exists (g E ++ codeD ++ [OpPlaceholder]). split; [|split].
  - eapply emits_eq; [eapply emits_trans; [exact E3|apply emits_emit0; exact Hc3]|leq].
  - unfold nonempty. pos.
  - intros pool funcs obj main ip m fuel Hsz Hpool Hat Hip Hpolls Hlen.
    destruct fuel as [|f]; [exact I|]. unfold StmtProofs.sp_x.
    change (sx o fns obj (S f) (ESwitch v chs) m) with (sswitch o fns obj f v chs chs m).
    cbn [emit0 consts] in Hsz, Hpool. rewrite CS3 in Hsz, Hpool.
    pose proof (code_at_end _ _ _ Hat) as Hend.
    pose proof (code_at_app_l _ _ _ _ Hat) as A1.
    pose proof (code_at_app_r _ _ _ _ Hat) as A2.
    pose proof (code_at_app_l _ _ _ _ A2) as A2l.
    pose proof (code_at_app_r _ _ _ _ A2) as A3.
    assert (HE : E = ip + lenN (g E) + lenN codeD) by (rewrite (Hl E), <- (Hl 9999); lia).
    eapply ok_ipe.
    + eapply (sem_cases_mono _ (consts c2) _ _ _ _ (emits_pe _ _ _ ED) Sem E pool funcs obj main ip m f
                (E + 1) chs); try assumption.
      * rewrite !lenN_app in Hend. change (lenN [OpPlaceholder]) with 1 in Hend. lia.
      * lia.
      * intros m' Hp'. eapply run_ph; [|exact Hp']. at_pos A3.
      * intros fuel' m' Hp'. eapply ok_end.
        -- eapply (sem_use _ _ _ _ _ _ SD (consts c2)); side.
        -- intros m1 Hp1. eapply rt_pos; [eapply run_ph; [exact A3|exact Hp1]|reflexivity|lia].
    + pos.
Qed.

End Sem6.



(* ------------------------------------------------------------------ *)
(* PART J: the constructs outside the reference semantics (hash literals, `local`,
   function definitions): the reference result is "not judged", so only the
   compiler's bookkeeping has to be carried through them *)

Section Sem7.
Variables (o : stdlib) (fns : fnmap).
Notation res_ok := (res_ok o fns).
Notation sp_x := (sp_x o fns).

Lemma cc_local : forall name c, cstate_ok c ->
  res_ok c (emit0 OpLocal (emit_const (VStr name) c)) (sp_x (ELocal name)) nonempty.
Proof.
  intros name c Hc. destruct (emits_const (VStr name) c Hc) as (i & E1 & _).
  exists ([OpConstant; hi_byte i; lo_byte i] ++ [OpLocal]). split; [|split].
  - eapply emits_trans; [exact E1|]. apply emits_emit0. apply E1.
  - unfold nonempty. pos.
  - intros pool funcs obj main ip m fuel Hsz Hpool Hat Hip Hpolls Hlen.
    destruct fuel as [|f]; exact I.
Qed.

Lemma cc_hash : forall l n c c1 code1, emits c c1 code1 ->
  res_ok c (emit1' OpHash n c1) (sp_x (EHash l)) nonempty.
Proof.
  intros l n c c1 code1 E1.
  exists (code1 ++ [OpHash; hi_byte n; lo_byte n]). split; [|split].
  - eapply emits_trans; [exact E1|]. apply emits_emit1. apply E1.
  - unfold nonempty. pos.
  - intros pool funcs obj main ip m fuel Hsz Hpool Hat Hip Hpolls Hlen.
    destruct fuel as [|f]; exact I.
Qed.

Lemma cc_function : forall name params body c cs fs,
  cstate_ok c -> pool_extends (consts c) cs ->
  res_ok c (mkC (crev c) (clen c) cs fs) (sp_x (EFunction name params body)) (Qx (EFunction name params body)).
Proof.
  intros name params body c cs fs Hc Hpe. exists []. split; [|split].
  - split; [exact Hc|split; [exact Hpe|]]. unfold emitted. cbn [crev]. symmetry. apply app_nil_r.
  - intro H. discriminate H.
  - intros pool funcs obj main ip m fuel Hsz Hpool Hat Hip Hpolls Hlen.
    destruct fuel as [|f]; exact I.
Qed.

End Sem7.

(* inversions that keep `estr 64 _` folded (unfolding it is exponential) *)
Definition hash_keys (l : list (expr * expr)) : option (list (str * (expr * expr))) :=
  opt_map (fun kv => match estr 64 (fst kv) with Some s => Some (s, kv) | None => None end) l.

Lemma compile_hash_inv1 : forall f l c c', compile_expr (S f) (EHash l) c = COk tt c' ->
  match hash_keys l with
  | None => CNeed
  | Some ks =>
      let sorted := map snd (sort_by (fun a b => str_ltb (fst a) (fst b)) ks) in
      cbind (compile_pairs f sorted c) (fun _ c1 => COk tt (emit1' OpHash (lenN l * 2) c1))
  end = COk tt c'.
Proof. intros f l c c' H. exact H. Qed.

Lemma compile_hash_inv2 : forall f (l : list (expr * expr)) c c' (om : option (list (str * (expr * expr)))),
  match om with
  | None => CNeed
  | Some ks =>
      let sorted := map snd (sort_by (fun a b => str_ltb (fst a) (fst b)) ks) in
      cbind (compile_pairs f sorted c) (fun _ c1 => COk tt (emit1' OpHash (lenN l * 2) c1))
  end = COk tt c' ->
  exists sorted c1, compile_pairs f sorted c = COk tt c1 /\ c' = emit1' OpHash (lenN l * 2) c1.
Proof.
  intros f l c c' om H. destruct om as [ks|]; [|discriminate]. cbv zeta in H.
  destruct (compile_pairs f _ c) as [[] c1| | |] eqn:E1 in H; try discriminate. cbn [cbind] in H.
  injection H as <-. eexists _, c1. split; [exact E1|reflexivity].
Qed.

Lemma compile_hash_inv : forall f l c c', compile_expr (S f) (EHash l) c = COk tt c' ->
  exists sorted c1, compile_pairs f sorted c = COk tt c1 /\ c' = emit1' OpHash (lenN l * 2) c1.
Proof.
  intros f l c c' H. apply compile_hash_inv1 in H. exact (compile_hash_inv2 f l c c' (hash_keys l) H).
Qed.

Lemma compile_function_inv : forall f name params body c c',
  compile_expr (S f) (EFunction name params body) c = COk tt c' ->
  exists c1 cs fs, compile_block f body (mkC [] 0 (consts c) (funcs c)) = COk tt c1 /\
                   (cs = consts c1) /\ c' = mkC (crev c) (clen c) cs fs.
Proof.
  intros f name params body c c' H.
  assert (Heq : compile_expr (S f) (EFunction name params body) c =
    cbind (compile_block f body (mkC [] 0 (consts c) (funcs c))) (fun _ c1 =>
      let code1 := rev (crev c1) in
      let c2 := match last_op (S (List.length code1)) code1 None with
                | Some op => if op =? OpReturn then c1 else emit0 OpReturn (emit0 OpVoid c1)
                | None => emit0 OpReturn (emit0 OpVoid c1)
                end in
      COk tt (mkC (crev c) (clen c) (consts c2) (set_func name (mkUfunc params (rev (crev c2))) (funcs c2)))))
    by reflexivity.
  rewrite Heq in H. clear Heq.
  destruct (compile_block f body _) as [[] c1| | |] eqn:E1 in H; try discriminate. cbn [cbind] in H.
  cbv zeta in H. injection H as <-.
  exists c1. eexists. eexists. split; [exact E1|]. split; [|reflexivity].
  match goal with |- consts (match ?x with _ => _ end) = _ => destruct x as [op|] end;
    [destruct (op =? OpReturn)|]; reflexivity.
Qed.



(* ------------------------------------------------------------------ *)
(* PART F: the compiler, one level; the induction; C02 *)

(* every block is covered: the constructs the reference semantics leaves out
   (hash literals, `local`, function definitions) make it answer "not judged",
   for which block_compile_correct claims nothing *)
Definition covered (b : list stmt) : bool := true.

Lemma compile_pairs_nil_eq : forall f c, compile_pairs (S f) [] c = COk tt c.
Proof. reflexivity. Qed.
Lemma compile_pairs_cons_eq : forall f k v l c,
  compile_pairs (S f) ((k, v) :: l) c =
  cbind (compile_expr f k c) (fun _ c1 => cbind (compile_expr f v c1) (fun _ c2 => compile_pairs f l c2)).
Proof. reflexivity. Qed.

Lemma compile_switch_eq : forall f v chs c,
  compile_expr (S f) (ESwitch v chs) c =
  cbind (compile_cases f v chs [] c) (fun patches c1 =>
  cbind (compile_defaults f chs c1) (fun _ c2 =>
  COk tt (emit0 OpPlaceholder (patch_all patches (clen c2) c2)))).
Proof. reflexivity. Qed.

Lemma compile_cases_nil_eq : forall f v patches c, compile_cases (S f) v [] patches c = COk patches c.
Proof. reflexivity. Qed.
Lemma compile_cases_default_eq : forall f v es blk rest patches c,
  compile_cases (S f) v ((true, es, blk) :: rest) patches c = compile_cases f v rest patches c.
Proof. reflexivity. Qed.
Lemma compile_cases_arm_eq : forall f v es blk rest patches c,
  compile_cases (S f) v ((false, es, blk) :: rest) patches c =
  cbind (compile_case_exprs f v es blk patches c) (fun patches1 c1 => compile_cases f v rest patches1 c1).
Proof. reflexivity. Qed.

Lemma compile_case_exprs_nil_eq : forall f v blk patches c,
  compile_case_exprs (S f) v [] blk patches c = COk patches c.
Proof. reflexivity. Qed.
Lemma compile_case_exprs_cons_eq : forall f v e es' blk patches c,
  compile_case_exprs (S f) v (e :: es') blk patches c =
  cbind (compile_expr f v c) (fun _ c1 => cbind (compile_expr f e c1) (fun _ c2 =>
  let c3 := emit0 OpCase c2 in
  let c4 := emit1' OpJumpIfFalse 9999 c3 in
  cbind (compile_block f blk c4) (fun _ c5 =>
  let c6 := emit1' OpJump 9999 c5 in
  let c7 := patch (clen c3) (clen c6) c6 in
  compile_case_exprs f v es' blk (patches ++ [clen c5]) c7))).
Proof. reflexivity. Qed.

Lemma compile_defaults_nil_eq : forall f c, compile_defaults (S f) [] c = COk tt c.
Proof. reflexivity. Qed.
Lemma compile_defaults_default_eq : forall f es blk rest c,
  compile_defaults (S f) ((true, es, blk) :: rest) c =
  cbind (compile_block f blk c) (fun _ c1 => compile_defaults f rest c1).
Proof. reflexivity. Qed.
Lemma compile_defaults_skip_eq : forall f es blk rest c,
  compile_defaults (S f) ((false, es, blk) :: rest) c = compile_defaults f rest c.
Proof. reflexivity. Qed.

Lemma compile_if_eq : forall f cond cns alt c,
  compile_expr (S f) (EIf cond cns alt) c =
  cbind (compile_expr f cond c) (fun _ c1 =>
  cbind (compile_block f cns (emit1' OpJumpIfFalse 9999 c1)) (fun _ c3 =>
  let c4 := patch (clen c1) (clen c3) c3 in
  match alt with
  | None => COk tt (emit0 OpPlaceholder c4)
  | Some a =>
      let c5 := emit1' OpJump 9999 c4 in
      let c6 := patch (clen c1) (clen c5) c5 in
      cbind (compile_block f a c6) (fun _ c7 =>
      COk tt (emit0 OpPlaceholder (patch (clen c4) (clen c7) c7)))
  end)).
Proof. reflexivity. Qed.

Lemma compile_ternary_eq : forall f cond t e' c,
  compile_expr (S f) (ETernary cond t e') c =
  cbind (compile_expr f cond c) (fun _ c1 =>
  cbind (compile_expr f t (emit1' OpJumpIfFalse 9999 c1)) (fun _ c3 =>
  let c4 := emit1' OpJump 9999 c3 in
  let c5 := patch (clen c1) (clen c4) c4 in
  cbind (compile_expr f e' c5) (fun _ c6 =>
  COk tt (emit0 OpPlaceholder (patch (clen c3) (clen c6) c6))))).
Proof. reflexivity. Qed.

Lemma compile_while_eq : forall f cond body c,
  compile_expr (S f) (EWhile cond body) c =
  cbind (compile_expr f cond c) (fun _ c1 =>
  cbind (compile_block f body (emit1' OpJumpIfFalse 9999 c1)) (fun _ c3 =>
  let c4 := emit1' OpJump (clen c) c3 in
  COk tt (emit0 OpPlaceholder (patch (clen c1) (clen c4) c4)))).
Proof. reflexivity. Qed.

Lemma compile_assign_eq : forall f name v c,
  compile_expr (S f) (EAssign name v) c =
  cbind (compile_expr f v c) (fun _ c1 => COk tt (emit0 OpSet (emit_const (VStr name) c1))).
Proof. reflexivity. Qed.

Lemma compile_call_eq : forall f fn args c,
  compile_expr (S f) (ECall fn args) c =
  cbind (compile_exprs f args c) (fun _ c1 =>
  match estr 64 fn with
  | None => CNeed
  | Some name => COk tt (emit1' OpCall (lenN args) (emit_const (VStr name) c1))
  end).
Proof. reflexivity. Qed.

Lemma compile_foreach_eq : forall f idx ident v body c,
  compile_expr (S f) (EForeach idx ident v body) c =
  cbind (compile_expr f v c) (fun _ c1 =>
  let c2 := emit0 OpIterationReset c1 in
  let c3 := emit_const (VStr ident) (emit_const (VStr idx) c2) in
  let c4 := emit0 OpIterationNext c3 in
  let c5 := emit1' OpJumpIfFalse 9999 c4 in
  cbind (compile_block f body c5) (fun _ c6 =>
  let c7 := emit1' OpJump (clen c2) c6 in
  COk tt (emit0 OpPlaceholder (patch (clen c4) (clen c7) c7)))).
Proof. reflexivity. Qed.

(* inversion of the call case, keeping `estr 64 fn` folded (unfolding it is exponential) *)
Lemma compile_call_inv1 : forall f e args c c', compile_expr (S f) (ECall e args) c = COk tt c' ->
  cbind (compile_exprs f args c) (fun _ c1 =>
  match estr 64 e with
  | None => CNeed
  | Some name => COk tt (emit1' OpCall (lenN args) (emit_const (VStr name) c1))
  end) = COk tt c'.
Proof. intros f e args c c' H. rewrite compile_call_eq in H. exact H. Qed.

Lemma compile_call_inv2 : forall f (args : list expr) c c' es,
  cbind (compile_exprs f args c) (fun _ c1 =>
  match es with
  | None => CNeed
  | Some name => COk tt (emit1' OpCall (lenN args) (emit_const (VStr name) c1))
  end) = COk tt c' ->
  exists c1 name, compile_exprs f args c = COk tt c1 /\ es = Some name /\
                  c' = emit1' OpCall (lenN args) (emit_const (VStr name) c1).
Proof.
  intros f args c c' es H.
  destruct (compile_exprs f args c) as [[] c1| | |] eqn:E1; try discriminate. cbn [cbind] in H.
  destruct es as [name|]; try discriminate.
  injection H as <-. exists c1, name. repeat split.
Qed.

Lemma compile_call_inv : forall f e args c c', compile_expr (S f) (ECall e args) c = COk tt c' ->
  exists c1 name, compile_exprs f args c = COk tt c1 /\ estr 64 e = Some name /\
                  c' = emit1' OpCall (lenN args) (emit_const (VStr name) c1).
Proof. intros f e args c c' H. apply compile_call_inv1 in H. exact (compile_call_inv2 f args c c' (estr 64 e) H). Qed.

Lemma compile_stmt_return_eq : forall f e c,
  compile_stmt (S f) (SReturn e) c = cbind (compile_expr f e c) (fun _ c1 => COk tt (emit0 OpReturn c1)).
Proof. reflexivity. Qed.

Lemma compile_stmt_expr_eq : forall f e c, compile_stmt (S f) (SExpr e) c = compile_expr f e c.
Proof. reflexivity. Qed.

Lemma compile_block_nil_eq : forall f c, compile_block (S f) [] c = COk tt c.
Proof. reflexivity. Qed.

Lemma compile_block_cons_eq : forall f s l c,
  compile_block (S f) (s :: l) c = cbind (compile_stmt f s c) (fun _ c1 => compile_block f l c1).
Proof. reflexivity. Qed.

Local Ltac infix_case_g o fns e1 e2 c c1 c2 Hc R1 R2 :=
  match goal with
  | |- res_ok _ _ _ _ (sp_x _ _ (EInfix TDotDot _ _)) _ =>
      apply (cc_binary_g o fns _ e1 e2 OpRange vm_range c c1 c2 _ _ Hc R1 R2);
      [intros; reflexivity | apply bin_step_g_range]
  | |- res_ok _ _ _ _ (sp_x _ _ (EInfix ?t _ _)) _ =>
      let b := eval cbv in (binop_of_tok t) in
      match b with
      | Some ?b' =>
          apply (cc_binary_g o fns _ e1 e2 (opcode_of_binop b') (spec_binop o b') c c1 c2 _ _ Hc R1 R2);
          [intros; reflexivity | apply bin_step_g_binop]
      end
  end.

Local Ltac mutate_case o fns e2 c c1 c2 Hc R1 R2 :=
  match goal with
  | |- res_ok _ _ _ _ (sp_x _ _ (EInfix ?t (EIdent ?name) _)) _ =>
      let b := eval cbv in (mutator_op t) in
      match b with
      | Some ?b' => apply (cc_mutate o fns b' name e2 c c1 c2 _ _ t Hc R1 R2); reflexivity
      end
  end.

Section Main.
Variables (o : stdlib) (fns : fnmap).
Notation res_ok := (res_ok o fns).
Notation sp_x := (sp_x o fns).
Notation sp_xs := (sp_xs o fns).
Notation sp_stmt := (sp_stmt o fns).
Notation sp_block := (sp_block o fns).

Definition P_expr (fuel : nat) : Prop := forall e c c',
  cstate_ok c -> compile_expr fuel e c = COk tt c' -> res_ok c c' (sp_x e) (Qx e).
Definition P_exprs (fuel : nat) : Prop := forall l c c',
  cstate_ok c -> compile_exprs fuel l c = COk tt c' -> res_ok c c' (sp_xs l) (Qxs l).
Definition P_stmt (fuel : nat) : Prop := forall s c c',
  cstate_ok c -> compile_stmt fuel s c = COk tt c' -> res_ok c c' (sp_stmt s) anycode.
Definition P_block (fuel : nat) : Prop := forall b c c',
  cstate_ok c -> compile_block fuel b c = COk tt c' -> res_ok c c' (sp_block b) anycode.

Definition P_case_exprs (fuel : nat) : Prop := forall v es blk patches c po c',
  cstate_ok c ->
  compile_case_exprs fuel v es blk patches c = COk po c' -> res_case_exprs o fns c c' patches po v es blk.
Definition P_cases (fuel : nat) : Prop := forall v chs patches c po c',
  cstate_ok c ->
  compile_cases fuel v chs patches c = COk po c' -> res_cases o fns c c' patches po v chs.
Definition P_defaults (fuel : nat) : Prop := forall chs c c',
  cstate_ok c ->
  compile_defaults fuel chs c = COk tt c' -> res_ok c c' (sp_defaults o fns chs) anycode.

Definition P_pairs (fuel : nat) : Prop := forall l c c',
  cstate_ok c -> compile_pairs fuel l c = COk tt c' -> exists code, emits c c' code.

Local Ltac ne := apply res_ok_weaken with (Q := nonempty); [|apply nonempty_Qx].

Lemma all_fuel : forall fuel,
  P_expr fuel /\ P_exprs fuel /\ P_stmt fuel /\ P_block fuel /\
  P_case_exprs fuel /\ P_cases fuel /\ P_defaults fuel /\ P_pairs fuel.
Proof.
  induction fuel as [|f (IHe & IHl & IHs & IHb & IHce & IHc & IHd & IHp)].
  - repeat split; intro; intros; discriminate.
  - split; [|split; [|split; [|split; [|split; [|split; [|split]]]]]].
    + (* expressions *)
      intros e c c' Hc H. destruct e.
      * (* EInt *)
        cbn [compile_expr] in H. destruct (inline_int v) eqn:Ei; injection H as <-; ne.
        -- apply cc_push_g; assumption.
        -- apply cc_const_g; [exact Hc|reflexivity].
      * cbn [compile_expr] in H. injection H as <-. ne. apply cc_const_g; [exact Hc|reflexivity].
      * cbn [compile_expr] in H. injection H as <-. ne. apply cc_const_g; [exact Hc|reflexivity].
      * (* EBool *)
        cbn [compile_expr] in H. destruct b; injection H as <-; ne.
        -- apply (cc_nullary_g o fns _ OpTrue (VBool true)); [exact Hc|reflexivity|].
           intros; apply exec_true; assumption.
        -- apply (cc_nullary_g o fns _ OpFalse (VBool false)); [exact Hc|reflexivity|].
           intros; apply exec_false; assumption.
      * cbn [compile_expr] in H. injection H as <-. ne. apply cc_const_g; [exact Hc|reflexivity].
      * (* EIdent *)
        cbn [compile_expr] in H. destruct (add_const (VStr name) c) as [i c1] eqn:E.
        injection H as <-. ne. apply cc_ident_g; assumption.
      * (* EPrefix *)
        rewrite compile_prefix_eq in H.
        destruct (compile_expr f e c) as [[] c1| | |] eqn:E1; try discriminate. cbn [cbind] in H.
        pose proof (IHe e c c1 Hc E1) as R1.
        destruct op; try discriminate; cbn [prefix_opcode] in H; injection H as <-; ne.
        -- apply (cc_unary_g o fns _ e OpBang (fun v => Ok (vm_bang v)) c c1 _ Hc R1);
             [intros; reflexivity | apply un_step_g_bang].
        -- apply (cc_unary_g o fns _ e OpMinus vm_minus c c1 _ Hc R1);
             [intros; reflexivity | apply un_step_g_minus].
        -- apply (cc_unary_g o fns _ e OpSquareRoot vm_sqrt c c1 _ Hc R1);
             [intros; reflexivity | apply un_step_g_sqrt].
      * (* EInfix *)
        destruct (tokty_eq_dec op TPeriod) as [->|Hne].
        { destruct (compile_dot_inv _ _ _ _ _ H) as (c1 & name & E1 & En & ->). ne.
          exact (cc_dot_g o fns e1 e2 name c c1 _ Hc (IHe e1 c c1 Hc E1) En). }
        rewrite compile_infix_eq in H by exact Hne.
        destruct (compile_expr f e1 c) as [[] c1| | |] eqn:E1; try discriminate. cbn [cbind] in H.
        destruct (compile_expr f e2 c1) as [[] c2| | |] eqn:E2; try discriminate. cbn [cbind] in H.
        pose proof (IHe e1 c c1 Hc E1) as R1.
        pose proof (IHe e2 c1 c2 (res_ok_ok _ _ _ _ _ _ R1) E2) as R2.
        destruct op; cbn [infix_opcode is_mutator] in H; try discriminate;
          try (exfalso; apply Hne; reflexivity);
          first [ injection H as <-; ne; infix_case_g o fns e1 e2 c c1 c2 Hc R1 R2
                | destruct e1; try discriminate; injection H as <-; ne;
                  mutate_case o fns e2 c c1 c2 Hc R1 R2 ].
      * (* EPostfix *)
        cbn [compile_expr] in H. destruct op; try discriminate;
          destruct (add_const (VStr name) c) as [i c1] eqn:E; injection H as <-; ne;
          first [apply (cc_postfix_g o fns true); assumption | apply (cc_postfix_g o fns false); assumption].
      * (* ETernary *)
        rewrite compile_ternary_eq in H.


        destruct (compile_expr f e1 c) as [[] c1| | |] eqn:E1; try discriminate. cbn [cbind] in H.
        pose proof (IHe e1 c c1 Hc E1) as R1.
        pose proof (emits_ok _ _ _ (emits_emit1 OpJumpIfFalse 9999 c1 (res_ok_ok _ _ _ _ _ _ R1))) as Hc2.
        destruct (compile_expr f e2 (emit1' OpJumpIfFalse 9999 c1)) as [[] c3| | |] eqn:E2; try discriminate.
        cbn [cbind] in H. cbv zeta in H.
        pose proof (IHe e2 _ c3 Hc2 E2) as R2.
        assert (Hc5 : cstate_ok (patch (clen c1) (clen (emit1' OpJump 9999 c3)) (emit1' OpJump 9999 c3))).
        { apply patch_ok. eapply emits_ok. apply emits_emit1. exact (res_ok_ok _ _ _ _ _ _ R2). }
        destruct (compile_expr f e3 _) as [[] c6| | |] eqn:E3 in H; try discriminate.
        cbn [cbind] in H. injection H as <-.
        pose proof (IHe e3 _ c6 Hc5 E3) as R3. ne.
        exact (cc_ternary o fns e1 e2 e3 c c1 c3 c6 _ _ _ Hc R1 R2 R3).
      * (* EArray *)
        rewrite compile_array_eq in H.
        destruct (compile_exprs f l c) as [[] c1| | |] eqn:E1; try discriminate. cbn [cbind] in H.
        injection H as <-. ne. apply cc_array; [exact Hc|]. apply IHl; assumption.
      * (* EHash: outside the reference semantics *)
        apply compile_hash_inv in H. destruct H as (sorted & c1 & E1 & ->).
        destruct (IHp sorted c c1 Hc E1) as (code1 & Em1). ne.
        exact (cc_hash o fns l _ c c1 code1 Em1).
      * (* EIndex *)
        rewrite compile_index_eq in H.
        destruct (compile_expr f e1 c) as [[] c1| | |] eqn:E1; try discriminate. cbn [cbind] in H.
        destruct (compile_expr f e2 c1) as [[] c2| | |] eqn:E2; try discriminate. cbn [cbind] in H.
        pose proof (IHe e1 c c1 Hc E1) as R1.
        pose proof (IHe e2 c1 c2 (res_ok_ok _ _ _ _ _ _ R1) E2) as R2.
        injection H as <-. ne.
        apply (cc_binary_g o fns _ e1 e2 OpIndex (spec_index o) c c1 c2 _ _ Hc R1 R2);
          [intros; reflexivity | apply bin_step_g_index].
      * (* ECall *)
        apply compile_call_inv in H. destruct H as (c1 & name & E1 & Es & ->).
        ne. apply cc_call; [exact Hc| |exact Es]. apply IHl; assumption.
      * (* EAssign *)
        rewrite compile_assign_eq in H.
        destruct (compile_expr f e c) as [[] c1| | |] eqn:E1; try discriminate. cbn [cbind] in H.
        injection H as <-. ne. eapply cc_assign; [exact Hc|]. apply IHe; eassumption.
      * (* ELocal: outside the reference semantics *)
        cbn [compile_expr] in H. injection H as <-. ne. apply cc_local. exact Hc.
      * (* EIf *)
        rewrite compile_if_eq in H.


        destruct (compile_expr f e c) as [[] c1| | |] eqn:E1; try discriminate. cbn [cbind] in H.
        pose proof (IHe e c c1 Hc E1) as R1.
        pose proof (emits_ok _ _ _ (emits_emit1 OpJumpIfFalse 9999 c1 (res_ok_ok _ _ _ _ _ _ R1))) as Hc2.
        destruct (compile_block f cons (emit1' OpJumpIfFalse 9999 c1)) as [[] c3| | |] eqn:E2; try discriminate.
        cbn [cbind] in H. cbv zeta in H.
        pose proof (IHb cons _ c3 Hc2 E2) as R2.
        destruct alt as [a|].
        -- match type of H with cbind (compile_block f a ?c6) _ = _ =>
             assert (Hc6 : cstate_ok c6);
             [apply patch_ok; eapply emits_ok; apply emits_emit1; apply patch_ok; exact (res_ok_ok _ _ _ _ _ _ R2)|];
             destruct (compile_block f a c6) as [[] c7| | |] eqn:E3; try discriminate
           end.
           cbn [cbind] in H. injection H as <-.
           pose proof (IHb a _ c7 Hc6 E3) as R3. ne.
           exact (cc_if_else o fns e cons a c c1 c3 c7 _ _ _ Hc R1 R2 R3).
        -- injection H as <-. ne. exact (cc_if_none o fns e cons c c1 c3 _ _ Hc R1 R2).
      * (* EWhile *)
        rewrite compile_while_eq in H.

        destruct (compile_expr f e c) as [[] c1| | |] eqn:E1; try discriminate. cbn [cbind] in H.
        pose proof (IHe e c c1 Hc E1) as R1.
        pose proof (emits_ok _ _ _ (emits_emit1 OpJumpIfFalse 9999 c1 (res_ok_ok _ _ _ _ _ _ R1))) as Hc2.
        destruct (compile_block f body (emit1' OpJumpIfFalse 9999 c1)) as [[] c3| | |] eqn:E2; try discriminate.
        cbn [cbind] in H. cbv zeta in H. injection H as <-.
        pose proof (IHb body _ c3 Hc2 E2) as R2. ne.
        exact (cc_while o fns e body c c1 c3 _ _ Hc R1 R2).
      * (* EForeach *)
        rewrite compile_foreach_eq in H.

        destruct (compile_expr f e c) as [[] c1| | |] eqn:E1; try discriminate. cbn [cbind] in H.
        pose proof (IHe e c c1 Hc E1) as R1. cbv zeta in H.
        match type of H with cbind (compile_block f body ?c5) _ = _ =>
          assert (Hc5 : cstate_ok c5);
          [eapply emits_ok; apply emits_emit1; eapply emits_ok; apply emits_emit0;
           destruct (emits_const (VStr idx) _ (emits_ok _ _ _ (emits_emit0 OpIterationReset c1 (res_ok_ok _ _ _ _ _ _ R1))))
             as (i1 & K1 & _);
           destruct (emits_const (VStr ident) _ (emits_ok _ _ _ K1)) as (i2 & K2 & _);
           exact (emits_ok _ _ _ K2)|];
          destruct (compile_block f body c5) as [[] c6| | |] eqn:E2; try discriminate
        end.
        cbn [cbind] in H. injection H as <-.
        pose proof (IHb body _ c6 Hc5 E2) as R2. ne.
        exact (cc_foreach o fns idx ident e body c c1 c6 _ _ Hc R1 R2).
      * (* EFunction: outside the reference semantics *)
        apply compile_function_inv in H. destruct H as (c1 & cs & fs & E1 & -> & ->).
        assert (Hc0 : cstate_ok (mkC [] 0 (consts c) (funcs c))) by reflexivity.
        destruct (IHb body _ c1 Hc0 E1) as (code1 & Em1 & _).
        apply cc_function; [exact Hc|exact (emits_pe _ _ _ Em1)].
      * (* ESwitch *)
        rewrite compile_switch_eq in H.

        destruct (compile_cases f e choices [] c) as [ps c1| | |] eqn:E1; try discriminate. cbn [cbind] in H.
        pose proof (IHc e choices [] c ps c1 Hc E1) as R1.
        destruct (compile_defaults f choices c1) as [[] c2| | |] eqn:E2; try discriminate. cbn [cbind] in H.
        pose proof (IHd choices c1 c2 (res_cases_ok _ _ _ _ _ _ _ _ R1) E2) as R2.
        injection H as <-. ne. exact (cc_switch o fns e choices c c1 c2 ps _ Hc R1 R2).
    + (* expression lists *)
      intros l c c' Hc H. destruct l as [|e l].
      * rewrite compile_exprs_nil_eq in H. injection H as <-. apply cc_exprs_nil. exact Hc.
      * rewrite compile_exprs_cons_eq in H.

        destruct (compile_expr f e c) as [[] c1| | |] eqn:E1; try discriminate. cbn [cbind] in H.
        pose proof (IHe e c c1 Hc E1) as R1.
        apply (cc_exprs_cons o fns e l c c1 c'); [exact Hc|exact R1|].
        apply IHl; [exact (res_ok_ok _ _ _ _ _ _ R1)|exact H].
    + (* statements *)
      intros s c c' Hc H. destruct s as [e|e].
      * rewrite compile_stmt_return_eq in H.
        destruct (compile_expr f e c) as [[] c1| | |] eqn:E1; try discriminate. cbn [cbind] in H.
        injection H as <-. eapply cc_stmt_return; [exact Hc|]. apply IHe; eassumption.
      * rewrite compile_stmt_expr_eq in H. eapply cc_stmt_expr. apply IHe; eassumption.
    + (* blocks *)
      intros b c c' Hc H. destruct b as [|s b].
      * rewrite compile_block_nil_eq in H. injection H as <-. apply cc_block_nil. exact Hc.
      * rewrite compile_block_cons_eq in H.

        destruct (compile_stmt f s c) as [[] c1| | |] eqn:E1; try discriminate. cbn [cbind] in H.
        pose proof (IHs s c c1 Hc E1) as R1.
        apply (cc_block_cons o fns s b c c1 c' anycode anycode Hc R1).
        apply IHb; [exact (res_ok_ok _ _ _ _ _ _ R1)|exact H].
    + (* the case expressions of one arm *)
      intros v es blk patches c po c' Hc H. destruct es as [|e es'].
      * rewrite compile_case_exprs_nil_eq in H. injection H as <- <-. apply cc_case_exprs_nil. exact Hc.
      * rewrite compile_case_exprs_cons_eq in H.

        destruct (compile_expr f v c) as [[] c1| | |] eqn:E1; try discriminate. cbn [cbind] in H.
        pose proof (IHe v c c1 Hc E1) as R1.
        destruct (compile_expr f e c1) as [[] c2| | |] eqn:E2; try discriminate. cbn [cbind] in H.
        pose proof (IHe e c1 c2 (res_ok_ok _ _ _ _ _ _ R1) E2) as R2. cbv zeta in H.
        assert (Hc4 : cstate_ok (emit1' OpJumpIfFalse 9999 (emit0 OpCase c2))).
        { eapply emits_ok. apply emits_emit1. eapply emits_ok. apply emits_emit0. exact (res_ok_ok _ _ _ _ _ _ R2). }
        destruct (compile_block f blk _) as [[] c5| | |] eqn:E5 in H; try discriminate. cbn [cbind] in H.
        pose proof (IHb blk _ c5 Hc4 E5) as R5.
        match type of H with compile_case_exprs f v es' blk _ ?c7 = _ =>
          assert (Hc7 : cstate_ok c7);
          [apply patch_ok; eapply emits_ok; apply emits_emit1; exact (res_ok_ok _ _ _ _ _ _ R5)|] end.
        pose proof (IHce v es' blk _ _ po c' Hc7 H) as R7.
        exact (cc_case_exprs_cons o fns v e es' blk patches po c c1 c2 c5 c' _ _ _ Hc R1 R2 R5 R7).
    + (* the arms of a switch *)
      intros v chs patches c po c' Hc H. destruct chs as [|[[d es] blk] rest].
      * rewrite compile_cases_nil_eq in H. injection H as <- <-. apply cc_cases_nil. exact Hc.
      *
        destruct d.
        -- rewrite compile_cases_default_eq in H. apply cc_cases_default.
           exact (IHc v rest patches c po c' Hc H).
        -- rewrite compile_cases_arm_eq in H.
           destruct (compile_case_exprs f v es blk patches c) as [p1 c1| | |] eqn:E1; try discriminate.
           cbn [cbind] in H.
           pose proof (IHce v es blk patches c p1 c1 Hc E1) as R1.
           pose proof (IHc v rest p1 c1 po c' (res_case_exprs_ok _ _ _ _ _ _ _ _ _ R1) H) as R2.
           exact (cc_cases_arm o fns c c1 c' patches p1 po v es blk rest Hc R1 R2).
    + (* the default blocks *)
      intros chs c c' Hc H. destruct chs as [|[[d es] blk] rest].
      * rewrite compile_defaults_nil_eq in H. injection H as <-. apply cc_defaults_nil. exact Hc.
      *
        destruct d.
        -- rewrite compile_defaults_default_eq in H.
           destruct (compile_block f blk c) as [[] c1| | |] eqn:E1; try discriminate. cbn [cbind] in H.
           pose proof (IHb blk c c1 Hc E1) as R1.
           pose proof (IHd rest c1 c' (res_ok_ok _ _ _ _ _ _ R1) H) as R2.
           exact (cc_defaults_cons o fns c c1 c' es blk rest _ _ Hc R1 R2).
        -- rewrite compile_defaults_skip_eq in H.
           exact (cc_defaults_skip o fns c c' es blk rest _ (IHd rest c c' Hc H)).
    + (* the pairs of a hash literal: bookkeeping only *)
      intros l c c' Hc H. destruct l as [|[k v] l].
      * rewrite compile_pairs_nil_eq in H. injection H as <-. exists []. apply emits_refl. exact Hc.
      * rewrite compile_pairs_cons_eq in H.
        destruct (compile_expr f k c) as [[] c1| | |] eqn:E1; try discriminate. cbn [cbind] in H.
        destruct (IHe k c c1 Hc E1) as (code1 & Em1 & _).
        destruct (compile_expr f v c1) as [[] c2| | |] eqn:E2; try discriminate. cbn [cbind] in H.
        destruct (IHe v c1 c2 (emits_ok _ _ _ Em1) E2) as (code2 & Em2 & _).
        destruct (IHp l c2 c' (emits_ok _ _ _ Em2) H) as (code3 & Em3).
        exists (code1 ++ code2 ++ code3).
        eapply emits_trans; [exact Em1|]. eapply emits_trans; [exact Em2|exact Em3].
Qed.

End Main.

Lemma block_compile_correct_covered : forall (o : stdlib) (fns : fnmap) (b : list stmt),
  covered b = true -> block_compile_correct o fns b.
Proof.
  intros o fns b Hcov fuelc c c' Hc H.
  destruct (all_fuel o fns fuelc) as (_ & _ & _ & Pb & _).
  destruct (Pb b c c' Hc H) as (code & (H1 & H2 & H3) & _ & S).
  split; [exact H1|split; [exact H2|]]. exists code. split; [exact H3|].
  intros pool funcs obj pre post m fuel Hsz Hpool Hpre Hpolls main Hlen.
  pose proof (S pool funcs obj main (lenN pre) m fuel Hsz Hpool (code_at_intro pre code post) Hpre Hpolls Hlen) as R.
  unfold sp_block in R.
  destruct (sblock o fns obj fuel b m) as [m'|v m'|x m']; cbn [ok] in R.
  - exact (proj2 R).
  - exact R.
  - destruct x; exact R.
Qed.

Lemma return_stops : forall o fns obj fuel e rest m v m',
  sstmt o fns obj fuel (SReturn e) m = XReturn v m' ->
  sblock o fns obj (S fuel) (SReturn e :: rest) m = XReturn v m'.
Proof.
  intros o fns obj fuel e rest m v m' H.
  change (sblock o fns obj (S fuel) (SReturn e :: rest) m) with
    (then_ (sstmt o fns obj fuel (SReturn e) m) (fun m1 => sblock o fns obj fuel rest m1)).
  rewrite H. reflexivity.
Qed.

Lemma fall_off_is_null : forall o consts funcs fns obj code m k,
  polls m = None ->
  exec o consts funcs fns obj (S k) code (lenN code) m = (ODone VNull, m).
Proof.
  intros o consts funcs fns obj code m k Hp. cbn [exec]. rewrite N.leb_refl. reflexivity.
Qed.

(* TruthProofs.v - one notion of truth (C05): the truth value of every value
   is the documented one; the conditional jump, && / ||, ! and the Run
   verdict all decide by it.  Complete proofs only; no axioms. *)
From Coq Require Import Floats Lia.
From EF Require Import Model.Base Gen.Tables Model.Code Model.Value Model.Env Model.Reflect
                       Model.Compiler Model.VM Model.Api Spec.Ops.
From EF Require Proofs.OpsProofs.
Open Scope N_scope.

(* ------------------------------------------------------------------ *)
(* truth values *)

Lemma truth_table : forall v, truthy v = spec_truth v.
Proof. intro v. symmetry. apply OpsProofs.spec_truth_truthy. Qed.

Lemma truth_cases :
  (forall b, truthy (VBool b) = b) /\ truthy VNull = false /\ truthy VVoid = false /\
  (forall z, truthy (VInt z) = (0 <? z)%Z) /\ (forall f, truthy (VFloat f) = PrimFloat.ltb 0%float f) /\
  truthy (VStr []) = false /\ (forall c s, truthy (VStr (c :: s)) = true) /\
  truthy (VArray []) = false /\ (forall x l, truthy (VArray (x :: l)) = true) /\
  truthy (VHash []) = false /\ (forall x l, truthy (VHash (x :: l)) = true) /\
  truthy (VRegexp []) = false /\ (forall c s, truthy (VRegexp (c :: s)) = true).
Proof. repeat split. Qed.

(* ------------------------------------------------------------------ *)
(* the conditional jump *)

Ltac closed_eval t := let v := eval vm_compute in t in change t with v.
Ltac step_simpl :=
  repeat match goal with
  | |- context [N.eqb ?a ?b] => closed_eval (N.eqb a b)
  | |- context [N.ltb 1 (op_len ?a)] => closed_eval (N.ltb 1 (op_len a))
  | |- context [op_len ?a] => closed_eval (op_len a)
  | |- context [binop_of_opcode ?a] => closed_eval (binop_of_opcode a)
  end; cbv beta iota; cbn [orb].

Lemma exec_jump_if_false : forall o consts funcs fns obj k code ip m arg v s,
  (lenN code <=? ip) = false -> polls m = None -> byte_at code ip = Some OpJumpIfFalse ->
  operand_at code ip = Some arg -> stk m = v :: s ->
  exec o consts funcs fns obj (S k) code ip m =
  if truthy v then exec o consts funcs fns obj k code (ip + 3) (set_stk m s)
  else if lenN code <=? arg then (OErr EInternal, set_stk m s)
  else exec o consts funcs fns obj k code arg (set_stk m s).
Proof.
  intros o consts funcs fns obj k code ip m arg v s Hl Hp Hb Ho Hs.
  cbn [exec]. rewrite Hl, Hp, Hb. step_simpl. rewrite Ho. step_simpl. rewrite Hs. reflexivity.
Qed.

Lemma jump_decides_by_truth :
  forall o consts funcs fns obj code ip m v s target k,
  byte_at code ip = Some OpJumpIfFalse -> operand_at code ip = Some target ->
  polls m = None -> stk m = v :: s -> ip < lenN code -> target < lenN code ->
  exec o consts funcs fns obj (S k) code ip m =
  exec o consts funcs fns obj k code (if truthy v then ip + 3 else target) (set_stk m s).
Proof.
  intros o consts funcs fns obj code ip m v s target k Hb Ho Hp Hs Hip Ht.
  assert (Hl : (lenN code <=? ip) = false) by (apply N.leb_gt; exact Hip).
  assert (Hl' : (lenN code <=? target) = false) by (apply N.leb_gt; exact Ht).
  rewrite (exec_jump_if_false o consts funcs fns obj k code ip m target v s Hl Hp Hb Ho Hs).
  rewrite Hl'. destruct (truthy v); reflexivity.
Qed.

(* ------------------------------------------------------------------ *)
(* && || ! *)

Lemma and_or : forall o l r,
  vm_binop o BAnd l r = Ok (VBool (truthy l && truthy r)) /\
  vm_binop o BOr l r = Ok (VBool (truthy l || truthy r)).
Proof. intros o l r. split; reflexivity. Qed.

Lemma bang : forall v,
  vm_bang v = VBool (match v with VBool b => negb b | VNull => true | _ => false end).
Proof. destruct v; reflexivity. Qed.

(* ------------------------------------------------------------------ *)
(* Run is the truth value of Execute *)

Lemma run_verdict : forall o fuel e obj,
  match step o fuel e (OExec obj), step o fuel e (ORun obj) with
  | (RExec c v tr vars ns rs, e1), (RRun c' b tr' vars' ns' rs', e2) =>
      c = c' /\ b = (match c with ROk => truthy v | _ => false end) /\
      tr = tr' /\ vars = vars' /\ ns = ns' /\ rs = rs' /\ e1 = e2
  | (RNeed, e1), (RNeed, e2) => e1 = e2
  | (RFuel, e1), (RFuel, e2) => e1 = e2
  | _, _ => False
  end.
Proof.
  intros o fuel e obj. cbn [step]. unfold execute.
  destruct (emachine e) as [mc|].
  - destruct (run_main o (pconsts (mprog mc)) (pfuncs (mprog mc)) (efns e) obj fuel
                (pmain (mprog mc)) (mkM [] (eenv e) [] (mctx mc))) as [out m1].
    destruct out as [v|x].
    + repeat split.
    + destruct x; cbn [class_of]; repeat split.
  - repeat split.
Qed.

(* PollProofs.v - the logical deadline (C09): the machine polls its context
   before every instruction, at every call depth.
   Complete proofs only; no axioms.

   Method: [instr] is the body of one iteration of Model/VM.v's [exec] after
   the poll, with the recursive calls abstracted ([exec_S] checks by
   conversion that it is literally that body).  [instr_shape] shows that,
   whatever the instruction, one iteration either stops, or continues at
   another ip, or runs a callee and then continues - and that this shape does
   not depend on the poll budget, which is only threaded through.  The
   theorems about budgets are then short inductions on the fuel. *)
From Coq Require Import Floats Lia.
From EF Require Import Model.Base Gen.Tables Model.Lexer Model.Ast Model.Parser Model.Code Model.Value Model.Env
                       Model.Reflect Model.Builtins Model.Compiler Model.Optimizer Model.VM Model.Api.
Open Scope N_scope.

Definition with_polls (m : mstate) (p : option N) : mstate := mkM (stk m) (menv m) (trace m) p.

(* one poll of the context *)
Definition poll (p : option N) : option (option N) :=
  match p with
  | Some 0 => None
  | Some d => Some (Some (d - 1))
  | None => Some None
  end.

Lemma poll_pos : forall d, 1 <= d -> poll (Some d) = Some (Some (d - 1)).
Proof. intros d Hd. destruct d as [|q]; [lia|reflexivity]. Qed.

Section Exec.
Variables (o : stdlib) (consts : list value) (funcs : list (str * ufunc)) (fns : fnmap) (obj : hostval).
Notation ex := (exec o consts funcs fns obj).

(* ------------------------------------------------------------------ *)
(* one iteration of exec, after the poll; [rec] stands for [exec f] *)

Section Instr.
Variable rec : list N -> N -> mstate -> outcome * mstate.

Definition instr (code : list N) (ip : N) (m : mstate) : outcome * mstate :=
  match byte_at code ip with
  | None => fail m EInternal
  | Some op =>
  let len := op_len op in
  let arg := if 1 <? len then operand_at code ip else Some 0 in
  match arg with
  | None => fail m EPanic
  | Some arg =>
  let next := ip + len in
  let continue (m' : mstate) := rec code next m' in
  let pop1 (k : value -> list value -> outcome * mstate) :=
    match stk m with v :: s => k v s | [] => fail m EInternal end in
  let pop2 (k : value -> value -> list value -> outcome * mstate) :=
    match stk m with v1 :: v2 :: s => k v1 v2 s | _ => fail (set_stk m []) EInternal end in
  let on (r : res value) (s : list value) :=
    match r with Ok v => continue (set_stk m (v :: s)) | Err e => fail (set_stk m s) e end in
  if (op =? OpNop) || (op =? OpPlaceholder) then continue m
  else if op =? OpPush then continue (push m (VInt (Z.of_N arg)))
  else if op =? OpConstant then
    match nthN consts arg with Some v => continue (push m v) | None => fail m EInternal end
  else if op =? OpLookup then
    match nthN consts arg with
    | None => fail m EInternal
    | Some c => match (do name <- name_of o c; lookup o obj (menv m) name) with
                | Ok v => continue (push m v)
                | Err e => fail m e
                end
    end
  else if op =? OpLocal then
    pop1 (fun name s =>
      match name_of o name with
      | Ok n => continue (mkM s (env_declare (menv m) (trim_dollar n) VNull) (trace m) (polls m))
      | Err e => fail m e
      end)
  else if op =? OpSet then
    pop2 (fun name v s =>
      match name_of o name with
      | Ok n => continue (mkM s (env_set (menv m) (trim_dollar n) (match v with VIter x _ => x | _ => v end)) (trace m) (polls m))
      | Err e => fail m e
      end)
  else match binop_of_opcode op with
  | Some b => pop2 (fun r l s => on (vm_binop o b l r) s)
  | None =>
  if op =? OpArray then
    match pop_n (N.to_nat arg) (stk m) [] with
    | Some (elems, s) => continue (set_stk m (VArray elems :: s))
    | None => fail m EInternal
    end
  else if op =? OpHash then
    match build_hash o (N.to_nat ((arg + 1) / 2)) (stk m) [] with
    | Ok (ps, s) => continue (set_stk m (VHash ps :: s))
    | Err e => fail m e
    end
  else if op =? OpCase then pop2 (fun c v s => on (vm_case o v c) s)
  else if op =? OpIndex then pop2 (fun i l s => on (vm_index o l i) s)
  else if op =? OpBang then pop1 (fun v s => on (Ok (vm_bang v)) s)
  else if op =? OpMinus then pop1 (fun v s => on (vm_minus v) s)
  else if op =? OpSquareRoot then pop1 (fun v s => on (vm_sqrt v) s)
  else if op =? OpTrue then continue (push m (VBool true))
  else if op =? OpFalse then continue (push m (VBool false))
  else if op =? OpVoid then continue (push m VVoid)
  else if op =? OpReturn then pop1 (fun v s => (ODone v, set_stk m s))
  else if op =? OpJump then
    if lenN code <=? arg then fail m EInternal else rec code arg m
  else if op =? OpJumpIfFalse then
    pop1 (fun c s =>
      if truthy c then continue (set_stk m s)
      else if lenN code <=? arg then fail (set_stk m s) EInternal else rec code arg (set_stk m s))
  else if op =? OpCall then
    pop1 (fun fname s0 =>
      match name_of o fname with
      | Err e => fail m e
      | Ok name =>
      match pop_n (N.to_nat arg) s0 [] with
      | None => fail m EInternal
      | Some (args, s) =>
      match fn_get name fns with
      | Some (FBuiltin bn) =>
          match call_builtin o bn args with
          | None => fail m ENeedOracle
          | Some r =>
              match of_bres r with
              | Ok v => continue (set_stk m (match v with VVoid => s | _ => v :: s end))
              | Err e => fail (set_stk m s) e
              end
          end
      | Some (FHost k) =>
          let m1 := mkM s (menv m) (mkCall name args :: trace m) (polls m) in
          match host_call k args with
          | Ok v => rec code next (set_stk m1 (match v with VVoid => s | _ => v :: s end))
          | Err e => fail m1 e
          end
      | None =>
          match ufunc_get name funcs with
          | None => fail (set_stk m s) EScript
          | Some uf =>
              if negb (Nat.eqb (List.length (fparams uf)) (List.length args)) then fail (set_stk m s) EScript
              else if negb (max_call_depth =? 0) && (max_call_depth <=? N.of_nat (env_depth (menv m)))
              then fail (set_stk m s) EScript     (* calls and loops nested too deeply *)
              else
                let depth := env_depth (menv m) in
                let e1 := declare_all (env_push_frame (menv m)) (fparams uf) args in
                match rec (fcode uf) 0 (mkM [] e1 (trace m) (polls m)) with
                | (ODone out, m2) =>
                    let e2 := env_truncate (menv m2) depth in
                    rec code next (mkM (match out with VVoid => s | _ => out :: s end) e2 (trace m2) (polls m2))
                | (OErr e, m2) => (OErr e, mkM s (env_truncate (menv m2) depth) (trace m2) (polls m2))
                end
          end
      end end end)
  else if op =? OpIterationReset then
    let e1 := env_push (menv m) (lenN (stk m)) in
    match stk m with
    | [] => fail (set_env m e1) EInternal
    | v :: s =>
        if iterable v then continue (mkM (VIter v 0 :: s) e1 (trace m) (polls m))
        else fail (mkM s e1 (trace m) (polls m)) EScript
    end
  else if op =? OpIterationNext then
    match stk m with
    | vn :: idn :: rest =>
      match drop_residue (menv m) rest with
      | [] => fail m EInternal
      | it :: s =>
        match it with
        | VIter v off =>
            match name_of o vn, name_of o idn, iter_next o v off with
            | Ok var, Ok idx, Ok (Some (x, k)) =>
                let e1 := env_declare (menv m) (trim_dollar var) x in
                let e2 := match idx with [] => e1 | _ => env_declare e1 (trim_dollar idx) k end in
                continue (mkM (VBool true :: VIter v (off + 1) :: s) e2 (trace m) (polls m))
            | Ok _, Ok _, Ok None =>
                match env_pop (menv m) with
                | Some e1 => continue (mkM (VBool false :: s) e1 (trace m) (polls m))
                | None => fail m EScript
                end
            | Err e, _, _ => fail m e
            | _, Err e, _ => fail m e
            | _, _, Err e => fail m e
            end
        | _ => if iterable it then fail m ENeedOracle else fail m EScript
        end
      end
    | _ => fail m EInternal
    end
  else if op =? OpRange then pop2 (fun b a s => on (vm_range a b) s)
  else if (op =? OpInc) || (op =? OpDec) then
    match nthN consts arg with
    | None => fail m EInternal
    | Some c =>
        match (do name <- name_of o c; do v <- lookup o obj (menv m) name; Ok (name, v)) with
        | Err e => fail m e
        | Ok (name, v) =>
            let delta := if op =? OpInc then 1%Z else (-1)%Z in
            match (match v with
                   | VInt z => Some (VInt (wrap64 (z + delta)))
                   | VFloat x => Some (VFloat (x + float_of_Z delta)%float)
                   | _ => None
                   end) with
            | None => fail m EScript
            | Some v' =>
                let e1 := env_set (menv m) (trim_dollar name) v' in
                match stk m with
                | _ :: s => continue (mkM s e1 (trace m) (polls m))
                | [] => fail (set_env m e1) EInternal
                end
            end
        end
    end
  else fail m EInternal
  end
  end end.

(* what one iteration can be: it never looks at the poll budget *)
Inductive shape :=
| ShStop (out : outcome) (s : list value) (e : env) (t : list call)
| ShCont (ip : N) (s : list value) (e : env) (t : list call)
| ShCall (fc : list N) (e1 : env) (t : list call) (s : list value) (depth : nat) (next : N).

Definition interp (code : list N) (p : option N) (sh : shape) : outcome * mstate :=
  match sh with
  | ShStop out s e t => (out, mkM s e t p)
  | ShCont ip s e t => rec code ip (mkM s e t p)
  | ShCall fc e1 t s depth next =>
      match rec fc 0 (mkM [] e1 t p) with
      | (ODone out, m2) =>
          rec code next (mkM (match out with VVoid => s | _ => out :: s end)
                             (env_truncate (menv m2) depth) (trace m2) (polls m2))
      | (OErr e, m2) => (OErr e, mkM s (env_truncate (menv m2) depth) (trace m2) (polls m2))
      end
  end.

End Instr.

Lemma exec_S : forall f code ip m,
  ex (S f) code ip m =
  if lenN code <=? ip then (ODone VNull, m) else
  match (match polls m with
         | Some 0 => None
         | Some d => Some (mkM (stk m) (menv m) (trace m) (Some (d - 1)))
         | None => Some m
         end) with
  | None => (OErr ETimeout, m)
  | Some m1 => instr (ex f) code ip m1
  end.
Proof. intros. reflexivity. Qed.

Lemma exec_S_poll : forall f code ip s e t p,
  ex (S f) code ip (mkM s e t p) =
  if lenN code <=? ip then (ODone VNull, mkM s e t p) else
  match poll p with
  | None => (OErr ETimeout, mkM s e t p)
  | Some p' => instr (ex f) code ip (mkM s e t p')
  end.
Proof.
  intros. rewrite exec_S. cbn [stk menv trace polls]. destruct p as [[|q]|]; reflexivity.
Qed.

Ltac shape_leaf :=
  first [ eexists (ShStop _ _ _ _); intros ? ?; reflexivity
        | eexists (ShCont _ _ _ _); intros ? ?; reflexivity
        | eexists (ShCall _ _ _ _ _ _); intros ? ?; reflexivity ].

Ltac crunch :=
  repeat (cbv beta iota zeta;
          match goal with
          | |- context [match ?x with _ => _ end] => destruct x eqn:?
          end).

Lemma instr_shape : forall code ip s e t,
  exists sh, forall rec p, instr rec code ip (mkM s e t p) = interp rec code p sh.
Proof.
  intros code ip s e t. unfold instr, fail, push, set_stk, set_env.
  cbn [stk menv trace polls].
  crunch; cbv beta iota zeta; shape_leaf.
Qed.

(* one iteration of exec, as a shape *)
Lemma exec_step : forall code ip s e t,
  (lenN code <=? ip) = false ->
  exists sh, forall f p,
    ex (S f) code ip (mkM s e t p) =
    match poll p with
    | None => (OErr ETimeout, mkM s e t p)
    | Some p' => interp (ex f) code p' sh
    end.
Proof.
  intros code ip s e t Hl. destruct (instr_shape code ip s e t) as [sh Hsh].
  exists sh. intros f p. rewrite exec_S_poll, Hl.
  destruct (poll p) as [p'|]; [apply Hsh|reflexivity].
Qed.

(* ------------------------------------------------------------------ *)
(* an expired context *)

Lemma expired_prevents : forall code ip m k,
  polls m = Some 0 -> ip < lenN code ->
  ex (S k) code ip m = (OErr ETimeout, m).
Proof.
  intros code ip [s e t p] k Hp Hip. cbn [polls] in Hp. subst p.
  apply N.leb_gt in Hip. rewrite exec_S_poll, Hip. reflexivity.
Qed.

Lemma no_budget_no_progress : forall fuel code ip m out m',
  polls m = Some 0 -> ex fuel code ip m = (out, m') ->
  out = OErr ETimeout \/ out = OErr EFuel \/ (out = ODone VNull /\ lenN code <= ip).
Proof.
  intros fuel code ip [s e t p] out m' Hp H. cbn [polls] in Hp. subst p.
  destruct fuel as [|f].
  - cbn [exec] in H. injection H as <- _. right. left. reflexivity.
  - rewrite exec_S_poll in H. destruct (lenN code <=? ip) eqn:Hl.
    + injection H as <- _. right. right. split; [reflexivity|]. apply N.leb_le. exact Hl.
    + cbn [poll] in H. injection H as <- _. left. reflexivity.
Qed.

(* ------------------------------------------------------------------ *)
(* the budget only goes down *)

Lemma budget_decreases : forall fuel code ip m out m' d,
  polls m = Some d -> ex fuel code ip m = (out, m') ->
  exists d', polls m' = Some d' /\ d' <= d.
Proof.
  induction fuel as [|f IH]; intros code ip [s e t p] out m' d Hp H; cbn [polls] in Hp; subst p.
  - cbn [exec] in H. injection H as _ <-. exists d. split; [reflexivity|lia].
  - destruct (lenN code <=? ip) eqn:Hl.
    + rewrite exec_S_poll, Hl in H. injection H as _ <-. exists d. split; [reflexivity|lia].
    + destruct (exec_step code ip s e t Hl) as [sh Hsh]. rewrite Hsh in H. clear Hsh.
      destruct (N.eq_dec d 0) as [->|Hd].
      * cbn [poll] in H. injection H as _ <-. exists 0. split; [reflexivity|lia].
      * rewrite (poll_pos d) in H by lia.
        destruct sh as [out0 s0 e0 t0|ip0 s0 e0 t0|fc e1 t0 s0 depth next]; cbn [interp] in H.
        -- injection H as _ <-. exists (d - 1). split; [reflexivity|lia].
        -- destruct (IH _ _ (mkM s0 e0 t0 (Some (d - 1))) _ _ (d - 1) eq_refl H) as (d' & H1 & H2).
           exists d'. split; [exact H1|lia].
        -- destruct (ex f fc 0 (mkM [] e1 t0 (Some (d - 1)))) as [r1 m2] eqn:E1.
           destruct (IH _ _ (mkM [] e1 t0 (Some (d - 1))) _ _ (d - 1) eq_refl E1) as (d1 & P1 & L1).
           destruct r1 as [v|x].
           ++ rewrite P1 in H. destruct (IH _ _ (mkM (match v with VVoid => s0 | _ => v :: s0 end) (env_truncate (menv m2) depth) (trace m2) (Some d1)) _ _ d1 eq_refl H) as (d' & H1 & H2).
              exists d'. split; [exact H1|lia].
           ++ injection H as _ <-. exists d1. split; [exact P1|lia].
Qed.

(* ------------------------------------------------------------------ *)
(* a run that finishes is unaffected by a deadline it does not reach *)

Lemma unaffected_gen : forall fuel code ip m out m',
  polls m = None -> ex fuel code ip m = (out, m') -> out <> OErr EFuel ->
  polls m' = None /\
  exists n : N, forall d, n <= d ->
    ex fuel code ip (with_polls m (Some d)) = (out, with_polls m' (Some (d - n))).
Proof.
  induction fuel as [|f IH]; intros code ip [s e t p] out m' Hp H Hne; cbn [polls] in Hp; subst p;
    unfold with_polls; cbn [stk menv trace].
  - cbn [exec] in H. injection H as <- _. exfalso. apply Hne. reflexivity.
  - destruct (lenN code <=? ip) eqn:Hl.
    + rewrite exec_S_poll, Hl in H. injection H as <- <-. split; [reflexivity|].
      exists 0. intros d _. rewrite exec_S_poll, Hl. cbn [stk menv trace]. rewrite N.sub_0_r. reflexivity.
    + destruct (exec_step code ip s e t Hl) as [sh Hsh]. rewrite Hsh in H. cbn [poll] in H.
      pose proof poll_pos as Hpoll.
      destruct sh as [out0 s0 e0 t0|ip0 s0 e0 t0|fc e1 t0 s0 depth next]; cbn [interp] in H.
      * injection H as <- <-. split; [reflexivity|].
        exists 1. intros d Hd. rewrite Hsh, (Hpoll d Hd). reflexivity.
      * destruct (IH _ _ (mkM s0 e0 t0 None) _ _ eq_refl H Hne) as (P' & n & Hn). split; [exact P'|].
        exists (n + 1). intros d Hd. rewrite Hsh, (Hpoll d) by lia. cbn [interp].
        unfold with_polls in Hn. cbn [stk menv trace] in Hn.
        rewrite (Hn (d - 1)) by lia.
        replace (d - (n + 1)) with (d - 1 - n) by lia. reflexivity.
      * destruct (ex f fc 0 (mkM [] e1 t0 None)) as [r1 m2] eqn:E1.
        assert (Hr1 : r1 <> OErr EFuel).
        { destruct r1 as [v|x]; [discriminate|]. injection H as <- _. exact Hne. }
        destruct (IH _ _ (mkM [] e1 t0 None) _ _ eq_refl E1 Hr1) as (P2 & n1 & Hn1).
        unfold with_polls in Hn1. cbn [stk menv trace] in Hn1.
        destruct r1 as [v|x].
        -- rewrite P2 in H.
           destruct (IH _ _ (mkM (match v with VVoid => s0 | _ => v :: s0 end) (env_truncate (menv m2) depth) (trace m2) None) _ _ eq_refl H Hne) as (P' & n2 & Hn2). split; [exact P'|].
           unfold with_polls in Hn2. cbn [stk menv trace] in Hn2.
           exists (n1 + n2 + 1). intros d Hd. rewrite Hsh, (Hpoll d) by lia. cbn [interp].
           rewrite (Hn1 (d - 1)) by lia. cbn [stk menv trace polls].
           rewrite (Hn2 (d - 1 - n1)) by lia.
           replace (d - (n1 + n2 + 1)) with (d - 1 - n1 - n2) by lia. reflexivity.
        -- injection H as <- <-. split; [exact P2|].
           exists (n1 + 1). intros d Hd. rewrite Hsh, (Hpoll d) by lia. cbn [interp].
           rewrite (Hn1 (d - 1)) by lia. cbn [stk menv trace polls].
           replace (d - (n1 + 1)) with (d - 1 - n1) by lia. reflexivity.
Qed.

Lemma unaffected : forall fuel code ip m out m',
  polls m = None ->
  ex fuel code ip m = (out, m') -> out <> OErr EFuel ->
  exists n : N, forall d, n <= d ->
    ex fuel code ip (mkM (stk m) (menv m) (trace m) (Some d)) =
    (out, mkM (stk m') (menv m') (trace m') (Some (d - n))).
Proof.
  intros fuel code ip m out m' Hp H Hne.
  exact (proj2 (unaffected_gen fuel code ip m out m' Hp H Hne)).
Qed.

End Exec.

(* ------------------------------------------------------------------ *)
(* the API *)

Lemma truncate0_globals : forall e, globals (env_truncate e 0) = globals e.
Proof. reflexivity. Qed.

Lemma truncate0_depth : forall e, env_depth (env_truncate e 0) = 0%nat.
Proof.
  intro e. unfold env_depth, env_truncate. cbn [scopes].
  rewrite Nat.sub_0_r, skipn_all. reflexivity.
Qed.

Lemma expired_run : forall o fuel e obj mc,
  emachine e = Some mc -> mctx mc = Some 0 -> pmain (mprog mc) <> [] ->
  exists e', execute o (S fuel) e obj = (RExec RTimeout VNull [] (globals (eenv e)) 0 0, e').
Proof.
  intros o fuel e obj mc Hm Hc Hne. unfold execute. rewrite Hm, Hc.
  unfold run_main. cbn [menv trace polls].
  destruct (pmain (mprog mc)) as [|b main] eqn:Em; [contradiction|].
  rewrite expired_prevents.
  - cbn [stk menv trace polls class_of rev List.length].
    rewrite truncate0_depth, !truncate0_globals. eexists. reflexivity.
  - reflexivity.
  - unfold lenN. cbn [List.length]. lia.
Qed.

Lemma context_travels : forall o e optimize u p e',
  prepare o e optimize = (PrepOk u p, e') ->
  emachine e' = Some (mkMachine p (ectx e)).
Proof.
  intros o e optimize u p e' H. unfold prepare in H.
  destruct (parse_script (parse_float o) max_depth (escript e)) as [ast| | |]; try discriminate.
  destruct (compile_program (4 * List.length (escript e) + 40) ast) as [pc| | |]; try discriminate.
  destruct (negb (Spec.Moded.well_moded ast)); [discriminate|].
  match type of H with
  | (match ?x with _ => _ end) = _ => destruct x; try discriminate
  end.
  injection H as _ <- <-. reflexivity.
Qed.

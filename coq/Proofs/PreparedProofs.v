(* PreparedProofs.v - what Prepare guarantees about the program it accepts (C18).
   Since the repair of D19 Prepare refuses scripts that use a construct without a
   value (assignment, compound assignment, ++/--, if, while, foreach, switch,
   function definition, local) where a value is needed: the class `well_moded` of
   Spec/Moded.v is no longer a hypothesis of the theorems about compiled code but a
   consequence of acceptance (ApiProofs.prepare_ok_moded).  Composed here with
   StructProofs.compile_structure and ModedProofs.compiled_has_annotation /
   compiled_never_underflows: whenever Prepare accepts a script, the program is
   well formed.  `well_moded` is never unfolded (its fuel is never looked at).
   Complete proofs only; no axioms. *)
From Coq Require Import Floats.
From EF Require Import Model.Base Gen.Tables Model.Lexer Model.Ast Model.Parser Model.Code Model.Value Model.Env
                       Model.Reflect Model.Compiler Model.Optimizer Model.VM Model.Api Spec.Moded.
From EF Require Import Model.OptSafe.
From EF Require Proofs.ApiProofs Proofs.StructProofs Proofs.ModedProofs Proofs.OptModedProofs.
Open Scope N_scope.

(* the program Prepare accepted comes from a well-moded tree *)
Lemma prepared_from_well_moded : forall o e flag u p e',
  prepare o e flag = (PrepOk u p, e') ->
  exists fuel ast, well_moded ast = true /\ compile_program fuel ast = CompOk u.
Proof.
  intros o e flag u p e' H.
  destruct (ApiProofs.prepare_ok_moded o e flag u p e' H) as (ast & _ & Hc & Hw).
  exists (4 * List.length (escript e) + 40)%nat, ast. split; [exact Hw|exact Hc].
Qed.

(* whenever Prepare accepts a script, the compiled program is well formed: every body is
   structurally sound, functions end in a return, and every body has a stack-depth
   annotation that the verifier's check accepts *)
Theorem prepared_is_well_formed : forall o e flag u p e',
  prepare o e flag = (PrepOk u p, e') ->
  (StructProofs.body_ok (pconsts u) (pmain u) /\
   Forall (fun nf => StructProofs.body_ok (pconsts u) (fcode (snd nf)) /\
                     StructProofs.ends_in_return (fcode (snd nf))) (pfuncs u)) /\
  (ModedProofs.has_ann (pconsts u) (pmain u) /\
   Forall (fun nf => ModedProofs.has_ann (pconsts u) (fcode (snd nf))) (pfuncs u)).
Proof.
  intros o e flag u p e' H.
  destruct (prepared_from_well_moded o e flag u p e' H) as (fuel & ast & Hw & Hc).
  split.
  - exact (StructProofs.compile_structure fuel ast u Hc).
  - exact (ModedProofs.compiled_has_annotation fuel ast u Hw Hc).
Qed.

(* ... hence no run of a body of it ends in one of the machine's internal errors, unless a
   call returned no value *)
Theorem prepared_never_underflows : forall o e flag u p e',
  prepare o e flag = (PrepOk u p, e') ->
  forall code, ModedProofs.body_of u code ->
  forall fns obj fuel m out m', stk m = [] ->
  exec o (pconsts u) (pfuncs u) fns obj fuel code 0 m = (out, m') ->
  ModedProofs.calls_push o (pconsts u) (pfuncs u) fns obj fuel code 0 m -> out <> OErr EInternal.
Proof.
  intros o e flag u p e' H code Hb fns obj fuel m out m' Hs He Hcp.
  destruct (prepared_from_well_moded o e flag u p e' H) as (fuelc & ast & Hw & Hc).
  exact (ModedProofs.compiled_never_underflows fuelc ast u Hw Hc code Hb o fns obj fuel m out m' Hs He Hcp).
Qed.

(* the same for the machine's own entry point, as Execute calls it on a non-optimizing Prepare *)
Theorem prepared_run_never_underflows : forall o e flag u p e',
  prepare o e flag = (PrepOk u p, e') ->
  forall fns obj fuel m out m',
  run_main o (pconsts u) (pfuncs u) fns obj fuel (pmain u) m = (out, m') ->
  ModedProofs.calls_push o (pconsts u) (pfuncs u) fns obj fuel (pmain u) 0
             (mkM [] (env_truncate (menv m) 0) (trace m) (polls m)) ->
  out <> OErr EInternal.
Proof.
  intros o e flag u p e' H fns obj fuel m out m' Hr Hcp.
  destruct (prepared_from_well_moded o e flag u p e' H) as (fuelc & ast & Hw & Hc).
  exact (ModedProofs.compiled_run_never_underflows fuelc ast u Hw Hc o fns obj fuel m out m' Hr Hcp).
Qed.

(* AFTER OPTIMISATION: whatever the validated optimizer makes of a prepared program (the check
   compares its output with the implementation's optimized program on every case) never ends in
   a machine-internal error either, as long as the calls of the unoptimized run return values *)
Theorem prepared_optimized_never_underflows : forall o e flag u p e' p',
  prepare o e flag = (PrepOk u p, e') ->
  optimize_program_safe u = Some p' ->
  forall fns obj m, polls m = None ->
  (forall fuel', ModedProofs.calls_push o (pconsts u) (pfuncs u) fns obj fuel' (pmain u) 0
                            (mkM [] (env_truncate (menv m) 0) (trace m) (polls m))) ->
  forall fuel out m',
  run_main o (pconsts p') (pfuncs p') fns obj fuel (pmain p') m = (out, m') ->
  out <> OErr EInternal.
Proof.
  intros o e flag u p e' p' H Ho fns obj m Hp Hcp fuel out m' Hr.
  destruct (prepared_from_well_moded o e flag u p e' H) as (fuelc & ast & Hw & Hc).
  exact (OptModedProofs.optimized_run_never_underflows fuelc ast u p' Hw Hc Ho o fns obj m Hp Hcp fuel out m' Hr).
Qed.

(* TextProofs.v - from source TEXT to syntax tree: the lexer round trip (UnlexProofs) composed with the
   parser round trip (PrinterProofs). *)
From Coq Require Import Floats.
From EF Require Import Model.Base Gen.Tables Model.Lexer Model.Ast Model.Parser Spec.Grammar Spec.Printer Spec.Unlex
                       Proofs.PrinterProofs Proofs.UnlexProofs.
Open Scope N_scope.

(* the source text of a program: the printer's tokens, spelled and separated by one space *)
Definition source (p : program) : str := unlex (show_program p).

Theorem parse_source : forall (pf : str -> option (option float)) (p : program),
  printable p = true -> floats_known pf p -> (prog_depth p <=? max_depth) = true ->
  lexable (show_program p) = true ->
  parse_script pf max_depth (source p) = ParseOk p.
Proof.
  intros pf p Hp Hf Hd Hl. unfold parse_script, source.
  rewrite (lex_unlex _ Hl).
  exact (parse_show_program_max pf p Hp Hf Hd).
Qed.

(* ... and with any layout between the tokens *)
Theorem parse_source_layout : forall (pf : str -> option (option float)) (p : program) pre tl,
  printable p = true -> floats_known pf p -> (prog_depth p <=? max_depth) = true ->
  map fst tl = show_program p ->
  layout_ok pre = true -> seps_ok tl = true -> lexable (show_program p) = true ->
  parse_script pf max_depth (render pre ++ unlex_layout tl) = ParseOk p.
Proof.
  intros pf p pre tl Hp Hf Hd Ht Hpre Hs Hl. unfold parse_script.
  rewrite (lex_layout_irrelevant pre tl Hpre Hs) by (rewrite Ht; exact Hl).
  rewrite Ht, (lex_unlex _ Hl).
  exact (parse_show_program_max pf p Hp Hf Hd).
Qed.

(* non-vacuity: the demo program of PrinterProofs (every construct) is lexable as printed *)
Example demo_lexable : lexable (show_program PrinterProofs.Demo.demo) = true.
Proof. vm_compute. reflexivity. Qed.

Example demo_parse_source :
  parse_script PrinterProofs.Demo.pf0 max_depth (source PrinterProofs.Demo.demo) = ParseOk PrinterProofs.Demo.demo.
Proof.
  apply parse_source.
  - exact PrinterProofs.Demo.demo_printable.
  - exact PrinterProofs.Demo.demo_floats.
  - vm_compute. reflexivity.
  - exact demo_lexable.
Qed.

(* the character U+0000 inside a string or a regexp literal is an ordinary character: a program with such
   literals is printable, its printed tokens are lexable, and its source text
   `s = "a<NUL>b" ; r = /a<NUL>b/ ;` lexes and parses back to exactly the program *)
Definition nul_prog : program :=
  [SExpr (EAssign (L "s") (EStr [97; 0; 98])); SExpr (EAssign (L "r") (ERegexp [97; 0; 98] []))].

Example nul_parse_source :
  printable nul_prog = true /\ lexable (show_program nul_prog) = true /\
  parse_script PrinterProofs.Demo.pf0 max_depth (source nul_prog) = ParseOk nul_prog.
Proof. vm_compute. repeat split; reflexivity. Qed.

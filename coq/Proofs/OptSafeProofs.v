(* OptSafeProofs.v - the validated optimizer preserves behaviour (C03).

   Method.  [step] is one iteration of Model/VM.v's [exec] as a non-recursive
   function: it stops, or continues at another offset, or asks for a call of
   a user function ([exec_S_step]).  What an instruction does ([instr]) does
   not depend on the code around it nor on where it stands.  [sim_exec] is a
   simulation theorem for two codes with a relation R between their program
   points: if from R-related points both sides run some call-free steps and
   then either stand at R-related points in the same state, or stand at the
   same instruction with R-related successors, then a run of the first code
   that ends without running out of fuel is a run of the second code, with
   the same outcome and the same final machine; calls of user functions are
   covered by doing the induction on the fuel for all related bodies at once.
   The checker of Model/OptSafe.v establishes exactly that local condition
   ([vlink_diag]), symmetrically, so both directions follow.
   Complete proofs only; no axioms. *)
From Coq Require Import Floats Lia.
From EF Require Import Model.Base Gen.Tables Model.Lexer Model.Ast Model.Code Model.Value Model.Env Model.Reflect
                       Model.Builtins Model.Compiler Model.Optimizer Model.VM Model.OptSafe.
From EF Require Import Proofs.ExprProofs.
Open Scope N_scope.

(* ------------------------------------------------------------------ *)
(* one iteration of exec as a function *)

Inductive ires :=
| IFin (out : outcome) (m : mstate)
| IFall (m : mstate)                              (* continue at the next instruction *)
| IJump (m : mstate)                              (* continue at the operand *)
| ICall (name : str) (args s : list value).       (* call a user function, then continue *)

Inductive sres :=
| SFin (out : outcome) (m : mstate)
| SNext (ip : N) (m : mstate)
| SCall (name : str) (args s : list value) (m : mstate) (next : N).

Definition poll (m : mstate) : option mstate :=
  match polls m with
  | Some 0 => None
  | Some d => Some (mkM (stk m) (menv m) (trace m) (Some (d - 1)))
  | None => Some m
  end.

Ltac crunch :=
  repeat (cbv beta iota zeta;
          match goal with
          | |- context [match ?x with _ => _ end] => destruct x eqn:?
          end).

Section Steps.
Variables (o : stdlib) (consts : list value) (fns : fnmap) (obj : hostval).

Definition instr (op arg : N) (m : mstate) : ires :=
  let pop1 (k : value -> list value -> ires) :=
    match stk m with v :: s => k v s | [] => IFin (OErr EInternal) m end in
  let pop2 (k : value -> value -> list value -> ires) :=
    match stk m with v1 :: v2 :: s => k v1 v2 s | _ => IFin (OErr EInternal) (set_stk m []) end in
  let on (r : res value) (s : list value) :=
    match r with Ok v => IFall (set_stk m (v :: s)) | Err e => IFin (OErr e) (set_stk m s) end in
  if (op =? OpNop) || (op =? OpPlaceholder) then IFall m
  else if op =? OpPush then IFall (push m (VInt (Z.of_N arg)))
  else if op =? OpConstant then
    match nthN consts arg with Some v => IFall (push m v) | None => IFin (OErr EInternal) m end
  else if op =? OpLookup then
    match nthN consts arg with
    | None => IFin (OErr EInternal) m
    | Some c => match (do name <- name_of o c; lookup o obj (menv m) name) with
                | Ok v => IFall (push m v)
                | Err e => IFin (OErr e) m
                end
    end
  else if op =? OpLocal then
    pop1 (fun name s =>
      match name_of o name with
      | Ok n => IFall (mkM s (env_declare (menv m) (trim_dollar n) VNull) (trace m) (polls m))
      | Err e => IFin (OErr e) m
      end)
  else if op =? OpSet then
    pop2 (fun name v s =>
      match name_of o name with
      | Ok n => IFall (mkM s (env_set (menv m) (trim_dollar n) (match v with VIter x _ => x | _ => v end)) (trace m) (polls m))
      | Err e => IFin (OErr e) m
      end)
  else match binop_of_opcode op with
  | Some b => pop2 (fun r l s => on (vm_binop o b l r) s)
  | None =>
  if op =? OpArray then
    match pop_n (N.to_nat arg) (stk m) [] with
    | Some (elems, s) => IFall (set_stk m (VArray elems :: s))
    | None => IFin (OErr EInternal) m
    end
  else if op =? OpHash then
    match build_hash o (N.to_nat ((arg + 1) / 2)) (stk m) [] with
    | Ok (ps, s) => IFall (set_stk m (VHash ps :: s))
    | Err e => IFin (OErr e) m
    end
  else if op =? OpCase then pop2 (fun c v s => on (vm_case o v c) s)
  else if op =? OpIndex then pop2 (fun i l s => on (vm_index o l i) s)
  else if op =? OpBang then pop1 (fun v s => on (Ok (vm_bang v)) s)
  else if op =? OpMinus then pop1 (fun v s => on (vm_minus v) s)
  else if op =? OpSquareRoot then pop1 (fun v s => on (vm_sqrt v) s)
  else if op =? OpTrue then IFall (push m (VBool true))
  else if op =? OpFalse then IFall (push m (VBool false))
  else if op =? OpVoid then IFall (push m VVoid)
  else if op =? OpReturn then pop1 (fun v s => IFin (ODone v) (set_stk m s))
  else if op =? OpJump then IJump m
  else if op =? OpJumpIfFalse then
    pop1 (fun c s => if truthy c then IFall (set_stk m s) else IJump (set_stk m s))
  else if op =? OpCall then
    pop1 (fun fname s0 =>
      match name_of o fname with
      | Err e => IFin (OErr e) m
      | Ok name =>
      match pop_n (N.to_nat arg) s0 [] with
      | None => IFin (OErr EInternal) m
      | Some (args, s) =>
      match fn_get name fns with
      | Some (FBuiltin bn) =>
          match call_builtin o bn args with
          | None => IFin (OErr ENeedOracle) m
          | Some r =>
              match of_bres r with
              | Ok v => IFall (set_stk m (match v with VVoid => s | _ => v :: s end))
              | Err e => IFin (OErr e) (set_stk m s)
              end
          end
      | Some (FHost k) =>
          let m1 := mkM s (menv m) (mkCall name args :: trace m) (polls m) in
          match host_call k args with
          | Ok v => IFall (set_stk m1 (match v with VVoid => s | _ => v :: s end))
          | Err e => IFin (OErr e) m1
          end
      | None => ICall name args s
      end end end)
  else if op =? OpIterationReset then
    let e1 := env_push (menv m) (lenN (stk m)) in
    match stk m with
    | [] => IFin (OErr EInternal) (set_env m e1)
    | v :: s =>
        if iterable v then IFall (mkM (VIter v 0 :: s) e1 (trace m) (polls m))
        else IFin (OErr EScript) (mkM s e1 (trace m) (polls m))
    end
  else if op =? OpIterationNext then
    match stk m with
    | vn :: idn :: rest =>
      match drop_residue (menv m) rest with
      | [] => IFin (OErr EInternal) m
      | it :: s =>
        match it with
        | VIter v off =>
            match name_of o vn, name_of o idn, iter_next o v off with
            | Ok var, Ok idx, Ok (Some (x, k)) =>
                let e1 := env_declare (menv m) (trim_dollar var) x in
                let e2 := match idx with [] => e1 | _ => env_declare e1 (trim_dollar idx) k end in
                IFall (mkM (VBool true :: VIter v (off + 1) :: s) e2 (trace m) (polls m))
            | Ok _, Ok _, Ok None =>
                match env_pop (menv m) with
                | Some e1 => IFall (mkM (VBool false :: s) e1 (trace m) (polls m))
                | None => IFin (OErr EScript) m
                end
            | Err e, _, _ => IFin (OErr e) m
            | _, Err e, _ => IFin (OErr e) m
            | _, _, Err e => IFin (OErr e) m
            end
        | _ => if iterable it then IFin (OErr ENeedOracle) m else IFin (OErr EScript) m
        end
      end
    | _ => IFin (OErr EInternal) m
    end
  else if op =? OpRange then pop2 (fun b a s => on (vm_range a b) s)
  else if (op =? OpInc) || (op =? OpDec) then
    match nthN consts arg with
    | None => IFin (OErr EInternal) m
    | Some c =>
        match (do name <- name_of o c; do v <- lookup o obj (menv m) name; Ok (name, v)) with
        | Err e => IFin (OErr e) m
        | Ok (name, v) =>
            let delta := if op =? OpInc then 1%Z else (-1)%Z in
            match (match v with
                   | VInt z => Some (VInt (wrap64 (z + delta)))
                   | VFloat x => Some (VFloat (x + float_of_Z delta)%float)
                   | _ => None
                   end) with
            | None => IFin (OErr EScript) m
            | Some v' =>
                let e1 := env_set (menv m) (trim_dollar name) v' in
                match stk m with
                | _ :: s => IFall (mkM s e1 (trace m) (polls m))
                | [] => IFin (OErr EInternal) (set_env m e1)
                end
            end
        end
    end
  else IFin (OErr EInternal) m
  end.

Definition step (code : list N) (ip : N) (m : mstate) : sres :=
  if lenN code <=? ip then SFin (ODone VNull) m else
  match poll m with
  | None => SFin (OErr ETimeout) m
  | Some m =>
  match byte_at code ip with
  | None => SFin (OErr EInternal) m
  | Some op =>
  match (if 1 <? op_len op then operand_at code ip else Some 0) with
  | None => SFin (OErr EPanic) m
  | Some arg =>
  match instr op arg m with
  | IFin out m' => SFin out m'
  | IFall m' => SNext (ip + op_len op) m'
  | IJump m' => if lenN code <=? arg then SFin (OErr EInternal) m' else SNext arg m'
  | ICall name args s => SCall name args s m (ip + op_len op)
  end end end end.

(* what exec does with the result of a step; [rec] stands for [exec f] *)
Definition run_sres (funcs : list (str * ufunc)) (rec : list N -> N -> mstate -> outcome * mstate)
                    (code : list N) (r : sres) : outcome * mstate :=
  match r with
  | SFin out m => (out, m)
  | SNext ip m => rec code ip m
  | SCall name args s m next =>
      match ufunc_get name funcs with
      | None => (OErr EScript, set_stk m s)
      | Some uf =>
          if negb (Nat.eqb (List.length (fparams uf)) (List.length args)) then (OErr EScript, set_stk m s)
          else if negb (max_call_depth =? 0) && (max_call_depth <=? N.of_nat (env_depth (menv m)))
          then (OErr EScript, set_stk m s)
          else
            match rec (fcode uf) 0
                    (mkM [] (declare_all (env_push_frame (menv m)) (fparams uf) args) (trace m) (polls m)) with
            | (ODone out, m2) =>
                rec code next (mkM (match out with VVoid => s | _ => out :: s end)
                                   (env_truncate (menv m2) (env_depth (menv m))) (trace m2) (polls m2))
            | (OErr e, m2) =>
                (OErr e, mkM s (env_truncate (menv m2) (env_depth (menv m))) (trace m2) (polls m2))
            end
      end
  end.

Lemma exec_S_step : forall funcs f code ip m,
  exec o consts funcs fns obj (S f) code ip m =
  run_sres funcs (exec o consts funcs fns obj f) code (step code ip m).
Proof.
  intros funcs f code ip m. cbn [exec].
  set (rec := exec o consts funcs fns obj f).
  unfold run_sres, step, instr, poll, fail.
  crunch; try reflexivity.
Qed.

End Steps.

(* ------------------------------------------------------------------ *)
(* facts about single instructions *)

Section Sim.
Variables (o : stdlib) (consts : list value) (fns : fnmap) (obj : hostval).
Notation stp := (step o consts fns obj).
Notation ins := (instr o consts fns obj).

Lemma poll_none : forall m, polls m = None -> poll m = Some m.
Proof. intros m H. unfold poll. rewrite H. reflexivity. Qed.

Definition ires_m (r : ires) : option mstate :=
  match r with IFin _ m' => Some m' | IFall m' => Some m' | IJump m' => Some m' | ICall _ _ _ => None end.

Lemma instr_polls : forall op arg m m', polls m = None ->
  ires_m (ins op arg m) = Some m' -> polls m' = None.
Proof.
  intros op arg [s e t p] m' H. cbn [polls] in H. subst p.
  unfold instr, push, set_stk, set_env. cbn [stk menv trace polls].
  crunch; cbn [ires_m]; intro H; try discriminate H; injection H as <-; reflexivity.
Qed.

Lemma instr_jump_only : forall op arg m m',
  ins op arg m = IJump m' -> (op =? OpJump) || (op =? OpJumpIfFalse) = true.
Proof.
  intros op arg m m'. unfold instr.
  crunch; intro H; try discriminate H; reflexivity.
Qed.

Lemma instr_jump : forall arg m, ins OpJump arg m = IJump m.
Proof. intros arg m. unfold instr. step_simpl. reflexivity. Qed.

Lemma instr_return : forall arg m, exists out m', ins OpReturn arg m = IFin out m'.
Proof.
  intros arg m. unfold instr. step_simpl. destruct (stk m); eexists; eexists; reflexivity.
Qed.

Lemma instr_jump_arg : forall op a1 a2 m,
  (op =? OpJump) || (op =? OpJumpIfFalse) = true -> ins op a1 m = ins op a2 m.
Proof.
  intros op a1 a2 m H. apply Bool.orb_true_iff in H. destruct H as [H|H]; apply N.eqb_eq in H; subst op.
  - rewrite !instr_jump. reflexivity.
  - unfold instr. step_simpl. reflexivity.
Qed.

Lemma jump_len : forall op, (op =? OpJump) || (op =? OpJumpIfFalse) = true -> op_len op = 3.
Proof.
  intros op H. apply Bool.orb_true_iff in H. destruct H as [H|H]; apply N.eqb_eq in H; subst op; reflexivity.
Qed.

(* ------------------------------------------------------------------ *)
(* steps and exec *)

Lemma step_polls : forall code ip m, polls m = None ->
  match stp code ip m with
  | SFin _ m' => polls m' = None
  | SNext _ m' => polls m' = None
  | SCall _ _ _ m' _ => m' = m
  end.
Proof.
  intros code ip m H. unfold step. rewrite (poll_none m H).
  destruct (lenN code <=? ip); [exact H|].
  destruct (byte_at code ip) as [op|]; [|exact H].
  destruct (if 1 <? op_len op then operand_at code ip else Some 0) as [arg|]; [|exact H].
  pose proof (fun m' => instr_polls op arg m m' H) as P.
  destruct (ins op arg m) as [out m'|m'|m'|name args s]; cbn [ires_m] in P.
  - apply P. reflexivity.
  - apply P. reflexivity.
  - destruct (lenN code <=? arg); apply P; reflexivity.
  - reflexivity.
Qed.

Section Exec.
Variable funcs : list (str * ufunc).
Notation ex := (exec o consts funcs fns obj).

Lemma exec_polls : forall f code ip m out m',
  polls m = None -> ex f code ip m = (out, m') -> polls m' = None.
Proof.
  induction f as [|f IH]; intros code ip m out m' Hp H.
  - cbn [exec] in H. unfold fail in H. injection H as _ <-. exact Hp.
  - rewrite exec_S_step in H. pose proof (step_polls code ip m Hp) as P.
    destruct (stp code ip m) as [out1 m1|ip1 m1|name args s m1 next]; cbn [run_sres] in H.
    + injection H as _ <-. exact P.
    + exact (IH _ _ _ _ _ P H).
    + subst m1. destruct (ufunc_get name funcs) as [uf|].
      2:{ injection H as _ <-. exact Hp. }
      destruct (negb (Nat.eqb (List.length (fparams uf)) (List.length args))).
      { injection H as _ <-. exact Hp. }
      destruct (negb (max_call_depth =? 0) && (max_call_depth <=? N.of_nat (env_depth (menv m)))).
      { injection H as _ <-. exact Hp. }
      match type of H with context [ex f (fcode uf) 0 ?m0] =>
        destruct (ex f (fcode uf) 0 m0) as [[v|e] m2] eqn:E;
        assert (P2 : polls m2 = None) by (apply (IH _ _ _ _ _ (Hp : polls m0 = None) E)) end.
      * refine (IH _ _ _ _ _ _ H). exact P2.
      * injection H as _ <-. exact P2.
Qed.

Lemma exec_mono_S : forall f code ip m out m',
  ex f code ip m = (out, m') -> out <> OErr EFuel -> ex (S f) code ip m = (out, m').
Proof.
  induction f as [|f IH]; intros code ip m out m' H Hne.
  - cbn [exec] in H. unfold fail in H. injection H as <- _. congruence.
  - rewrite exec_S_step. rewrite exec_S_step in H.
    destruct (stp code ip m) as [out1 m1|ip1 m1|name args s m1 next]; cbn [run_sres] in *.
    + exact H.
    + exact (IH _ _ _ _ _ H Hne).
    + destruct (ufunc_get name funcs) as [uf|]; [|exact H].
      destruct (negb (Nat.eqb (List.length (fparams uf)) (List.length args))); [exact H|].
      destruct (negb (max_call_depth =? 0) && (max_call_depth <=? N.of_nat (env_depth (menv m1)))); [exact H|].
      match type of H with context [ex f (fcode uf) 0 ?m0] =>
        destruct (ex f (fcode uf) 0 m0) as [[v|e] m2] eqn:E end.
      * rewrite (IH _ _ _ _ _ E) by discriminate. exact (IH _ _ _ _ _ H Hne).
      * assert (He : OErr e <> OErr EFuel) by (injection H as <- _; exact Hne).
        rewrite (IH _ _ _ _ _ E He). exact H.
Qed.

Lemma exec_mono : forall f f' code ip m out m',
  ex f code ip m = (out, m') -> out <> OErr EFuel -> (f <= f')%nat -> ex f' code ip m = (out, m').
Proof.
  intros f f' code ip m out m' H Hne Hle. induction Hle as [|f' Hle IH]; [exact H|].
  apply exec_mono_S; assumption.
Qed.

End Exec.

(* n call-free steps *)
Fixpoint nsteps (n : nat) (code : list N) (ip : N) (m : mstate) (ip' : N) (m' : mstate) : Prop :=
  match n with
  | O => ip = ip' /\ m = m'
  | S n' => exists ip1 m1, stp code ip m = SNext ip1 m1 /\ nsteps n' code ip1 m1 ip' m'
  end.

Lemma nsteps_trans : forall n1 n2 code a m1 b m2 c m3,
  nsteps n1 code a m1 b m2 -> nsteps n2 code b m2 c m3 -> nsteps (n1 + n2) code a m1 c m3.
Proof.
  induction n1 as [|n1 IH]; intros n2 code a m1 b m2 c m3 H1 H2.
  - destruct H1 as [-> ->]. exact H2.
  - destruct H1 as [ip1 [mm [Hs H1]]]. exists ip1, mm. split; [exact Hs|]. exact (IH _ _ _ _ _ _ _ _ H1 H2).
Qed.

Lemma nsteps_one : forall code a m b m', stp code a m = SNext b m' -> nsteps 1 code a m b m'.
Proof. intros. exists b, m'. split; [assumption|split; reflexivity]. Qed.

Lemma nsteps_polls : forall n code a m b m', nsteps n code a m b m' -> polls m = None -> polls m' = None.
Proof.
  induction n as [|n IH]; intros code a m b m' H Hp.
  - destruct H as [_ <-]. exact Hp.
  - destruct H as [ip1 [m1 [Hs H]]]. pose proof (step_polls code a m Hp) as P. rewrite Hs in P.
    exact (IH _ _ _ _ _ H P).
Qed.

Lemma nsteps_exec : forall funcs n code a m b m', nsteps n code a m b m' ->
  forall f, exec o consts funcs fns obj (n + f) code a m = exec o consts funcs fns obj f code b m'.
Proof.
  induction n as [|n IH]; intros code a m b m' H f.
  - destruct H as [<- <-]. reflexivity.
  - destruct H as [ip1 [m1 [Hs H]]]. cbn [Nat.add]. rewrite exec_S_step, Hs. cbn [run_sres].
    exact (IH _ _ _ _ _ H f).
Qed.

Lemma nsteps_exec_inv : forall funcs n code a m b m', nsteps n code a m b m' ->
  forall F out mf, exec o consts funcs fns obj F code a m = (out, mf) -> out <> OErr EFuel ->
  exists f, F = (n + f)%nat /\ exec o consts funcs fns obj f code b m' = (out, mf).
Proof.
  induction n as [|n IH]; intros code a m b m' H F out mf HF Hne.
  - destruct H as [<- <-]. exists F. split; [reflexivity|exact HF].
  - destruct H as [ip1 [m1 [Hs H]]]. destruct F as [|F].
    + cbn [exec] in HF. unfold fail in HF. injection HF as <- _. congruence.
    + rewrite exec_S_step, Hs in HF. cbn [run_sres] in HF.
      destruct (IH _ _ _ _ _ H F out mf HF Hne) as [f [-> Hf]]. exists f. split; [reflexivity|exact Hf].
Qed.

(* ------------------------------------------------------------------ *)
(* the simulation theorem *)

Section Generic.
Variable R : list N -> list N -> N -> N -> Prop.

Definition jump_rel (cA cB : list N) (ta tb : N) : Prop :=
  (lenN cA <= ta /\ lenN cB <= tb) \/ (ta < lenN cA /\ tb < lenN cB /\ R cA cB ta tb).

(* the same instruction at a and b, with related successors *)
Definition sync_pt (cA cB : list N) (a b : N) : Prop :=
  (lenN cA <= a /\ lenN cB <= b) \/
  (a < lenN cA /\ b < lenN cB /\ exists op,
     byte_at cA a = Some op /\ byte_at cB b = Some op /\
     (if (op =? OpJump) || (op =? OpJumpIfFalse)
      then (operand_at cA a = None /\ operand_at cB b = None) \/
           exists ta tb, operand_at cA a = Some ta /\ operand_at cB b = Some tb /\ jump_rel cA cB ta tb
      else if 1 <? op_len op then operand_at cA a = operand_at cB b else True) /\
     (op = OpReturn \/ op = OpJump \/ R cA cB (a + op_len op) (b + op_len op))).

Definition diagram (cA cB : list N) (a b : N) (m : mstate) : Prop :=
  exists nA nB a1 b1 m1,
    nsteps nA cA a m a1 m1 /\ nsteps nB cB b m b1 m1 /\
    (((1 <= nA)%nat /\ (1 <= nB)%nat /\ R cA cB a1 b1) \/ sync_pt cA cB a1 b1).

Lemma sync_step : forall cA cB a b m, sync_pt cA cB a b -> polls m = None ->
  match stp cA a m, stp cB b m with
  | SFin o1 m1, SFin o2 m2 => o1 = o2 /\ m1 = m2
  | SNext a' m1, SNext b' m2 => m1 = m2 /\ R cA cB a' b'
  | SCall n1 ar1 s1 m1 x1, SCall n2 ar2 s2 m2 x2 =>
      n1 = n2 /\ ar1 = ar2 /\ s1 = s2 /\ m1 = m2 /\ R cA cB x1 x2
  | _, _ => False
  end.
Proof.
  intros cA cB a b m [[HA HB]|[HA [HB [op [BA [BB [Harg Hnext]]]]]]] Hp; unfold step.
  - apply N.leb_le in HA, HB. rewrite HA, HB. split; reflexivity.
  - apply N.leb_gt in HA, HB. rewrite HA, HB, (poll_none m Hp), BA, BB.
    destruct ((op =? OpJump) || (op =? OpJumpIfFalse)) eqn:J.
    + rewrite (jump_len op J). change (1 <? 3) with true. cbv iota.
      destruct Harg as [[OA OB]|[ta [tb [OA [OB JR]]]]]; rewrite OA, OB; [split; reflexivity|].
      rewrite (instr_jump_arg op ta tb m J).
      assert (Hn : R cA cB (a + 3) (b + 3) \/ ins op tb m = IJump m).
      { rewrite (jump_len op J) in Hnext. destruct Hnext as [E|[E|E]].
        - subst op. discriminate J.
        - subst op. right. apply instr_jump.
        - left. exact E. }
      destruct (ins op tb m) as [out m'|m'|m'|name args s] eqn:EI.
      * split; reflexivity.
      * destruct Hn as [Hn|Hn]; [|discriminate Hn]. split; [reflexivity|exact Hn].
      * destruct JR as [[JA JB]|[JA [JB JR]]].
        -- apply N.leb_le in JA, JB. rewrite JA, JB. split; reflexivity.
        -- apply N.leb_gt in JA, JB. rewrite JA, JB. split; [reflexivity|exact JR].
      * destruct Hn as [Hn|Hn]; [|discriminate Hn]. repeat split; try reflexivity. exact Hn.
    + assert (Ho : (if 1 <? op_len op then operand_at cA a else Some 0) =
                   (if 1 <? op_len op then operand_at cB b else Some 0)).
      { destruct (1 <? op_len op); [exact Harg|reflexivity]. }
      rewrite Ho. destruct (if 1 <? op_len op then operand_at cB b else Some 0) as [arg|];
        [|split; reflexivity].
      assert (Hn : R cA cB (a + op_len op) (b + op_len op) \/ exists out m', ins op arg m = IFin out m').
      { destruct Hnext as [E|[E|E]].
        - subst op. right. apply instr_return.
        - subst op. discriminate J.
        - left. exact E. }
      destruct (ins op arg m) as [out m'|m'|m'|name args s] eqn:EI.
      * split; reflexivity.
      * destruct Hn as [Hn|[? [? Hn]]]; [|discriminate Hn]. split; [reflexivity|exact Hn].
      * rewrite (instr_jump_only _ _ _ _ EI) in J. discriminate J.
      * destruct Hn as [Hn|[? [? Hn]]]; [|discriminate Hn]. repeat split; try reflexivity. exact Hn.
Qed.

Variables funcsA funcsB : list (str * ufunc).

Hypothesis local : forall cA cB a b, R cA cB a b -> forall m, polls m = None -> diagram cA cB a b m.
Hypothesis funcs_rel : forall name,
  match ufunc_get name funcsA, ufunc_get name funcsB with
  | Some fa, Some fb => fparams fa = fparams fb /\ R (fcode fa) (fcode fb) 0 0
  | None, None => True
  | _, _ => False
  end.

Theorem sim_exec : forall F cA cB a b m out mf,
  R cA cB a b -> polls m = None ->
  exec o consts funcsA fns obj F cA a m = (out, mf) -> out <> OErr EFuel ->
  exists F', exec o consts funcsB fns obj F' cB b m = (out, mf).
Proof.
  induction F as [F IH] using lt_wf_ind. intros cA cB a b m out mf HR Hp HF Hne.
  destruct (local cA cB a b HR m Hp) as [nA [nB [a1 [b1 [m1 [SA [SB D]]]]]]].
  destruct (nsteps_exec_inv funcsA nA cA a m a1 m1 SA F out mf HF Hne) as [f [-> Hf]].
  pose proof (nsteps_polls _ _ _ _ _ _ SA Hp) as Hp1.
  destruct D as [[HnA [HnB HR1]]|Hsync].
  - destruct (IH f ltac:(lia) cA cB a1 b1 m1 out mf HR1 Hp1 Hf Hne) as [F' HF'].
    exists (nB + F')%nat. rewrite (nsteps_exec funcsB nB cB b m b1 m1 SB). exact HF'.
  - destruct f as [|f].
    { cbn [exec] in Hf. unfold fail in Hf. injection Hf as <- _. congruence. }
    assert (Hgoal : exists F', exec o consts funcsB fns obj F' cB b1 m1 = (out, mf)).
    2:{ destruct Hgoal as [F' HF']. exists (nB + F')%nat.
        rewrite (nsteps_exec funcsB nB cB b m b1 m1 SB). exact HF'. }
    rewrite exec_S_step in Hf.
    pose proof (sync_step cA cB a1 b1 m1 Hsync Hp1) as SS.
    pose proof (step_polls cA a1 m1 Hp1) as PA.
    destruct (stp cA a1 m1) as [oA mA|a2 mA|nameA argsA sA mA nextA] eqn:EA;
      destruct (stp cB b1 m1) as [oB mB|b2 mB|nameB argsB sB mB nextB] eqn:EB; try contradiction.
    + destruct SS as [<- <-]. cbn [run_sres] in Hf. exists 1%nat. rewrite exec_S_step, EB. exact Hf.
    + destruct SS as [<- HR2]. cbn [run_sres] in Hf.
      destruct (IH f ltac:(lia) cA cB a2 b2 mA out mf HR2 PA Hf Hne) as [F' HF'].
      exists (S F'). rewrite exec_S_step, EB. exact HF'.
    + destruct SS as [<- [<- [<- [<- HR2]]]]. subst mA. cbn [run_sres] in Hf.
      pose proof (funcs_rel nameA) as FR.
      destruct (ufunc_get nameA funcsA) as [fa|] eqn:UA; destruct (ufunc_get nameA funcsB) as [fb|] eqn:UB;
        try contradiction.
      2:{ exists 1%nat. rewrite exec_S_step, EB. cbn [run_sres]. rewrite UB. exact Hf. }
      destruct FR as [FP FC].
      destruct (negb (Nat.eqb (List.length (fparams fa)) (List.length argsA))) eqn:C1.
      { exists 1%nat. rewrite exec_S_step, EB. cbn [run_sres]. rewrite UB, <- FP, C1. exact Hf. }
      destruct (negb (max_call_depth =? 0) && (max_call_depth <=? N.of_nat (env_depth (menv m1)))) eqn:C2.
      { exists 1%nat. rewrite exec_S_step, EB. cbn [run_sres]. rewrite UB, <- FP, C1, C2. exact Hf. }
      set (m0 := mkM [] (declare_all (env_push_frame (menv m1)) (fparams fa) argsA) (trace m1) (polls m1)) in *.
      assert (Hp0 : polls m0 = None) by exact Hp1.
      destruct (exec o consts funcsA fns obj f (fcode fa) 0 m0) as [[v|e] m2] eqn:EC.
      * destruct (IH f ltac:(lia) (fcode fa) (fcode fb) 0 0 m0 (ODone v) m2 FC Hp0 EC ltac:(discriminate))
          as [F1 HF1].
        pose proof (exec_polls funcsA f _ _ _ _ _ Hp0 EC) as Hp2.
        assert (HX : exists F2, exec o consts funcsB fns obj F2 cB nextB
                       (mkM (match v with VVoid => sA | _ => v :: sA end)
                            (env_truncate (menv m2) (env_depth (menv m1))) (trace m2) (polls m2)) = (out, mf)).
        { refine (IH f _ cA cB nextA nextB _ out mf HR2 _ Hf Hne); [lia|exact Hp2]. }
        destruct HX as [F2 HF2].
        exists (S (Nat.max F1 F2)). rewrite exec_S_step, EB. cbn [run_sres]. rewrite UB, <- FP, C1, C2.
        fold m0.
        rewrite (exec_mono funcsB F1 (Nat.max F1 F2) _ _ _ _ _ HF1 ltac:(discriminate) ltac:(lia)).
        apply (exec_mono funcsB F2 (Nat.max F1 F2) _ _ _ _ _ HF2 Hne). lia.
      * assert (He : OErr e <> OErr EFuel) by (injection Hf as <- _; exact Hne).
        destruct (IH f ltac:(lia) (fcode fa) (fcode fb) 0 0 m0 (OErr e) m2 FC Hp0 EC He) as [F1 HF1].
        exists (S F1). rewrite exec_S_step, EB. cbn [run_sres]. rewrite UB, <- FP, C1, C2.
        fold m0. rewrite HF1. exact Hf.
Qed.

End Generic.

(* ------------------------------------------------------------------ *)
(* the constant instructions of the abstract evaluator *)

Lemma nthN_lt : forall {A} (l : list A) i, i < lenN l -> exists v, nthN l i = Some v.
Proof.
  induction l as [|x l IH]; intros i H.
  - unfold lenN in H. cbn in H. lia.
  - cbn [nthN]. destruct (N.eqb_spec i 0) as [E|E]; [eexists; reflexivity|].
    apply IH. rewrite lenN_cons in H. lia.
Qed.

Lemma step_at : forall code ip m op,
  polls m = None -> (lenN code <=? ip) = false -> byte_at code ip = Some op ->
  stp code ip m =
  match (if 1 <? op_len op then operand_at code ip else Some 0) with
  | None => SFin (OErr EPanic) m
  | Some arg =>
      match ins op arg m with
      | IFin out m' => SFin out m'
      | IFall m' => SNext (ip + op_len op) m'
      | IJump m' => if lenN code <=? arg then SFin (OErr EInternal) m' else SNext arg m'
      | ICall name args s => SCall name args s m (ip + op_len op)
      end
  end.
Proof. intros code ip m op Hp Hl Hb. unfold step. rewrite Hl, (poll_none m Hp), Hb. reflexivity. Qed.

Lemma step_nop : forall code ip m op,
  polls m = None -> (lenN code <=? ip) = false -> byte_at code ip = Some op ->
  (op =? OpNop) || (op =? OpPlaceholder) = true -> stp code ip m = SNext (ip + 1) m.
Proof.
  intros code ip m op Hp Hl Hb H. rewrite (step_at code ip m op Hp Hl Hb).
  apply Bool.orb_true_iff in H. destruct H as [H|H]; apply N.eqb_eq in H; subst op;
    unfold instr; step_simpl; reflexivity.
Qed.

Lemma step_push : forall code ip m a,
  polls m = None -> (lenN code <=? ip) = false -> byte_at code ip = Some OpPush ->
  operand_at code ip = Some a -> stp code ip m = SNext (ip + 3) (push m (VInt (Z.of_N a))).
Proof.
  intros code ip m a Hp Hl Hb Ho. rewrite (step_at code ip m _ Hp Hl Hb).
  step_simpl. rewrite Ho. unfold instr. step_simpl. reflexivity.
Qed.

Lemma step_true : forall code ip m,
  polls m = None -> (lenN code <=? ip) = false -> byte_at code ip = Some OpTrue ->
  stp code ip m = SNext (ip + 1) (push m (VBool true)).
Proof.
  intros code ip m Hp Hl Hb. rewrite (step_at code ip m _ Hp Hl Hb).
  unfold instr. step_simpl. reflexivity.
Qed.

Lemma step_false : forall code ip m,
  polls m = None -> (lenN code <=? ip) = false -> byte_at code ip = Some OpFalse ->
  stp code ip m = SNext (ip + 1) (push m (VBool false)).
Proof.
  intros code ip m Hp Hl Hb. rewrite (step_at code ip m _ Hp Hl Hb).
  unfold instr. step_simpl. reflexivity.
Qed.

Lemma step_jif : forall code ip s e t c target,
  (lenN code <=? ip) = false -> byte_at code ip = Some OpJumpIfFalse ->
  operand_at code ip = Some target ->
  stp code ip (mkM (VBool c :: s) e t None) =
  if c then SNext (ip + 3) (mkM s e t None)
  else if lenN code <=? target then SFin (OErr EInternal) (mkM s e t None)
  else SNext target (mkM s e t None).
Proof.
  intros code ip s e t c target Hl Hb Ho.
  rewrite (step_at code ip _ _ (eq_refl : polls (mkM (VBool c :: s) e t None) = None) Hl Hb).
  step_simpl. rewrite Ho. unfold instr. step_simpl. cbn [stk truthy set_stk menv trace polls].
  destruct c; reflexivity.
Qed.

Lemma instr_binop : forall b arg r l s e t p,
  ins (opcode_of_binop b) arg (mkM (r :: l :: s) e t p) =
  match vm_binop o b l r with
  | Ok v => IFall (mkM (v :: s) e t p)
  | Err err => IFin (OErr err) (mkM s e t p)
  end.
Proof. intros b arg r l s e t p. destruct b; unfold instr; step_simpl; reflexivity. Qed.

Lemma arith_binop_spec : forall op b, arith_binop op = Some b ->
  op = opcode_of_binop b /\ forall l r, vm_binop o b (VInt l) (VInt r) = int_binop b l r.
Proof.
  intros op b. unfold arith_binop.
  repeat match goal with
  | |- (if ?c then _ else _) = _ -> _ => destruct c eqn:?
  end; intro H; try discriminate H; injection H as <-;
  match goal with E : (op =? _) = true |- _ => apply N.eqb_eq in E; subst op end;
  split; reflexivity.
Qed.

Lemma aval_of_res_ok : forall r v, aval_of_res r = Some v -> r = Ok (aval_value v).
Proof.
  intros [x|e] v H; [|discriminate H]. destruct x; try discriminate H; injection H as <-; reflexivity.
Qed.

Lemma step_arith : forall code ip op b l r v s e t,
  (lenN code <=? ip) = false -> byte_at code ip = Some op -> arith_binop op = Some b ->
  aval_of_res (int_binop b l r) = Some v ->
  stp code ip (mkM (VInt r :: VInt l :: s) e t None) = SNext (ip + 1) (mkM (aval_value v :: s) e t None).
Proof.
  intros code ip op b l r v s e t Hl Hb Ha Hv.
  destruct (arith_binop_spec op b Ha) as [-> Hvm].
  rewrite (step_at code ip _ _ (eq_refl : polls (mkM (VInt r :: VInt l :: s) e t None) = None) Hl Hb).
  replace (op_len (opcode_of_binop b)) with 1 by (destruct b; reflexivity).
  change (1 <? 1) with false. cbv iota.
  rewrite instr_binop, Hvm, (aval_of_res_ok _ _ Hv). reflexivity.
Qed.

Definition amach (st : list aval) (s : list value) (e : env) (t : list call) : mstate :=
  mkM (map aval_value st ++ s) e t None.

Lemma aeval_sound : forall fuel code ip stop st ip' st',
  aeval fuel code ip stop st = Some (ip', st') ->
  forall s e t, exists n,
    nsteps n code ip (amach st s e t) ip' (amach st' s e t) /\ (ip' <> ip -> (1 <= n)%nat).
Proof.
  induction fuel as [|f IH]; intros code ip stop st ip' st' H s e t; [discriminate H|].
  cbn [aeval] in H.
  destruct (stop <=? ip).
  { injection H as <- <-. exists 0%nat. split; [split; reflexivity|]. intro X. congruence. }
  destruct (lenN code <=? ip) eqn:Hl; [discriminate H|].
  destruct (byte_at code ip) as [op|] eqn:Hb; [|discriminate H].
  assert (Hfin : forall ip1 st1, stp code ip (amach st s e t) = SNext ip1 (amach st1 s e t) ->
            aeval f code ip1 stop st1 = Some (ip', st') ->
            exists n, nsteps n code ip (amach st s e t) ip' (amach st' s e t) /\ (ip' <> ip -> (1 <= n)%nat)).
  { intros ip1 st1 Hs Hr. destruct (IH _ _ _ _ _ _ Hr s e t) as [n [Hn _]].
    exists (S n). split; [|intros _; lia]. exists ip1, (amach st1 s e t). split; assumption. }
  destruct ((op =? OpNop) || (op =? OpPlaceholder)) eqn:E1.
  { apply (Hfin _ _ (step_nop code ip (amach st s e t) op eq_refl Hl Hb E1) H). }
  destruct (op =? OpPush) eqn:E2.
  { apply N.eqb_eq in E2. subst op. destruct (operand_at code ip) as [a|] eqn:Ho; [|discriminate H].
    apply (Hfin _ (AInt (Z.of_N a) :: st) (step_push code ip (amach st s e t) a eq_refl Hl Hb Ho) H). }
  destruct (op =? OpTrue) eqn:E3.
  { apply N.eqb_eq in E3. subst op.
    apply (Hfin _ (ABool true :: st) (step_true code ip (amach st s e t) eq_refl Hl Hb) H). }
  destruct (op =? OpFalse) eqn:E4.
  { apply N.eqb_eq in E4. subst op.
    apply (Hfin _ (ABool false :: st) (step_false code ip (amach st s e t) eq_refl Hl Hb) H). }
  destruct (op =? OpJumpIfFalse) eqn:E5.
  { apply N.eqb_eq in E5. subst op. destruct (operand_at code ip) as [target|] eqn:Ho; [|discriminate H].
    destruct st as [|[z|c] st1]; try discriminate H.
    pose proof (step_jif code ip (map aval_value st1 ++ s) e t c target Hl Hb Ho) as Hs.
    destruct c.
    - apply (Hfin _ st1 Hs H).
    - destruct ((ip <? target) && (target <? lenN code)) eqn:Hc; [|discriminate H].
      apply Bool.andb_true_iff in Hc. destruct Hc as [_ Hc]. apply N.ltb_lt in Hc. apply N.leb_gt in Hc.
      rewrite Hc in Hs. apply (Hfin _ st1 Hs H). }
  destruct (arith_binop op) as [b|] eqn:Ea; [|discriminate H].
  destruct st as [|[r|?] [|[l|?] st1]]; try discriminate H.
  destruct (aval_of_res (int_binop b l r)) as [v|] eqn:Ev; [|discriminate H].
  apply (Hfin _ (v :: st1) (step_arith code ip op b l r v _ e t Hl Hb Ea Ev) H).
Qed.

(* ------------------------------------------------------------------ *)
(* a validated pair of codes *)

(* point a of A matches point b of B *)
Definition vlink (A B : list N) (a b : N) : Prop :=
  (A = B /\ a = b) \/ exists pts, validate A B pts = true /\ paired pts a b = true.

Lemma aval_eqb_eq : forall x y, aval_eqb x y = true -> x = y.
Proof.
  intros [a|a] [b|b] H; try discriminate H; cbn [aval_eqb] in H.
  - apply Z.eqb_eq in H. congruence.
  - apply Bool.eqb_prop in H. congruence.
Qed.

Lemma avals_eqb_eq : forall l1 l2, avals_eqb l1 l2 = true -> l1 = l2.
Proof.
  induction l1 as [|x l1 IH]; intros [|y l2] H; try discriminate H; [reflexivity|].
  cbn [avals_eqb] in H. apply Bool.andb_true_iff in H. destruct H as [H1 H2].
  rewrite (aval_eqb_eq _ _ H1), (IH _ H2). reflexivity.
Qed.

Lemma opt_N_eqb_eq : forall x y, opt_N_eqb x y = true -> x = y.
Proof.
  intros [a|] [b|] H; try discriminate H; [|reflexivity]. apply N.eqb_eq in H. congruence.
Qed.

Lemma sync_ok_sound : forall A B pts a b,
  validate A B pts = true -> sync_ok A B pts a b = true -> sync_pt vlink A B a b.
Proof.
  intros A B pts a b Hv H. unfold sync_ok in H.
  assert (HP : forall x y, paired pts x y = true -> vlink A B x y).
  { intros x y Hxy. right. exists pts. split; assumption. }
  destruct (lenN A <=? a) eqn:LA.
  { left. apply N.leb_le in LA, H. split; assumption. }
  destruct (lenN B <=? b) eqn:LB; [discriminate H|].
  apply N.leb_gt in LA, LB. right. split; [exact LA|]. split; [exact LB|].
  destruct (byte_at A a) as [op|]; [|discriminate H].
  destruct (byte_at B b) as [op'|]; [|discriminate H].
  apply Bool.andb_true_iff in H. destruct H as [H H3].
  apply Bool.andb_true_iff in H. destruct H as [H1 H2].
  apply N.eqb_eq in H1. subst op'. exists op. split; [reflexivity|]. split; [reflexivity|]. split.
  - destruct ((op =? OpJump) || (op =? OpJumpIfFalse)).
    + unfold jump_ok in H2. destruct (operand_at A a) as [ta|]; [|discriminate H2].
      destruct (operand_at B b) as [tb|]; [|discriminate H2].
      right. exists ta, tb. split; [reflexivity|]. split; [reflexivity|].
      destruct (lenN A <=? ta) eqn:LT.
      * left. apply N.leb_le in LT, H2. split; assumption.
      * right. apply N.leb_gt in LT. apply Bool.andb_true_iff in H2. destruct H2 as [H2 H4].
        apply N.ltb_lt in H2. split; [exact LT|]. split; [exact H2|]. apply HP. exact H4.
    + destruct (1 <? op_len op); [|exact I]. apply opt_N_eqb_eq. exact H2.
  - apply Bool.orb_true_iff in H3. destruct H3 as [H3|H3].
    + apply Bool.orb_true_iff in H3. destruct H3 as [H3|H3]; apply N.eqb_eq in H3.
      * left. exact H3.
      * right. left. exact H3.
    + right. right. apply HP. exact H3.
Qed.

Lemma paired_in : forall pts a b, paired pts a b = true -> exists sa sb, In ((a, b), (sa, sb)) pts.
Proof.
  intros pts a b H. unfold paired in H. apply existsb_exists in H.
  destruct H as [[[a' b'] [sa sb]] [Hin H]]. cbn [fst snd] in H.
  apply Bool.andb_true_iff in H. destruct H as [H1 H2]. apply N.eqb_eq in H1, H2. subst a' b'.
  exists sa, sb. exact Hin.
Qed.

Lemma vlink_refl_sync : forall A a, sync_pt vlink A A a a.
Proof.
  intros A a. unfold sync_pt.
  assert (HR : forall x, vlink A A x x) by (intro x; left; split; reflexivity).
  destruct (N.le_gt_cases (lenN A) a) as [H|H]; [left; split; exact H|].
  right. split; [exact H|]. split; [exact H|].
  destruct (nthN_lt A a H) as [op Hop]. exists op. split; [exact Hop|]. split; [exact Hop|]. split.
  - destruct ((op =? OpJump) || (op =? OpJumpIfFalse)).
    + destruct (operand_at A a) as [ta|]; [right|left; split; reflexivity].
      exists ta, ta. split; [reflexivity|]. split; [reflexivity|].
      destruct (N.le_gt_cases (lenN A) ta) as [Ht|Ht]; [left; split; exact Ht|].
      right. split; [exact Ht|]. split; [exact Ht|]. apply HR.
    + destruct (1 <? op_len op); [reflexivity|exact I].
  - right. right. apply HR.
Qed.

Lemma vlink_diag : forall A B a b, vlink A B a b -> forall m, polls m = None -> diagram vlink A B a b m.
Proof.
  intros A B a b [[-> ->]|[pts [Hv Hp]]] m Hm.
  - exists 0%nat, 0%nat, b, b, m. split; [split; reflexivity|]. split; [split; reflexivity|].
    right. apply vlink_refl_sync.
  - destruct (paired_in pts a b Hp) as [sa [sb Hin]].
    pose proof Hv as Hv'. unfold validate in Hv'. apply Bool.andb_true_iff in Hv'. destruct Hv' as [_ Hall].
    rewrite forallb_forall in Hall. specialize (Hall _ Hin). cbn beta iota in Hall. unfold check_entry in Hall.
    destruct (aeval (S (List.length A)) A a sa []) as [[a1 stA]|] eqn:EA; [|discriminate Hall].
    destruct (aeval (S (List.length B)) B b sb []) as [[b1 stB]|] eqn:EB; [|discriminate Hall].
    apply Bool.andb_true_iff in Hall. destruct Hall as [Hst Hall]. apply avals_eqb_eq in Hst. subst stB.
    destruct m as [s e t p]. cbn [polls] in Hm. subst p.
    destruct (aeval_sound _ _ _ _ _ _ _ EA s e t) as [nA [SA PA]].
    destruct (aeval_sound _ _ _ _ _ _ _ EB s e t) as [nB [SB PB]].
    exists nA, nB, a1, b1, (amach stA s e t). split; [exact SA|]. split; [exact SB|].
    apply Bool.orb_true_iff in Hall. destruct Hall as [Hall|Hall].
    + left. apply Bool.andb_true_iff in Hall. destruct Hall as [Hall H3].
      apply Bool.andb_true_iff in Hall. destruct Hall as [H1 H2].
      apply Bool.negb_true_iff in H1, H2. apply N.eqb_neq in H1, H2.
      split; [exact (PA H1)|]. split; [exact (PB H2)|]. right. exists pts. split; assumption.
    + right. exact (sync_ok_sound A B pts a1 b1 Hv Hall).
Qed.

(* ------------------------------------------------------------------ *)
(* both directions *)

Definition flip4 (R : list N -> list N -> N -> N -> Prop) : list N -> list N -> N -> N -> Prop :=
  fun cB cA b a => R cA cB a b.

Lemma sync_pt_sym : forall R cA cB a b, sync_pt R cA cB a b -> sync_pt (flip4 R) cB cA b a.
Proof.
  intros R cA cB a b [[HA HB]|[HA [HB [op [BA [BB [Harg Hnext]]]]]]].
  - left. split; assumption.
  - right. split; [exact HB|]. split; [exact HA|]. exists op. split; [exact BB|]. split; [exact BA|]. split.
    + destruct ((op =? OpJump) || (op =? OpJumpIfFalse)).
      * destruct Harg as [[OA OB]|[ta [tb [OA [OB JR]]]]]; [left; split; assumption|].
        right. exists tb, ta. split; [exact OB|]. split; [exact OA|].
        destruct JR as [[JA JB]|[JA [JB JR]]]; [left; split; assumption|].
        right. split; [exact JB|]. split; [exact JA|]. exact JR.
      * destruct (1 <? op_len op); [symmetry; exact Harg|exact I].
    + destruct Hnext as [E|[E|E]]; [left; exact E|right; left; exact E|right; right; exact E].
Qed.

Lemma diagram_sym : forall R cA cB a b m, diagram R cA cB a b m -> diagram (flip4 R) cB cA b a m.
Proof.
  intros R cA cB a b m [nA [nB [a1 [b1 [m1 [SA [SB D]]]]]]].
  exists nB, nA, b1, a1, m1. split; [exact SB|]. split; [exact SA|].
  destruct D as [[HA [HB HR]]|HS].
  - left. split; [exact HB|]. split; [exact HA|]. exact HR.
  - right. apply sync_pt_sym. exact HS.
Qed.

Definition funcs_rel (R : list N -> list N -> N -> N -> Prop) (fA fB : list (str * ufunc)) : Prop :=
  forall name,
    match ufunc_get name fA, ufunc_get name fB with
    | Some fa, Some fb => fparams fa = fparams fb /\ R (fcode fa) (fcode fb) 0 0
    | None, None => True
    | _, _ => False
    end.

Lemma funcs_rel_sym : forall R fA fB, funcs_rel R fA fB -> funcs_rel (flip4 R) fB fA.
Proof.
  intros R fA fB H name. specialize (H name).
  destruct (ufunc_get name fA), (ufunc_get name fB); try exact H.
  destruct H as [H1 H2]. split; [symmetry; exact H1|exact H2].
Qed.

(* a run of A from a that ends is a run of B from b, and conversely *)
Definition sim_both (fA : list (str * ufunc)) (A : list N) (a : N)
                    (fB : list (str * ufunc)) (B : list N) (b : N) (m : mstate) : Prop :=
  (forall F out mf, exec o consts fA fns obj F A a m = (out, mf) -> out <> OErr EFuel ->
     exists F', exec o consts fB fns obj F' B b m = (out, mf)) /\
  (forall F out mf, exec o consts fB fns obj F B b m = (out, mf) -> out <> OErr EFuel ->
     exists F', exec o consts fA fns obj F' A a m = (out, mf)).

Theorem vlink_sim : forall fA fB A B a b m,
  funcs_rel vlink fA fB -> vlink A B a b -> polls m = None -> sim_both fA A a fB B b m.
Proof.
  intros fA fB A B a b m Hf Hl Hm. split; intros F out mf HF Hne.
  - exact (sim_exec vlink fA fB vlink_diag Hf F A B a b m out mf Hl Hm HF Hne).
  - refine (sim_exec (flip4 vlink) fB fA _ (funcs_rel_sym _ _ _ Hf) F B A b a m out mf Hl Hm HF Hne).
    intros cB cA b0 a0 HR m0 Hm0. apply diagram_sym. apply vlink_diag; assumption.
Qed.

Lemma funcs_rel_refl : forall fs, funcs_rel vlink fs fs.
Proof.
  intros fs name. destruct (ufunc_get name fs); [|exact I]. split; [reflexivity|]. left. split; reflexivity.
Qed.

(* ------------------------------------------------------------------ *)
(* programs: a main code and a function table; chains of validated steps *)

Definition exec_equiv (A : list N) (fA : list (str * ufunc)) (B : list N) (fB : list (str * ufunc)) : Prop :=
  forall m, polls m = None -> sim_both fA A 0 fB B 0 m.

Lemma exec_equiv_refl : forall A fA, exec_equiv A fA A fA.
Proof. intros A fA m Hm. split; intros F out mf HF _; exists F; exact HF. Qed.

Lemma exec_equiv_trans : forall A fA B fB C fC,
  exec_equiv A fA B fB -> exec_equiv B fB C fC -> exec_equiv A fA C fC.
Proof.
  intros A fA B fB C fC H1 H2 m Hm. destruct (H1 m Hm) as [H1a H1b]. destruct (H2 m Hm) as [H2a H2b].
  split; intros F out mf HF Hne.
  - destruct (H1a F out mf HF Hne) as [F1 HF1]. exact (H2a F1 out mf HF1 Hne).
  - destruct (H2b F out mf HF Hne) as [F1 HF1]. exact (H1b F1 out mf HF1 Hne).
Qed.

Inductive chain : list N -> list N -> Prop :=
| chain_refl : forall c, chain c c
| chain_step : forall A B C, vlink A B 0 0 -> chain B C -> chain A C.

Lemma chain_trans : forall A B C, chain A B -> chain B C -> chain A C.
Proof.
  intros A B C H1 H2. induction H1 as [c|A B B' HL H1 IH]; [exact H2|].
  apply (chain_step A B C HL). apply IH. exact H2.
Qed.

(* one step on a function table: every body makes one validated step or stays *)
Definition fstep (fs fs1 : list (str * ufunc)) : Prop :=
  Forall2 (fun x y => fst x = fst y /\ fparams (snd x) = fparams (snd y) /\
                      vlink (fcode (snd x)) (fcode (snd y)) 0 0) fs fs1.

Inductive fchain : list (str * ufunc) -> list (str * ufunc) -> Prop :=
| fchain_refl : forall fs, fchain fs fs
| fchain_step : forall fs fs1 fs2, fstep fs fs1 -> fchain fs1 fs2 -> fchain fs fs2.

Lemma fstep_refl : forall fs, fstep fs fs.
Proof.
  induction fs as [|x fs IH]; constructor; [|exact IH].
  split; [reflexivity|]. split; [reflexivity|]. left. split; reflexivity.
Qed.

Lemma fstep_rel : forall fs fs1, fstep fs fs1 -> funcs_rel vlink fs fs1.
Proof.
  intros fs fs1 H name. induction H as [|[n u] [n1 u1] l l1 [Hn [Hp Hc]] _ IH]; cbn [ufunc_get]; [exact I|].
  cbn [fst snd] in Hn, Hp, Hc. subst n1. destruct (str_eqb n name); [|exact IH].
  split; assumption.
Qed.

Lemma fchain_trans : forall a b c, fchain a b -> fchain b c -> fchain a c.
Proof.
  intros a b c H1 H2. induction H1 as [fs|fs fs1 fs2 HS H1 IH]; [exact H2|].
  apply (fchain_step fs fs1 c HS). apply IH. exact H2.
Qed.

Lemma fchain_tail : forall l l', fchain l l' -> forall y, fchain (y :: l) (y :: l').
Proof.
  intros l l' H y. induction H as [fs|fs fs1 fs2 HS H IH]; [apply fchain_refl|].
  apply (fchain_step _ (y :: fs1)); [|exact IH].
  constructor; [|exact HS]. split; [reflexivity|]. split; [reflexivity|]. left. split; reflexivity.
Qed.

Lemma fchain_head : forall c c', chain c c' ->
  forall n ps l, fchain ((n, mkUfunc ps c) :: l) ((n, mkUfunc ps c') :: l).
Proof.
  intros c c' H n ps l. induction H as [c|A B C HL H IH]; [apply fchain_refl|].
  apply (fchain_step _ ((n, mkUfunc ps B) :: l)); [|exact IH].
  constructor; [|apply fstep_refl]. cbn [fst snd fparams fcode].
  split; [reflexivity|]. split; [reflexivity|]. exact HL.
Qed.

Lemma chain_equiv : forall A B, chain A B -> forall fs, exec_equiv A fs B fs.
Proof.
  intros A B H fs. induction H as [c|A B C HL H IH]; [apply exec_equiv_refl|].
  apply (exec_equiv_trans A fs B fs C fs); [|exact IH].
  intros m Hm. apply vlink_sim; [apply funcs_rel_refl|exact HL|exact Hm].
Qed.

Lemma fchain_equiv : forall fs fs', fchain fs fs' -> forall A, exec_equiv A fs A fs'.
Proof.
  intros fs fs' H A. induction H as [fs|fs fs1 fs2 HS H IH]; [apply exec_equiv_refl|].
  apply (exec_equiv_trans A fs A fs1 A fs2); [|exact IH].
  intros m Hm. apply vlink_sim; [apply fstep_rel; exact HS| left; split; reflexivity |exact Hm].
Qed.

End Sim.

(* ------------------------------------------------------------------ *)
(* the checked optimizer builds chains, and agrees with the unchecked one *)

Lemma code_eqb_eq : forall a b, code_eqb a b = true -> a = b.
Proof.
  induction a as [|x a IH]; intros [|y b] H; try discriminate H; [reflexivity|].
  cbn [code_eqb] in H. apply Bool.andb_true_iff in H. destruct H as [H1 H2].
  apply N.eqb_eq in H1. rewrite H1, (IH _ H2). reflexivity.
Qed.

Lemma link_ok_vlink : forall A B pts, link_ok A B pts = true -> vlink A B 0 0.
Proof.
  intros A B pts H. unfold link_ok in H. apply Bool.orb_true_iff in H. destruct H as [H|H].
  - left. split; [apply code_eqb_eq; exact H|reflexivity].
  - right. exists pts. split; [exact H|]. unfold validate in H. apply Bool.andb_true_iff in H. apply H.
Qed.

Lemma iterate_safe_chain : forall fuel pass code c,
  iterate_safe fuel pass code = Some c -> chain code c.
Proof.
  induction fuel as [|f IH]; intros pass code c H; [discriminate H|].
  cbn [iterate_safe] in H. destruct (pass code) as [|c1|].
  - injection H as <-. apply chain_refl.
  - destruct (link_ok code c1 (window_plan code c1)) eqn:L; [|discriminate H].
    apply (chain_step code c1 c (link_ok_vlink _ _ _ L)). exact (IH _ _ _ H).
  - injection H as <-. apply chain_refl.
Qed.

Lemma iterate_safe_agrees : forall fuel pass code c,
  iterate_safe fuel pass code = Some c -> iterate fuel pass code = Some c.
Proof.
  induction fuel as [|f IH]; intros pass code c H; [discriminate H|].
  cbn [iterate_safe] in H. cbn [iterate]. destruct (pass code) as [|c1|]; try exact H.
  destruct (link_ok code c1 (window_plan code c1)); [|discriminate H]. exact (IH _ _ _ H).
Qed.

Lemma safe_agrees : forall code c', optimize_body_safe code = Some c' -> optimize_body code = Some c'.
Proof.
  intros code c' H. unfold optimize_body_safe in H. unfold optimize_body.
  destruct (iterate_safe (S (List.length code)) maths_pass code) as [c1|] eqn:E1; [|discriminate H].
  rewrite (iterate_safe_agrees _ _ _ _ E1).
  destruct (iterate_safe (S (List.length code)) jumps_pass c1) as [c2|] eqn:E2; [|discriminate H].
  rewrite (iterate_safe_agrees _ _ _ _ E2).
  destruct (link_ok c2 (remove_nops c2) (nops_plan c2 (remove_nops c2))); [|discriminate H].
  destruct (link_ok (remove_nops c2) (remove_dead (remove_nops c2))
                    (dead_plan (remove_nops c2) (remove_dead (remove_nops c2)))); [|discriminate H].
  exact H.
Qed.

Lemma optimize_body_safe_chain : forall code c', optimize_body_safe code = Some c' -> chain code c'.
Proof.
  intros code c' H. unfold optimize_body_safe in H.
  destruct (iterate_safe (S (List.length code)) maths_pass code) as [c1|] eqn:E1; [|discriminate H].
  destruct (iterate_safe (S (List.length code)) jumps_pass c1) as [c2|] eqn:E2; [|discriminate H].
  destruct (link_ok c2 (remove_nops c2) (nops_plan c2 (remove_nops c2))) eqn:L3; [|discriminate H].
  destruct (link_ok (remove_nops c2) (remove_dead (remove_nops c2))
                    (dead_plan (remove_nops c2) (remove_dead (remove_nops c2)))) eqn:L4; [|discriminate H].
  injection H as <-.
  apply (chain_trans _ c1); [exact (iterate_safe_chain _ _ _ _ E1)|].
  apply (chain_trans _ c2); [exact (iterate_safe_chain _ _ _ _ E2)|].
  apply (chain_step _ (remove_nops c2)); [exact (link_ok_vlink _ _ _ L3)|].
  apply (chain_step _ (remove_dead (remove_nops c2))); [exact (link_ok_vlink _ _ _ L4)|].
  apply chain_refl.
Qed.

Lemma opt_map_weaken : forall {A B} (f g : A -> option B) l l',
  (forall x y, f x = Some y -> g x = Some y) -> opt_map f l = Some l' -> opt_map g l = Some l'.
Proof.
  intros A B f g l. induction l as [|x l IH]; intros l' Hfg H; cbn [opt_map] in *; [exact H|].
  destruct (f x) as [y|] eqn:Ef; [|discriminate H].
  destruct (opt_map f l) as [ys|] eqn:El; [|discriminate H].
  rewrite (Hfg _ _ Ef), (IH ys Hfg eq_refl). exact H.
Qed.

Lemma safe_agrees_program : forall p p', optimize_program_safe p = Some p' -> optimize_program p = Some p'.
Proof.
  intros p p' H. unfold optimize_program_safe in H. unfold optimize_program.
  destruct (optimize_body_safe (pmain p)) as [m|] eqn:Em; [|discriminate H].
  rewrite (safe_agrees _ _ Em).
  destruct (same_emptiness (pmain p) m); [|discriminate H].
  match type of H with context [opt_map ?f (pfuncs p)] => destruct (opt_map f (pfuncs p)) as [fs|] eqn:Ef end;
    [|discriminate H].
  erewrite opt_map_weaken; [exact H| |exact Ef].
  intros x y Hx. cbv beta in Hx |- *.
  destruct (optimize_body_safe (fcode (snd x))) as [c|] eqn:Ec; [|discriminate Hx].
  rewrite (safe_agrees _ _ Ec). exact Hx.
Qed.

Lemma funcs_safe_fchain : forall fs fs',
  opt_map (fun nf => match optimize_body_safe (fcode (snd nf)) with
                     | Some c => Some (fst nf, mkUfunc (fparams (snd nf)) c)
                     | None => None
                     end) fs = Some fs' -> fchain fs fs'.
Proof.
  induction fs as [|[n [ps c]] fs IH]; intros fs' H; cbn [opt_map] in H.
  - injection H as <-. apply fchain_refl.
  - cbn [fst snd fcode fparams] in H.
    destruct (optimize_body_safe c) as [c'|] eqn:Ec; [|discriminate H].
    match type of H with context [opt_map ?f fs] => destruct (opt_map f fs) as [ys|] eqn:El end;
      [|discriminate H].
    injection H as <-.
    apply (fchain_trans _ ((n, mkUfunc ps c') :: fs)).
    + apply fchain_head. exact (optimize_body_safe_chain _ _ Ec).
    + apply fchain_tail. exact (IH _ eq_refl).
Qed.

(* ------------------------------------------------------------------ *)
(* (b) one validated step, pass by pass.
   [matched A B pts ip ip']: ip' is the image of ip - nothing changed and
   ip' = ip, or the plan is validated and pairs ip with ip'.  For the passes
   that keep the length the plan pairs every instruction boundary that is not
   strictly inside the rewritten window with itself; for remove_nops it is the
   optimizer's own offset table; for remove_dead the boundaries of the prefix. *)

Definition matched (A B : list N) (pts : plan) (ip ip' : N) : Prop :=
  (A = B /\ ip = ip') \/ (validate A B pts = true /\ paired pts ip ip' = true).

Lemma matched_vlink : forall A B pts ip ip', matched A B pts ip ip' -> vlink A B ip ip'.
Proof.
  intros A B pts ip ip' [H|[H1 H2]]; [left; exact H|right; exists pts; split; assumption].
Qed.

Lemma link_ok_matched : forall A B pts, link_ok A B pts = true -> matched A B pts 0 0.
Proof.
  intros A B pts H. unfold link_ok in H. apply Bool.orb_true_iff in H. destruct H as [H|H].
  - left. split; [apply code_eqb_eq; exact H|reflexivity].
  - right. split; [exact H|]. unfold validate in H. apply Bool.andb_true_iff in H. apply H.
Qed.

Section Passes.
Variables (o : stdlib) (consts : list value) (funcs : list (str * ufunc)) (fns : fnmap) (obj : hostval).
Notation ex := (exec o consts funcs fns obj).

(* both directions, spelled out *)
Definition same_runs (A : list N) (a : N) (B : list N) (b : N) (m : mstate) : Prop :=
  (forall fuel out m', ex fuel A a m = (out, m') -> out <> OErr EFuel ->
     exists fuel', ex fuel' B b m = (out, m')) /\
  (forall fuel out m', ex fuel B b m = (out, m') -> out <> OErr EFuel ->
     exists fuel', ex fuel' A a m = (out, m')).

Theorem validated_step_sim : forall A B pts ip ip' m,
  matched A B pts ip ip' -> polls m = None -> same_runs A ip B ip' m.
Proof.
  intros A B pts ip ip' m H Hm.
  exact (vlink_sim o consts fns obj funcs funcs A B ip ip' m (funcs_rel_refl funcs) (matched_vlink _ _ _ _ _ H) Hm).
Qed.

Lemma maths_step_sim : forall code code' ip m,
  maths_pass code = Changed code' -> matched code code' (window_plan code code') ip ip ->
  polls m = None -> same_runs code ip code' ip m.
Proof. intros code code' ip m _ H Hm. exact (validated_step_sim _ _ _ _ _ _ H Hm). Qed.

Lemma jumps_step_sim : forall code code' ip m,
  jumps_pass code = Changed code' -> matched code code' (window_plan code code') ip ip ->
  polls m = None -> same_runs code ip code' ip m.
Proof. intros code code' ip m _ H Hm. exact (validated_step_sim _ _ _ _ _ _ H Hm). Qed.

Lemma remove_nops_sim : forall code ip ip' m,
  matched code (remove_nops code) (nops_plan code (remove_nops code)) ip ip' ->
  polls m = None -> same_runs code ip (remove_nops code) ip' m.
Proof. intros code ip ip' m H Hm. exact (validated_step_sim _ _ _ _ _ _ H Hm). Qed.

Lemma remove_dead_sim : forall code ip m,
  matched code (remove_dead code) (dead_plan code (remove_dead code)) ip ip ->
  polls m = None -> same_runs code ip (remove_dead code) ip m.
Proof. intros code ip m H Hm. exact (validated_step_sim _ _ _ _ _ _ H Hm). Qed.

(* iterating a pass *)
Lemma iterate_safe_sim : forall fuel pass code c m,
  iterate_safe fuel pass code = Some c -> polls m = None -> same_runs code 0 c 0 m.
Proof.
  intros fuel pass code c m H Hm.
  exact (chain_equiv o consts fns obj code c (iterate_safe_chain _ _ _ _ H) funcs m Hm).
Qed.

(* (c) one body, the function table fixed *)
Theorem optimize_body_safe_correct_fixed_funcs : forall code code' m,
  optimize_body_safe code = Some code' -> polls m = None -> same_runs code 0 code' 0 m.
Proof.
  intros code code' m H Hm.
  exact (chain_equiv o consts fns obj code code' (optimize_body_safe_chain _ _ H) funcs m Hm).
Qed.

Theorem optimize_body_safe_correct : forall code code',
  optimize_body_safe code = Some code' ->
  forall m, polls m = None ->
  (forall fuel out m', ex fuel code 0 m = (out, m') -> out <> OErr EFuel ->
     exists fuel', ex fuel' code' 0 m = (out, m')) /\
  (forall fuel out m', ex fuel code' 0 m = (out, m') -> out <> OErr EFuel ->
     exists fuel', ex fuel' code 0 m = (out, m')).
Proof. intros code code' H m Hm. exact (optimize_body_safe_correct_fixed_funcs code code' m H Hm). Qed.

End Passes.

(* ------------------------------------------------------------------ *)
(* (c) whole programs: main and every function body are optimized *)

Lemma program_equiv : forall o fns obj p p',
  optimize_program_safe p = Some p' ->
  pconsts p' = pconsts p /\ same_emptiness (pmain p) (pmain p') = true /\
  exec_equiv o (pconsts p) fns obj (pmain p) (pfuncs p) (pmain p') (pfuncs p').
Proof.
  intros o fns obj p p' H. unfold optimize_program_safe in H.
  destruct (optimize_body_safe (pmain p)) as [m|] eqn:Em; [|discriminate H].
  destruct (same_emptiness (pmain p) m) eqn:Es; [|discriminate H].
  match type of H with context [opt_map ?f (pfuncs p)] => destruct (opt_map f (pfuncs p)) as [fs|] eqn:Ef end;
    [|discriminate H].
  injection H as <-. cbn [pconsts pmain pfuncs]. split; [reflexivity|]. split; [exact Es|].
  apply (exec_equiv_trans o (pconsts p) fns obj _ _ m (pfuncs p)).
  - apply chain_equiv. exact (optimize_body_safe_chain _ _ Em).
  - apply fchain_equiv. exact (funcs_safe_fchain _ _ Ef).
Qed.

Lemma run_main_equiv : forall o consts fns obj A fA B fB,
  same_emptiness A B = true -> exec_equiv o consts fns obj A fA B fB ->
  forall m, polls m = None -> forall fuel out m',
  run_main o consts fA fns obj fuel A m = (out, m') -> out <> OErr EFuel ->
  exists fuel', run_main o consts fB fns obj fuel' B m = (out, m').
Proof.
  intros o consts fns obj A fA B fB Hs Heq m Hm fuel out m' H Hne. unfold run_main in *.
  set (m0 := mkM [] (env_truncate (menv m) 0) (trace m) (polls m)) in *.
  assert (Hm0 : polls m0 = None) by exact Hm.
  destruct (Heq m0 Hm0) as [Hfw _].
  destruct A as [|x A]; destruct B as [|y B]; try discriminate Hs.
  - exists fuel. exact H.
  - destruct (exec o consts fA fns obj fuel (x :: A) 0 m0) as [out1 m1] eqn:E.
    assert (Hne1 : out1 <> OErr EFuel) by (injection H as <- _; exact Hne).
    destruct (Hfw fuel out1 m1 E Hne1) as [fuel' E'].
    exists fuel'. rewrite E'. exact H.
Qed.

Lemma same_emptiness_sym : forall a b, same_emptiness a b = true -> same_emptiness b a = true.
Proof. intros [|x a] [|y b] H; try discriminate H; reflexivity. Qed.

Lemma exec_equiv_sym : forall o consts fns obj A fA B fB,
  exec_equiv o consts fns obj A fA B fB -> exec_equiv o consts fns obj B fB A fA.
Proof. intros o consts fns obj A fA B fB H m Hm. destruct (H m Hm) as [H1 H2]. split; assumption. Qed.

(* a run of the program that ends is a run of the optimized program:
   same value or error, same trace of host calls, same variables *)
Theorem optimize_program_safe_correct : forall o fns obj p p',
  optimize_program_safe p = Some p' ->
  forall m, polls m = None ->
  forall fuel out m',
    run_main o (pconsts p) (pfuncs p) fns obj fuel (pmain p) m = (out, m') ->
    out <> OErr EFuel ->
    exists fuel', run_main o (pconsts p') (pfuncs p') fns obj fuel' (pmain p') m = (out, m').
Proof.
  intros o fns obj p p' H m Hm fuel out m' Hr Hne.
  destruct (program_equiv o fns obj p p' H) as [Ec [Es Heq]]. rewrite Ec.
  exact (run_main_equiv o (pconsts p) fns obj _ _ _ _ Es Heq m Hm fuel out m' Hr Hne).
Qed.

(* and conversely *)
Theorem optimize_program_safe_complete : forall o fns obj p p',
  optimize_program_safe p = Some p' ->
  forall m, polls m = None ->
  forall fuel out m',
    run_main o (pconsts p') (pfuncs p') fns obj fuel (pmain p') m = (out, m') ->
    out <> OErr EFuel ->
    exists fuel', run_main o (pconsts p) (pfuncs p) fns obj fuel' (pmain p) m = (out, m').
Proof.
  intros o fns obj p p' H m Hm fuel out m' Hr Hne.
  destruct (program_equiv o fns obj p p' H) as [Ec [Es Heq]]. rewrite Ec in Hr.
  exact (run_main_equiv o (pconsts p) fns obj _ _ _ _ (same_emptiness_sym _ _ Es)
           (exec_equiv_sym _ _ _ _ _ _ _ _ Heq) m Hm fuel out m' Hr Hne).
Qed.

(* the same two statements with the fuel and oracle outcomes both excluded *)
Corollary optimize_program_safe_correct' : forall o fns obj p p',
  optimize_program_safe p = Some p' ->
  forall m, polls m = None ->
  forall fuel out m',
    run_main o (pconsts p) (pfuncs p) fns obj fuel (pmain p) m = (out, m') ->
    out <> OErr EFuel /\ out <> OErr ENeedOracle ->
    exists fuel', run_main o (pconsts p') (pfuncs p') fns obj fuel' (pmain p') m = (out, m').
Proof. intros o fns obj p p' H m Hm fuel out m' Hr [Hne _]. eapply optimize_program_safe_correct; eassumption. Qed.

Corollary optimize_program_safe_complete' : forall o fns obj p p',
  optimize_program_safe p = Some p' ->
  forall m, polls m = None ->
  forall fuel out m',
    run_main o (pconsts p') (pfuncs p') fns obj fuel (pmain p') m = (out, m') ->
    out <> OErr EFuel /\ out <> OErr ENeedOracle ->
    exists fuel', run_main o (pconsts p) (pfuncs p) fns obj fuel' (pmain p) m = (out, m').
Proof. intros o fns obj p p' H m Hm fuel out m' Hr [Hne _]. eapply optimize_program_safe_complete; eassumption. Qed.

(* ------------------------------------------------------------------ *)
(* the checks are not vacuous: the checked optimizer accepts and rewrites *)

Definition rewrites (code : list N) : bool :=
  match optimize_body_safe code with Some c => negb (code_eqb code c) | None => false end.

(* 1 + 2, times 3 *)
Example safe_const_chain :
  optimize_body_safe [OpPush; 0; 1; OpPush; 0; 2; OpAdd; OpPush; 0; 3; OpMul; OpReturn]
  = Some [OpPush; 0; 9; OpReturn].
Proof. vm_compute. reflexivity. Qed.

(* if (true) { return 1 } return 2 *)
Example safe_if_true :
  optimize_body_safe [OpTrue; OpJumpIfFalse; 0; 8; OpPush; 0; 1; OpReturn; OpPlaceholder;
                      OpPush; 0; 2; OpReturn]
  = Some [OpPush; 0; 1; OpReturn].
Proof. vm_compute. reflexivity. Qed.

(* if (false) { return 1 } return 2 *)
Example safe_if_false :
  optimize_body_safe [OpFalse; OpJumpIfFalse; 0; 8; OpPush; 0; 1; OpReturn; OpPlaceholder;
                      OpPush; 0; 2; OpReturn]
  = Some [OpPlaceholder; OpPush; 0; 2; OpReturn].
Proof. vm_compute. reflexivity. Qed.

(* while (x < 10) { x++ } return 2 + 3 * 4 : a backward jump, and a jump re-targeted by remove_nops *)
Example safe_loop :
  optimize_body_safe [OpLookup; 0; 0; OpPush; 0; 10; OpLess; OpJumpIfFalse; 0; 16; OpInc; 0; 0;
                      OpJump; 0; 0; OpPlaceholder;
                      OpPush; 0; 2; OpPush; 0; 3; OpPush; 0; 4; OpMul; OpAdd; OpReturn]
  = Some [OpLookup; 0; 0; OpPush; 0; 10; OpLess; OpJumpIfFalse; 0; 16; OpInc; 0; 0;
          OpJump; 0; 0; OpPlaceholder; OpPush; 0; 14; OpReturn].
Proof. vm_compute. reflexivity. Qed.

(* x = 2 * 3; while (x) { x-- } : the loop moves, its jumps are re-targeted *)
Example safe_loop_moved :
  optimize_body_safe [OpPush; 0; 2; OpPush; 0; 3; OpMul; OpConstant; 0; 0; OpSet;
                      OpLookup; 0; 0; OpJumpIfFalse; 0; 23; OpDec; 0; 0; OpJump; 0; 11; OpPlaceholder]
  = Some [OpPush; 0; 6; OpConstant; 0; 0; OpSet;
          OpLookup; 0; 0; OpJumpIfFalse; 0; 19; OpDec; 0; 0; OpJump; 0; 7; OpPlaceholder].
Proof. vm_compute. reflexivity. Qed.

(* D5: the square-root fold is refused *)
Example safe_sqrt_refused : optimize_body_safe [OpPush; 0; 9; OpSquareRoot; OpReturn] = None.
Proof. vm_compute. reflexivity. Qed.

Example unsafe_sqrt_folded : optimize_body [OpPush; 0; 9; OpSquareRoot; OpReturn] = Some [OpPush; 0; 3; OpReturn].
Proof. vm_compute. reflexivity. Qed.

(* a jump into the middle of a constant window: the unchecked optimizer
   folds 3 + 1 although the 3 is only one of two ways to reach the Add;
   the checked one refuses *)
Example safe_join_refused :
  optimize_body_safe [OpLookup; 0; 0; OpJumpIfFalse; 0; 12; OpPush; 0; 2; OpJump; 0; 15;
                      OpPush; 0; 3; OpPush; 0; 1; OpAdd; OpReturn] = None.
Proof. vm_compute. reflexivity. Qed.

Example unsafe_join_folded :
  optimize_body [OpLookup; 0; 0; OpJumpIfFalse; 0; 12; OpPush; 0; 2; OpJump; 0; 15;
                 OpPush; 0; 3; OpPush; 0; 1; OpAdd; OpReturn]
  = Some [OpLookup; 0; 0; OpJumpIfFalse; 0; 12; OpPush; 0; 2; OpJump; 0; 12; OpPush; 0; 4; OpReturn].
Proof. vm_compute. reflexivity. Qed.

(* ------------------------------------------------------------------ *)
(* real compiler output passes the checks: small programs with if/else,
   while, foreach, switch, the conditional expression inside arithmetic,
   constant conditions, user functions *)

Module CompiledExamples.
Import Model.Lexer Model.Ast.

Definition i (n : Z) := EInt [] n.
Definition id (s : string) := EIdent (L s).
Definition call (f : string) (args : list expr) := ECall (id f) args.
Definition S_ (e : expr) := SExpr e.

Fixpoint funcs_eqb (a b : list (str * ufunc)) : bool :=
  match a, b with
  | [], [] => true
  | (n, u) :: a', (n', u') :: b' => str_eqb n n' && code_eqb (fcode u) (fcode u') && funcs_eqb a' b'
  | _, _ => false
  end.

(* the checked optimizer accepts the compiled program and returns what the unchecked one returns *)
Definition accepted (p : program) : bool :=
  match compile_program 1000 p with
  | CompOk pc =>
      match optimize_program pc, optimize_program_safe pc with
      | Some a, Some b => code_eqb (pmain a) (pmain b) && funcs_eqb (pfuncs a) (pfuncs b)
      | _, _ => false
      end
  | _ => false
  end.
(* ... and the main code was really rewritten *)
Definition rewritten (p : program) : bool :=
  match compile_program 1000 p with
  | CompOk pc =>
      match optimize_program_safe pc with
      | Some b => negb (code_eqb (pmain pc) (pmain b))
      | None => false
      end
  | _ => false
  end.

Definition progs : list program := [
  (* if (x) { f(1) } else { f(2) } return 1 + 2 *)
  [S_ (EIf (id "x") [S_ (call "f" [i 1])] (Some [S_ (call "f" [i 2])])); SReturn (EInfix TPlus (i 1) (i 2))];
  (* while (true) { if (x > 3) { return x } x++ } *)
  [S_ (EWhile (EBool true) [S_ (EIf (EInfix TGt (id "x") (i 3)) [SReturn (id "x")] None);
                            S_ (EPostfix (L "x") TPlusPlus)])];
  (* foreach k, v in xs { if (1 + 1 == 2) { p(v) } else { q() } } return false *)
  [S_ (EForeach (L "k") (L "v") (id "xs")
         [S_ (EIf (EInfix TEq (EInfix TPlus (i 1) (i 1)) (i 2)) [S_ (call "p" [id "v"])] (Some [S_ (call "q" [])]))]);
   SReturn (EBool false)];
  (* return 1 + (c ? 2 : 3)   and   return (c ? 2 : 3) + 1 *)
  [SReturn (EInfix TPlus (i 1) (ETernary (id "c") (i 2) (i 3)))];
  [SReturn (EInfix TPlus (ETernary (id "c") (i 2) (i 3)) (i 1))];
  [SReturn (EInfix TPlus (ETernary (EBool true) (i 2) (i 3)) (i 1))];
  [SReturn (EInfix TPlus (ETernary (EBool false) (i 2) (i 3)) (i 1))];
  [SReturn (ETernary (EInfix TEq (i 1) (i 2)) (EInfix TAsterisk (i 2) (i 3)) (EInfix TSlash (i 9) (i 3)))];
  (* switch (1 + 2) { case 3 {..} case 4, 2 * 2 {..} default {..} } *)
  [S_ (ESwitch (EInfix TPlus (i 1) (i 2))
         [(false, [i 3], [SReturn (i 1)]); (false, [i 4; EInfix TAsterisk (i 2) (i 2)], [SReturn (i 2)]);
          (true, [], [SReturn (EInfix TMinus (i 5) (i 2))])]);
   SReturn (i 0)];
  (* 3; while (2 * 2) { }   and   3; while (2 == 2) { return 7 } *)
  [S_ (i 3); S_ (EWhile (EInfix TAsterisk (i 2) (i 2)) []); SReturn (i 2)];
  [S_ (i 3); S_ (EWhile (EInfix TEq (i 2) (i 2)) [SReturn (i 7)]); SReturn (i 2)];
  (* if (1 == 1) {..} else {..}   and   if (1 != 1) {..} else {..} *)
  [S_ (EIf (EInfix TEq (i 1) (i 1)) [SReturn (i 1)] (Some [SReturn (i 2)]))];
  [S_ (EIf (EInfix TNotEq (i 1) (i 1)) [SReturn (i 1)] (Some [SReturn (i 2)]))];
  (* while (false) { f() while (y) { g() } } return 1 *)
  [S_ (EWhile (EBool false) [S_ (call "f" []); S_ (EWhile (id "y") [S_ (call "g" [])])]); SReturn (i 1)];
  [S_ (EIf (EBool false) [S_ (EIf (id "x") [S_ (call "f" [])] (Some [S_ (call "g" [])]))] None); S_ (call "h" [])];
  (* function f(a, b) { if (true) { return a + 2 * 5 } return b }  return f(1 + 1, 4) *)
  [S_ (EFunction (L "f") [L "a"; L "b"]
         [S_ (EIf (EBool true) [SReturn (EInfix TPlus (id "a") (EInfix TAsterisk (i 2) (i 5)))] None); SReturn (id "b")]);
   SReturn (call "f" [EInfix TPlus (i 1) (i 1); i 4])];
  (* x = 1 + 2 + 3; x += 2 * 2; return x *)
  [S_ (EAssign (L "x") (EInfix TPlus (EInfix TPlus (i 1) (i 2)) (i 3)));
   S_ (EInfix TPlusEq (id "x") (EInfix TAsterisk (i 2) (i 2))); SReturn (id "x")];
  (* if (false) { return 1 }   alone;   while (false) { }   alone *)
  [S_ (EIf (EBool false) [SReturn (i 1)] None)];
  [S_ (EWhile (EBool false) [])];
  (* nested constant conditions *)
  [S_ (EIf (EBool true)
         [S_ (EIf (EBool false) [SReturn (i 1)]
                 (Some [S_ (EWhile (EBool true) [SReturn (EInfix TPlus (i 40) (i 2))])]))] None);
   SReturn (i 0)];
  [S_ (ESwitch (id "x") [(false, [i 1], [S_ (call "a" [])]); (true, [], [S_ (call "b" [EInfix TPlus (i 1) (i 2)])])]);
   S_ (EForeach [] (L "v") (EInfix TDotDot (i 1) (EInfix TPlus (i 1) (i 2)))
         [S_ (EIf (EBool false) [S_ (call "z" [])] None)])];
  [S_ (EIf (EInfix TEq (EInfix TPlus (i 1) (i 2)) (EInfix TMinus (i 6) (i 3))) [SReturn (i 1)] None); SReturn (i 2)]
].

Example compiled_accepted : forallb accepted progs = true.
Proof. vm_compute. reflexivity. Qed.

Example compiled_rewritten :
  map rewritten progs =
  [true; true; true; false; false; true; true; true; true; true; true; true; true; true; true; true; true;
   true; true; true; true; true].
Proof. vm_compute. reflexivity. Qed.

(* D5 on compiler output: return 3 / √16 is refused, the unchecked optimizer folds it *)
Example compiled_sqrt_refused :
  match compile_program 1000 [SReturn (EInfix TSlash (i 3) (EPrefix TSqrt (i 16)))] with
  | CompOk pc =>
      match optimize_program pc, optimize_program_safe pc with
      | Some a, None => negb (code_eqb (pmain pc) (pmain a))
      | _, _ => false
      end
  | _ => false
  end = true.
Proof. vm_compute. reflexivity. Qed.

End CompiledExamples.

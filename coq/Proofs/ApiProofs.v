(* ApiProofs.v - the embedding API as a state machine (C07, C20): an
   evaluator never keeps an open scope between operations, a run depends
   only on the prepared program, the object, the functions, the context
   budget and the stored variables; SetVariable/GetVariable/Prepare.
   Complete proofs only; no axioms. *)
From Coq Require Import Floats Lia.
From EF Require Import Model.Base Gen.Tables Model.Lexer Model.Ast Model.Parser Model.Code Model.Value Model.Env Model.Reflect
                       Model.Compiler Model.Optimizer Model.VM Model.Api Spec.Moded.
From EF Require Import Proofs.EnvProofs.
Open Scope N_scope.

(* ------------------------------------------------------------------ *)
(* no open scope between operations *)

Lemma clean_initially : forall script, scopes (eenv (new_eval script)) = [].
Proof. reflexivity. Qed.

Lemma set_keeps_clean : forall e n v, scopes e = [] -> scopes (env_set e n v) = [].
Proof.
  intros e n v H. unfold env_set. rewrite H. cbn [local_get scopes]. reflexivity.
Qed.

Lemma prepare_clean : forall o e flag r e',
  scopes (eenv e) = [] -> prepare o e flag = (r, e') -> scopes (eenv e') = [].
Proof.
  intros o e flag r e' Hc H. unfold prepare in H.
  destruct (parse_script (parse_float o) max_depth (escript e)) as [ast| | |];
    try (injection H as _ <-; exact Hc).
  destruct (compile_program (4 * List.length (escript e) + 40) ast) as [pc| | |];
    try (injection H as _ <-; exact Hc).
  destruct (negb (well_moded ast)); [injection H as _ <-; exact Hc|].
  destruct (if match env_get (if flag then env_set (eenv e) optimize_var (VBool true)
                              else env_unset (eenv e) optimize_var)
                       optimize_var with Some _ => true | None => false end
            then optimize_program pc else Some pc) as [prog|];
    injection H as _ <-; [|exact Hc].
  cbn [eenv]. destruct flag; [apply set_keeps_clean|]; exact Hc.
Qed.

Lemma execute_clean : forall o fuel e obj r e',
  scopes (eenv e) = [] -> execute o fuel e obj = (r, e') -> scopes (eenv e') = [].
Proof.
  intros o fuel e obj r e' Hc H. apply execute_shape in H.
  destruct (emachine e) as [mc|].
  - destruct H as [m1 [-> Hm]]. cbn [eenv].
    destruct (run_main o (pconsts (mprog mc)) (pfuncs (mprog mc)) (efns e) obj fuel
                (pmain (mprog mc)) (mkM [] (eenv e) [] (mctx mc))) as [out m2] eqn:E.
    cbn [snd] in Hm. subst m2. eapply run_scope_balance. exact E.
  - subst e'. exact Hc.
Qed.

Lemma clean_preserved : forall o fuel e x r e',
  scopes (eenv e) = [] -> step o fuel e x = (r, e') -> scopes (eenv e') = [].
Proof.
  intros o fuel e x r e' Hc H. destruct x; cbn [step] in H.
  - injection H as _ <-. cbn [eenv]. apply set_keeps_clean. exact Hc.
  - injection H as _ <-. exact Hc.
  - injection H as _ <-. exact Hc.
  - destruct (prepare o e optimize) as [pr e1] eqn:E.
    apply prepare_clean in E; [|exact Hc].
    destruct pr; injection H as _ <-; exact E.
  - destruct (execute o fuel e obj) as [r1 e1] eqn:E.
    apply execute_clean in E; [|exact Hc].
    destruct r1; injection H as _ <-; exact E.
  - eapply execute_clean; eassumption.
  - injection H as _ <-. exact Hc.
  - injection H as _ <-. exact Hc.
Qed.

(* the state after a whole history *)
Fixpoint after (o : stdlib) (fuel : nat) (e : eval) (ops : list op) : eval :=
  match ops with
  | [] => e
  | x :: ops' => after o fuel (snd (step o fuel e x)) ops'
  end.

Lemma clean_after : forall o fuel ops e,
  scopes (eenv e) = [] -> scopes (eenv (after o fuel e ops)) = [].
Proof.
  intros o fuel. induction ops as [|x ops IH]; intros e Hc; cbn [after].
  - exact Hc.
  - apply IH. destruct (step o fuel e x) as [r e1] eqn:E. cbn [snd].
    eapply clean_preserved; eassumption.
Qed.

Lemma clean_after_any_history : forall o fuel script ops,
  scopes (eenv (after o fuel (new_eval script) ops)) = [].
Proof. intros. apply clean_after. apply clean_initially. Qed.

Lemma no_scope_growth : forall o fuel script ops,
  env_depth (eenv (after o fuel (new_eval script) ops)) = 0%nat.
Proof. intros. unfold env_depth. rewrite clean_after_any_history. reflexivity. Qed.

(* ------------------------------------------------------------------ *)
(* runs: what they keep, what they depend on *)

Lemma run_keeps_program : forall o fuel e obj r e',
  execute o fuel e obj = (r, e') ->
  escript e' = escript e /\ efns e' = efns e /\ ectx e' = ectx e /\
  match emachine e, emachine e' with
  | Some mc, Some mc' => mprog mc' = mprog mc
  | None, None => True
  | _, _ => False
  end.
Proof.
  intros o fuel e obj r e' H. apply execute_shape in H.
  destruct (emachine e) as [mc|] eqn:E.
  - destruct H as [m1 [-> _]]. repeat split.
  - subst e'. rewrite E. repeat split.
Qed.

Lemma history_independent : forall o fuel e1 e2 obj,
  scopes (eenv e1) = [] -> scopes (eenv e2) = [] ->
  globals (eenv e1) = globals (eenv e2) -> efns e1 = efns e2 -> emachine e1 = emachine e2 ->
  fst (execute o fuel e1 obj) = fst (execute o fuel e2 obj) /\
  globals (eenv (snd (execute o fuel e1 obj))) = globals (eenv (snd (execute o fuel e2 obj))).
Proof.
  intros o fuel e1 e2 obj H1 H2 Hg Hf Hm.
  assert (He : eenv e1 = eenv e2).
  { destruct (eenv e1) as [g1 s1], (eenv e2) as [g2 s2]. cbn [scopes globals] in *. subst.
    reflexivity. }
  unfold execute. rewrite <- Hm, <- Hf, <- He.
  destruct (emachine e1) as [mc|].
  - destruct (run_main o (pconsts (mprog mc)) (pfuncs (mprog mc)) (efns e1) obj fuel
                (pmain (mprog mc)) (mkM [] (eenv e1) [] (mctx mc))) as [out m1].
    destruct out as [v|x]; [|destruct x]; split; reflexivity.
  - cbn [fst snd]. rewrite He. split; reflexivity.
Qed.

(* ------------------------------------------------------------------ *)
(* C20: SetVariable / GetVariable *)

Lemma set_then_get : forall o fuel e name v e1,
  scopes (eenv e) = [] ->
  step o fuel e (OSetVar name v) = (RUnit, e1) ->
  fst (step o fuel e1 (OGetVar name)) = RGet v.
Proof.
  intros o fuel e name v e1 _ H. cbn [step] in H. injection H as <-.
  cbn [step fst eenv]. rewrite set_get_same. reflexivity.
Qed.

Lemma get_unset_is_null : forall o fuel script name,
  fst (step o fuel (new_eval script) (OGetVar name)) = RGet VNull.
Proof. reflexivity. Qed.

(* SetVariable stores the value under the name without its legacy `$`; the script reads it
   under the name as written, with or without the `$` *)
Lemma script_reads_variable : forall o obj e name v,
  scopes e = [] ->
  lookup o obj (env_set e (trim_dollar name) v) name = Ok v.
Proof.
  intros o obj e name v _. unfold lookup. rewrite set_get_same. reflexivity.
Qed.

(* the same through the API: after SetVariable name v the script reads v under that name *)
Lemma script_reads_set_variable : forall o fuel obj e name v e1,
  step o fuel e (OSetVar name v) = (RUnit, e1) ->
  lookup o obj (eenv e1) name = Ok v.
Proof.
  intros o fuel obj e name v e1 H. cbn [step] in H. injection H as <-.
  cbn [eenv]. unfold lookup. rewrite set_get_same. reflexivity.
Qed.

(* ------------------------------------------------------------------ *)
(* C20: Prepare *)

Definition prep_env (e : eval) (flag : bool) : env :=
  if flag then env_set (eenv e) optimize_var (VBool true) else env_unset (eenv e) optimize_var.

(* a removed global is gone; where no local holds the name it is unset *)
Lemma assoc_remove_get : forall n l, assoc_get n (assoc_remove n l) = None.
Proof.
  intros n. induction l as [|[k x] l IH]; cbn [assoc_remove assoc_get]; [reflexivity|].
  destruct (str_eqb k n) eqn:E; [exact IH|]. cbn [assoc_get]. rewrite E. exact IH.
Qed.

Lemma assoc_remove_absent : forall n l, assoc_get n l = None -> assoc_remove n l = l.
Proof.
  intros n. induction l as [|[k x] l IH]; cbn [assoc_remove assoc_get]; intro H; [reflexivity|].
  destruct (str_eqb k n); [discriminate H|]. rewrite (IH H). reflexivity.
Qed.

Lemma unset_get : forall e n, env_get (env_unset e n) n = local_get n (scopes e).
Proof.
  intros e n. unfold env_get, env_unset. cbn [scopes globals]. rewrite assoc_remove_get.
  destruct (local_get n (scopes e)); reflexivity.
Qed.

Lemma unset_get_clean : forall e n, scopes e = [] -> env_get (env_unset e n) n = None.
Proof. intros e n H. rewrite unset_get, H. reflexivity. Qed.

Lemma unset_absent : forall e n, env_get e n = None -> env_unset e n = e.
Proof.
  intros [g ss] n H. unfold env_get in H. cbn [scopes globals] in H.
  destruct (local_get n ss); [discriminate H|].
  unfold env_unset. cbn [scopes globals]. rewrite (assoc_remove_absent n g H). reflexivity.
Qed.

Lemma prepare_ok : forall o e flag u p e',
  prepare o e flag = (PrepOk u p, e') ->
  (exists ast, parse_script (parse_float o) max_depth (escript e) = ParseOk ast /\
               compile_program (4 * List.length (escript e) + 40) ast = CompOk u) /\
  (match env_get (prep_env e flag) optimize_var with
   | Some _ => optimize_program u
   | None => Some u
   end) = Some p /\
  e' = mkEval (escript e) (efns e) (prep_env e flag) (ectx e) (Some (mkMachine p (ectx e))).
Proof.
  intros o e flag u p e' H. unfold prepare in H. fold (prep_env e flag) in H.
  destruct (parse_script (parse_float o) max_depth (escript e)) as [ast| | |]; try discriminate.
  destruct (compile_program (4 * List.length (escript e) + 40) ast) as [pc| | |] eqn:Ec;
    try discriminate.
  destruct (negb (well_moded ast)); [discriminate|].
  destruct (env_get (prep_env e flag) optimize_var) as [w|].
  - destruct (optimize_program pc) as [prog|] eqn:Eo; [|discriminate].
    injection H as <- <- <-. split; [exists ast; split; [reflexivity|exact Ec]|].
    split; [exact Eo|reflexivity].
  - injection H as <- <- <-. split; [exists ast; split; [reflexivity|exact Ec]|].
    split; reflexivity.
Qed.

(* Prepare accepts only well-moded scripts: a construct that leaves no value is never
   used where a value is needed (evalfilter.go: checkModes).  `well_moded` stays folded:
   its fuel is never looked at. *)
Lemma prepare_ok_moded : forall o e flag u p e',
  prepare o e flag = (PrepOk u p, e') ->
  exists ast, parse_script (parse_float o) max_depth (escript e) = ParseOk ast /\
              compile_program (4 * List.length (escript e) + 40) ast = CompOk u /\
              well_moded ast = true.
Proof.
  intros o e flag u p e' H. unfold prepare in H.
  destruct (parse_script (parse_float o) max_depth (escript e)) as [ast| | |]; try discriminate.
  destruct (compile_program (4 * List.length (escript e) + 40) ast) as [pc| | |] eqn:Ec;
    try discriminate.
  destruct (well_moded ast) eqn:Ew; cbn [negb] in H; [|discriminate].
  exists ast. split; [reflexivity|]. split; [|exact Ew].
  match type of H with
  | (match ?x with _ => _ end) = _ => destruct x; [|discriminate]
  end.
  injection H as <- _ _. exact Ec.
Qed.

(* ... and what it rejects for that reason alone *)
Lemma prepare_rejects_ill_moded : forall o e flag ast pc,
  parse_script (parse_float o) max_depth (escript e) = ParseOk ast ->
  compile_program (4 * List.length (escript e) + 40) ast = CompOk pc ->
  well_moded ast = false ->
  prepare o e flag = (PrepReject, e).
Proof.
  intros o e flag ast pc Hp Hc Hw. unfold prepare. rewrite Hp, Hc, Hw. reflexivity.
Qed.

(* NoOptimize: the machine gets the compiled program itself, whatever the variables
   hold, as soon as no local scope holds the switch (none is open between operations) *)
Lemma nooptimize_only_local : forall o e u p e',
  prepare o e false = (PrepOk u p, e') -> local_get optimize_var (scopes (eenv e)) = None -> p = u.
Proof.
  intros o e u p e' H Hn. apply prepare_ok in H. destruct H as [_ [Hp _]].
  cbn [prep_env] in Hp. rewrite unset_get, Hn in Hp. injection Hp as <-. reflexivity.
Qed.

Lemma nooptimize_only : forall o e u p e',
  prepare o e false = (PrepOk u p, e') -> scopes (eenv e) = [] -> p = u.
Proof.
  intros o e u p e' H Hc. apply (nooptimize_only_local o e u p e' H). rewrite Hc. reflexivity.
Qed.

(* the variables it leaves: the OPTIMIZE switch removed, nothing else; none removed if it was unset *)
Lemma nooptimize_variables : forall o e u p e',
  prepare o e false = (PrepOk u p, e') -> eenv e' = env_unset (eenv e) optimize_var.
Proof. intros o e u p e' H. apply prepare_ok in H. destruct H as [_ [_ ->]]. reflexivity. Qed.

Lemma nooptimize_keeps_variables : forall o e u p e',
  env_get (eenv e) optimize_var = None ->
  prepare o e false = (PrepOk u p, e') -> p = u /\ eenv e' = eenv e.
Proof.
  intros o e u p e' Hn H. split.
  - apply (nooptimize_only_local o e u p e' H). unfold env_get in Hn.
    destruct (local_get optimize_var (scopes (eenv e))); [discriminate Hn|reflexivity].
  - rewrite (nooptimize_variables o e u p e' H). apply unset_absent. exact Hn.
Qed.

Lemma optimize_only : forall o e u p e',
  prepare o e true = (PrepOk u p, e') -> optimize_program u = Some p.
Proof.
  intros o e u p e' H. apply prepare_ok in H. destruct H as [_ [Hp _]].
  cbn [prep_env] in Hp. rewrite set_get_same in Hp. exact Hp.
Qed.

(* what the second Prepare sees of the state the first one left *)
Lemma prep_env_again : forall e flag p,
  env_get (prep_env (mkEval (escript e) (efns e) (prep_env e flag) (ectx e) p) flag) optimize_var =
  env_get (prep_env e flag) optimize_var.
Proof.
  intros e flag p. destruct flag; cbn [prep_env eenv].
  - rewrite !set_get_same. reflexivity.
  - rewrite !unset_get. reflexivity.
Qed.

Lemma prepare_idempotent : forall o e flag u p e1 u' p' e2,
  prepare o e flag = (PrepOk u p, e1) -> prepare o e1 flag = (PrepOk u' p', e2) ->
  u' = u /\ p' = p.
Proof.
  intros o e flag u p e1 u' p' e2 H1 H2.
  apply prepare_ok in H1. destruct H1 as [[ast [Ep Ec]] [Hp ->]].
  apply prepare_ok in H2. destruct H2 as [[ast' [Ep' Ec']] [Hp' _]].
  cbn [escript] in Ep', Ec'. rewrite Ep in Ep'. injection Ep' as <-.
  rewrite Ec in Ec'. injection Ec' as <-.
  rewrite prep_env_again in Hp'. rewrite Hp in Hp'. injection Hp' as <-.
  split; reflexivity.
Qed.

(* NoOptimize after an optimizing Prepare: the switch the first one left among the
   variables does not make the second one optimize *)
Lemma nooptimize_after_optimize : forall o e u1 p1 e1 u2 p2 e2,
  scopes (eenv e) = [] ->
  prepare o e true = (PrepOk u1 p1, e1) -> prepare o e1 false = (PrepOk u2 p2, e2) ->
  p2 = u2.
Proof.
  intros o e u1 p1 e1 u2 p2 e2 Hc H1 H2.
  apply (nooptimize_only o e1 u2 p2 e2 H2). exact (prepare_clean o e true _ e1 Hc H1).
Qed.

(* UnlexProofs.v - the whole-token-stream round trip
     lexable ts = true -> lex (unlex ts) = Some (ts ++ [EOF])
   and its variant with arbitrary layout between the tokens.
   Every lemma is proved outright, stdlib only. *)
From EF Require Import Model.Base Gen.Tables Model.Lexer Spec.LexSpec Spec.Unlex
  Proofs.LexerProofs.
From Coq Require Import Lia.
Open Scope N_scope.

Local Opaque is_letter is_udigit.

(* ------------------------------------------------------------------ *)
(* What may follow a spelled token: the end, or a white-space character. *)

Definition tail_ok (rest : str) : bool :=
  match rest with [] => true | c :: _ => is_whitespace c end.

Lemma is_whitespace_cases : forall c,
  is_whitespace c = true -> c = 32 \/ c = 9 \/ c = 10 \/ c = 13.
Proof.
  intros c H. unfold is_whitespace in H.
  repeat (apply orb_true_iff in H; destruct H as [H|H]);
    apply N.eqb_eq in H; auto.
Qed.

Lemma tail_ok_cases : forall rest,
  tail_ok rest = true ->
  rest = [] \/ exists c r, rest = c :: r /\ (c = 32 \/ c = 9 \/ c = 10 \/ c = 13).
Proof.
  intros [|c r] H; [left; reflexivity|right].
  exists c, r. split; [reflexivity|]. apply is_whitespace_cases. exact H.
Qed.

Lemma tail_ok_cur : forall rest,
  tail_ok rest = true ->
  cur rest = 0 \/ cur rest = 32 \/ cur rest = 9 \/ cur rest = 10 \/ cur rest = 13.
Proof.
  intros rest H. apply tail_ok_cases in H.
  destruct H as [H|(c & r & H & Hc)]; subst; simpl; tauto.
Qed.

(* ------------------------------------------------------------------ *)
(* Operators.                                                          *)

Lemma next_token_op : forall t rest prev,
  tclass_of t = COp -> ctx_ok prev t = true -> tail_ok rest = true ->
  next_token (op_text t ++ rest) prev = (mkTok t (op_text t), rest, t).
Proof.
  intros t rest prev Hc Hx Ht.
  destruct (tokty_eq_dec t TSlash) as [E|N1]; [subst t|].
  { simpl in Hx. apply slash_division; [assumption| |];
      apply tail_ok_cur in Ht; lia. }
  destruct (tokty_eq_dec t TSlashEq) as [E|N2]; [subst t|].
  { simpl in Hx. change (op_text TSlashEq ++ rest) with (47 :: 61 :: rest).
    rewrite next_token_eq, skip_trivia_none by reflexivity.
    rewrite nt_body_slash_div by assumption. reflexivity. }
  apply tail_ok_cases in Ht.
  destruct Ht as [Ht|(c & r & Ht & [Hw|[Hw|[Hw|Hw]]])]; subst;
    destruct t; try discriminate Hc; try congruence; reflexivity.
Qed.

Lemma next_token_zero : forall rest prev,
  tail_ok rest = true ->
  next_token (38 :: rest) prev = (mkTok TEmpty [], rest, TEmpty).
Proof.
  intros rest prev Ht. apply tail_ok_cases in Ht.
  destruct Ht as [Ht|(c & r & Ht & [Hw|[Hw|[Hw|Hw]]])]; subst; reflexivity.
Qed.

(* ------------------------------------------------------------------ *)
(* Identifiers and keywords.                                           *)

(* every code point that next_token tests before it reads an identifier,
   and the white-space characters *)
Definition specials : list N :=
  [0; 38; 124; 61; 59; 40; 41; 44; 46; 43; 37; 8730; 123; 125; 91; 93; 45; 47;
   42; 63; 58; 60; 62; 126; 33; 34; 39; 32; 9; 10; 13].

Lemma specials_not_identifier :
  forallb (fun k => negb (is_identifier k)) specials = true.
Proof. vm_compute. reflexivity. Qed.

Lemma identifier_not_special : forall c k,
  is_identifier c = true -> In k specials -> (c =? k) = false.
Proof.
  intros c k Hc Hk.
  pose proof specials_not_identifier as H.
  rewrite forallb_forall in H. specialize (H k Hk).
  apply negb_true_iff in H.
  apply N.eqb_neq. intros E. subst. congruence.
Qed.

Lemma tail_not_identifier : forall rest,
  tail_ok rest = true -> is_identifier (cur rest) = false.
Proof.
  intros rest H. apply tail_ok_cur in H.
  destruct H as [H|[H|[H|[H|H]]]]; rewrite H; vm_compute; reflexivity.
Qed.

Ltac in_specials := simpl; repeat (first [left; reflexivity | right]).

Lemma nt_body_identifier : forall c r prev,
  is_identifier c = true -> is_digit c = false ->
  nt_body (c :: r) prev =
  let '(id, r') := take_while is_identifier (c :: r) in
  match id with
  | [] => (mkTok TIllegal [], adv (c :: r), prev)
  | _ => (mkTok (lookup_ident id) id, r', lookup_ident id)
  end.
Proof.
  intros c r prev Hi Hd.
  pose proof (fun k => identifier_not_special c k Hi) as Hk.
  unfold nt_body. cbn [cur].
  rewrite !Hk by in_specials.
  cbn [orb]. rewrite Hd. reflexivity.
Qed.

Lemma skip_trivia_identifier : forall f c r,
  is_identifier c = true -> skip_trivia f (c :: r) = c :: r.
Proof.
  intros f c r Hi.
  pose proof (fun k => identifier_not_special c k Hi) as Hk.
  apply skip_trivia_none.
  - unfold is_whitespace. rewrite !Hk by in_specials. reflexivity.
  - rewrite Hk by in_specials. reflexivity.
Qed.

Lemma next_token_word : forall s rest prev,
  ident_shaped s = true -> tail_ok rest = true ->
  next_token (s ++ rest) prev = (mkTok (lookup_ident s) s, rest, lookup_ident s).
Proof.
  intros s rest prev Hs Ht.
  destruct s as [|c s]; [discriminate|].
  unfold ident_shaped in Hs. apply andb_true_iff in Hs. destruct Hs as [Hd Hall].
  apply negb_true_iff in Hd.
  assert (Hc : is_identifier c = true).
  { simpl in Hall. apply andb_true_iff in Hall. tauto. }
  rewrite next_token_eq. change ((c :: s) ++ rest) with (c :: (s ++ rest)).
  rewrite skip_trivia_identifier by assumption.
  rewrite nt_body_identifier by assumption.
  change (c :: (s ++ rest)) with ((c :: s) ++ rest).
  rewrite take_while_app; [reflexivity|assumption|].
  apply tail_not_identifier; assumption.
Qed.

Lemma str_eqb_eq : forall a b, str_eqb a b = true -> a = b.
Proof.
  induction a as [|x a IH]; intros [|y b] H; simpl in H; try discriminate; [reflexivity|].
  apply andb_true_iff in H. destruct H as [H1 H2].
  apply N.eqb_eq in H1. subst. f_equal. auto.
Qed.

Lemma assoc_str_none : forall (A : Type) k (l : list (str * A)),
  mem_str k (map fst l) = false -> assoc_str k l = None.
Proof.
  induction l as [|[k' v] l IH]; simpl; intros H; [reflexivity|].
  apply orb_false_iff in H. destruct H as [H1 H2]. rewrite H1. auto.
Qed.

Lemma keywords_table : keywords = map fst keyword_table.
Proof. vm_compute. reflexivity. Qed.

Lemma lookup_non_keyword : forall s,
  mem_str s keywords = false -> lookup_ident s = TIdent.
Proof.
  intros s H. unfold lookup_ident. rewrite keywords_table in H.
  rewrite assoc_str_none by assumption. reflexivity.
Qed.

Lemma lookup_keyword : forall t k,
  keyword_text t = Some k -> lookup_ident k = t /\ ident_shaped k = true.
Proof.
  intros t k H. destruct t; try discriminate H; inversion H; subst;
    vm_compute; split; reflexivity.
Qed.

(* a word token: identifier-shaped text whose keyword lookup gives its type *)
Lemma word_ok : forall ty s,
  tclass_of ty = CWord ->
  match keyword_text ty with
  | Some k => str_eqb s k
  | None => ident_shaped s && negb (mem_str s keywords)
  end = true ->
  ident_shaped s = true /\ lookup_ident s = ty.
Proof.
  intros ty s Hc H. destruct (keyword_text ty) as [k|] eqn:Ek.
  - apply str_eqb_eq in H. subst s. apply lookup_keyword in Ek. tauto.
  - apply andb_true_iff in H. destruct H as [H1 H2]. apply negb_true_iff in H2.
    split; [assumption|]. rewrite lookup_non_keyword by assumption.
    destruct ty; try discriminate Hc; try discriminate Ek; reflexivity.
Qed.

(* ------------------------------------------------------------------ *)
(* Numbers.                                                            *)

Lemma tail_not_digit : forall rest,
  tail_ok rest = true -> is_digit (cur rest) = false /\ (cur rest =? 46) = false.
Proof.
  intros rest H. apply tail_ok_cur in H.
  destruct H as [H|[H|[H|[H|H]]]]; rewrite H; split; reflexivity.
Qed.

Lemma is_nil_false : forall (A : Type) (l : list A), negb (is_nil l) = true -> l <> [].
Proof. intros A [|x l] H; [discriminate|congruence]. Qed.

Lemma next_token_int_tail : forall s rest prev,
  negb (is_nil s) && all_digits s = true -> tail_ok rest = true ->
  next_token (s ++ rest) prev = (mkTok TInt s, rest, TInt).
Proof.
  intros s rest prev H Ht. apply andb_true_iff in H. destruct H as [Hn Hd].
  apply is_nil_false in Hn. apply tail_not_digit in Ht. destruct Ht as [T1 T2].
  apply next_token_int; auto. rewrite T2. reflexivity.
Qed.

Lemma take_while_spec : forall p l a r,
  take_while p l = (a, r) -> l = a ++ r /\ forallb p a = true.
Proof.
  induction l as [|c l IH]; simpl; intros a r H.
  - inversion H; subst. split; reflexivity.
  - destruct (p c) eqn:Ec.
    + destruct (take_while p l) as [a' r'] eqn:E. inversion H; subst.
      destruct (IH a' r eq_refl) as [I1 I2]. subst l. simpl. rewrite Ec, I2.
      split; reflexivity.
    + inversion H; subst. split; reflexivity.
Qed.

Lemma float_shaped_split : forall s,
  float_shaped s = true ->
  exists a b, s = a ++ [46] ++ b /\ a <> [] /\ b <> [] /\
              all_digits a = true /\ all_digits b = true.
Proof.
  intros s H. unfold float_shaped in H.
  destruct (take_while is_digit s) as [a r] eqn:E.
  apply take_while_spec in E. destruct E as [E1 E2].
  destruct r as [|d b]; [discriminate|].
  apply andb_true_iff in H. destruct H as [H H3].
  apply andb_true_iff in H. destruct H as [H H2].
  apply andb_true_iff in H. destruct H as [Hd H1].
  apply N.eqb_eq in Hd. subst d.
  apply is_nil_false in H1, H2.
  exists a, b. repeat split; assumption.
Qed.

Lemma next_token_float_tail : forall s rest prev,
  float_shaped s = true -> tail_ok rest = true ->
  next_token (s ++ rest) prev = (mkTok TFloat s, rest, TFloat).
Proof.
  intros s rest prev H Ht. apply float_shaped_split in H.
  destruct H as (a & b & Hs & Ha & Hb & Hda & Hdb). subst s.
  apply tail_not_digit in Ht. destruct Ht as [T1 _].
  rewrite <- app_assoc. cbn [app].
  apply next_token_float; assumption.
Qed.

(* ------------------------------------------------------------------ *)
(* Strings and regexps.                                                *)

Lemma next_token_string : forall q s rest prev,
  is_quote q = true ->
  next_token (quote q s ++ rest) prev = (mkTok TString s, rest, TString).
Proof.
  intros q s rest prev Hq. unfold quote.
  cbn [app]. rewrite <- app_assoc. cbn [app].
  rewrite next_token_eq, skip_trivia_quote, nt_body_quote by assumption.
  rewrite read_string_quote_body; auto.
  cbn [List.length]. rewrite app_length. simpl. lia.
Qed.

Lemma tail_no_flags : forall rest,
  tail_ok rest = true -> collect_flags rest [] = ([], rest).
Proof.
  intros rest H. apply tail_ok_cases in H.
  destruct H as [H|(c & r & H & [Hw|[Hw|[Hw|Hw]]])]; subst; [reflexivity| | | |];
    cbn [collect_flags];
    match goal with |- context [is_letter ?k] =>
      replace (is_letter k) with false by (vm_compute; reflexivity) end;
    reflexivity.
Qed.

Lemma next_token_regexp : forall s rest prev,
  slash_is_division prev = false -> s <> [] ->
  tail_ok rest = true ->
  next_token (re_lit s ++ rest) prev = (mkTok TRegexp s, rest, prev).
Proof.
  intros s rest prev Hp Hn Ht. unfold re_lit.
  cbn [app]. rewrite <- app_assoc. cbn [app].
  rewrite next_token_eq.
  rewrite skip_trivia_none;
    [| reflexivity | rewrite re_body_head by assumption; reflexivity].
  rewrite nt_body_slash_re by assumption.
  rewrite read_regexp_re_body;
    [| cbn [List.length]; rewrite app_length; simpl; lia].
  rewrite read_regexp_S.
  change (47 =? 47) with true. cbv iota.
  rewrite tail_no_flags by assumption. cbv iota zeta.
  change (flags_ok []) with true. cbv iota.
  rewrite app_nil_r, rev_involutive. reflexivity.
Qed.

(* ------------------------------------------------------------------ *)
(* One token.                                                          *)

Lemma next_prev_not_regexp : forall prev t,
  tclass_of t <> CRegexp -> next_prev prev t = t.
Proof. intros prev t H. destruct t; try reflexivity. elim H. reflexivity. Qed.

Lemma next_token_spell : forall t rest prev,
  tok_ok prev t = true -> tail_ok rest = true ->
  next_token (spell t ++ rest) prev = (t, rest, next_prev prev (tty t)).
Proof.
  intros [ty s] rest prev H Ht. unfold tok_ok in H.
  apply andb_true_iff in H. destruct H as [Hl Hx].
  unfold lit_ok, spell in *. cbn [tty tlit] in *.
  destruct (tclass_of ty) eqn:Ec.
  - (* word *)
    rewrite next_prev_not_regexp by congruence.
    apply word_ok in Hl; [|assumption]. destruct Hl as [H1 H2].
    rewrite next_token_word by assumption. rewrite H2. reflexivity.
  - (* operator *)
    rewrite next_prev_not_regexp by congruence.
    apply str_eqb_eq in Hl. subst s. apply next_token_op; assumption.
  - (* int *)
    assert (ty = TInt) by (destruct ty; try discriminate Ec; reflexivity). subst ty.
    apply next_token_int_tail; assumption.
  - (* float *)
    assert (ty = TFloat) by (destruct ty; try discriminate Ec; reflexivity). subst ty.
    apply next_token_float_tail; assumption.
  - (* string *)
    assert (ty = TString) by (destruct ty; try discriminate Ec; reflexivity). subst ty.
    apply next_token_string; reflexivity.
  - (* regexp *)
    assert (ty = TRegexp) by (destruct ty; try discriminate Ec; reflexivity). subst ty.
    apply is_nil_false in Hl.
    cbn [ctx_ok next_prev] in *. apply negb_true_iff in Hx.
    apply next_token_regexp; assumption.
  - (* the zero token *)
    assert (ty = TEmpty) by (destruct ty; try discriminate Ec; reflexivity). subst ty.
    destruct s; [|discriminate]. apply next_token_zero; assumption.
  - discriminate.
Qed.

(* ------------------------------------------------------------------ *)
(* Layout in front of a token.                                         *)

Lemma next_token_render : forall ps l prev,
  layout_ok ps = true -> next_token (render ps ++ l) prev = next_token l prev.
Proof.
  induction ps as [|[c|b] ps IH]; intros l prev H; [reflexivity| |];
    unfold layout_ok in H; cbn [forallb piece_ok] in H;
    apply andb_true_iff in H; destruct H as [H1 H2];
    unfold render; cbn [flat_map render_piece]; fold (render ps).
  - rewrite <- app_assoc. rewrite leading_layout by (cbn [forallb]; rewrite H1; reflexivity).
    apply IH; assumption.
  - cbn [app]. rewrite <- !app_assoc. cbn [app].
    rewrite leading_comment by assumption. apply IH; assumption.
Qed.

Lemma lex_all_render : forall f ps l prev,
  layout_ok ps = true -> lex_all f (render ps ++ l) prev = lex_all f l prev.
Proof.
  intros [|f] ps l prev H; [reflexivity|].
  rewrite !lex_all_S, next_token_render by assumption. reflexivity.
Qed.

(* ------------------------------------------------------------------ *)
(* Token streams: the texts that spell a token list with layout.       *)

Inductive stream : tokty -> list token -> str -> Prop :=
| st_nil : forall prev, stream prev [] []
| st_layout : forall prev ts ps s,
    layout_ok ps = true -> stream prev ts s -> stream prev ts (render ps ++ s)
| st_cons : forall prev t ts rest,
    tok_ok prev t = true -> tail_ok rest = true ->
    stream (next_prev prev (tty t)) ts rest ->
    stream prev (t :: ts) (spell t ++ rest).

Lemma tok_ok_not_eof : forall prev t, tok_ok prev t = true -> tty t <> TEOF.
Proof.
  intros prev [ty s] H E. cbn [tty] in E. subst ty.
  unfold tok_ok, lit_ok in H. cbn in H. discriminate.
Qed.

Lemma lex_all_stream : forall prev ts s,
  stream prev ts s ->
  forall f, (List.length s < f)%nat -> lex_all f s prev = Some (ts ++ [mkTok TEOF []]).
Proof.
  induction 1 as [prev | prev ts ps s Hl Hs IH | prev t ts rest Hk Ht Hs IH]; intros f Hf.
  - destruct f; [lia|]. reflexivity.
  - rewrite lex_all_render by assumption. apply IH.
    rewrite app_length in Hf. lia.
  - destruct f; [lia|].
    pose proof (next_token_spell t rest prev Hk Ht) as Hn.
    pose proof (tok_ok_not_eof prev t Hk) as He.
    cbn [app]. eapply lex_all_cons; [exact Hn | exact He |].
    apply IH. apply next_token_length in Hn. destruct Hn as [Hn|Hn]; [lia|contradiction].
Qed.

(* ------------------------------------------------------------------ *)
(* The spellings are streams.                                          *)

Lemma sep_ok_layout : forall s, sep_ok s = true -> layout_ok s = true.
Proof. intros [|[c|b] s] H; try discriminate. exact H. Qed.

Lemma sep_ok_tail : forall s x, sep_ok s = true -> tail_ok (render s ++ x) = true.
Proof.
  intros [|[c|b] s] x H; try discriminate.
  unfold sep_ok, layout_ok in H. cbn [forallb piece_ok] in H.
  apply andb_true_iff in H. destruct H as [H _]. exact H.
Qed.

Lemma join_cons2 : forall sep (x y : str) l,
  join sep (x :: y :: l) = x ++ sep ++ join sep (y :: l).
Proof. reflexivity. Qed.

Lemma stream_unlex_sep : forall sep ts prev,
  sep_ok sep = true -> lexable_from prev ts = true ->
  stream prev ts (unlex_sep sep ts).
Proof.
  intros sep ts. induction ts as [|t ts IH]; intros prev Hsep H.
  - apply st_nil.
  - cbn [lexable_from] in H. apply andb_true_iff in H. destruct H as [Hk Hr].
    destruct ts as [|t' ts'].
    + unfold unlex_sep. cbn [map join].
      rewrite <- (app_nil_r (spell t)).
      apply st_cons; [assumption|reflexivity|apply st_nil].
    + unfold unlex_sep. cbn [map]. rewrite join_cons2.
      apply st_cons; [assumption|apply sep_ok_tail; assumption|].
      apply st_layout; [apply sep_ok_layout; assumption|].
      apply (IH _ Hsep Hr).
Qed.

Lemma stream_unlex_layout : forall tl prev,
  seps_ok tl = true -> lexable_from prev (map fst tl) = true ->
  stream prev (map fst tl) (unlex_layout tl).
Proof.
  induction tl as [|[t s] tl IH]; intros prev Hs H.
  - apply st_nil.
  - cbn [map fst lexable_from] in H. apply andb_true_iff in H. destruct H as [Hk Hr].
    cbn [map fst unlex_layout].
    assert (Hsl : layout_ok s = true /\ tail_ok (render s ++ unlex_layout tl) = true /\
                  seps_ok tl = true).
    { cbn [seps_ok] in Hs. destruct tl as [|p tl'].
      - apply orb_true_iff in Hs. destruct Hs as [Hs|Hs].
        + destruct s; [|discriminate]. split; [|split]; reflexivity.
        + split; [|split]; [apply sep_ok_layout|apply sep_ok_tail|]; auto.
      - apply andb_true_iff in Hs. destruct Hs as [Hs1 Hs2].
        split; [|split]; [apply sep_ok_layout|apply sep_ok_tail|]; auto. }
    destruct Hsl as (H1 & H2 & H3).
    apply st_cons; [assumption|assumption|].
    apply st_layout; [assumption|]. apply IH; assumption.
Qed.

(* ------------------------------------------------------------------ *)
(* The round trip.                                                     *)

Theorem lex_unlex_sep : forall sep ts,
  sep_ok sep = true -> lexable ts = true ->
  lex (unlex_sep sep ts) = Some (ts ++ [mkTok TEOF []]).
Proof.
  intros sep ts Hsep H. unfold lex.
  apply lex_all_stream; [|lia]. apply stream_unlex_sep; assumption.
Qed.

Theorem lex_unlex : forall ts,
  lexable ts = true -> lex (unlex ts) = Some (ts ++ [mkTok TEOF []]).
Proof. intros ts H. apply (lex_unlex_sep [Ws 32] ts eq_refl H). Qed.

Theorem lex_unlex_nl : forall ts,
  lexable ts = true -> lex (unlex_nl ts) = Some (ts ++ [mkTok TEOF []]).
Proof. intros ts H. apply (lex_unlex_sep [Ws 10] ts eq_refl H). Qed.

(* Arbitrary layout: any block of white space and comments before the first
   token, a block starting with a white-space character after every token
   (the one after the last token may be empty). *)
Theorem lex_unlex_layout : forall pre tl,
  layout_ok pre = true -> seps_ok tl = true -> lexable (map fst tl) = true ->
  lex (render pre ++ unlex_layout tl) = Some (map fst tl ++ [mkTok TEOF []]).
Proof.
  intros pre tl Hp Hs H. unfold lex.
  apply lex_all_stream; [|lia].
  apply st_layout; [assumption|]. apply stream_unlex_layout; assumption.
Qed.

(* Consequently the tokens do not depend on the layout chosen. *)
Corollary lex_layout_irrelevant : forall pre tl,
  layout_ok pre = true -> seps_ok tl = true -> lexable (map fst tl) = true ->
  lex (render pre ++ unlex_layout tl) = lex (unlex (map fst tl)).
Proof.
  intros pre tl Hp Hs H.
  rewrite lex_unlex_layout, lex_unlex by assumption. reflexivity.
Qed.

(* ------------------------------------------------------------------ *)
(* Non-vacuity: a token list with every token type the lexer can emit
   except TIllegal / TEOF.                                             *)

Definition op (t : tokty) : token := mkTok t (tokty_name t).
Definition kw (t : tokty) (s : string) : token := mkTok t (L s).

Definition ex_all : list token :=
  [ mkTok TRegexp (L "a/b\c"); mkTok TRegexp (L "(?i)^x+$");
    mkTok TIdent (L "x"); op TSlash; mkTok TInt (L "12"); op TSlashEq;
    mkTok TFloat (L "3.25"); op TSlash; op TLParen; mkTok TRegexp (L "/");
    mkTok TRegexp [92]; op TRParen; op TSlash;
    mkTok TString (L "he said ""hi"" \ 'x'" ++ [10; 9; 955]);
    mkTok TString [];
    op TAnd; op TAssign; op TAsterisk; op TAsteriskEq; op TBang; op TColon;
    op TComma; op TContains; op TDotDot; op TEq; op TGt; op TGtEq; op TLBrace;
    op TLParen; op TLSquare; op TLt; op TLtEq; op TMinus; op TMinus;
    op TMinusEq; op TMinusMinus; op TMissing; op TMod; op TNotEq; op TOr;
    op TPeriod; op TPeriod; op TPlus; op TPlus; op TPlusPlus; op TPlusEq;
    op TPow; op TQuestion; op TRBrace; op TRParen; op TRSquare; op TSlash;
    op TSemicolon; op TSqrt;
    kw TCase "case"; kw TDefault "default"; kw TElse "else"; kw TFalse "false";
    kw TFor "for"; kw TForeach "foreach"; kw TFunction "function"; kw TIf "if";
    kw TIn "in"; kw TLocal "local"; kw TReturn "return"; kw TSwitch "switch";
    kw TTrue "true"; kw TWhile "while";
    mkTok TIdent (L "$_aZ09"); mkTok TIdent [955; 1637]; mkTok TIdent [1637; 48];
    mkTok TIdent (L "iff"); mkTok TIdent (L "True");
    mkTok TInt (L "1"); op TDotDot; mkTok TInt (L "5");
    mkTok TInt (L "1"); op TPeriod; mkTok TInt (L "5");
    mkTok TFloat (L "007.50"); op TPeriod; mkTok TInt (L "0");
    mkTok TEmpty []; mkTok TRegexp (L "r"); mkTok TEmpty [] ].

Example ex_all_lexable : lexable ex_all = true.
Proof. vm_compute. reflexivity. Qed.

Example ex_all_roundtrip : lex (unlex ex_all) = Some (ex_all ++ [mkTok TEOF []]).
Proof. vm_compute. reflexivity. Qed.

Example ex_all_roundtrip_nl : lex (unlex_nl ex_all) = Some (ex_all ++ [mkTok TEOF []]).
Proof. vm_compute. reflexivity. Qed.

(* every token type except TEOF and TIllegal occurs *)
Example ex_all_covers :
  forallb (fun t => tokty_beq t TEOF || tokty_beq t TIllegal ||
                    existsb (fun k => tokty_beq t (tty k)) ex_all) all_tokty = true.
Proof. vm_compute. reflexivity. Qed.

Definition ex_sep : list piece :=
  [Ws 9; Cm (L "a comment / with ""quotes"""); Ws 32; Cm []; Cm (L "/"); Ws 13; Ws 10].

Example ex_all_roundtrip_sep :
  sep_ok ex_sep = true /\
  lex (unlex_sep ex_sep ex_all) = Some (ex_all ++ [mkTok TEOF []]).
Proof. vm_compute. split; reflexivity. Qed.

(* lexable is not too weak: the context conditions are needed *)
Example ex_ctx_1 :   (* x /a/  is  x / a / *)
  lex (unlex [mkTok TIdent (L "x"); mkTok TRegexp (L "a")]) =
  Some [mkTok TIdent (L "x"); op TSlash; mkTok TIdent (L "a"); op TSlash; mkTok TEOF []].
Proof. vm_compute. reflexivity. Qed.
Example ex_ctx_2 :   (* ( / 2 / 3  has a regexp *)
  lex (unlex [op TLParen; op TSlash; mkTok TInt (L "2"); op TSlash; mkTok TInt (L "3")]) =
  Some [op TLParen; mkTok TRegexp (L " 2 "); mkTok TInt (L "3"); mkTok TEOF []].
Proof. vm_compute. reflexivity. Qed.
Example ex_ctx_3 :   (* a regexp does not update prevToken: ( /a/ / 2 *)
  lex (unlex [op TLParen; mkTok TRegexp (L "a"); op TSlash; mkTok TInt (L "2")]) =
  Some [op TLParen; mkTok TRegexp (L "a"); mkTok TIllegal []; mkTok TEOF []].
Proof. vm_compute. reflexivity. Qed.
Example ex_ctx_4 :   (* x /a/ after an identifier, then regexp position stays division *)
  lexable [mkTok TIdent (L "x"); mkTok TRegexp (L "a")] = false /\
  lexable [op TLParen; op TSlash] = false /\
  lexable [op TLParen; mkTok TRegexp (L "a"); op TSlash] = false /\
  lexable [mkTok TRegexp []] = false /\
  lexable [mkTok TIdent (L "if")] = false /\
  lexable [mkTok TIdent (L "1a")] = false /\
  lexable [mkTok TFloat (L "1.")] = false /\
  lexable [mkTok TFloat (L ".5")] = false /\
  lexable [mkTok TFloat (L "1.2.3")] = false /\
  lexable [mkTok TInt []] = false.
Proof. vm_compute. repeat split; reflexivity. Qed.

(* the layout theorem's hypotheses are satisfiable, and what it states holds
   by computation as well *)
Definition ex_layout : list (token * list piece) :=
  [ (op TLParen, [Ws 10; Cm (L " regexp position")]);
    (mkTok TRegexp (L "a b"), [Ws 32; Ws 9]);
    (op TRParen, [Ws 13; Cm []; Cm (L "x"); Ws 32]);
    (op TSlash, [Ws 32; Cm (L "/ division")]);
    (mkTok TFloat (L "2.0"), [Ws 10]);
    (mkTok TString (L "s"), []) ].

Example ex_layout_ok :
  seps_ok ex_layout = true /\ lexable (map fst ex_layout) = true /\
  lex (render [Cm (L "head"); Ws 32] ++ unlex_layout ex_layout) =
  Some (map fst ex_layout ++ [mkTok TEOF []]).
Proof. vm_compute. repeat split; reflexivity. Qed.

(* a separator must start with white space: "/" directly followed by a
   comment is a longer comment *)
Example ex_sep_comment_first :
  lex (unlex_layout [ (mkTok TIdent (L "x"), [Ws 32]); (op TSlash, [Cm (L "c")]);
                      (mkTok TInt (L "2"), []) ]) =
  Some [mkTok TIdent (L "x"); mkTok TInt (L "2"); mkTok TEOF []].
Proof. vm_compute. reflexivity. Qed.

(* the character 0 is an ordinary character inside string literals, regexp
   literals and comments: such tokens are lexable and round-trip, written
   plainly or (in a regexp) after a backslash *)
Example ex_regexp_nul :
  lex [47; 92; 0; 47] = Some [mkTok TRegexp [0]; mkTok TEOF []] /\
  lexable [mkTok TRegexp [0]] = true /\
  lex (unlex [mkTok TRegexp [0]]) = Some [mkTok TRegexp [0]; mkTok TEOF []].
Proof. vm_compute. repeat split; reflexivity. Qed.

Example ex_nul_roundtrip :
  let ts := [op TLParen; mkTok TRegexp [97; 0; 98]; mkTok TString [0]; mkTok TString [97; 0; 98]] in
  lexable ts = true /\
  lex (unlex ts) = Some (ts ++ [mkTok TEOF []]) /\
  sep_ok [Ws 32; Cm [99; 0; 100]] = true /\
  lex (unlex_sep [Ws 32; Cm [99; 0; 100]] ts) = Some (ts ++ [mkTok TEOF []]).
Proof. vm_compute. repeat split; reflexivity. Qed.

(* where a token starts the character 0 is still illegal, so it cannot be
   part of an identifier or of a layout block *)
Example ex_nul_token_start :
  lexable [mkTok TIdent [97; 0]] = false /\
  layout_ok [Ws 0] = false /\
  lex [97; 0; 98] = Some [mkTok TIdent [97]; mkTok TIllegal []; mkTok TIdent [98]; mkTok TEOF []].
Proof. vm_compute. repeat split; reflexivity. Qed.

#!/usr/bin/env python3
# run every stored independent seed against the check of the property it breaks (current generators, current tree)
import os, json, subprocess, sys
slot, part, nparts = sys.argv[1], int(sys.argv[2]), int(sys.argv[3])
names = sorted(n for n in os.listdir("/verif/seeded") if "agent" in n)
names = [n for i, n in enumerate(names) if i % nparts == part]
for n in names:
    d = "/verif/seeded/" + n
    try:
        prop = json.load(open(d + "/meta.json"))["property_broken"]
    except Exception as e:
        print(n, "NO-META", e, flush=True); continue
    p = subprocess.run([sys.executable, "/verif/tools/seedtest.py", d + "/patch.diff", prop, "--slot", slot], capture_output=True, text=True, errors="replace", timeout=3600)
    lines = [l for l in p.stdout.splitlines() if not l.startswith("WARNING")]
    res = "?"
    for l in lines:
        if l.startswith("PATCH-FAILED"): res = "PATCH-FAILED"
        parts = l.split()
        if parts and parts[0] == prop and len(parts) > 2 and parts[2].startswith("VIOLATIONS="):
            res = "caught" if int(parts[2].split("=")[1]) > 0 else "MISSED"
    suite = [l for l in lines if l.startswith("suite:")]
    print(n, prop, res, (suite[0][:40] if suite else ""), flush=True)
print("PART-DONE", flush=True)

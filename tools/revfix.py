#!/usr/bin/env python3
"""Reverse each `fix:` commit of /repo on a scratch copy (never /repo itself), confirm that the pinned suite still
passes with the defect back, run the checks of the properties it concerns, and store the result under
/verif/seeded/revfix-<D>/ (patch.diff, meta.json).  usage: revfix.py [--slot N] [<D> ...]"""
import sys, os, subprocess, json
FIXES = [
    ("D11", "7a54148", "C14", ["C14", "C13"]), ("D4", "f3d40b0", "C03", ["C03", "C18", "C02"]), ("D2", "def2619", "C05", ["C05"]),
    ("D1", "99f1e99", "C16", ["C16", "C01"]), ("D3", "8ba320d", "C05", ["C05", "C01"]), ("D7", "5f1f273", "C15", ["C15", "C07"]),
    ("D8", "5079310", "C07", ["C07", "C06", "C08"]), ("D9", "17a6bf3", "C13", ["C13"]), ("D12", "e7252ba", "C04", ["C04", "C08", "C20"]),
    ("D20", "fb98c89", "C12", ["C12"]), ("D10", "78ace3b", "C13", ["C13"]), ("D17", "9c27080", "C18", ["C18", "C06"]),
    ("D13", "d8a275d", "C11", ["C11"]), ("D15", "dc837bf", "C19", ["C19", "C16"]), ("D16", "ebf7378", "C02", ["C02", "C16"]),
    ("D6", "0c49052", "C17", ["C17"]), ("D18", "f840d3d", "C18", ["C18"]), ("D21", "35e88fd", "C08", ["C08"]),
    ("D25", "c44c408", "C20", ["C20", "C19"]), ("D27", "02e0e1a", "C04", ["C04"]), ("D29", "f8623bd", "C08", ["C08"]),
    ("D26", "83c5ae9", "C06", ["C06"]), ("D28", "3228927", "C08", ["C08"]), ("D30", "ce45afe", "C02", ["C02", "C16"]), ("D31", "e6ee878", "C04", ["C04"]), ("D32", "dc7d07b", "C08", ["C08", "C20"]), ("D33", "6d23e96", "C08", ["C08"]), ("D34", "fa20f7a", "C19", ["C19"]), ("D35", "d457ac3", "C19", ["C19"]),
    ("D36", "2a1e787", "C17", ["C17"]), ("D37", "162df6d", "C20", ["C20"]), ("D19", "2e754e3", "C18", ["C18", "C13"]),
    ("D39", "ce93d50", "C13", ["C13"]), ("D40", "f4e0af0:ce93d50", "C16", ["C16", "C02"]), ("D41", "f4e0af0", "C02", ["C02"]), ("D42", "a5d0f5e", "C14", ["C14"]), ("D45", "ae10224", "C14", ["C14", "C13"]), ("D44", "b7b5021", "C20", ["C20", "C15"]), ("D43", "2d34843", "C12", ["C12"]), ("D47", "bbd5020", "C16", ["C16"]), ("D48", "eff3d34", "C16", ["C16"]), ("D39b", "074eb98", "C13", ["C13"]),
]
args = [a for a in sys.argv[1:] if not a.startswith("--")]
slot = "7"
if "--slot" in sys.argv:
    slot = sys.argv[sys.argv.index("--slot") + 1]
    args.remove(slot)
for (d, commit, prop, checks) in FIXES:
    if args and d not in args:
        continue
    dst = "/verif/seeded/revfix-%s" % d
    os.makedirs(dst, exist_ok=True)
    frm, to = (commit.split(":") + [None])[:2] if ":" in commit else (commit, commit + "^")      # "A:B" = several fix commits at once
    diff = subprocess.run(["git", "-C", "/repo", "diff", frm, to, "--", ".", ":!*_test.go"], capture_output=True, text=True).stdout
    commit = frm
    open(os.path.join(dst, "patch.diff"), "w").write(diff)
    subject = subprocess.run(["git", "-C", "/repo", "log", "-1", "--format=%s", commit], capture_output=True, text=True).stdout.strip()
    p = subprocess.run([sys.executable, "/verif/tools/seedtest.py", os.path.join(dst, "patch.diff")] + checks + ["--slot", slot], capture_output=True, text=True, timeout=7200)
    lines = [l for l in p.stdout.splitlines() if not l.startswith("WARNING")]
    res, suite = {}, ""
    for l in lines:
        parts = l.split()
        if l.startswith("suite:"):
            suite = l[6:].strip()[:300]
        if l.startswith("PATCH-FAILED"):
            suite = "the reverse patch no longer applies on top of later fixes: " + l[:200]
        if parts and parts[0] in checks and len(parts) > 2 and parts[2].startswith("VIOLATIONS="):
            res[parts[0]] = dict(violations=int(parts[2].split("=")[1]), line=l[:400])
    meta = dict(property_broken=prop, source="reverse of fix commit %s (%s): the repaired defect %s put back" % (commit, subject, d),
                needs_to_manifest="see the commit message and DESIGN.md section 7 (%s)" % d,
                confirmation=dict(suite_with_change=suite, checks_run=res, caught_by=sorted(k for k, v in res.items() if v["violations"] > 0)),
                what_was_run="tools/revfix.py: `git diff %s %s^` (non-test files) applied to a scratch copy, pinned suite, then ./check for %s with VERIF_REPO pointing at the copy" % (commit, commit, ", ".join(checks)))
    json.dump(meta, open(os.path.join(dst, "meta.json"), "w"), indent=1)
    print(d, commit, "suite:", suite[:60], "caught by", meta["confirmation"]["caught_by"], "of", checks, flush=True)

"""Shared machinery of the /verif checks (python3 stdlib only).

build():   rebuild harness from /repo (-tags verif), regenerate coq/Gen/*.v,
           make the Coq development, re-extract and rebuild the OCaml driver.
run_go / run_model: execute a case file on the implementation / the model.
proof_status: which theorems of Properties/Cxx.v are checked.
Evidence / violation reporting.
"""
import os, sys, json, subprocess, time, fcntl, hashlib, random, re, shutil
from concurrent.futures import ThreadPoolExecutor

ROOT = os.path.dirname(os.path.dirname(os.path.abspath(__file__)))
BUILD = os.path.join(ROOT, "build")
COQ = os.path.join(ROOT, "coq")
REPO = os.environ.get("VERIF_REPO", "/repo")
GOENV = dict(os.environ, GOFLAGS="-mod=mod", GOPROXY="off", GOSUMDB="off", GOTOOLCHAIN="local",
             CGO_ENABLED=os.environ.get("CGO_ENABLED", "0"))
NPROC = min(16, os.cpu_count() or 4)

def log(*a):
    print("[verif]", *a, file=sys.stderr, flush=True)

def sh(cmd, cwd=None, env=None, timeout=None, check=False, capture=True):
    p = subprocess.run(cmd, cwd=cwd, env=env, timeout=timeout, shell=isinstance(cmd, str),
                       stdout=subprocess.PIPE if capture else None,
                       stderr=subprocess.STDOUT if capture else None, text=True)
    if check and p.returncode != 0:
        raise RuntimeError("command failed: %s\n%s" % (cmd, p.stdout))
    return p

def hx(s):
    if isinstance(s, str):
        s = s.encode("utf-8", "surrogatepass")
    return s.hex()

def unhx(h):
    return bytes.fromhex(h)

def unhxs(h):
    return bytes.fromhex(h).decode("utf-8", "replace")

# ---------------------------------------------------------------- build
class BuildStatus(dict):
    pass

def _file_hash(paths):
    h = hashlib.sha256()
    for p in sorted(paths):
        h.update(p.encode())
        try:
            h.update(open(p, "rb").read())
        except OSError:
            h.update(b"<missing>")
    return h.hexdigest()

def coq_sources():
    out = []
    for d, _, fs in os.walk(COQ):
        for f in fs:
            if f.endswith(".v"):
                out.append(os.path.join(d, f))
    return sorted(out)

def project_files():
    """Files listed in _CoqProject (everything under Gen, Model, Spec, Proofs, Properties)."""
    fs = []
    for sub in ("Gen", "Model", "Spec", "Proofs", "Properties"):
        d = os.path.join(COQ, sub)
        if os.path.isdir(d):
            for f in sorted(os.listdir(d)):
                if f.endswith(".v"):
                    fs.append("%s/%s" % (sub, f))
    return fs

def write_if_changed(path, text):
    old = open(path).read() if os.path.exists(path) else None
    if old != text:
        with open(path, "w") as f:
            f.write(text)
        return True
    return False

def build(need_cli=False, quiet=False):
    """Shared build steps, under one lock. Returns BuildStatus."""
    os.makedirs(BUILD, exist_ok=True)
    st = BuildStatus(harness=False, tables=False, coq_make_rc=None, extract=False, driver=False, log={})
    with open(os.path.join(BUILD, ".lock"), "w") as lk:
        fcntl.flock(lk, fcntl.LOCK_EX)
        t0 = time.time()
        # 1. harness from /repo's working tree
        hdir = os.path.join(ROOT, "harness")
        shutil.copyfile(os.path.join(REPO, "go.sum"), os.path.join(hdir, "go.sum"))
        if REPO != "/repo":
            # scratch copies (mutation testing): point the harness module at the copy
            sh(["go", "mod", "edit", "-replace", "github.com/skx/evalfilter/v2=" + REPO], cwd=hdir, env=GOENV)
        p = sh(["go", "build", "-tags", "verif", "-o", os.path.join(BUILD, "harness"), "."], cwd=hdir, env=GOENV, timeout=600)
        st["log"]["harness"] = p.stdout[-4000:]
        st["harness"] = p.returncode == 0
        if os.path.isdir(os.path.join(hdir, "race")) and False:
            pass
        if need_cli:
            p = sh(["go", "build", "-o", os.path.join(BUILD, "evalfilter-cli"), "./cmd/evalfilter"], cwd=REPO, env=GOENV, timeout=600)
            st["cli"] = p.returncode == 0
            st["log"]["cli"] = p.stdout[-4000:]
        # 2. regenerate tables
        if st["harness"]:
            p = sh([os.path.join(BUILD, "harness"), "dump-tables"], timeout=120)
            if p.returncode == 0:
                open(os.path.join(BUILD, "tables.json"), "w").write(p.stdout)
                p2 = sh([sys.executable, os.path.join(ROOT, "tools", "gen_tables.py"),
                         os.path.join(BUILD, "tables.json"), os.path.join(COQ, "Gen", "Tables.v")])
                st["tables"] = p2.returncode == 0
                st["log"]["tables"] = p2.stdout[-2000:]
            else:
                st["log"]["tables"] = p.stdout[-2000:]
            p = sh([os.path.join(BUILD, "harness"), "dump-surface", REPO], timeout=120)
            if p.returncode == 0:
                open(os.path.join(BUILD, "surface.json"), "w").write(p.stdout)
                gs = os.path.join(ROOT, "tools", "gen_surface.py")
                if os.path.exists(gs):
                    p2 = sh([sys.executable, gs, os.path.join(BUILD, "surface.json"), os.path.join(COQ, "Gen", "Surface.v")])
                    st["log"]["surface"] = p2.stdout[-2000:]
        # 3. Coq
        proj = "-Q . EF\n" + "\n".join(project_files()) + "\n"
        if write_if_changed(os.path.join(COQ, "_CoqProject"), proj) or not os.path.exists(os.path.join(COQ, "Makefile")):
            sh("coq_makefile -f _CoqProject -o Makefile", cwd=COQ, timeout=120)
        p = sh("timeout 2400 make -k -j%d COQC='timeout 900 coqc' 2>&1" % NPROC, cwd=COQ, timeout=2500)
        st["coq_make_rc"] = p.returncode
        st["log"]["coq"] = p.stdout[-8000:]
        # 4. extraction + driver (only when the model changed)
        odir = os.path.join(BUILD, "ocaml")
        os.makedirs(odir, exist_ok=True)
        model_src = [f for f in coq_sources() if "/Model/" in f or "/Gen/" in f or "/Spec/" in f or "/Extract/" in f] + \
                    [os.path.join(ROOT, "ocaml", "driver.ml")]
        stamp = os.path.join(odir, "stamp")
        hsh = _file_hash(model_src)
        if os.path.exists(stamp) and open(stamp).read() == hsh and os.path.exists(os.path.join(BUILD, "model_driver")):
            st["extract"] = st["driver"] = True
        else:
            for f in ("model.ml", "model.mli"):
                try:
                    os.remove(os.path.join(odir, f))
                except OSError:
                    pass
            p = sh("timeout 600 coqc -Q %s EF %s 2>&1" % (COQ, os.path.join(COQ, "Extract", "Extract.v")), cwd=odir, timeout=700)
            st["log"]["extract"] = p.stdout[-4000:]
            st["extract"] = p.returncode == 0 and os.path.exists(os.path.join(odir, "model.ml"))
            if st["extract"]:
                shutil.copyfile(os.path.join(ROOT, "ocaml", "driver.ml"), os.path.join(odir, "driver.ml"))
                p = sh("ocamlfind ocamlopt -O3 -w -a -rectypes -thread -package coq-core.kernel,str,zarith -linkpkg model.mli model.ml driver.ml -o ../model_driver 2>&1",
                       cwd=odir, timeout=900)
                st["log"]["driver"] = p.stdout[-4000:]
                st["driver"] = p.returncode == 0
                if st["driver"]:
                    open(stamp, "w").write(hsh)
        st["build_s"] = round(time.time() - t0, 1)
    if not quiet:
        log("build: harness=%s tables=%s coq_rc=%s extract=%s driver=%s (%.1fs)" %
            (st["harness"], st["tables"], st["coq_make_rc"], st["extract"], st["driver"], st["build_s"]))
    return st

def vo_ok(rel):
    """Is coq/<rel>.vo built and up to date with everything it depends on?"""
    vo = os.path.join(COQ, rel[:-2] + ".vo") if rel.endswith(".v") else os.path.join(COQ, rel)
    if not os.path.exists(vo):
        return False
    p = sh("make -q %s" % os.path.relpath(vo, COQ), cwd=COQ, timeout=120)
    return p.returncode == 0

THM_RE = re.compile(r"^\s*(Theorem|Example)\s+([A-Za-z0-9_']+)", re.M)

def proof_status(prop):
    """Obligations = Theorems of Properties/<prop>.v; discharged = same if the .vo checks."""
    rel = "Properties/%s.v" % prop
    path = os.path.join(COQ, rel)
    if not os.path.exists(path):
        return dict(file=rel, theorems=[], obligations=0, discharged=0, ok=False, assumptions="")
    src = open(path).read()
    thms = [m.group(2) for m in THM_RE.finditer(src) if m.group(1) == "Theorem"]
    ok = vo_ok(rel)
    assumptions = ""
    if ok and thms:
        script = "From EF Require Import Properties.%s.\n" % prop + "".join("Print Assumptions %s.\n" % t for t in thms)
        os.makedirs(os.path.join(BUILD, "pa"), exist_ok=True)
        paf = os.path.join(BUILD, "pa", "PA_%s.v" % prop)
        open(paf, "w").write(script)
        p = sh("timeout 300 coqc -Q %s EF %s 2>&1" % (COQ, paf), cwd=os.path.join(BUILD, "pa"), timeout=320)
        outs = [x.strip() for x in re.split(r"(?=Closed under the global context|Axioms:)", p.stdout) if x.strip()]
        closed = sum(1 for x in outs if x.startswith("Closed under"))
        axioms = sorted(set(re.sub(r"\s+", " ", x) for x in outs if x.startswith("Axioms:")))
        assumptions = "%d of %d theorems: Closed under the global context" % (closed, len(thms))
        if axioms:
            assumptions += "; others depend on: " + " | ".join(axioms)
    return dict(file=rel, theorems=thms, obligations=len(thms), discharged=len(thms) if ok else 0, ok=ok,
                assumptions=assumptions)

FORBIDDEN = re.compile(r"\b(Admitted|admit|Axiom|Parameter|Conjecture|Abort All)\b|Unset Guard|bypass_check|Admit Obligations|type-in-type")
def forbidden_tokens():
    hits = []
    for f in coq_sources():
        txt = open(f).read()
        txt = re.sub(r"\(\*.*?\*\)", "", txt, flags=re.S)
        for m in FORBIDDEN.finditer(txt):
            hits.append("%s: %s" % (os.path.relpath(f, ROOT), m.group(0)))
    return hits

# ---------------------------------------------------------------- running cases
def parse_result_lines(text):
    out = {}
    for line in text.split("\n"):
        if not line.startswith("id="):
            continue
        kv = {}
        for f in line.split("\t"):
            i = f.find("=")
            if i > 0:
                kv[f[:i]] = f[i + 1:]
        out[kv["id"]] = kv
    return out

def _run_sharded(binary, lines, tag, extra_args=(), timeout=900, nshards=None, env=None, prefix=()):
    os.makedirs(os.path.join(BUILD, "cases"), exist_ok=True)
    # more shards than cores, taken from a queue: a few slow cases then do not pile up in one shard
    n = nshards or max(1, min(4 * NPROC, len(lines) // 25 + 1))
    shards = [lines[i::n] for i in range(n)]
    def work(i):
        t0 = time.time()
        try:
            return work1(i)
        finally:
            if os.environ.get("VERIF_TIMING"):
                sys.stderr.write("[timing] %s shard %d/%d (%d cases): %.1fs\n" % (tag, i, n, len(shards[i]), time.time() - t0))
    def work1(i):
        path = os.path.join(BUILD, "cases", "%s-%d-%d.txt" % (tag, os.getpid(), i))
        with open(path, "w") as f:
            f.write("\n".join(shards[i]) + "\n")
        try:
            p = subprocess.run(list(prefix) + [binary, *extra_args, path], stdout=subprocess.PIPE, stderr=subprocess.PIPE,
                               timeout=timeout, env=env)
            out = p.stdout.decode("utf-8", "replace")
            rc = p.returncode
            err = p.stderr.decode("utf-8", "replace")[-2000:]
        except subprocess.TimeoutExpired as e:
            out = (e.stdout or b"").decode("utf-8", "replace")
            rc = -9
            err = "timeout"
        finally:
            try:
                os.remove(path)
            except OSError:
                pass
        return out, rc, err
    with ThreadPoolExecutor(max_workers=min(n, NPROC)) as ex:
        rs = list(ex.map(work, range(n)))
    res = {}
    crashed = []
    for i, (out, rc, err) in enumerate(rs):
        res.update(parse_result_lines(out))
        if rc != 0:
            crashed.append((i, rc, err))
    return res, crashed

def run_go(lines, tag="go", **kw):
    return _run_sharded(os.path.join(BUILD, "harness"), lines, tag, extra_args=("run",), **kw)

def run_model(lines, tag="model", **kw):
    # the extracted model recurses on fuel: a large but bounded stack (2 GB), and a bounded address space, so that a
    # model run on a broken tree (e.g. no call-depth limit any more) ends in `fuel=stack`, not in exhausting the machine
    env = dict(os.environ, OCAMLRUNPARAM="l=256M")
    return _run_sharded(os.path.join(BUILD, "model_driver"), lines, tag, env=env, prefix=("prlimit", "--as=12884901888"), **kw)

def case_line(cid, kind, **fields):
    parts = ["id=%s" % cid, "kind=%s" % kind]
    for k, v in fields.items():
        parts.append("%s=%s" % (k, v))
    return "\t".join(parts)

# ---------------------------------------------------------------- evidence / findings
def load_known_findings():
    p = os.path.join(ROOT, "known_findings.json")
    if not os.path.exists(p):
        return []
    return json.load(open(p)).get("findings", [])

TRUSTED_BASE = [
    "Coq 8.16.1 kernel (coqc; vm_compute used, native_compute not used)",
    "no axioms declared by the development; Print Assumptions output recorded under coverage.assumptions",
    "extraction: ExtrOcamlBasic (+ ExtrOCamlFloats/ExtrOCamlInt63 for primitive floats), OCaml 4.13.1, hand-written ocaml/driver.ml",
    "table generators: harness dump-tables + tools/gen_tables.py; verif-tag accessors in /repo",
    "correspondence harness (Go), orchestration and generators (Python)",
    "Go standard library where it enters as an oracle (regexp, strconv float formatting/parsing, math.Pow, fmt, unicode beyond tables, time)",
]

def stdlib_axioms(assumptions):
    """the standard-library axioms (not kernel primitives) that Print Assumptions reports for this property's theorems"""
    import re
    names = sorted(set(re.findall(r"(FloatAxioms\.\w+|functional_extensionality\w*|proof_irrelevance|Classical_Prop\.classic|JMeq_eq|Eqdep\.\w+|ClassicalEpsilon\.\w+)", assumptions or "")))
    if not names:
        return "standard-library axioms used by this property's theorems: none (only kernel primitives PrimFloat.* / PrimInt63.* appear under Print Assumptions)"
    return "standard-library axioms used by this property's theorems (declared by Coq's own Floats library, none by the development): " + ", ".join(names)

def write_evidence(prop, tier, seed, wall, coverage, violations, assumptions=None, level="proof"):
    os.makedirs(os.path.join(ROOT, "evidence"), exist_ok=True)
    ev = dict(property_id=prop, tier=tier, seed=int(seed), level=level, coverage=coverage,
              wall_s=round(wall, 2), violations=int(violations))
    if assumptions:
        ev["assumptions"] = assumptions
    with open(os.path.join(ROOT, "evidence", "%s.json" % prop), "w") as f:
        json.dump(ev, f, indent=1, ensure_ascii=True)
        f.write("\n")

_replay_n = [0]
def write_replay(prop, obj):
    os.makedirs(os.path.join(BUILD, "replay"), exist_ok=True)
    _replay_n[0] += 1
    path = os.path.join(BUILD, "replay", "%s-%d.json" % (prop, _replay_n[0]))
    obj = dict(obj, property=prop, replay_cmd="./check replay %s" % os.path.relpath(path, ROOT))
    with open(path, "w") as f:
        json.dump(obj, f, indent=1, ensure_ascii=True)
    return os.path.relpath(path, ROOT)

def violation_line(prop, replay, no_input=False):
    print("VIOLATION property=%s replay=%s%s" % (prop, replay, " no-failing-input-found" if no_input else ""), flush=True)

"""C02 - control flow runs exactly the statements the language selects, in order."""
import itertools
from runner import Prop, Case
import gen, vlib
from gen import enc_value, enc_struct

class C02(Prop):
    id = "C02"
    compare_run = True
    property_obs = ("class", "value", "truth", "trace", "vars", "get", "prep")
    rule = ("nested if/else-if/else, while/for, foreach (array, string, hash, range; value and index/key), switch (literal, expression, "
            "regexp cases; default in any position), ternary and return: (a) bounded-exhaustive small programs over condition variables "
            "c0..c3 under ALL truth assignments with a trace call in every branch, expectations computed by a reference interpreter "
            "written in the generator; (b) random nested programs judged against the model. Observed: result, host-call trace, variables. "
            "non-trivial = at least one control-flow construct")

    # ---- a tiny structured language with its own reference interpreter (independent of the model)
    def tree(self, rng, depth):
        """returns a statement tree: ('t', n) | ('if', [(cond, block)...], else_block|None) | ('while', var, n, block)
           | ('foreach', kind, items, block) | ('switch', subj, [(vals, block)], default_block|None, default_pos) | ('ret', n)"""
        self.tid += 1
        k = rng.random()
        if k < 0.06:
            # an expression statement that leaves a value: a literal, a built-in's result, a user function's result
            return ("v", self.tid, rng.choice(["%d;", "len(\"ab\");", "idf(%d);", "\"s%d\";", "true;"]))
        if depth <= 0 or k < 0.25:
            return ("t", self.tid)
        if k < 0.30:
            return ("ret", self.tid)
        blk = lambda: [self.tree(rng, depth - 1) for _ in range(rng.randint(1, 2))]
        if k < 0.55:
            arms = [(rng.randrange(4), blk()) for _ in range(rng.randint(1, 3))]
            return ("if", arms, blk() if rng.random() < 0.6 else None)
        if k < 0.68:
            self.wid += 1
            return ("while", "w%d" % self.wid, rng.randint(0, 3), blk())
        if k < 0.85:
            kind = rng.choice(["arr", "str", "hash", "range"])
            items = {"arr": rng.choice([[], [5], [3, 1, 2]]), "str": rng.choice(["", "a", "héy"]),
                     "hash": rng.choice([{}, {"b": 2, "a": 1}, {"k": 0}]), "range": rng.choice([(0, 0), (1, 3)])}[kind]
            return ("foreach", kind, items, blk(), rng.random() < 0.5)
        subj = rng.choice([0, 1, 2, "a", "ab", 1, "a", [1, 2], ["1, 2"], {"a": 1}, "[1, 2]"])
        arms = []
        for _ in range(rng.randint(1, 3)):
            vals = [rng.choice([0, 1, 2, 3, "a", "ab", "b", ("re", "/^a/"), 1, "a", [1, 2], ["1, 2"], ["1", "2"], {"a": 1}, {"a": "1"}, "[1, 2]"]) for _ in range(rng.randint(1, 2))]
            arms.append((vals, blk()))
        dflt = blk() if rng.random() < 0.6 else None
        return ("switch", subj, arms, dflt, rng.randint(0, len(arms)))

    def render(self, node):
        from props.c01 import lit
        k = node[0]
        if k == "t":
            return "t(%d);" % node[1]
        if k == "v":
            return node[2] % node[1] if "%d" in node[2] else node[2]
        if k == "ret":
            return "return %d;" % node[1]
        blk = lambda b: "{ " + " ".join(self.render(x) for x in b) + " }"
        if k == "if":
            s = ""
            for i, (c, b) in enumerate(node[1]):
                s += ("if" if i == 0 else " else if") + " (c%d) %s" % (c, blk(b))
            if node[2] is not None:
                s += " else " + blk(node[2])
            return s
        if k == "while":
            return "%s = 0; while (%s < %d) { %s %s = %s + 1; }" % (node[1], node[1], node[2], " ".join(self.render(x) for x in node[3]), node[1], node[1])
        if k == "foreach":
            kind, items, b, two = node[1], node[2], node[3], node[4]
            src = "%d..%d" % items if kind == "range" else lit(items)
            self.fid += 1
            v, i = "e%d" % self.fid, "i%d" % self.fid
            head = "foreach %s, %s in %s" % (i, v, src) if two else "foreach %s in %s" % (v, src)
            call = "t(%s, %s);" % (i, v) if two else "t(%s);" % v
            return "%s { %s %s }" % (head, call, " ".join(self.render(x) for x in b))
        if k == "switch":
            arms = ["case %s %s" % (", ".join(x[1] if isinstance(x, tuple) else lit(x) for x in vals), blk(b)) for vals, b in node[2]]
            if node[3] is not None:
                arms.insert(node[4], "default " + blk(node[3]))
            return "switch (%s) { %s }" % (lit(node[1]), " ".join(arms))

    def value_stmt_in_foreach(self, nodes, inside):
        """does a foreach body contain (at any depth) an expression statement that leaves a value?"""
        for n in nodes:
            k = n[0]
            if k == "v" and inside:
                return True
            if k == "if":
                if any(self.value_stmt_in_foreach(b, inside) for _, b in n[1]) or (n[2] is not None and self.value_stmt_in_foreach(n[2], inside)):
                    return True
            elif k == "while" and self.value_stmt_in_foreach(n[3], inside):
                return True
            elif k == "foreach" and self.value_stmt_in_foreach(n[3], True):
                return True
            elif k == "switch":
                if any(self.value_stmt_in_foreach(b, inside) for _, b in n[2]) or (n[3] is not None and self.value_stmt_in_foreach(n[3], inside)):
                    return True
        return False

    def in_class(self, klass, case):
        return klass == "value-statement-in-foreach" and "value-statement-in-foreach" in case.tags

    class Ret(Exception):
        def __init__(self, v):
            self.v = v

    def interp(self, node, conds, trace):
        from props.c16 import sort_key
        k = node[0]
        if k == "t":
            trace.append([node[1]])
        elif k == "v":
            pass                         # evaluated and discarded: no effect
        elif k == "ret":
            raise C02.Ret(node[1])
        elif k == "if":
            for c, b in node[1]:
                if conds[c]:
                    for x in b:
                        self.interp(x, conds, trace)
                    return
            if node[2] is not None:
                for x in node[2]:
                    self.interp(x, conds, trace)
        elif k == "while":
            for _ in range(node[2]):
                for x in node[3]:
                    self.interp(x, conds, trace)
        elif k == "foreach":
            kind, items, b, two = node[1], node[2], node[3], node[4]
            if kind == "arr":
                seq = list(enumerate(items))
            elif kind == "str":
                seq = list(enumerate(items))
            elif kind == "hash":
                seq = [(kk, items[kk]) for kk in sorted(items, key=sort_key)]
            else:
                seq = list(enumerate(range(items[0], items[1] + 1)))
            for i, v in seq:
                trace.append([i, v] if two else [v])
                for x in b:
                    self.interp(x, conds, trace)
        elif k == "switch":
            subj = node[1]
            for vals, b in node[2]:
                hit = False
                for v in vals:
                    if isinstance(v, tuple):
                        hit = isinstance(subj, str) and subj.startswith("a") or (not isinstance(subj, str) and str(subj).startswith("a"))
                    else:
                        hit = (type(v) == type(subj)) and v == subj
                    if hit:
                        break
                if hit:
                    for x in b:
                        self.interp(x, conds, trace)
                    return
            if node[3] is not None:
                for x in node[3]:
                    self.interp(x, conds, trace)

    def cases(self, rng, tier):
        out = []
        nprog = 8000 if tier == "thorough" else 220
        for _ in range(nprog):
            self.tid = self.wid = self.fid = 0
            prog = [self.tree(rng, rng.choice([1, 2, 3])) for _ in range(rng.randint(1, 3))]
            src = " ".join(self.render(x) for x in prog)
            if "idf(" in src:
                src = "function idf(a) { return a; } " + src
            in_foreach = self.value_stmt_in_foreach(prog, False)
            used = sorted(set(int(src[i + 1]) for i in range(len(src) - 1) if src[i] == "c" and src[i + 1].isdigit() and (i == 0 or not src[i - 1].isalnum())))
            assigns = list(itertools.product([False, True], repeat=len(used)))
            if len(assigns) > 8 and tier == "quick":
                assigns = rng.sample(assigns, 8)
            for asg in assigns:
                conds = {c: v for c, v in zip(used, asg)}
                trace = []
                try:
                    for x in prog:
                        self.interp(x, conds, trace)
                    result = "n"
                except C02.Ret as r:
                    result = "i%d" % r.v
                ops = ["addfn:%s:void" % vlib.hx("t")] + ["setvar:%s:%s" % (vlib.hx("c%d" % c), enc_value(rng.choice([True, 1, "x", [0]]) if v else rng.choice([False, 0, "", None, []])))
                                                          for c, v in conds.items() if not (v is False and rng.random() < 0.3)]
                ops += ["prepare:" + rng.choice(["opt", "noopt"]), "exec:0"]
                k = len(ops) - 1
                exp = {"o%d.class" % k: "ok", "o%d.value" % k: result,
                       "o%d.trace" % k: "+".join("74(%s)" % ",".join(enc_value(a) for a in call) for call in trace)}
                c = Case("run", {"script": vlib.hx(src), "objs": "N", "ops": ";".join(ops)}, "structured", expect=exp, note=src,
                         nontrivial=any(w in src for w in ("if", "while", "foreach", "switch")))
                if in_foreach:
                    c.tags.add("value-statement-in-foreach")
                out.append(c)
        n = 20000 if tier == "thorough" else 500
        for _ in range(n):
            g = gen.Gen(rng, max_depth=2, illtyped=0.02, use_ternary=True)
            src = g.program(nstmts=rng.randint(2, 6), nfuncs=0, depth=rng.choice([2, 3]))
            f = gen.struct_case(rng, src, ["prepare:" + rng.choice(["opt", "noopt"]), "exec:0"] +
                                ["getvar:" + vlib.hx(v) for v in ("a", "b", "x")])
            out.append(Case("run", f, "random", nontrivial=any(w in src for w in ("if", "while", "foreach", "switch", "?"))))
        # loops whose body calls a user-defined function that assigns to names the LOOP binds: the loop goes on with its own element,
        # index and count (observed through the host-call sequence, the result and the variables left)
        for src, val, trace in [
            ("function clobber() { v = 99; i = 77; return 0; } n = 0; foreach i, v in [1, 2, 3] { clobber(); t(i, v); n = n + 1; } return [n, v, i];", [3, 99, 77], [[0, 1], [1, 2], [2, 3]]),
            ("function show(x) { item = x * 10; t(\"item\", item); left = left - 1; return left; } left = 2; while (left > 0) { foreach idx, item in [1, 2, 3] { t(idx, item); r = show(item); } t(\"round\", left); } return left;",
             -1, [[0, 1], ["item", 10], [1, 2], ["item", 20], [2, 3], ["item", 30], ["round", -1]]),
            ("function z() { k = \"x\"; v = 0; return 1; } foreach k, v in {\"a\": 1, \"b\": 2} { z(); t(k, v); } return [k, v];", ["x", 0], [["a", 1], ["b", 2]]),
            ("function w() { c = \"Z\"; return c; } s = \"\"; foreach c in \"ab\" { w(); s = s + c; t(c); } return s;", "ab", [["a"], ["b"]])]:
            for mode in ("opt", "noopt"):
                ops = ["addfn:%s:void" % vlib.hx("t"), "prepare:" + mode, "exec:0"]
                exp = {"o2.class": "ok", "o2.value": enc_value(val), "o2.trace": "+".join("74(%s)" % ",".join(enc_value(a) for a in call) for call in trace)}
                out.append(Case("run", {"script": vlib.hx(src), "objs": "N", "ops": ";".join(ops)}, "callee-assigns-loop-names", expect=exp, note=src))
        return out

PROP = C02()

"""C08 - bad scripts and odd objects produce errors, never a crash of the host."""
import os
from runner import Prop, Case
import gen, vlib
from gen import enc_struct

HOSTILE_OBJS = ["N", "I0.5", "S" + vlib.hx("s"), "Li(I0.1,N)", "Q", "Z", "P(I0.5)", "O0(S61=S62)", "O1(I0.1=I0.2)", "B1",
                "R(%s=Z,%s=Q)" % (vlib.hx("C"), vlib.hx("D")), "R(%s=X(Z))" % vlib.hx("I"), "M(%s=Z)" % vlib.hx("k"),
                "M(%s=R(%s=I8.1))" % (vlib.hx("k"), vlib.hx("F")), "P(P(R(%s=I0.1)))" % vlib.hx("F"), "R(%s=U8.200,%s=I8.1,%s=F32.3fc0000000000000)" % (vlib.hx("A"), vlib.hx("B"), vlib.hx("C")),
                "R(%s=Lt(),%s=Li(),%s=M())" % (vlib.hx("A"), vlib.hx("B"), vlib.hx("C")),
                # maps and slices that were never made (nil), as fields, map values, behind pointers and as the object itself
                "R(%s=m,%s=o,%s=l)" % (vlib.hx("A"), vlib.hx("B"), vlib.hx("C")), "R(%s=o,%s=y,%s=m)" % (vlib.hx("A"), vlib.hx("B"), vlib.hx("C")),
                "M(%s=m,%s=l,%s=o)" % (vlib.hx("A"), vlib.hx("B"), vlib.hx("C")), "P(R(%s=y,%s=m,%s=Q))" % (vlib.hx("A"), vlib.hx("B"), vlib.hx("C")),
                "m", "o", "l", "R(%s=X(m),%s=X(l),%s=X(Q))" % (vlib.hx("A"), vlib.hx("B"), vlib.hx("C")),
                # slices whose members the engine cannot represent (nil, unsupported kinds, bytes), as fields and map values
                "R(%s=Li(N,I0.1),%s=Lt(U8.1,U8.2),%s=Li(Z,Q,N))" % (vlib.hx("A"), vlib.hx("B"), vlib.hx("C")),
                "M(%s=Li(N),%s=Li(R(%s=I0.1),N),%s=Lt(U16.7))" % (vlib.hx("A"), vlib.hx("B"), vlib.hx("F"), vlib.hx("C")),
                "R(%s=Li(Li(N),N),%s=Lt(I8.1,I8.2),%s=Li(U8.200,I0.5))" % (vlib.hx("A"), vlib.hx("B"), vlib.hx("C"))]

FAULTY = ["return 1 / 0;", "return 1 % 0;", "return 1.5 % 0;", "return [1][\"a\"];", "return \"a\" - 1;", "a = b = 3;", "y = x++;", "x += 1 + 2; return x;",
          "panic(\"boom\");", "panic();", "return nosuch(1);", "function f(a) { return a; } return f();", "return {[1]: 2};", "foreach x in 5 { }",
          "return 1..\"a\";", "return -\"a\";", "return √\"a\";", "return match();", "return sort(1, 2, 3);", "return len();", "return Field.Sub.Deep;",
          "return sprintf(\"%d %s %v %q\", \"a\");", "return printf(1, 2);", "return A[B][C];", "x = [1, 2]; return x[x];", "return int(\"99999999999999999999\");",
          "return 9223372036854775807 + 1;", "return 2 ** 100;", "return (0 - 9223372036854775807 - 1) / (0 - 1);", "switch (1) { case /(/ { } }",
          "return \"a\" ~= /(/;", "return replace(\"a\", \"(\", \"b\");", "return hour(\"x\");", "return weekday(99999999999999999);", "1; 2; 3; return;",
          "t(1, 2)", "return t;", "function f() { return f(); } return f();",
          # regexp literals that open a (? group and never close it, or are otherwise not valid patterns
          "return Name ~= /(?i/;", "return /(?/;", "if (Name ~= /(?:steve|bob/) { return true; } return false;", "switch (Name) { case /(?i/ { return 1; } } return 2;",
          "return replace(Name, /(?P<n/, \"x\");", "return /(?i)(?/;", "x = /(?)/; return x;", "return \"a\" !~ /(?#/;", "return /[/;", "return /a{2,1}/;", "return /\\/;"]

class C08(Prop):
    id = "C08"
    compare_run = True
    property_obs = ("crash",)
    rule = ("scripts: random bytes, token-level mutants and truncations of valid programs, run-time faults of every kind, nesting sweeps "
            "(parentheses, brackets, !, blocks, else-if chains, assignment chains, infix chains, member chains, comment lines) at depths "
            "10..1,000,000 around the parser's limit; objects: nil, non-struct values, nil pointers, structs and maps with every "
            "unsupported kind; every case calls Prepare, Execute, Run and Dump under recover in a separate harness process (a crash of "
            "the process is detected by its exit status), then runs again on a benign object to show the evaluator is still usable. "
            "A violation is any panic reaching the caller, any process death, or an evaluator that cannot be used afterwards. "
            "non-trivial = script longer than 3 bytes")

    def cases(self, rng, tier):
        out = []
        benign = enc_struct(gen.rand_object(rng))
        def case(src, obj, stream, raw=None, nontrivial=True):
            ops = "addfn:%s:void;dump;prepare:%s;dump;exec:0;run:0;exec:1;dump" % (vlib.hx("t"), rng.choice(["opt", "noopt"]))
            if rng.random() < 0.4:
                # a second Prepare that fails (the host swapped in a script that does not parse), then everything again
                ops += ";badprepare;dump;exec:1;run:1;prepare:%s;dump;exec:1" % rng.choice(["opt", "noopt"])
            script = raw.hex() if raw is not None else vlib.hx(src)
            f = {"script": script, "objs": obj + ";" + benign, "ops": ops}
            if stream in ("malformed", "cut-off"):
                # mutants of small programs: one that was turned into an endless loop ends for the implementation at the harness's
                # back-stop and for the model when its fuel runs out (the case is then dropped); a small budget keeps that cheap
                f["fuel"] = "8000"
            return Case("run", f, stream, nontrivial=nontrivial)
        for src in FAULTY:
            for obj in ["N", benign]:
                out.append(case(src, obj, "faulty"))
        for obj in HOSTILE_OBJS:
            for src in ["return Field;", "return A;", "x = k; return B;", "return 1;", "foreach k, v in A { t(k); } return C;", "return B;", "return C;",
                        "return len(A) + len(B) + len(C);", "return [A[\"x\"], B[0], C[1]];", "if (A) { return 1; } if (B) { return 2; } return C ? 3 : 4;",
                        "return [type(A), type(B), type(C), string(A), keys(A)];", "h = {\"a\": A, \"b\": B}; foreach v in C { t(v); } return h;",
                        "return (A == B) || (B in C) || !A;", "return A[0];", "return B[0];", "return C[0];", "x = A[0]; return x;", "return [A[0], B[1], C[2]][0];",
                        "function f(a) { return a; } return f(A[0]);", "foreach v in A { return v; } return 1;", "foreach v in C { t(v); } return len(C);"]:
                out.append(case(src, obj, "hostile-object"))
        # an escape or a literal cut off by the end of the input
        for head in [b'return "abc', b"return 'abc", b"x = /ab", b'x = "', b"// comment", b"x = 1 "]:
            for tail in [b"\\", b"\\\r", b"\\\n", b"\\\r\n", b"\\\\", b"\r", b"\\t", b"\\\"", b"\\'", b"\\/", b"\xe2", b"\xe2\x88", b"\\\xe2"]:
                out.append(case(None, "N", "cut-off", raw=head + tail))
        # maps that contain themselves, and maps nested around the machine's nesting limit
        for obj in ["c", "n3", "n4998", "n4999", "n5000", "n5001", "n5200"]:
            for src in ["return a;", "return type(self);", "x = self; n = 0; while (x) { x = x[\"self\"]; n = n + 1; } return n;",
                        "x = self; n = 0; while (x) { if (x[\"leaf\"]) { return [n, x[\"leaf\"]]; } x = x[\"self\"]; n = n + 1; } return n;"]:
                out.append(case(src, obj, "nested-maps"))
        n = 30000 if tier == "thorough" else 1500
        seeds = [gen.Gen(rng, max_depth=2).program(nstmts=rng.randint(1, 5), nfuncs=rng.randint(0, 2), depth=2) for _ in range(60)]
        d = os.path.join(vlib.REPO, "_examples", "scripts")
        if os.path.isdir(d):
            for f in sorted(os.listdir(d)):
                try:
                    seeds.append(open(os.path.join(d, f), encoding="utf-8").read())
                except Exception:
                    pass
        alphabet = b"ab01 \n\t/\\\"'*=!<>&|~.+-;(){}[]?:%,$_#@\x00\xe2\x88\x9a\xff\xc3"
        toks = [b"if", b"else", b"while", b"foreach", b"function", b"return", b"switch", b"case", b"default", b"local", b"in", b"(", b")", b"{", b"}",
                b"[", b"]", b";", b",", b"?", b":", b"++", b"--", b"+=", b"..", b".", b"\"", b"'", b"/", b"//", b"\xe2\x88\x9a", b"1", b"x", b"=", b"=="]
        for _ in range(n):
            r = rng.random()
            if r < 0.25:
                b = bytes(rng.choice(alphabet) for _ in range(rng.randint(0, 60)))
            elif r < 0.5:
                b = b" ".join(rng.choice(toks) for _ in range(rng.randint(1, 30)))
            else:
                s = bytearray(rng.choice(seeds).encode("utf-8"))
                for _ in range(rng.randint(1, 5)):
                    if not s:
                        break
                    i = rng.randrange(len(s))
                    op = rng.random()
                    if op < 0.3:
                        del s[i:i + rng.randint(1, 4)]
                    elif op < 0.6:
                        s[i:i] = rng.choice(toks)
                    elif op < 0.8:
                        s[i] = rng.choice(alphabet)
                    else:
                        s = s[:i]
                b = bytes(s)
            out.append(case(None, rng.choice(["N", benign]), "malformed", raw=b, nontrivial=len(b) > 3))
        # nesting sweeps
        depths = ([10, 1000, 4990, 4999, 5000, 5001, 5010, 20000, 200000, 1000000, 3000000] if tier == "thorough"
                  else [10, 1000, 4999, 5000, 5001, 20000, 600000])
        shapes = {
            "paren": lambda k: "return " + "(" * k + "1" + ")" * k + ";",
            "paren-open": lambda k: "return " + "(" * k + "1;",
            "bracket": lambda k: "return " + "[" * k + "1" + "]" * k + ";",
            "bang": lambda k: "return " + "!" * k + "true;",
            "minus": lambda k: "return " + "- " * k + "1;",
            "infix": lambda k: "return 1" + " + 1" * k + ";",
            "member": lambda k: "return a" + ".b" * k + ";",
            "index": lambda k: "return a" + "[0]" * k + ";",
            "assign": lambda k: "a = " * k + "1;",
            "blocks": lambda k: "if (1) { " * k + "x = 1; " + "} " * k,
            "elseif": lambda k: "if (a) { } " + "else if (a) { } " * k,
            "comments": lambda k: "// c\n" * k + "return 1;",
            "calls": lambda k: "return " + "f(" * k + "1" + ")" * k + ";",
            "ternary-cond": lambda k: "return " + "(" * k + "a" + " ? 1 : 2)" * k + ";",
            "hash": lambda k: "return " + "{1:" * k + "1" + "}" * k + ";",
            "strings": lambda k: "return \"" + "a" * k + "\" + \"" + "\\\\" * k + "\";",
        }
        for name, f in shapes.items():
            for k in depths:
                if k > 200000 and name in ("ternary-cond", "hash", "blocks", "elseif", "calls", "strings"):
                    # (string literals are lexed in quadratic time: slow, but not a crash)
                    continue
                if k > 20000 and name == "strings":
                    continue            # 600 KB of string literal takes tens of seconds on a loaded machine: slow is not a crash
                out.append(case(f(k), "N", "nesting-" + name))
        return out

    def judge(self, case, go, model):
        out = []
        for k, v in go.items():
            if k.endswith(".crash"):
                out.append("operation %s panicked into the caller" % k.split(".")[0])
        if "hang" in go:
            out.append("an operation did not return within 20 s")
        if "harness_panic" in go:
            out.append("the harness itself panicked: " + vlib.unhxs(go["harness_panic"])[:200])
        # still usable: the run on the benign object after the hostile one must not crash and, when prepared, behave like a run
        return out

    def extra_checks(self, tier, st, rng=None, cases=None, go=None):
        missing = [c for c in cases if c.cid not in go]
        viol = []
        if missing:
            # a harness process died: find the culprit by running the missing cases one per process
            for c in missing[:40]:
                res, crashed = vlib.run_go([c.line()], tag="C08-single", nshards=1, timeout=120)
                if c.cid not in res:
                    viol.append((c, "the process running this case died (fatal error / stack exhaustion / timeout): %s" % (crashed[:1],)))
        # known finding D24: values nested by a LOOP (no parser or call-depth limit applies) are printed, compared and converted by
        # unbounded recursion; running out of stack is fatal for the process and cannot be recovered.  Shown scaled down: the harness
        # lowers Go's stack limit from 1 GB to 32 MB for these cases, so 400000 levels suffice (each in a process of its own).
        deep = ['a = [1]; i = 0; while (i < 400000) { a = [a]; i++; } return len(string(a));', 'a = {"k": 1}; i = 0; while (i < 400000) { a = {"k": a}; i++; } print(a); return 1;',
                'a = [1]; i = 0; while (i < 400000) { a = [a]; i++; } if (a in [a]) { return 1; } return 0;']
        for k, src in enumerate(deep):
            c = Case("run", {"script": vlib.hx(src), "objs": "N", "ops": "prepare:opt;exec:0", "maxstack": "33554432"}, "deep-nesting", note=src)
            c.cid = "DEEP%d" % k
            c.tags.add("deep-nesting")
            res, crashed = vlib.run_go([c.line()], tag="C08-deep", nshards=1, timeout=120)
            if c.cid not in res:
                viol.append((c, "the process running this case died (fatal error: stack overflow - recursion over a value nested 400000 deep, stack limit lowered to 32 MB)"))
        return viol, {"cases_without_result_first_pass": len(missing), "deep_nesting_cases": len(deep)}

    def in_class(self, klass, case):
        return klass == "deep-nesting" and "deep-nesting" in case.tags

PROP = C08()

"""C18 - every accepted script compiles to well-formed machine code."""
from runner import Prop, Case
import gen, vlib

BOUNDARY = [
    "return 65534;", "return 65535;", "return 65536;", "x = 65534 + 1; return x;", "function f() { 24; }", "function f() { x = 1; 24; } f();",
    "function g() { return 1; } function f() { g(); 24; }", "return T ? 1 : 2;", "x = T ? 1 : 2;", "T ? 1 : 2;", "if (a) { } else { }", "while (false) { }",
    "foreach x in [] { }", "switch (1) { }", "switch (1) { default { } }", "function f() { } f();", "function f() { return 1; } x = f();",
    "function f() { foreach x in [1] { return x; } } y = f();", "function f() { if (a) { return 1; } else { return 2; } } f();",
    "function f() { while (true) { return 1; } } f();", "function f() { switch (a) { case 1 { return 1; } default { return 2; } } } f();",
    "return;" , "1;", "x;", "x++;", "x = [1, 2, 3][1];", "return {\"a\": 1, \"b\": [1, {\"c\": 2}]};", "return 1 + 2 * 3 - 4 / 2;",
]
VALUELESS = ["a = b = 3;", "y = x++;", "x += 1 + 2; return x;", "x = (y = 2) + 1;", "return x = 1;", "f(a = 1);", "return [x++];",
             "x = if (a) { 1; };", "z = foreach v in [1] { };", "if (x = 1) { }", "return -(a = 1);"]

def big_script(kind, n):
    if kind == "consts":      # many distinct constants
        return " ".join("x = %d;" % (70000 + i) for i in range(n))
    if kind == "body":        # a long main body
        return " ".join("x = x + 1;" for _ in range(n))
    if kind == "fnbody":
        return "function f() { " + " ".join("x = x + 1;" for _ in range(n)) + " return x; } f();"
    if kind == "array":
        return "return [" + ", ".join("1" for _ in range(n)) + "];"
    if kind == "args":
        return "return t(" + ", ".join("1" for _ in range(n)) + ");"
    if kind == "hash":
        return "return {" + ", ".join("%d: 1" % i for i in range(n)) + "};"
    if kind == "ifbig":       # a jump over more than 64 KB
        return "if (a) { " + " ".join("x = x + 1;" for _ in range(n)) + " } return 1;"

class C18(Prop):
    id = "C18"
    compare_run = True
    property_obs = ("prep", "crash")
    rule = ("every program the implementation accepts - the generated corpora of the control-flow, optimizer and function streams, hand-written "
            "boundary scripts (inline-integer limit, empty bodies, functions ending in every construct, ternary / if / loop as last statement) "
            "and, in the thorough tier, scripts around the 16-bit limits (bodies, jumps, constant pools, array / argument / hash counts near "
            "65535) - is prepared with and without the optimizer; the main body and every function body AS THE GO MACHINE WILL RUN THEM "
            "are handed to the Coq verifier, which walks all control-flow paths whether or not an input reaches them. A rejected "
            "program is a violation; scripts with a value-less construct in operand position must be refused by Prepare. "
            "The run itself must never end in an internal error for a program the verifier accepted. non-trivial = program has a jump or a call")

    def cases(self, rng, tier):
        out = []
        def add(src, stream):
            for mode in ("opt", "noopt"):
                f = gen.struct_case(rng, src, ["prepare:" + mode, "exec:0"])
                out.append(Case("run", f, stream + "-" + mode, note=src))
        for s in BOUNDARY:
            add(s, "boundary")
        # hash literals in which a key is written more than once (the operand count of OpHash and the pairs pushed must agree)
        for s in ['h = {"a": 1, "a": 2}; return len(h);', 'h = {name: 1, "b": 2, name: 3}; return h;', 'return [10, 20, {"k": 1, "k": 2}];', '1; 2; h = {"k": 1, "k": 2}; return len(h);',
                  'function f() { return {"x": 1, "y": 2, "x": 3, "x": 4}; } return f();', 'if (true) { h = {1: "a", 1: "b", "1": "c"}; } return h;', 'return {1.5: 1, 1.5: 2, 1.50: 3};',
                  'foreach k, v in {"a": 1, "a": 2, "b": 3} { t(k, v); } return 1;', 'return len({"a": {"i": 1, "i": 2}, "a": 5});']:
            add(s, "repeated-keys")
        # ONE evaluator prepared again and again with DIFFERENT scripts (the Script field is public) that share some constants and not
        # others: every program must be well formed and be the program of ITS script
        RE = ["return 70000 * 3.5 + y;", "x = 10; name = \"steve\"; if (name ~= /^st/) { return x; } return \"no\";", "y = 3.5; return [70000, \"steve\", y, x];",
              "function f(a) { return a + 70000; } return f(3.5) + len(\"steve\");", "return {\"steve\": 3.5, \"x\": 70000, \"y\": name};",
              "foreach name in [\"no\", \"steve\"] { x = name; } return x;", "return 3.5;", "switch (name) { case \"steve\" { return 70000; } default { return y; } }"]
        for _ in range(400 if tier == "thorough" else 40):
            seq = [rng.choice(RE) if rng.random() < 0.7 else gen.Gen(rng, max_depth=2).program(nstmts=rng.randint(1, 4), nfuncs=rng.randint(0, 1), depth=1) for _ in range(rng.randint(2, 4))]
            ops = ["prepare:" + rng.choice(["opt", "noopt"]), "exec:0"]
            for nxt in seq[1:]:
                ops += ["rescript:" + vlib.hx(nxt), "prepare:" + rng.choice(["opt", "noopt"]), "exec:0"]
            f = gen.struct_case(rng, seq[0], ops)
            out.append(Case("run", f, "re-prepared", note=" ||| ".join(seq)))
        for s in VALUELESS:
            # a construct that leaves no value, used where a value is needed: Prepare must refuse it
            for mode in ("opt", "noopt"):
                f = gen.struct_case(rng, s, ["prepare:" + mode, "exec:0"])
                out.append(Case("run", f, "valueless-" + mode, expect={"o2.prep": "error"}, note=s))
        n = 8000 if tier == "thorough" else 600
        for _ in range(n):
            g = gen.Gen(rng, max_depth=rng.choice([1, 2, 3]), illtyped=0.05, use_sqrt=rng.random() < 0.2)
            add(g.program(nstmts=rng.randint(1, 6), nfuncs=rng.randint(0, 3) if rng.random() < 0.5 else 0, depth=rng.choice([1, 2, 3])), "programs")
        if tier == "thorough":
            for kind, ns in [("consts", [8000]), ("body", [6000, 7281, 7290]), ("fnbody", [7281, 7290]), ("array", [65535, 65536]),
                             ("args", [65535, 65536]), ("hash", [32767, 32768]), ("ifbig", [7270, 7290])]:
                for k in ns:
                    add(big_script(kind, k), "limits-" + kind)
        else:
            add(big_script("body", 1200), "limits-body")
            add(big_script("consts", 300), "limits-consts")
            # just over the 16-bit limits: must be rejected by Prepare (or, if accepted, be well formed)
            add(big_script("body", 7290), "limits-body")
            add(big_script("ifbig", 7290), "limits-ifbig")
            # (a constant pool beyond 65535 entries takes Prepare minutes - the pool is searched linearly - so the pool
            # limit is not probed here; compile_program's size check covers it in the model, theorem C18_compile_structure)
        return out

    def in_class(self, klass, case):
        return klass == "valueless-operand" and "valueless" in case.tags

    def judge(self, case, go, model):
        return Prop.judge(self, case, go, model)

    def extra_checks(self, tier, st, rng=None, cases=None, go=None):
        lines, meta = [], []
        for c in cases:
            g = go.get(c.cid)
            if not g:
                continue
            for k in sorted(kk for kk in g if kk.endswith(".prog") or kk.endswith(".uprog")):      # every Prepare of the history
                p = g.get(k)
                if p and p != "UNOPT-REJECTED" and len(p) < 600000:
                    cid = "V%d" % len(lines)
                    lines.append(vlib.case_line(cid, "verify", prog=p, script=c.fields["script"] if len(c.fields["script"]) < 40000 else ""))
                    meta.append((cid, c, k, g))
        res, crashed = vlib.run_model(lines, tag="C18-verify") if lines else ({}, [])
        viol = []
        ok = bad = 0
        internal_after_ok = 0
        for (cid, c, k, g) in meta:
            r = res.get(cid)
            if r is None:
                continue
            v = r.get("verify", "")
            if r.get("moded") == "0":
                c.tags.add("valueless")
            if v == "ok":
                ok += 1
                from props.c03 import count_op, op_table
                nxt = "o%d.class" % (int(k[1:].split(".")[0]) + 1)        # the run that follows THIS Prepare
                if g.get(nxt) == "internal-error" and r.get("moded") != "0" and count_op(g.get(k, ""), "OpCall", op_table()) == 0:
                    internal_after_ok += 1
                    viol.append((c, "the run ended in a machine-internal error although the verifier accepts the (call-free) program (%s)" % k))
            elif v.startswith("bad"):
                bad += 1
                viol.append((c, "the %s program is not well formed: %s" % ("optimized" if k.endswith(".prog") else "compiled", v[4:])))
        if crashed:
            viol.append((None, "the verifier process crashed: %s" % (crashed[:1],)))
        return viol, {"programs_verified": ok + bad, "verifier_accepted": ok, "verifier_rejected": bad, "programs": ok + bad}

PROP = C18()

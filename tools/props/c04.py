"""C04 - scripts see the host object's fields faithfully."""
import struct
from runner import Prop, Case
import vlib
from gen import enc_value, fbits
from props.c01 import lit

def f32(x):
    return struct.unpack(">f", struct.pack(">f", x))[0]

# (host encoding, expected script value or UNSUPPORTED) generators for field kinds
UNSUPPORTED = object()

def rand_field(rng, depth=2):
    k = rng.randrange(16)
    if k == 0:
        v = rng.choice([0, 1, -1, 42, 9223372036854775807, -9223372036854775808]); return "I0.%d" % v, v
    if k == 1:
        v = rng.choice([0, 5, -7, 1 << 40]); return "I64.%d" % v, v
    if k == 2:
        b = rng.choice([8, 16, 32]); v = rng.choice([0, 1, -1, 100]); return "I%d.%d" % (b, v), UNSUPPORTED
    if k == 3:
        b = rng.choice([0, 8, 16, 32, 64]); v = rng.choice([0, 1, 200]); return "U%d.%d" % (b, v), UNSUPPORTED
    if k == 4:
        v = rng.choice([0.0, 1.5, -2.25, 1e10, 0.1]); return "F64.%s" % fbits(v), v
    if k == 5:
        v = f32(rng.choice([0.0, 1.5, 0.1, 3.25])); return "F32.%s" % fbits(v), v
    if k == 6:
        v = rng.choice(["", "a", "héllo", "multi\nline", "日本"]); return "S" + vlib.hx(v), v
    if k == 7:
        v = rng.random() < 0.5; return ("B1" if v else "B0"), v
    if k == 8:
        v = rng.choice([0, 1, 1700000000, -1, 253402300799]); return "T%d" % v, v
    if k == 9 and rng.random() < 0.25:
        # slices and maps that were never made (the zero value of such a field): an empty array / an empty hash, not null
        return rng.choice([("l", []), ("y", []), ("m", {}), ("o", {})])
    if k == 9:   # typed slice of a supported element kind
        kind = rng.choice(["s", "i", "i64", "f", "b", "t", "i32"])
        n = rng.randint(0, 4)
        if kind == "s":
            vs = [rng.choice(["a", "b", "héllo", ""]) for _ in range(n)]; enc = ["S" + vlib.hx(x) for x in vs]
        elif kind == "i":
            vs = [rng.choice([0, 1, -5, 99]) for _ in range(n)]; enc = ["I0.%d" % x for x in vs]
        elif kind == "i64":
            vs = [rng.choice([0, 1, -5, 99]) for _ in range(n)]; enc = ["I64.%d" % x for x in vs]
        elif kind == "i32":
            vs = [rng.choice([0, 1, -5, 99]) for _ in range(n)]; enc = ["I32.%d" % x for x in vs]
        elif kind == "f":
            vs = [rng.choice([0.5, 1.5, -2.0]) for _ in range(n)]; enc = ["F64.%s" % fbits(x) for x in vs]
        elif kind == "b":
            vs = [rng.random() < 0.5 for _ in range(n)]; enc = ["B1" if x else "B0" for x in vs]
        else:
            vs = [rng.choice([0, 86400, 1700000000]) for _ in range(n)]; enc = ["T%d" % x for x in vs]
        return "Lt(" + ",".join(enc) + ")", (vs if n > 0 else [])
    if k == 10:  # []interface{} as decoded from JSON
        n = rng.randint(0, 4)
        vs, enc = [], []
        for _ in range(n):
            e, v = rand_field(rng, 0)
            if v is UNSUPPORTED or v is None or isinstance(v, (list, dict)) or e[0] in "T":
                if e[0] == "T":
                    vs.append(v); enc.append(e)
                continue
            vs.append(v); enc.append(e)
        return "Li(" + ",".join(enc) + ")", vs
    if k == 11 and depth > 0:   # map[string]interface{}
        n = rng.randint(0, 3)
        d, enc = {}, []
        for key in rng.sample(["a", "b", "k", "Name", "x y"], n):
            e, v = rand_field(rng, depth - 1)
            if v is UNSUPPORTED:
                continue
            if e.startswith("Lt(") and e != "Lt()":
                continue
            d[key] = v; enc.append(vlib.hx(key) + "=" + e)
        return "M(" + ",".join(enc) + ")", d
    if k == 12:
        c = rng.randrange(7)
        if c == 5:
            return "O0(S61=S62,S6b=S)", {"a": "b", "k": ""}          # map[string]string
        if c == 6:
            return "O1(I0.0=I0.2,I0.1=S78)", {0: 2, 1: "x"}          # map[int]interface{}
        return ["Z", "Q", "P(I0.5)", "R(%s=I0.1)" % vlib.hx("Inner"), "X(I0.7)"][c], UNSUPPORTED
    if k == 13:
        return "N", None          # nil interface field
    if k == 14:
        return "X(I0.7)", UNSUPPORTED   # interface-typed field holding a value
    v = rng.choice([0, 7]); return "I0.%d" % v, v

class C04(Prop):
    id = "C04"
    compare_run = True
    property_obs = ("class", "value", "truth", "prep", "crash")
    rule = ("random struct types (0-12 exported fields of every kind: int/int8..64/uint*/float32/64/string/bool/time.Time/typed slices/"
            "[]interface{}/map[string]interface{}/other maps/nested structs/pointers/nil/interface-typed/chan), by value and by pointer, "
            "and JSON-shaped map[string]interface{} documents, materialised in Go with reflect.StructOf; scripts return each field, its type, "
            "an element, its length; a variable of the same name takes precedence; unknown names are null; two consecutive runs with different "
            "objects on one evaluator. Expectations for supported kinds computed in the generator; unsupported kinds must give null or an "
            "error, never a crash. non-trivial = object has at least one field")

    def cases(self, rng, tier):
        out = []
        n = 30000 if tier == "thorough" else 450
        for _ in range(n):
            nf = rng.randint(0, 12)
            names = rng.sample(["Name", "Count", "Ratio", "Flag", "When", "Tags", "Nums", "Meta", "Alpha", "Beta", "Gamma", "Delta", "X", "Yy"], nf)
            fields = [(nm,) + rand_field(rng) for nm in names]
            as_map = rng.random() < 0.25
            if as_map:
                fields = [(nm, e, v) for (nm, e, v) in fields if v is not UNSUPPORTED and not (e.startswith("Lt(") and e != "Lt()") and not e.startswith("I64") and not e.startswith("F32")]
                obj = "M(" + ",".join(vlib.hx(nm) + "=" + e for nm, e, v in fields) + ")"
            else:
                obj = "R(" + ",".join(vlib.hx(nm) + "=" + e for nm, e, v in fields) + ")"
                if rng.random() < 0.4:
                    obj = "P(" + obj + ")"
            # a second object for the second run
            fields2 = [(nm,) + rand_field(rng) for nm in rng.sample(["Name", "Count", "Ratio", "Flag"], rng.randint(0, 4))]
            obj2 = "R(" + ",".join(vlib.hx(nm) + "=" + e for nm, e, v in fields2) + ")"
            if not fields:
                probe = ("Nosuch", None, None)
            else:
                probe = rng.choice(fields)
            nm, e, v = probe
            kind = rng.randrange(6)
            exp = {}
            ops = []
            if kind == 0 or v is UNSUPPORTED or v is None:
                src = "return %s;" % nm
                if v is not UNSUPPORTED:
                    exp = {"class": "ok", "value": enc_value(v)}
            elif kind == 1:
                src = "return type(%s);" % nm
                ty = {bool: "boolean", int: "integer", float: "float", str: "string", list: "array", dict: "hash"}[type(v)]
                exp = {"class": "ok", "value": enc_value(ty)}
            elif kind == 2 and isinstance(v, (list, str)):
                i = rng.randint(0, len(v) + 1)
                src = "return %s[%d];" % (nm, i)
                exp = {"class": "ok", "value": enc_value(v[i]) if i < len(v) else "n"}
            elif kind == 3 and isinstance(v, (list, str, dict)):
                src = "return len(%s);" % nm
                exp = {"class": "ok", "value": enc_value(len(v))}
            elif kind == 4:
                # a variable of the same name takes precedence
                src = "return %s;" % nm
                ops = ["setvar:%s:%s" % (vlib.hx(nm), enc_value("from-variable"))]
                exp = {"class": "ok", "value": enc_value("from-variable")}
            else:
                src = "return [%s, nosuchfield, $%s];" % (nm, nm)
                exp = {"class": "ok", "value": "a(%s,n,%s)" % (enc_value(v), enc_value(v))}
            if v is not UNSUPPORTED and v is not None and rng.random() < 0.35 and len(fields) >= 2:
                # the object's fields are the same on both sides of a call of a user-defined function, whoever names one first
                nm2, e2, v2 = rng.choice([f for f in fields if f[0] != nm] or [probe])
                if v2 is not UNSUPPORTED and v2 is not None:
                    shape = rng.randrange(3)
                    if shape == 0:
                        src = "function getf() { return %s; } a = %s; b = getf(); return [a, b, %s];" % (nm2, nm, nm2)
                        want = [v, v2, v2]
                    elif shape == 1:
                        src = "function getf() { return %s; } b = getf(); return [b, %s, %s];" % (nm2, nm, nm2)
                        want = [v2, v, v2]
                    else:
                        src = "function inner() { return %s; } function outer() { x = %s; return [x, inner(), %s]; } return [outer(), %s];" % (nm, nm2, nm2, nm)
                        want = [[v2, v, v2], v]
                    ops = []
                    exp = {"class": "ok", "value": enc_value(want)}
            first_only = False
            if v is not UNSUPPORTED and v is not None and rng.random() < 0.3 and [f for f in fields if f[0] != nm and f[2] is not UNSUPPORTED and f[2] is not None]:
                # a SCRIPT variable of the same name takes precedence from the moment it exists - also when the field (or another
                # field) has been read before in the same run, in a loop variable or a parameter of that name
                others = [f for f in fields if f[0] != nm and f[2] is not UNSUPPORTED and f[2] is not None]
                nm2, e2, v2 = rng.choice(others) if others else probe
                shape = rng.randrange(5)
                if shape == 0:
                    src = "a = %s; %s = \"shadow\"; return [a, %s, $%s];" % (nm, nm, nm, nm); want = [v, "shadow", "shadow"]
                elif shape == 1:
                    src = "a = %s; %s = 5; b = %s; %s = b + 1; return [a, %s];" % (nm2, nm, nm, nm, nm); want = [v2, 6]
                elif shape == 2:
                    src = "a = %s; s = \"\"; foreach %s in [\"p\", \"q\"] { s = s + %s; } return [a, s];" % (nm2, nm, nm); want = [v2, "pq"]
                elif shape == 3:
                    src = "function f(%s) { x = %s; return [x, %s]; } return [%s, f(7)];" % (nm, nm2, nm, nm); want = [v, [v2, 7]]
                else:
                    src = "y = %s; if (true) { %s = 1; } x = %s; %s++; return [x, %s];" % (nm2, nm, nm, nm, nm); want = [1, 2]
                ops = []
                exp = {"class": "ok", "value": enc_value(want)}
                first_only = shape in (0, 1, 4)       # the script's own global is still there in the third run
            if isinstance(v, list) and v is not UNSUPPORTED and rng.random() < 0.5:
                # built-ins that return a rearranged copy leave the field as the host gave it, for every later mention in the run
                fn = rng.choice(["sort(%s)", "reverse(%s)", "sort(%s, true)", "reverse(sort(%s))"]) % nm
                src = "a = %s; b = %s; c = %s; return [a, len(b), c, %s];" % (nm, fn, nm, nm)
                ops = []
                exp = {"class": "ok", "value": enc_value([v, len(v), v, v])}
                first_only = False
            allops = ops + ["prepare:" + rng.choice(["opt", "noopt"]), "exec:0", "exec:1", "exec:0"]
            k = len(ops) + 1
            expect = {}
            for kk in ((k,) if first_only else (k, k + 2)):     # first and third run: the same object again
                for f, val in exp.items():
                    expect["o%d.%s" % (kk, f)] = val
            out.append(Case("run", {"script": vlib.hx(src), "objs": obj + ";" + obj2, "ops": ";".join(allops)}, "fields",
                            expect=expect, nontrivial=bool(fields), note=src))
        # struct types with unexported fields and embedded structs (static Go types of harness/hosttypes.go): the exported fields
        # must be readable whatever else the struct holds; what reflection refuses to hand over is null
        for _ in range(400 if tier == "thorough" else 60):
            nm, cnt = rng.choice(["bob", "", "héllo"]), rng.choice([0, 7, 70000])
            k = rng.choice("123456789")
            obj = "K%s(%s,%d)" % (k, vlib.hx(nm), cnt)
            views = {"1": {"Name": nm, "Count": cnt, "priv": 3, "secret": "s3cr3t", "ratio": 2.5, "flag": True},
                     "2": {"Name": nm, "Count": cnt, "p": None, "when": None, "inn": None, "i": None},
                     "3": {"Name": nm, "Count": cnt, "l": None, "s": None, "m": {"a": 1, "b": None, "c": None, "d": "x"}},
                     "4": {"Name": nm, "Count": cnt, "privInner": None},
                     # (whether the fields of an embedded struct are visible under their own names is not demanded either way;
                     # the struct's own field of the same name must win)
                     "5": {"Name": nm, "ID": cnt, "PubInner": None},
                     # one Go map reachable by two paths (no cycle) is a hash on both; maps that were never made are empty hashes
                     "6": {"Name": nm, "Count": cnt, "Billing": {"city": nm, "zip": cnt}, "Shipping": {"city": nm, "zip": cnt}, "NilA": {}, "NilB": {}},
                     "7": {"Name": nm, "Count": cnt, "x": {"city": nm, "zip": cnt}, "y": {"city": nm, "zip": cnt},
                           "z": {"inner": {"city": nm, "zip": cnt}}},
                     # a record with exported methods (value and pointer receivers): methods are not fields
                     "8": {"Name": nm, "Count": cnt, "Discard": None, "Touch": None, "Secret": None, "Size": None},
                     "9": {"Name": nm, "Count": cnt, "Discard": None, "Touch": None, "Secret": None, "Size": None}}[k]
            names = list(views)
            probe = rng.sample(names, min(len(names), rng.randint(1, 3)))
            src = "return [%s];" % ", ".join(probe)
            if rng.random() < 0.3:
                f = rng.choice(names)
                src = "x = %s; if (Name == %s) { return [x, Name]; } return [x];" % (f, lit(nm))
                want = [views[f], nm]
            else:
                want = [views[f] for f in probe]
            op = rng.choice(["exec:0", "exec:0;exec:0"])
            exp = {}
            for j in range(len(op.split(";"))):
                exp["o%d.class" % (1 + j)] = "ok"
                exp["o%d.value" % (1 + j)] = enc_value(want)
            out.append(Case("run", {"script": vlib.hx(src), "objs": obj, "ops": "prepare:opt;" + op}, "unexported-fields", expect=exp, note=src))
        # hostile top-level objects: never a crash
        for obj in ["N", "I0.5", "S" + vlib.hx("str"), "Li(I0.1)", "Q", "Z", "P(I0.5)", "O0(S61=S62)", "O1(I0.1=I0.2)", "F64.%s" % fbits(1.5), "B1",
                    "R(%s=Z)" % vlib.hx("C"), "R(%s=Q,%s=O0(S61=S62))" % (vlib.hx("A"), vlib.hx("B")), "M(%s=O0(S61=S62))" % vlib.hx("k"),
                    "M(%s=R(%s=I0.1))" % (vlib.hx("k"), vlib.hx("F")), "P(P(R(%s=I0.1)))" % vlib.hx("F")]:
            for src in ["return Field;", "return 1;", "x = A; return B;", "return len(k);"]:
                for op in ("exec:0", "run:0"):
                    out.append(Case("run", {"script": vlib.hx(src), "objs": obj, "ops": "prepare:opt;%s;%s" % (op, op)}, "hostile", note=src))
        # the host keeps ONE record, changes it in place between runs and passes the same pointer every time: every run reads the
        # record as it is NOW (harness step `pexec`)
        for _ in range(60 if tier == "thorough" else 12):
            src = rng.choice(["return [Name, ID];", "function f() { return Name; } return string(Name) + \":\" + string(ID) + \":\" + f();",
                              "x = ID; function g() { return ID * 2; } return [x, g(), Name, len(Name)];", "if (ID > 10) { return Name; } return ID;"])
            vals = [(rng.choice(["alpha", "beta", "gamma", "", "héllo"]), rng.choice([0, 1, 22, 333, 70000])) for _ in range(rng.randint(2, 5))]
            ops = ["prepare:" + rng.choice(["opt", "noopt"])] + ["pexec:%s,%d" % (vlib.hx(n), k) for n, k in vals]
            exp = {}
            for j, (n, k) in enumerate(vals):
                if src.startswith("return [Name"):
                    exp["o%d.value" % (j + 1)] = enc_value([n, k])
                elif src.startswith("if"):
                    exp["o%d.value" % (j + 1)] = enc_value(n if k > 10 else k)
                exp["o%d.class" % (j + 1)] = "ok"
            out.append(Case("run", {"script": vlib.hx(src), "objs": "N", "ops": ";".join(ops)}, "same-pointer-changed-in-place", expect=exp, note=src))
        return out

    def judge(self, case, go, model):
        out = Prop.judge(self, case, go, model)
        for k, v in go.items():
            if k.endswith(".crash"):
                out.append("%s: the call panicked into the caller" % k)
            if k.endswith(".value") and v == "NIL":
                out.append("%s: Execute returned a nil object without an error" % k)
        return out

PROP = C04()

"""C14 - literals mean what they spell; layout and comments mean nothing."""
import random
from runner import Prop, Case
import vlib

def tok(ty, lit):
    return vlib.hx(ty) + ":" + vlib.hx(lit)

SAFE = {"(", ")", "[", "]", "{", "}", ",", ";", "?", ":"}
OPS = ["&&", "=", "*", "*=", "!", ":", ",", "~=", "..", "==", ">", ">=", "<", "<=", "-", "-=", "--", "!~",
       "%", "!=", "||", "+", "++", "+=", "**", "?", ";", "(", ")", "[", "]", "{", "}", "√"]
KEYWORDS = {"case": "case", "default": "DEFAULT", "else": "ELSE", "false": "FALSE", "for": "FOR",
            "foreach": "FOREACH", "function": "FUNCTION", "if": "IF", "in": "IN", "local": "LOCAL",
            "return": "RETURN", "switch": "switch", "true": "TRUE", "while": "WHILE"}
DIV_OK = {"RPAREN", "IDENT", "RSQUARE", "FLOAT", "INT"}
IDENT_CHARS = "abcxyzABC_$09" + "éλ中"
STR_CHARS = ["a", "b", " ", "/", "/", "'", '"', "\\", "\n", "\t", "\r", "n", "r", "t", "0", "é", "中",
             "\U0001F600", "√", ";", "{", "#", "\x01", "\x7f", " ", "�"]

def rand_ident(rng):
    while True:
        s = rng.choice("abcxyzABC_$éλ") + "".join(rng.choice(IDENT_CHARS) for _ in range(rng.randint(0, 5)))
        if s not in KEYWORDS:
            return s

def rand_content(rng, n=None):
    n = rng.randint(0, 12) if n is None else n
    return "".join(rng.choice(STR_CHARS) for _ in range(n))

def quote(rng, s, q):
    out = [q]
    for ch in s:
        if rng.random() < 0.05:
            out.append("\\\n")                      # continuation: contributes nothing
        if ch == "\\":
            out.append("\\\\")
        elif ch == q:
            out.append("\\" + q)
        elif ch == "\n" and rng.random() < 0.6:
            out.append("\\n")
        elif ch == "\t" and rng.random() < 0.6:
            out.append("\\t")
        elif ch == "\r" and rng.random() < 0.6:
            out.append("\\r")
        elif ch == '"' and rng.random() < 0.5:
            out.append('\\"')
        elif ch not in "nrt\n\\" and ch != q and rng.random() < 0.08:
            out.append("\\" + ch)                   # any other escaped character is literal
        else:
            out.append(ch)
    out.append(q)
    return "".join(out)

REGEX_CHARS = ["a", "b", ".", "*", "+", "^", "$", "[", "]", "(", ")", "|", " ", "é", "\\/", "\\\\", "\\.", "\\d", "x", "0"]
def rand_regexp(rng):
    parts = [rng.choice(REGEX_CHARS) for _ in range(rng.randint(1, 8))]
    src_body = "".join(parts)
    body = []
    i = 0
    while i < len(src_body):          # backslash takes the next character literally
        if src_body[i] == "\\":
            body.append(src_body[i + 1]); i += 2
        else:
            body.append(src_body[i]); i += 1
    body = "".join(body)
    flags = rng.choice(["", "", "i", "m", "im", "mi", "ii", "imi"])
    uniq = ""
    for f in flags:
        if f not in uniq:
            uniq += f
    lit = ("(?" + uniq + ")" if uniq else "") + body
    return "/" + src_body + "/" + flags, lit

def rand_token(rng, prev_ty):
    """(source text, type, literal)"""
    r = rng.random()
    if r < 0.22:
        s = rand_ident(rng); return s, "IDENT", s
    if r < 0.32:
        k = rng.choice(sorted(KEYWORDS)); return k, KEYWORDS[k], k
    if r < 0.42:
        s = str(rng.choice([0, 1, 7, 42, 65534, 65535, 65536, 9223372036854775807])) if rng.random() < 0.5 else "".join(rng.choice("0123456789") for _ in range(rng.randint(1, 20)))
        return s, "INT", s
    if r < 0.48:
        s = "".join(rng.choice("0123456789") for _ in range(rng.randint(1, 6))) + "." + "".join(rng.choice("0123456789") for _ in range(rng.randint(1, 6)))
        return s, "FLOAT", s
    if r < 0.60:
        c = rand_content(rng); q = rng.choice("'\"")
        return quote(rng, c, q), "STRING", c
    if r < 0.66 and prev_ty not in DIV_OK and prev_ty != "REGEXP":
        src, lit = rand_regexp(rng); return src, "REGEXP", lit
    if r < 0.72 and prev_ty in DIV_OK:
        if rng.random() < 0.3:
            return "/=", "/=", "/="
        return "/", "/", "/"
    if r < 0.75 and prev_ty in ("IDENT", "RPAREN", "RSQUARE"):
        return ".", ".", "."
    o = rng.choice(OPS)
    return o, o, o

TYNAME = {"(": "LPAREN", ")": "RPAREN", "[": "LSQUARE", "]": "RSQUARE"}

def rand_gap(rng, may_be_empty):
    if may_be_empty and rng.random() < 0.5:
        return ""
    parts = []
    for _ in range(rng.randint(1, 3)):
        r = rng.random()
        if r < 0.55:
            parts.append(rng.choice([" ", " ", "\t", "\n", "\r", "  "]))
        else:
            parts.append("//" + "".join(rng.choice("ab /*\"'x\\") for _ in range(rng.randint(0, 6))) + "\n")
    return "".join(parts)

def gen_sequence(rng):
    toks = []
    prev = ""
    n = rng.randint(1, 25)
    while len(toks) < n:
        src, ty, lit = rand_token(rng, prev)
        if ty == "." and False:
            continue
        toks.append((src, ty, lit))
        prev = TYNAME.get(ty, ty)
        if ty == ".":                       # a period is followed by an identifier
            s = rand_ident(rng); toks.append((s, "IDENT", s)); prev = "IDENT"
    return toks

def render(rng, toks):
    out = [rand_gap(rng, True)]
    for i, (src, ty, lit) in enumerate(toks):
        out.append(src)
        if i + 1 < len(toks):
            nxt = toks[i + 1]
            glue = (src in SAFE) or (nxt[0] in SAFE)
            # a string may directly follow or precede anything but another string-ish/ident char issue: keep conservative
            gap = rand_gap(rng, glue)
            if src == "/" and gap.startswith("/"):
                gap = " " + gap                  # `///` would read as a comment, not as division
            out.append(gap)
    tail = rand_gap(rng, True)
    if rng.random() < 0.3:
        tail += "// trailing comment without newline"
    if toks and toks[-1][0] == "/" and tail.startswith("/"):
        tail = " " + tail
    out.append(tail)
    return "".join(out)

class C14(Prop):
    id = "C14"
    compare_obs = ("tokens",)
    property_obs = ("tokens",)
    rule = ("streams: layout (random token sequences rendered with 3 random layouts of blanks/newlines/comments; expected token list known by construction), "
            "strings (random Unicode contents quoted with the language's escape rules in both quote styles), regexps, numbers, slash-context, "
            "raw (random bytes / mutated sources: termination and agreement with the model only). distinct = distinct case lines; "
            "non-trivial = at least 2 tokens before EOF or a literal with an escape/multi-byte character")

    def cases(self, rng, tier):
        big = tier == "thorough"
        out = []
        n_layout = 6000 if big else 700
        for g in range(n_layout):
            toks = gen_sequence(rng)
            exp = ",".join([tok(ty, lit) for (_, ty, lit) in toks] + [tok("EOF", "")])
            for k in range(3):
                src = render(rng, toks)
                out.append(Case("lex", {"script": vlib.hx(src)}, "layout", expect={"tokens": exp},
                                nontrivial=len(toks) >= 2, group="L%d" % g))
        for _ in range(20000 if big else 1500):
            c = rand_content(rng, rng.randint(0, 24)); q = rng.choice("'\"")
            src = quote(rng, c, q)
            exp = ",".join([tok("STRING", c), tok("EOF", "")])
            out.append(Case("lex", {"script": vlib.hx(src)}, "strings", expect={"tokens": exp},
                            nontrivial=("\\" in src or any(ord(ch) > 127 for ch in c))))
        # U+0000 is a character like any other (known finding D45: the lexer uses it as its end-of-input mark)
        for src, toks in [('"a\x00b"', [("STRING", "a\x00b")]), ("'\x00'", [("STRING", "\x00")]), ('"\x00\x00z" 1', [("STRING", "\x00\x00z"), ("INT", "1")]),
                          ("x ~= /a\x00b/", [("IDENT", "x"), ("~=", "~="), ("REGEXP", "a\x00b")]), ("// c \x00 d\n1", [("INT", "1")]), ("1 // \x00", [("INT", "1")])]:
            c = Case("lex", {"script": vlib.hx(src)}, "nul-character", expect={"tokens": ",".join([tok(t, l) for t, l in toks] + [tok("EOF", "")])}, note=repr(src))
            c.tags.add("nul-character")
            out.append(c)
        for _ in range(8000 if big else 600):
            src, lit = rand_regexp(rng)
            exp = ",".join([tok("REGEXP", lit), tok("EOF", "")])
            out.append(Case("lex", {"script": vlib.hx(src)}, "regexps", expect={"tokens": exp}))
        for _ in range(4000 if big else 300):
            if rng.random() < 0.5:
                s = "".join(rng.choice("0123456789") for _ in range(rng.randint(1, 22))); ty = "INT"
            else:
                s = "".join(rng.choice("0123456789") for _ in range(rng.randint(1, 8))) + "." + "".join(rng.choice("0123456789") for _ in range(rng.randint(1, 8))); ty = "FLOAT"
            out.append(Case("lex", {"script": vlib.hx(s)}, "numbers", expect={"tokens": ",".join([tok(ty, s), tok("EOF", "")])}, nontrivial=len(s) > 1))
        # what a numeric / string literal DENOTES (run through Prepare and Execute): decimal value whatever the number of leading
        # zeros, floats by their decimal expansion, ranges by their bounds
        from gen import enc_value
        def val_case(src, v, stream="literal-values"):
            exp = {"o0.prep": "ok", "o1.class": "ok", "o1.value": enc_value(v)} if v is not NotImplemented else {"o0.prep": "error"}
            return Case("run", {"script": vlib.hx(src), "objs": "N", "ops": "prepare:" + rng.choice(["opt", "noopt"]) + ";exec:0"}, stream, expect=exp, note=src)
        ints = ["0", "00", "7", "007", "010", "08", "09", "0644", "0100", "0123456789", "65534", "65535", "65536", "000065536", "9223372036854775807", "0009223372036854775807"]
        ints += ["".join(rng.choice("0123456789") for _ in range(rng.randint(1, 17))) for _ in range(200 if big else 40)]
        ints += ["0" * rng.randint(1, 3) + "".join(rng.choice("0123456789") for _ in range(rng.randint(1, 12))) for _ in range(200 if big else 40)]
        for t in ints:
            out.append(val_case("return %s;" % t, int(t)))
            out.append(val_case("return %s + 1;" % t, int(t) + 1) if int(t) < 9223372036854775807 else val_case("return %s;" % t, int(t)))
            out.append(val_case("return [%s][0] == %d;" % (t, int(t)), True))
        for t in ["0.5", "007.50", "010.25", "1.0", "00.125", "65535.5", "3.14159", "0.0", "100.000"]:
            out.append(val_case("return %s;" % t, float(t)))
        for a, b in (("1", "3"), ("01", "03"), ("007", "010"), ("0", "0")):
            out.append(val_case("return %s..%s;" % (a, b), list(range(int(a), int(b) + 1))))
        # literals of different kinds with the same spelling in one script each denote their own value
        out.append(val_case('x = 2.5; return ["2.5", 2.5, x];', ["2.5", 2.5, 2.5]))
        out.append(val_case('x = "2.5"; return [2.5 + 1, x];', [3.5, "2.5"]))
        out.append(val_case('x = 70000; return ["70000", 70000, x + 1];', ["70000", 70000, 70001]))
        out.append(val_case('x = "70000"; return [70000 + 1, x];', [70001, "70000"]))
        out.append(val_case('return "a.c" ~= /a.c/;', True))
        out.append(val_case('abc = "xyz"; return [abc ~= /abc/, "abc" ~= /abc/, type(/abc/), type("abc")];', [False, True, "regexp", "string"]))
        out.append(val_case('root = 1; return [type(/root/), "root", root];', ["regexp", "root", 1]))
        # what a REGEXP literal denotes once parsed (the parser splits a leading `(?flags)` group off the literal): a pattern made of
        # literal text - any Unicode - in groups matches exactly that text; i makes it case-blind
        words = ["é", "ab", "ő", "πρ", "日本", "x", "Éa", "ñ"] + ["".join(rng.choice("abéőπ日ñzÉ") for _ in range(rng.randint(1, 4))) for _ in range(60 if big else 12)]
        for w in words:
            other = w + "q"
            for pat, subj, want in [("(?:%s)" % w, w, True), ("(?:%s)$" % w, other, False), ("^(?:%s)b" % w, w + "b", True), ("(%s)" % w, w, True),
                                    ("(?i:%s)" % w, w.upper(), True), ("(?i)%s" % w, w.upper(), True), ("(?i)^%s$" % w, other.upper(), False),
                                    ("^(?:%s)(?:%s)$" % (w, w), w + w, True), ("(?:%s)|zz" % w, "zz", True), ("(?U:%s+)x" % w, w + w + "x", True)]:
                out.append(val_case('return "%s" ~= /%s/;' % (subj, pat), want, "regexp-values"))
                out.append(val_case('return "%s" !~ /%s/;' % (subj, pat), not want, "regexp-values"))
            out.append(val_case('return "%s" ~= /(?:%s)/i;' % (w.upper(), w), True, "regexp-values"))
            out.append(val_case('return "%s" ~= /^(?:%s)$/m;' % ("k\n" + w, w), True, "regexp-values"))
        # integer literals just beyond the largest integer denote nothing: Prepare refuses them (19 digits and more)
        for t in ["9223372036854775808", "9223372036854775809", "9999999999999999999", "18446744073709551615", "18446744073709551616", "09223372036854775808", "92233720368547758070"]:
            out.append(val_case("return %s;" % t, NotImplemented, "literal-values"))
            out.append(val_case("if (%s > 0) { return 1; } return 2;" % t, NotImplemented, "literal-values"))
        for t in ["9223372036854775806", "1000000000000000000", "999999999999999999", "9223372036854775807"]:
            out.append(val_case("return %s;" % t, int(t), "literal-values"))
        for t in ["0x10", "0b11", "0o17", "1_000", "1e3", "0xff", "12abc"]:
            out.append(val_case("return %s;" % t, NotImplemented))
        # ranges: 1..3 is INT DOTDOT INT
        for a, b in ((1, 3), (0, 0), (10, 65536)):
            s = "%d..%d" % (a, b)
            out.append(Case("lex", {"script": vlib.hx(s)}, "numbers",
                            expect={"tokens": ",".join([tok("INT", str(a)), tok("..", ".."), tok("INT", str(b)), tok("EOF", "")])}))
        # slash context: division after ) ident ] float int, regexp otherwise
        ctx = [("(a)", [("(", "("), ("IDENT", "a"), (")", ")")], True), ("a", [("IDENT", "a")], True),
               ("a[1]", [("IDENT", "a"), ("[", "["), ("INT", "1"), ("]", "]")], True), ("1.5", [("FLOAT", "1.5")], True),
               ("1", [("INT", "1")], True), ("(", [("(", "(")], False), (",", [(",", ",")], False), ("=", [("=", "=")], False),
               ("==", [("==", "==")], False), ("~=", [("~=", "~=")], False), ("!~", [("!~", "!~")], False),
               ("return", [("RETURN", "return")], False), ("in", [("IN", "in")], False), ("{", [("{", "{")], False),
               ("[", [("[", "[")], False), ("&&", [("&&", "&&")], False), ("?", [("?", "?")], False), (":", [(":", ":")], False),
               ("!", [("!", "!")], False), (";", [(";", ";")], False), ("+", [("+", "+")], False), ("case", [("case", "case")], False)]
        for src, ts, isdiv in ctx:
            for sp in ("", " ", "\n"):
                full = src + sp + "/ b /" if True else ""
                if isdiv:
                    exp = ts + [("/", "/"), ("IDENT", "b"), ("/", "/"), ("EOF", "")]
                else:
                    exp = ts + [("REGEXP", " b "), ("EOF", "")]
                if sp == "" and src[-1].isalnum() is False and src[-1] == "/":
                    continue
                out.append(Case("lex", {"script": vlib.hx(full)}, "slash", expect={"tokens": ",".join(tok(a, b) for a, b in exp)}))
        # raw: random bytes and mutated sources - termination + agreement with the model
        seeds = [render(rng, gen_sequence(rng)) for _ in range(50)]
        for _ in range(20000 if big else 1500):
            r = rng.random()
            if r < 0.4:
                b = bytes(rng.choice(b"ab01 \n\t/\\\"'*=!<>&|~.+-;(){}[]?:%\x00\xe2\x88\x9a\xff\xc3") for _ in range(rng.randint(0, 40)))
            else:
                s = bytearray(rng.choice(seeds).encode("utf-8"))
                for _ in range(rng.randint(1, 4)):
                    if not s:
                        break
                    i = rng.randrange(len(s))
                    op = rng.random()
                    if op < 0.4:
                        del s[i]
                    elif op < 0.7:
                        s[i] = rng.choice(b"\"'/\\\n\x00 =")
                    else:
                        s[i:i] = bytes([rng.choice(b"\"'/\\\n\x00 =")])
                b = bytes(s)
            out.append(Case("lex", {"script": b.hex()}, "raw", nontrivial=len(b) > 3))
        return out

    def judge(self, case, go, model):
        out = Prop.judge(self, case, go, model)
        if go.get("tokens") == "TIMEOUT":
            out.append("tokenisation did not terminate within 10s")
        return out

    def judge_groups(self, groups, go):
        out = []
        for name, cs in groups.items():
            ts = set(go.get(c.cid, {}).get("tokens") for c in cs)
            if len(ts) > 1:
                out.append((cs[0], "the same token sequence under different layouts of whitespace/comments gives different token streams"))
        return out

    def in_class(self, klass, case):
        return klass == "nul-character" and "nul-character" in case.tags

PROP = C14()

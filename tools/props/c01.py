"""C01 - expressions evaluate to the value the language defines, or to an error."""
from runner import Prop, Case
import gen, vlib
from gen import enc_value, enc_host_value, enc_struct

# (literal text, python value for SetVariable/field or None when only a literal exists)
INTS = [0, 1, 2, 7, 10, 255, 65534, 65535, 65536, 9223372036854775807]
NEG = [-1, -7, -9223372036854775808]
FLOATS = [0.0, 0.1, 1.5, 2.25, 10.0, 65535.5]
STRS = ["", "a", "b", "abc", "10", "9", "héllo", "a\nb", " a "]
ARRS = [[], [1, "a"], [1, 2, 3], ["a", "b"]]
HASHES = [{}, {"a": 1}]
REGEXPS = ["/a/", "/^a.*b$/i", "/[0-9]+/"]

def lit(v):
    if v is None:
        return "nosuchname"
    if isinstance(v, bool):
        return "true" if v else "false"
    if isinstance(v, int):
        return str(v) if v >= 0 else "(-%d)" % (-v) if v != -9223372036854775808 else "(-9223372036854775807 - 1)"
    if isinstance(v, float):
        s = repr(v)
        return s if v >= 0 else "(-%s)" % s[1:]
    if isinstance(v, str):
        return '"' + v.replace("\\", "\\\\").replace('"', '\\"').replace("\n", "\\n") + '"'
    if isinstance(v, list):
        return "[" + ", ".join(lit(x) for x in v) + "]"
    if isinstance(v, dict):
        return "{" + ", ".join("%s: %s" % (lit(k), lit(x)) for k, x in v.items()) + "}"
    if isinstance(v, tuple) and v[0] == "re":
        return v[1]
    raise ValueError(v)

BINOPS = ["+", "-", "*", "/", "%", "**", "<", "<=", ">", ">=", "==", "!=", "~=", "!~", "in", "&&", "||", ".."]

def pool(tier):
    p = [0, 1, 2, 10, 65534, 65535, 65536, -1, 1.5, 0.0, 2.25, "", "a", "abc", "10", "9", "héllo", "éabc", True, False, None,
         [], [1, "a"], {}, {"a": 1}, ("re", "/a/"), ("re", "/^a.*b$/i")]
    if tier == "thorough":
        p = INTS + NEG + FLOATS + STRS + [True, False, None] + ARRS + HASHES + [("re", r) for r in REGEXPS]
    return p

class C01(Prop):
    id = "C01"
    compare_run = True
    property_obs = ("class", "value", "prep")
    rule = ("table: every binary operator x ordered pair of pool values (boundary and ordinary values of all 8 types), "
            "each unary operator and index x pool; provenance literal (quick) and also SetVariable / struct field (thorough); "
            "nested: random well-typed and ill-typed nestings to depth 4 over variables and fields. "
            "non-trivial = the expression contains at least one operator; distinct = distinct case lines. "
            "judged: Go's class and value against the extracted model (proved equal to the operator table)")

    def cases(self, rng, tier):
        out = []
        p = pool(tier)
        provs = ["lit"] if tier == "quick" else ["lit", "var", "field"]
        def mk(expr_fmt, a, b, prov, stream):
            ops, objs = [], "N"
            if prov == "lit" or any(isinstance(x, tuple) for x in (a, b) if x is not None):
                la, lb = lit(a), (lit(b) if b is not NotImplemented else None)
            elif prov == "regexp-subject-var":
                pass
            elif prov == "var":
                la, lb = "va", "vb"
                if a is not None:
                    ops.append("setvar:%s:%s" % (vlib.hx("va"), enc_value(a)))
                if b is not None and b is not NotImplemented:
                    ops.append("setvar:%s:%s" % (vlib.hx("vb"), enc_value(b)))
            else:
                la, lb = "Fa", "Fb"
                fields = []
                if a is not None:
                    fields.append(("Fa", a))
                if b is not None and b is not NotImplemented:
                    fields.append(("Fb", b))
                objs = enc_struct(fields) if fields else "N"
            src = "return " + (expr_fmt % (la, lb) if b is not NotImplemented else expr_fmt % la) + ";"
            return Case("run", {"script": vlib.hx(src), "objs": objs, "ops": ";".join(ops + ["prepare:" + rng.choice(["noopt", "opt"]), "exec:0"])},
                        stream, note=src)
        for prov in provs:
            for op in BINOPS:
                for a in p:
                    for b in p:
                        out.append(mk("(%s " + op.replace("%", "%%") + " %s)", a, b, prov, "table-" + prov))
            for a in p:
                for u in ["!%s", "-%s", "√%s"]:
                    out.append(mk(u, a, NotImplemented, prov, "unary-" + prov))
                for b in [0, 1, 2, 3, -1, 65536, "a", 1.5, None]:
                    out.append(mk("%s[%s]", a, b, prov, "index-" + prov))
        # ~= and !~ : the subject is tested line by line, each line stripped of outer white space
        subjects = ["steve", "  steve", "steve  ", " steve ", "   ", "", "a b", " a b ", "x\nsteve", "x \n  steve \ny", "\tsteve\t", "Steve", 10, 1.5, True, None]
        patterns = ["/^steve$/", "/steve/", "/^$/", "/[ ]/", "/^a b$/", "/^\\s/", "/\\s$/", "/^steve$/i", "/^1/", "/^x/", "/e$/"]
        for prov in provs:
            for a in subjects:
                for r in patterns:
                    for op in ("~=", "!~"):
                        out.append(mk("(%s " + op + " %s)", a, ("re", r), prov if not isinstance(a, type(None)) else "lit", "regexp-" + prov))
        n = 30000 if tier == "thorough" else 2500
        for _ in range(n):
            g = gen.Gen(rng, max_depth=rng.choice([2, 3, 4]), illtyped=rng.choice([0.0, 0.05, 0.2]),
                        use_calls=False, use_ternary=False)
            g.vars = {"vi": "int", "vf": "float", "vs": "str", "vb": "bool", "va": "arr", "vh": "hash"}
            e = g.expr(rng.choice(g.TYPES), g.max_depth)
            ops = ["setvar:%s:%s" % (vlib.hx(k), enc_value(v)) for k, v in
                   [("vi", rng.choice(INTS + NEG)), ("vf", rng.choice(FLOATS)), ("vs", rng.choice(STRS)),
                    ("vb", rng.random() < 0.5), ("va", rng.choice(ARRS)), ("vh", rng.choice(HASHES))]]
            f = gen.struct_case(rng, "return %s;" % e, ops + ["prepare:" + rng.choice(["noopt", "opt"]), "exec:0"], host_fns=())
            out.append(Case("run", f, "nested", nontrivial=any(c in e for c in "+-*/<>=!&|%")))
        return out

PROP = C01()

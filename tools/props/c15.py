"""C15 - numbers, strings and booleans are values, not shared cells."""
from runner import Prop, Case
import vlib
from gen import enc_value, enc_struct
from props.c01 import lit

LITS = [0, 1, 65534, 65535, 65536, 70000, 1.5, 2.25]
MUT = [("++", lambda v: v + 1), ("--", lambda v: v - 1), ("+= 2", lambda v: v + 2), ("-= 3", lambda v: v - 3),
       ("*= 2", lambda v: v * 2), ("/= 2", lambda v: (v // 2 if isinstance(v, int) else v / 2))]

class C15(Prop):
    id = "C15"
    compare_run = True
    property_obs = ("class", "value", "prep", "vars", "get")
    rule = ("programs that copy a value along chains (variable -> variable -> parameter -> array element -> field read) and then apply "
            "each mutator (++ -- += -= *= /=) to one link; literals on both sides of the inline limit (65534/65535/65536/70000) and floats; "
            "once, in loops and over several runs on one prepared evaluator; every alias observed; expectations computed in the generator; "
            "plus random sequences of copies (assignment, array/hash literal, element read, call, foreach, loop remembering the previous "
            "counter) interleaved with mutators on three variables, run 1-3 times on one evaluator and judged against the model (value semantics)")

    def cases(self, rng, tier):
        out = []
        def case(src, expects, stream, ops=(), objs="N", runs=1):
            allops = list(ops) + ["prepare:" + rng.choice(["opt", "noopt"])] + ["exec:0"] * runs
            exp = {}
            first = len(allops) - runs
            for r in range(runs):
                exp["o%d.class" % (first + r)] = "ok"
                if expects[r] is not None:
                    exp["o%d.value" % (first + r)] = expects[r]
            return Case("run", {"script": vlib.hx(src), "objs": objs, "ops": ";".join(allops)}, stream, expect=exp, note=src)
        for v in LITS:
            for (m, f) in MUT:
                stmt = ("b%s;" % m) if m in ("++", "--") else ("b %s;" % m)
                nv = f(v)
                # copy then mutate the copy: the original is untouched
                out.append(case("a = %s; b = a; %s return [a, b];" % (lit(v), stmt), [enc_value([v, nv])], "copy-var"))
                # mutate the original: the copy is untouched
                out.append(case("a = %s; b = a; a = a; %s return [b, a];" % (lit(v), stmt.replace("b", "a", 1)), [enc_value([v, nv])], "copy-var-rev"))
                # the literal denotes the same value afterwards, in the same run and in later runs
                out.append(case("b = %s; %s return [%s, b];" % (lit(v), stmt, lit(v)), [enc_value([v, nv])] * 3, "literal-stable", runs=3))
                # inside a loop
                out.append(case("n = 0; t = 0; while (n < 3) { b = %s; %s t = b; n = n + 1; } return [t, %s];" % (lit(v), stmt, lit(v)),
                                [enc_value([nv, v])] * 2, "literal-loop", runs=2))
                # through a parameter: the argument's source is untouched
                stmt_p = stmt.replace("b", "p", 1)
                out.append(case("function f(p) { %s return p; } a = %s; r = f(a); return [a, r];" % (stmt_p, lit(v)), [enc_value([v, nv])], "param"))
                # an array element's source / an element copied out of an array
                out.append(case("a = %s; arr = [a, a]; b = arr[0]; %s return [a, arr, b];" % (lit(v), stmt), [enc_value([v, [v, v], nv])], "array-elem"))
                # a field read: the object's field is untouched (observed again in the same run and in the next)
                if isinstance(v, int) or isinstance(v, float):
                    out.append(case("b = F; %s return [F, b];" % stmt, [enc_value([v, nv])] * 2, "field", objs=enc_struct([("F", v)]), runs=2))
                    out.append(case("%s return [F, G];" % stmt.replace("b", "F", 1), None and [], "field-direct", objs=enc_struct([("F", v), ("G", v)])) if False else None)
                # a variable given by the host: the host's object is untouched between runs only through the variable itself
                out.append(case("b = h; %s return [h, b];" % stmt, [enc_value([v, nv])] * 2, "hostvar",
                                ops=["setvar:%s:%s" % (vlib.hx("h"), enc_value(v))], runs=2))
                # foreach variable
                out.append(case("arr = [%s]; foreach b in arr { %s } return arr;" % (lit(v), stmt), [enc_value([v])], "foreach-elem"))
        out = [c for c in out if c is not None]
        # what a loop hands to the script - index, key, element, character - is a value too: a copy taken in one iteration (by
        # assignment, in an array literal, as an argument) is not changed by the iterations that follow
        for coll, n in [('["a", "b", "c"]', 3), ('"xyz"', 3), ("[10, 20, 30, 40]", 4), ("5..8", 4)]:
            for j in range(n):
                out.append(case("first = -1; foreach i, v in %s { if (i == %d) { first = i; } } return first;" % (coll, j), [enc_value(j)] * 2, "loop-index-copy", runs=2))
                out.append(case("foreach i, v in %s { if (i == %d) { pair = [i, i + 0]; } } return pair;" % (coll, j), [enc_value([j, j])], "loop-index-copy"))
                out.append(case("function keep(p) { return p; } foreach i, v in %s { if (i == %d) { k = keep(i); } } return k;" % (coll, j), [enc_value(j)], "loop-index-copy"))
                out.append(case("all = []; foreach i, v in %s { if (i <= %d) { last = i; } } foreach i2, v2 in %s { z = i2; } return last;" % (coll, j, coll), [enc_value(j)], "loop-index-copy"))
        out.append(case('ks = []; foreach k, v in {"a": 1, "b": 2, "c": 3} { if (k == "a") { f = k; g = v; } } return [f, g];', [enc_value(["a", 1])] * 2, "loop-index-copy", runs=2))
        out.append(case("foreach i, v in [7, 8, 9] { if (i == 0) { e = v; } v++; } return e;", [enc_value(7)], "loop-index-copy"))
        out.append(case("foreach i, v in [7, 8, 9] { if (i == 1) { e = i; } i++; } return e;", [enc_value(1)], "loop-index-copy"))
        # the legacy `$` prefix names the same variable (D44 repaired): ++ / -- / compound assignment through it change that variable
        for src, want in [("x = 1; $x++; return [x, $x];", [2, 2]), ("$b = 1; $b += 4; return [$b, b];", [5, 5]), ("x = 70000; y = x; $x--; return [x, y];", [69999, 70000]),
                          ("t = 0; foreach $v in [1, 2] { $v++; t = t + v; } return t;", 5), ("function f($p) { $p++; return $p + p; } a = 2; return [f(a), a];", [6, 2]),
                          ("function g() { local $l; $l = 5; l++; return $l; } return g();", 6), ("$q = 1.5; $q *= 2; return q;", 3.0)]:
            out.append(case(src, [enc_value(want)], "dollar-names"))
        # ... and so does a variable written in redundant parentheses (D43 repaired)
        for src, want in [("x = 1; (x)++; return x;", 2), ("x = 5; y = x; ((x))--; return [x, y];", [4, 5]), ("function f() { local q; q = 70000; (q)++; return q; } return [f(), f()];", [70001, 70001]),
                          ("t = 0; foreach v in [1, 2] { (v)++; t = t + v; } return t;", 5)]:
            out.append(case(src, [enc_value(want)], "parenthesised-postfix"))
        # what ++ / compound assignment did to a PARAMETER or LOCAL of a finished call is gone with the call: the next function or loop
        # that reads a global of the same name sees the global
        for src, want in [("function bump(n) { n++; return n; } function peek() { return n; } n = 5; bump(n); return peek();", 5),
                          ("function scale(total, k) { total *= k; return total; } total = 70000; r = scale(total, 2); t2 = 0; foreach x in [1] { t2 = total; } return [r, t2];", [140000, 70000]),
                          ("function twice(sum) { sum += sum; return sum; } sum = 1; twice(sum); foreach x in [1, 2, 3] { sum += x; } return sum;", 7),
                          ("function f() { local c; c = 1.5; c++; return c; } function g() { return c; } c = 9; a = f(); return [a, g(), c];", [2.5, 9, 9]),
                          ("function dec(v) { v--; v--; return v; } v = 10; dec(v); w = 0; while (w < 1) { w++; got = v; } return got;", 10),
                          ("function h(a, b) { a -= b; return a; } a = 100; b = 1; h(a, 30); function k(b) { return a; } return [k(0), a, b];", [100, 100, 1])]:
            out.append(case(src, [enc_value(want)] * 2, "after-call", runs=2))
        # strings and booleans
        out.append(case('a = "x"; b = a; b += "y"; return [a, b];', [enc_value(["x", "xy"])], "string"))
        out.append(case('a = "x"; b = a; b = b + "y"; return [a, b, "x"];', [enc_value(["x", "xy", "x"])] * 2, "string", runs=2))
        out.append(case('a = true; b = a; b = !b; return [a, b, true];', [enc_value([True, False, True])] * 2, "bool", runs=2))
        # the persistent counter: the only thing that changes between runs is the variable itself
        out.append(case("if (n) { n++; } else { n = 1; } return [n, 1];", [enc_value([1, 1]), enc_value([2, 1]), enc_value([3, 1])], "counter", runs=3))
        out.append(case("x = 70000; x++; return [x, 70000];", [enc_value([70001, 70000])] * 3, "pool-constant", runs=3))
        # literals held in the constant pool (above the inline limit, floats) as the RIGHT operand of arithmetic and compound
        # assignment: the literal, and variables assigned from it, must be unchanged afterwards - in this run and the next
        for L in [65535, 65536, 70000, 100000, 2.5]:
            for op, f in (("+", lambda a, b: a + b), ("-", lambda a, b: a - b), ("*", lambda a, b: a * b)):
                out.append(case("a = %s; b = 1; b %s= %s; return [a, b, %s];" % (lit(L), op, lit(L), lit(L)), [enc_value([L, f(1, L), L])] * 2, "pool-right-operand", runs=2))
                out.append(case("a = %s; y = 3 %s %s; return [a, y, %s];" % (lit(L), op, lit(L), lit(L)), [enc_value([L, f(3, L), L])] * 2, "pool-right-operand", runs=2))
                out.append(case("t = 0; foreach i in 1..3 { t = t %s %s; } return [t, %s];" % (op, lit(L), lit(L)),
                                [enc_value([f(f(f(0, L), L), L), L])] * 2, "pool-right-operand", runs=2))
                out.append(case("function g(n) { return n %s %s; } return [g(1), g(1), %s];" % (op, lit(L), lit(L)), [enc_value([f(1, L), f(1, L), L])] * 2, "pool-right-operand", runs=2))
        # the field of the host object as the thing mutated: copies made before must not change, nor the object's field in later runs
        for v in [3, 70000, 9.5]:
            for m in ("++", "--", " += 2", " *= 3"):
                stmt = "F%s;" % m
                nv = {"++": v + 1, "--": v - 1, " += 2": v + 2, " *= 3": v * 3}[m]
                obj = enc_struct([("F", v), ("G", v)])
                out.append(case("before = F; %s return [before, G];" % stmt, [enc_value([v, v])], "field-mutated", objs=obj))
                out.append(case("a = [F, G]; h = {\"k\": F}; %s return [a, h[\"k\"]];" % stmt, [enc_value([[v, v], v])], "field-mutated", objs=obj))
                out.append(case("foreach e in [F] { %s keep = e; } return keep;" % stmt, [enc_value(v)], "field-mutated", objs=obj))
                out.append(case("function id(p) { return p; } b = id(F); %s return [b, F];" % stmt, [enc_value([v, nv])], "field-mutated", objs=obj))
        # random sequences of copies and mutations: the model has value semantics, so any sharing shows up as a disagreement
        for _ in range(30000 if tier == "thorough" else 400):
            out.append(Case("run", {"script": vlib.hx(alias_program(rng)), "objs": enc_struct([("Count", rng.choice([3, 70000])), ("Ratio", 2.5)]),
                                    "ops": ";".join(["prepare:" + rng.choice(["opt", "noopt"])] + ["exec:0"] * rng.choice([1, 2, 3]) +
                                                    ["getvar:" + vlib.hx(v) for v in ("a", "b", "c", "prev")])}, "alias-sequences"))
        return out

def alias_program(rng):
    V = ["a", "b", "c"] + (["Count", "Ratio"] if rng.random() < 0.3 else [])
    pre = "function f(p) { p++; p++; return p; } function g(p) { q = p; p--; return [p, q]; } function k(p) { return p; } "
    st = ["%s = %s;" % (v, lit(rng.choice(LITS))) for v in V[:3]] if rng.random() < 0.8 else ["if (!a) { a = 1; b = 2.5; c = 70000; }"]
    st += ["arr = [a, b];", "h = {\"k\": c};", "prev = 0;", "r = 0;"]
    for _ in range(rng.randint(3, 9)):
        X, Y = rng.choice(V), rng.choice(V)
        st.append(rng.choice([
            "%s++;" % X, "%s++;" % X, "%s--;" % X, "%s += 2;" % X, "%s -= 1;" % X, "%s *= 2;" % X,
            "%s = %s;" % (Y, X), "%s = %s;" % (Y, X), "prev = %s;" % X, "arr = [%s, %s];" % (X, Y), "h = {\"k\": %s};" % X,
            "%s = arr[0];" % Y, "%s = h[\"k\"];" % Y, "r = f(%s);" % X, "r = g(%s);" % X, "%s = k(%s);" % (Y, X),
            "foreach e in [%s, %s] { e++; r = e; }" % (X, Y), "foreach e in arr { e--; }",
            "w = 0; while (w < 2) { prev = %s; %s++; w++; }" % (X, X), "w = 0; while (w < 3) { prev = %s; %s--; w += 1; }" % (X, X),
            "if (%s > %s) { %s++; } else { %s--; }" % (X, Y, X, Y), "%s = %s + 0;" % (Y, X), "%s = %s == %s ? %s : %s;" % (Y, X, Y, X, Y),
        ]))
    st.append("return [a, b, c, arr, h, prev, r];")
    return pre + " ".join(st)

PROP = C15()

"""C05 - one notion of truth decides conditions, logic operators and the filter verdict."""
from runner import Prop, Case
import vlib
from gen import enc_value, enc_struct
from props.c01 import lit

def truthy(v):
    if v is None:
        return False
    if isinstance(v, bool):
        return v
    if isinstance(v, (int, float)):
        return v > 0
    if isinstance(v, tuple) and v[0] == "re":
        return len(v[1]) > 2
    return len(v) > 0

POOL = [True, False, None, 0, 1, -1, 7, 65536, 0.0, 0.5, -1.5, "", "a", "false", "0", [], [0], [1, 2], {}, {"a": 0},
        ("re", "/a/")]

# (name, expression text producing the pool value v through that provenance, extra ops, objs) or None if impossible
def provenances(v):
    out = [("literal", lit(v), [], "N")]
    if not isinstance(v, tuple):
        if v is not None:
            out.append(("variable", "pv", ["setvar:%s:%s" % (vlib.hx("pv"), enc_value(v))], "N"))
            out.append(("field", "Fv", [], enc_struct([("Fv", v)])))
        else:
            out.append(("field", "Fv", [], enc_struct([("Fv", ("raw", "N"))])))   # nil interface field
        out.append(("host", "u(%s)" % lit(v), [], "N"))                          # returned by a host function
        out.append(("hostconst", "k()", ["addfn:%s:c%s" % (vlib.hx("k"), enc_value(v))], "N"))
    if isinstance(v, bool):
        out.append(("comparison", "(1 < 2)" if v else "(2 < 1)", [], "N"))
        out.append(("builtin", 'match("a", /a/)' if v else 'match("a", /b/)', [], "N"))
        out.append(("between", "between(2, 1, 3)" if v else "between(5, 1, 3)", [], "N"))
    if v is None:
        out.append(("builtin", 'int("x")', [], "N"))
        out.append(("index", "[1][5]", [], "N"))
    return out

class C05(Prop):
    id = "C05"
    compare_run = True
    property_obs = ("class", "value", "truth", "prep")
    rule = ("every pool value (all types; singletons and fresh objects) x provenance (literal, variable, struct field, host function "
            "result, comparison, built-in) x truth-consuming position (if, while, ternary, !, Run verdict; also with !x, !!x as the condition) and all ordered pairs of "
            "pool values under && and ||; expectations computed from the documented truth table, independent of the model")

    def cases(self, rng, tier):
        out = []
        base = ["addfn:%s:arg0" % vlib.hx("u")]
        def case(src, ops, objs, expect_value, stream, run=False):
            allops = base + ops + ["prepare:" + rng.choice(["opt", "noopt"]), ("run:0" if run else "exec:0")]
            k = len(allops) - 1
            exp = {"o%d.class" % k: "ok"}
            exp["o%d.%s" % (k, "truth" if run else "value")] = expect_value
            return Case("run", {"script": vlib.hx(src), "objs": objs, "ops": ";".join(allops)}, stream, expect=exp, note=src)
        for v in POOL:
            t = truthy(v)
            for (pname, e, ops, objs) in provenances(v):
                one, zero = ("i1", "i0")
                out.append(case("if (%s) { return 1; } return 0;" % e, ops, objs, one if t else zero, "if-" + pname))
                out.append(case("if (%s) { return 1; } else { return 0; }" % e, ops, objs, one if t else zero, "ifelse-" + pname))
                out.append(case("n = 0; while (%s) { n = 1; return n; } return n;" % e, ops, objs, one if t else zero, "while-" + pname))
                out.append(case("return (%s) ? 1 : 0;" % e, ops, objs, one if t else zero, "ternary-" + pname))
                out.append(case("return %s;" % e, ops, objs, "b1" if t else "b0", "run-" + pname, run=True))
                bang = (not v) if isinstance(v, bool) else (v is None)
                out.append(case("return !%s;" % e, ops, objs, "b1" if bang else "b0", "bang-" + pname))
                out.append(case("return !(!%s);" % e, ops, objs, "b0" if bang else "b1", "bangbang-" + pname))
                # the value of !x consumed by every truth-consuming position: they must all see the same boolean
                nb = one if bang else zero
                out.append(case("if (!%s) { return 1; } return 0;" % e, ops, objs, nb, "if-bang-" + pname))
                out.append(case("if (!%s) { return 1; } else { return 0; }" % e, ops, objs, nb, "ifelse-bang-" + pname))
                out.append(case("return !%s ? 1 : 0;" % e, ops, objs, nb, "ternary-bang-" + pname))
                out.append(case("return (!%s) ? 1 : 0;" % e, ops, objs, nb, "ternary-bang-" + pname))
                out.append(case("return !(!%s) ? 0 : 1;" % e, ops, objs, nb, "ternary-bangbang-" + pname))
                out.append(case("n = 0; while (!%s) { n = 1; return n; } return n;" % e, ops, objs, nb, "while-bang-" + pname))
                out.append(case("return !%s;" % e, ops, objs, "b1" if bang else "b0", "run-bang-" + pname, run=True))
                out.append(case("return (!%s && true);" % e, ops, objs, "b1" if bang else "b0", "and-bang-" + pname))
                out.append(case("return (!%s || false);" % e, ops, objs, "b1" if bang else "b0", "or-bang-" + pname))
                out.append(case("t = !%s; return t ? 1 : 0;" % e, ops, objs, nb, "ternary-bang-var-" + pname))
                out.append(case("return (%s ? 1 : 0) + (%s ? 10 : 20);" % (e, e), ops, objs, "i11" if t else "i20", "ternary-twice-" + pname))
        # && and || over all ordered pairs, literal and variable/field provenance
        for a in POOL:
            for b in POOL:
                ta, tb = truthy(a), truthy(b)
                for (pn, ea, opsa, objsa) in provenances(a)[:3 if tier == "quick" else 6]:
                    eb = lit(b)
                    out.append(case("return (%s && %s);" % (ea, eb), opsa, objsa, "b1" if (ta and tb) else "b0", "and-" + pn))
                    out.append(case("return (%s || %s);" % (ea, eb), opsa, objsa, "b1" if (ta or tb) else "b0", "or-" + pn))
                    out.append(case("return (%s && %s);" % (eb, ea), opsa, objsa, "b1" if (ta and tb) else "b0", "and-r-" + pn))
                    out.append(case("return (%s || %s);" % (eb, ea), opsa, objsa, "b1" if (ta or tb) else "b0", "or-r-" + pn))
        # random conditions over values of every type and origin, judged against the model
        import gen
        for _ in range(30000 if tier == "thorough" else 300):
            src = gen.truth_program(rng)
            ops = ["prepare:" + rng.choice(["opt", "noopt"]), rng.choice(["exec:0", "run:0"])]
            out.append(Case("run", gen.struct_case(rng, src, ops), "random-truth", note=src))
        return out

PROP = C05()

"""C16 - arrays, hashes, strings and ranges behave as ordered, total containers."""
from runner import Prop, Case
import vlib
from gen import enc_value, enc_struct
from props.c01 import lit

ARRAYS = [[], [7], [1, 2, 3], ["a", 1, 1.5, True], ["x", "héllo", "日本", ""], [[1, 2], [3]], list(range(10, 22)),
          [True, "x", 3], [[1, 2], 3, "a", 2.5], [False, [0], "b", 7, True]]
STRINGS = ["", "a", "abc", "héllo", "日本語", "a\nb", "  x  "]
HASHES = [{}, {"a": 1}, {"a": 1, "b": "two", "c": 3.5}, {1: "int", "1": "str", 1.5: "flt"}, {2: "two", 10: "ten", "x": [1, 2]},
          {1.5: "a", 1.25: "b", 1.75: "c", 1: "one"}, {0.5: "half", 0.25: "quarter", 0: "zero", "0.5": "text"}, {-1.5: "m", -1.25: "n", 2.5: "p", 2.25: "q"},
          {"ab": 1, "ba": 2, "a": 3, "b": 4, "": 5}, {"a": 1, "A": 2, "b": 3, "B": 4, "c": 5}, {"Key": 1, "key": 2, "KEY": 3, "kEY": 4}, {65535: "x", 65536: "y", 4294967296: "z", -1: "w"}]

def sort_key(k):
    # printed form, ties broken by type name (FLOAT < INTEGER < STRING)
    if isinstance(k, bool):
        return ("true" if k else "false", "BOOLEAN")
    if isinstance(k, int):
        return (str(k), "INTEGER")
    if isinstance(k, float):
        s = repr(k)
        return (s[:-2] if s.endswith(".0") else s, "FLOAT")
    return (k, "STRING")

class C16(Prop):
    id = "C16"
    compare_run = True
    property_obs = ("class", "value", "prep", "trace")
    rule = ("containers empty/singleton/many, mixed element types, multi-byte text, keys whose printed forms coincide (1, \"1\", 1.5); "
            "every integer index from -3 to len+3 and beyond; in / len / keys / foreach accumulation / nested foreach over the same "
            "container; provenance literal, variable and struct field; expectations computed independently in the generator")

    def cases(self, rng, tier):
        out = []
        def case(src, expect_value, stream, ops=(), objs="N", klass="ok"):
            allops = ["addfn:%s:void" % vlib.hx("t")] + list(ops) + ["prepare:" + rng.choice(["opt", "noopt"]), "exec:0"]
            k = len(allops) - 1
            exp = {"o%d.class" % k: klass}
            if expect_value is not None:
                exp["o%d.value" % k] = expect_value
            return Case("run", {"script": vlib.hx(src), "objs": objs, "ops": ";".join(allops)}, stream, expect=exp, note=src)
        def provs(v, name):
            ps = [("lit", lit(v), (), "N")]
            ps.append(("var", name, ("setvar:%s:%s" % (vlib.hx(name), enc_value(v)),), "N"))
            return ps
        for a in ARRAYS:
            n = len(a)
            for (pn, e, ops, objs) in provs(a, "va"):
                for i in list(range(-3, n + 4)) + [65535, 65536, 9223372036854775807]:
                    exp = enc_value(a[i]) if 0 <= i < n else "n"
                    out.append(case("return %s[%s];" % (e, lit(i)), exp, "array-index-" + pn, ops, objs))
                out.append(case("return len(%s);" % e, "i%d" % n, "len-" + pn, ops, objs))
                out.append(case("return %s;" % e, enc_value(a), "array-order-" + pn, ops, objs))
                acc = "o = []; n = 0; foreach i, x in %s { n = n + 1; t(i, x); } return n;" % e
                c = case(acc, "i%d" % n, "array-foreach-" + pn, ops, objs)
                k = max(int(kk[1:].split(".")[0]) for kk in c.expect)
                c.expect["o%d.trace" % k] = "+".join("74(i%d,%s)" % (i, enc_value(x)) for i, x in enumerate(a))
                out.append(c)
                for x in a + [99, "zz"]:
                    if isinstance(x, list):
                        continue
                    present = any((type(y) == type(x)) and y == x for y in a)
                    out.append(case("return (%s in %s);" % (lit(x), e), "b1" if present else "b0", "in-" + pn, ops, objs))
        # strings by character
        for s in STRINGS:
            n = len(s)
            for (pn, e, ops, objs) in provs(s, "vs"):
                for i in range(-2, n + 3):
                    exp = enc_value(s[i]) if 0 <= i < n else "n"
                    out.append(case("return %s[%d];" % (e, i) if i >= 0 else "return %s[%s];" % (e, lit(i)), exp, "string-index-" + pn, ops, objs))
                out.append(case("return len(%s);" % e, "i%d" % n, "len-" + pn, ops, objs))
                c = case("n = 0; foreach i, ch in %s { n++; t(i, ch); } return n;" % e, "i%d" % n, "string-foreach-" + pn, ops, objs)
                k = max(int(kk[1:].split(".")[0]) for kk in c.expect)
                c.expect["o%d.trace" % k] = "+".join("74(i%d,%s)" % (i, enc_value(x)) for i, x in enumerate(s))
                out.append(c)
        # ranges
        for a, b in [(0, 0), (1, 5), (3, 3), (0, 9), (65534, 65537)]:
            out.append(case("return %d..%d;" % (a, b), enc_value(list(range(a, b + 1))), "range"))
            out.append(case("return len(%d..%d);" % (a, b), "i%d" % (b - a + 1), "range"))
        out.append(case("return 5..1;", None, "range", klass="script-error"))
        out.append(case('return 1.."a";', None, "range", klass="script-error"))
        # hashes
        for h in HASHES:
            for (pn, e, ops, objs) in provs(h, "vh"):
                for k, v in h.items():
                    out.append(case("return %s[%s];" % (e, lit(k)), enc_value(v), "hash-get-" + pn, ops, objs))
                for k in ["nokey", 99, 2.5, "1 ", 0, 1.125, 0.75, -1.75, 2.75, 1.0, 4294967297, "a ", "A"]:
                    if k not in h or type(k) not in [type(x) for x in h if x == k]:
                        out.append(case("return %s[%s];" % (e, lit(k)), "n", "hash-absent-" + pn, ops, objs))
                out.append(case("return len(%s);" % e, "i%d" % len(h), "len-" + pn, ops, objs))
                ks = sorted(h.keys(), key=sort_key)
                out.append(case("return keys(%s);" % e, enc_value(ks), "hash-keys-" + pn, ops, objs))
                c = case("n = 0; foreach k, v in %s { n++; t(k, v); } return n;" % e, "i%d" % len(h), "hash-foreach-" + pn, ops, objs)
                kk = max(int(x[1:].split(".")[0]) for x in c.expect)
                c.expect["o%d.trace" % kk] = "+".join("74(%s,%s)" % (enc_value(k), enc_value(h[k])) for k in ks)
                out.append(c)
        # nested iteration over the same container / the same literal: each entry exactly once per loop
        for a in [[1, 2, 3], ["a", "b"]]:
            n = len(a)
            out.append(case("a = %s; n = 0; foreach x in a { foreach y in a { n++; } } return n;" % lit(a), "i%d" % (n * n), "nested-foreach"))
            out.append(case("n = 0; foreach x in %s { foreach y in %s { n++; } } return n;" % (lit(a), lit(a)), "i%d" % (n * n), "nested-foreach"))
        out.append(case('n = 0; foreach x in "abc" { foreach y in "abc" { n++; } } return n;', "i9", "nested-foreach"))
        out.append(case('h = {"a":1,"b":2}; n = 0; foreach k, v in h { foreach k2, v2 in h { n++; } } return n;', "i4", "nested-foreach"))
        # hash literal: later duplicates, key types distinct
        out.append(case('h = {1: "i", "1": "s", 1.5: "f"}; return [h[1], h["1"], h[1.5]];', enc_value(["i", "s", "f"]), "hash-types"))
        # `in` with arrays and hashes as elements: found only if present - member by member, a string is not the value it spells
        def same(x, y):
            if type(x) != type(y):
                return False
            if isinstance(x, list):
                return len(x) == len(y) and all(same(a, b) for a, b in zip(x, y))
            if isinstance(x, dict):
                return len(x) == len(y) and all(any(type(k) == type(k2) and k == k2 and same(v, v2) for k2, v2 in y.items()) for k, v in x.items())
            return x == y
        COMPOSITES = [[1, 2], ["1, 2"], ["1", "2"], [1, "2"], [[1, 2]], ["[1, 2]"], [[1], 2], ["a, b"], ["a", "b"], [], [[]], ["[]"], [""], [1], ["1"], [True], ["true"],
                      {"a": 1}, {"a": "1"}, {"a": 1, "b": 2}, {"a": "1, b: 2"}, {1: "x"}, {"1": "x"}, {}, {"a": [1, 2]}, {"a": ["1, 2"]}, {"k": {"a": 1}}, {"k": {"a": "1"}},
                      [{"a": 1}], [{"a": "1"}], ["{a: 1}"], [1, [2, [3]]], [1, [2, ["3"]]], ["1, [2, [3]]"], [None], ["null"], [1.5], ["1.5"]]
        for x in COMPOSITES:
            for _ in range(6 if tier == "thorough" else 2):
                hay = [rng.choice(COMPOSITES) for _ in range(rng.randint(0, 4))]
                for h2 in (hay, [y for y in hay if not same(x, y)], hay + [x]):
                    present = any(same(x, y) for y in h2)
                    out.append(case("return (%s in %s);" % (lit(x), lit(h2)), "b1" if present else "b0", "in-composite"))
                    out.append(case("x = %s; h = %s; n = 0; foreach y in h { if (x in [y]) { n++; } } return n;" % (lit(x), lit(h2)),
                                    "i%d" % sum(1 for y in h2 if same(x, y)), "in-composite"))
            for y in COMPOSITES:
                if lit(x) != lit(y) and rng.random() < (1.0 if tier == "thorough" else 0.15):
                    out.append(case("return [%s in [%s], %s in [%s]];" % (lit(x), lit(y), lit(y), lit(x)), enc_value([same(x, y), same(y, x)]), "in-composite"))
        # different strings with the same 64-bit FNV-1a hash are different keys (D47 repaired)
        for a, b in [("8yn0iYCKYHlIj4-BwPqk", "GReLUrM4wMqfg9yzV3KQ"), ("gMPflVXtwGDXbIhP73TX", "LtHf1prlU1bCeYZEdqWf"), ("pFuM83THhM-Qw8FI5FKo", ".jPx7rOtTDteKAwvfOEo")]:
            out.append(case('h = {"%s": 1, "%s": 2}; return [len(h), h["%s"], h["%s"], len(keys(h))];' % (a, b, a, b), enc_value([2, 1, 2, 2]), "hash-collision"))
            out.append(case('h = {"%s": 1}; return [h["%s"], "%s" in keys(h), h["%s"]];' % (a, b, b, a), enc_value([None, False, 1]), "hash-collision"))
            out.append(case('n = 0; foreach k, v in {"%s": 1, "%s": 2} { n = n + v; } return n;' % (a, b), "i3", "hash-collision"))
            out.append(case('return M["%s"] + M["%s"];' % (a, b), "i3", "hash-collision", objs=enc_struct([("M", {a: 1, b: 2})])))
        # a..b spanning (nearly) all the integers is not the empty range (D48 repaired): it cannot be built, and says so
        for src in ["a = 0 - 4611686018427387904; a = a - 4611686018427387904; r = a..9223372036854775807; return len(r);",
                    "a = 0 - 9223372036854775807; r = a..9223372036854775807; return len(r);", "a = 0 - 9223372036854775807; foreach x in (a - 1)..9223372036854775807 { return x; } return 0;"]:
            out.append(case(src, None, "range-overflow", klass="script-error"))
        # random container programs judged against the model
        import gen
        for _ in range(30000 if tier == "thorough" else 300):
            src = gen.container_program(rng)
            out.append(Case("run", gen.struct_case(rng, src, ["prepare:" + rng.choice(["opt", "noopt"]), "exec:0"]), "random-containers", note=src))
        return out

PROP = C16()

"""C09 - a deadline or cancellation stops any script promptly."""
import time, subprocess, os, json
from runner import Prop, Case
import vlib
from gen import enc_value

SPINNERS = [
    ("top-while", "n = 0; while (true) { n = n + 1; }"),
    ("top-for", "n = 0; for (1 < 2) { n++; }"),
    ("nested-loops", "while (true) { foreach x in 1..50 { foreach c in \"abcdef\" { n = x; } } }"),
    ("in-function", "function spin() { while (true) { k = 1; } } spin();"),
    ("depth-3", "function a() { return b(); } function b() { return c(); } function c() { while (true) { z = 1; } } r = a();"),
    ("depth-5", "function f1() { return f2(); } function f2() { return f3(); } function f3() { return f4(); } function f4() { return f5(); } function f5() { i = 0; while (i >= 0) { i = i + 1; } return i; } r = f1();"),
    ("recursion", "function r(n) { return r(n + 1); } x = r(0);"),
    ("loop-in-fn-in-loop", "function inner() { foreach q in 1..100 { foreach w in 1..100 { v = q * w; } } return 1; } while (true) { t = inner(); }"),
    ("foreach-big", "while (true) { foreach x in 1..1000 { y = x; } }"),
    ("switch-loop", "while (true) { switch (1) { case 2 { a = 1; } default { a = 2; } } }"),
    ("builtins", "while (true) { s = sort([3, 2, 1]); u = upper(\"abc\"); m = match(\"abc\", /b/); }"),
]
FINISHERS = [
    ("short", "n = 0; while (n < 10) { n++; } return n;", "i10"),
    ("calls", "function f(a) { return a + 1; } x = 0; foreach i in 1..20 { x = f(x); } return x;", "i20"),
    ("plain", "return 1 + 2;", "i3"),
]

class C09(Prop):
    id = "C09"
    compare_run = True
    property_obs = ("class", "value", "truth", "trace", "vars", "prep")
    rule = ("every looping shape (top level, inside user functions at call depth 1-5, nested loops, recursion, loops in functions in "
            "loops, built-ins in loops) x (a) LOGICAL deadlines: a context that is done from poll number d on, d in {0,1,2,5,17,100,1000,"
            "20000} - Go and the model must agree exactly on the outcome, the variables reached and the calls made (the model's theorems "
            "bound the instructions executed by d); (b) WALL-CLOCK deadlines {expired, 1, 20, 100, 300 ms} and explicit cancellation "
            "on the real implementation: Run must return an error within deadline + slack; terminating scripts must be unaffected")

    def cases(self, rng, tier):
        out = []
        ds = [0, 1, 2, 5, 17, 100, 1000, 20000]
        for (name, src) in SPINNERS:
            for d in ds:
                for mode in ("opt", "noopt"):
                    ops = ["addfn:%s:void" % vlib.hx("t"), "ctx:%d" % d, "prepare:" + mode, rng.choice(["exec:0", "run:0"])]
                    exp = {"o3.class": "timeout"}
                    out.append(Case("run", {"script": vlib.hx(src), "objs": "N", "ops": ";".join(ops)}, "logical-" + name, expect=exp, note=src))
        for (name, src, val) in FINISHERS:
            for d in ds + [250]:
                ops = ["ctx:%d" % d, "prepare:noopt", "exec:0"]
                out.append(Case("run", {"script": vlib.hx(src), "objs": "N", "ops": ";".join(ops)}, "finishers-" + name, note=src))
            ops = ["ctx:none", "prepare:noopt", "exec:0"]
            out.append(Case("run", {"script": vlib.hx(src), "objs": "N", "ops": ";".join(ops)}, "finishers-" + name,
                            expect={"o2.class": "ok", "o2.value": val}, note=src))
        # a deadline RENEWED on a long-lived evaluator: SetContext, then Prepare again (same script, same flags) - the new context must
        # be the one in force, whether the old one had no deadline, a longer one, or had already expired
        from gen import enc_struct
        for (name, body) in [("while", "while (Spin) { n = 1; } return 7;"), ("in-function", "function f() { while (Spin) { k = 1; } return 7; } return f();"),
                             ("foreach", "foreach x in [1, 2] { while (Spin) { k = x; } } return 7;")]:
            objs = enc_struct([("Spin", False)]) + ";" + enc_struct([("Spin", True)])
            for mode in ("opt", "noopt"):
                for d1, d2 in [("none", 50), (100000, 20), (1, "none"), (1, 100000), (30, 30)]:
                    first = "exec:1" if d1 == 1 else "exec:0"
                    ops = ["ctx:%s" % d1, "prepare:" + mode, first, "ctx:%s" % d2, "prepare:" + mode, "exec:1" if d2 not in ("none", 100000) else "exec:0"]
                    exp = {"o2.class": "timeout" if d1 == 1 else "ok", "o5.class": "ok" if d2 in ("none", 100000) else "timeout"}
                    if d2 in ("none", 100000):
                        exp["o5.value"] = "i7"
                    out.append(Case("run", {"script": vlib.hx(body), "objs": objs, "ops": ";".join(ops)}, "renewed-deadline-" + name, expect=exp, note=body))
        # context set AFTER Prepare does not reach the machine (the property says: given before Prepare)
        return out

    def extra_checks(self, tier, st, rng=None, cases=None, go=None):
        """wall-clock deadlines and cancellation on the real implementation"""
        spec = []
        deadlines = [0, 1, 20, 100, 300]
        reps = 3 if tier == "thorough" else 1
        for (name, src) in SPINNERS:
            for d in deadlines:
                for _ in range(reps):
                    spec.append({"name": name, "script": src, "deadline_ms": d, "cancel_ms": -1})
            spec.append({"name": name, "script": src, "deadline_ms": -1, "cancel_ms": rng.choice([0, 3, 30, 120])})
        for (name, src, val) in FINISHERS:
            spec.append({"name": name, "script": src, "deadline_ms": 500, "cancel_ms": -1, "finishes": True})
        path = os.path.join(vlib.BUILD, "cases", "c09-wall-%d.json" % os.getpid())
        os.makedirs(os.path.dirname(path), exist_ok=True)
        json.dump(spec, open(path, "w"))
        p = subprocess.run([os.path.join(vlib.BUILD, "harness"), "deadline", path], stdout=subprocess.PIPE, stderr=subprocess.PIPE, text=True, timeout=600)
        os.remove(path)
        viol = []
        slack_ms = 500
        worst = 0.0
        n = 0
        for line in p.stdout.splitlines():
            try:
                r = json.loads(line)
            except Exception:
                continue
            n += 1
            s = spec[r["i"]]
            if s.get("finishes"):
                if r["err"]:
                    viol.append((None, "script %s that finishes before its 500 ms deadline failed: %s" % (s["name"], r["errtext"])))
                continue
            budget = s["deadline_ms"] if s["deadline_ms"] >= 0 else s["cancel_ms"]
            over = r["elapsed_ms"] - max(budget, 0)
            worst = max(worst, over)
            if not r["returned"]:
                viol.append((None, "script %s did not stop within 3 s of a %d ms deadline/cancel" % (s["name"], budget)))
            elif not r["err"]:
                viol.append((None, "script %s returned without error under a %d ms deadline" % (s["name"], budget)))
            elif over > slack_ms:
                viol.append((None, "script %s stopped %.0f ms after its %d ms deadline/cancel (slack %d ms)" % (s["name"], over, budget, slack_ms)))
            if s["deadline_ms"] == 0 and r.get("hostcalls", 0) > 0:
                viol.append((None, "script %s ran host calls although the context had already expired" % s["name"]))
        if p.returncode != 0 or n != len(spec):
            viol.append((None, "deadline harness failed: rc=%s n=%d/%d %s" % (p.returncode, n, len(spec), p.stderr[-300:])))
        return viol, {"wall_clock_runs": n, "worst_overrun_ms": round(worst, 1), "slack_ms": slack_ms}

PROP = C09()

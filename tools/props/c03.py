"""C03 - the optimizer never changes what a script does."""
from runner import Prop, Case
import gen, vlib, json, os

OPT_VAR = vlib.hx("OPTIMIZE")

def strip_opt(vars_field):
    return "&".join(p for p in (vars_field or "").split("&") if p and not p.startswith(OPT_VAR + "="))

def op_table():
    t = json.load(open(os.path.join(vlib.BUILD, "tables.json")))["op_table"]
    return {e["byte"]: (e["name"], e["length"]) for e in t}

def count_op(prog, name, table):
    """count instructions called `name` in the main body and every function body of an encoded program"""
    try:
        main = prog.split("~M", 1)[1].split("~F", 1)
        bodies = [main[0]] + [f.rsplit(".", 1)[1] for f in main[1].split("+") if f]
    except Exception:
        return 0
    n = 0
    for b in bodies:
        code = bytes.fromhex(b)
        ip = 0
        while ip < len(code):
            nm, ln = table.get(code[ip], ("?", 1))
            if nm == name:
                n += 1
            ip += ln
    return n

class C03(Prop):
    id = "C03"
    compare_run = True
    property_obs = ("class", "value", "truth", "trace", "vars", "get", "prep")
    rule = ("each generated script is prepared twice (default and NoOptimize) and run 2-3 times on the same object sequence; the two "
            "evaluators must agree on class, value, host-call trace and variables (the OPTIMIZE switch variable excepted) - Go against Go; "
            "both are also compared with the model (optimized byte-code byte for byte against the model optimizer). Generator: >= 30% of "
            "operands constant, constant arithmetic / comparisons / conditions inside and next to every construct (ternary arms and "
            "conditions, loop heads, case labels, call arguments, after join points). non-trivial = the optimizer changed the byte-code")

    def gen_script(self, rng, sqrt):
        g = gen.Gen(rng, max_depth=rng.choice([1, 2, 3]), illtyped=0.03, use_sqrt=sqrt)
        # bias towards constants: no variables/fields half of the time in expressions
        if rng.random() < 0.5:
            g.use_fields = False
        src = g.program(depth=rng.choice([1, 2]))
        return src

    def cases(self, rng, tier):
        out = []
        n = 12000 if tier == "thorough" else 900
        consts = ["(1 + 2)", "(2 * 3 + 4)", "(10 / 2)", "(7 - 7)", "(1 == 1)", "(1 != 1)", "(3 == 4)", "(2 - 3)", "(65534 + 1)", "(300 * 300)", "(1 / 0)", "(0 / 5)"]
        templates = [
            "return (%s ? 2 : 3) + 4;", "x = (A ? %s : %s); return x * 2;", "if (%s) { t(1); } else { t(2); } return %s;",
            "if (%s) { t(1); } t(2); if (%s) { t(3); } else if (%s) { t(4); } return 5 + 6;",
            "i = 0; while (i < %s) { t(i); i++; } return i + %s;", "foreach x in [%s, %s] { t(x + 1); } return %s;",
            "switch (%s) { case %s { t(1); } case 3 { t(3); } default { t(0); } } return %s;",
            "function f(a) { if (%s) { return a + %s; } return %s; } r = f(%s); return r;", "return u(%s, %s) + %s;",
            "x = %s; if (x == %s) { return 1 + 1; } return 2 + 2;", "return [%s, %s][%s == %s];", "t(%s); return (%s && A) || (%s);",
            "if (A) { return %s; } return %s;", "x = A ? %s : %s; y = x + %s; return y;", "return (%s) + (A ? 1 : 2) + (%s);",
            "while (%s) { t(1); return %s; } return %s;", "return %s %% %s;".replace("%%", "%%"),
        ]
        gid = 0
        def add(src, stream, objs=None):
            nonlocal gid
            gid += 1
            objs = objs or [gen.enc_struct(gen.rand_object(rng) + [("A", rng.random() < 0.5)])]
            runs = rng.choice([1, 2, 3])
            for mode in ("opt", "noopt"):
                f = gen.struct_case(rng, src, ["prepare:" + mode] + ["exec:0"] * runs + ["getvar:" + vlib.hx("x")], objs=objs)
                out.append(Case("run", f, stream + "-" + mode, group="G%d" % gid, note=src))
        for _ in range(n):
            add(self.gen_script(rng, False), "programs")
        for _ in range(n // 3):
            t = rng.choice(templates)
            k = t.count("%s")
            src = t % tuple(rng.choice(consts + ["A", "Count", "1", "0", "true", "false"]) for _ in range(k))
            add(src, "templates")
        for _ in range(n // 10):
            add(self.gen_script(rng, True), "sqrt")
        # the switch itself is a variable scripts can read (known finding D23)
        for src in ["return OPTIMIZE;", "if (OPTIMIZE) { return 1; } return 2;", "x = OPTIMIZE; return [x, 1];", "return type(OPTIMIZE);"]:
            add(src, "optimize-visible", objs=["N"])
        # dense constant arithmetic: nested trees over integer literals whose intermediate results leave the
        # inline range (negative, > 65534), are zero (division), or fold in several steps
        def cexpr(d):
            if d <= 0 or rng.random() < 0.3:
                return str(rng.choice([0, 1, 2, 3, 5, 7, 10, 60, 24, 100, 300, 1000, 65534, 65535]))
            op = rng.choice(["+", "-", "*", "/", "+", "-", "*"])
            l, r = cexpr(d - 1), cexpr(d - 1)
            form = rng.random()
            if form < 0.5:
                return "(%s %s %s)" % (l, op, r)
            if form < 0.75:
                return "%s %s (%s)" % (l, op, r)
            return "%s %s %s" % (l, op, r)
        ctx = ["return %s;", "x = %s; return x;", "if (%s > 3) { t(1); } else { t(2); } return 0;", "return u(%s);", "x = A ? %s : 2; return x;",
               "i = 0; while (i < (%s)) { i++; if (i > 3) { return i; } } return i;", "return [%s, 1][0];", "function f(a) { return a + %s; } return f(1);",
               "return %s == %s;", "switch (%s) { case 0 { t(0); } case 1 { t(1); } default { t(9); } } return 1;", "return Count + %s;", "return %s + Count;"]
        for _ in range(n):
            c = rng.choice(ctx)
            add(c % tuple(cexpr(rng.choice([2, 3, 4])) for _ in range(c.count("%s"))), "const-arith")
        return out

    def judge_groups(self, groups, go):
        out = []
        self.opt_changed = 0
        for name, cs in groups.items():
            a, b = go.get(cs[0].cid), go.get(cs[1].cid)
            if not a or not b:
                continue
            if a.get("o2.prog") != a.get("o2.uprog"):
                self.opt_changed += 1
            tb = op_table()
            if count_op(a.get("o2.prog", ""), "OpSquareRoot", tb) < count_op(a.get("o2.uprog", ""), "OpSquareRoot", tb):
                cs[0].tags.add("sqrt-fold")
            keys = sorted(k for k in set(a) | set(b) if k[0] == "o" and "." in k)
            for k in keys:
                suf = k.split(".", 1)[1]
                if suf in ("prog", "uprog", "residue", "scopes"):
                    continue
                x, y = a.get(k), b.get(k)
                if suf == "vars":
                    x, y = strip_opt(x), strip_opt(y)
                if x != y:
                    out.append((cs[0], "optimized and unoptimized preparation differ on %s: optimized=%s unoptimized=%s" % (k, x, y)))
                    break
        return out

    def in_class(self, klass, case):
        if klass == "optimize-visible":
            return "OPTIMIZE" in vlib.unhxs(case.fields.get("script", ""))
        if klass == "sqrt-fold":
            # the optimizer actually removed a square-root instruction from this script
            return "sqrt-fold" in case.tags and "√" in vlib.unhxs(case.fields.get("script", ""))
        return False

    def extra_checks(self, tier, st, rng=None, cases=None, go=None):
        # translation validation: every (unoptimized, optimized) pair the implementation produced goes through the
        # validated optimizer of Model/OptSafe.v (theorems C03_optimized_simulates / C03_unoptimized_simulates)
        lines, meta, seen = [], [], set()
        for c in cases:
            g = go.get(c.cid)
            if not g:
                continue
            for k in list(g):
                if k.endswith(".prog") and g.get(k[:-4] + "uprog") and g[k] != "UNOPT-REJECTED" and len(g[k]) < 300000:
                    u = g[k[:-4] + "uprog"]
                    if u == g[k] or (u, g[k]) in seen:
                        continue
                    seen.add((u, g[k]))
                    cid = "T%d" % len(lines)
                    lines.append(vlib.case_line(cid, "validate", uprog=u, prog=g[k]))
                    meta.append((cid, c))
        res, crashed = vlib.run_model(lines, tag="C03-validate") if lines else ({}, [])
        viol, ok, refused, refused_sqrt = [], 0, 0, 0
        for (cid, c) in meta:
            v = (res.get(cid) or {}).get("valid")
            if v == "ok":
                ok += 1
            elif v == "refused":
                refused += 1
                if "sqrt-fold" in c.tags:
                    refused_sqrt += 1
                viol.append((c, "the optimizer's rewrite of this program is not validated: some step is not shown to preserve behaviour "
                                "(theorems C03_optimized_simulates / C03_unoptimized_simulates do not apply)"))
            elif v and v.startswith("mismatch"):
                viol.append((c, "the implementation's optimized program differs from what the validated optimizer produces for its unoptimized program"))
        if crashed:
            viol.append((None, "the validator process crashed: %s" % (crashed[:1],)))
        return viol, {"optimizer_changed_bytecode_in": getattr(self, "opt_changed", 0), "programs_validated": ok,
                      "validator_refused": refused, "validator_refused_sqrt_fold": refused_sqrt}

PROP = C03()
